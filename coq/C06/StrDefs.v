(* C06 -- executable model of liba's dynamic string (src/str.c, a_utf_encode of src/utf.c).

   NO PROOFS IN THIS FILE.  Every definition below is run (extracted to OCaml) against the C
   implementation by checks/C06.py; the theorems of StrProofs.v / Properties_C06.v are about
   exactly these definitions.

   Conventions
   * a byte is an [N] (0..255); storage is a [list N] whose length is the size of the heap block.
   * a_size arithmetic is written with the wrap ([wadd]/[wsub] = mod 2^64) wherever the C adds or
     subtracts sizes.
   * Every read/write through ptr_ is bounds checked against the block: an access outside the
     block makes the function return [None] ("fault": what AddressSanitizer reports on the C).
   * Allocation is explicit: every a_alloc request with size > 0 consumes one boolean of a fault
     schedule (empty schedule = every request succeeds) and every a_alloc call is logged as an
     event.  A failing request returns NULL and leaves the old block alone.
   * Fresh heap bytes (malloc / the tail added by realloc) are indeterminate in C.  The harness'
     allocator fills them with 0xA5 and the model does the same ([poison]) so that whole blocks
     can be compared.  No theorem depends on the value of [poison] except that the text says
     "some bytes" where the C exposes indeterminate storage (a_str_setn beyond the content).
   * `char` is signed (x86-64 System V): (int)ptr_[i] sign-extends ([schar]).
   * vsnprintf is not modelled from its source: [vsn] below IS the assumed contract, and the text
     the formatter produces is an argument of the operation.
   * isspace is the "C" locale set {9,10,11,12,13,32}.

   The model follows the REPAIRED code (proposed_fixes/C06-1.diff: a_str_exit reserves room for
   the terminator; C06-2.diff: a_str_cat/a_str_cat_ reserve before reading obj so that obj may be
   ctx itself; C07-str-1.diff: a failed a_str_catv stores the terminator again).  The code as
   found is kept as [exit_orig] / [cat_self_orig_uaf] (and coq/C07/StrFaultDefs.v [catv_orig]) for
   the refutations. *)
From Coq Require Import NArith ZArith List Bool.
Import ListNotations.
Local Open Scope N_scope.

(* ------------------------------------------------------------------ machine words *)
Definition W64 : N := 18446744073709551616.
Definition wrap (x : N) : N := x mod W64.
Definition wadd (a b : N) : N := wrap (a + b).
Definition wsub (a b : N) : N := wrap (a + W64 - b).          (* for a, b < 2^64 *)

(* ------------------------------------------------------------------ blocks of bytes *)
Definition poison : N := 165.

Definition len (l : list N) : N := N.of_nat (length l).
Definition take (n : N) (l : list N) : list N := firstn (N.to_nat n) l.
Definition drop (n : N) (l : list N) : list N := skipn (N.to_nat n) l.
Definition fresh (n : N) : list N := repeat poison (N.to_nat n).

(* bounds-checked accesses *)
Definition get (i : N) (l : list N) : option N := nth_error l (N.to_nat i).
Definition put (i v : N) (l : list N) : option (list N) :=
  if i <? len l then Some (take i l ++ v :: drop (i + 1) l) else None.
Definition blit (i : N) (src l : list N) : option (list N) :=          (* memcpy/memmove into l at i *)
  if i + len src <=? len l then Some (take i l ++ src ++ drop (i + len src) l) else None.
Definition sub (i n : N) (l : list N) : option (list N) :=             (* the n bytes at i *)
  if i + n <=? len l then Some (take n (drop i l)) else None.

(* ------------------------------------------------------------------ allocator *)
Definition sched := list bool.
Definition next_ok (sc : sched) : bool * sched :=
  match sc with [] => (true, []) | b :: r => (b, r) end.

Inductive ev : Type :=
| EvMalloc (size : N) (ok : bool)
| EvRealloc (old size : N) (ok : bool)
| EvFree (old : N)
| EvFreeNull.

(* a_alloc(addr, size): size = 0 frees, addr = NULL mallocs, otherwise reallocs (src/a.c) *)
Definition a_alloc (addr : option (list N)) (size : N) (sc : sched)
  : option (list N) * sched * list ev :=
  if size =? 0 then
    (None, sc, [match addr with None => EvFreeNull | Some b => EvFree (len b) end])
  else
    let (ok, sc') := next_ok sc in
    match addr with
    | None => if ok then (Some (fresh size), sc', [EvMalloc size true])
              else (None, sc', [EvMalloc size false])
    | Some b => if ok then (Some (take size b ++ fresh (size - len b)), sc', [EvRealloc (len b) size true])
                else (None, sc', [EvRealloc (len b) size false])
    end.

(* ------------------------------------------------------------------ a_str *)
Record str : Type := mkStr { ptr : option (list N); num : N; mem : N }.

Definition str_init : str := mkStr None 0 0.                 (* A_STR_INIT / a_str_ctor *)

Definition A_SUCCESS : Z := 0%Z.
Definition A_OBOUNDS : Z := 3%Z.
Definition A_OMEMORY : Z := 4%Z.

(* a_size_up(8, n) = (n + 7) & ~7 in a_size (8 = size of a pointer) *)
Definition size_up8 (m : N) : N := N.ldiff (wadd m 7) 7.

(* results: pure functions return [option (A * str)], allocating ones also the rest of the
   schedule and their allocator events; [None] = out-of-block access *)
Definition pres (A : Type) : Type := option (A * str).
Definition ares (A : Type) : Type := option (A * str * sched * list ev).

(* int a_str_setm_(a_str *ctx, a_size mem)                                   str.c:64-76 *)
Definition setm_ (s : str) (m : N) (sc : sched) : Z * str * sched * list ev :=
  let m' := size_up8 m in
  let '(p, sc', e) := a_alloc (ptr s) m' sc in
  match p with
  | Some _ => (A_SUCCESS, mkStr p (num s) m', sc', e)
  | None => if m' =? 0 then (A_SUCCESS, mkStr None (num s) 0, sc', e)
            else (A_OMEMORY, s, sc', e)
  end.

(* int a_str_setm(a_str *ctx, a_size mem)                                    str.c:78-85 *)
Definition setm (s : str) (m : N) (sc : sched) : Z * str * sched * list ev :=
  if mem s <? m then setm_ s m sc else (A_SUCCESS, s, sc, []).

(* a_str_setn_ / a_str_setn                                                  str.h:94-108 *)
Definition setn_ (s : str) (n : N) : str := mkStr (ptr s) n (mem s).
Definition setn (s : str) (n : N) : Z * str :=
  if n <=? mem s then (A_SUCCESS, mkStr (ptr s) n (mem s)) else (A_OBOUNDS, s).

(* void a_str_dtor(a_str *ctx)                                               str.c:32-41 *)
Definition dtor (s : str) : str * list ev :=
  match ptr s with
  | Some b => (str_init, [EvFree (len b)])
  | None => (str_init, [])
  end.

(* (int)(char)byte and (char)int *)
Definition schar (c : N) : Z := if c <? 128 then Z.of_N c else (Z.of_N c - 256)%Z.
Definition uchar (c : Z) : N := Z.to_N (c mod 256)%Z.

(* int a_str_getc_(a_str *ctx)                                               str.c:112-120 *)
Definition getc_ (s : str) : pres Z :=
  if num s =? 0 then Some ((-1)%Z, s)
  else
    let n := wsub (num s) 1 in
    match ptr s with
    | None => None
    | Some b => match get n b with
                | None => None
                | Some c => Some (schar c, mkStr (ptr s) n (mem s))
                end
    end.

(* int a_str_getc(a_str *ctx)                                                str.c:122-131 *)
Definition getc (s : str) : pres Z :=
  if num s =? 0 then Some ((-1)%Z, s)
  else
    let n := wsub (num s) 1 in
    match ptr s with
    | None => None
    | Some b => match get n b with
                | None => None
                | Some c => match put n 0 b with
                            | None => None
                            | Some b' => Some (schar c, mkStr (Some b') n (mem s))
                            end
                end
    end.

(* int a_str_catc_(a_str *ctx, int c)                                        str.c:133-141 *)
Definition catc_ (s : str) (c : Z) (sc : sched) : ares Z :=
  let '(rc, s1, sc1, e) := setm s (wadd (num s) 1) sc in
  if (rc =? 0)%Z then
    match ptr s1 with
    | None => None
    | Some b => match put (num s1) (uchar c) b with
                | None => None
                | Some b' => Some (c, mkStr (Some b') (wadd (num s1) 1) (mem s1), sc1, e)
                end
    end
  else Some ((-1)%Z, s1, sc1, e).

(* int a_str_catc(a_str *ctx, int c)                                         str.c:143-152 *)
Definition catc (s : str) (c : Z) (sc : sched) : ares Z :=
  let '(rc, s1, sc1, e) := setm s (wadd (num s) 2) sc in
  if (rc =? 0)%Z then
    match ptr s1 with
    | None => None
    | Some b => match put (num s1) (uchar c) b with
                | None => None
                | Some b1 => let n := wadd (num s1) 1 in
                             match put n 0 b1 with
                             | None => None
                             | Some b2 => Some (c, mkStr (Some b2) n (mem s1), sc1, e)
                             end
                end
    end
  else Some ((-1)%Z, s1, sc1, e).

(* a_size a_str_getn_(a_str *ctx, void *pdata, a_size nbyte)                 str.c:154-163
   [want] = pdata is not NULL; the result carries the bytes copied out *)
Definition getn_ (s : str) (want : bool) (nbyte : N) : pres (N * list N) :=
  let nb := if num s <? nbyte then num s else nbyte in
  if nb =? 0 then Some ((nb, []), s)
  else
    let n := wsub (num s) nb in
    if want then
      match ptr s with
      | None => None
      | Some b => match sub n nb b with
                  | None => None
                  | Some d => Some ((nb, d), mkStr (ptr s) n (mem s))
                  end
      end
    else Some ((nb, []), mkStr (ptr s) n (mem s)).

(* a_size a_str_getn(a_str *ctx, void *pdata, a_size nbyte)                  str.c:165-175 *)
Definition getn (s : str) (want : bool) (nbyte : N) : pres (N * list N) :=
  let nb := if num s <? nbyte then num s else nbyte in
  if nb =? 0 then Some ((nb, []), s)
  else
    let n := wsub (num s) nb in
    match ptr s with
    | None => None
    | Some b =>
        match (if want then sub n nb b else Some []) with
        | None => None
        | Some d => match put n 0 b with
                    | None => None
                    | Some b' => Some ((nb, d), mkStr (Some b') n (mem s))
                    end
        end
    end.

(* int a_str_catn_(a_str *ctx, void const *pdata, a_size nbyte)              str.c:177-186 *)
Definition catn_ (s : str) (d : list N) (sc : sched) : ares Z :=
  let nbyte := len d in
  let '(rc, s1, sc1, e) := setm s (wadd (num s) nbyte) sc in
  if (rc =? 0)%Z && negb (nbyte =? 0) then
    match ptr s1 with
    | None => None
    | Some b => match blit (num s1) d b with
                | None => None
                | Some b' => Some (rc, mkStr (Some b') (wadd (num s1) nbyte) (mem s1), sc1, e)
                end
    end
  else Some (rc, s1, sc1, e).

(* int a_str_catn(a_str *ctx, void const *pdata, a_size nbyte)               str.c:188-201 *)
Definition catn (s : str) (d : list N) (sc : sched) : ares Z :=
  let nbyte := len d in
  let '(rc, s1, sc1, e) := setm s (wadd (wadd (num s) nbyte) 1) sc in
  if (rc =? 0)%Z then
    match ptr s1 with
    | None => None
    | Some b =>
        match (if nbyte =? 0 then Some (b, num s1)
               else match blit (num s1) d b with
                    | None => None
                    | Some b' => Some (b', wadd (num s1) nbyte)
                    end) with
        | None => None
        | Some (b1, n1) => match put n1 0 b1 with
                           | None => None
                           | Some b2 => Some (rc, mkStr (Some b2) n1 (mem s1), sc1, e)
                           end
        end
    end
  else Some (rc, s1, sc1, e).

(* strlen: the bytes before the first NUL (the harness always supplies a terminated buffer) *)
Fixpoint cstr (l : list N) : list N :=
  match l with
  | [] => []
  | x :: r => if x =? 0 then [] else x :: cstr r
  end.

(* a_str_cats_ / a_str_cats                                                  str.c:203-210 *)
Definition cats_ (s : str) (d : list N) (sc : sched) : ares Z := catn_ s (cstr d) sc.
Definition cats (s : str) (d : list N) (sc : sched) : ares Z := catn s (cstr d) sc.

(* a_str_cat_ / a_str_cat with proposed_fixes/C06-2.diff:
     rc = a_str_setm(ctx, ctx->num_ + obj->num_ [+ 1]);
     if (rc == 0) { rc = a_str_catn[_](ctx, obj->ptr_, obj->num_); }
   obj->ptr_ is read after the reservation.  [obj = None] means obj == ctx. *)
Definition obj_bytes (o : str) : option (list N) :=
  if num o =? 0 then Some []                      (* nbyte = 0: pdata is never dereferenced *)
  else match ptr o with
       | None => None
       | Some b => sub 0 (num o) b
       end.

Definition cat_gen (term : bool) (s : str) (obj : option str) (sc : sched) : ares Z :=
  let onum := match obj with Some o => num o | None => num s end in
  let need := if term then wadd (wadd (num s) onum) 1 else wadd (num s) onum in
  let '(rc, s1, sc1, e1) := setm s need sc in
  if (rc =? 0)%Z then
    match obj_bytes (match obj with Some o => o | None => s1 end) with
    | None => None
    | Some d =>
        match (if term then catn s1 d sc1 else catn_ s1 d sc1) with
        | None => None
        | Some (rc2, s2, sc2, e2) => Some (rc2, s2, sc2, e1 ++ e2)
        end
    end
  else Some (rc, s1, sc1, e1).

Definition cat_ (s : str) (obj : option str) (sc : sched) : ares Z := cat_gen false s obj sc.
Definition cat (s : str) (obj : option str) (sc : sched) : ares Z := cat_gen true s obj sc.

(* the code as found: a_str_cat(ctx, ctx) passes ctx->ptr_ to a_str_catn, whose a_str_setm may
   move the block before a_copy reads from the old address.  [true] = use after free. *)
Definition cat_self_orig_uaf (s : str) (sc : sched) : bool :=
  let '(rc, s1, _, e) := setm s (wadd (wadd (num s) (num s)) 1) sc in
  (rc =? 0)%Z && negb (num s =? 0) &&
  match e with EvRealloc _ _ true :: _ => true | _ => false end.

(* the assumed contract of vsnprintf(dst + off, room, fmt, ...) when the formatter produces
   [text]: nothing is written if room = 0 (dst may be NULL); otherwise min(|text|, room-1) bytes
   of text and a NUL.  The return value is |text| (the caller computes it). *)
Definition vsn (dst : option (list N)) (off room : N) (text : list N) : option (option (list N)) :=
  if room =? 0 then Some dst
  else match dst with
       | None => None
       | Some b =>
           let k := if len text <? room then len text else room - 1 in
           match blit off (take k text ++ [0]) b with
           | None => None
           | Some b' => Some (Some b')
           end
       end.

(* if (ctx->num_ < ctx->mem_) { ctx->ptr_[ctx->num_] = 0; }
   (failure path of a_str_catv with proposed_fixes/C07-str-1.diff) *)
Definition reterm (s : str) : option str :=
  if num s <? mem s then
    match ptr s with
    | None => None
    | Some b => match put (num s) 0 b with
                | None => None
                | Some b' => Some (mkStr (Some b') (num s) (mem s))
                end
    end
  else Some s.

(* int a_str_catv(a_str *ctx, char const *fmt, va_list va)                   str.c:229-250
   [out] = what the formatter produces for (fmt, va); 0 <= |out| < INT_MAX.
   When the growth is refused the repaired code stores the terminator again (the measuring pass
   has overwritten it); the code as found is coq/C07/StrFaultDefs.v [catv_orig]. *)
Definition catv (s : str) (out : list N) (sc : sched) : ares Z :=
  let room := wsub (mem s) (num s) in
  match vsn (ptr s) (num s) room out with
  | None => None
  | Some p1 =>
      let res := len out in
      let need := wadd (num s) (wadd res 1) in
      let s0 := mkStr p1 (num s) (mem s) in
      if mem s <? need then
        let '(rc, s1, sc1, e) := setm_ s0 need sc in
        if (rc =? 0)%Z then
          match vsn (ptr s1) (num s1) (wsub (mem s1) (num s1)) out with
          | None => None
          | Some p2 =>
              Some (Z.of_N res,
                    mkStr p2 (if 0 <? res then wadd (num s1) res else num s1) (mem s1), sc1, e)
          end
        else match reterm s1 with
             | None => None
             | Some s2 => Some (0%Z, s2, sc1, e)
             end
      else
        Some (Z.of_N res, mkStr p1 (if 0 <? res then wadd (num s) res else num s) (mem s), sc, [])
  end.

(* isspace in the "C" locale; memchr(s, c, n) *)
Definition isspace (c : N) : bool := ((9 <=? c) && (c <=? 13)) || (c =? 32).
Definition inset (set : list N) (c : N) : bool :=
  match set with
  | [] => isspace c
  | _ => existsb (N.eqb c) set
  end.

(* void a_str_rtrim_(a_str *ctx, char const *s, a_size n)                    str.c:264-282
   the loop  while (ctx->num_ && in(p[i])) ctx->num_ = i--;  runs at most num_ times *)
Fixpoint rtrim_loop (fuel : nat) (set : list N) (b : list N) (n : N) : option N :=
  match fuel with
  | O => Some n
  | S f => if n =? 0 then Some n
           else match get (n - 1) b with
                | None => None
                | Some c => if inset set c then rtrim_loop f set b (n - 1) else Some n
                end
  end.

Definition rtrim_ (s : str) (set : list N) : pres unit :=
  if num s =? 0 then Some (tt, s)
  else match ptr s with
       | None => None
       | Some b => match rtrim_loop (N.to_nat (num s)) set b (num s) with
                   | None => None
                   | Some n => Some (tt, mkStr (ptr s) n (mem s))
                   end
       end.

(* terminate after a trim that removed something:  if (ctx->num_ < num) ctx->ptr_[ctx->num_] = 0 *)
Definition term_if_shorter (old : N) (s : str) : pres unit :=
  if num s <? old then
    match ptr s with
    | None => None
    | Some b => match put (num s) 0 b with
                | None => None
                | Some b' => Some (tt, mkStr (Some b') (num s) (mem s))
                end
    end
  else Some (tt, s).

Definition rtrim (s : str) (set : list N) : pres unit :=
  match rtrim_ s set with
  | None => None
  | Some (_, s1) => term_if_shorter (num s) s1
  end.

(* void a_str_ltrim_(a_str *ctx, char const *s, a_size n)                    str.c:293-311 *)
Fixpoint lcount (set : list N) (l : list N) : N :=
  match l with
  | [] => 0
  | c :: r => if inset set c then 1 + lcount set r else 0
  end.

Definition ltrim_ (s : str) (set : list N) : pres unit :=
  if num s =? 0 then Some (tt, s)
  else match ptr s with
       | None => None
       | Some b =>
           match sub 0 (num s) b with
           | None => None
           | Some content =>
               let i := lcount set content in
               if i =? 0 then Some (tt, s)
               else
                 let n := wsub (num s) i in
                 match sub i n b with                       (* a_move(ptr_, p, num) *)
                 | None => None
                 | Some moved => match blit 0 moved b with
                                 | None => None
                                 | Some b' => Some (tt, mkStr (Some b') n (mem s))
                                 end
                 end
           end
       end.

Definition ltrim (s : str) (set : list N) : pres unit :=
  match ltrim_ s set with
  | None => None
  | Some (_, s1) => term_if_shorter (num s) s1
  end.

(* a_str_trim_ / a_str_trim                                                  str.c:322-335 *)
Definition trim_ (s : str) (set : list N) : pres unit :=
  match rtrim_ s set with
  | None => None
  | Some (_, s1) => ltrim_ s1 set
  end.

Definition trim (s : str) (set : list N) : pres unit :=
  match trim_ s set with
  | None => None
  | Some (_, s1) => term_if_shorter (num s) s1
  end.

(* memcmp on two equally long byte lists, reduced to its sign *)
Fixpoint memcmp (a b : list N) : Z :=
  match a, b with
  | x :: a', y :: b' => if x <? y then (-1)%Z else if y <? x then 1%Z else memcmp a' b'
  | _, _ => 0%Z
  end.

(* int a_str_cmp_(void const *p0, a_size n0, void const *p1, a_size n1)      str.c:87-95
   the result is reduced to its sign (memcmp's magnitude is unspecified) *)
Definition lencmp (n0 n1 : N) : Z :=
  ((if (n1 <? n0)%N then 1 else 0) - (if (n0 <? n1)%N then 1 else 0))%Z.

Definition cmp_ (p0 : option (list N)) (n0 : N) (p1 : option (list N)) (n1 : N) : option Z :=
  match p0, p1 with
  | Some a, Some b =>
      let k := if n0 <? n1 then n0 else n1 in
      match sub 0 k a, sub 0 k b with
      | Some x, Some y => let rc := memcmp x y in
                          if (rc =? 0)%Z then Some (lencmp n0 n1) else Some rc
      | _, _ => None
      end
  | _, _ => Some (lencmp n0 n1)
  end.

Definition cmp (l r : str) : option Z := cmp_ (ptr l) (num l) (ptr r) (num r).
Definition cmpn (s : str) (d : list N) : option Z := cmp_ (ptr s) (num s) (Some d) (len d).
Definition cmps (s : str) (d : list N) : option Z := cmpn s (cstr d).

(* unsigned a_utf_encode(a_u32 val, void *buf)                               utf.c:3-82 *)
Fixpoint enc_tail (k : nat) (x : N) (acc : list N) : N * list N :=
  match k with
  | O => (x, acc)
  | S k' => enc_tail k' (N.shiftr x 6) (N.lor 128 (N.land x 63) :: acc)
  end.
Definition enc (k : nat) (mask x : N) : list N :=
  let (x', t) := enc_tail (Nat.pred k) x [] in (N.lor mask x' mod 256) :: t.

Definition utf_encode (val : N) : list N :=
  let x := N.land val 2147483647 in
  if x <? 65536 then
    if x <? 2048 then
      if x <? 128 then (if 0 <? x then enc 1 0 x else [])
      else enc 2 192 x
    else enc 3 224 x
  else
    if x <? 2097152 then enc 4 240 x
    else if x <? 67108864 then enc 5 248 x
         else enc 6 252 x.

(* int a_utf_catc(a_str *ctx, a_u32 c)                                       str.c:344-355 *)
Definition utf_catc (s : str) (c : N) (sc : sched) : ares Z :=
  let '(rc, s1, sc1, e) := setm s (wadd (num s) 7) sc in
  if (rc =? 0)%Z then
    match ptr s1 with
    | None => None
    | Some b =>
        let bytes := utf_encode c in
        let n := len bytes in
        match blit (num s1) bytes b with
        | None => None
        | Some b1 => match put (num s1 + n) 0 b1 with            (* p[n] = 0, p = ptr_ + old num_ *)
                     | None => None
                     | Some b2 => Some (rc, mkStr (Some b2) (wadd (num s1) n) (mem s1), sc1, e)
                     end
        end
    end
  else Some (rc, s1, sc1, e).

(* char *a_str_exit(a_str *ctx) with proposed_fixes/C06-1.diff               str.c:51-62
     if (ctx->ptr_) { if (a_str_setm(ctx, ctx->num_ + 1)) return NULL; str = ptr_; str[num_] = 0; ...
   result: the block handed over (None = NULL) *)
Definition exit (s : str) (sc : sched) : ares (option (list N)) :=
  match ptr s with
  | None => Some (None, str_init, sc, [])
  | Some _ =>
      let '(rc, s1, sc1, e) := setm s (wadd (num s) 1) sc in
      if (rc =? 0)%Z then
        match ptr s1 with
        | None => None
        | Some b => match put (num s1) 0 b with
                    | None => None
                    | Some b' => Some (Some b', str_init, sc1, e)
                    end
        end
      else Some (None, s1, sc1, e)
  end.

(* the code as found: ctx->ptr_[ctx->num_] = 0 without looking at mem_ *)
Definition exit_orig (s : str) : pres (option (list N)) :=
  match ptr s with
  | None => Some (None, str_init)
  | Some b => match put (num s) 0 b with
              | None => None
              | Some b' => Some (Some b', str_init)
              end
  end.

(* ------------------------------------------------------------------ the machine: two strings *)
Inductive tgt : Type := TA | TB.

Record mstate : Type := mkM { sA : str; sB : str; sch : sched }.

Definition m_init (sc : sched) : mstate := mkM str_init str_init sc.

Definition sel (t : tgt) (m : mstate) : str := match t with TA => sA m | TB => sB m end.
Definition oth (t : tgt) (m : mstate) : str := match t with TA => sB m | TB => sA m end.
Definition upd (t : tgt) (s : str) (sc : sched) (m : mstate) : mstate :=
  match t with TA => mkM s (sB m) sc | TB => mkM (sA m) s sc end.

Inductive op : Type :=
| ODtor (t : tgt)
| OSwap
| OExit (t : tgt)
| OSetm (t : tgt) (m : N)
| OSetm_ (t : tgt) (m : N)
| OSetn (t : tgt) (n : N)
| OSetn_ (t : tgt) (n : N)
| OGetc (t : tgt)
| OGetc_ (t : tgt)
| OCatc (t : tgt) (c : Z)
| OCatc_ (t : tgt) (c : Z)
| OGetn (t : tgt) (want : bool) (n : N)
| OGetn_ (t : tgt) (want : bool) (n : N)
| OCatn (t : tgt) (d : list N)
| OCatn_ (t : tgt) (d : list N)
| OCats (t : tgt) (d : list N)
| OCats_ (t : tgt) (d : list N)
| OCat (t : tgt) (self : bool)            (* a_str_cat(t, other) / a_str_cat(t, t) *)
| OCat_ (t : tgt) (self : bool)
| OCatf (t : tgt) (out : list N)          (* a_str_catf with the formatter producing [out] *)
| ORtrim (t : tgt) (set : list N)
| ORtrim_ (t : tgt) (set : list N)
| OLtrim (t : tgt) (set : list N)
| OLtrim_ (t : tgt) (set : list N)
| OTrim (t : tgt) (set : list N)
| OTrim_ (t : tgt) (set : list N)
| OUtf (t : tgt) (c : N)
| OCmp (t : tgt)                          (* a_str_cmp(t, other) *)
| OCmpn (t : tgt) (d : list N)
| OCmps (t : tgt) (d : list N).

Inductive ret : Type :=
| RInt (z : Z)
| RSize (n : N) (d : list N)              (* getn: count and the bytes copied out *)
| RPtr (p : option (list N))              (* exit: the block handed to the caller *)
| RVoid
| RFault.                                 (* out-of-block access *)

Definition lift_a (t : tgt) (m : mstate) (r : ares Z) : mstate * ret * list ev :=
  match r with
  | None => (m, RFault, [])
  | Some (z, s, sc, e) => (upd t s sc m, RInt z, e)
  end.

Definition lift_p {A} (t : tgt) (m : mstate) (f : A -> ret) (r : pres A) : mstate * ret * list ev :=
  match r with
  | None => (m, RFault, [])
  | Some (a, s) => (upd t s (sch m) m, f a, [])
  end.

Definition lift_c (m : mstate) (r : option Z) : mstate * ret * list ev :=
  match r with
  | None => (m, RFault, [])
  | Some z => (m, RInt z, [])
  end.

Definition step (o : op) (m : mstate) : mstate * ret * list ev :=
  match o with
  | ODtor t => let (s, e) := dtor (sel t m) in (upd t s (sch m) m, RVoid, e)
  | OSwap => (mkM (sB m) (sA m) (sch m), RVoid, [])
  | OExit t => match exit (sel t m) (sch m) with
               | None => (m, RFault, [])
               | Some (p, s, sc, e) => (upd t s sc m, RPtr p, e)
               end
  | OSetm t n => let '(rc, s, sc, e) := setm (sel t m) n (sch m) in (upd t s sc m, RInt rc, e)
  | OSetm_ t n => let '(rc, s, sc, e) := setm_ (sel t m) n (sch m) in (upd t s sc m, RInt rc, e)
  | OSetn t n => let (rc, s) := setn (sel t m) n in (upd t s (sch m) m, RInt rc, [])
  | OSetn_ t n => (upd t (setn_ (sel t m) n) (sch m) m, RVoid, [])
  | OGetc t => lift_p t m RInt (getc (sel t m))
  | OGetc_ t => lift_p t m RInt (getc_ (sel t m))
  | OCatc t c => lift_a t m (catc (sel t m) c (sch m))
  | OCatc_ t c => lift_a t m (catc_ (sel t m) c (sch m))
  | OGetn t w n => lift_p t m (fun x => RSize (fst x) (snd x)) (getn (sel t m) w n)
  | OGetn_ t w n => lift_p t m (fun x => RSize (fst x) (snd x)) (getn_ (sel t m) w n)
  | OCatn t d => lift_a t m (catn (sel t m) d (sch m))
  | OCatn_ t d => lift_a t m (catn_ (sel t m) d (sch m))
  | OCats t d => lift_a t m (cats (sel t m) d (sch m))
  | OCats_ t d => lift_a t m (cats_ (sel t m) d (sch m))
  | OCat t self => lift_a t m (cat (sel t m) (if self then None else Some (oth t m)) (sch m))
  | OCat_ t self => lift_a t m (cat_ (sel t m) (if self then None else Some (oth t m)) (sch m))
  | OCatf t out => lift_a t m (catv (sel t m) out (sch m))
  | ORtrim t set => lift_p t m (fun _ => RVoid) (rtrim (sel t m) set)
  | ORtrim_ t set => lift_p t m (fun _ => RVoid) (rtrim_ (sel t m) set)
  | OLtrim t set => lift_p t m (fun _ => RVoid) (ltrim (sel t m) set)
  | OLtrim_ t set => lift_p t m (fun _ => RVoid) (ltrim_ (sel t m) set)
  | OTrim t set => lift_p t m (fun _ => RVoid) (trim (sel t m) set)
  | OTrim_ t set => lift_p t m (fun _ => RVoid) (trim_ (sel t m) set)
  | OUtf t c => lift_a t m (utf_catc (sel t m) c (sch m))
  | OCmp t => lift_c m (cmp (sel t m) (oth t m))
  | OCmpn t d => lift_c m (cmpn (sel t m) d)
  | OCmps t d => lift_c m (cmps (sel t m) d)
  end.

(* a history *)
Fixpoint run (ops : list op) (m : mstate) : mstate * list (ret * list ev) :=
  match ops with
  | [] => (m, [])
  | o :: r => let '(m1, x, e) := step o m in
              let (m2, l) := run r m1 in (m2, (x, e) :: l)
  end.
