(* C06 -- what the accessors of StrAccDefs.v return on an object that satisfies the representation
   invariant [inv] (StrSpec.v; it holds after every operation of every history: str_inv).
   None of them is ever undefined pointer arithmetic, in-range indices give the address of that
   byte of the block, out-of-range indices give NULL, and a_utf_len is the walk of the UTF-8
   decoder over the content (coq/C18: length_advances). *)
From Coq Require Import NArith ZArith List Bool Lia ZifyBool ZifyNat ZifyN.
From LibaV Require Import C06.StrDefs C06.StrSpec C06.StrLemmas C06.StrProofs C06.StrAccDefs.
From LibaV Require C18.UtfDefs C18.UtfLenProofs.
Import ListNotations.
Local Open Scope N_scope.
Ltac Zify.zify_post_hook ::= Z.div_mod_to_equations.

(* pointer arithmetic inside the block (or one past its end) is defined *)
Lemma padd_inv s i : inv s -> i <= mem s -> (0 < mem s \/ ptr s <> None) -> padd s i = AOff i.
Proof.
  intros (Hn & Hm & Hl) Hi Hp. unfold padd. unfold buf in Hl.
  destruct (ptr s) as [b|].
  - destruct (N.leb_spec i (len b)); [reflexivity|lia].
  - rewrite len_nil in Hl. destruct Hp as [Hp|Hp]; [lia|congruence].
Qed.

Lemma str_ptr_inv s : inv s ->
  str_ptr s = match ptr s with Some _ => AOff 0 | None => ANull end.
Proof.
  intros H. unfold str_ptr, padd. destruct (ptr s) as [b|]; [|reflexivity].
  destruct (N.leb_spec 0 (len b)); [reflexivity|lia].
Qed.

(* a_str_at_: its precondition is idx < mem_ *)
Lemma str_at__inv s idx : inv s -> idx < mem s -> str_at_ s idx = AOff idx.
Proof. intros H Hi. unfold str_at_. apply padd_inv; [assumption|lia|left; lia]. Qed.

(* a_str_at: total *)
Lemma str_at_inv s idx : inv s ->
  str_at s idx = if idx <? mem s then AOff idx else ANull.
Proof.
  intros H. unfold str_at. destruct (N.ltb_spec idx (mem s)); [|reflexivity].
  apply padd_inv; [assumption|lia|left; lia].
Qed.

(* a_str_of: non-negative indices count from the start, negative ones from the end of the content
   (-1 = last byte); anything else is NULL.  [mem s <= 2^63]: objects are not larger than
   PTRDIFF_MAX (otherwise an index below -num_ wraps back into the block). *)
Lemma str_of_inv s idx : inv s -> (- 9223372036854775808 <= idx < 9223372036854775808)%Z ->
  mem s <= 9223372036854775808 ->
  str_of s idx =
    if (0 <=? idx)%Z then (if Z.to_N idx <? mem s then AOff (Z.to_N idx) else ANull)
    else if (- Z.of_N (num s) <=? idx)%Z then AOff (Z.to_N (Z.of_N (num s) + idx))
         else ANull.
Proof.
  intros H Hr Hm. pose proof H as (Hn & Hw & Hl). unfold str_of.
  destruct (Z.leb_spec 0 idx) as [Hp|Hneg].
  - destruct (N.ltb_spec (Z.to_N idx) (mem s)); [|reflexivity].
    apply padd_inv; [assumption|lia|left; lia].
  - unfold wadd, wrap. rewrite W64_val in *.
    destruct (Z.leb_spec (- Z.of_N (num s)) idx) as [Hin|Hout].
    + assert (E : (Z.to_N (idx + Z.of_N 18446744073709551616) + num s) mod 18446744073709551616
                  = Z.to_N (Z.of_N (num s) + idx)) by lia.
      rewrite E.
      destruct (N.ltb_spec (Z.to_N (Z.of_N (num s) + idx)) (mem s)); [|lia].
      apply padd_inv; [assumption|lia|left; lia].
    + assert (E : (Z.to_N (idx + Z.of_N 18446744073709551616) + num s) mod 18446744073709551616
                  = Z.to_N (idx + 18446744073709551616 + Z.of_N (num s))) by lia.
      rewrite E.
      destruct (N.ltb_spec (Z.to_N (idx + 18446744073709551616 + Z.of_N (num s))) (mem s));
        [lia|reflexivity].
Qed.

(* a_utf_len: c code points, k bytes consumed, where the decoder (val = NULL) reports c positive
   lengths summing to k from the start of the content and then 0 (C18 [walk]) *)
Lemma utf_len_inv s w : inv s -> UtfDefs.bytes_ok (buf s) ->
  exists c k,
    utf_len s w = UtfDefs.NRet c (if w then Some k else None) /\
    UtfDefs.walk (buf s) (num s) c k /\ k <= num s /\ c <= k.
Proof.
  intros (Hn & Hw & Hl) Hb. unfold utf_len. fold (buf s).
  destruct (N.leb_spec (num s) (len (buf s))) as [Hle|Hgt]; [|lia].
  apply UtfLenProofs.length_advances.
  - unfold len in Hle. exact Hle.
  - unfold UtfDefs.SZ. rewrite W64_val in Hw. lia.
  - exact Hb.
Qed.

(* all of it, as one statement for Properties_C06.v *)
Theorem accessors_all s : inv s ->
  str_len s = num s /\ str_mem s = mem s /\
  str_ptr s = match ptr s with Some _ => AOff 0 | None => ANull end /\
  (forall idx, idx < mem s -> str_at_ s idx = AOff idx) /\
  (forall idx, str_at s idx = if idx <? mem s then AOff idx else ANull) /\
  (forall idx, (- 9223372036854775808 <= idx < 9223372036854775808)%Z ->
               mem s <= 9223372036854775808 ->
     str_of s idx =
       if (0 <=? idx)%Z then (if Z.to_N idx <? mem s then AOff (Z.to_N idx) else ANull)
       else if (- Z.of_N (num s) <=? idx)%Z then AOff (Z.to_N (Z.of_N (num s) + idx))
            else ANull).
Proof.
  intros H. repeat split.
  - apply str_ptr_inv; assumption.
  - intros; apply str_at__inv; assumption.
  - intros; apply str_at_inv; assumption.
  - intros; apply str_of_inv; assumption.
Qed.

(* non-vacuity / the documented examples: "abc" + NUL in a block of 8 *)
Definition abc8 : str := mkStr (Some [97; 98; 99; 0; 165; 165; 165; 165]) 3 8.
Example inv_abc8 : inv abc8.
Proof. unfold inv. rewrite W64_val. vm_compute. repeat split; try discriminate; reflexivity. Qed.
Example bytes_ok_abc8 : UtfDefs.bytes_ok (buf abc8).
Proof. unfold UtfDefs.bytes_ok, abc8; cbn. repeat constructor. Qed.
Example accessors_abc8 :
  str_at abc8 7 = AOff 7 /\ str_at abc8 8 = ANull /\ str_at_ abc8 2 = AOff 2 /\
  str_of abc8 (-1) = AOff 2 /\ str_of abc8 (-3) = AOff 0 /\ str_of abc8 (-4) = ANull /\
  str_of abc8 7 = AOff 7 /\ str_of abc8 8 = ANull /\
  utf_len abc8 true = UtfDefs.NRet 3 (Some 3) /\ utf_len abc8 false = UtfDefs.NRet 3 None.
Proof. vm_compute. repeat split. Qed.
Example accessors_init :
  str_ptr str_init = ANull /\ str_at str_init 0 = ANull /\ str_of str_init 0 = ANull /\
  str_of str_init (-1) = ANull /\ utf_len str_init true = UtfDefs.NRet 0 (Some 0).
Proof. vm_compute. repeat split. Qed.
(* euro sign, 'A', NUL, 'A': two code points, the walk stops at the NUL (offset 4) *)
Example utf_len_stops_at_nul :
  utf_len (mkStr (Some [226; 130; 172; 65; 0; 65; 0; 165]) 6 8) true = UtfDefs.NRet 2 (Some 4).
Proof. vm_compute. reflexivity. Qed.
(* the model does not hide a length beyond the block *)
Example utf_len_beyond_block_is_a_fault :
  utf_len (mkStr (Some [65; 66]) 3 2) true = UtfDefs.NOver.
Proof. vm_compute. reflexivity. Qed.
