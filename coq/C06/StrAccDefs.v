(* C06 -- executable model of the READ-ONLY part of include/a/str.h: the field accessors
   a_str_ptr / a_str_len / a_str_mem, the index accessors a_str_at_ / a_str_at / a_str_of, the
   code-point counter a_utf_len (str.c: a_utf_length(ctx->ptr_, ctx->num_, stop), whose model is
   coq/C18/UtfDefs.v) and the per-operation probe that harness/C06/{drv.c,mdrv.ml} print as the
   `q=` token of every canonical line.

   NO PROOFS IN THIS FILE (StrAccProofs.v).  Nothing here changes StrDefs.v: the accessors do not
   modify the object, so they are not operations of the step machine.

   A pointer result is an offset from ctx->ptr_ ([AOff o] = ptr_ + o), NULL ([ANull]) or the
   result of pointer arithmetic that C does not define ([AFault]: ptr_ + i beyond one past the end
   of the block, or NULL + i with i > 0) -- the totalisation is visible, not silently "some
   offset". *)
From Coq Require Import NArith ZArith List Bool.
From LibaV Require Import C06.StrDefs.
From LibaV Require C18.UtfDefs.
Import ListNotations.
Local Open Scope N_scope.

Inductive aptr : Type := ANull | AOff (o : N) | AFault.

(* ctx->ptr_ + i *)
Definition padd (s : str) (i : N) : aptr :=
  match ptr s with
  | Some b => if i <=? len b then AOff i else AFault
  | None => if i =? 0 then ANull else AFault
  end.

(* a_str_ptr / a_str_len / a_str_mem                                         str.h:38-52 *)
Definition str_ptr (s : str) : aptr := padd s 0.
Definition str_len (s : str) : N := num s.
Definition str_mem (s : str) : N := mem s.

(* char *a_str_at_(a_str const *ctx, a_size idx) { return ctx->ptr_ + idx; }  str.h:61 *)
Definition str_at_ (s : str) (idx : N) : aptr := padd s idx.

(* char *a_str_at(a_str const *ctx, a_size idx)                              str.h:70-73
     return idx < ctx->mem_ ? ctx->ptr_ + idx : A_NULL; *)
Definition str_at (s : str) (idx : N) : aptr :=
  if idx <? mem s then padd s idx else ANull.

(* char *a_str_of(a_str const *ctx, a_diff idx)                              str.h:82-86
     a_size const num = idx >= 0 ? a_size_c(idx) : a_size_c(idx) + ctx->num_;
     return num < ctx->mem_ ? ctx->ptr_ + num : A_NULL;
   idx is an a_diff: -2^63 <= idx < 2^63; a_size_c of a negative idx is idx + 2^64 *)
Definition str_of (s : str) (idx : Z) : aptr :=
  let n := if (0 <=? idx)%Z then Z.to_N idx
           else wadd (Z.to_N (idx + Z.of_N W64)%Z) (num s) in
  if n <? mem s then padd s n else ANull.

(* a_size a_utf_len(a_str const *ctx, a_size *stop)                          str.c:339-342
     return a_utf_length(ctx->ptr_, ctx->num_, stop);
   The callee may read the num_ bytes at ptr_: when the block is shorter (or absent with
   num_ > 0) the call is a fault. *)
Definition utf_len (s : str) (wantstop : bool) : UtfDefs.nres :=
  let b := match ptr s with Some b => b | None => [] end in
  if num s <=? len b then UtfDefs.a_utf_length b (num s) wantstop else UtfDefs.NOver.

(* ------------------------------------------------------------------ the probe of the drivers
   After operation number k of a case both drivers evaluate, with h = mix k (a fixed scrambling of
   the operation number, so that small k reach every index class), for each of the two objects,
     a_str_ptr, a_str_len, a_str_mem,
     a_str_at_(h mod mem)                 only when ptr_ != NULL and mem_ > 0 (its precondition),
     a_str_at((h / 7) mod (mem + 2)),     so mem and mem + 1 (out of bounds) are reached,
     a_str_of(((h / 3) mod (num + mem + 3)) - (num + 1)),    from -(num+1) (out of bounds) to mem + 1,
     a_utf_len(ctx, &stop) and a_utf_len(ctx, NULL)    only when num_ <= mem_,
   and a_str_cmp_(A.ptr, (h / 5) mod (A.num + 1), B.ptr, B.num) when num_ <= mem_ in both. *)
Definition mix (k : N) : N := (k * 2654435761 + 12345) mod 4294967296.

Record probe : Type := mkProbe {
  q_ptr : aptr; q_len : N; q_mem : N;
  q_at_ : option aptr;
  q_at : aptr;
  q_of : aptr;
  q_utf : option (UtfDefs.nres * UtfDefs.nres) }.

Definition probe_idx_of (k : N) (s : str) : Z :=
  (Z.of_N ((mix k / 3) mod (num s + mem s + 3)) - Z.of_N (num s + 1))%Z.

Definition probe_str (k : N) (s : str) : probe :=
  mkProbe (str_ptr s) (str_len s) (str_mem s)
          (match ptr s with
           | Some _ => if 0 <? mem s then Some (str_at_ s (mix k mod mem s)) else None
           | None => None
           end)
          (str_at s ((mix k / 7) mod (mem s + 2)))
          (str_of s (probe_idx_of k s))
          (if num s <=? mem s then Some (utf_len s true, utf_len s false) else None).

Definition probe_cmp (k : N) (m : mstate) : option (option Z) :=
  if (num (sA m) <=? mem (sA m)) && (num (sB m) <=? mem (sB m))
  then Some (cmp_ (ptr (sA m)) ((mix k / 5) mod (num (sA m) + 1)) (ptr (sB m)) (num (sB m)))
  else None.
