(* C06: extraction of the executable model (ExtrOcamlBasic only). *)
Require Extraction.
Require Import ExtrOcamlBasic.
From LibaV Require Import C06.StrDefs.
Extraction "C06/extracted/strmodel.ml" step m_init sel oth run cat_self_orig_uaf exit_orig.
