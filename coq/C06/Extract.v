(* C06: extraction of the executable model (ExtrOcamlBasic only). *)
Require Extraction.
Require Import ExtrOcamlBasic.
From LibaV Require Import C06.StrDefs C06.StrAccDefs.
Extraction "C06/extracted/strmodel.ml" step m_init sel oth run cat_self_orig_uaf exit_orig
  str_ptr str_len str_mem str_at_ str_at str_of utf_len probe_str probe_cmp.
