(* C06: comparison against very long operands.  The step machine of StrDefs.v carries operands as byte lists, which
   cannot hold the 2^31 .. 2^32+ bytes at which a length tie-break computed in a narrower type than a_size goes wrong
   (seeded change C06-5: `return (int)(n0 - n1)`).  Here: a closed form of a_str_cmpn(s, <n zero bytes>, n) that never
   builds more than num s zero bytes, proved equal to the model's cmpn for EVERY n; the check runs it (vm_compute) against
   the C called with a sparse zero mapping of more than 4 GiB (harness/C06/bigcmp.c). *)
From Coq Require Import NArith ZArith List Lia.
From LibaV Require Import C06.StrDefs C06.StrLemmas.
Import ListNotations.
Local Open Scope N_scope.

Definition zeros (n : N) : list N := repeat 0 (N.to_nat n).

Definition cmpn_zeros (s : str) (n : N) : option Z :=
  match ptr s with
  | None => Some (lencmp (num s) n)
  | Some a =>
      let k := if num s <? n then num s else n in
      match sub 0 k a with
      | Some x => let rc := memcmp x (zeros k) in
                  if (rc =? 0)%Z then Some (lencmp (num s) n) else Some rc
      | None => None
      end
  end.

Lemma len_zeros n : len (zeros n) = n.
Proof. unfold len, zeros. rewrite repeat_length. apply N2Nat.id. Qed.

Lemma take_zeros k n : k <= n -> take k (zeros n) = zeros k.
Proof.
  intros H. unfold take, zeros.
  replace (N.to_nat n) with (N.to_nat k + (N.to_nat n - N.to_nat k))%nat by lia.
  rewrite repeat_app, firstn_app, repeat_length, Nat.sub_diag, firstn_O, app_nil_r.
  rewrite firstn_all2; [reflexivity|]. rewrite repeat_length. lia.
Qed.

Lemma sub_zeros k n : k <= n -> sub 0 k (zeros n) = Some (zeros k).
Proof.
  intros H. rewrite sub_ok by (rewrite len_zeros; lia).
  unfold drop. change (N.to_nat 0) with 0%nat. cbn [skipn]. now rewrite take_zeros.
Qed.

Theorem cmpn_zeros_ok : forall s n, cmpn s (zeros n) = cmpn_zeros s n.
Proof.
  intros s n. unfold cmpn, cmpn_zeros, cmp_. rewrite len_zeros.
  destruct (ptr s) as [a|]; [|reflexivity].
  set (k := if num s <? n then num s else n).
  assert (Hk : k <= n) by (unfold k; destruct (N.ltb_spec (num s) n); lia).
  rewrite (sub_zeros k n Hk). reflexivity.
Qed.

(* what the length tie-break must be: the sign of the length difference, for all 64-bit lengths (and beyond) *)
Theorem cmpn_zeros_prefix : forall a n m, (forall x, In x (take n a) -> x = 0) -> n <= len a ->
  cmpn_zeros (mkStr (Some a) n (len a)) m = Some (lencmp n m).
Proof.
  intros a n m Hz Hn. unfold cmpn_zeros. cbn [ptr num].
  set (k := if n <? m then n else m).
  assert (Hk : k <= n) by (unfold k; destruct (N.ltb_spec n m); lia).
  rewrite sub_ok by lia. unfold drop. change (N.to_nat 0) with 0%nat. cbn [skipn].
  assert (E : memcmp (take k a) (zeros k) = 0%Z).
  { assert (Hz' : forall x, In x (take k a) -> x = 0).
    { intros x Hx. apply Hz. unfold take in *. 
      replace (N.to_nat n) with (N.to_nat k + (N.to_nat n - N.to_nat k))%nat by lia.
      rewrite <- (firstn_skipn (N.to_nat k) (firstn _ a)).
      rewrite firstn_firstn. replace (Nat.min (N.to_nat k) (N.to_nat k + (N.to_nat n - N.to_nat k))) with (N.to_nat k) by lia.
      apply in_or_app. now left. }
    unfold zeros. assert (L : length (take k a) = N.to_nat k).
    { unfold take. rewrite firstn_length. unfold len in Hn. lia. }
    revert L Hz'. generalize (take k a). generalize (N.to_nat k). clear.
    induction n as [|n IH]; intros l L Hz; destruct l as [|x l]; cbn in *; try discriminate; try reflexivity.
    rewrite (Hz x) by now left. cbn. apply IH; [lia|]. intros y Hy. apply Hz. now right. }
  rewrite E. reflexivity.
Qed.
