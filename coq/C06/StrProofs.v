(* C06 -- proofs about the model StrDefs.v: every function keeps the representation invariant,
   never accesses storage outside its block, and refines the abstract byte-string operation. *)
From Coq Require Import NArith ZArith List Bool Lia ZifyBool ZifyNat ZifyN.
From LibaV Require Import C06.StrDefs C06.StrSpec C06.StrLemmas.
Import ListNotations.
Local Open Scope N_scope.
Ltac Zify.zify_post_hook ::= Z.div_mod_to_equations.

(* ------------------------------------------------------------------ basic facts *)
Lemma inv_init : inv str_init.
Proof. unfold inv, str_init, buf; cbn. rewrite W64_val. repeat split; lia. Qed.

Lemma inv_ptr s : inv s -> 0 < mem s -> exists b, ptr s = Some b /\ len b = mem s /\ buf s = b.
Proof.
  intros (_ & _ & Hl) Hm. unfold buf in *. destruct (ptr s) as [b|].
  - eauto.
  - rewrite len_nil in Hl. lia.
Qed.

Lemma inv_content_len s : inv s -> len (content s) = num s.
Proof. intros (H1 & _ & H3). unfold content. rewrite len_take. lia. Qed.

Lemma inv_mk b n m : n <= m -> m < W64 -> len b = m -> inv (mkStr (Some b) n m).
Proof. intros. unfold inv, buf; cbn. auto. Qed.

Lemma content_mk b n m : content (mkStr (Some b) n m) = take n b.
Proof. reflexivity. Qed.

Lemma terminated_mk b n m : n < m -> get n b = Some 0 -> terminated (mkStr (Some b) n m).
Proof. intros. unfold terminated, buf; cbn. auto. Qed.

Lemma any_failed_nil : any_failed [] = false. Proof. reflexivity. Qed.

Lemma any_failed_app a b : any_failed (a ++ b) = any_failed a || any_failed b.
Proof. unfold any_failed. apply existsb_app. Qed.

(* ------------------------------------------------------------------ a_str_setm_ / a_str_setm *)
Definition setm_result (s : str) (m : N) (x : Z * str * sched * list ev) : Prop :=
  let '(rc, s', sc', e) := x in
  (rc = A_SUCCESS /\ any_failed e = false /\ inv s' /\ num s' = num s /\ m <= mem s' /\
   (forall k, k <= mem s -> k <= mem s' -> take k (buf s') = take k (buf s)))
  \/ (rc = A_OMEMORY /\ any_failed e = true /\ s' = s).

Lemma setm__spec s m sc : inv s -> num s <= m -> m + 7 < W64 -> setm_result s m (setm_ s m sc).
Proof.
  intros Hi Hn Hm. pose proof Hi as (Hnm & HmW & Hlen).
  destruct (size_up8_spec m Hm) as (U1 & U2 & U3).
  unfold setm_result, setm_, a_alloc.
  destruct (size_up8 m =? 0) eqn:E0.
  - (* the request rounds to 0: free *)
    assert (size_up8 m = 0) as Ez by lia.
    left. split; [reflexivity|]. split; [destruct (ptr s); reflexivity|].
    split; [unfold inv, buf; cbn; rewrite len_nil; lia|].
    cbn [num mem]. split; [reflexivity|]. split; [lia|].
    intros k Hk1 Hk2. replace k with 0 by lia. reflexivity.
  - destruct (next_ok sc) as [ok sc']. unfold buf in Hlen.
    destruct (ptr s) as [b|] eqn:Ep; destruct ok; cbn [fst snd].
    + left. split; [reflexivity|]. split; [reflexivity|].
      split; [apply inv_mk; [lia|lia|rewrite len_app, len_take, len_fresh; lia]|].
      cbn [num mem]. split; [reflexivity|]. split; [lia|].
      intros k Hk1 Hk2. unfold buf; cbn [ptr]. rewrite Ep.
      rewrite take_app_le by (rewrite len_take; lia).
      apply take_take_le. lia.
    + right. auto.
    + left. rewrite len_nil in Hlen. split; [reflexivity|]. split; [reflexivity|].
      split; [apply inv_mk; [lia|lia|apply len_fresh]|].
      cbn [num mem]. split; [reflexivity|]. split; [lia|].
      intros k Hk1 Hk2. replace k with 0 by lia. reflexivity.
    + right. auto.
Qed.

Lemma setm_spec s m sc : inv s -> m + 7 < W64 ->
  setm_result s m (setm s m sc) /\ (m <= mem s -> setm s m sc = (A_SUCCESS, s, sc, [])).
Proof.
  intros Hi Hm. unfold setm. destruct (mem s <? m) eqn:E.
  - split; [|intros; lia]. apply setm__spec; try assumption. destruct Hi. lia.
  - split; [|reflexivity]. unfold setm_result. left. pose proof Hi as (? & ? & ?). repeat split; auto; lia.
Qed.

(* the shape every allocating operation is shown to have *)
Definition a_good {A} (s : str) (x : ares A) (P : A -> str -> Prop) (Q : A -> Prop) : Prop :=
  exists r s' sc' e, x = Some (r, s', sc', e) /\ inv s' /\
    (if any_failed e then Q r /\ content s' = content s else P r s').

(* and every pure one *)
Definition p_good {A} (x : pres A) (P : A -> str -> Prop) : Prop :=
  exists r s', x = Some (r, s') /\ inv s' /\ P r s'.

Ltac split_inv H := let a := fresh "Hnm" in let b := fresh "HmW" in let c := fresh "Hlen" in
                    pose proof H as (a & b & c).

(* common first move: run the reservation *)
Ltac reserve s need sc Hi :=
  let rc := fresh "rc" in let s1 := fresh "s1" in let sc1 := fresh "sc1" in let e := fresh "e" in
  let Hs := fresh "Hs" in let Hnoop := fresh "Hnoop" in let R := fresh "R" in
  destruct (setm_spec s need sc Hi ltac:(unfold fits in *; lia)) as [R Hnoop];
  destruct (setm s need sc) as [[[rc s1] sc1] e] eqn:Hs;
  unfold setm_result in R;
  destruct R as [(-> & He & Hi1 & Hn1 & Hm1 & Hk1) | (-> & He & ->)].

(* content is kept by a successful reservation *)
Lemma reserve_content s s1 :
  inv s -> num s1 = num s -> num s <= mem s1 ->
  (forall k, k <= mem s -> k <= mem s1 -> take k (buf s1) = take k (buf s)) ->
  content s1 = content s.
Proof.
  intros (H1 & _ & _) Hn Hm Hk. unfold content. rewrite Hn. apply Hk; lia.
Qed.

(* ------------------------------------------------------------------ a_str_catc_ / a_str_catc *)
Lemma catc__good s c sc : inv s -> fits s 2 ->
  a_good s (catc_ s c sc)
         (fun r s' => r = c /\ content s' = content s ++ [uchar c])
         (fun r => r = (-1)%Z).
Proof.
  intros Hi Hf. split_inv Hi. unfold catc_, a_good.
  rewrite wadd_small by (unfold fits in Hf; lia).
  reserve s (num s + 1) sc Hi.
  - cbn [Z.eqb A_SUCCESS]. split_inv Hi1.
    destruct (inv_ptr s1 Hi1 ltac:(lia)) as (b & Hp & Hb & Hbuf). rewrite Hp.
    destruct (put_ok (num s1) (uchar c) b ltac:(lia)) as (b' & -> & Hl' & Ht' & Hg').
    rewrite wadd_small by (unfold fits in Hf; lia).
    do 4 eexists. split; [reflexivity|]. split; [apply inv_mk; lia|]. rewrite He.
    split; [reflexivity|]. rewrite content_mk, (take_succ _ _ _ Hg'), Ht'. f_equal.
    rewrite <- Hbuf. apply (reserve_content s s1); auto; lia.
  - cbn. do 4 eexists. split; [reflexivity|]. split; [assumption|]. rewrite He. auto.
Qed.

Lemma catc_good s c sc : inv s -> fits s 2 ->
  a_good s (catc s c sc)
         (fun r s' => r = c /\ content s' = content s ++ [uchar c] /\ terminated s')
         (fun r => r = (-1)%Z).
Proof.
  intros Hi Hf. split_inv Hi. unfold catc, a_good.
  rewrite wadd_small by (unfold fits in Hf; lia).
  reserve s (num s + 2) sc Hi.
  - cbn [Z.eqb A_SUCCESS]. split_inv Hi1.
    destruct (inv_ptr s1 Hi1 ltac:(lia)) as (b & Hp & Hb & Hbuf). rewrite Hp.
    destruct (put_ok (num s1) (uchar c) b ltac:(lia)) as (b' & -> & Hl' & Ht' & Hg').
    rewrite wadd_small by (unfold fits in Hf; lia).
    destruct (put_ok (num s1 + 1) 0 b' ltac:(lia)) as (b2 & -> & Hl2 & Ht2 & Hg2).
    do 4 eexists. split; [reflexivity|]. split; [apply inv_mk; lia|]. rewrite He.
    split; [reflexivity|]. split; [|apply terminated_mk; [lia|assumption]].
    rewrite content_mk, Ht2, (take_succ _ _ _ Hg'), Ht'. f_equal.
    rewrite <- Hbuf. apply (reserve_content s s1); auto; lia.
  - cbn. do 4 eexists. split; [reflexivity|]. split; [assumption|]. rewrite He. auto.
Qed.

(* ------------------------------------------------------------------ a_str_catn_ / a_str_catn *)
Lemma catn__good s d sc : inv s -> fits s (len d + 1) ->
  a_good s (catn_ s d sc)
         (fun r s' => r = A_SUCCESS /\ content s' = content s ++ d)
         (fun r => r = A_OMEMORY)
  /\ (num s + len d <= mem s -> exists s', catn_ s d sc = Some (A_SUCCESS, s', sc, [])).
Proof.
  intros Hi Hf. split_inv Hi. unfold catn_, a_good.
  rewrite wadd_small by (unfold fits in Hf; lia).
  reserve s (num s + len d) sc Hi.
  - cbn [Z.eqb A_SUCCESS andb]. split_inv Hi1.
    destruct (len d =? 0) eqn:Ed; cbn [negb].
    + assert (d = []) as -> by (apply len_0_nil; lia).
      split.
      * do 4 eexists. split; [reflexivity|]. split; [assumption|]. rewrite He.
        split; [reflexivity|]. rewrite app_nil_r. apply (reserve_content s s1); auto; lia.
      * intros Hc. specialize (Hnoop Hc). injection Hnoop as <- <- <-. eauto.
    + destruct (inv_ptr s1 Hi1 ltac:(lia)) as (b & Hp & Hb & Hbuf). rewrite Hp.
      destruct (blit_ok (num s1) d b ltac:(lia)) as (b' & -> & Hl' & Ht' & Htd).
      rewrite wadd_small by (unfold fits in Hf; lia).
      split.
      * do 4 eexists. split; [reflexivity|]. split; [apply inv_mk; lia|]. rewrite He.
        split; [reflexivity|]. rewrite content_mk, Htd. f_equal.
        rewrite <- Hbuf. apply (reserve_content s s1); auto; lia.
      * intros Hc. specialize (Hnoop Hc). injection Hnoop as <- <- <-. eauto.
  - cbn. split.
    + do 4 eexists. split; [reflexivity|]. split; [assumption|]. rewrite He. auto.
    + intros Hc. specialize (Hnoop Hc). discriminate.
Qed.

Lemma catn_good s d sc : inv s -> fits s (len d + 1) ->
  a_good s (catn s d sc)
         (fun r s' => r = A_SUCCESS /\ content s' = content s ++ d /\ terminated s')
         (fun r => r = A_OMEMORY)
  /\ (num s + len d + 1 <= mem s -> exists s', catn s d sc = Some (A_SUCCESS, s', sc, [])).
Proof.
  intros Hi Hf. split_inv Hi. unfold catn, a_good.
  rewrite !wadd_small by (unfold fits in Hf; rewrite ?wadd_small; lia).
  reserve s (num s + len d + 1) sc Hi.
  - cbn [Z.eqb A_SUCCESS]. split_inv Hi1.
    destruct (inv_ptr s1 Hi1 ltac:(lia)) as (b & Hp & Hb & Hbuf). rewrite Hp.
    assert (Hc1 : take (num s1) b = content s).
    { rewrite <- Hbuf. apply (reserve_content s s1); auto; lia. }
    destruct (len d =? 0) eqn:Ed.
    + assert (d = []) as -> by (apply len_0_nil; lia).
      destruct (put_ok (num s1) 0 b ltac:(lia)) as (b2 & -> & Hl2 & Ht2 & Hg2).
      split.
      * do 4 eexists. split; [reflexivity|]. split; [apply inv_mk; lia|]. rewrite He.
        split; [reflexivity|]. split; [|apply terminated_mk; [lia|assumption]].
        rewrite content_mk, Ht2, app_nil_r. assumption.
      * intros Hc. specialize (Hnoop Hc). injection Hnoop as <- <- <-. eauto.
    + destruct (blit_ok (num s1) d b ltac:(lia)) as (b' & -> & Hl' & Ht' & Htd).
      rewrite wadd_small by (unfold fits in Hf; lia).
      destruct (put_ok (num s1 + len d) 0 b' ltac:(lia)) as (b2 & -> & Hl2 & Ht2 & Hg2).
      split.
      * do 4 eexists. split; [reflexivity|]. split; [apply inv_mk; lia|]. rewrite He.
        split; [reflexivity|]. split; [|apply terminated_mk; [lia|assumption]].
        rewrite content_mk, Ht2, Htd. f_equal. assumption.
      * intros Hc. specialize (Hnoop Hc). injection Hnoop as <- <- <-. eauto.
  - cbn. split.
    + do 4 eexists. split; [reflexivity|]. split; [assumption|]. rewrite He. auto.
    + intros Hc. specialize (Hnoop Hc). discriminate.
Qed.

(* ------------------------------------------------------------------ a_str_cats_ / a_str_cats *)
Lemma cats__good s d sc : inv s -> fits s (len (cstr d) + 1) ->
  a_good s (cats_ s d sc)
         (fun r s' => r = A_SUCCESS /\ content s' = content s ++ cstr d)
         (fun r => r = A_OMEMORY).
Proof. intros. unfold cats_. now apply catn__good. Qed.

Lemma cats_good s d sc : inv s -> fits s (len (cstr d) + 1) ->
  a_good s (cats s d sc)
         (fun r s' => r = A_SUCCESS /\ content s' = content s ++ cstr d /\ terminated s')
         (fun r => r = A_OMEMORY).
Proof. intros. unfold cats. now apply catn_good. Qed.

(* ------------------------------------------------------------------ a_str_cat_ / a_str_cat *)
Lemma obj_bytes_spec o : inv o -> obj_bytes o = Some (content o).
Proof.
  intros Hi. split_inv Hi. unfold obj_bytes, content.
  destruct (num o =? 0) eqn:E.
  - replace (num o) with 0 by lia. reflexivity.
  - destruct (inv_ptr o Hi ltac:(lia)) as (b & Hp & Hb & Hbuf). rewrite Hp, Hbuf.
    rewrite sub_ok by lia. rewrite drop_0. reflexivity.
Qed.

Lemma cat_gen_good term s obj sc :
  inv s -> (forall o, obj = Some o -> inv o) ->
  fits s (match obj with Some o => num o | None => num s end + 1) ->
  a_good s (cat_gen term s obj sc)
         (fun r s' => r = A_SUCCESS /\
                      content s' = content s ++ match obj with Some o => content o | None => content s end /\
                      (term = true -> terminated s'))
         (fun r => r = A_OMEMORY).
Proof.
  intros Hi Ho Hf. split_inv Hi. unfold cat_gen, a_good.
  set (onum := match obj with Some o => num o | None => num s end) in *.
  assert (Hneed : (if term then wadd (wadd (num s) onum) 1 else wadd (num s) onum)
                  = num s + onum + (if term then 1 else 0)).
  { unfold fits in Hf. destruct term; rewrite !wadd_small; rewrite ?wadd_small; lia. }
  rewrite Hneed. clear Hneed.
  set (tk := if term then 1 else 0) in *.
  assert (Htk : tk <= 1) by (unfold tk; destruct term; lia).
  assert (Htk1 : term = true -> tk = 1) by (unfold tk; intros ->; reflexivity).
  reserve s (num s + onum + tk) sc Hi.
  - cbn [Z.eqb A_SUCCESS]. split_inv Hi1.
    assert (Hc1 : content s1 = content s) by (apply (reserve_content s s1); auto; lia).
    set (o' := match obj with Some o => o | None => s1 end).
    assert (Hio : inv o') by (unfold o'; destruct obj; auto).
    assert (Hno : num o' = onum) by (unfold o', onum; destruct obj; auto).
    assert (Hco : content o' = match obj with Some o => content o | None => content s end)
      by (unfold o'; destruct obj; auto).
    rewrite (obj_bytes_spec o' Hio).
    assert (Hld : len (content o') = onum) by (rewrite inv_content_len; auto).
    assert (Hf1 : fits s1 (len (content o') + 1)) by (unfold fits in *; lia).
    destruct term.
    + specialize (Htk1 eq_refl).
      destruct (catn_good s1 (content o') sc1 Hi1 Hf1) as [G N].
      destruct N as (s2 & Hs2); [lia|]. rewrite Hs2.
      destruct G as (r & s' & sc' & e' & Hx & Hi' & HP). rewrite Hs2 in Hx.
      injection Hx as <- <- <- <-. cbn [any_failed existsb] in HP.
      do 4 eexists. split; [reflexivity|]. split; [assumption|].
      rewrite any_failed_app, He. cbn. destruct HP as (? & ? & ?).
      split; [assumption|]. split; [congruence|auto].
    + destruct (catn__good s1 (content o') sc1 Hi1 Hf1) as [G N].
      destruct N as (s2 & Hs2); [lia|]. rewrite Hs2.
      destruct G as (r & s' & sc' & e' & Hx & Hi' & HP). rewrite Hs2 in Hx.
      injection Hx as <- <- <- <-. cbn [any_failed existsb] in HP.
      do 4 eexists. split; [reflexivity|]. split; [assumption|].
      rewrite any_failed_app, He. cbn. destruct HP as (? & ?).
      split; [assumption|]. split; [congruence|discriminate].
  - cbn. do 4 eexists. split; [reflexivity|]. split; [assumption|]. rewrite He. auto.
Qed.

(* ------------------------------------------------------------------ a_str_catv *)
Lemma vsn_any s out : inv s ->
  exists p1, vsn (ptr s) (num s) (mem s - num s) out = Some p1 /\
             inv (mkStr p1 (num s) (mem s)) /\ content (mkStr p1 (num s) (mem s)) = content s.
Proof.
  intros Hi. split_inv Hi. unfold vsn. destruct (mem s - num s =? 0) eqn:E.
  - exists (ptr s). split; [reflexivity|]. destruct s; auto.
  - destruct (inv_ptr s Hi ltac:(lia)) as (b & Hp & Hb & Hbuf). rewrite Hp.
    set (k := if len out <? mem s - num s then len out else mem s - num s - 1).
    assert (Hk : len (take k out ++ [0]) = k + 1).
    { rewrite len_app, len_take, len_cons, len_nil. unfold k.
      destruct (len out <? mem s - num s) eqn:?; lia. }
    destruct (blit_ok (num s) (take k out ++ [0]) b) as (b' & -> & Hl' & Ht' & _).
    { rewrite Hk. unfold k. destruct (len out <? mem s - num s) eqn:?; lia. }
    eexists. split; [reflexivity|]. split; [apply inv_mk; lia|].
    rewrite content_mk, Ht'. unfold content. now rewrite Hbuf.
Qed.

Lemma vsn_fits s out : inv s -> num s + len out + 1 <= mem s ->
  exists b2, vsn (ptr s) (num s) (mem s - num s) out = Some (Some b2) /\
             inv (mkStr (Some b2) (num s + len out) (mem s)) /\
             content (mkStr (Some b2) (num s + len out) (mem s)) = content s ++ out /\
             terminated (mkStr (Some b2) (num s + len out) (mem s)).
Proof.
  intros Hi Hfit. split_inv Hi. unfold vsn.
  replace (mem s - num s =? 0) with false by lia.
  destruct (inv_ptr s Hi ltac:(lia)) as (b & Hp & Hb & Hbuf). rewrite Hp.
  replace (len out <? mem s - num s) with true by lia.
  rewrite (take_all (len out) out) by lia.
  destruct (blit_ok (num s) (out ++ [0]) b) as (b' & -> & Hl' & Ht' & Htd).
  { rewrite len_app, len_cons, len_nil. lia. }
  rewrite len_app, len_cons, len_nil in Htd.
  replace (num s + (len out + (0 + 1))) with (num s + len out + 1) in Htd by lia.
  assert (Hc : take (num s) b = content s) by (unfold content; now rewrite Hbuf).
  rewrite Hc in Htd. rewrite app_assoc in Htd.
  assert (Hlc : len (content s ++ out) = num s + len out)
    by (rewrite len_app, inv_content_len; auto).
  eexists. split; [reflexivity|]. split; [apply inv_mk; lia|]. split.
  - rewrite content_mk.
    rewrite <- (take_take_le (num s + len out) (num s + len out + 1) b') by lia.
    rewrite Htd. rewrite <- Hlc. apply take_app_exact.
  - apply terminated_mk; [lia|].
    apply (get_of_take _ _ (content s ++ out)); assumption.
Qed.

Lemma reterm_good s : inv s ->
  exists s', reterm s = Some s' /\ inv s' /\ content s' = content s /\
             num s' = num s /\ mem s' = mem s /\ (num s < mem s -> terminated s').
Proof.
  intros Hi. split_inv Hi. unfold reterm. destruct (num s <? mem s) eqn:E.
  - destruct (inv_ptr s Hi ltac:(lia)) as (b & Hp & Hb & Hbuf). rewrite Hp.
    destruct (put_ok (num s) 0 b ltac:(lia)) as (b' & -> & Hl' & Ht' & Hg').
    eexists. split; [reflexivity|]. split; [apply inv_mk; lia|].
    rewrite content_mk, Ht'. unfold content. rewrite Hbuf.
    split; [reflexivity|]. split; [reflexivity|]. split; [reflexivity|].
    intros _. apply terminated_mk; [lia|assumption].
  - exists s. split; [reflexivity|]. split; [assumption|]. split; [reflexivity|].
    split; [reflexivity|]. split; [reflexivity|]. lia.
Qed.

Lemma catv_good s out sc : inv s -> fits s (len out + 1) ->
  a_good s (catv s out sc)
         (fun r s' => r = Z.of_N (len out) /\ content s' = content s ++ out /\ terminated s')
         (fun r => r = 0%Z).
Proof.
  intros Hi Hf. split_inv Hi. unfold catv, a_good. unfold fits in Hf.
  rewrite wsub_small by lia.
  rewrite !wadd_small by (rewrite ?wadd_small; lia).
  assert (Hnum : forall n, (if 0 <? len out then wadd n (len out) else n) = n + len out \/ W64 <= n + len out).
  { intros n. destruct (0 <? len out) eqn:E.
    - destruct (N.lt_ge_cases (n + len out) W64); [left; now apply wadd_small|now right].
    - left. lia. }
  destruct (mem s <? num s + (len out + 1)) eqn:Eg.
  - (* does not fit: first pass (truncated), grow, second pass *)
    destruct (vsn_any s out Hi) as (p1 & -> & Hi0 & Hc0).
    set (s0 := mkStr p1 (num s) (mem s)) in *.
    pose proof (setm__spec s0 (num s + (len out + 1)) sc Hi0 ltac:(cbn; lia) ltac:(lia)) as R.
    destruct (setm_ s0 (num s + (len out + 1)) sc) as [[[rc s1] sc1] e] eqn:Hs.
    unfold setm_result in R. destruct R as [(-> & He & Hi1 & Hn1 & Hm1 & Hk1) | (-> & He & ->)].
    + cbn [Z.eqb A_SUCCESS]. unfold s0 in Hn1, Hm1, Hk1. cbn [num mem] in Hn1, Hm1, Hk1. split_inv Hi1.
      rewrite wsub_small by lia.
      destruct (vsn_fits s1 out Hi1 ltac:(lia)) as (b2 & -> & Hi2 & Hc2 & Ht2).
      destruct (Hnum (num s1)) as [-> | ?]; [|lia].
      do 4 eexists. split; [reflexivity|]. split; [assumption|]. rewrite He.
      split; [reflexivity|]. split; [|assumption]. rewrite Hc2. f_equal.
      rewrite <- Hc0. apply (reserve_content s0 s1); auto; unfold s0; cbn [num mem]; lia.
    + cbn [Z.eqb A_OMEMORY]. destruct (reterm_good s0 Hi0) as (s2 & -> & Hi2 & Hc2 & _).
      do 4 eexists. split; [reflexivity|]. split; [assumption|]. rewrite He. split; [reflexivity|].
      congruence.
  - (* fits in the spare room: one pass *)
    destruct (vsn_fits s out Hi ltac:(lia)) as (b2 & -> & Hi2 & Hc2 & Ht2).
    replace (if 0 <? len out then num s + len out else num s) with (num s + len out)
      by (destruct (0 <? len out) eqn:?; lia).
    do 4 eexists. split; [reflexivity|]. split; [assumption|]. cbn [any_failed existsb]. auto.
Qed.

(* ------------------------------------------------------------------ a_utf_catc *)
Lemma utf_catc_good s c sc : inv s -> fits s 7 ->
  a_good s (utf_catc s c sc)
         (fun r s' => r = A_SUCCESS /\ content s' = content s ++ utf_encode c /\ terminated s')
         (fun r => r = A_OMEMORY).
Proof.
  intros Hi Hf. split_inv Hi. unfold utf_catc, a_good. unfold fits in Hf.
  rewrite wadd_small by lia.
  reserve s (num s + 7) sc Hi.
  - cbn [Z.eqb A_SUCCESS]. split_inv Hi1. pose proof (utf_encode_len c) as Hu.
    destruct (inv_ptr s1 Hi1 ltac:(lia)) as (b & Hp & Hb & Hbuf). rewrite Hp.
    destruct (blit_ok (num s1) (utf_encode c) b ltac:(lia)) as (b1 & -> & Hl1 & Ht1 & Htd).
    destruct (put_ok (num s1 + len (utf_encode c)) 0 b1 ltac:(lia)) as (b2 & -> & Hl2 & Ht2 & Hg2).
    rewrite wadd_small by lia.
    do 4 eexists. split; [reflexivity|]. split; [apply inv_mk; lia|]. rewrite He.
    split; [reflexivity|]. split; [|apply terminated_mk; [lia|assumption]].
    rewrite content_mk, Ht2, Htd. f_equal.
    rewrite <- Hbuf. apply (reserve_content s s1); auto; lia.
  - cbn. do 4 eexists. split; [reflexivity|]. split; [assumption|]. rewrite He. auto.
Qed.

(* ------------------------------------------------------------------ a_str_exit (repaired) *)
Lemma exit_null s sc : ptr s = None -> exit s sc = Some (None, str_init, sc, []).
Proof. intros H. unfold exit. now rewrite H. Qed.

Lemma exit_good s sc b0 : inv s -> fits s 1 -> ptr s = Some b0 ->
  a_good s (exit s sc)
         (fun r s' => s' = str_init /\
                      exists blk, r = Some blk /\ take (num s + 1) blk = content s ++ [0] /\
                                  num s < len blk)
         (fun r => r = None).
Proof.
  intros Hi Hf H0. split_inv Hi. unfold exit, a_good. unfold fits in Hf. rewrite H0.
  rewrite wadd_small by lia.
  reserve s (num s + 1) sc Hi.
  - cbn [Z.eqb A_SUCCESS]. split_inv Hi1.
    destruct (inv_ptr s1 Hi1 ltac:(lia)) as (b & Hp & Hb & Hbuf). rewrite Hp.
    destruct (put_ok (num s1) 0 b ltac:(lia)) as (b' & -> & Hl' & Ht' & Hg').
    do 4 eexists. split; [reflexivity|]. split; [apply inv_init|]. rewrite He.
    split; [reflexivity|]. eexists. split; [reflexivity|]. split; [|lia].
    rewrite <- Hn1. rewrite (take_succ _ _ _ Hg'), Ht'. f_equal.
    rewrite <- Hbuf. apply (reserve_content s s1); auto; lia.
  - cbn. do 4 eexists. split; [reflexivity|]. split; [assumption|]. rewrite He. auto.
Qed.

(* the code as found overflows the block by one byte when num_ = mem_ *)
Lemma exit_orig_faults s b : ptr s = Some b -> len b = mem s -> num s = mem s -> exit_orig s = None.
Proof.
  intros Hp Hb Hn. unfold exit_orig. rewrite Hp. unfold put.
  replace (num s <? len b) with false by lia. reflexivity.
Qed.

(* ------------------------------------------------------------------ a_str_getc_ / a_str_getc *)
Definition getc_post (term : bool) (s : str) (r : Z) (s' : str) : Prop :=
  (content s = [] /\ r = (-1)%Z /\ s' = s) \/
  (exists c0 x, content s = c0 ++ [x] /\ r = schar x /\ content s' = c0 /\ num s' < num s /\
                (term = true -> terminated s')).

Lemma getc__good s : inv s -> p_good (getc_ s) (getc_post false s).
Proof.
  intros Hi. split_inv Hi. unfold getc_, p_good, getc_post.
  destruct (num s =? 0) eqn:E.
  - do 2 eexists. split; [reflexivity|]. split; [assumption|]. left.
    unfold content. replace (num s) with 0 by lia. auto.
  - rewrite wsub_small by lia.
    destruct (inv_ptr s Hi ltac:(lia)) as (b & Hp & Hb & Hbuf). rewrite Hp.
    destruct (get_lt (num s - 1) b ltac:(lia)) as (c & Hg). rewrite Hg.
    do 2 eexists. split; [reflexivity|]. split; [apply inv_mk; lia|]. right.
    exists (take (num s - 1) b), c. repeat split; cbn [num]; try lia; try discriminate.
    unfold content. rewrite Hbuf. replace (num s) with (num s - 1 + 1) at 1 by lia.
    apply take_succ. assumption.
Qed.

Lemma getc_good s : inv s -> p_good (getc s) (getc_post true s).
Proof.
  intros Hi. split_inv Hi. unfold getc, p_good, getc_post.
  destruct (num s =? 0) eqn:E.
  - do 2 eexists. split; [reflexivity|]. split; [assumption|]. left.
    unfold content. replace (num s) with 0 by lia. auto.
  - rewrite wsub_small by lia.
    destruct (inv_ptr s Hi ltac:(lia)) as (b & Hp & Hb & Hbuf). rewrite Hp.
    destruct (get_lt (num s - 1) b ltac:(lia)) as (c & Hg). rewrite Hg.
    destruct (put_ok (num s - 1) 0 b ltac:(lia)) as (b' & -> & Hl' & Ht' & Hg').
    do 2 eexists. split; [reflexivity|]. split; [apply inv_mk; lia|]. right.
    exists (take (num s - 1) b), c. split; [|split; [reflexivity|split; [|split]]].
    + unfold content. rewrite Hbuf. replace (num s) with (num s - 1 + 1) at 1 by lia.
      apply take_succ. assumption.
    + rewrite content_mk. assumption.
    + cbn [num]. lia.
    + intros _. apply terminated_mk; [lia|assumption].
Qed.

(* ------------------------------------------------------------------ a_str_getn_ / a_str_getn *)
Definition getn_post (term want : bool) (nbyte : N) (s : str) (r : N * list N) (s' : str) : Prop :=
  let k := N.min nbyte (num s) in
  r = (k, if want then drop (num s - k) (content s) else []) /\
  content s' = take (num s - k) (content s) /\ num s' = num s - k /\
  (term = true -> 0 < k -> terminated s').

Lemma drop_content s b k : buf s = b -> k <= num s -> num s <= len b ->
  take k (drop (num s - k) b) = drop (num s - k) (content s).
Proof.
  intros Hb Hk Hn. unfold content. rewrite Hb, take_drop_comm. do 2 f_equal. lia.
Qed.

Lemma getn__good s want nbyte : inv s -> p_good (getn_ s want nbyte) (getn_post false want nbyte s).
Proof.
  intros Hi. split_inv Hi. unfold getn_, p_good, getn_post.
  set (nb := if num s <? nbyte then num s else nbyte).
  assert (Hnb : nb = N.min nbyte (num s)) by (unfold nb; destruct (num s <? nbyte) eqn:?; lia).
  rewrite <- Hnb. clearbody nb.
  destruct (nb =? 0) eqn:E.
  - assert (nb = 0) as -> by lia. rewrite N.sub_0_r.
    do 2 eexists. split; [reflexivity|]. split; [assumption|].
    rewrite drop_all by (rewrite inv_content_len; auto; lia).
    rewrite take_all by (rewrite inv_content_len; auto; lia).
    destruct want; repeat split; discriminate.
  - rewrite wsub_small by lia.
    assert (Hc : take (num s - nb) (buf s) = take (num s - nb) (content s))
      by (unfold content; rewrite take_take_le by lia; reflexivity).
    destruct want.
    + destruct (inv_ptr s Hi ltac:(lia)) as (b & Hp & Hb & Hbuf). rewrite Hp.
      rewrite sub_ok by lia.
      do 2 eexists. split; [reflexivity|]. split; [apply inv_mk; lia|].
      rewrite content_mk, <- Hbuf. split; [|split; [assumption|split; [reflexivity|discriminate]]].
      f_equal. rewrite Hbuf. apply drop_content; auto; lia.
    + do 2 eexists. split; [reflexivity|]. split; [unfold inv, buf in *; cbn; repeat split; lia|].
      split; [reflexivity|]. split; [exact Hc|split; [reflexivity|discriminate]].
Qed.

Lemma getn_good s want nbyte : inv s -> p_good (getn s want nbyte) (getn_post true want nbyte s).
Proof.
  intros Hi. split_inv Hi. unfold getn, p_good, getn_post.
  set (nb := if num s <? nbyte then num s else nbyte).
  assert (Hnb : nb = N.min nbyte (num s)) by (unfold nb; destruct (num s <? nbyte) eqn:?; lia).
  rewrite <- Hnb. clearbody nb.
  destruct (nb =? 0) eqn:E.
  - assert (nb = 0) as -> by lia. rewrite N.sub_0_r.
    do 2 eexists. split; [reflexivity|]. split; [assumption|].
    rewrite drop_all by (rewrite inv_content_len; auto; lia).
    rewrite take_all by (rewrite inv_content_len; auto; lia).
    destruct want; repeat split; lia.
  - rewrite wsub_small by lia.
    destruct (inv_ptr s Hi ltac:(lia)) as (b & Hp & Hb & Hbuf). rewrite Hp.
    assert (Hc : take (num s - nb) b = take (num s - nb) (content s))
      by (unfold content; rewrite Hbuf, take_take_le by lia; reflexivity).
    destruct (put_ok (num s - nb) 0 b ltac:(lia)) as (b' & Hput & Hl' & Ht' & Hg').
    assert (Hd : (if want then sub (num s - nb) nb b else Some []) =
                 Some (if want then drop (num s - nb) (content s) else [])).
    { destruct want; [|reflexivity]. rewrite sub_ok by lia. f_equal. apply drop_content; auto; lia. }
    rewrite Hd, Hput.
    do 2 eexists. split; [reflexivity|]. split; [apply inv_mk; lia|].
    split; [reflexivity|]. rewrite content_mk, Ht'. split; [assumption|]. split; [reflexivity|].
    intros _ _. apply terminated_mk; [lia|assumption].
Qed.

(* ------------------------------------------------------------------ trim family *)
Lemma rtrim_loop_spec set b : forall fuel n, n <= len b -> fuel = N.to_nat n ->
  exists n', rtrim_loop fuel set b n = Some n' /\ n' <= n /\
             take n' b = rstrip (inset set) (take n b).
Proof.
  induction fuel as [|f IH]; intros n Hn Hf; cbn [rtrim_loop].
  - assert (n = 0) as -> by lia. exists 0. repeat split; lia.
  - destruct (n =? 0) eqn:E.
    + assert (n = 0) as -> by lia. exists 0. repeat split; lia.
    + destruct (get_lt (n - 1) b ltac:(lia)) as (c & Hg). rewrite Hg.
      assert (Ht : take n b = take (n - 1) b ++ [c]).
      { replace n with (n - 1 + 1) at 1 by lia. now apply take_succ. }
      rewrite Ht, rstrip_snoc. destruct (inset set c).
      * destruct (IH (n - 1) ltac:(lia) ltac:(lia)) as (n' & -> & Hle & Hs).
        exists n'. repeat split; [lia|assumption].
      * exists n. repeat split; [lia|]. assumption.
Qed.

Definition trim_post (f : list N -> list N) (s : str) (_ : unit) (s' : str) : Prop :=
  content s' = f (content s) /\ num s' <= num s /\ mem s' = mem s.

Lemma rtrim__good s set : inv s -> p_good (rtrim_ s set) (trim_post (rstrip (inset set)) s).
Proof.
  intros Hi. split_inv Hi. unfold rtrim_, p_good, trim_post.
  destruct (num s =? 0) eqn:E.
  - do 2 eexists. split; [reflexivity|]. split; [assumption|].
    unfold content. replace (num s) with 0 by lia. repeat split; lia.
  - destruct (inv_ptr s Hi ltac:(lia)) as (b & Hp & Hb & Hbuf). rewrite Hp.
    destruct (rtrim_loop_spec set b (N.to_nat (num s)) (num s) ltac:(lia) eq_refl) as (n' & -> & Hle & Hs).
    do 2 eexists. split; [reflexivity|]. split; [apply inv_mk; lia|].
    rewrite content_mk. unfold content. rewrite Hbuf. repeat split; [assumption|cbn [num]; lia].
Qed.

Lemma ltrim__good s set : inv s -> p_good (ltrim_ s set) (trim_post (lstrip (inset set)) s).
Proof.
  intros Hi. split_inv Hi. unfold ltrim_, p_good, trim_post.
  destruct (num s =? 0) eqn:E.
  - do 2 eexists. split; [reflexivity|]. split; [assumption|].
    unfold content. replace (num s) with 0 by lia. repeat split; lia.
  - destruct (inv_ptr s Hi ltac:(lia)) as (b & Hp & Hb & Hbuf). rewrite Hp.
    rewrite sub_ok by lia. rewrite drop_0.
    assert (Hc : take (num s) b = content s) by (unfold content; now rewrite Hbuf).
    rewrite Hc. destruct (lcount_spec set (content s)) as (Hd & Hle).
    rewrite inv_content_len in Hle by assumption.
    set (i := lcount set (content s)) in *.
    destruct (i =? 0) eqn:Ei.
    + do 2 eexists. split; [reflexivity|]. split; [assumption|].
      rewrite <- Hd. replace i with 0 by lia. repeat split; lia.
    + rewrite wsub_small by lia. rewrite sub_ok by lia.
      set (moved := take (num s - i) (drop i b)).
      assert (Hlm : len moved = num s - i) by (unfold moved; rewrite len_take, len_drop; lia).
      destruct (blit_ok 0 moved b ltac:(lia)) as (b' & -> & Hl' & _ & Htd).
      do 2 eexists. split; [reflexivity|]. split; [apply inv_mk; lia|].
      rewrite content_mk. repeat split; cbn [num mem]; try lia.
      rewrite N.add_0_l, take_0, app_nil_l, Hlm in Htd. rewrite Htd.
      unfold moved. rewrite take_drop_comm. replace (i + (num s - i)) with (num s) by lia.
      rewrite Hc. exact Hd.
Qed.

Lemma term_if_shorter_good old s1 : inv s1 -> old <= mem s1 ->
  p_good (term_if_shorter old s1)
         (fun _ s' => content s' = content s1 /\ num s' = num s1 /\ mem s' = mem s1 /\
                      (num s1 < old -> terminated s')).
Proof.
  intros Hi Ho. split_inv Hi. unfold term_if_shorter, p_good.
  destruct (num s1 <? old) eqn:E.
  - destruct (inv_ptr s1 Hi ltac:(lia)) as (b & Hp & Hb & Hbuf). rewrite Hp.
    destruct (put_ok (num s1) 0 b ltac:(lia)) as (b' & -> & Hl' & Ht' & Hg').
    do 2 eexists. split; [reflexivity|]. split; [apply inv_mk; lia|].
    rewrite content_mk, Ht'. unfold content. rewrite Hbuf.
    split; [reflexivity|]. split; [reflexivity|]. split; [reflexivity|].
    intros _. apply terminated_mk; [lia|assumption].
  - do 2 eexists. split; [reflexivity|]. split; [assumption|].
    split; [reflexivity|]. split; [reflexivity|]. split; [reflexivity|]. lia.
Qed.

Definition trimT_post (f : list N -> list N) (s : str) (_ : unit) (s' : str) : Prop :=
  content s' = f (content s) /\ num s' <= num s /\ (num s' < num s -> terminated s').

Lemma with_term_good (g : str -> pres unit) f s :
  inv s -> p_good (g s) (trim_post f s) ->
  p_good (match g s with None => None | Some (_, s1) => term_if_shorter (num s) s1 end)
         (trimT_post f s).
Proof.
  intros Hi (r & s1 & -> & Hi1 & Hc & Hn & Hm). split_inv Hi.
  destruct (term_if_shorter_good (num s) s1 Hi1 ltac:(lia)) as (r2 & s2 & -> & Hi2 & Hc2 & Hn2 & Hm2 & Ht2).
  do 2 eexists. split; [reflexivity|]. split; [assumption|]. unfold trimT_post.
  rewrite Hc2, Hn2. split; [assumption|]. split; [assumption|]. exact Ht2.
Qed.

Lemma rtrim_good s set : inv s -> p_good (rtrim s set) (trimT_post (rstrip (inset set)) s).
Proof. intros Hi. apply (with_term_good (fun s => rtrim_ s set)); auto using rtrim__good. Qed.

Lemma ltrim_good s set : inv s -> p_good (ltrim s set) (trimT_post (lstrip (inset set)) s).
Proof. intros Hi. apply (with_term_good (fun s => ltrim_ s set)); auto using ltrim__good. Qed.

Lemma trim__good s set : inv s ->
  p_good (trim_ s set) (trim_post (fun c => lstrip (inset set) (rstrip (inset set) c)) s).
Proof.
  intros Hi. unfold trim_.
  destruct (rtrim__good s set Hi) as (r & s1 & -> & Hi1 & Hc1 & Hn1 & Hm1).
  destruct (ltrim__good s1 set Hi1) as (r2 & s2 & -> & Hi2 & Hc2 & Hn2 & Hm2).
  do 2 eexists. split; [reflexivity|]. split; [assumption|]. unfold trim_post.
  rewrite Hc2, Hc1. repeat split; lia.
Qed.

Lemma trim_good s set : inv s ->
  p_good (trim s set) (trimT_post (fun c => lstrip (inset set) (rstrip (inset set) c)) s).
Proof. intros Hi. apply (with_term_good (fun s => trim_ s set)); auto using trim__good. Qed.

(* ------------------------------------------------------------------ a_str_setn / a_str_setn_ *)
Lemma take_add a k l : a <= len l -> take (a + k) l = take a l ++ take k (drop a l).
Proof.
  intros H. rewrite <- (take_drop a l) at 1.
  rewrite take_app_ge by (rewrite len_take; lia). rewrite len_take. do 2 f_equal. lia.
Qed.

Lemma setn_resized s n : inv s -> n <= mem s ->
  inv (mkStr (ptr s) n (mem s)) /\ resized n (content s) (content (mkStr (ptr s) n (mem s))).
Proof.
  intros Hi Hn. split_inv Hi. split; [unfold inv, buf in *; cbn; auto|].
  unfold resized. rewrite inv_content_len by assumption. unfold content. cbn [num].
  change (buf (mkStr (ptr s) n (mem s))) with (buf s).
  destruct (n <=? num s) eqn:E.
  - rewrite take_take_le by lia. reflexivity.
  - exists (take (n - num s) (drop (num s) (buf s))). split.
    + rewrite len_take, len_drop. lia.
    + replace n with (num s + (n - num s)) at 1 by lia. apply take_add. lia.
Qed.

(* ------------------------------------------------------------------ comparison *)
Definition bufo (p : option (list N)) : list N := match p with Some b => b | None => [] end.

Lemma lex_cmp_nil_l c : lex_cmp [] c = lencmp 0 (len c).
Proof.
  destruct c; [reflexivity|]. cbn [lex_cmp]. unfold lencmp. rewrite len_cons.
  replace (len c + 1 <? 0) with false by lia. replace (0 <? len c + 1) with true by lia. reflexivity.
Qed.
Lemma lex_cmp_nil_r c : lex_cmp c [] = lencmp (len c) 0.
Proof.
  destruct c; [reflexivity|]. cbn [lex_cmp]. unfold lencmp. rewrite len_cons.
  replace (len c + 1 <? 0) with false by lia. replace (0 <? len c + 1) with true by lia. reflexivity.
Qed.

Lemma cmp__spec p0 n0 p1 n1 :
  n0 <= len (bufo p0) -> n1 <= len (bufo p1) ->
  cmp_ p0 n0 p1 n1 = Some (lex_cmp (take n0 (bufo p0)) (take n1 (bufo p1))).
Proof.
  intros H0 H1. unfold cmp_.
  destruct p0 as [a|]; [destruct p1 as [b|]|]; cbn [bufo] in *.
  - set (k := if n0 <? n1 then n0 else n1).
    assert (Hk : k = N.min n0 n1) by (unfold k; destruct (n0 <? n1) eqn:?; lia).
    rewrite !sub_ok by lia. rewrite !drop_0. f_equal.
    rewrite lex_cmp_memcmp. cbn zeta.
    assert (L0 : len (take n0 a) = n0) by (rewrite len_take; lia).
    assert (L1 : len (take n1 b) = n1) by (rewrite len_take; lia).
    rewrite L0, L1.
    assert (Hkk : Nat.min (length (take n0 a)) (length (take n1 b)) = N.to_nat k)
      by (unfold len in L0, L1; lia).
    rewrite Hkk. change (firstn (N.to_nat k) ?l) with (take k l).
    rewrite !take_take_le by lia. destruct (memcmp (take k a) (take k b) =? 0)%Z; reflexivity.
  - rewrite len_nil in H1. replace n1 with 0 by lia. rewrite take_0, lex_cmp_nil_r, len_take.
    do 2 f_equal. lia.
  - rewrite len_nil in H0. replace n0 with 0 by lia. rewrite take_0, lex_cmp_nil_l, len_take.
    destruct p1; cbn [bufo] in *; do 2 f_equal; lia.
Qed.

Lemma cmp_spec l r : inv l -> inv r -> cmp l r = Some (lex_cmp (content l) (content r)).
Proof.
  intros Hl Hr. split_inv Hl. split_inv Hr. unfold cmp. apply cmp__spec; unfold bufo, buf in *; lia.
Qed.

Lemma cmpn_spec s d : inv s -> cmpn s d = Some (lex_cmp (content s) d).
Proof.
  intros Hs. split_inv Hs. unfold cmpn. rewrite cmp__spec; unfold bufo, buf in *; try lia.
  rewrite (take_all (len d) d) by lia. reflexivity.
Qed.

(* ================================================================== the machine *)
Lemma sel_upd t s sc m : sel t (upd t s sc m) = s.
Proof. destruct t; reflexivity. Qed.
Lemma oth_upd t s sc m : oth t (upd t s sc m) = oth t m.
Proof. destruct t; reflexivity. Qed.
Lemma abs_upd t s sc m : abs (upd t s sc m) = aupd t (content s) (abs m).
Proof. destruct t; reflexivity. Qed.
Lemma minv_upd t s sc m : minv m -> inv s -> minv (upd t s sc m).
Proof. intros [? ?] ?. destruct t; split; assumption. Qed.
Lemma minv_sel t m : minv m -> inv (sel t m).
Proof. intros [? ?]. destruct t; assumption. Qed.
Lemma minv_oth t m : minv m -> inv (oth t m).
Proof. intros [? ?]. destruct t; assumption. Qed.
Lemma asel_abs t m : asel t (abs m) = content (sel t m).
Proof. destruct t; reflexivity. Qed.
Lemma aoth_abs t m : aoth t (abs m) = content (oth t m).
Proof. destruct t; reflexivity. Qed.
Lemma aupd_same t m : aupd t (content (sel t m)) (abs m) = abs m.
Proof. destruct t; unfold abs, aupd; cbn; reflexivity. Qed.
Lemma asel_aupd t c a : asel t (aupd t c a) = c.
Proof. destruct t; reflexivity. Qed.
Lemma aoth_aupd t c a : aoth t (aupd t c a) = aoth t a.
Proof. destruct t; reflexivity. Qed.

(* an appending operation, lifted to the machine *)
Lemma step_append t m (x : ares Z) (okret failret : Z) (d : list N) (term : bool) :
  minv m ->
  a_good (sel t m) x
         (fun r s' => r = okret /\ content s' = content (sel t m) ++ d /\ (term = true -> terminated s'))
         (fun r => r = failret) ->
  exists m' r e, lift_a t m x = (m', RInt r, e) /\ minv m' /\
    (if any_failed e then abs m' = abs m /\ r = failret
     else r = okret /\ abs m' = aupd t (asel t (abs m) ++ d) (abs m) /\
          (term = true -> terminated (sel t m'))).
Proof.
  intros Hm (r & s' & sc' & e & -> & Hi' & HP). unfold lift_a.
  do 3 eexists. split; [reflexivity|]. split; [now apply minv_upd|].
  rewrite abs_upd, sel_upd, asel_abs. destruct (any_failed e).
  - destruct HP as [-> ->]. split; [apply aupd_same|reflexivity].
  - destruct HP as (-> & -> & ?). auto.
Qed.

Lemma a_good_weaken {A} s (x : ares A) (P P' : A -> str -> Prop) Q :
  (forall r s', P r s' -> P' r s') -> a_good s x P Q -> a_good s x P' Q.
Proof.
  intros H (r & s' & sc' & e & -> & Hi & HP). do 4 eexists. split; [reflexivity|]. split; [assumption|].
  destruct (any_failed e); auto.
Qed.

(* a pure operation, lifted *)
Lemma step_pure {A} t m (x : pres A) (f : A -> ret) P :
  minv m -> p_good x P ->
  exists a s', lift_p t m f x = (upd t s' (sch m) m, f a, []) /\ inv s' /\ P a s'.
Proof.
  intros Hm (r & s' & -> & Hi' & HP). unfold lift_p. eauto.
Qed.

Ltac finish_append Hm G :=
  let m1 := fresh "m1" in let r1 := fresh "r1" in let e1 := fresh "e1" in
  let Hx := fresh "Hx" in let Hm1 := fresh "Hm1" in let HP := fresh "HP" in
  destruct (step_append _ _ _ _ _ _ _ Hm G) as (m1 & r1 & e1 & Hx & Hm1 & HP);
  rewrite Hx; intros [= <- <- <-];
  split; [exact Hm1|];
  split;
  [ split; [discriminate|]; destruct (any_failed e1);
    [ destruct HP as [-> ->]; split; reflexivity
    | destruct HP as (-> & -> & _); split; reflexivity ]
  | unfold step_terminates; cbn [term_target]; try exact I;
    intros Hnf _; rewrite Hnf in HP; destruct HP as (_ & _ & HT); apply HT; reflexivity ].

Theorem step_good o m m' r e :
  minv m -> op_ok o m -> step o m = (m', r, e) ->
  minv m' /\ step_refines o m m' r e /\ step_terminates o m m' e.
Proof.
  intros Hm Hok. pose proof (minv_sel) as Hsel. pose proof (minv_oth) as Hoth.
  destruct o; cbn [step op_ok] in *.
  - (* dtor *)
    unfold dtor. destruct (ptr (sel t m)); intros [= <- <- <-];
      (split; [apply minv_upd; [assumption|apply inv_init]|]);
      (split; [|exact I]); (split; [discriminate|]); cbn [any_failed existsb ev_failed orb];
      cbn [spec_ok]; rewrite abs_upd; split; reflexivity.
  - (* swap *)
    intros [= <- <- <-]. destruct Hm as [HA HB].
    split; [split; assumption|]. split; [|exact I]. split; [discriminate|]. cbn. split; reflexivity.
  - (* exit *)
    destruct (ptr (sel t m)) as [b0|] eqn:Ep.
    + destruct (exit_good (sel t m) (sch m) b0 (Hsel t m Hm) Hok Ep) as (r0 & s' & sc' & e0 & -> & Hi' & HP).
      intros [= <- <- <-]. split; [now apply minv_upd|]. split; [|exact I]. split; [discriminate|].
      rewrite abs_upd. destruct (any_failed e0).
      * destruct HP as [-> ->]. split; [apply aupd_same|reflexivity].
      * destruct HP as (-> & blk & -> & Ht & _). cbn [spec_ok]. rewrite Ep.
        exists blk. rewrite asel_abs, inv_content_len by auto. auto.
    + rewrite exit_null by assumption. intros [= <- <- <-].
      split; [apply minv_upd; [assumption|apply inv_init]|]. split; [|exact I]. split; [discriminate|].
      cbn [any_failed existsb spec_ok]. rewrite Ep. split; [reflexivity|].
      rewrite abs_upd. rewrite <- (aupd_same t m) at 2. f_equal.
      specialize (Hsel t m Hm). destruct Hsel as (? & ? & Hl). unfold content, buf in *. rewrite Ep in *.
      rewrite take_nil. symmetry. apply take_nil.
  - (* setm *)
    destruct (setm_spec (sel t m) m0 (sch m) (Hsel t m Hm) ltac:(lia)) as [R _].
    destruct (setm (sel t m) m0 (sch m)) as [[[rc s1] sc1] e1]. intros [= <- <- <-].
    destruct R as [(-> & He & Hi1 & Hn1 & Hm1 & Hk1) | (-> & He & ->)].
    + split; [now apply minv_upd|]. split; [|exact I]. split; [discriminate|]. rewrite He.
      cbn [spec_ok]. split; [reflexivity|]. rewrite abs_upd. rewrite <- (aupd_same t m) at 2. f_equal.
      apply reserve_content; auto. destruct (Hsel t m Hm) as (? & ? & ?). destruct Hi1 as (? & ? & ?). lia.
    + split; [apply minv_upd; auto|]. split; [|exact I]. split; [discriminate|]. rewrite He.
      split; [|reflexivity]. rewrite abs_upd. apply aupd_same.
  - (* setm_ *)
    destruct Hok as [Hok1 Hok2].
    pose proof (setm__spec (sel t m) m0 (sch m) (Hsel t m Hm) Hok2 ltac:(lia)) as R.
    destruct (setm_ (sel t m) m0 (sch m)) as [[[rc s1] sc1] e1]. intros [= <- <- <-].
    destruct R as [(-> & He & Hi1 & Hn1 & Hm1 & Hk1) | (-> & He & ->)].
    + split; [now apply minv_upd|]. split; [|exact I]. split; [discriminate|]. rewrite He.
      cbn [spec_ok]. split; [reflexivity|]. rewrite abs_upd. rewrite <- (aupd_same t m) at 2. f_equal.
      apply reserve_content; auto. destruct (Hsel t m Hm) as (? & ? & ?). destruct Hi1 as (? & ? & ?). lia.
    + split; [apply minv_upd; auto|]. split; [|exact I]. split; [discriminate|]. rewrite He.
      split; [|reflexivity]. rewrite abs_upd. apply aupd_same.
  - (* setn *)
    unfold setn. destruct (n <=? mem (sel t m)) eqn:E; intros [= <- <- <-].
    + destruct (setn_resized (sel t m) n (Hsel t m Hm) ltac:(lia)) as [Hi' Hr].
      split; [now apply minv_upd|]. split; [|exact I]. split; [discriminate|].
      cbn [any_failed existsb spec_ok]. rewrite E, abs_upd, asel_aupd, aoth_aupd, asel_abs. auto.
    + split; [apply minv_upd; auto|]. split; [|exact I]. split; [discriminate|].
      cbn [any_failed existsb spec_ok]. rewrite E, abs_upd. split; [reflexivity|apply aupd_same].
  - (* setn_ *)
    intros [= <- <- <-]. unfold setn_.
    destruct (setn_resized (sel t m) n (Hsel t m Hm) Hok) as [Hi' Hr].
    split; [now apply minv_upd|]. split; [|exact I]. split; [discriminate|].
    cbn [any_failed existsb spec_ok]. rewrite abs_upd, asel_aupd, aoth_aupd, asel_abs. auto.
  - (* getc *)
    destruct (step_pure t m _ RInt _ Hm (getc_good (sel t m) (Hsel t m Hm))) as (a & s' & -> & Hi' & HP).
    intros [= <- <- <-]. split; [now apply minv_upd|]. unfold step_terminates; cbn [term_target]; rewrite sel_upd.
    destruct HP as [(Hc & -> & ->) | (c0 & x & Hc & -> & Hc' & Hn' & HT)].
    + split; [|intros _ [H|H]; [discriminate|lia]]. split; [discriminate|].
      cbn [any_failed existsb spec_ok]. left. rewrite asel_abs, abs_upd. auto using aupd_same.
    + split; [|intros _ _; auto]. split; [discriminate|].
      cbn [any_failed existsb spec_ok]. right. exists c0, x. rewrite asel_abs, abs_upd, Hc'. auto.
  - (* getc_ *)
    destruct (step_pure t m _ RInt _ Hm (getc__good (sel t m) (Hsel t m Hm))) as (a & s' & -> & Hi' & HP).
    intros [= <- <- <-]. split; [now apply minv_upd|]. split; [|exact I].
    destruct HP as [(Hc & -> & ->) | (c0 & x & Hc & -> & Hc' & Hn' & HT)].
    + split; [discriminate|].
      cbn [any_failed existsb spec_ok]. left. rewrite asel_abs, abs_upd. auto using aupd_same.
    + split; [discriminate|].
      cbn [any_failed existsb spec_ok]. right. exists c0, x. rewrite asel_abs, abs_upd, Hc'. auto.
  - (* catc *)
    pose proof (catc_good (sel t m) c (sch m) (Hsel t m Hm) Hok) as G.
    apply (a_good_weaken _ _ _ (fun r s' => r = c /\ content s' = content (sel t m) ++ [uchar c] /\
                                           (true = true -> terminated s'))) in G; [|intuition].
    finish_append Hm G.
  - (* catc_ *)
    pose proof (catc__good (sel t m) c (sch m) (Hsel t m Hm) Hok) as G.
    apply (a_good_weaken _ _ _ (fun r s' => r = c /\ content s' = content (sel t m) ++ [uchar c] /\
                                           (false = true -> terminated s'))) in G;
      [|intuition discriminate].
    finish_append Hm G.
  - (* getn *)
    destruct (step_pure t m _ (fun x => RSize (fst x) (snd x)) _ Hm
                        (getn_good (sel t m) want n (Hsel t m Hm))) as (a & s' & -> & Hi' & HP).
    intros [= <- <- <-]. split; [now apply minv_upd|]. unfold step_terminates; cbn [term_target]; rewrite sel_upd.
    destruct HP as (-> & Hc' & Hn' & HT). cbn [fst snd].
    split.
    + split; [discriminate|]. cbn [any_failed existsb spec_ok].
      rewrite asel_abs, abs_upd, inv_content_len, Hc' by auto. auto.
    + intros _ [H|H]; [discriminate|]. apply HT; [reflexivity|lia].
  - (* getn_ *)
    destruct (step_pure t m _ (fun x => RSize (fst x) (snd x)) _ Hm
                        (getn__good (sel t m) want n (Hsel t m Hm))) as (a & s' & -> & Hi' & HP).
    intros [= <- <- <-]. split; [now apply minv_upd|]. split; [|exact I].
    destruct HP as (-> & Hc' & Hn' & HT). cbn [fst snd].
    split; [discriminate|]. cbn [any_failed existsb spec_ok].
    rewrite asel_abs, abs_upd, inv_content_len, Hc' by auto. auto.
  - (* catn *)
    destruct (catn_good (sel t m) d (sch m) (Hsel t m Hm) Hok) as [G _].
    apply (a_good_weaken _ _ _ (fun r s' => r = A_SUCCESS /\ content s' = content (sel t m) ++ d /\
                                           (true = true -> terminated s'))) in G; [|intuition].
    finish_append Hm G.
  - (* catn_ *)
    destruct (catn__good (sel t m) d (sch m) (Hsel t m Hm) Hok) as [G _].
    apply (a_good_weaken _ _ _ (fun r s' => r = A_SUCCESS /\ content s' = content (sel t m) ++ d /\
                                           (false = true -> terminated s'))) in G;
      [|intuition discriminate].
    finish_append Hm G.
  - (* cats *)
    pose proof (cats_good (sel t m) d (sch m) (Hsel t m Hm) Hok) as G.
    apply (a_good_weaken _ _ _ (fun r s' => r = A_SUCCESS /\ content s' = content (sel t m) ++ cstr d /\
                                           (true = true -> terminated s'))) in G; [|intuition].
    finish_append Hm G.
  - (* cats_ *)
    pose proof (cats__good (sel t m) d (sch m) (Hsel t m Hm) Hok) as G.
    apply (a_good_weaken _ _ _ (fun r s' => r = A_SUCCESS /\ content s' = content (sel t m) ++ cstr d /\
                                           (false = true -> terminated s'))) in G;
      [|intuition discriminate].
    finish_append Hm G.
  - (* cat *)
    unfold cat.
    assert (G : a_good (sel t m) (cat_gen true (sel t m) (if self then None else Some (oth t m)) (sch m))
                  (fun r s' => r = A_SUCCESS /\
                               content s' = content (sel t m) ++ (if self then asel t (abs m) else aoth t (abs m)) /\
                               (true = true -> terminated s'))
                  (fun r => r = A_OMEMORY)).
    { eapply a_good_weaken; [|apply cat_gen_good; auto].
      - intros r0 s' (? & ? & ?). rewrite asel_abs, aoth_abs. destruct self; auto.
      - intros o Ho. destruct self; [discriminate|]. injection Ho as <-. auto.
      - destruct self; exact Hok. }
    finish_append Hm G.
  - (* cat_ *)
    unfold cat_.
    assert (G : a_good (sel t m) (cat_gen false (sel t m) (if self then None else Some (oth t m)) (sch m))
                  (fun r s' => r = A_SUCCESS /\
                               content s' = content (sel t m) ++ (if self then asel t (abs m) else aoth t (abs m)) /\
                               (false = true -> terminated s'))
                  (fun r => r = A_OMEMORY)).
    { eapply a_good_weaken; [|apply cat_gen_good; auto].
      - intros r0 s' (? & ? & ?). rewrite asel_abs, aoth_abs. destruct self; auto.
      - intros o Ho. destruct self; [discriminate|]. injection Ho as <-. auto.
      - destruct self; exact Hok. }
    finish_append Hm G.
  - (* catf *)
    destruct Hok as [Hok _].
    pose proof (catv_good (sel t m) out (sch m) (Hsel t m Hm) Hok) as G.
    apply (a_good_weaken _ _ _ (fun r s' => r = Z.of_N (len out) /\ content s' = content (sel t m) ++ out /\
                                           (true = true -> terminated s'))) in G; [|intuition].
    finish_append Hm G.
  - (* rtrim *)
    destruct (step_pure t m _ (fun _ => RVoid) _ Hm (rtrim_good (sel t m) set (Hsel t m Hm)))
      as (a & s' & -> & Hi' & (Hc' & Hn' & HT)).
    intros [= <- <- <-]. split; [now apply minv_upd|]. unfold step_terminates; cbn [term_target]; rewrite sel_upd. split.
    + split; [discriminate|]. cbn [any_failed existsb spec_ok]. rewrite asel_abs, abs_upd, Hc'. auto.
    + intros _ [H|H]; [discriminate|auto].
  - (* rtrim_ *)
    destruct (step_pure t m _ (fun _ => RVoid) _ Hm (rtrim__good (sel t m) set (Hsel t m Hm)))
      as (a & s' & -> & Hi' & (Hc' & Hn' & HT)).
    intros [= <- <- <-]. split; [now apply minv_upd|]. split; [|exact I].
    split; [discriminate|]. cbn [any_failed existsb spec_ok]. rewrite asel_abs, abs_upd, Hc'. auto.
  - (* ltrim *)
    destruct (step_pure t m _ (fun _ => RVoid) _ Hm (ltrim_good (sel t m) set (Hsel t m Hm)))
      as (a & s' & -> & Hi' & (Hc' & Hn' & HT)).
    intros [= <- <- <-]. split; [now apply minv_upd|]. unfold step_terminates; cbn [term_target]; rewrite sel_upd. split.
    + split; [discriminate|]. cbn [any_failed existsb spec_ok]. rewrite asel_abs, abs_upd, Hc'. auto.
    + intros _ [H|H]; [discriminate|auto].
  - (* ltrim_ *)
    destruct (step_pure t m _ (fun _ => RVoid) _ Hm (ltrim__good (sel t m) set (Hsel t m Hm)))
      as (a & s' & -> & Hi' & (Hc' & Hn' & HT)).
    intros [= <- <- <-]. split; [now apply minv_upd|]. split; [|exact I].
    split; [discriminate|]. cbn [any_failed existsb spec_ok]. rewrite asel_abs, abs_upd, Hc'. auto.
  - (* trim *)
    destruct (step_pure t m _ (fun _ => RVoid) _ Hm (trim_good (sel t m) set (Hsel t m Hm)))
      as (a & s' & -> & Hi' & (Hc' & Hn' & HT)).
    intros [= <- <- <-]. split; [now apply minv_upd|]. unfold step_terminates; cbn [term_target]; rewrite sel_upd. split.
    + split; [discriminate|]. cbn [any_failed existsb spec_ok]. rewrite asel_abs, abs_upd, Hc'. auto.
    + intros _ [H|H]; [discriminate|auto].
  - (* trim_ *)
    destruct (step_pure t m _ (fun _ => RVoid) _ Hm (trim__good (sel t m) set (Hsel t m Hm)))
      as (a & s' & -> & Hi' & (Hc' & Hn' & HT)).
    intros [= <- <- <-]. split; [now apply minv_upd|]. split; [|exact I].
    split; [discriminate|]. cbn [any_failed existsb spec_ok]. rewrite asel_abs, abs_upd, Hc'. auto.
  - (* utf *)
    pose proof (utf_catc_good (sel t m) c (sch m) (Hsel t m Hm) Hok) as G.
    apply (a_good_weaken _ _ _ (fun r s' => r = A_SUCCESS /\ content s' = content (sel t m) ++ utf_encode c /\
                                           (true = true -> terminated s'))) in G; [|intuition].
    finish_append Hm G.
  - (* cmp *)
    rewrite (cmp_spec _ _ (Hsel t m Hm) (Hoth t m Hm)). intros [= <- <- <-].
    split; [assumption|]. split; [|exact I]. split; [discriminate|].
    cbn [any_failed existsb spec_ok]. rewrite asel_abs, aoth_abs. auto.
  - (* cmpn *)
    rewrite (cmpn_spec _ _ (Hsel t m Hm)). intros [= <- <- <-].
    split; [assumption|]. split; [|exact I]. split; [discriminate|].
    cbn [any_failed existsb spec_ok]. rewrite asel_abs. auto.
  - (* cmps *)
    unfold cmps. rewrite (cmpn_spec _ _ (Hsel t m Hm)). intros [= <- <- <-].
    split; [assumption|]. split; [|exact I]. split; [discriminate|].
    cbn [any_failed existsb spec_ok]. rewrite asel_abs. auto.
Qed.

(* ================================================================== histories *)
Definition good_step (x : mstate * op * (mstate * ret * list ev)) : Prop :=
  let '(m0, o, (m1, r, e)) := x in
  minv m0 /\ minv m1 /\ step_refines o m0 m1 r e /\ step_terminates o m0 m1 e.

Theorem steps_good : forall ops m, minv m -> ops_ok ops m -> Forall good_step (steps ops m).
Proof.
  induction ops as [|o ops IH]; intros m Hm Hok; cbn [steps]; [constructor|].
  destruct Hok as [Ho Hr]. destruct (step o m) as [[m1 r] e] eqn:Es. cbn [fst] in *.
  destruct (step_good o m m1 r e Hm Ho Es) as (Hm1 & Href & Hterm).
  constructor; [cbn; auto|]. apply IH; assumption.
Qed.

Lemma minv_init sc : minv (m_init sc).
Proof. split; apply inv_init. Qed.

Lemma run_fst ops : forall m, fst (run (ops) m) =
  fold_left (fun m o => fst (fst (step o m))) ops m.
Proof.
  induction ops as [|o ops IH]; intros m; cbn [run fold_left]; [reflexivity|].
  destruct (step o m) as [[m1 r] e]. specialize (IH m1). destruct (run ops m1). cbn [fst] in *. exact IH.
Qed.

Theorem run_inv : forall ops m, minv m -> ops_ok ops m -> minv (fst (run ops m)).
Proof.
  intros ops m. rewrite run_fst. revert m.
  induction ops as [|o ops IH]; intros m Hm Hok; cbn [fold_left]; [assumption|].
  destruct Hok as [Ho Hr]. destruct (step o m) as [[m1 r] e] eqn:Es. cbn [fst] in *.
  apply IH; [|assumption]. now destruct (step_good o m m1 r e Hm Ho Es).
Qed.

(* ------------------------------------------------------------------ the clauses, unfolded *)
Definition inv_step (x : mstate * op * (mstate * ret * list ev)) : Prop :=
  let '(_, _, (m1, r, _)) := x in
  (num (sA m1) <= mem (sA m1) /\ len (buf (sA m1)) = mem (sA m1)) /\
  (num (sB m1) <= mem (sB m1) /\ len (buf (sB m1)) = mem (sB m1)) /\
  r <> RFault.

Theorem str_inv_all : forall sc ops, ops_ok ops (m_init sc) ->
  Forall inv_step (steps ops (m_init sc)).
Proof.
  intros sc ops Hok. pose proof (steps_good ops (m_init sc) (minv_init sc) Hok) as H.
  eapply Forall_impl; [|exact H]. intros [[m0 o] [[m1 r] e]] (_ & [(A1 & _ & A3) (B1 & _ & B3)] & [Hr _] & _).
  cbn. auto.
Qed.

Definition refines_step (x : mstate * op * (mstate * ret * list ev)) : Prop :=
  let '(m0, o, (m1, r, e)) := x in step_refines o m0 m1 r e.

Theorem str_refines_all : forall sc ops, ops_ok ops (m_init sc) ->
  Forall refines_step (steps ops (m_init sc)).
Proof.
  intros sc ops Hok. pose proof (steps_good ops (m_init sc) (minv_init sc) Hok) as H.
  eapply Forall_impl; [|exact H]. intros [[m0 o] [[m1 r] e]] (_ & _ & Hr & _). exact Hr.
Qed.

Definition terminates_step (x : mstate * op * (mstate * ret * list ev)) : Prop :=
  let '(m0, o, (m1, r, e)) := x in step_terminates o m0 m1 e.

Theorem str_terminated_all : forall sc ops, ops_ok ops (m_init sc) ->
  Forall terminates_step (steps ops (m_init sc)).
Proof.
  intros sc ops Hok. pose proof (steps_good ops (m_init sc) (minv_init sc) Hok) as H.
  eapply Forall_impl; [|exact H]. intros [[m0 o] [[m1 r] e]] (_ & _ & _ & Ht). exact Ht.
Qed.

(* formatted append: exactly the formatter's text, and its length is returned *)
Theorem catf_exact t out m m' r e :
  minv m -> fits (sel t m) (len out + 1) -> len out < 2147483647 ->
  step (OCatf t out) m = (m', r, e) -> any_failed e = false ->
  r = RInt (Z.of_N (len out)) /\
  content (sel t m') = content (sel t m) ++ out /\
  content (oth t m') = content (oth t m) /\
  terminated (sel t m').
Proof.
  intros Hm Hf Hl Hs He.
  destruct (step_good (OCatf t out) m m' r e Hm (conj Hf Hl) Hs) as (Hm' & [_ Href] & Hterm).
  rewrite He in Href. cbn [spec_ok] in Href. destruct Href as [-> Ha].
  unfold step_terminates in Hterm. cbn [term_target] in Hterm.
  split; [reflexivity|]. rewrite <- !asel_abs, <- !aoth_abs, Ha, asel_aupd, aoth_aupd. auto.
Qed.

(* ownership hand-over *)
Theorem exit_handover s sc b0 : inv s -> fits s 1 -> ptr s = Some b0 ->
  exists r s' sc' e, exit s sc = Some (r, s', sc', e) /\
    (any_failed e = false ->
       s' = str_init /\ exists blk, r = Some blk /\ take (num s + 1) blk = content s ++ [0] /\ num s < len blk) /\
    (any_failed e = true -> r = None /\ inv s' /\ content s' = content s).
Proof.
  intros Hi Hf Hp. destruct (exit_good s sc b0 Hi Hf Hp) as (r & s' & sc' & e & Hx & Hi' & HP).
  exists r, s', sc', e. split; [assumption|]. destruct (any_failed e).
  - split; [discriminate|]. intros _. destruct HP. auto.
  - split; [|discriminate]. intros _. exact HP.
Qed.

(* ------------------------------------------------------------------ lex_cmp is the lexicographic order *)
Lemma lex_cmp_refl a : lex_cmp a a = 0%Z.
Proof. induction a as [|x a IH]; cbn [lex_cmp]; [reflexivity|]. rewrite N.ltb_irrefl. exact IH. Qed.

Lemma lex_cmp_eq a b : lex_cmp a b = 0%Z <-> a = b.
Proof.
  split; [|intros ->; apply lex_cmp_refl].
  revert b. induction a as [|x a IH]; intros [|y b]; cbn [lex_cmp]; try discriminate; [reflexivity|].
  destruct (x <? y) eqn:E1; [discriminate|]. destruct (y <? x) eqn:E2; [discriminate|].
  intros H. f_equal; [lia|auto].
Qed.

Lemma lex_cmp_antisym a b : lex_cmp b a = (- lex_cmp a b)%Z.
Proof.
  revert b. induction a as [|x a IH]; intros [|y b]; cbn [lex_cmp]; try reflexivity.
  destruct (x <? y) eqn:E1; destruct (y <? x) eqn:E2; try reflexivity; [lia|apply IH].
Qed.

Lemma lex_cmp_prefix a x t : lex_cmp a (a ++ x :: t) = (-1)%Z.
Proof. induction a as [|y a IH]; cbn [lex_cmp app]; [reflexivity|]. rewrite N.ltb_irrefl. exact IH. Qed.

Lemma lex_cmp_first_diff p x y a b : x < y -> lex_cmp (p ++ x :: a) (p ++ y :: b) = (-1)%Z.
Proof.
  intros H. induction p as [|z p IH]; cbn [lex_cmp app].
  - replace (x <? y) with true by lia. reflexivity.
  - rewrite N.ltb_irrefl. exact IH.
Qed.

Theorem cmp_sign_all l r d : inv l -> inv r ->
  cmp l r = Some (lex_cmp (content l) (content r)) /\
  cmpn l d = Some (lex_cmp (content l) d) /\
  cmps l d = Some (lex_cmp (content l) (cstr d)).
Proof.
  intros Hl Hr. split; [now apply cmp_spec|]. split; [now apply cmpn_spec|].
  unfold cmps. now apply cmpn_spec.
Qed.

Theorem lex_cmp_is_lexicographic :
  (forall a b, lex_cmp a b = 0%Z <-> a = b) /\
  (forall a b, lex_cmp b a = (- lex_cmp a b)%Z) /\
  (forall a x t, lex_cmp a (a ++ x :: t) = (-1)%Z) /\
  (forall p x y a b, x < y -> lex_cmp (p ++ x :: a) (p ++ y :: b) = (-1)%Z).
Proof.
  repeat split; intros; try (now apply lex_cmp_eq); auto using lex_cmp_antisym, lex_cmp_prefix, lex_cmp_first_diff.
Qed.

(* trimming removes the maximal prefix / suffix over the set *)
Theorem strip_maximal f l :
  (exists pre, l = pre ++ lstrip f l /\ forallb f pre = true /\
               match lstrip f l with [] => True | x :: _ => f x = false end) /\
  (exists suf, l = rstrip f l ++ suf /\ forallb f suf = true /\
               match rev (rstrip f l) with [] => True | x :: _ => f x = false end).
Proof. split; [apply lstrip_char|apply rstrip_char]. Qed.

(* ------------------------------------------------------------------ the code as found *)
Definition full8 : str := mkStr (Some [48;49;50;51;52;53;54;55]) 8 8.   (* after a_str_catn_(ctx, "01234567", 8) *)

Lemma inv_full8 : inv full8.
Proof. unfold inv, full8, buf; cbn. rewrite W64_val. repeat split; try lia. Qed.

Theorem exit_orig_refuted : exists s, inv s /\ exit_orig s = None.
Proof. exists full8. split; [apply inv_full8|reflexivity]. Qed.

Definition abcdefg : str := mkStr (Some [97;98;99;100;101;102;103;0]) 7 8. (* after a_str_cats(ctx, "abcdefg") *)

Theorem cat_self_orig_refuted : exists s, inv s /\ terminated s /\ cat_self_orig_uaf s [] = true.
Proof.
  exists abcdefg. split; [|split; [|reflexivity]].
  - unfold inv, abcdefg, buf; cbn. rewrite W64_val. repeat split; try lia.
  - unfold terminated, abcdefg, buf; cbn. split; [lia|reflexivity].
Qed.

(* without the size precondition a_size_up wraps and a "successful" reservation drops the block *)
Theorem setm_wrap_refuted :
  exists m o, minv m /\ ~ op_ok o m /\
              let '(m', r, _) := step o m in r = RInt A_SUCCESS /\ ~ minv m'.
Proof.
  exists (mkM abcdefg str_init []), (OSetm TA 18446744073709551615).
  split; [|split].
  - split; [|apply inv_init]. unfold inv, abcdefg, buf; cbn. rewrite W64_val. repeat split; try lia.
  - cbn. rewrite W64_val. lia.
  - vm_compute. split; [reflexivity|]. intros [(H & _) _]. apply H. reflexivity.
Qed.

(* ------------------------------------------------------------------ non-vacuity *)
Definition ex_ops : list op :=
  [ OCatn_ TA [48;49;50;51;52;53;54;55];        (* fills the capacity exactly: num = mem = 8 *)
    OCats TB [32;32;97;32;98;0;120];
    OTrim TB [];
    OCatf TB [65;66;67;68];                     (* does not fit: two-pass path *)
    OCat TA false; OCat TA true;                (* append the other object, then itself *)
    OUtf TA 8364; OGetc TA; OGetn TA true 2;
    OSetn TA 3; OCmp TA; OSwap; OExit TA; OExit TB ].

(* a decision procedure for the preconditions, so that examples are checked by computation *)
Definition fitsb (s : str) (k : N) : bool := num s + k + 8 <? W64.
Definition op_okb (o : op) (m : mstate) : bool :=
  match o with
  | OSetm t n => n + 8 <? W64
  | OSetm_ t n => (n + 8 <? W64) && (num (sel t m) <=? n)
  | OSetn_ t n => n <=? mem (sel t m)
  | OCatc t _ | OCatc_ t _ => fitsb (sel t m) 2
  | OCatn t d | OCatn_ t d => fitsb (sel t m) (len d + 1)
  | OCats t d | OCats_ t d => fitsb (sel t m) (len (cstr d) + 1)
  | OCat t self | OCat_ t self => fitsb (sel t m) (num (if self then sel t m else oth t m) + 1)
  | OCatf t out => fitsb (sel t m) (len out + 1) && (len out <? 2147483647)
  | OUtf t _ => fitsb (sel t m) 7
  | OExit t => fitsb (sel t m) 1
  | _ => true
  end.
Fixpoint ops_okb (ops : list op) (m : mstate) : bool :=
  match ops with
  | [] => true
  | o :: r => op_okb o m && ops_okb r (fst (fst (step o m)))
  end.

Lemma op_okb_sound o m : op_okb o m = true -> op_ok o m.
Proof. destruct o; cbn [op_okb op_ok]; unfold fitsb, fits; intros; try exact I; lia. Qed.

Lemma ops_okb_sound : forall ops m, ops_okb ops m = true -> ops_ok ops m.
Proof.
  induction ops as [|o ops IH]; intros m H; cbn [ops_okb ops_ok] in *; [exact I|].
  apply andb_true_iff in H. destruct H as [H1 H2]. split; [now apply op_okb_sound|now apply IH].
Qed.

Example ex_ops_ok : ops_ok ex_ops (m_init []).
Proof. apply ops_okb_sound. vm_compute. reflexivity. Qed.

Example ex_ops_ok_failing_allocator : ops_ok ex_ops (m_init [true; false; true; false]).
Proof. apply ops_okb_sound. vm_compute. reflexivity. Qed.

Example ex_run :
  map fst (snd (run ex_ops (m_init []))) =
  [ RInt 0; RInt 0; RVoid; RInt 4; RInt 0; RInt 0; RInt 0; RInt (-84); RSize 2 [226;130];
    RInt 0; RInt (-1); RVoid;
    RPtr (Some [97;32;98;65;66;67;68;0]);
    RPtr (Some [48;49;50;0;52;53;54;55;97;32;98;65;66;67;68;48;49;50;51;52;53;54;55;97;32;98;65;66;67;68;0;130;
                0;0;165;165;165;165;165;165]) ].
Proof. vm_compute. reflexivity. Qed.

Example ex_exit_full : exists blk sc e,
  exit full8 [] = Some (Some blk, str_init, sc, e) /\ take 9 blk = [48;49;50;51;52;53;54;55;0].
Proof. vm_compute. do 3 eexists. split; reflexivity. Qed.

(* hypotheses of catf_exact / cmp_sign_all / exit_handover are satisfiable by non-trivial states *)
Example ex_catf_hyps :
  let m := fst (run [OCats TA [97;98;99]; OCatn_ TB [1;2]] (m_init [])) in
  minv m /\ fits (sel TA m) (len [48;49;50;51;52] + 1) /\
  exists m' e, step (OCatf TA [48;49;50;51;52]) m = (m', RInt 5, e) /\ any_failed e = false /\
               content (sel TA m') = [97;98;99;48;49;50;51;52] /\ mem (sel TA m') = 16.
Proof.
  split; [|split].
  - apply run_inv; [apply minv_init|]. apply ops_okb_sound. vm_compute. reflexivity.
  - vm_compute. reflexivity.
  - vm_compute. do 2 eexists. repeat split.
Qed.

Example ex_cmp_hyps :
  inv full8 /\ inv abcdefg /\ inv str_init /\
  cmp full8 abcdefg = Some (-1)%Z /\ cmp abcdefg str_init = Some 1%Z /\
  cmps abcdefg [97;98;99;100;101;102;103;0;255] = Some 0%Z /\ cmpn abcdefg [97;98;99;100;101;102;103;0] = Some (-1)%Z.
Proof.
  split; [apply inv_full8|]. split.
  { unfold inv, abcdefg, buf; cbn. rewrite W64_val. repeat split; try lia. }
  split; [apply inv_init|]. vm_compute. repeat split.
Qed.

(* a refused growth in a_str_catv: 0 is returned, the byte string is kept and the terminator is
   stored again over the text of the measuring pass (the code as found left "abc0123":
   coq/C07/StrFaultProofs.v catv_fault_as_found_refuted) *)
Example ex_catv_failure_keeps_content_and_terminator :
  let s := mkStr (Some [97;98;99;0;165;165;165;165]) 3 8 in
  terminated s /\
  exists s', catv s [48;49;50;51;52;53;54;55;56;57;65;66;67;68;69;70] [false]
             = Some (0%Z, s', [], [EvRealloc 8 24 false]) /\
             content s' = content s /\ buf s' = [97;98;99;0;49;50;51;0] /\ terminated s'.
Proof.
  split; [split; [cbn; lia|reflexivity]|].
  eexists. split; [vm_compute; reflexivity|]. split; [reflexivity|]. split; [reflexivity|].
  split; [cbn; lia|reflexivity].
Qed.
