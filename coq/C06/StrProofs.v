(* C06 -- proofs about the model StrDefs.v: every function keeps the representation invariant,
   never accesses storage outside its block, and refines the abstract byte-string operation. *)
From Coq Require Import NArith ZArith List Bool Lia ZifyBool ZifyNat ZifyN.
From LibaV Require Import C06.StrDefs C06.StrSpec C06.StrLemmas.
Import ListNotations.
Local Open Scope N_scope.
Ltac Zify.zify_post_hook ::= Z.div_mod_to_equations.

(* ------------------------------------------------------------------ basic facts *)
Lemma inv_init : inv str_init.
Proof. unfold inv, str_init, buf; cbn. rewrite W64_val. repeat split; lia. Qed.

Lemma inv_ptr s : inv s -> 0 < mem s -> exists b, ptr s = Some b /\ len b = mem s /\ buf s = b.
Proof.
  intros (_ & _ & Hl) Hm. unfold buf in *. destruct (ptr s) as [b|].
  - eauto.
  - rewrite len_nil in Hl. lia.
Qed.

Lemma inv_content_len s : inv s -> len (content s) = num s.
Proof. intros (H1 & _ & H3). unfold content. rewrite len_take. lia. Qed.

Lemma inv_mk b n m : n <= m -> m < W64 -> len b = m -> inv (mkStr (Some b) n m).
Proof. intros. unfold inv, buf; cbn. auto. Qed.

Lemma content_mk b n m : content (mkStr (Some b) n m) = take n b.
Proof. reflexivity. Qed.

Lemma terminated_mk b n m : n < m -> get n b = Some 0 -> terminated (mkStr (Some b) n m).
Proof. intros. unfold terminated, buf; cbn. auto. Qed.

Lemma any_failed_nil : any_failed [] = false. Proof. reflexivity. Qed.

Lemma any_failed_app a b : any_failed (a ++ b) = any_failed a || any_failed b.
Proof. unfold any_failed. apply existsb_app. Qed.

(* ------------------------------------------------------------------ a_str_setm_ / a_str_setm *)
Definition setm_result (s : str) (m : N) (x : Z * str * sched * list ev) : Prop :=
  let '(rc, s', sc', e) := x in
  (rc = A_SUCCESS /\ any_failed e = false /\ inv s' /\ num s' = num s /\ m <= mem s' /\
   (forall k, k <= mem s -> k <= mem s' -> take k (buf s') = take k (buf s)))
  \/ (rc = A_OMEMORY /\ any_failed e = true /\ s' = s).

Lemma setm__spec s m sc : inv s -> num s <= m -> m + 7 < W64 -> setm_result s m (setm_ s m sc).
Proof.
  intros Hi Hn Hm. pose proof Hi as (Hnm & HmW & Hlen).
  destruct (size_up8_spec m Hm) as (U1 & U2 & U3).
  unfold setm_result, setm_, a_alloc.
  destruct (size_up8 m =? 0) eqn:E0.
  - (* the request rounds to 0: free *)
    assert (size_up8 m = 0) as Ez by lia.
    left. split; [reflexivity|]. split; [destruct (ptr s); reflexivity|].
    split; [unfold inv, buf; cbn; rewrite len_nil; lia|].
    cbn [num mem]. split; [reflexivity|]. split; [lia|].
    intros k Hk1 Hk2. replace k with 0 by lia. reflexivity.
  - destruct (next_ok sc) as [ok sc']. unfold buf in Hlen.
    destruct (ptr s) as [b|] eqn:Ep; destruct ok; cbn [fst snd].
    + left. split; [reflexivity|]. split; [reflexivity|].
      split; [apply inv_mk; [lia|lia|rewrite len_app, len_take, len_fresh; lia]|].
      cbn [num mem]. split; [reflexivity|]. split; [lia|].
      intros k Hk1 Hk2. unfold buf; cbn [ptr]. rewrite Ep.
      rewrite take_app_le by (rewrite len_take; lia).
      apply take_take_le. lia.
    + right. auto.
    + left. rewrite len_nil in Hlen. split; [reflexivity|]. split; [reflexivity|].
      split; [apply inv_mk; [lia|lia|apply len_fresh]|].
      cbn [num mem]. split; [reflexivity|]. split; [lia|].
      intros k Hk1 Hk2. replace k with 0 by lia. reflexivity.
    + right. auto.
Qed.

Lemma setm_spec s m sc : inv s -> m + 7 < W64 ->
  setm_result s m (setm s m sc) /\ (m <= mem s -> setm s m sc = (A_SUCCESS, s, sc, [])).
Proof.
  intros Hi Hm. unfold setm. destruct (mem s <? m) eqn:E.
  - split; [|intros; lia]. apply setm__spec; try assumption. destruct Hi. lia.
  - split; [|reflexivity]. unfold setm_result. left. pose proof Hi as (? & ? & ?). repeat split; auto; lia.
Qed.

(* the shape every allocating operation is shown to have *)
Definition a_good {A} (s : str) (x : ares A) (P : A -> str -> Prop) (Q : A -> Prop) : Prop :=
  exists r s' sc' e, x = Some (r, s', sc', e) /\ inv s' /\
    (if any_failed e then Q r /\ content s' = content s else P r s').

(* and every pure one *)
Definition p_good {A} (x : pres A) (P : A -> str -> Prop) : Prop :=
  exists r s', x = Some (r, s') /\ inv s' /\ P r s'.

Ltac split_inv H := let a := fresh "Hnm" in let b := fresh "HmW" in let c := fresh "Hlen" in
                    pose proof H as (a & b & c).

(* common first move: run the reservation *)
Ltac reserve s need sc Hi :=
  let rc := fresh "rc" in let s1 := fresh "s1" in let sc1 := fresh "sc1" in let e := fresh "e" in
  let Hs := fresh "Hs" in let Hnoop := fresh "Hnoop" in let R := fresh "R" in
  destruct (setm_spec s need sc Hi ltac:(unfold fits in *; lia)) as [R Hnoop];
  destruct (setm s need sc) as [[[rc s1] sc1] e] eqn:Hs;
  unfold setm_result in R;
  destruct R as [(-> & He & Hi1 & Hn1 & Hm1 & Hk1) | (-> & He & ->)].

(* content is kept by a successful reservation *)
Lemma reserve_content s s1 :
  inv s -> num s1 = num s -> num s <= mem s1 ->
  (forall k, k <= mem s -> k <= mem s1 -> take k (buf s1) = take k (buf s)) ->
  content s1 = content s.
Proof.
  intros (H1 & _ & _) Hn Hm Hk. unfold content. rewrite Hn. apply Hk; lia.
Qed.

(* ------------------------------------------------------------------ a_str_catc_ / a_str_catc *)
Lemma catc__good s c sc : inv s -> fits s 2 ->
  a_good s (catc_ s c sc)
         (fun r s' => r = c /\ content s' = content s ++ [uchar c])
         (fun r => r = (-1)%Z).
Proof.
  intros Hi Hf. split_inv Hi. unfold catc_, a_good.
  rewrite wadd_small by (unfold fits in Hf; lia).
  reserve s (num s + 1) sc Hi.
  - cbn [Z.eqb A_SUCCESS]. split_inv Hi1.
    destruct (inv_ptr s1 Hi1 ltac:(lia)) as (b & Hp & Hb & Hbuf). rewrite Hp.
    destruct (put_ok (num s1) (uchar c) b ltac:(lia)) as (b' & -> & Hl' & Ht' & Hg').
    rewrite wadd_small by (unfold fits in Hf; lia).
    do 4 eexists. split; [reflexivity|]. split; [apply inv_mk; lia|]. rewrite He.
    split; [reflexivity|]. rewrite content_mk, (take_succ _ _ _ Hg'), Ht'. f_equal.
    rewrite <- Hbuf. apply (reserve_content s s1); auto; lia.
  - cbn. do 4 eexists. split; [reflexivity|]. split; [assumption|]. rewrite He. auto.
Qed.

Lemma catc_good s c sc : inv s -> fits s 2 ->
  a_good s (catc s c sc)
         (fun r s' => r = c /\ content s' = content s ++ [uchar c] /\ terminated s')
         (fun r => r = (-1)%Z).
Proof.
  intros Hi Hf. split_inv Hi. unfold catc, a_good.
  rewrite wadd_small by (unfold fits in Hf; lia).
  reserve s (num s + 2) sc Hi.
  - cbn [Z.eqb A_SUCCESS]. split_inv Hi1.
    destruct (inv_ptr s1 Hi1 ltac:(lia)) as (b & Hp & Hb & Hbuf). rewrite Hp.
    destruct (put_ok (num s1) (uchar c) b ltac:(lia)) as (b' & -> & Hl' & Ht' & Hg').
    rewrite wadd_small by (unfold fits in Hf; lia).
    destruct (put_ok (num s1 + 1) 0 b' ltac:(lia)) as (b2 & -> & Hl2 & Ht2 & Hg2).
    do 4 eexists. split; [reflexivity|]. split; [apply inv_mk; lia|]. rewrite He.
    split; [reflexivity|]. split; [|apply terminated_mk; [lia|assumption]].
    rewrite content_mk, Ht2, (take_succ _ _ _ Hg'), Ht'. f_equal.
    rewrite <- Hbuf. apply (reserve_content s s1); auto; lia.
  - cbn. do 4 eexists. split; [reflexivity|]. split; [assumption|]. rewrite He. auto.
Qed.

(* ------------------------------------------------------------------ a_str_catn_ / a_str_catn *)
Lemma catn__good s d sc : inv s -> fits s (len d + 1) ->
  a_good s (catn_ s d sc)
         (fun r s' => r = A_SUCCESS /\ content s' = content s ++ d)
         (fun r => r = A_OMEMORY)
  /\ (num s + len d <= mem s -> exists s', catn_ s d sc = Some (A_SUCCESS, s', sc, [])).
Proof.
  intros Hi Hf. split_inv Hi. unfold catn_, a_good.
  rewrite wadd_small by (unfold fits in Hf; lia).
  reserve s (num s + len d) sc Hi.
  - cbn [Z.eqb A_SUCCESS andb]. split_inv Hi1.
    destruct (len d =? 0) eqn:Ed; cbn [negb].
    + assert (d = []) as -> by (apply len_0_nil; lia).
      split.
      * do 4 eexists. split; [reflexivity|]. split; [assumption|]. rewrite He.
        split; [reflexivity|]. rewrite app_nil_r. apply (reserve_content s s1); auto; lia.
      * intros Hc. specialize (Hnoop Hc). injection Hnoop as <- <- <-. eauto.
    + destruct (inv_ptr s1 Hi1 ltac:(lia)) as (b & Hp & Hb & Hbuf). rewrite Hp.
      destruct (blit_ok (num s1) d b ltac:(lia)) as (b' & -> & Hl' & Ht' & Htd).
      rewrite wadd_small by (unfold fits in Hf; lia).
      split.
      * do 4 eexists. split; [reflexivity|]. split; [apply inv_mk; lia|]. rewrite He.
        split; [reflexivity|]. rewrite content_mk, Htd. f_equal.
        rewrite <- Hbuf. apply (reserve_content s s1); auto; lia.
      * intros Hc. specialize (Hnoop Hc). injection Hnoop as <- <- <-. eauto.
  - cbn. split.
    + do 4 eexists. split; [reflexivity|]. split; [assumption|]. rewrite He. auto.
    + intros Hc. specialize (Hnoop Hc). discriminate.
Qed.

Lemma catn_good s d sc : inv s -> fits s (len d + 1) ->
  a_good s (catn s d sc)
         (fun r s' => r = A_SUCCESS /\ content s' = content s ++ d /\ terminated s')
         (fun r => r = A_OMEMORY)
  /\ (num s + len d + 1 <= mem s -> exists s', catn s d sc = Some (A_SUCCESS, s', sc, [])).
Proof.
  intros Hi Hf. split_inv Hi. unfold catn, a_good.
  rewrite !wadd_small by (unfold fits in Hf; rewrite ?wadd_small; lia).
  reserve s (num s + len d + 1) sc Hi.
  - cbn [Z.eqb A_SUCCESS]. split_inv Hi1.
    destruct (inv_ptr s1 Hi1 ltac:(lia)) as (b & Hp & Hb & Hbuf). rewrite Hp.
    assert (Hc1 : take (num s1) b = content s).
    { rewrite <- Hbuf. apply (reserve_content s s1); auto; lia. }
    destruct (len d =? 0) eqn:Ed.
    + assert (d = []) as -> by (apply len_0_nil; lia).
      destruct (put_ok (num s1) 0 b ltac:(lia)) as (b2 & -> & Hl2 & Ht2 & Hg2).
      split.
      * do 4 eexists. split; [reflexivity|]. split; [apply inv_mk; lia|]. rewrite He.
        split; [reflexivity|]. split; [|apply terminated_mk; [lia|assumption]].
        rewrite content_mk, Ht2, app_nil_r. assumption.
      * intros Hc. specialize (Hnoop Hc). injection Hnoop as <- <- <-. eauto.
    + destruct (blit_ok (num s1) d b ltac:(lia)) as (b' & -> & Hl' & Ht' & Htd).
      rewrite wadd_small by (unfold fits in Hf; lia).
      destruct (put_ok (num s1 + len d) 0 b' ltac:(lia)) as (b2 & -> & Hl2 & Ht2 & Hg2).
      split.
      * do 4 eexists. split; [reflexivity|]. split; [apply inv_mk; lia|]. rewrite He.
        split; [reflexivity|]. split; [|apply terminated_mk; [lia|assumption]].
        rewrite content_mk, Ht2, Htd. f_equal. assumption.
      * intros Hc. specialize (Hnoop Hc). injection Hnoop as <- <- <-. eauto.
  - cbn. split.
    + do 4 eexists. split; [reflexivity|]. split; [assumption|]. rewrite He. auto.
    + intros Hc. specialize (Hnoop Hc). discriminate.
Qed.

(* ------------------------------------------------------------------ a_str_cats_ / a_str_cats *)
Lemma cats__good s d sc : inv s -> fits s (len (cstr d) + 1) ->
  a_good s (cats_ s d sc)
         (fun r s' => r = A_SUCCESS /\ content s' = content s ++ cstr d)
         (fun r => r = A_OMEMORY).
Proof. intros. unfold cats_. now apply catn__good. Qed.

Lemma cats_good s d sc : inv s -> fits s (len (cstr d) + 1) ->
  a_good s (cats s d sc)
         (fun r s' => r = A_SUCCESS /\ content s' = content s ++ cstr d /\ terminated s')
         (fun r => r = A_OMEMORY).
Proof. intros. unfold cats. now apply catn_good. Qed.

(* ------------------------------------------------------------------ a_str_cat_ / a_str_cat *)
Lemma obj_bytes_spec o : inv o -> obj_bytes o = Some (content o).
Proof.
  intros Hi. split_inv Hi. unfold obj_bytes, content.
  destruct (num o =? 0) eqn:E.
  - replace (num o) with 0 by lia. reflexivity.
  - destruct (inv_ptr o Hi ltac:(lia)) as (b & Hp & Hb & Hbuf). rewrite Hp, Hbuf.
    rewrite sub_ok by lia. rewrite drop_0. reflexivity.
Qed.

Lemma cat_gen_good term s obj sc :
  inv s -> (forall o, obj = Some o -> inv o) ->
  fits s (match obj with Some o => num o | None => num s end + 1) ->
  a_good s (cat_gen term s obj sc)
         (fun r s' => r = A_SUCCESS /\
                      content s' = content s ++ match obj with Some o => content o | None => content s end /\
                      (term = true -> terminated s'))
         (fun r => r = A_OMEMORY).
Proof.
  intros Hi Ho Hf. split_inv Hi. unfold cat_gen, a_good.
  set (onum := match obj with Some o => num o | None => num s end) in *.
  assert (Hneed : (if term then wadd (wadd (num s) onum) 1 else wadd (num s) onum)
                  = num s + onum + (if term then 1 else 0)).
  { unfold fits in Hf. destruct term; rewrite !wadd_small; rewrite ?wadd_small; lia. }
  rewrite Hneed. clear Hneed.
  set (tk := if term then 1 else 0) in *.
  assert (Htk : tk <= 1) by (unfold tk; destruct term; lia).
  assert (Htk1 : term = true -> tk = 1) by (unfold tk; intros ->; reflexivity).
  reserve s (num s + onum + tk) sc Hi.
  - cbn [Z.eqb A_SUCCESS]. split_inv Hi1.
    assert (Hc1 : content s1 = content s) by (apply (reserve_content s s1); auto; lia).
    set (o' := match obj with Some o => o | None => s1 end).
    assert (Hio : inv o') by (unfold o'; destruct obj; auto).
    assert (Hno : num o' = onum) by (unfold o', onum; destruct obj; auto).
    assert (Hco : content o' = match obj with Some o => content o | None => content s end)
      by (unfold o'; destruct obj; auto).
    rewrite (obj_bytes_spec o' Hio).
    assert (Hld : len (content o') = onum) by (rewrite inv_content_len; auto).
    assert (Hf1 : fits s1 (len (content o') + 1)) by (unfold fits in *; lia).
    destruct term.
    + specialize (Htk1 eq_refl).
      destruct (catn_good s1 (content o') sc1 Hi1 Hf1) as [G N].
      destruct N as (s2 & Hs2); [lia|]. rewrite Hs2.
      destruct G as (r & s' & sc' & e' & Hx & Hi' & HP). rewrite Hs2 in Hx.
      injection Hx as <- <- <- <-. cbn [any_failed existsb] in HP.
      do 4 eexists. split; [reflexivity|]. split; [assumption|].
      rewrite any_failed_app, He. cbn. destruct HP as (? & ? & ?).
      split; [assumption|]. split; [congruence|auto].
    + destruct (catn__good s1 (content o') sc1 Hi1 Hf1) as [G N].
      destruct N as (s2 & Hs2); [lia|]. rewrite Hs2.
      destruct G as (r & s' & sc' & e' & Hx & Hi' & HP). rewrite Hs2 in Hx.
      injection Hx as <- <- <- <-. cbn [any_failed existsb] in HP.
      do 4 eexists. split; [reflexivity|]. split; [assumption|].
      rewrite any_failed_app, He. cbn. destruct HP as (? & ?).
      split; [assumption|]. split; [congruence|discriminate].
  - cbn. do 4 eexists. split; [reflexivity|]. split; [assumption|]. rewrite He. auto.
Qed.

(* ------------------------------------------------------------------ a_str_catv *)
Lemma vsn_any s out : inv s ->
  exists p1, vsn (ptr s) (num s) (mem s - num s) out = Some p1 /\
             inv (mkStr p1 (num s) (mem s)) /\ content (mkStr p1 (num s) (mem s)) = content s.
Proof.
  intros Hi. split_inv Hi. unfold vsn. destruct (mem s - num s =? 0) eqn:E.
  - exists (ptr s). split; [reflexivity|]. destruct s; auto.
  - destruct (inv_ptr s Hi ltac:(lia)) as (b & Hp & Hb & Hbuf). rewrite Hp.
    set (k := if len out <? mem s - num s then len out else mem s - num s - 1).
    assert (Hk : len (take k out ++ [0]) = k + 1).
    { rewrite len_app, len_take, len_cons, len_nil. unfold k.
      destruct (len out <? mem s - num s) eqn:?; lia. }
    destruct (blit_ok (num s) (take k out ++ [0]) b) as (b' & -> & Hl' & Ht' & _).
    { rewrite Hk. unfold k. destruct (len out <? mem s - num s) eqn:?; lia. }
    eexists. split; [reflexivity|]. split; [apply inv_mk; lia|].
    rewrite content_mk, Ht'. unfold content. now rewrite Hbuf.
Qed.

Lemma vsn_fits s out : inv s -> num s + len out + 1 <= mem s ->
  exists b2, vsn (ptr s) (num s) (mem s - num s) out = Some (Some b2) /\
             inv (mkStr (Some b2) (num s + len out) (mem s)) /\
             content (mkStr (Some b2) (num s + len out) (mem s)) = content s ++ out /\
             terminated (mkStr (Some b2) (num s + len out) (mem s)).
Proof.
  intros Hi Hfit. split_inv Hi. unfold vsn.
  replace (mem s - num s =? 0) with false by lia.
  destruct (inv_ptr s Hi ltac:(lia)) as (b & Hp & Hb & Hbuf). rewrite Hp.
  replace (len out <? mem s - num s) with true by lia.
  rewrite (take_all (len out) out) by lia.
  destruct (blit_ok (num s) (out ++ [0]) b) as (b' & -> & Hl' & Ht' & Htd).
  { rewrite len_app, len_cons, len_nil. lia. }
  rewrite len_app, len_cons, len_nil in Htd.
  assert (Hc : take (num s) b = content s) by (unfold content; now rewrite Hbuf).
  rewrite Hc in Htd. rewrite app_assoc in Htd.
  assert (Hlc : len (content s ++ out) = num s + len out)
    by (rewrite len_app, inv_content_len; auto).
  eexists. split; [reflexivity|]. split; [apply inv_mk; lia|]. split.
  - rewrite content_mk.
    rewrite <- (take_take_le (num s + len out) (num s + (len out + 0 + 1)) b') by lia.
    rewrite Htd. rewrite <- Hlc. apply take_app_exact.
  - apply terminated_mk; [lia|].
    apply (get_of_take _ _ (content s ++ out)); [|assumption].
    rewrite <- Htd. f_equal. lia.
Qed.

Lemma catv_good s out sc : inv s -> fits s (len out + 1) ->
  a_good s (catv s out sc)
         (fun r s' => r = Z.of_N (len out) /\ content s' = content s ++ out /\ terminated s')
         (fun r => r = 0%Z).
Proof.
  intros Hi Hf. split_inv Hi. unfold catv, a_good. unfold fits in Hf.
  rewrite wsub_small by lia.
  rewrite !wadd_small by (rewrite ?wadd_small; lia).
  assert (Hnum : forall n, (if 0 <? len out then wadd n (len out) else n) = n + len out \/ W64 <= n + len out).
  { intros n. destruct (0 <? len out) eqn:E.
    - destruct (N.lt_ge_cases (n + len out) W64); [left; now apply wadd_small|now right].
    - left. lia. }
  destruct (mem s <? num s + (len out + 1)) eqn:Eg.
  - (* does not fit: first pass (truncated), grow, second pass *)
    destruct (vsn_any s out Hi) as (p1 & -> & Hi0 & Hc0).
    set (s0 := mkStr p1 (num s) (mem s)) in *.
    pose proof (setm__spec s0 (num s + (len out + 1)) sc Hi0 ltac:(cbn; lia) ltac:(lia)) as R.
    destruct (setm_ s0 (num s + (len out + 1)) sc) as [[[rc s1] sc1] e] eqn:Hs.
    unfold setm_result in R. destruct R as [(-> & He & Hi1 & Hn1 & Hm1 & Hk1) | (-> & He & ->)].
    + cbn [Z.eqb A_SUCCESS]. cbn [num mem] in Hn1, Hm1, Hk1. split_inv Hi1.
      rewrite wsub_small by lia.
      destruct (vsn_fits s1 out Hi1 ltac:(lia)) as (b2 & -> & Hi2 & Hc2 & Ht2).
      destruct (Hnum (num s1)) as [-> | ?]; [|lia].
      do 4 eexists. split; [reflexivity|]. split; [assumption|]. rewrite He.
      split; [reflexivity|]. split; [|assumption]. rewrite Hc2. f_equal.
      rewrite <- Hc0. apply (reserve_content s0 s1); auto; cbn [num mem]; lia.
    + cbn. do 4 eexists. split; [reflexivity|]. split; [assumption|]. rewrite He. auto.
  - (* fits in the spare room: one pass *)
    destruct (vsn_fits s out Hi ltac:(lia)) as (b2 & -> & Hi2 & Hc2 & Ht2).
    destruct (Hnum (num s)) as [-> | ?]; [|lia].
    do 4 eexists. split; [reflexivity|]. split; [assumption|]. cbn [any_failed existsb]. auto.
Qed.

(* ------------------------------------------------------------------ a_utf_catc *)
Lemma utf_catc_good s c sc : inv s -> fits s 7 ->
  a_good s (utf_catc s c sc)
         (fun r s' => r = A_SUCCESS /\ content s' = content s ++ utf_encode c /\ terminated s')
         (fun r => r = A_OMEMORY).
Proof.
  intros Hi Hf. split_inv Hi. unfold utf_catc, a_good. unfold fits in Hf.
  rewrite wadd_small by lia.
  reserve s (num s + 7) sc Hi.
  - cbn [Z.eqb A_SUCCESS]. split_inv Hi1. pose proof (utf_encode_len c) as Hu.
    destruct (inv_ptr s1 Hi1 ltac:(lia)) as (b & Hp & Hb & Hbuf). rewrite Hp.
    destruct (blit_ok (num s1) (utf_encode c) b ltac:(lia)) as (b1 & -> & Hl1 & Ht1 & Htd).
    destruct (put_ok (num s1 + len (utf_encode c)) 0 b1 ltac:(lia)) as (b2 & -> & Hl2 & Ht2 & Hg2).
    rewrite wadd_small by lia.
    do 4 eexists. split; [reflexivity|]. split; [apply inv_mk; lia|]. rewrite He.
    split; [reflexivity|]. split; [|apply terminated_mk; [lia|assumption]].
    rewrite content_mk, Ht2, Htd. f_equal.
    rewrite <- Hbuf. apply (reserve_content s s1); auto; lia.
  - cbn. do 4 eexists. split; [reflexivity|]. split; [assumption|]. rewrite He. auto.
Qed.

(* ------------------------------------------------------------------ a_str_exit (repaired) *)
Lemma exit_null s sc : ptr s = None -> exit s sc = Some (None, str_init, sc, []).
Proof. intros H. unfold exit. now rewrite H. Qed.

Lemma exit_good s sc b0 : inv s -> fits s 1 -> ptr s = Some b0 ->
  a_good s (exit s sc)
         (fun r s' => s' = str_init /\
                      exists blk, r = Some blk /\ take (num s + 1) blk = content s ++ [0] /\
                                  num s < len blk)
         (fun r => r = None).
Proof.
  intros Hi Hf H0. split_inv Hi. unfold exit, a_good. unfold fits in Hf. rewrite H0.
  rewrite wadd_small by lia.
  reserve s (num s + 1) sc Hi.
  - cbn [Z.eqb A_SUCCESS]. split_inv Hi1.
    destruct (inv_ptr s1 Hi1 ltac:(lia)) as (b & Hp & Hb & Hbuf). rewrite Hp.
    destruct (put_ok (num s1) 0 b ltac:(lia)) as (b' & -> & Hl' & Ht' & Hg').
    do 4 eexists. split; [reflexivity|]. split; [apply inv_init|]. rewrite He.
    split; [reflexivity|]. eexists. split; [reflexivity|]. split; [|lia].
    rewrite <- Hn1. rewrite (take_succ _ _ _ Hg'), Ht'. f_equal.
    rewrite <- Hbuf. apply (reserve_content s s1); auto; lia.
  - cbn. do 4 eexists. split; [reflexivity|]. split; [assumption|]. rewrite He. auto.
Qed.

(* the code as found overflows the block by one byte when num_ = mem_ *)
Lemma exit_orig_faults s b : ptr s = Some b -> len b = mem s -> num s = mem s -> exit_orig s = None.
Proof.
  intros Hp Hb Hn. unfold exit_orig. rewrite Hp. unfold put.
  replace (num s <? len b) with false by lia. reflexivity.
Qed.
