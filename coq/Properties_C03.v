From LibaV Require Import C03.IterDefs.
(* placeholder while the pipeline is being brought up; replaced by the real statements *)
Theorem c03_placeholder : root_id E = None.
Proof. exact eq_refl. Qed.
Print Assumptions c03_placeholder.
