(* C03 - Tree iterators enumerate every element exactly once in the documented order; tear-down hands
   out children before parents, never touches a handed-out node, and leaves the tree empty.

   Model: coq/C03/IterDefs.v (the ten navigation functions, the foreach protocol and tear/fortear of
   src/avl.c / src/rbt.c, on a heap  id -> left/right/parent; reads of unallocated ids are [Stuck],
   exhausted loops [OutOfFuel]).  Every theorem is for EVERY binary tree t with distinct ids (a
   superset of the shapes an AVL / red-black history can reach, and of what an interrupted tear
   leaves), every reader rd that lays t out with parent links ([Repr rd None t]) and every
   fuel > size t; [Ok] in a conclusion means: neither Stuck nor OutOfFuel.
   Non-vacuity Examples: coq/C03/IterExamples.v. *)

From Coq Require Import List PArith ZArith FMapPositive Permutation Sorted.
From LibaV Require Import C03.IterDefs C03.Clauses C03.TearProofs C03.HeapProofs.
Import ListNotations.

(* in-order iteration yields all elements in in-order, the reverse iteration in reverse in-order *)
Theorem C03_inorder_foreach :
  forall (rd : id -> option node) (t : tree) (fuel : nat),
    Repr rd None t -> NoDup (ids t) -> size t < fuel ->
    foreach rd fuel (root_id t) = Ok (inorder t)
    /\ foreach_reverse rd fuel (root_id t) = Ok (rev (inorder t)).
Proof. exact clause_inorder. Qed.
Print Assumptions C03_inorder_foreach.

(* ... which, for a search tree (what C01/C02 prove of reachable trees), is ascending resp. descending key order *)
Theorem C03_inorder_ascending_keys :
  forall (rd : id -> option node) (t : tree) (fuel : nat),
    Repr rd None t -> NoDup (ids t) -> size t < fuel ->
    forall key : id -> Z, Bst key t ->
    exists l, foreach rd fuel (root_id t) = Ok l
              /\ StronglySorted (fun a b => (key a < key b)%Z) l
              /\ foreach_reverse rd fuel (root_id t) = Ok (rev l)
              /\ StronglySorted (fun a b => (key b < key a)%Z) (rev l).
Proof. exact clause_ascending. Qed.
Print Assumptions C03_inorder_ascending_keys.

(* successor and predecessor steps are mutually inverse *)
Theorem C03_next_prev_inverse :
  forall (rd : id -> option node) (t : tree) (fuel : nat),
    Repr rd None t -> NoDup (ids t) -> size t < fuel ->
    forall x y,
      (In x (ids t) -> next rd fuel x = Ok (Some y) -> prev rd fuel y = Ok (Some x))
      /\ (In y (ids t) -> prev rd fuel y = Ok (Some x) -> next rd fuel x = Ok (Some y)).
Proof. exact clause_inverse. Qed.
Print Assumptions C03_next_prev_inverse.

(* pre-order, mirrored pre-order (root right left), post-order, mirrored post-order (right left root) *)
Theorem C03_pre_post_foreach :
  forall (rd : id -> option node) (t : tree) (fuel : nat),
    Repr rd None t -> NoDup (ids t) -> size t < fuel ->
    pre_foreach rd fuel (root_id t) = Ok (preorder t)
    /\ pre_foreach_reverse rd fuel (root_id t) = Ok (preorder_rl t)
    /\ post_foreach rd fuel (root_id t) = Ok (postorder t)
    /\ post_foreach_reverse rd fuel (root_id t) = Ok (postorder_rl t).
Proof. exact clause_pre_post. Qed.
Print Assumptions C03_pre_post_foreach.

(* from EVERY starting node each iteration yields exactly the rest of its order *)
Theorem C03_iterate_from_any_node :
  forall (rd : id -> option node) (t : tree) (fuel : nat),
    Repr rd None t -> NoDup (ids t) -> size t < fuel ->
    forall pre x post,
      (inorder t = pre ++ x :: post -> iterate (next rd fuel) fuel (Some x) = Ok (x :: post))
      /\ (rev (inorder t) = pre ++ x :: post -> iterate (prev rd fuel) fuel (Some x) = Ok (x :: post))
      /\ (preorder t = pre ++ x :: post -> iterate (pre_next rd fuel) fuel (Some x) = Ok (x :: post))
      /\ (preorder_rl t = pre ++ x :: post -> iterate (pre_prev rd fuel) fuel (Some x) = Ok (x :: post))
      /\ (postorder t = pre ++ x :: post -> iterate (post_next rd fuel) fuel (Some x) = Ok (x :: post))
      /\ (postorder_rl t = pre ++ x :: post -> iterate (post_prev rd fuel) fuel (Some x) = Ok (x :: post)).
Proof. exact clause_from_any_node. Qed.
Print Assumptions C03_iterate_from_any_node.

(* a single step from a node of the tree never fails and never leaves the tree *)
Theorem C03_steps_total :
  forall (rd : id -> option node) (t : tree) (fuel : nat),
    Repr rd None t -> NoDup (ids t) -> size t < fuel ->
    forall x, In x (ids t) ->
      let inside o := match o with Some y => In y (ids t) | None => True end in
      (exists o, next rd fuel x = Ok o /\ inside o)
      /\ (exists o, prev rd fuel x = Ok o /\ inside o)
      /\ (exists o, pre_next rd fuel x = Ok o /\ inside o)
      /\ (exists o, pre_prev rd fuel x = Ok o /\ inside o)
      /\ (exists o, post_next rd fuel x = Ok o /\ inside o)
      /\ (exists o, post_prev rd fuel x = Ok o /\ inside o).
Proof. exact clause_steps_total. Qed.
Print Assumptions C03_steps_total.

(* each of the six documented orders lists every element exactly once *)
Theorem C03_orders_exactly_once :
  forall t : tree, NoDup (ids t) ->
    let once L := NoDup L /\ Permutation L (ids t) in
    once (inorder t) /\ once (rev (inorder t)) /\ once (preorder t) /\ once (preorder_rl t)
    /\ once (postorder t) /\ once (postorder_rl t).
Proof. exact clause_exactly_once. Qed.
Print Assumptions C03_orders_exactly_once.

(* the two mirrored orders are the reversals of post-order and pre-order *)
Theorem C03_mirrored_orders :
  forall t : tree, preorder_rl t = rev (postorder t) /\ postorder_rl t = rev (preorder t).
Proof. exact clause_mirrored_orders. Qed.
Print Assumptions C03_mirrored_orders.

(* complete tear-down (each handed-out node is freed at once = removed from the heap): never Stuck,
   hands out post-order = every element exactly once, children before parents; root, saved next and
   heap are empty afterwards *)
Theorem C03_tear_complete :
  forall (h : heap) (t : tree) (fuel k : nat),
    Repr (rdh h) None t -> NoDup (ids t) -> hsub h t -> size t < fuel -> size t <= k ->
    exists st', fortear fuel k (mkT h (root_id t) None) = Ok (postorder t, st')
      /\ ChildrenFirst (postorder t) t
      /\ NoDup (postorder t) /\ Permutation (postorder t) (ids t)
      /\ troot st' = None /\ tnext st' = None /\ (forall x, rdh (th st') x = None).
Proof. exact clause_tear_complete. Qed.
Print Assumptions C03_tear_complete.

(* tear-down interrupted after any number k of nodes: the first k of post-order were handed out, the
   heap is again the parent-linked layout of a tree t' (so every theorem above applies to it) holding
   exactly the nodes not handed out, and resuming from the saved state hands out the rest and empties
   the tree *)
Theorem C03_tear_interrupted :
  forall (h : heap) (t : tree) (fuel k : nat),
    Repr (rdh h) None t -> NoDup (ids t) -> hsub h t -> size t < fuel ->
    exists st' t',
      fortear fuel k (mkT h (root_id t) None) = Ok (firstn k (postorder t), st')
      /\ Repr (rdh (th st')) None t' /\ NoDup (ids t') /\ troot st' = root_id t' /\ hsub (th st') t'
      /\ postorder t' = skipn k (postorder t)
      /\ size t' < fuel
      /\ (forall k2, size t' <= k2 ->
            exists st'', fortear fuel k2 st' = Ok (skipn k (postorder t), st'')
                         /\ troot st'' = None /\ (forall x, rdh (th st'') x = None)).
Proof. exact fortear_interrupted. Qed.
Print Assumptions C03_tear_interrupted.

(* the hypotheses are satisfiable for every tree with distinct ids: its canonical heap *)
Theorem C03_heap_of_repr :
  forall t : tree, NoDup (ids t) -> Repr (rdh (heap_of t)) None t /\ hsub (heap_of t) t.
Proof. exact clause_heap_of. Qed.
Print Assumptions C03_heap_of_repr.

(* what the model driver's well-formedness verdict on a dumped C heap means *)
Theorem C03_wf_heap_sound :
  forall (h : heap) (root : option id) (n : nat), wf_heap h root n = true ->
    exists t, Repr (rdh h) None t /\ NoDup (ids t) /\ root_id t = root /\ size t = n /\ hsub h t.
Proof. exact wf_heap_sound. Qed.
Print Assumptions C03_wf_heap_sound.

(* ------------------------------------------------------------------------------------------------
   Tear-down STARTED AT AN ARBITRARY NODE x  (`*next = x` on entry; rbt.h/avl.h: "next: input starting
   node or, if null, root node").  The calls tear x's subtree in post-order, then go on with x's parent
   (descending into whatever children it still has - possibly a LEFT sibling of x), and so on up to the
   root.  Definitions used below (coq/C03/IterProofs.v, coq/C03/TearFromProofs.v):
     plug c s      the tree with subtree s in the zipper context c (frames FL y r / FR l y, innermost first)
     cpost c       for every frame of c, innermost first: post-order of the frame's other subtree, then its node
     tear_order c s = postorder s ++ cpost c
   Non-vacuity Examples (a 7-node tree, started at a right child whose parent still has its left
   subtree; complete and interrupted runs by vm_compute): end of coq/C03/TearFromProofs.v. *)
From LibaV Require Import C03.IterProofs C03.TearFromProofs.

(* complete tear-down from EVERY node x of EVERY tree (each handed-out node is freed at once = removed
   from the heap; a read of a removed id is Stuck): with the fuel of the root-start theorem it is never
   Stuck, hands out every node exactly once, every node after all nodes of its two subtrees, and leaves
   root, saved next and heap empty; the handed-out list is postorder(subtree of x) ++ cpost(path to root) *)
Theorem C03_tear_from_any_node_complete :
  forall (h : heap) (t : tree) (fuel k : nat) (x : id),
    Repr (rdh h) None t -> NoDup (ids t) -> hsub h t -> size t < fuel -> size t <= k -> In x (ids t) ->
    exists l st',
      fortear fuel k (mkT h (root_id t) (Some x)) = Ok (l, st')
      /\ NoDup l /\ Permutation l (ids t)
      /\ ChildrenFirst l t
      /\ troot st' = None /\ tnext st' = None /\ (forall z, rdh (th st') z = None)
      /\ (exists c s, t = plug c s /\ root_id s = Some x /\ l = postorder s ++ cpost c).
Proof. exact tear_from_complete. Qed.
Print Assumptions C03_tear_from_any_node_complete.

(* the same tear-down interrupted after ANY number k of nodes: the first k of the (k-independent) list L
   were handed out, the heap is again the parent-linked layout of a tree t' (so every theorem above
   applies to it) holding exactly the nodes not handed out, and resuming from the saved state hands out
   the rest and empties tree, saved next and heap *)
Theorem C03_tear_from_any_node_interrupted :
  forall (h : heap) (t : tree) (fuel : nat) (x : id),
    Repr (rdh h) None t -> NoDup (ids t) -> hsub h t -> size t < fuel -> In x (ids t) ->
    exists L,
      NoDup L /\ Permutation L (ids t) /\ ChildrenFirst L t
      /\ forall k, exists st' t',
           fortear fuel k (mkT h (root_id t) (Some x)) = Ok (firstn k L, st')
           /\ Repr (rdh (th st')) None t' /\ NoDup (ids t') /\ troot st' = root_id t' /\ hsub (th st') t'
           /\ Permutation (ids t') (skipn k L)
           /\ size t' < fuel
           /\ (forall k2, size t' <= k2 ->
                 exists st'', fortear fuel k2 st' = Ok (skipn k L, st'')
                              /\ troot st'' = None /\ tnext st'' = None /\ (forall z, rdh (th st'') z = None)).
Proof. exact tear_from_interrupted. Qed.
Print Assumptions C03_tear_from_any_node_interrupted.

(* the exact sequence, for every position (c, s) of the start node x = root of s; c = [] (x the root
   node) gives tear_order [] s = postorder s, the root-start order of C03_tear_complete *)
Theorem C03_tear_from_position_exact_order :
  forall (h : heap) (c : list frame) (s : tree) (x : id) (fuel : nat),
    Repr (rdh h) None (plug c s) -> NoDup (ids (plug c s)) -> hsub h (plug c s) ->
    root_id s = Some x -> size (plug c s) < fuel ->
    NoDup (tear_order c s) /\ Permutation (tear_order c s) (ids (plug c s))
    /\ ChildrenFirst (tear_order c s) (plug c s)
    /\ forall k, exists st' t',
         fortear fuel k (mkT h (root_id (plug c s)) (Some x)) = Ok (firstn k (tear_order c s), st')
         /\ Repr (rdh (th st')) None t' /\ NoDup (ids t') /\ troot st' = root_id t' /\ hsub (th st') t'
         /\ Permutation (ids t') (skipn k (tear_order c s))
         /\ size t' < fuel
         /\ (size (plug c s) <= k ->
               troot st' = None /\ tnext st' = None /\ (forall z, rdh (th st') z = None))
         /\ (forall k2, size t' <= k2 ->
               exists st'', fortear fuel k2 st' = Ok (skipn k (tear_order c s), st'')
                            /\ troot st'' = None /\ tnext st'' = None /\ (forall z, rdh (th st'') z = None)).
Proof. exact tear_from_pos. Qed.
Print Assumptions C03_tear_from_position_exact_order.
