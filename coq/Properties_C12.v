(* C12 - PID controllers stay within limits and follow their equations for every history.
   Model: C12/PidDefs.v (src/pid.c, src/pid_neuro.c); proofs: C12/PidProofs.v.  Theorems over Coq's reals.
   The fuzzy-tuned controller (src/pid_fuzzy.c) wraps these step functions after recomputing the gains; its model and
   its theorems (output within limits for all seven operators, gains finite) live in C13 and are cited at the end. *)
From Coq Require Import Reals List.
From LibaV Require Import Common.NumOps Common.ROps C12.PidDefs C12.PidProofs.
Import ListNotations.
Local Open Scope R_scope.

(* the clamp A_SAT *)
Theorem C12_sat_range : forall x lo hi, lo <= hi -> lo <= sat R_ops x lo hi <= hi.
Proof. exact sat_range. Qed.
Print Assumptions C12_sat_range.

(* output within the configured limits after EVERY step of EVERY history, the three modes mixed arbitrarily,
   for all gains and limits with outmin <= outmax; parameters are never changed by a step *)
Theorem C12_history_out_in_limits : forall (ops : list op) (s : pidR) (o : op),
  outmin s <= outmax s ->
  let s' := fold_left step (ops ++ [o]) s in
  outmin s <= out s' <= outmax s /\ same_params s s'.
Proof. exact history_out_in_limits. Qed.
Print Assumptions C12_history_out_in_limits.

(* positional integrator: once at or beyond a clamp it never moves further out ... *)
Theorem C12_integrator_no_further_out : forall s f e,
  0 <= ki s -> summin s <= 0 <= summax s ->
  (summax s <= sum s -> sum (pid_pos_ R_ops s f e) <= sum s) /\
  (sum s <= summin s -> sum s <= sum (pid_pos_ R_ops s f e)).
Proof. exact integrator_no_further_out. Qed.
Print Assumptions C12_integrator_no_further_out.

(* ... hence over every history it overshoots a clamp by at most one increment ki*max|err| *)
Theorem C12_integrator_overshoot : forall (es : list (R * R)) (s : pidR) (E : R),
  0 <= ki s -> summin s <= 0 <= summax s -> summin s <= sum s <= summax s -> 0 <= E ->
  Forall (fun fe => Rabs (snd fe) <= E) es ->
  sum_bound (fold_left (fun st fe => pid_pos_ R_ops st (fst fe) (snd fe)) es s) E.
Proof. exact integrator_overshoot. Qed.
Print Assumptions C12_integrator_overshoot.

(* the documented difference equations *)
Theorem C12_pos_equation : forall s f e, outmin s <= outmax s ->
  let s' := pid_pos_ R_ops s f e in
  out s' = sat R_ops (kp s * e + sum s' + kd s * (fdb s - f)) (outmin s) (outmax s) /\
  var s' = fdb s - f /\ fdb s' = f /\ err s' = e.
Proof. exact pos_equation. Qed.
Print Assumptions C12_pos_equation.

Theorem C12_inc_equation : forall s f e,
  let s' := pid_inc_ R_ops s f e in
  out s' = sat R_ops (out s + (kp s * (e - err s) + ki s * e + kd s * ((fdb s - f) - var s))) (outmin s) (outmax s) /\
  var s' = fdb s - f /\ fdb s' = f /\ err s' = e /\ sum s' = sum s.
Proof. exact inc_equation. Qed.
Print Assumptions C12_inc_equation.

(* positional and incremental outputs coincide at every step of every history on which no limit is active
   (integrator condition true, neither output clamped), started from coupled states - e.g. both freshly zeroed *)
Theorem C12_pos_inc_coincide : forall (h : list (R * R)) (p q : pidR),
  coupled p q -> free_history p q h ->
  map (fun s => out s) (pos_trace h p []) = map (fun s => out s) (inc_trace h q []).
Proof. exact pos_inc_coincide. Qed.
Print Assumptions C12_pos_inc_coincide.

Theorem C12_zero_coupled : forall s, coupled (pid_zero R_ops s) (pid_zero R_ops s).
Proof. exact zero_coupled. Qed.
Print Assumptions C12_zero_coupled.

(* zeroing = freshly initialised (a_pid_init is a_pid_zero): independent of the dynamic state, idempotent, same future *)
Theorem C12_zero_is_fresh : forall s t (ops : list op), same_params s t ->
  pid_zero R_ops s = pid_zero R_ops t /\ pid_zero R_ops (pid_zero R_ops s) = pid_zero R_ops s /\
  fold_left step ops (pid_zero R_ops s) = fold_left step ops (pid_zero R_ops t).
Proof. exact (fun s t ops H => conj (zero_is_fresh s t H) (conj (zero_idempotent s) (zero_then_same_future s t ops H))). Qed.
Print Assumptions C12_zero_is_fresh.

(* single neuron: output within limits; the normalising denominator is zero exactly when all updated weights are
   zero (then the C computes 0/0 = NaN, which A_SAT maps to outmin); no other state field receives the quotient *)
Theorem C12_neuro_out_in_limits : forall (n : neuroR) a f,
  outmin (npid n) <= outmax (npid n) ->
  outmin (npid n) <= out (npid (neuro_inc R_ops n a f)) <= outmax (npid n) /\
  outmin (npid n) <= out (npid (neuro_run R_ops n a f)) <= outmax (npid n).
Proof. exact neuro_out_in_limits. Qed.
Print Assumptions C12_neuro_out_in_limits.

Theorem C12_neuro_den_zero_iff : forall a b c, neuro_den R_ops a b c = 0 <-> a = 0 /\ b = 0 /\ c = 0.
Proof. exact neuro_den_zero_iff. Qed.
Print Assumptions C12_neuro_den_zero_iff.

Theorem C12_neuro_state_independent_of_quotient : forall (n : neuroR) a f,
  let n' := neuro_inc R_ops n a f in
  let p := npid n in let e := a - f in
  wp n' = wp n + kp p * (e * out p) * nec n /\
  wi n' = wi n + ki p * (e * out p) * err p /\
  wd n' = wd n + kd p * (e * out p) * var p /\
  err (npid n') = e /\ fdb (npid n') = f /\ nec n' = e - err p /\ var (npid n') = (e - err p) - nec n.
Proof. exact neuro_state_independent_of_quotient. Qed.
Print Assumptions C12_neuro_state_independent_of_quotient.

(* ------------------------------------------------------------------------------------------------------------------
   ROUNDED ARITHMETIC (C12/PidRound.v): the same model terms at Rnd_ops rnd - every + - * / followed by rnd : R -> R,
   comparisons exact; overflow outside the model.  mono_rnd rnd: rnd monotone, rnd 0 = 0, rnd 1 = 1, rnd (-x) = - rnd x;
   idem_rnd rnd: rnd (rnd x) = rnd x (Common/RoundMono.v; binary64 round-to-nearest-even satisfies both, by Flocq). *)
From LibaV Require Import Common.RoundOps Common.RoundFlocq Common.RoundMono C12.PidRound.

(* output within the limits after every step of every history, three modes mixed: verbatim, for EVERY rnd (no hypothesis
   on rnd: A_SAT is comparisons and a selection) *)
Theorem C12_round_history_out_in_limits : forall (rnd : R -> R) (ops : list op) (s : pidR) (o : op),
  outmin s <= outmax s ->
  let s' := fold_left (rstep rnd) (ops ++ [o]) s in
  outmin s <= out s' <= outmax s /\ same_params s s'.
Proof. exact r_history_out_in_limits. Qed.
Print Assumptions C12_round_history_out_in_limits.

Theorem C12_round_neuro_out_in_limits : forall (rnd : R -> R) (n : neuroR) a f,
  outmin (npid n) <= outmax (npid n) ->
  outmin (npid n) <= out (npid (neuro_inc (Rnd_ops rnd) n a f)) <= outmax (npid n) /\
  outmin (npid n) <= out (npid (neuro_run (Rnd_ops rnd) n a f)) <= outmax (npid n).
Proof. exact r_neuro_out_in_limits. Qed.
Print Assumptions C12_round_neuro_out_in_limits.

(* positional integrator under monotone rounding, stored sum a number of the format: once at or beyond a clamp it never
   moves further out - verbatim *)
Theorem C12_round_integrator_no_further_out : forall (rnd : R -> R), mono_rnd rnd -> forall s f e,
  0 <= ki s -> summin s <= 0 <= summax s -> rnd (sum s) = sum s ->
  (summax s <= sum s -> sum (pid_pos_ (Rnd_ops rnd) s f e) <= sum s) /\
  (sum s <= summin s -> sum s <= sum (pid_pos_ (Rnd_ops rnd) s f e)).
Proof. exact r_integrator_no_further_out. Qed.
Print Assumptions C12_round_integrator_no_further_out.

(* ... and over every history it overshoots a clamp by at most one ROUNDED increment:
   r_sum_bound rnd s E  :=  rnd (summin s - rnd (ki s * E)) <= sum s <= rnd (summax s + rnd (ki s * E)) *)
Theorem C12_round_integrator_overshoot : forall (rnd : R -> R), mono_rnd rnd -> idem_rnd rnd ->
  forall (es : list (R * R)) (s : pidR) (E : R),
  0 <= ki s -> summin s <= 0 <= summax s ->
  rnd (summin s) = summin s -> rnd (summax s) = summax s -> rnd (sum s) = sum s ->
  summin s <= sum s <= summax s -> 0 <= E ->
  Forall (fun fe => Rabs (snd fe) <= E) es ->
  r_sum_bound rnd (fold_left (fun st fe => pid_pos_ (Rnd_ops rnd) st (fst fe) (snd fe)) es s) E.
Proof. exact r_integrator_overshoot. Qed.
Print Assumptions C12_round_integrator_overshoot.

(* IEEE binary64 round-to-nearest-even (rnd64 of Common/RoundFlocq.v) *)
Theorem C12_b64_history_out_in_limits : forall (ops : list op) (s : pidR) (o : op),
  outmin s <= outmax s ->
  let s' := fold_left (rstep rnd64) (ops ++ [o]) s in
  outmin s <= out s' <= outmax s /\ same_params s s'.
Proof. exact b64_history_out_in_limits. Qed.
Print Assumptions C12_b64_history_out_in_limits.

Theorem C12_b64_integrator_no_further_out : forall s f e,
  0 <= ki s -> summin s <= 0 <= summax s -> rnd64 (sum s) = sum s ->
  (summax s <= sum s -> sum (pid_pos_ (Rnd_ops rnd64) s f e) <= sum s) /\
  (sum s <= summin s -> sum s <= sum (pid_pos_ (Rnd_ops rnd64) s f e)).
Proof. exact b64_integrator_no_further_out. Qed.
Print Assumptions C12_b64_integrator_no_further_out.

Theorem C12_b64_integrator_overshoot : forall (es : list (R * R)) (s : pidR) (E : R),
  0 <= ki s -> summin s <= 0 <= summax s ->
  rnd64 (summin s) = summin s -> rnd64 (summax s) = summax s -> rnd64 (sum s) = sum s ->
  summin s <= sum s <= summax s -> 0 <= E ->
  Forall (fun fe => Rabs (snd fe) <= E) es ->
  r_sum_bound rnd64 (fold_left (fun st fe => pid_pos_ (Rnd_ops rnd64) st (fst fe) (snd fe)) es s) E.
Proof. exact b64_integrator_overshoot. Qed.
Print Assumptions C12_b64_integrator_overshoot.

(* ------------------------------------------------------------------------------------------------------------------
   ON THE PRIMITIVE-FLOAT RUN (C12/PidFloat.v, Common/F64Refine.v) - the instance compared bit for bit with the C.  For finite
   output limits outmin <= outmax and ANY state, gains, set-point and feedback - NaN and the infinities included - every
   step function stores a finite output within the limits, and so does every non-empty history of open-loop, positional
   and incremental steps.  No overflow hypothesis: A_SAT maps NaN to the lower limit and +-inf to a limit. *)
From Coq Require Floats.
From LibaV Require Import Common.FloatOps Common.RoundFlocq Common.F64Refine C12.PidFloat.
Theorem C12_f64_output_in_limits : forall (s : @pid Floats.PrimFloat.float) (set f e : Floats.PrimFloat.float), lim_ok s ->
  (out_ok (pid_run_ F64_ops s set f e) /\ lim_ok (pid_run_ F64_ops s set f e)) /\
  (out_ok (pid_pos_ F64_ops s f e) /\ lim_ok (pid_pos_ F64_ops s f e)) /\
  (out_ok (pid_inc_ F64_ops s f e) /\ lim_ok (pid_inc_ F64_ops s f e)).
Proof. exact f64_pid_out_in_limits. Qed.
Print Assumptions C12_f64_output_in_limits.

Theorem C12_f64_history_in_limits : forall (s : @pid Floats.PrimFloat.float) (cs : list pstep), lim_ok s -> cs <> nil ->
  out_ok (List.fold_left pstep_apply cs s).
Proof. exact f64_pid_history_in_limits. Qed.
Print Assumptions C12_f64_history_in_limits.

Theorem C12_f64_neuro_output_in_limits : forall (n : @neuro Floats.PrimFloat.float) (set f e ec : Floats.PrimFloat.float),
  lim_ok (npid n) ->
  (out_ok (npid (neuro_run F64_ops n set f)) /\ lim_ok (npid (neuro_run F64_ops n set f))) /\
  (out_ok (npid (neuro_inc_ F64_ops n f e ec)) /\ lim_ok (npid (neuro_inc_ F64_ops n f e ec))) /\
  (out_ok (npid (neuro_inc F64_ops n set f)) /\ lim_ok (npid (neuro_inc F64_ops n set f))).
Proof. exact f64_neuro_out_in_limits. Qed.
Print Assumptions C12_f64_neuro_output_in_limits.

(* the fuzzy-tuned controller on the float run (C13/FuzzyFloat.v): every completed a_pid_fuzzy_run / pos / inc step, any
   state, rule base, operator and arguments (NaN and infinities included), finite limits outmin <= outmax *)
From LibaV Require Import C13.FuzzyDefs C13.FuzzyFloat.
Theorem C12_f64_fuzzy_output_in_limits : forall (s s' : fuzzy (T := Floats.PrimFloat.float)) (o : fop),
  lim_ok (fpid s) -> is_control_step_f o -> fstep F64_ops s o = Ok s' ->
  out_ok (fpid s') /\ lim_ok (fpid s').
Proof. exact f64_fstep_out_in_limits. Qed.
Print Assumptions C12_f64_fuzzy_output_in_limits.
