(* C03 - the canonical heap of a tree represents it; the executable well-formedness check of a
   dumped heap is sound; in-order of a search tree is ascending. *)

From Coq Require Import List PArith ZArith Arith Lia Bool FMapPositive Permutation Sorted.
From LibaV Require Import C03.IterDefs C03.IterProofs C03.TearProofs.
Import ListNotations.

(* ------------------------------------------------------------------ heap_of *)

Lemma find_heap_of_aux_out : forall t p h y, ~ In y (ids t) ->
  PositiveMap.find y (heap_of_aux p t h) = PositiveMap.find y h.
Proof.
  unfold ids. induction t as [|l IHl x r IHr]; intros p h y Hy; simpl; [reflexivity|].
  simpl in Hy.
  assert (H1 : ~ In y (inorder l)) by (intros H; apply Hy; apply in_or_app; left; assumption).
  assert (H2 : y <> x) by (intros ->; apply Hy; apply in_middle).
  assert (H3 : ~ In y (inorder r)) by (intros H; apply Hy; apply in_or_app; right; right; assumption).
  rewrite IHl by assumption. rewrite IHr by assumption. apply PositiveMap.gso. assumption.
Qed.

Lemma repr_heap_of_aux : forall t p h, NoDup (ids t) -> Repr (rdh (heap_of_aux p t h)) p t.
Proof.
  induction t as [|l IHl x r IHr]; intros p h Hnd; simpl; [exact I|].
  apply nodup_T in Hnd. destruct Hnd as [Hl [Hr [Hxl [Hxr Hd]]]].
  split.
  - unfold rdh. rewrite find_heap_of_aux_out by assumption.
    rewrite find_heap_of_aux_out by assumption. apply PositiveMap.gss.
  - split.
    + apply IHl. assumption.
    + apply (repr_ext (rdh (heap_of_aux (Some x) r
                               (PositiveMap.add x (mkNode (root_id l) (root_id r) p) h)))).
      * intros z Hz. unfold rdh. apply find_heap_of_aux_out. intros Hzl. exact (Hd z Hzl Hz).
      * apply IHr. assumption.
Qed.

Theorem heap_of_repr : forall t, NoDup (ids t) -> Repr (rdh (heap_of t)) None t.
Proof. intros t H. apply repr_heap_of_aux. assumption. Qed.

Theorem heap_of_sub : forall t, hsub (heap_of t) t.
Proof.
  intros t x Hx. destruct (in_dec Pos.eq_dec x (ids t)) as [H|H]; [assumption|].
  exfalso. apply Hx. unfold rdh, heap_of. rewrite find_heap_of_aux_out by assumption.
  apply PositiveMap.gempty.
Qed.

(* ------------------------------------------------------------------ wf_heap *)

Lemma oid_eqb_eq : forall a b, oid_eqb a b = true -> a = b.
Proof.
  intros [x|] [y|] H; simpl in H; try discriminate; [|reflexivity].
  apply Pos.eqb_eq in H. congruence.
Qed.

Lemma reprb_sound : forall rd t p, reprb rd p t = true -> Repr rd p t.
Proof.
  induction t as [|l IHl x r IHr]; intros p H; simpl in *; [exact I|].
  destruct (rd x) as [n|]; [|discriminate].
  repeat (apply andb_true_iff in H; destruct H as [H ?]).
  apply oid_eqb_eq in H. apply oid_eqb_eq in H3. apply oid_eqb_eq in H2.
  destruct n as [a b c]; simpl in *. subst. split; [reflexivity|]. split; [apply IHl|apply IHr]; assumption.
Qed.

Lemma memb_in : forall x l, memb x l = true <-> In x l.
Proof.
  induction l as [|y l IH]; simpl; [split; [discriminate|contradiction]|].
  rewrite orb_true_iff, IH, Pos.eqb_eq. split; intros [H|H]; auto.
Qed.

Lemma nodupb_sound : forall l, nodupb l = true -> NoDup l.
Proof.
  induction l as [|x l IH]; simpl; intros H; [constructor|].
  apply andb_true_iff in H. destruct H as [H1 H2]. constructor; [|apply IH; assumption].
  intros Hin. apply memb_in in Hin. rewrite Hin in H1. discriminate.
Qed.

Lemma repr_alloc : forall rd t p x, Repr rd p t -> In x (ids t) -> rd x <> None.
Proof.
  unfold ids. induction t as [|l IHl y r IHr]; intros p x HR Hin; simpl in *; [contradiction|].
  destruct HR as [Hy [Hl Hr]]. apply in_app_or in Hin. destruct Hin as [H|[H|H]].
  - eapply IHl; eassumption.
  - subst. rewrite Hy. discriminate.
  - eapply IHr; eassumption.
Qed.

(* every allocated key is listed by elements, whose keys are distinct *)
Lemma nodup_keys : forall (h : heap), NoDup (map fst (PositiveMap.elements h)).
Proof.
  intros h. pose proof (PositiveMap.elements_3w h) as H.
  induction H as [|[k v] l Hn _ IH]; simpl; constructor; [|assumption].
  intros Hin. apply Hn. apply in_map_iff in Hin. destruct Hin as [[k' v'] [E1 E2]]. simpl in E1. subst k'.
  apply SetoidList.InA_alt. exists (k, v'). split; [reflexivity|assumption].
Qed.

Lemma in_keys : forall (h : heap) x, rdh h x <> None <-> In x (map fst (PositiveMap.elements h)).
Proof.
  intros h x. unfold rdh. split.
  - intros H. destruct (PositiveMap.find x h) as [v|] eqn:Ex; [|contradiction].
    apply PositiveMap.elements_correct in Ex. apply in_map_iff. exists (x, v). split; [reflexivity|assumption].
  - intros H. apply in_map_iff in H. destruct H as [[k v] [E1 E2]]. simpl in E1. subst k.
    apply PositiveMap.elements_complete in E2. rewrite E2. discriminate.
Qed.

(* what the model driver's "#wf 1" means: the hypotheses of all C03 theorems hold of the dumped heap *)
Theorem wf_heap_sound : forall h root n, wf_heap h root n = true ->
  exists t, Repr (rdh h) None t /\ NoDup (ids t) /\ root_id t = root /\ size t = n /\ hsub h t.
Proof.
  intros h root n H. unfold wf_heap in H.
  set (t := tree_of (rdh h) (S n) root) in *.
  repeat (apply andb_true_iff in H; destruct H as [H ?]).
  apply oid_eqb_eq in H. apply reprb_sound in H3. apply nodupb_sound in H2.
  apply Nat.eqb_eq in H1. apply Nat.eqb_eq in H0.
  exists t. repeat (split; [assumption|]).
  (* ids t and the allocated keys are two duplicate-free lists of the same length, one included in the other *)
  intros x Hx. apply in_keys in Hx.
  assert (Hincl : incl (ids t) (map fst (PositiveMap.elements h))).
  { intros z Hz. apply in_keys. eapply repr_alloc; eassumption. }
  assert (Hlen : length (map fst (PositiveMap.elements h)) <= length (ids t)).
  { rewrite map_length, <- PositiveMap.cardinal_1, size_length_ids. lia. }
  exact (NoDup_length_incl H2 Hlen Hincl x Hx).
Qed.

(* ------------------------------------------------------------------ ascending keys *)

Lemma ss_app : forall (A : Type) (R : A -> A -> Prop) (a b : list A),
  StronglySorted R a -> StronglySorted R b -> (forall x y, In x a -> In y b -> R x y) ->
  StronglySorted R (a ++ b).
Proof.
  induction a as [|h a IH]; intros b Ha Hb Hab; simpl; [assumption|].
  inversion Ha as [|? ? Hsa Hfa]; subst. constructor.
  - apply IH; [assumption|assumption|]. intros x y Hx Hy. apply Hab; [right|]; assumption.
  - apply Forall_app. split; [assumption|].
    apply Forall_forall. intros y Hy. apply Hab; [left; reflexivity|assumption].
Qed.

Lemma ss_rev : forall (A : Type) (R : A -> A -> Prop) (l : list A),
  StronglySorted R l -> StronglySorted (fun a b => R b a) (rev l).
Proof.
  induction l as [|h l IH]; intros H; simpl; [constructor|].
  inversion H as [|? ? Hs Hf]; subst. apply ss_app.
  - apply IH. assumption.
  - constructor; constructor.
  - intros x y Hx [Hy|[]]. subst y. apply in_rev in Hx.
    rewrite Forall_forall in Hf. apply Hf. assumption.
Qed.

Theorem bst_inorder_ascending : forall key t, Bst key t ->
  StronglySorted (fun a b => (key a < key b)%Z) (inorder t).
Proof.
  induction t as [|l IHl x r IHr]; intros H; simpl in *; [constructor|].
  destruct H as [Hl [Hr [Hlt Hgt]]]. apply ss_app.
  - apply IHl. assumption.
  - constructor; [apply IHr; assumption|]. apply Forall_forall. exact Hgt.
  - intros a b Ha [Hb|Hb].
    + subst b. apply Hlt. assumption.
    + eapply Z.lt_trans; [apply Hlt; assumption|apply Hgt; assumption].
Qed.
