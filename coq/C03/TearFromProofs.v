(* C03 - tear-down STARTED AT AN ARBITRARY NODE  (a_avl_tear / a_rbt_tear with  *next = x  on entry;
   include/a/rbt.h: "next: input starting node or, if null, root node").

   The first calls tear x's subtree in post-order, then go on with x's parent (descending into
   whatever children it still has), and so on up to the root.  The sequence is not the post-order
   of the whole tree; it is

       tear_order c s  =  postorder s ++ cpost c          (the tree is  plug c s,  x = root of s)

   where cpost lists, for every frame on the path from x to the root, the frame's OTHER subtree in
   post-order followed by the frame's node - whether that other subtree is a right or a LEFT
   sibling (the latter is what cannot happen in a root-started tear).

   Invariant (PosInv st c s): the heap of st is the parent-linked layout of plug c s (distinct ids,
   nothing else allocated), st's root is its root, and the node the next tear call starts from
   (the saved `next`, or the root when that is null) is the root of the focused subtree s.  There is
   NO restriction on the context c (the root-start invariant TearInv of TearProofs.v demands
   bef_post c = [], i.e. no left sibling anywhere on the path).  One tear + free step descends to
   the first post-order leaf y of s, unlinks it, and re-establishes the invariant at y's parent:
   tear_order c s = y :: tear_order c' s'.  The root-start theorems are the case c = []. *)

From Coq Require Import List PArith Arith Lia Bool FMapPositive Permutation.
From LibaV Require Import C03.IterDefs C03.IterProofs C03.TearProofs C03.HeapProofs C03.Clauses.
Import ListNotations.

Local Open Scope nat_scope.

(* ------------------------------------------------------------------ the order *)

Fixpoint cpost (c : list frame) : list id :=
  match c with
  | [] => []
  | FL y r :: c' => postorder r ++ y :: cpost c'
  | FR l y :: c' => postorder l ++ y :: cpost c'
  end.

Definition tear_order (c : list frame) (s : tree) : list id := postorder s ++ cpost c.

Lemma cpost_cons : forall f c, cpost (f :: c) = postorder (fill f E) ++ cpost c.
Proof. intros [y r|l y] c; simpl; rewrite <- app_assoc; reflexivity. Qed.

Lemma cpost_app : forall c1 c, cpost (c1 ++ c) = cpost c1 ++ cpost c.
Proof.
  induction c1 as [|[y r|l y] c1 IH]; intros c; simpl; [reflexivity| |];
    rewrite IH, <- app_assoc; reflexivity.
Qed.

(* below the start node the order is the ordinary post-order *)
Lemma cpost_aft : forall c, bef_post c = [] -> cpost c = aft_post c.
Proof.
  induction c as [|[y r|l y] c IH]; intros H; simpl in *; [reflexivity| |].
  - rewrite (IH H). reflexivity.
  - apply app_eq_nil in H. destruct H as [H1 H2]. rewrite H2, (IH H1). reflexivity.
Qed.

Lemma tear_order_first : forall c1 c y, bef_post c1 = [] ->
  tear_order c (plug c1 (T E y E)) = y :: cpost (c1 ++ c).
Proof.
  intros c1 c y H. unfold tear_order. rewrite postorder_plug, H, cpost_app, (cpost_aft c1 H).
  simpl. reflexivity.
Qed.

Lemma tear_order_root : forall t, tear_order [] t = postorder t.
Proof. intros t. unfold tear_order. simpl. apply app_nil_r. Qed.

Lemma length_cpost : forall c, length (cpost c) = csize c.
Proof.
  induction c as [|[y r|l y] c IH]; simpl; [reflexivity| |];
    rewrite app_length; simpl; rewrite length_post, IH; lia.
Qed.

Lemma length_tear_order : forall c s, length (tear_order c s) = size (plug c s).
Proof. intros c s. unfold tear_order. rewrite app_length, length_post, length_cpost, size_plug. reflexivity. Qed.

Lemma perm_cpost : forall c, Permutation (cpost c) (cids c).
Proof.
  induction c as [|[y r|l y] c IH]; simpl; [constructor| |];
    (eapply Permutation_trans; [apply Permutation_sym, Permutation_middle|]);
    constructor; apply Permutation_app; [apply perm_post|exact IH|apply perm_post|exact IH].
Qed.

(* (1) every node exactly once *)
Lemma perm_tear_order : forall c s, Permutation (tear_order c s) (ids (plug c s)).
Proof.
  intros c s. eapply Permutation_trans; [|apply Permutation_sym, perm_ids_plug].
  unfold tear_order. apply Permutation_app; [apply perm_post|apply perm_cpost].
Qed.

Lemma nodup_tear_order : forall c s, NoDup (ids (plug c s)) -> NoDup (tear_order c s).
Proof. intros c s H. eapply Permutation_NoDup; [apply Permutation_sym, perm_tear_order|exact H]. Qed.

Lemma in_ids_post : forall t z, In z (ids t) -> In z (postorder t).
Proof. intros t z H. eapply Permutation_in; [apply Permutation_sym, perm_post|exact H]. Qed.

(* (2) children before parents, for the whole tree *)
Lemma cf_plug : forall c s L1,
  ChildrenFirst (L1 ++ cpost c) s -> (forall z, In z (ids s) -> In z L1) ->
  ChildrenFirst (L1 ++ cpost c) (plug c s).
Proof.
  induction c as [|[y r|l y] c IH]; intros s L1 Hs Hin.
  - exact Hs.
  - simpl plug. simpl cpost in *.
    assert (EL : L1 ++ postorder r ++ y :: cpost c = (L1 ++ postorder r ++ [y]) ++ cpost c)
      by (repeat (rewrite <- app_assoc; simpl); reflexivity).
    rewrite EL in Hs |- *. apply IH.
    + simpl. split; [|split].
      * intros z Hz. exists (L1 ++ postorder r), (cpost c). split.
        -- repeat (rewrite <- app_assoc; simpl). reflexivity.
        -- apply in_or_app. destruct Hz as [Hz|Hz]; [left; apply Hin; exact Hz|right; apply in_ids_post; exact Hz].
      * exact Hs.
      * replace ((L1 ++ postorder r ++ [y]) ++ cpost c) with (L1 ++ postorder r ++ ([y] ++ cpost c))
          by (repeat (rewrite <- app_assoc; simpl); reflexivity).
        apply children_first_gen.
    + intros z Hz. unfold ids in Hz. simpl in Hz. apply in_app_or in Hz. apply in_or_app.
      destruct Hz as [Hz|[Hz|Hz]].
      * left. apply Hin. exact Hz.
      * right. subst. apply in_or_app. right. left. reflexivity.
      * right. apply in_or_app. left. apply in_ids_post. exact Hz.
  - simpl plug. simpl cpost in *.
    assert (EL : L1 ++ postorder l ++ y :: cpost c = (L1 ++ postorder l ++ [y]) ++ cpost c)
      by (repeat (rewrite <- app_assoc; simpl); reflexivity).
    rewrite EL in Hs |- *. apply IH.
    + simpl. split; [|split].
      * intros z Hz. exists (L1 ++ postorder l), (cpost c). split.
        -- repeat (rewrite <- app_assoc; simpl). reflexivity.
        -- apply in_or_app. destruct Hz as [Hz|Hz]; [right; apply in_ids_post; exact Hz|left; apply Hin; exact Hz].
      * replace ((L1 ++ postorder l ++ [y]) ++ cpost c) with (L1 ++ postorder l ++ ([y] ++ cpost c))
          by (repeat (rewrite <- app_assoc; simpl); reflexivity).
        apply children_first_gen.
      * exact Hs.
    + intros z Hz. unfold ids in Hz. simpl in Hz. apply in_app_or in Hz. apply in_or_app.
      destruct Hz as [Hz|[Hz|Hz]].
      * right. apply in_or_app. left. apply in_ids_post. exact Hz.
      * right. subst. apply in_or_app. right. left. reflexivity.
      * left. apply Hin. exact Hz.
Qed.

Lemma children_first_tear_order : forall c s, ChildrenFirst (tear_order c s) (plug c s).
Proof.
  intros c s. unfold tear_order. apply cf_plug.
  - exact (children_first_gen s [] (cpost c)).
  - apply in_ids_post.
Qed.

(* ------------------------------------------------------------------ the invariant *)

(* the node a tear call starts its descent from *)
Definition start_of (st : tstate) : option id :=
  match tnext st with Some n => Some n | None => troot st end.

Record PosInv (st : tstate) (c : list frame) (s : tree) : Prop := mkPosInv {
  pi_repr : Repr (rdh (th st)) None (plug c s);
  pi_nodup : NoDup (ids (plug c s));
  pi_root : troot st = root_id (plug c s);
  pi_start : start_of st = root_id s;
  pi_ne : s = E -> c = [];
  pi_sub : hsub (th st) (plug c s)
}.

(* started at the node x = root of s, anywhere in the tree *)
Lemma pos_inv_init : forall h c s x,
  Repr (rdh h) None (plug c s) -> NoDup (ids (plug c s)) -> hsub h (plug c s) -> root_id s = Some x ->
  PosInv (mkT h (root_id (plug c s)) (Some x)) c s.
Proof.
  intros h c s x HR Hnd Hs Hx. constructor; simpl; try assumption; try reflexivity.
  - unfold start_of. simpl. symmetry. exact Hx.
  - intros ->. discriminate.
Qed.

(* started with a null `next` (the fortear macros) *)
Lemma pos_inv_init_root : forall h t,
  Repr (rdh h) None t -> NoDup (ids t) -> hsub h t -> PosInv (mkT h (root_id t) None) [] t.
Proof. intros h t HR Hnd Hs. constructor; simpl; try assumption; reflexivity. Qed.

Lemma tear_from_empty : forall st c fuel, PosInv st c E -> tear fuel st = Ok (None, st).
Proof.
  intros st c fuel [_ _ _ Hstart _ _]. unfold tear. unfold start_of in Hstart. rewrite Hstart. reflexivity.
Qed.

Lemma pos_inv_done : forall st c s, PosInv st c s -> tear_order c s = [] ->
  troot st = None /\ tnext st = None /\ (forall x, rdh (th st) x = None).
Proof.
  intros st c s [_ _ Hroot Hstart Hne Hsub] HL.
  assert (Hsz : size (plug c s) = 0) by (rewrite <- length_tear_order, HL; reflexivity).
  assert (Et : plug c s = E) by (destruct (plug c s); [reflexivity|simpl in Hsz; lia]).
  pose proof (plug_E _ _ Et) as Es. subst s. rewrite Et in *.
  split; [exact Hroot|]. split.
  - unfold start_of in Hstart. destruct (tnext st); [discriminate|reflexivity].
  - intros x. destruct (rdh (th st) x) eqn:Ex; [|reflexivity].
    exfalso. apply (Hsub x). rewrite Ex. discriminate.
Qed.

(* re-establishing the invariant after unlinking the leaf y below p and freeing it; c is ARBITRARY *)
Lemma pos_inv_rebuild : forall (h : heap) c s s' y p pn' root0,
  Repr (rdh h) None (plug c s) -> NoDup (ids (plug c s)) -> hsub h (plug c s) ->
  root0 = root_id (plug c s) ->
  root_id s = Some p -> root_id s' = Some p ->
  Permutation (ids s) (y :: ids s') ->
  Repr (rdh (PositiveMap.remove y (PositiveMap.add p pn' h))) (par c) s' ->
  PosInv (mkT (PositiveMap.remove y (PositiveMap.add p pn' h)) root0 (Some p)) c s'
  /\ (forall z, In z (ids (plug c s')) -> In z (ids (plug c s))).
Proof.
  intros h c s s' y p pn' root0 HR Hnd Hsub Hroot Hs Hs' HP HR'.
  pose proof (perm_ids_plug c s) as P1. pose proof (perm_ids_plug c s') as P2.
  assert (Hnd1 : NoDup (ids s ++ cids c)) by (exact (Permutation_NoDup P1 Hnd)).
  apply nodup_app in Hnd1. destruct Hnd1 as [Hnds [Hndc Hdisj]].
  assert (Hnd2 : NoDup (y :: ids s')) by (exact (Permutation_NoDup HP Hnds)).
  assert (Hy : In y (ids s)) by (eapply Permutation_in; [apply Permutation_sym; eassumption|left; reflexivity]).
  assert (Hp : In p (ids s)) by (apply root_in; assumption).
  assert (Hsub' : forall z, In z (ids s') -> In z (ids s)).
  { intros z Hz. eapply Permutation_in; [apply Permutation_sym; eassumption|right; assumption]. }
  assert (Hag : forall z, In z (cids c) ->
                rdh (PositiveMap.remove y (PositiveMap.add p pn' h)) z = rdh h z).
  { intros z Hz. unfold rdh.
    assert (z <> y) by (intros ->; exact (Hdisj y Hy Hz)).
    assert (z <> p) by (intros ->; exact (Hdisj p Hp Hz)).
    rewrite PositiveMap.gro by assumption. rewrite PositiveMap.gso by assumption. reflexivity. }
  split.
  - constructor; simpl.
    + apply (repr_replace (rdh h) _ c s s'); try assumption. congruence.
    + eapply Permutation_NoDup; [apply Permutation_sym; eassumption|].
      apply nodup_app. split; [inversion Hnd2; assumption|]. split; [assumption|].
      intros z Hz1 Hz2. eapply Hdisj; [apply Hsub'|]; eassumption.
    + rewrite Hroot. apply root_plug. congruence.
    + unfold start_of. simpl. symmetry. exact Hs'.
    + intros ->. discriminate.
    + intros z Hz. unfold rdh in Hz.
      destruct (Pos.eq_dec z y) as [->|Hzy]; [rewrite PositiveMap.grs in Hz; contradiction|].
      rewrite PositiveMap.gro in Hz by assumption.
      eapply Permutation_in; [apply Permutation_sym; eassumption|]. apply in_or_app.
      destruct (Pos.eq_dec z p) as [->|Hzp]; [left; apply root_in; assumption|].
      rewrite PositiveMap.gso in Hz by assumption.
      apply Hsub in Hz. apply (Permutation_in _ P1) in Hz. apply in_app_or in Hz.
      destruct Hz as [Hz|Hz]; [left|right; assumption].
      eapply in_perm_cons; eassumption.
  - intros z Hz. apply (Permutation_in _ P2) in Hz.
    eapply Permutation_in; [apply Permutation_sym; eassumption|]. apply in_or_app.
    apply in_app_or in Hz. destruct Hz as [Hz|Hz]; [left; apply Hsub'|right]; assumption.
Qed.

(* ------------------------------------------------------------------ one tear + free step *)

Lemma tear_from_step : forall st c s fuel, PosInv st c s -> s <> E -> size (plug c s) < fuel ->
  exists y st' c' s',
    tear fuel st = Ok (Some y, st')
    /\ tear_order c s = y :: tear_order c' s'
    /\ PosInv (free_node y st') c' s'
    /\ (forall z, In z (ids (plug c' s')) -> In z (ids (plug c s))).
Proof.
  intros st c s fuel [HR Hnd Hroot Hstart _ Hsub] Hne Hf.
  assert (Hrs : exists x0, root_id s = Some x0) by (destruct s; [contradiction|eexists; reflexivity]).
  destruct Hrs as [x0 Hrs].
  pose proof (repr_plug_inv _ _ _ _ HR) as HS.
  assert (Hsz : size s <= fuel) by (rewrite size_plug in Hf; lia).
  destruct (post_descent_pos _ s _ x0 fuel HS Hrs Hsz) as [c1 [y [F1 [F2 F3]]]].
  assert (Et : plug c s = plug (c1 ++ c) (T E y E)) by (rewrite plug_app, <- F1; reflexivity).
  assert (Eord : tear_order c s = y :: cpost (c1 ++ c)) by (rewrite F1; apply tear_order_first; exact F2).
  unfold tear. unfold start_of in Hstart. rewrite Hstart, Hrs, F3.
  rewrite Et in HR, Hnd, Hsub, Hroot |- *. rewrite Eord.
  clear Et Eord F1 F2 F3 HS Hsz Hf Hstart Hrs Hne.
  destruct (c1 ++ c) as [|f cc].
  - (* y is the root and the last node *)
    simpl in HR. destruct HR as [Hy _]. rewrite Hy. cbn [np].
    exists y, (mkT (th st) None None), [], E. split; [reflexivity|]. split; [reflexivity|]. split.
    + constructor; simpl; try exact I; try constructor; try reflexivity.
      intros z Hz. unfold rdh in Hz.
      destruct (Pos.eq_dec z y) as [->|Hzy]; [rewrite PositiveMap.grs in Hz; contradiction|].
      rewrite PositiveMap.gro in Hz by assumption. apply Hsub in Hz.
      unfold ids in Hz. simpl in Hz. destruct Hz as [Hz|[]]. congruence.
    + intros z [].
  - pose proof (repr_frame _ _ _ _ _ HR) as HF. fold (par cc) in HF.
    assert (Hnd2 : NoDup (ids (fill f (T E y E)))) by (simpl in Hnd; eapply nodup_plug; eassumption).
    rewrite cpost_cons. fold (tear_order cc (fill f E)).
    destruct f as [p r|l p].
    + (* y is the left child of p: the focus becomes  T E p r *)
      simpl in HF. destruct HF as [Hp [[Hy _] Hr]].
      rewrite Hy. cbn [np]. rewrite Hp. cbn [nl nr np]. rewrite ptr_is_same.
      apply nodup_T in Hnd2. destruct Hnd2 as [_ [Hndr [Hpy [Hpr Hyr]]]].
      assert (Hyp : y <> p) by (intros ->; apply Hpy; unfold ids; simpl; left; reflexivity).
      set (pn' := mkNode None (root_id r) (par cc)).
      destruct (pos_inv_rebuild (th st) cc (T (T E y E) p r) (T E p r) y p pn' (troot st)) as [Hinv' Hids];
        try assumption; try reflexivity.
      * simpl. split.
        -- unfold rdh. rewrite PositiveMap.gro by congruence. rewrite PositiveMap.gss. reflexivity.
        -- split; [exact I|].
           apply (repr_ext (rdh (th st))); [|assumption].
           intros z Hz. unfold rdh.
           assert (z <> y) by (intros ->; apply (Hyr y); [unfold ids; simpl; left; reflexivity|assumption]).
           assert (z <> p) by (intros ->; contradiction).
           rewrite PositiveMap.gro by assumption. rewrite PositiveMap.gso by assumption. reflexivity.
      * exists y, (mkT (PositiveMap.add p pn' (th st)) (troot st) (Some p)), cc, (T E p r).
        split; [reflexivity|]. split; [reflexivity|]. split; [exact Hinv'|exact Hids].
    + (* y is the right child of p, whose LEFT subtree l may still be there: the focus becomes  T l p E *)
      simpl in HF. destruct HF as [Hp [Hl [Hy _]]].
      rewrite Hy. cbn [np]. rewrite Hp. cbn [nl nr np].
      rewrite (ptr_is_root_other l p (T E y E) y Hnd2 eq_refl).
      apply nodup_T in Hnd2. destruct Hnd2 as [Hndl [_ [Hpl [Hpy Hly]]]].
      assert (Hyp : y <> p) by (intros ->; apply Hpy; unfold ids; simpl; left; reflexivity).
      set (pn' := mkNode (root_id l) None (par cc)).
      destruct (pos_inv_rebuild (th st) cc (T l p (T E y E)) (T l p E) y p pn' (troot st)) as [Hinv' Hids];
        try assumption; try reflexivity.
      * unfold ids. simpl.
        replace (inorder l ++ [p; y]) with ((inorder l ++ [p]) ++ [y]) by (rewrite <- app_assoc; reflexivity).
        apply Permutation_sym, Permutation_cons_append.
      * simpl. split.
        -- unfold rdh. rewrite PositiveMap.gro by congruence. rewrite PositiveMap.gss. reflexivity.
        -- split; [|exact I].
           apply (repr_ext (rdh (th st))); [|assumption].
           intros z Hz. unfold rdh.
           assert (z <> y) by (intros ->; apply (Hly y); [assumption|unfold ids; simpl; left; reflexivity]).
           assert (z <> p) by (intros ->; contradiction).
           rewrite PositiveMap.gro by assumption. rewrite PositiveMap.gso by assumption. reflexivity.
      * exists y, (mkT (PositiveMap.add p pn' (th st)) (troot st) (Some p)), cc, (T l p E).
        split; [reflexivity|]. split; [reflexivity|]. split; [exact Hinv'|exact Hids].
Qed.

(* ------------------------------------------------------------------ the loop *)

Theorem fortear_from_prefix : forall k st c s fuel, PosInv st c s -> size (plug c s) < fuel ->
  exists st' c' s',
    fortear fuel k st = Ok (firstn k (tear_order c s), st')
    /\ PosInv st' c' s'
    /\ tear_order c' s' = skipn k (tear_order c s)
    /\ (forall z, In z (ids (plug c' s')) -> In z (ids (plug c s))).
Proof.
  induction k as [|k IH]; intros st c s fuel Hinv Hf.
  - exists st, c, s. simpl. split; [reflexivity|]. split; [assumption|]. split; [reflexivity|]. auto.
  - destruct s as [|l x r] eqn:Es.
    + assert (Ec : c = []) by (apply (pi_ne _ _ _ Hinv); reflexivity). subst c.
      exists st, [], E. cbn [fortear]. rewrite (tear_from_empty st [] fuel Hinv).
      split; [reflexivity|]. split; [assumption|]. split; [reflexivity|]. auto.
    + rewrite <- Es in *.
      assert (Hne : s <> E) by (rewrite Es; discriminate).
      destruct (tear_from_step st c s fuel Hinv Hne Hf) as [y [st1 [c1 [s1 [H1 [H2 [H3 H4]]]]]]].
      assert (Hsz : size (plug c s) = S (size (plug c1 s1))).
      { rewrite <- !length_tear_order, H2. reflexivity. }
      destruct (IH (free_node y st1) c1 s1 fuel H3) as [st' [c' [s' [G1 [G2 [G3 G4]]]]]]; [lia|].
      exists st', c', s'. cbn [fortear]. rewrite H1, G1, H2. cbn [firstn skipn].
      split; [reflexivity|]. split; [assumption|]. split; [assumption|]. auto.
Qed.

(* everything about a tear-down from the position (c, s), i.e. started at the root of s *)
Theorem tear_from_pos : forall h c s x fuel,
  Repr (rdh h) None (plug c s) -> NoDup (ids (plug c s)) -> hsub h (plug c s) ->
  root_id s = Some x -> size (plug c s) < fuel ->
  NoDup (tear_order c s) /\ Permutation (tear_order c s) (ids (plug c s))
  /\ ChildrenFirst (tear_order c s) (plug c s)
  /\ forall k, exists st' t',
       fortear fuel k (mkT h (root_id (plug c s)) (Some x)) = Ok (firstn k (tear_order c s), st')
       /\ Repr (rdh (th st')) None t' /\ NoDup (ids t') /\ troot st' = root_id t' /\ hsub (th st') t'
       /\ Permutation (ids t') (skipn k (tear_order c s))
       /\ size t' < fuel
       /\ (size (plug c s) <= k ->
             troot st' = None /\ tnext st' = None /\ (forall z, rdh (th st') z = None))
       /\ (forall k2, size t' <= k2 ->
             exists st'', fortear fuel k2 st' = Ok (skipn k (tear_order c s), st'')
                          /\ troot st'' = None /\ tnext st'' = None /\ (forall z, rdh (th st'') z = None)).
Proof.
  intros h c s x fuel HR Hnd Hsub Hx Hf.
  split; [apply nodup_tear_order; assumption|]. split; [apply perm_tear_order|].
  split; [apply children_first_tear_order|]. intros k.
  destruct (fortear_from_prefix k _ c s fuel (pos_inv_init h c s x HR Hnd Hsub Hx) Hf)
    as [st' [c' [s' [G1 [G2 [G3 G4]]]]]].
  assert (Hlen : size (plug c' s') <= size (plug c s)).
  { rewrite <- !length_tear_order, G3, skipn_length. lia. }
  exists st', (plug c' s'). split; [exact G1|].
  split; [exact (pi_repr _ _ _ G2)|]. split; [exact (pi_nodup _ _ _ G2)|].
  split; [exact (pi_root _ _ _ G2)|]. split; [exact (pi_sub _ _ _ G2)|].
  split; [rewrite <- G3; apply Permutation_sym, perm_tear_order|]. split; [lia|]. split.
  - intros Hk. apply (pos_inv_done st' c' s' G2). rewrite G3. apply skipn_all2.
    rewrite length_tear_order. exact Hk.
  - intros k2 Hk2.
    destruct (fortear_from_prefix k2 st' c' s' fuel G2) as [st'' [c'' [s'' [B1 [B2 [B3 _]]]]]]; [lia|].
    exists st''. rewrite firstn_all2 in B1 by (rewrite length_tear_order; exact Hk2).
    rewrite G3 in B1. split; [exact B1|].
    apply (pos_inv_done st'' c'' s'' B2). rewrite B3. apply skipn_all2.
    rewrite length_tear_order. exact Hk2.
Qed.

(* ------------------------------------------------------------------ the theorems, for every node x *)

(* complete tear-down started at ANY node x of the tree *)
Theorem tear_from_complete : forall h t fuel k x,
  Repr (rdh h) None t -> NoDup (ids t) -> hsub h t -> size t < fuel -> size t <= k -> In x (ids t) ->
  exists l st',
    fortear fuel k (mkT h (root_id t) (Some x)) = Ok (l, st')
    /\ NoDup l /\ Permutation l (ids t)
    /\ ChildrenFirst l t
    /\ troot st' = None /\ tnext st' = None /\ (forall z, rdh (th st') z = None)
    /\ (exists c s, t = plug c s /\ root_id s = Some x /\ l = postorder s ++ cpost c).
Proof.
  intros h t fuel k x HR Hnd Hsub Hf Hk Hx.
  destruct (in_ids_plug t x Hx) as [c [l0 [r0 Et]]]. subst t.
  destruct (tear_from_pos h c (T l0 x r0) x fuel HR Hnd Hsub eq_refl Hf) as [A1 [A2 [A3 A4]]].
  destruct (A4 k) as [st' [t' [B1 [_ [_ [_ [_ [_ [_ [B2 _]]]]]]]]]].
  rewrite firstn_all2 in B1 by (rewrite length_tear_order; exact Hk).
  destruct (B2 Hk) as [C1 [C2 C3]].
  exists (tear_order c (T l0 x r0)), st'.
  repeat (split; [assumption|]).
  exists c, (T l0 x r0). repeat split; reflexivity.
Qed.

(* tear-down started at ANY node x and interrupted after ANY number k of handed-out nodes *)
Theorem tear_from_interrupted : forall h t fuel x,
  Repr (rdh h) None t -> NoDup (ids t) -> hsub h t -> size t < fuel -> In x (ids t) ->
  exists L,
    NoDup L /\ Permutation L (ids t) /\ ChildrenFirst L t
    /\ forall k, exists st' t',
         fortear fuel k (mkT h (root_id t) (Some x)) = Ok (firstn k L, st')
         /\ Repr (rdh (th st')) None t' /\ NoDup (ids t') /\ troot st' = root_id t' /\ hsub (th st') t'
         /\ Permutation (ids t') (skipn k L)
         /\ size t' < fuel
         /\ (forall k2, size t' <= k2 ->
               exists st'', fortear fuel k2 st' = Ok (skipn k L, st'')
                            /\ troot st'' = None /\ tnext st'' = None /\ (forall z, rdh (th st'') z = None)).
Proof.
  intros h t fuel x HR Hnd Hsub Hf Hx.
  destruct (in_ids_plug t x Hx) as [c [l0 [r0 Et]]]. subst t.
  destruct (tear_from_pos h c (T l0 x r0) x fuel HR Hnd Hsub eq_refl Hf) as [A1 [A2 [A3 A4]]].
  exists (tear_order c (T l0 x r0)). repeat (split; [assumption|]). intros k.
  destruct (A4 k) as [st' [t' [B1 [B2 [B3 [B4 [B5 [B6 [B7 [_ B9]]]]]]]]]].
  exists st', t'. repeat (split; [assumption|]). exact B9.
Qed.

(* the root-start theorem (fortear_complete of TearProofs.v) from the SAME invariant: c = [] *)
Theorem tear_root_start_from_pos : forall h t fuel k,
  Repr (rdh h) None t -> NoDup (ids t) -> hsub h t -> size t < fuel -> size t <= k ->
  exists st', fortear fuel k (mkT h (root_id t) None) = Ok (postorder t, st')
    /\ troot st' = None /\ tnext st' = None /\ (forall x, rdh (th st') x = None).
Proof.
  intros h t fuel k HR Hnd Hsub Hf Hk.
  destruct (fortear_from_prefix k _ [] t fuel (pos_inv_init_root h t HR Hnd Hsub) Hf)
    as [st' [c' [s' [G1 [G2 [G3 _]]]]]].
  rewrite firstn_all2 in G1 by (rewrite length_tear_order; exact Hk).
  rewrite tear_order_root in G1. exists st'. split; [exact G1|].
  apply (pos_inv_done st' c' s' G2). rewrite G3. apply skipn_all2.
  rewrite length_tear_order. exact Hk.
Qed.

(* started at the root node itself (next = root instead of null): plain post-order again *)
Corollary tear_from_root_node : forall h l x r fuel k,
  let t := T l x r in
  Repr (rdh h) None t -> NoDup (ids t) -> hsub h t -> size t < fuel -> size t <= k ->
  exists st', fortear fuel k (mkT h (Some x) (Some x)) = Ok (postorder t, st')
    /\ troot st' = None /\ tnext st' = None /\ (forall z, rdh (th st') z = None).
Proof.
  intros h l x r fuel k t HR Hnd Hsub Hf Hk.
  destruct (tear_from_pos h [] t x fuel HR Hnd Hsub eq_refl Hf) as [_ [_ [_ A4]]].
  destruct (A4 k) as [st' [t' [B1 [_ [_ [_ [_ [_ [_ [B2 _]]]]]]]]]].
  rewrite firstn_all2 in B1 by (rewrite length_tear_order; exact Hk).
  rewrite tear_order_root in B1. exists st'. split; [exact B1|]. exact (B2 Hk).
Qed.

(* ------------------------------------------------------------------ non-vacuity *)

Local Open Scope positive_scope.

(* ids unrelated to any traversal order:
               4
            /     \
           6       2
          / \     / \
         1   7   5   3            post-order: 1 7 6 5 3 2 4   *)
Definition t7 : tree :=
  T (T (T E 1 E) 6 (T E 7 E)) 4 (T (T E 5 E) 2 (T E 3 E)).

Example t7_hyps :
  Repr (rdh (heap_of t7)) None t7 /\ NoDup (ids t7) /\ hsub (heap_of t7) t7 /\ (size t7 < 8)%nat
  /\ In 7 (ids t7) /\ In 2 (ids t7).
Proof.
  assert (H : NoDup (ids t7)) by (apply nodupb_sound; vm_compute; reflexivity).
  split; [apply heap_of_repr; exact H|]. split; [exact H|]. split; [apply heap_of_sub|].
  split; [vm_compute; repeat constructor|]. split; vm_compute; tauto.
Qed.

(* start at 7, the RIGHT child of 6 whose LEFT subtree {1} is still there: 7, then 1 (left sibling,
   handed out AFTER the start node), 6, then the rest of 4's tree; not the post-order *)
Example t7_pos_7 : t7 = plug [FR (T E 1 E) 6; FL 4 (T (T E 5 E) 2 (T E 3 E))] (T E 7 E)
  /\ tear_order [FR (T E 1 E) 6; FL 4 (T (T E 5 E) 2 (T E 3 E))] (T E 7 E) = [7; 1; 6; 5; 3; 2; 4].
Proof. split; reflexivity. Qed.

Example run_tear_from_7 :
  match fortear 8 8 (mkT (heap_of t7) (Some 4) (Some 7)) with
  | Ok (l, st) => l = [7; 1; 6; 5; 3; 2; 4] /\ l <> postorder t7
                  /\ troot st = None /\ tnext st = None /\ PositiveMap.is_empty (th st) = true
  | _ => False
  end.
Proof. vm_compute. repeat split; try reflexivity. discriminate. Qed.

(* start at 2, the right child of the root, whose whole left subtree is still there *)
Example run_tear_from_2 :
  match fortear 8 8 (mkT (heap_of t7) (Some 4) (Some 2)) with
  | Ok (l, st) => l = [5; 3; 2; 1; 7; 6; 4]
                  /\ l = tear_order [FR (T (T E 1 E) 6 (T E 7 E)) 4] (T (T E 5 E) 2 (T E 3 E))
                  /\ troot st = None /\ tnext st = None /\ PositiveMap.is_empty (th st) = true
  | _ => False
  end.
Proof. vm_compute. repeat split; reflexivity. Qed.

(* started at 7 and interrupted after 2 nodes: saved next is 6, the remainder is a well-formed
   5-node tree (all iterators work on it), and the resumed tear-down hands out the rest *)
Example run_tear_from_7_interrupted :
  match fortear 8 2 (mkT (heap_of t7) (Some 4) (Some 7)) with
  | Ok (l, st) => l = [7; 1] /\ troot st = Some 4 /\ tnext st = Some 6
                  /\ wf_heap (th st) (troot st) 5 = true
                  /\ foreach (rdh (th st)) 6 (troot st) = Ok [6; 4; 5; 2; 3]
                  /\ match fortear 8 6 st with
                     | Ok (l2, st2) => l2 = [6; 5; 3; 2; 4] /\ troot st2 = None
                                       /\ PositiveMap.is_empty (th st2) = true
                     | _ => False
                     end
  | _ => False
  end.
Proof. vm_compute. repeat split; reflexivity. Qed.
