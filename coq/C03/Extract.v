(* C03: extraction of the executable model (ExtrOcamlBasic only). *)
Require Extraction.
Require Import ExtrOcamlBasic.
From LibaV Require Import C03.IterDefs.

Extraction "C03/extracted/iter.ml"
  heap_add heap_empty heap_elements rdh wf_heap
  head tail next prev pre_next pre_prev post_head post_tail post_next post_prev
  foreach foreach_reverse pre_foreach pre_foreach_reverse post_foreach post_foreach_reverse
  tear free_node fortear mkT th troot tnext.
