(* C03 - the clauses of the property, assembled from IterProofs / TearProofs / HeapProofs in exactly
   the form Properties_C03.v states them. *)

From Coq Require Import List PArith ZArith Arith Lia Bool FMapPositive Permutation Sorted.
From LibaV Require Import C03.IterDefs C03.IterProofs C03.TearProofs C03.HeapProofs.
Import ListNotations.

Section Clauses.
Variable rd : id -> option node.
Variable t : tree.
Variable fuel : nat.
Hypothesis HR : Repr rd None t.
Hypothesis Hnd : NoDup (ids t).
Hypothesis Hf : size t < fuel.

Lemma clause_inorder :
  foreach rd fuel (root_id t) = Ok (inorder t)
  /\ foreach_reverse rd fuel (root_id t) = Ok (rev (inorder t)).
Proof. split; [apply foreach_fwd|apply foreach_bwd]; assumption. Qed.

Lemma clause_ascending : forall key : id -> Z, Bst key t ->
  exists l, foreach rd fuel (root_id t) = Ok l
            /\ StronglySorted (fun a b => (key a < key b)%Z) l
            /\ foreach_reverse rd fuel (root_id t) = Ok (rev l)
            /\ StronglySorted (fun a b => (key b < key a)%Z) (rev l).
Proof.
  intros key Hb. exists (inorder t). destruct clause_inorder as [H1 H2].
  pose proof (bst_inorder_ascending key t Hb) as Hs.
  split; [assumption|]. split; [assumption|]. split; [assumption|].
  apply (ss_rev _ _ _ Hs).
Qed.

Lemma clause_inverse : forall x y,
  (In x (ids t) -> next rd fuel x = Ok (Some y) -> prev rd fuel y = Ok (Some x))
  /\ (In y (ids t) -> prev rd fuel y = Ok (Some x) -> next rd fuel x = Ok (Some y)).
Proof.
  intros x y. split; [apply next_then_prev|apply prev_then_next]; assumption.
Qed.

Lemma clause_pre_post :
  pre_foreach rd fuel (root_id t) = Ok (preorder t)
  /\ pre_foreach_reverse rd fuel (root_id t) = Ok (preorder_rl t)
  /\ post_foreach rd fuel (root_id t) = Ok (postorder t)
  /\ post_foreach_reverse rd fuel (root_id t) = Ok (postorder_rl t).
Proof.
  split; [apply pre_foreach_fwd; assumption|].
  split; [apply pre_foreach_bwd; assumption|].
  split; [apply post_foreach_fwd; assumption|apply post_foreach_bwd; assumption].
Qed.

Lemma clause_from_any_node : forall pre x post,
  (inorder t = pre ++ x :: post -> iterate (next rd fuel) fuel (Some x) = Ok (x :: post))
  /\ (rev (inorder t) = pre ++ x :: post -> iterate (prev rd fuel) fuel (Some x) = Ok (x :: post))
  /\ (preorder t = pre ++ x :: post -> iterate (pre_next rd fuel) fuel (Some x) = Ok (x :: post))
  /\ (preorder_rl t = pre ++ x :: post -> iterate (pre_prev rd fuel) fuel (Some x) = Ok (x :: post))
  /\ (postorder t = pre ++ x :: post -> iterate (post_next rd fuel) fuel (Some x) = Ok (x :: post))
  /\ (postorder_rl t = pre ++ x :: post -> iterate (post_prev rd fuel) fuel (Some x) = Ok (x :: post)).
Proof.
  intros pre x post.
  split; [apply iterate_next_from; assumption|].
  split; [apply iterate_prev_from; assumption|].
  split; [apply iterate_pre_next_from; assumption|].
  split; [apply iterate_pre_prev_from; assumption|].
  split; [apply iterate_post_next_from; assumption|apply iterate_post_prev_from; assumption].
Qed.

(* the successor of x in a duplicate-free list that contains it *)
Lemma step_total_aux : forall (L : list id) (step : id -> res (option id)),
  (forall pre x post, L = pre ++ x :: post -> step x = Ok (hd_error post)) ->
  forall x, In x L -> exists o, step x = Ok o /\ match o with Some y => In y L | None => True end.
Proof.
  intros L step H x Hin. destruct (in_split _ _ Hin) as [pre [post E0]].
  exists (hd_error post). split; [apply (H pre x post E0)|].
  destruct post as [|y post]; simpl; [exact I|].
  rewrite E0. apply in_or_app. right. right. left. reflexivity.
Qed.

Lemma in_rev_ids : forall x, In x (ids t) -> In x (rev (inorder t)).
Proof. intros x H. apply in_rev. rewrite rev_involutive. exact H. Qed.

Lemma in_pre : forall x, In x (ids t) -> In x (preorder t).
Proof. intros x H. eapply Permutation_in; [apply Permutation_sym, perm_pre|exact H]. Qed.
Lemma in_post : forall x, In x (ids t) -> In x (postorder t).
Proof. intros x H. eapply Permutation_in; [apply Permutation_sym, perm_post|exact H]. Qed.

Lemma clause_steps_total : forall x, In x (ids t) ->
  let inside o := match o with Some y => In y (ids t) | None => True end in
  (exists o, next rd fuel x = Ok o /\ inside o)
  /\ (exists o, prev rd fuel x = Ok o /\ inside o)
  /\ (exists o, pre_next rd fuel x = Ok o /\ inside o)
  /\ (exists o, pre_prev rd fuel x = Ok o /\ inside o)
  /\ (exists o, post_next rd fuel x = Ok o /\ inside o)
  /\ (exists o, post_prev rd fuel x = Ok o /\ inside o).
Proof.
  intros x Hin inside. unfold inside.
  assert (Hrl : forall z, In z (preorder_rl t) -> In z (ids t)).
  { intros z Hz. rewrite preorder_rl_rev_post in Hz. apply in_rev in Hz. apply in_post_ids. exact Hz. }
  assert (Hql : forall z, In z (postorder_rl t) -> In z (ids t)).
  { intros z Hz. rewrite postorder_rl_rev_pre in Hz. apply in_rev in Hz. apply in_pre_ids. exact Hz. }
  split.
  { destruct (step_total_aux (inorder t) _ (next_succ rd t fuel HR Hnd Hf) x Hin) as [o [H1 H2]].
    exists o. split; [assumption|]. destruct o; [exact H2|exact I]. }
  split.
  { destruct (step_total_aux (rev (inorder t)) _ (prev_succ rd t fuel HR Hnd Hf) x (in_rev_ids x Hin)) as [o [H1 H2]].
    exists o. split; [assumption|]. destruct o as [y|]; [|exact I]. apply in_rev in H2. exact H2. }
  split.
  { destruct (step_total_aux (preorder t) _ (pre_next_succ rd t fuel HR Hnd Hf) x (in_pre x Hin)) as [o [H1 H2]].
    exists o. split; [assumption|]. destruct o as [y|]; [|exact I]. apply in_pre_ids. exact H2. }
  split.
  { assert (Hx : In x (preorder_rl t)).
    { rewrite preorder_rl_rev_post. apply in_rev. rewrite rev_involutive. apply in_post. exact Hin. }
    destruct (step_total_aux (preorder_rl t) _ (pre_prev_succ rd t fuel HR Hnd Hf) x Hx) as [o [H1 H2]].
    exists o. split; [assumption|]. destruct o as [y|]; [|exact I]. apply Hrl. exact H2. }
  split.
  { destruct (step_total_aux (postorder t) _ (post_next_succ rd t fuel HR Hnd Hf) x (in_post x Hin)) as [o [H1 H2]].
    exists o. split; [assumption|]. destruct o as [y|]; [|exact I]. apply in_post_ids. exact H2. }
  { assert (Hx : In x (postorder_rl t)).
    { rewrite postorder_rl_rev_pre. apply in_rev. rewrite rev_involutive. apply in_pre. exact Hin. }
    destruct (step_total_aux (postorder_rl t) _ (post_prev_succ rd t fuel HR Hnd Hf) x Hx) as [o [H1 H2]].
    exists o. split; [assumption|]. destruct o as [y|]; [|exact I]. apply Hql. exact H2. }
Qed.

End Clauses.

(* every documented order lists every element exactly once *)
Lemma clause_exactly_once : forall t, NoDup (ids t) ->
  let once L := NoDup L /\ Permutation L (ids t) in
  once (inorder t) /\ once (rev (inorder t)) /\ once (preorder t) /\ once (preorder_rl t)
  /\ once (postorder t) /\ once (postorder_rl t).
Proof.
  intros t Hnd once. unfold once.
  split; [split; [exact Hnd|apply Permutation_refl]|].
  split; [split; [apply NoDup_rev; exact Hnd|apply Permutation_sym, Permutation_rev]|].
  split; [split; [apply nodup_pre; exact Hnd|apply perm_pre]|].
  split.
  { rewrite preorder_rl_rev_post. split; [apply NoDup_rev, nodup_post; exact Hnd|].
    eapply Permutation_trans; [apply Permutation_sym, Permutation_rev|apply perm_post]. }
  split; [split; [apply nodup_post; exact Hnd|apply perm_post]|].
  rewrite postorder_rl_rev_pre. split; [apply NoDup_rev, nodup_pre; exact Hnd|].
  eapply Permutation_trans; [apply Permutation_sym, Permutation_rev|apply perm_pre].
Qed.

Lemma clause_mirrored_orders : forall t,
  preorder_rl t = rev (postorder t) /\ postorder_rl t = rev (preorder t).
Proof. intros t. split; [apply preorder_rl_rev_post|apply postorder_rl_rev_pre]. Qed.

(* children before parents *)
Lemma children_first_gen : forall t pre post, ChildrenFirst (pre ++ postorder t ++ post) t.
Proof.
  induction t as [|l IHl x r IHr]; intros pre post; simpl; [exact I|].
  split.
  - intros z Hz. exists (pre ++ postorder l ++ postorder r), post. split.
    + repeat (rewrite <- app_assoc; simpl). reflexivity.
    + apply in_or_app. right. apply in_or_app.
      destruct Hz as [Hz|Hz]; [left|right];
        (eapply Permutation_in; [apply Permutation_sym, perm_post|exact Hz]).
  - split.
    + replace (pre ++ (postorder l ++ postorder r ++ [x]) ++ post)
        with (pre ++ postorder l ++ (postorder r ++ [x] ++ post))
        by (repeat (rewrite <- app_assoc; simpl); reflexivity).
      apply IHl.
    + replace (pre ++ (postorder l ++ postorder r ++ [x]) ++ post)
        with ((pre ++ postorder l) ++ postorder r ++ ([x] ++ post))
        by (repeat (rewrite <- app_assoc; simpl); reflexivity).
      apply IHr.
Qed.

Lemma clause_tear_complete : forall h t fuel k,
  Repr (rdh h) None t -> NoDup (ids t) -> hsub h t -> size t < fuel -> size t <= k ->
  exists st', fortear fuel k (mkT h (root_id t) None) = Ok (postorder t, st')
    /\ ChildrenFirst (postorder t) t
    /\ NoDup (postorder t) /\ Permutation (postorder t) (ids t)
    /\ troot st' = None /\ tnext st' = None /\ (forall x, rdh (th st') x = None).
Proof.
  intros h t fuel k HR Hnd Hs Hf Hk.
  destruct (fortear_complete h t fuel k HR Hnd Hs Hf Hk) as [st' [H1 H2]].
  exists st'. split; [assumption|]. split.
  - pose proof (children_first_gen t [] []) as H. simpl in H. rewrite app_nil_r in H. exact H.
  - split; [apply nodup_post; assumption|]. split; [apply perm_post|assumption].
Qed.

Lemma clause_heap_of : forall t, NoDup (ids t) ->
  Repr (rdh (heap_of t)) None t /\ hsub (heap_of t) t.
Proof. intros t H. split; [apply heap_of_repr; assumption|apply heap_of_sub]. Qed.
