(* C03 - lemmas about the hand model IterDefs.v that the translator tie of the iteration MACROS (harness/C03/TieNavMacros.v)
   relies on.  Nothing here mentions generated code.

   IterDefs.fortear fuel k is the tear-down loop INTERRUPTED after at most k nodes (k = 0: Ok ([], st) at once): that is what
   the theorems C03_tear_complete / C03_tear_interrupted speak about.  The macro a_avl_fortear / a_rbt_fortear written out in
   C has no interruption: it runs until tear hands out null.  [tear_all fuel k] is that loop with k as its fuel (one unit per
   handed-out node, consumed on entry to the body; exhausted fuel is [OutOfFuel], never a short list).  The two agree on
   every run that ends because tear returned null: [tear_all_fortear], [fortear_tear_all]; in particular on the complete
   tear-down of a tree, [tear_all_complete] (from clause_tear_complete, i.e. C03_tear_complete). *)
From Coq Require Import List PArith ZArith FMapPositive Lia Permutation.
From LibaV Require Import C03.IterDefs C03.IterProofs C03.Clauses.
Import ListNotations.

Fixpoint tear_all (fuel k : nat) (st : tstate) {struct k} : res (list id * tstate) :=
  match tear fuel st with
  | Stuck => Stuck
  | OutOfFuel => OutOfFuel
  | Ok (None, st') => Ok ([], st')
  | Ok (Some x, st') =>
      match k with
      | O => OutOfFuel
      | S k' =>
          match tear_all fuel k' (free_node x st') with
          | Ok (l, st'') => Ok (x :: l, st'')
          | Stuck => Stuck
          | OutOfFuel => OutOfFuel
          end
      end
  end.

(* a complete run of the uninterrupted loop is a run of the interrupted one with any larger bound *)
Lemma tear_all_fortear : forall fuel k st r,
  tear_all fuel k st = Ok r -> forall k2, k < k2 -> fortear fuel k2 st = Ok r.
Proof.
  intros fuel k; induction k as [|k IH]; intros st r H k2 Hk; destruct k2 as [|k2]; try lia;
    cbn [tear_all] in H; cbn [fortear];
    destruct (tear fuel st) as [[[x|] st']| |]; try discriminate; try exact H.
  destruct (tear_all fuel k (free_node x st')) as [[l st'']| |] eqn:E; try discriminate.
  rewrite (IH _ _ E k2) by lia. exact H.
Qed.

(* a run of the interrupted loop that handed out fewer nodes than its bound ended because tear returned null: it is a
   run of the uninterrupted loop for any fuel that covers the handed-out nodes *)
Lemma fortear_tear_all : forall fuel k st l st',
  fortear fuel k st = Ok (l, st') -> length l < k ->
  forall k2, length l <= k2 -> tear_all fuel k2 st = Ok (l, st').
Proof.
  intros fuel k; induction k as [|k IH]; intros st l st' H Hl k2 Hk2; [lia|].
  cbn [fortear] in H. destruct k2 as [|k2]; cbn [tear_all];
    destruct (tear fuel st) as [[[x|] st1]| |]; try discriminate; try exact H;
    destruct (fortear fuel k (free_node x st1)) as [[l1 st2]| |] eqn:E; try discriminate;
    injection H as <- <-; cbn [length] in *; try lia.
  rewrite (IH _ _ _ E) by lia. reflexivity.
Qed.

(* the node tear hands out is still allocated afterwards (tear unlinks it, the caller frees it) *)
Lemma tear_keeps_node : forall fuel st x st',
  tear fuel st = Ok (Some x, st') -> rdh (th st') x <> None.
Proof.
  intros fuel st x st'; unfold tear.
  destruct (match tnext st with Some n => Some n | None => troot st end) as [s|]; [|discriminate].
  destruct (post_descent (rdh (th st)) nl nr fuel s) as [y| |]; try discriminate.
  destruct (rdh (th st) y) as [yn|] eqn:Ey; [|discriminate].
  destruct (np yn) as [p|].
  - destruct (rdh (th st) p) as [pn|] eqn:Ep; [|discriminate].
    intros H; injection H as <- <-; cbn [th]. unfold rdh in *.
    destruct (Pos.eq_dec y p) as [->|Hne].
    + rewrite PositiveMap.gss; discriminate.
    + rewrite PositiveMap.gso by exact Hne. rewrite Ey; discriminate.
  - intros H; injection H as <- <-; cbn [th]. rewrite Ey; discriminate.
Qed.

(* the complete tear-down of a tree, as C03_tear_complete states it, for the uninterrupted loop *)
Lemma tear_all_complete : forall h t fuel k,
  Repr (rdh h) None t -> NoDup (ids t) -> hsub h t -> size t < fuel -> size t <= k ->
  exists st', tear_all fuel k (mkT h (root_id t) None) = Ok (postorder t, st')
    /\ ChildrenFirst (postorder t) t
    /\ NoDup (postorder t) /\ Permutation (postorder t) (ids t)
    /\ troot st' = None /\ tnext st' = None /\ (forall x, rdh (th st') x = None).
Proof.
  intros h t fuel k HR HN HS Hf Hk.
  destruct (clause_tear_complete h t fuel (S k) HR HN HS Hf ltac:(lia)) as (st' & H & rest).
  exists st'; split; [|exact rest].
  apply (fortear_tear_all fuel (S k)); rewrite ?length_post; try lia. exact H.
Qed.
