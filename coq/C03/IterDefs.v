(* C03 - tree iterators and tear-down: executable model.  NO proofs in this file.

   Anchors: /repo/src/avl.c:655-833 and /repo/src/rbt.c:570-746 (textually identical modulo
   names), the foreach / fortear macros of include/a/avl.h and include/a/rbt.h.

   The ten navigation functions (head, tail, next, prev, pre_next, pre_prev, post_head,
   post_tail, post_next, post_prev) and tear are written once, statement for statement after
   the C, over a reader  rd : id -> option node  (the heap: id -> left/right/parent).  Reading
   an id that is not allocated gives [Stuck] (so a read of a freed node is a visible failure,
   never a silent success); loops run on fuel and give [OutOfFuel] when it is exhausted (the
   theorems prove that neither can happen on a tree when fuel > number of nodes).
   The loops of the C are parametrised by the struct field they follow, exactly like the C's
   own A_AVL_POST(head, tail) macro. *)

From Coq Require Import List PArith ZArith FMapPositive Bool.
Import ListNotations.

Definition id := positive.

(* ------------------------------------------------------------------ trees (specification side) *)

Inductive tree : Type :=
| E : tree
| T : tree -> id -> tree -> tree.

Definition root_id (t : tree) : option id :=
  match t with E => None | T _ x _ => Some x end.

Fixpoint size (t : tree) : nat :=
  match t with E => O | T l _ r => S (size l + size r) end.

(* the documented orders, as recursive traversals *)
Fixpoint inorder (t : tree) : list id :=          (* left root right *)
  match t with E => [] | T l x r => inorder l ++ x :: inorder r end.
Fixpoint preorder (t : tree) : list id :=         (* root left right *)
  match t with E => [] | T l x r => x :: preorder l ++ preorder r end.
Fixpoint preorder_rl (t : tree) : list id :=      (* root right left *)
  match t with E => [] | T l x r => x :: preorder_rl r ++ preorder_rl l end.
Fixpoint postorder (t : tree) : list id :=        (* left right root *)
  match t with E => [] | T l x r => postorder l ++ postorder r ++ [x] end.
Fixpoint postorder_rl (t : tree) : list id :=     (* right left root *)
  match t with E => [] | T l x r => postorder_rl r ++ postorder_rl l ++ [x] end.

Definition ids (t : tree) : list id := inorder t.

Fixpoint mirror (t : tree) : tree :=
  match t with E => E | T l x r => T (mirror r) x (mirror l) end.

(* search-tree order of the keys attached to the ids (what C01/C02 establish for reachable trees) *)
Fixpoint Bst (key : id -> Z) (t : tree) : Prop :=
  match t with
  | E => True
  | T l x r =>
      Bst key l /\ Bst key r
      /\ (forall y, In y (ids l) -> (key y < key x)%Z)
      /\ (forall y, In y (ids r) -> (key x < key y)%Z)
  end.

(* ------------------------------------------------------------------ heap *)

Record node : Type := mkNode { nl : option id; nr : option id; np : option id }.

Definition heap := PositiveMap.t node.
Definition rdh (h : heap) (x : id) : option node := PositiveMap.find x h.

(* canonical parent-linked heap of a tree *)
Fixpoint heap_of_aux (p : option id) (t : tree) (h : heap) : heap :=
  match t with
  | E => h
  | T l x r =>
      heap_of_aux (Some x) l
        (heap_of_aux (Some x) r
           (PositiveMap.add x (mkNode (root_id l) (root_id r) p) h))
  end.
Definition heap_of (t : tree) : heap := heap_of_aux None t (PositiveMap.empty node).

(* "the tree t is laid out in rd, its root's parent field being p" *)
Fixpoint Repr (rd : id -> option node) (p : option id) (t : tree) : Prop :=
  match t with
  | E => True
  | T l x r =>
      rd x = Some (mkNode (root_id l) (root_id r) p)
      /\ Repr rd (Some x) l /\ Repr rd (Some x) r
  end.

(* the heap holds nothing but nodes of t *)
Definition hsub (h : heap) (t : tree) : Prop := forall x, rdh h x <> None -> In x (ids t).

(* "z is handed out before x" in the sequence L *)
Definition before (L : list id) (z x : id) : Prop := exists a b, L = a ++ x :: b /\ In z a.

(* in the sequence L every node of t comes after all nodes of its two subtrees *)
Fixpoint ChildrenFirst (L : list id) (t : tree) : Prop :=
  match t with
  | E => True
  | T l x r =>
      (forall z, In z (ids l) \/ In z (ids r) -> before L z x)
      /\ ChildrenFirst L l /\ ChildrenFirst L r
  end.

(* ------------------------------------------------------------------ results *)

Inductive res (A : Type) : Type :=
| Ok : A -> res A
| Stuck : res A          (* read or write of an id that is not allocated *)
| OutOfFuel : res A.
Arguments Ok {A} _.
Arguments Stuck {A}.
Arguments OutOfFuel {A}.

Definition res_map {A B : Type} (f : A -> B) (r : res A) : res B :=
  match r with Ok a => Ok (f a) | Stuck => Stuck | OutOfFuel => OutOfFuel end.

Definition field := node -> option id.

(* pointer comparison  `f == leaf`  where f may be null *)
Definition ptr_is (f : option id) (leaf : id) : bool :=
  match f with Some y => Pos.eqb y leaf | None => false end.

(* ------------------------------------------------------------------ the navigation functions *)

Section Nav.
  Variable rd : id -> option node.

  (*  while (node->F) { node = node->F; }  *)
  Fixpoint walk (F : field) (fuel : nat) (x : id) : res id :=
    match fuel with
    | O => OutOfFuel
    | S k =>
        match rd x with
        | None => Stuck
        | Some n =>
            match F n with
            | Some y => walk F k y
            | None => Ok x
            end
        end
    end.

  (* a_avl_head / a_rbt_head:  node = root->node; if (node) while (node->left) ...; return node *)
  Definition head (fuel : nat) (root : option id) : res (option id) :=
    match root with
    | None => Ok None
    | Some x => res_map Some (walk nl fuel x)
    end.

  (* a_avl_tail / a_rbt_tail *)
  Definition tail (fuel : nat) (root : option id) : res (option id) :=
    match root with
    | None => Ok None
    | Some x => res_map Some (walk nr fuel x)
    end.

  (*  do { leaf = node; node = parent(node); } while (node && node->F != leaf);  (result: node) *)
  Fixpoint climb_io (F : field) (fuel : nat) (x : id) : res (option id) :=
    match fuel with
    | O => OutOfFuel
    | S k =>
        match rd x with
        | None => Stuck
        | Some n =>
            match np n with
            | None => Ok None
            | Some p =>
                match rd p with
                | None => Stuck
                | Some pn =>
                    if ptr_is (F pn) x then Ok (Some p) else climb_io F k p
                end
            end
        end
    end.

  (* a_avl_next / a_rbt_next *)
  Definition next (fuel : nat) (x : id) : res (option id) :=
    match rd x with
    | None => Stuck
    | Some n =>
        match nr n with
        | Some r => res_map Some (walk nl fuel r)      (* node = node->right; while (node->left) ... *)
        | None => climb_io nl fuel x
        end
    end.

  (* a_avl_prev / a_rbt_prev *)
  Definition prev (fuel : nat) (x : id) : res (option id) :=
    match rd x with
    | None => Stuck
    | Some n =>
        match nl n with
        | Some l => res_map Some (walk nr fuel l)
        | None => climb_io nr fuel x
        end
    end.

  (*  for (leaf = node, node = parent(node); node; leaf = node, node = parent(node))
        if (node->F && node->F != leaf) { node = node->F; break; }
      (result: node)  *)
  Fixpoint climb_pre (F : field) (fuel : nat) (leaf : id) : res (option id) :=
    match fuel with
    | O => OutOfFuel
    | S k =>
        match rd leaf with
        | None => Stuck
        | Some ln =>
            match np ln with
            | None => Ok None
            | Some p =>
                match rd p with
                | None => Stuck
                | Some pn =>
                    match F pn with
                    | Some c => if Pos.eqb c leaf then climb_pre F k p else Ok (Some c)
                    | None => climb_pre F k p
                    end
                end
            end
        end
    end.

  (* a_avl_pre_next / a_rbt_pre_next *)
  Definition pre_next (fuel : nat) (x : id) : res (option id) :=
    match rd x with
    | None => Stuck
    | Some n =>
        match nl n with
        | Some l => Ok (Some l)
        | None =>
            match nr n with
            | Some r => Ok (Some r)
            | None => climb_pre nr fuel x
            end
        end
    end.

  (* a_avl_pre_prev / a_rbt_pre_prev *)
  Definition pre_prev (fuel : nat) (x : id) : res (option id) :=
    match rd x with
    | None => Stuck
    | Some n =>
        match nr n with
        | Some r => Ok (Some r)
        | None =>
            match nl n with
            | Some l => Ok (Some l)
            | None => climb_pre nl fuel x
            end
        end
    end.

  (*  A_AVL_POST(head, tail):
      for (;;) { if (node->head) node = node->head; else if (node->tail) node = node->tail; else break; } *)
  Fixpoint post_descent (H Tl : field) (fuel : nat) (x : id) : res id :=
    match fuel with
    | O => OutOfFuel
    | S k =>
        match rd x with
        | None => Stuck
        | Some n =>
            match H n with
            | Some y => post_descent H Tl k y
            | None =>
                match Tl n with
                | Some y => post_descent H Tl k y
                | None => Ok x
                end
            end
        end
    end.

  (* a_avl_post_head / a_rbt_post_head *)
  Definition post_head (fuel : nat) (root : option id) : res (option id) :=
    match root with
    | None => Ok None
    | Some x => res_map Some (post_descent nl nr fuel x)
    end.

  (* a_avl_post_tail / a_rbt_post_tail *)
  Definition post_tail (fuel : nat) (root : option id) : res (option id) :=
    match root with
    | None => Ok None
    | Some x => res_map Some (post_descent nr nl fuel x)
    end.

  (* a_avl_post_next:  leaf = node; node = parent(node);
     if (node && node->right && node->right != leaf) { node = node->right; POST(left,right); } return node; *)
  Definition post_next (fuel : nat) (x : id) : res (option id) :=
    match rd x with
    | None => Stuck
    | Some n =>
        match np n with
        | None => Ok None
        | Some p =>
            match rd p with
            | None => Stuck
            | Some pn =>
                match nr pn with
                | Some c => if Pos.eqb c x then Ok (Some p)
                            else res_map Some (post_descent nl nr fuel c)
                | None => Ok (Some p)
                end
            end
        end
    end.

  (* a_avl_post_prev *)
  Definition post_prev (fuel : nat) (x : id) : res (option id) :=
    match rd x with
    | None => Stuck
    | Some n =>
        match np n with
        | None => Ok None
        | Some p =>
            match rd p with
            | None => Stuck
            | Some pn =>
                match nl pn with
                | Some c => if Pos.eqb c x then Ok (Some p)
                            else res_map Some (post_descent nr nl fuel c)
                | None => Ok (Some p)
                end
            end
        end
    end.

  (*  for (cur = <first>; cur; cur = step(cur)) yield cur;   -- the foreach protocol  *)
  Fixpoint iterate (step : id -> res (option id)) (fuel : nat) (cur : option id) : res (list id) :=
    match cur with
    | None => Ok []
    | Some x =>
        match fuel with
        | O => OutOfFuel
        | S k =>
            match step x with
            | Ok nx => res_map (cons x) (iterate step k nx)
            | Stuck => Stuck
            | OutOfFuel => OutOfFuel
            end
        end
    end.

  Definition bind_iter (first : res (option id)) (step : id -> res (option id)) (fuel : nat)
    : res (list id) :=
    match first with
    | Ok c => iterate step fuel c
    | Stuck => Stuck
    | OutOfFuel => OutOfFuel
    end.

  (* the eight foreach macros (upper and lower case forms expand to the same loop) *)
  Definition foreach (fuel : nat) (root : option id) : res (list id) :=
    bind_iter (head fuel root) (next fuel) fuel.
  Definition foreach_reverse (fuel : nat) (root : option id) : res (list id) :=
    bind_iter (tail fuel root) (prev fuel) fuel.
  Definition pre_foreach (fuel : nat) (root : option id) : res (list id) :=
    bind_iter (Ok root) (pre_next fuel) fuel.
  Definition pre_foreach_reverse (fuel : nat) (root : option id) : res (list id) :=
    bind_iter (Ok root) (pre_prev fuel) fuel.
  Definition post_foreach (fuel : nat) (root : option id) : res (list id) :=
    bind_iter (post_head fuel root) (post_next fuel) fuel.
  Definition post_foreach_reverse (fuel : nat) (root : option id) : res (list id) :=
    bind_iter (post_tail fuel root) (post_prev fuel) fuel.
End Nav.

(* ------------------------------------------------------------------ tear *)

(* the state a fortear loop works on: the heap, root->node and the caller's `next` variable *)
Record tstate : Type := mkT { th : heap; troot : option id; tnext : option id }.

(* a_avl_tear / a_rbt_tear:
     node = *next; if (!node) { node = root->node; if (!node) return node; }
     POST(left, right);
     *next = parent(node);
     new_child(root, *next, node, NULL);     -- if (parent) { if (parent->left == node) parent->left = NULL;
                                                              else parent->right = NULL; } else root->node = NULL;
     return node;                                                                                      *)
Definition tear (fuel : nat) (st : tstate) : res (option id * tstate) :=
  let h := th st in
  match (match tnext st with Some n => Some n | None => troot st end) with
  | None => Ok (None, st)
  | Some start =>
      match post_descent (rdh h) nl nr fuel start with
      | Stuck => Stuck
      | OutOfFuel => OutOfFuel
      | Ok x =>
          match rdh h x with
          | None => Stuck
          | Some xn =>
              match np xn with
              | Some p =>
                  match rdh h p with
                  | None => Stuck
                  | Some pn =>
                      let pn' := if ptr_is (nl pn) x
                                 then mkNode None (nr pn) (np pn)
                                 else mkNode (nl pn) None (np pn) in
                      Ok (Some x, mkT (PositiveMap.add p pn' h) (troot st) (Some p))
                  end
              | None => Ok (Some x, mkT h None None)
              end
          end
      end
  end.

(* the caller's loop body: free(cur) *)
Definition free_node (x : id) (st : tstate) : tstate :=
  mkT (PositiveMap.remove x (th st)) (troot st) (tnext st).

(*  for (cur = tear(root,&next); cur; cur = tear(root,&next)) { yield cur; free(cur); }
    interrupted after at most k yielded nodes  *)
Fixpoint fortear (fuel : nat) (k : nat) (st : tstate) : res (list id * tstate) :=
  match k with
  | O => Ok ([], st)
  | S k' =>
      match tear fuel st with
      | Stuck => Stuck
      | OutOfFuel => OutOfFuel
      | Ok (None, st') => Ok ([], st')
      | Ok (Some x, st') =>
          match fortear fuel k' (free_node x st') with
          | Ok (l, st'') => Ok (x :: l, st'')
          | Stuck => Stuck
          | OutOfFuel => OutOfFuel
          end
      end
  end.

(* ------------------------------------------------------------------ helpers for the drivers *)

(* executable well-formedness check of a dumped heap: rebuild the tree and decide Repr *)
Fixpoint tree_of (rd : id -> option node) (fuel : nat) (x : option id) : tree :=
  match x with
  | None => E
  | Some x =>
      match fuel with
      | O => E
      | S k =>
          match rd x with
          | None => E
          | Some n => T (tree_of rd k (nl n)) x (tree_of rd k (nr n))
          end
      end
  end.

Definition oid_eqb (a b : option id) : bool :=
  match a, b with
  | Some x, Some y => Pos.eqb x y
  | None, None => true
  | _, _ => false
  end.

Fixpoint reprb (rd : id -> option node) (p : option id) (t : tree) : bool :=
  match t with
  | E => true
  | T l x r =>
      match rd x with
      | None => false
      | Some n => oid_eqb (nl n) (root_id l) && oid_eqb (nr n) (root_id r) && oid_eqb (np n) p
                  && reprb rd (Some x) l && reprb rd (Some x) r
      end
  end.

Fixpoint memb (x : id) (l : list id) : bool :=
  match l with [] => false | y :: l' => Pos.eqb x y || memb x l' end.
Fixpoint nodupb (l : list id) : bool :=
  match l with [] => true | x :: l' => negb (memb x l') && nodupb l' end.

(* true iff the heap h, entered at root, is a parent-linked binary tree with distinct ids that
   contains every allocated node (n = number of allocated nodes, supplied by the driver) *)
Definition wf_heap (h : heap) (root : option id) (n : nat) : bool :=
  let t := tree_of (rdh h) (S n) root in
  oid_eqb (root_id t) root && reprb (rdh h) None t && nodupb (ids t) && Nat.eqb (size t) n
  && Nat.eqb (PositiveMap.cardinal h) n.

Definition heap_add (x : id) (l r p : option id) (h : heap) : heap :=
  PositiveMap.add x (mkNode l r p) h.
Definition heap_empty : heap := PositiveMap.empty node.
Definition heap_elements (h : heap) : list (id * node) := PositiveMap.elements h.
