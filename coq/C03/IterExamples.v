(* C03 - non-vacuity: concrete states satisfying the hypotheses of the theorems, concrete runs of the
   model, and the two ways the model FAILS visibly (dangling pointer, read after free). *)

From Coq Require Import List PArith ZArith Arith Bool FMapPositive Sorted.
From LibaV Require Import C03.IterDefs C03.IterProofs C03.TearProofs C03.HeapProofs.
Import ListNotations.
Local Open Scope positive_scope.

(* a 9-node tree, ids deliberately unrelated to any traversal order, with one-child nodes on both
   sides (the cases the climbing loops distinguish):
               5
            /     \
           9       2
          / \     /
         4   7   8
          \     / \
           1   6   3          *)
Definition t9 : tree :=
  T (T (T E 4 (T E 1 E)) 9 (T E 7 E)) 5 (T (T (T E 6 E) 8 (T E 3 E)) 2 E).

Example t9_nodup : NoDup (ids t9).
Proof. apply nodupb_sound. vm_compute. reflexivity. Qed.

Example t9_repr : Repr (rdh (heap_of t9)) None t9 /\ hsub (heap_of t9) t9.
Proof. split; [apply heap_of_repr; exact t9_nodup|apply heap_of_sub]. Qed.

Example t9_fuel : (size t9 < 10)%nat.
Proof. vm_compute. repeat constructor. Qed.

Example t9_wf : wf_heap (heap_of t9) (Some 5) 9 = true.
Proof. vm_compute. reflexivity. Qed.

Definition key9 (x : id) : Z :=
  match x with
  | 4 => 10%Z | 1 => 20%Z | 9 => 30%Z | 7 => 40%Z | 5 => 50%Z
  | 6 => 60%Z | 8 => 70%Z | 3 => 80%Z | 2 => 90%Z | _ => 0%Z
  end.

Example t9_bst : Bst key9 t9.
Proof.
  unfold t9; simpl; repeat split; try exact I;
    intros y Hy; simpl in Hy;
    repeat (destruct Hy as [Hy|Hy]; [subst y; vm_compute; reflexivity|]); contradiction.
Qed.

(* the model, run *)
Example run_in : foreach (rdh (heap_of t9)) 10 (Some 5) = Ok [4; 1; 9; 7; 5; 6; 8; 3; 2].
Proof. vm_compute. reflexivity. Qed.
Example run_inr : foreach_reverse (rdh (heap_of t9)) 10 (Some 5) = Ok [2; 3; 8; 6; 5; 7; 9; 1; 4].
Proof. vm_compute. reflexivity. Qed.
Example run_pre : pre_foreach (rdh (heap_of t9)) 10 (Some 5) = Ok [5; 9; 4; 1; 7; 2; 8; 6; 3].
Proof. vm_compute. reflexivity. Qed.
Example run_prer : pre_foreach_reverse (rdh (heap_of t9)) 10 (Some 5) = Ok [5; 2; 8; 3; 6; 9; 7; 4; 1].
Proof. vm_compute. reflexivity. Qed.
Example run_post : post_foreach (rdh (heap_of t9)) 10 (Some 5) = Ok [1; 4; 7; 9; 6; 3; 8; 2; 5].
Proof. vm_compute. reflexivity. Qed.
Example run_postr : post_foreach_reverse (rdh (heap_of t9)) 10 (Some 5) = Ok [3; 6; 8; 2; 7; 1; 4; 9; 5].
Proof. vm_compute. reflexivity. Qed.

Example run_next_prev :
  next (rdh (heap_of t9)) 10 7 = Ok (Some 5) /\ prev (rdh (heap_of t9)) 10 5 = Ok (Some 7)
  /\ next (rdh (heap_of t9)) 10 2 = Ok None /\ prev (rdh (heap_of t9)) 10 4 = Ok None.
Proof. vm_compute. repeat split; reflexivity. Qed.

Example run_from_7 : iterate (next (rdh (heap_of t9)) 10) 10 (Some 7) = Ok [7; 5; 6; 8; 3; 2].
Proof. vm_compute. reflexivity. Qed.

(* tear-down, interrupted after 4 nodes: the saved next is 9, the remainder is a tree again *)
Definition st9 : tstate := mkT (heap_of t9) (Some 5) None.

Example run_tear4 :
  match fortear 10 4 st9 with
  | Ok (l, st) => l = [1; 4; 7; 9] /\ troot st = Some 5 /\ tnext st = Some 5
                  /\ wf_heap (th st) (troot st) 5 = true
                  /\ foreach (rdh (th st)) 6 (troot st) = Ok [5; 6; 8; 3; 2]
                  /\ match fortear 10 6 st with
                     | Ok (l2, st2) => l2 = [6; 3; 8; 2; 5] /\ troot st2 = None
                                       /\ PositiveMap.is_empty (th st2) = true
                     | _ => False
                     end
  | _ => False
  end.
Proof. vm_compute. repeat split; reflexivity. Qed.

Example run_tear_all :
  match fortear 10 10 st9 with
  | Ok (l, st) => l = postorder t9 /\ troot st = None /\ tnext st = None
                  /\ PositiveMap.is_empty (th st) = true
  | _ => False
  end.
Proof. vm_compute. repeat split; reflexivity. Qed.

(* the totalised reads do NOT make the theorems true for the wrong reason: *)
(* 1. a dangling child pointer is Stuck *)
Example dangling_is_stuck :
  foreach (rdh (heap_add 1 (Some 2) None None heap_empty)) 5 (Some 1) = Stuck.
Proof. vm_compute. reflexivity. Qed.

(* 2. stepping from a node that tear has handed out (and the caller freed) is Stuck *)
Example use_after_free_is_stuck :
  match fortear 10 1 st9 with
  | Ok ([x], st) => x = 1 /\ post_next (rdh (th st)) 10 x = Stuck /\ next (rdh (th st)) 10 x = Stuck
  | _ => False
  end.
Proof. vm_compute. repeat split; reflexivity. Qed.

(* 3. a cyclic "tree" runs out of fuel instead of looping or succeeding *)
Example cycle_is_out_of_fuel :
  foreach (rdh (heap_add 1 (Some 2) None (Some 2) (heap_add 2 (Some 1) None (Some 1) heap_empty))) 7 (Some 1)
  = OutOfFuel.
Proof. vm_compute. reflexivity. Qed.

(* 4. a heap whose parent link is wrong is rejected by wf_heap (and is not a Repr of any tree) *)
Example bad_parent_not_wf :
  wf_heap (heap_add 1 (Some 2) None None (heap_add 2 None None None heap_empty)) (Some 1) 2 = false.
Proof. vm_compute. reflexivity. Qed.
