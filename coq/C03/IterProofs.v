(* C03 - proofs about the iterator / tear model of IterDefs.v.

   Method: a position in a tree is a zipper (context c = list of frames, innermost first, and the
   subtree s in focus; the whole tree is [plug c s]).  Each traversal list of [plug c s] splits as
   before(c) ++ traversal(s) ++ after(c).  Descending loops are inductions on the focused subtree,
   climbing loops are inductions on the context.  Each single-step function is shown to return the
   head of "what comes after x" in the traversal; iteration then follows from one generic lemma.
   The mirrored functions (prev, pre_prev, post_prev, tail, post_tail) are the un-mirrored ones run
   on the mirrored reader, and the mirrored tree is represented by the mirrored reader. *)

From Coq Require Import List PArith Arith Lia Bool FMapPositive Permutation.
From LibaV Require Import C03.IterDefs.
Import ListNotations.

Local Open Scope nat_scope.

(* ------------------------------------------------------------------ lists *)

Lemma nodup_app : forall (A : Type) (a b : list A),
  NoDup (a ++ b) <-> NoDup a /\ NoDup b /\ (forall x, In x a -> In x b -> False).
Proof.
  induction a as [|h a IH]; intros b; simpl.
  - split.
    + intros H. split; [constructor|]. split; [assumption|]. intros x [].
    + intros [_ [H _]]. assumption.
  - split.
    + intros H. inversion H as [|? ? Hn Hd]; subst.
      apply IH in Hd. destruct Hd as [Ha [Hb Hab]].
      split.
      * constructor; [|assumption]. intros Hi. apply Hn. apply in_or_app. left. assumption.
      * split; [assumption|]. intros x [Hx|Hx] Hxb.
        -- subst. apply Hn. apply in_or_app. right. assumption.
        -- eapply Hab; eassumption.
    + intros [Ha [Hb Hab]]. inversion Ha as [|? ? Hn Hd]; subst.
      constructor.
      * intros Hi. apply in_app_or in Hi. destruct Hi as [Hi|Hi]; [apply Hn; assumption|].
        eapply Hab; [left; reflexivity|eassumption].
      * apply IH. split; [assumption|]. split; [assumption|].
        intros x Hx Hxb. eapply Hab; [right; eassumption|eassumption].
Qed.

Lemma split_unique : forall (A : Type) (x : A) (a b a' b' : list A),
  NoDup (a ++ x :: b) -> a ++ x :: b = a' ++ x :: b' -> a = a' /\ b = b'.
Proof.
  induction a as [|h a IH]; intros b a' b' Hnd Heq.
  - destruct a' as [|h' a'].
    + simpl in Heq. inversion Heq. split; reflexivity.
    + simpl in Heq. inversion Heq; subst. exfalso.
      simpl in Hnd. inversion Hnd as [|? ? Hn _]; subst. apply Hn.
      apply in_or_app. right. left. reflexivity.
  - destruct a' as [|h' a'].
    + simpl in Heq. inversion Heq; subst. exfalso.
      simpl in Hnd. inversion Hnd as [|? ? Hn _]; subst. apply Hn.
      apply in_or_app. right. left. reflexivity.
    + simpl in Heq. inversion Heq; subst.
      simpl in Hnd. inversion Hnd as [|? ? _ Hd]; subst.
      destruct (IH _ _ _ Hd H1) as [E1 E2]. subst. split; reflexivity.
Qed.

Lemma hd_error_app : forall (A : Type) (a b : list A) (y : A),
  hd_error a = Some y -> hd_error (a ++ b) = Some y.
Proof. intros A [|h a] b y H; simpl in *; [discriminate|assumption]. Qed.

(* ------------------------------------------------------------------ trees and contexts *)

Inductive frame : Type :=
| FL : id -> tree -> frame      (* the focus is the LEFT child of y, whose right subtree is r *)
| FR : tree -> id -> frame.     (* the focus is the RIGHT child of y, whose left subtree is l *)

Definition fill (f : frame) (s : tree) : tree :=
  match f with FL y r => T s y r | FR l y => T l y s end.

Fixpoint plug (c : list frame) (s : tree) : tree :=
  match c with [] => s | f :: c' => plug c' (fill f s) end.

Definition fid (f : frame) : id := match f with FL y _ => y | FR _ y => y end.

(* the parent pointer of the focus *)
Definition cpar (c : list frame) : option id :=
  match c with [] => None | f :: _ => Some (fid f) end.

Fixpoint bef_in (c : list frame) : list id :=
  match c with
  | [] => []
  | FL _ _ :: c' => bef_in c'
  | FR l y :: c' => bef_in c' ++ inorder l ++ [y]
  end.
Fixpoint aft_in (c : list frame) : list id :=
  match c with
  | [] => []
  | FL y r :: c' => y :: inorder r ++ aft_in c'
  | FR _ _ :: c' => aft_in c'
  end.
Fixpoint bef_pre (c : list frame) : list id :=
  match c with
  | [] => []
  | FL y _ :: c' => bef_pre c' ++ [y]
  | FR l y :: c' => bef_pre c' ++ y :: preorder l
  end.
Fixpoint aft_pre (c : list frame) : list id :=
  match c with
  | [] => []
  | FL _ r :: c' => preorder r ++ aft_pre c'
  | FR _ _ :: c' => aft_pre c'
  end.
Fixpoint bef_post (c : list frame) : list id :=
  match c with
  | [] => []
  | FL _ _ :: c' => bef_post c'
  | FR l _ :: c' => bef_post c' ++ postorder l
  end.
Fixpoint aft_post (c : list frame) : list id :=
  match c with
  | [] => []
  | FL y r :: c' => postorder r ++ y :: aft_post c'
  | FR _ y :: c' => y :: aft_post c'
  end.

Lemma plug_app : forall c1 c2 s, plug (c1 ++ c2) s = plug c2 (plug c1 s).
Proof. induction c1 as [|f c1 IH]; intros; simpl; [reflexivity|apply IH]. Qed.

Lemma inorder_plug : forall c s, inorder (plug c s) = bef_in c ++ inorder s ++ aft_in c.
Proof.
  induction c as [|[y r|l y] c IH]; intros s; simpl.
  - rewrite app_nil_r. reflexivity.
  - rewrite IH. simpl. repeat (rewrite <- app_assoc; simpl). reflexivity.
  - rewrite IH. simpl. repeat (rewrite <- app_assoc; simpl). reflexivity.
Qed.

Lemma preorder_plug : forall c s, preorder (plug c s) = bef_pre c ++ preorder s ++ aft_pre c.
Proof.
  induction c as [|[y r|l y] c IH]; intros s; simpl.
  - rewrite app_nil_r. reflexivity.
  - rewrite IH. simpl. repeat (rewrite <- app_assoc; simpl). reflexivity.
  - rewrite IH. simpl. repeat (rewrite <- app_assoc; simpl). reflexivity.
Qed.

Lemma postorder_plug : forall c s, postorder (plug c s) = bef_post c ++ postorder s ++ aft_post c.
Proof.
  induction c as [|[y r|l y] c IH]; intros s; simpl.
  - rewrite app_nil_r. reflexivity.
  - rewrite IH. simpl. repeat (rewrite <- app_assoc; simpl). reflexivity.
  - rewrite IH. simpl. repeat (rewrite <- app_assoc; simpl). reflexivity.
Qed.

Fixpoint csize (c : list frame) : nat :=
  match c with
  | [] => 0
  | FL _ r :: c' => S (size r + csize c')
  | FR l _ :: c' => S (size l + csize c')
  end.

Lemma size_plug : forall c s, size (plug c s) = size s + csize c.
Proof.
  induction c as [|[y r|l y] c IH]; intros s; simpl.
  - lia.
  - rewrite IH. simpl. lia.
  - rewrite IH. simpl. lia.
Qed.

Lemma length_csize : forall c, length c <= csize c.
Proof. induction c as [|[y r|l y] c IH]; simpl; lia. Qed.

Lemma size_length_ids : forall t, length (ids t) = size t.
Proof.
  unfold ids. induction t as [|l IHl x r IHr]; simpl; [reflexivity|].
  rewrite app_length. simpl. lia.
Qed.

Lemma root_in : forall t x, root_id t = Some x -> In x (ids t).
Proof.
  intros [|l y r] x H; simpl in H; [discriminate|]. inversion H; subst.
  unfold ids. simpl. apply in_or_app. right. left. reflexivity.
Qed.

Lemma root_T : forall t x, root_id t = Some x -> exists l r, t = T l x r.
Proof.
  intros [|l y r] x H; simpl in H; [discriminate|]. inversion H; subst. eauto.
Qed.

Lemma in_ids_plug : forall t x, In x (ids t) -> exists c l r, t = plug c (T l x r).
Proof.
  unfold ids. induction t as [|l IHl y r IHr]; intros x H; simpl in H; [contradiction|].
  apply in_app_or in H. destruct H as [H|[H|H]].
  - destruct (IHl _ H) as [c [l' [r' E1]]]. exists (c ++ [FL y r]), l', r'.
    rewrite plug_app. simpl. rewrite <- E1. reflexivity.
  - subst. exists [], l, r. reflexivity.
  - destruct (IHr _ H) as [c [l' [r' E1]]]. exists (c ++ [FR l y]), l', r'.
    rewrite plug_app. simpl. rewrite <- E1. reflexivity.
Qed.

Lemma nodup_T : forall l y r, NoDup (ids (T l y r)) ->
  NoDup (ids l) /\ NoDup (ids r) /\ ~ In y (ids l) /\ ~ In y (ids r)
  /\ (forall z, In z (ids l) -> In z (ids r) -> False).
Proof.
  unfold ids. intros l y r H. simpl in H.
  apply nodup_app in H. destruct H as [Hl [Hyr Hd]].
  inversion Hyr as [|? ? Hn Hr]; subst.
  split; [assumption|]. split; [assumption|]. split.
  - intros Hi. eapply Hd; [eassumption|left; reflexivity].
  - split; [assumption|]. intros z Hzl Hzr. eapply Hd; [eassumption|right; assumption].
Qed.

Lemma nodup_fill : forall f s, NoDup (ids (fill f s)) -> NoDup (ids s).
Proof.
  intros [y r|l y] s H; simpl in H; apply nodup_T in H; tauto.
Qed.

Lemma nodup_plug : forall c s, NoDup (ids (plug c s)) -> NoDup (ids s).
Proof.
  induction c as [|f c IH]; intros s H; simpl in H; [assumption|].
  apply IH in H. eapply nodup_fill; eassumption.
Qed.

(* ------------------------------------------------------------------ representation in a heap *)

Section Reader.
Variable rd : id -> option node.

Lemma repr_plug_inv : forall c s p0, Repr rd p0 (plug c s) ->
  Repr rd (match c with [] => p0 | f :: _ => Some (fid f) end) s.
Proof.
  induction c as [|f c IH]; intros s p0 H; simpl in H; [assumption|].
  apply IH in H. destruct f as [y r|l y]; simpl in H; simpl; tauto.
Qed.

Lemma repr_frame : forall f c s p0, Repr rd p0 (plug (f :: c) s) ->
  Repr rd (match c with [] => p0 | g :: _ => Some (fid g) end) (fill f s).
Proof. intros f c s p0 H. simpl in H. apply repr_plug_inv in H. assumption. Qed.

Lemma repr_ext : forall (rd' : id -> option node) t p,
  (forall x, In x (ids t) -> rd' x = rd x) -> Repr rd p t -> Repr rd' p t.
Proof.
  unfold ids. induction t as [|l IHl y r IHr]; intros p Hx H; simpl in *; [exact I|].
  destruct H as [Hy [Hl Hr]]. split.
  - rewrite Hx; [assumption|]. apply in_or_app. right. left. reflexivity.
  - split.
    + apply IHl; [|assumption]. intros x Hi. apply Hx. apply in_or_app. left. assumption.
    + apply IHr; [|assumption]. intros x Hi. apply Hx. apply in_or_app. right. right. assumption.
Qed.

(* ---------------------------------------------------------------- descending loops *)

Lemma walk_nl : forall t p x fuel,
  Repr rd p t -> root_id t = Some x -> size t <= fuel ->
  exists y, walk rd nl fuel x = Ok y /\ hd_error (inorder t) = Some y.
Proof.
  induction t as [|l IHl y r _]; intros p x fuel HR Hroot Hf; simpl in Hroot; [discriminate|].
  inversion Hroot; subst. simpl in HR. destruct HR as [Hx [Hl _]].
  simpl in Hf. destruct fuel as [|k]; [lia|]. simpl. rewrite Hx. simpl.
  destruct l as [|ll z lr].
  - simpl. exists x. split; reflexivity.
  - simpl root_id. destruct (IHl (Some x) z k Hl eq_refl) as [w [Hw Hh]]; [simpl in *; lia|].
    exists w. split; [assumption|]. apply hd_error_app. assumption.
Qed.

(* the A_*_POST(left, right) descent ends on the first node of the post-order, which is a leaf
   reached through a context with nothing before it *)
Lemma post_descent_pos : forall t p x fuel,
  Repr rd p t -> root_id t = Some x -> size t <= fuel ->
  exists c y, t = plug c (T E y E) /\ bef_post c = []
              /\ post_descent rd nl nr fuel x = Ok y.
Proof.
  induction t as [|l IHl y r IHr]; intros p x fuel HR Hroot Hf; simpl in Hroot; [discriminate|].
  inversion Hroot; subst. simpl in HR. destruct HR as [Hx [Hl Hr]].
  simpl in Hf. destruct fuel as [|k]; [lia|]. simpl. rewrite Hx. simpl.
  destruct l as [|ll z lr].
  - destruct r as [|rl z rr].
    + simpl. exists [], x. repeat split; reflexivity.
    + simpl root_id. destruct (IHr (Some x) z k Hr eq_refl) as [c [w [E1 [E2 E3]]]]; [simpl in *; lia|].
      exists (c ++ [FR E x]), w. split.
      * rewrite plug_app. simpl. rewrite <- E1. reflexivity.
      * split; [|assumption].
        clear - E2. induction c as [|[a b|a b] c IH]; simpl in *.
        -- reflexivity.
        -- apply IH. assumption.
        -- apply app_eq_nil in E2. destruct E2 as [E2 E3]. rewrite (IH E2). assumption.
  - simpl root_id. destruct (IHl (Some x) z k Hl eq_refl) as [c [w [E1 [E2 E3]]]]; [simpl in *; lia|].
    exists (c ++ [FL x r]), w. split.
    + rewrite plug_app. simpl. rewrite <- E1. reflexivity.
    + split; [|assumption].
      clear - E2. induction c as [|[a b|a b] c IH]; simpl in *.
      * reflexivity.
      * apply IH. assumption.
      * apply app_eq_nil in E2. destruct E2 as [E2 E3]. rewrite (IH E2). assumption.
Qed.

Lemma post_descent_hd : forall t p x fuel,
  Repr rd p t -> root_id t = Some x -> size t <= fuel ->
  exists y, post_descent rd nl nr fuel x = Ok y /\ hd_error (postorder t) = Some y.
Proof.
  intros t p x fuel HR Hroot Hf.
  destruct (post_descent_pos t p x fuel HR Hroot Hf) as [c [y [E1 [E2 E3]]]].
  exists y. split; [assumption|]. rewrite E1, postorder_plug, E2. reflexivity.
Qed.

End Reader.

(* ------------------------------------------------------------------ climbing loops, single steps *)

Section Steps.
Variable rd : id -> option node.

Lemma ptr_is_same : forall x, ptr_is (Some x) x = true.
Proof. intros x. simpl. apply Pos.eqb_refl. Qed.

Lemma ptr_is_root_other : forall l y s x,
  NoDup (ids (T l y s)) -> root_id s = Some x -> ptr_is (root_id l) x = false.
Proof.
  intros l y s x Hnd Hs. apply nodup_T in Hnd. destruct Hnd as [_ [_ [_ [_ Hd]]]].
  destruct l as [|ll z lr]; simpl; [reflexivity|].
  apply Pos.eqb_neq. intros E1. subst z. eapply Hd.
  - apply (root_in (T ll x lr)). reflexivity.
  - apply root_in. assumption.
Qed.

Lemma eqb_root_other : forall s y r x z,
  NoDup (ids (T s y r)) -> root_id s = Some x -> root_id r = Some z -> Pos.eqb z x = false.
Proof.
  intros s y r x z Hnd Hs Hr. apply nodup_T in Hnd. destruct Hnd as [_ [_ [_ [_ Hd]]]].
  apply Pos.eqb_neq. intros E1. subst z. eapply Hd; apply root_in; eassumption.
Qed.

(* in-order climb: skip the frames entered from the right, stop at the first one entered from the left *)
Lemma climb_io_nl : forall c s x fuel,
  Repr rd None (plug c s) -> NoDup (ids (plug c s)) -> root_id s = Some x -> length c < fuel ->
  climb_io rd nl fuel x = Ok (hd_error (aft_in c)).
Proof.
  induction c as [|f c IH]; intros s x fuel HR Hnd Hroot Hf;
    (destruct fuel as [|k]; [simpl in Hf; lia|]);
    destruct (root_T _ _ Hroot) as [sl [sr Es]]; subst s.
  - simpl in HR. destruct HR as [Hx _]. simpl. rewrite Hx. simpl. reflexivity.
  - pose proof (repr_frame rd _ _ _ _ HR) as HF.
    assert (Hnd2 : NoDup (ids (fill f (T sl x sr)))) by (simpl in Hnd; eapply nodup_plug; eassumption).
    destruct f as [y r|l y]; simpl in HF; destruct HF as [Hy [H1 H2]].
    + (* focus is the left child of y *)
      simpl in H1. destruct H1 as [Hx _].
      simpl. rewrite Hx. simpl. rewrite Hy. simpl. rewrite Pos.eqb_refl. reflexivity.
    + (* focus is the right child of y: keep climbing *)
      simpl in H2. destruct H2 as [Hx _].
      cbn [climb_io]. rewrite Hx. cbn [np]. rewrite Hy. cbn [nl].
      rewrite (ptr_is_root_other l y (T sl x sr) x Hnd2 eq_refl).
      simpl in HR, Hnd. simpl aft_in.
      apply (IH (T l y (T sl x sr)) y k HR Hnd eq_refl). simpl in Hf. lia.
Qed.

Lemma next_pos : forall c l x r fuel,
  Repr rd None (plug c (T l x r)) -> NoDup (ids (plug c (T l x r))) ->
  size (plug c (T l x r)) < fuel ->
  next rd fuel x = Ok (hd_error (inorder r ++ aft_in c)).
Proof.
  intros c l x r fuel HR Hnd Hf.
  pose proof (repr_plug_inv rd _ _ _ HR) as HS. simpl in HS. destruct HS as [Hx [_ Hr]].
  rewrite size_plug in Hf. simpl in Hf.
  unfold next. rewrite Hx. cbn [nr].
  destruct r as [|rl z rr].
  - simpl root_id. cbn iota. simpl app.
    apply (climb_io_nl c (T l x E) x fuel HR Hnd eq_refl).
    pose proof (length_csize c). lia.
  - simpl root_id. cbn iota.
    destruct (walk_nl rd (T rl z rr) (Some x) z fuel Hr eq_refl) as [w [Hw Hh]]; [simpl in *; lia|].
    rewrite Hw. simpl res_map. rewrite (hd_error_app _ _ _ _ Hh). reflexivity.
Qed.

(* pre-order climb: the first frame entered from the left whose right sibling exists *)
Lemma climb_pre_nr : forall c s x fuel,
  Repr rd None (plug c s) -> NoDup (ids (plug c s)) -> root_id s = Some x -> length c < fuel ->
  climb_pre rd nr fuel x = Ok (hd_error (aft_pre c)).
Proof.
  induction c as [|f c IH]; intros s x fuel HR Hnd Hroot Hf;
    (destruct fuel as [|k]; [simpl in Hf; lia|]);
    destruct (root_T _ _ Hroot) as [sl [sr Es]]; subst s.
  - simpl in HR. destruct HR as [Hx _]. simpl. rewrite Hx. simpl. reflexivity.
  - pose proof (repr_frame rd _ _ _ _ HR) as HF.
    assert (Hnd2 : NoDup (ids (fill f (T sl x sr)))) by (simpl in Hnd; eapply nodup_plug; eassumption).
    destruct f as [y r|l y]; simpl in HF; destruct HF as [Hy [H1 H2]].
    + simpl in H1. destruct H1 as [Hx _].
      cbn [climb_pre]. rewrite Hx. cbn [np]. rewrite Hy. cbn [nr].
      destruct r as [|rl z rr].
      * simpl root_id. cbn iota. simpl in HR, Hnd. simpl aft_pre.
        apply (IH (T (T sl x sr) y E) y k HR Hnd eq_refl). simpl in Hf. lia.
      * simpl root_id. cbn iota.
        rewrite (eqb_root_other (T sl x sr) y (T rl z rr) x z Hnd2 eq_refl eq_refl).
        reflexivity.
    + simpl in H2. destruct H2 as [Hx _].
      cbn [climb_pre]. rewrite Hx. cbn [np]. rewrite Hy. cbn [nr]. simpl root_id. cbn iota.
      rewrite Pos.eqb_refl. simpl in HR, Hnd. simpl aft_pre.
      apply (IH (T l y (T sl x sr)) y k HR Hnd eq_refl). simpl in Hf. lia.
Qed.

Lemma pre_next_pos : forall c l x r fuel,
  Repr rd None (plug c (T l x r)) -> NoDup (ids (plug c (T l x r))) ->
  size (plug c (T l x r)) < fuel ->
  pre_next rd fuel x = Ok (hd_error (preorder l ++ preorder r ++ aft_pre c)).
Proof.
  intros c l x r fuel HR Hnd Hf.
  pose proof (repr_plug_inv rd _ _ _ HR) as HS. simpl in HS. destruct HS as [Hx _].
  rewrite size_plug in Hf. simpl in Hf.
  unfold pre_next. rewrite Hx. cbn [nl nr].
  destruct l as [|ll z lr]; [|reflexivity].
  destruct r as [|rl z rr]; [|reflexivity].
  simpl root_id. cbn iota. simpl app.
  apply (climb_pre_nr c (T E x E) x fuel HR Hnd eq_refl).
  pose proof (length_csize c). lia.
Qed.

Lemma post_next_pos : forall c s x fuel,
  Repr rd None (plug c s) -> NoDup (ids (plug c s)) -> root_id s = Some x ->
  size (plug c s) < fuel ->
  post_next rd fuel x = Ok (hd_error (aft_post c)).
Proof.
  intros c s x fuel HR Hnd Hroot Hf.
  destruct (root_T _ _ Hroot) as [sl [sr Es]]; subst s.
  destruct c as [|f c].
  - simpl in HR. destruct HR as [Hx _]. unfold post_next. rewrite Hx. reflexivity.
  - pose proof (repr_frame rd _ _ _ _ HR) as HF.
    assert (Hnd2 : NoDup (ids (fill f (T sl x sr)))) by (simpl in Hnd; eapply nodup_plug; eassumption).
    simpl plug in Hf. rewrite size_plug in Hf.
    destruct f as [y r|l y]; simpl in HF; destruct HF as [Hy [H1 H2]].
    + simpl in H1. destruct H1 as [Hx _].
      unfold post_next. rewrite Hx. cbn [np]. rewrite Hy. cbn [nr].
      destruct r as [|rl z rr].
      * reflexivity.
      * simpl root_id. cbn iota.
        rewrite (eqb_root_other (T sl x sr) y (T rl z rr) x z Hnd2 eq_refl eq_refl).
        destruct (post_descent_hd rd (T rl z rr) (Some y) z fuel H2 eq_refl) as [w [Hw Hh]];
          [simpl in *; lia|].
        rewrite Hw. simpl res_map. simpl aft_post. rewrite (hd_error_app _ _ _ _ Hh). reflexivity.
    + simpl in H2. destruct H2 as [Hx _].
      unfold post_next. rewrite Hx. cbn [np]. rewrite Hy. cbn [nr]. simpl root_id. cbn iota.
      rewrite Pos.eqb_refl. reflexivity.
Qed.

(* first elements *)
Lemma head_first : forall t fuel, Repr rd None t -> size t < fuel ->
  head rd fuel (root_id t) = Ok (hd_error (inorder t)).
Proof.
  intros [|l x r] fuel HR Hf; [reflexivity|]. simpl root_id. unfold head.
  destruct (walk_nl rd (T l x r) None x fuel HR eq_refl) as [w [Hw Hh]]; [lia|].
  rewrite Hw, Hh. reflexivity.
Qed.

Lemma post_head_first : forall t fuel, Repr rd None t -> size t < fuel ->
  post_head rd fuel (root_id t) = Ok (hd_error (postorder t)).
Proof.
  intros [|l x r] fuel HR Hf; [reflexivity|]. simpl root_id. unfold post_head.
  destruct (post_descent_hd rd (T l x r) None x fuel HR eq_refl) as [w [Hw Hh]]; [lia|].
  rewrite Hw, Hh. reflexivity.
Qed.

End Steps.

(* ------------------------------------------------------------------ traversal lists *)

Lemma perm_pre : forall t, Permutation (preorder t) (inorder t).
Proof.
  induction t as [|l IHl x r IHr]; simpl; [constructor|].
  apply Permutation_cons_app. apply Permutation_app; assumption.
Qed.

Lemma perm_post : forall t, Permutation (postorder t) (inorder t).
Proof.
  induction t as [|l IHl x r IHr]; simpl; [constructor|].
  apply Permutation_app; [assumption|].
  eapply Permutation_trans; [apply Permutation_sym, Permutation_cons_append|].
  constructor. assumption.
Qed.

Lemma nodup_pre : forall t, NoDup (ids t) -> NoDup (preorder t).
Proof. intros t H. eapply Permutation_NoDup; [apply Permutation_sym, perm_pre|exact H]. Qed.

Lemma nodup_post : forall t, NoDup (ids t) -> NoDup (postorder t).
Proof. intros t H. eapply Permutation_NoDup; [apply Permutation_sym, perm_post|exact H]. Qed.

Lemma length_pre : forall t, length (preorder t) = size t.
Proof. intros t. rewrite (Permutation_length (perm_pre t)). apply size_length_ids. Qed.

Lemma length_post : forall t, length (postorder t) = size t.
Proof. intros t. rewrite (Permutation_length (perm_post t)). apply size_length_ids. Qed.

Lemma in_pre_ids : forall t x, In x (preorder t) -> In x (ids t).
Proof. intros t x H. eapply Permutation_in; [apply perm_pre|exact H]. Qed.

Lemma in_post_ids : forall t x, In x (postorder t) -> In x (ids t).
Proof. intros t x H. eapply Permutation_in; [apply perm_post|exact H]. Qed.

Lemma in_middle : forall (A : Type) (a b : list A) (x : A), In x (a ++ x :: b).
Proof. intros. apply in_or_app. right. left. reflexivity. Qed.

(* ------------------------------------------------------------------ every step returns the successor *)

Section Succ.
Variable rd : id -> option node.
Variable t : tree.
Variable fuel : nat.
Hypothesis HR : Repr rd None t.
Hypothesis Hnd : NoDup (ids t).
Hypothesis Hf : size t < fuel.

Lemma next_succ : forall pre x post,
  inorder t = pre ++ x :: post -> next rd fuel x = Ok (hd_error post).
Proof.
  intros pre x post E0.
  assert (Hin : In x (ids t)) by (unfold ids; rewrite E0; apply in_middle).
  destruct (in_ids_plug _ _ Hin) as [c [l [r E1]]].
  rewrite E1 in HR, Hnd, Hf.
  rewrite (next_pos rd c l x r fuel HR Hnd Hf).
  assert (E2 : inorder t = (bef_in c ++ inorder l) ++ x :: (inorder r ++ aft_in c)).
  { rewrite E1, inorder_plug. simpl. repeat (rewrite <- app_assoc; simpl). reflexivity. }
  unfold ids in Hnd. rewrite <- E1 in Hnd. rewrite E2 in Hnd. rewrite E2 in E0.
  destruct (split_unique _ _ _ _ _ _ Hnd E0) as [_ E3]. rewrite E3. reflexivity.
Qed.

Lemma pre_next_succ : forall pre x post,
  preorder t = pre ++ x :: post -> pre_next rd fuel x = Ok (hd_error post).
Proof.
  intros pre x post E0.
  assert (Hin : In x (ids t)) by (apply in_pre_ids; rewrite E0; apply in_middle).
  destruct (in_ids_plug _ _ Hin) as [c [l [r E1]]].
  pose proof (nodup_pre _ Hnd) as Hnp.
  rewrite E1 in HR, Hnd, Hf.
  rewrite (pre_next_pos rd c l x r fuel HR Hnd Hf).
  assert (E2 : preorder t = bef_pre c ++ x :: (preorder l ++ preorder r ++ aft_pre c)).
  { rewrite E1, preorder_plug. simpl. repeat (rewrite <- app_assoc; simpl). reflexivity. }
  rewrite E2 in Hnp. rewrite E2 in E0.
  destruct (split_unique _ _ _ _ _ _ Hnp E0) as [_ E3]. rewrite E3. reflexivity.
Qed.

Lemma post_next_succ : forall pre x post,
  postorder t = pre ++ x :: post -> post_next rd fuel x = Ok (hd_error post).
Proof.
  intros pre x post E0.
  assert (Hin : In x (ids t)) by (apply in_post_ids; rewrite E0; apply in_middle).
  destruct (in_ids_plug _ _ Hin) as [c [l [r E1]]].
  pose proof (nodup_post _ Hnd) as Hnp.
  rewrite E1 in HR, Hnd, Hf.
  rewrite (post_next_pos rd c (T l x r) x fuel HR Hnd eq_refl Hf).
  assert (E2 : postorder t = (bef_post c ++ postorder l ++ postorder r) ++ x :: aft_post c).
  { rewrite E1, postorder_plug. simpl. repeat (rewrite <- app_assoc; simpl). reflexivity. }
  rewrite E2 in Hnp. rewrite E2 in E0.
  destruct (split_unique _ _ _ _ _ _ Hnp E0) as [_ E3]. rewrite E3. reflexivity.
Qed.

End Succ.

(* ------------------------------------------------------------------ the foreach protocol *)

Lemma iterate_list : forall (step : id -> res (option id)) (L : list id),
  (forall pre x post, L = pre ++ x :: post -> step x = Ok (hd_error post)) ->
  forall post pre fuel, L = pre ++ post -> length post < fuel ->
  iterate step fuel (hd_error post) = Ok post.
Proof.
  intros step L Hstep. induction post as [|x post IH]; intros pre fuel E0 Hf.
  - destruct fuel; reflexivity.
  - simpl in Hf. destruct fuel as [|k]; [lia|]. simpl.
    rewrite (Hstep pre x post E0).
    rewrite (IH (pre ++ [x]) k); [reflexivity| |lia].
    rewrite <- app_assoc. simpl. assumption.
Qed.

(* ------------------------------------------------------------------ mirror *)

Definition swapn (n : node) : node := mkNode (nr n) (nl n) (np n).
Definition mrd (rd : id -> option node) (x : id) : option node := option_map swapn (rd x).

Lemma inorder_mirror : forall t, inorder (mirror t) = rev (inorder t).
Proof.
  induction t as [|l IHl x r IHr]; simpl; [reflexivity|].
  rewrite rev_app_distr. simpl. rewrite IHl, IHr, <- app_assoc. reflexivity.
Qed.

Lemma preorder_mirror : forall t, preorder (mirror t) = preorder_rl t.
Proof. induction t as [|l IHl x r IHr]; simpl; [reflexivity|]. rewrite IHl, IHr. reflexivity. Qed.

Lemma postorder_mirror : forall t, postorder (mirror t) = postorder_rl t.
Proof. induction t as [|l IHl x r IHr]; simpl; [reflexivity|]. rewrite IHl, IHr. reflexivity. Qed.

Lemma size_mirror : forall t, size (mirror t) = size t.
Proof. induction t as [|l IHl x r IHr]; simpl; [reflexivity|]. lia. Qed.

Lemma root_mirror : forall t, root_id (mirror t) = root_id t.
Proof. intros [|l x r]; reflexivity. Qed.

Lemma nodup_mirror : forall t, NoDup (ids t) -> NoDup (ids (mirror t)).
Proof. unfold ids. intros t H. rewrite inorder_mirror. apply NoDup_rev. assumption. Qed.

Lemma repr_mirror : forall rd t p, Repr rd p t -> Repr (mrd rd) p (mirror t).
Proof.
  induction t as [|l IHl x r IHr]; intros p H; simpl in *; [exact I|].
  destruct H as [Hx [Hl Hr]]. split.
  - unfold mrd. rewrite Hx. simpl. unfold swapn. simpl. rewrite !root_mirror. reflexivity.
  - split; [apply IHr|apply IHl]; assumption.
Qed.

(* the documented mirrored orders really are mirror images *)
Lemma preorder_rl_rev_post : forall t, preorder_rl t = rev (postorder t).
Proof.
  induction t as [|l IHl x r IHr]; simpl; [reflexivity|].
  rewrite !rev_app_distr. simpl. rewrite IHl, IHr. reflexivity.
Qed.

Lemma postorder_rl_rev_pre : forall t, postorder_rl t = rev (preorder t).
Proof.
  induction t as [|l IHl x r IHr]; simpl; [reflexivity|].
  rewrite rev_app_distr. rewrite IHl, IHr. rewrite <- app_assoc. reflexivity.
Qed.

Section MirrorFns.
Variable rd : id -> option node.

Lemma walk_mirror : forall fuel x, walk (mrd rd) nl fuel x = walk rd nr fuel x.
Proof.
  induction fuel as [|k IH]; intros x; simpl; [reflexivity|].
  unfold mrd at 1. destruct (rd x) as [n|]; simpl; [|reflexivity].
  destruct (nr n); [apply IH|reflexivity].
Qed.

Lemma climb_io_mirror : forall fuel x, climb_io (mrd rd) nl fuel x = climb_io rd nr fuel x.
Proof.
  induction fuel as [|k IH]; intros x; simpl; [reflexivity|].
  unfold mrd at 1. destruct (rd x) as [n|]; simpl; [|reflexivity].
  destruct (np n) as [p|]; [|reflexivity].
  unfold mrd at 1. destruct (rd p) as [pn|]; simpl; [|reflexivity].
  destruct (ptr_is (nr pn) x); [reflexivity|apply IH].
Qed.

Lemma climb_pre_mirror : forall fuel x, climb_pre (mrd rd) nr fuel x = climb_pre rd nl fuel x.
Proof.
  induction fuel as [|k IH]; intros x; simpl; [reflexivity|].
  unfold mrd at 1. destruct (rd x) as [n|]; simpl; [|reflexivity].
  destruct (np n) as [p|]; [|reflexivity].
  unfold mrd at 1. destruct (rd p) as [pn|]; simpl; [|reflexivity].
  destruct (nl pn) as [c|]; [|apply IH].
  destruct (Pos.eqb c x); [apply IH|reflexivity].
Qed.

Lemma post_descent_mirror : forall fuel x,
  post_descent (mrd rd) nl nr fuel x = post_descent rd nr nl fuel x.
Proof.
  induction fuel as [|k IH]; intros x; simpl; [reflexivity|].
  unfold mrd at 1. destruct (rd x) as [n|]; simpl; [|reflexivity].
  destruct (nr n); [apply IH|]. destruct (nl n); [apply IH|reflexivity].
Qed.

Lemma prev_mirror : forall fuel x, prev rd fuel x = next (mrd rd) fuel x.
Proof.
  intros fuel x. unfold prev, next. unfold mrd at 1. destruct (rd x) as [n|]; simpl; [|reflexivity].
  destruct (nl n); [rewrite walk_mirror|rewrite climb_io_mirror]; reflexivity.
Qed.

Lemma pre_prev_mirror : forall fuel x, pre_prev rd fuel x = pre_next (mrd rd) fuel x.
Proof.
  intros fuel x. unfold pre_prev, pre_next. unfold mrd at 1. destruct (rd x) as [n|]; simpl; [|reflexivity].
  destruct (nr n); [reflexivity|]. destruct (nl n); [reflexivity|].
  rewrite climb_pre_mirror. reflexivity.
Qed.

Lemma post_prev_mirror : forall fuel x, post_prev rd fuel x = post_next (mrd rd) fuel x.
Proof.
  intros fuel x. unfold post_prev, post_next. unfold mrd at 1. destruct (rd x) as [n|]; simpl; [|reflexivity].
  destruct (np n) as [p|]; [|reflexivity].
  unfold mrd at 1. destruct (rd p) as [pn|]; simpl; [|reflexivity].
  destruct (nl pn) as [c|]; [|reflexivity].
  destruct (Pos.eqb c x); [reflexivity|]. rewrite post_descent_mirror. reflexivity.
Qed.

Lemma tail_mirror : forall fuel root, tail rd fuel root = head (mrd rd) fuel root.
Proof. intros fuel [x|]; simpl; [rewrite walk_mirror|]; reflexivity. Qed.

Lemma post_tail_mirror : forall fuel root, post_tail rd fuel root = post_head (mrd rd) fuel root.
Proof. intros fuel [x|]; simpl; [rewrite post_descent_mirror|]; reflexivity. Qed.

Lemma iterate_ext : forall (f g : id -> res (option id)), (forall x, f x = g x) ->
  forall fuel cur, iterate f fuel cur = iterate g fuel cur.
Proof.
  intros f g H. induction fuel as [|k IH]; intros [x|]; simpl; try reflexivity.
  rewrite H. destruct (g x); try reflexivity. rewrite IH. reflexivity.
Qed.

End MirrorFns.

(* ------------------------------------------------------------------ the six iterations *)

Lemma foreach_reverse_mirror : forall rd fuel root,
  foreach_reverse rd fuel root = foreach (mrd rd) fuel root.
Proof.
  intros. unfold foreach_reverse, foreach, bind_iter. rewrite tail_mirror.
  destruct (head (mrd rd) fuel root); try reflexivity.
  apply iterate_ext. intros x. apply prev_mirror.
Qed.

Lemma pre_foreach_reverse_mirror : forall rd fuel root,
  pre_foreach_reverse rd fuel root = pre_foreach (mrd rd) fuel root.
Proof.
  intros. unfold pre_foreach_reverse, pre_foreach, bind_iter.
  apply iterate_ext. intros x. apply pre_prev_mirror.
Qed.

Lemma post_foreach_reverse_mirror : forall rd fuel root,
  post_foreach_reverse rd fuel root = post_foreach (mrd rd) fuel root.
Proof.
  intros. unfold post_foreach_reverse, post_foreach, bind_iter. rewrite post_tail_mirror.
  destruct (post_head (mrd rd) fuel root); try reflexivity.
  apply iterate_ext. intros x. apply post_prev_mirror.
Qed.

Section Forward.
Variable rd : id -> option node.
Variable t : tree.
Variable fuel : nat.
Hypothesis HR : Repr rd None t.
Hypothesis Hnd : NoDup (ids t).
Hypothesis Hf : size t < fuel.

Lemma foreach_fwd : foreach rd fuel (root_id t) = Ok (inorder t).
Proof.
  unfold foreach, bind_iter. rewrite (head_first rd t fuel HR Hf).
  apply (iterate_list (next rd fuel) (inorder t) (next_succ rd t fuel HR Hnd Hf) (inorder t) []);
    [reflexivity|]. fold (ids t). rewrite size_length_ids. assumption.
Qed.

Lemma pre_foreach_fwd : pre_foreach rd fuel (root_id t) = Ok (preorder t).
Proof.
  unfold pre_foreach, bind_iter.
  replace (root_id t) with (hd_error (preorder t)) by (destruct t; reflexivity).
  apply (iterate_list (pre_next rd fuel) (preorder t) (pre_next_succ rd t fuel HR Hnd Hf) (preorder t) []);
    [reflexivity|]. rewrite length_pre. assumption.
Qed.

Lemma post_foreach_fwd : post_foreach rd fuel (root_id t) = Ok (postorder t).
Proof.
  unfold post_foreach, bind_iter. rewrite (post_head_first rd t fuel HR Hf).
  apply (iterate_list (post_next rd fuel) (postorder t) (post_next_succ rd t fuel HR Hnd Hf) (postorder t) []);
    [reflexivity|]. rewrite length_post. assumption.
Qed.

(* from ANY node the iteration yields the corresponding suffix *)
Lemma iterate_next_from : forall pre x post, inorder t = pre ++ x :: post ->
  iterate (next rd fuel) fuel (Some x) = Ok (x :: post).
Proof.
  intros pre x post E0.
  apply (iterate_list (next rd fuel) (inorder t) (next_succ rd t fuel HR Hnd Hf) (x :: post) pre fuel E0).
  assert (L : length (inorder t) = size t) by apply size_length_ids.
  rewrite E0, app_length in L. lia.
Qed.

Lemma iterate_pre_next_from : forall pre x post, preorder t = pre ++ x :: post ->
  iterate (pre_next rd fuel) fuel (Some x) = Ok (x :: post).
Proof.
  intros pre x post E0.
  apply (iterate_list (pre_next rd fuel) (preorder t) (pre_next_succ rd t fuel HR Hnd Hf) (x :: post) pre fuel E0).
  pose proof (length_pre t) as L. rewrite E0, app_length in L. lia.
Qed.

Lemma iterate_post_next_from : forall pre x post, postorder t = pre ++ x :: post ->
  iterate (post_next rd fuel) fuel (Some x) = Ok (x :: post).
Proof.
  intros pre x post E0.
  apply (iterate_list (post_next rd fuel) (postorder t) (post_next_succ rd t fuel HR Hnd Hf) (x :: post) pre fuel E0).
  pose proof (length_post t) as L. rewrite E0, app_length in L. lia.
Qed.

End Forward.

Section Backward.
Variable rd : id -> option node.
Variable t : tree.
Variable fuel : nat.
Hypothesis HR : Repr rd None t.
Hypothesis Hnd : NoDup (ids t).
Hypothesis Hf : size t < fuel.

Let HRm : Repr (mrd rd) None (mirror t) := repr_mirror rd t None HR.
Let Hndm : NoDup (ids (mirror t)) := nodup_mirror t Hnd.
Let Hfm : size (mirror t) < fuel.
Proof. rewrite size_mirror. exact Hf. Qed.

Lemma foreach_bwd : foreach_reverse rd fuel (root_id t) = Ok (rev (inorder t)).
Proof.
  rewrite foreach_reverse_mirror, <- root_mirror, <- inorder_mirror.
  apply foreach_fwd; assumption.
Qed.

Lemma pre_foreach_bwd : pre_foreach_reverse rd fuel (root_id t) = Ok (preorder_rl t).
Proof.
  rewrite pre_foreach_reverse_mirror, <- root_mirror, <- preorder_mirror.
  apply pre_foreach_fwd; assumption.
Qed.

Lemma post_foreach_bwd : post_foreach_reverse rd fuel (root_id t) = Ok (postorder_rl t).
Proof.
  rewrite post_foreach_reverse_mirror, <- root_mirror, <- postorder_mirror.
  apply post_foreach_fwd; assumption.
Qed.

Lemma prev_succ : forall pre x post,
  rev (inorder t) = pre ++ x :: post -> prev rd fuel x = Ok (hd_error post).
Proof.
  intros pre x post E0. rewrite prev_mirror. rewrite <- inorder_mirror in E0.
  exact (next_succ (mrd rd) (mirror t) fuel HRm Hndm Hfm pre x post E0).
Qed.

Lemma pre_prev_succ : forall pre x post,
  preorder_rl t = pre ++ x :: post -> pre_prev rd fuel x = Ok (hd_error post).
Proof.
  intros pre x post E0. rewrite pre_prev_mirror. rewrite <- preorder_mirror in E0.
  exact (pre_next_succ (mrd rd) (mirror t) fuel HRm Hndm Hfm pre x post E0).
Qed.

Lemma post_prev_succ : forall pre x post,
  postorder_rl t = pre ++ x :: post -> post_prev rd fuel x = Ok (hd_error post).
Proof.
  intros pre x post E0. rewrite post_prev_mirror. rewrite <- postorder_mirror in E0.
  exact (post_next_succ (mrd rd) (mirror t) fuel HRm Hndm Hfm pre x post E0).
Qed.

Lemma iterate_prev_from : forall pre x post, rev (inorder t) = pre ++ x :: post ->
  iterate (prev rd fuel) fuel (Some x) = Ok (x :: post).
Proof.
  intros pre x post E0.
  rewrite (iterate_ext _ _ (prev_mirror rd fuel)). rewrite <- inorder_mirror in E0.
  exact (iterate_next_from (mrd rd) (mirror t) fuel HRm Hndm Hfm pre x post E0).
Qed.

Lemma iterate_pre_prev_from : forall pre x post, preorder_rl t = pre ++ x :: post ->
  iterate (pre_prev rd fuel) fuel (Some x) = Ok (x :: post).
Proof.
  intros pre x post E0.
  rewrite (iterate_ext _ _ (pre_prev_mirror rd fuel)). rewrite <- preorder_mirror in E0.
  exact (iterate_pre_next_from (mrd rd) (mirror t) fuel HRm Hndm Hfm pre x post E0).
Qed.

Lemma iterate_post_prev_from : forall pre x post, postorder_rl t = pre ++ x :: post ->
  iterate (post_prev rd fuel) fuel (Some x) = Ok (x :: post).
Proof.
  intros pre x post E0.
  rewrite (iterate_ext _ _ (post_prev_mirror rd fuel)). rewrite <- postorder_mirror in E0.
  exact (iterate_post_next_from (mrd rd) (mirror t) fuel HRm Hndm Hfm pre x post E0).
Qed.

(* successor and predecessor steps are mutually inverse *)
Lemma next_then_prev : forall x y, In x (ids t) ->
  next rd fuel x = Ok (Some y) -> prev rd fuel y = Ok (Some x).
Proof.
  intros x y Hin Hn. unfold ids in Hin.
  destruct (in_split _ _ Hin) as [pre [post E0]].
  rewrite (next_succ rd t fuel HR Hnd Hf pre x post E0) in Hn.
  destruct post as [|y' post]; simpl in Hn; [discriminate|]. inversion Hn; subst y'.
  apply (prev_succ (rev post) y (x :: rev pre)).
  rewrite E0, rev_app_distr. simpl. rewrite <- !app_assoc. reflexivity.
Qed.

Lemma prev_then_next : forall x y, In y (ids t) ->
  prev rd fuel y = Ok (Some x) -> next rd fuel x = Ok (Some y).
Proof.
  intros x y Hin Hp. unfold ids in Hin.
  destruct (in_split _ _ Hin) as [pre [post E0]].
  assert (E1 : rev (inorder t) = rev post ++ y :: rev pre).
  { rewrite E0, rev_app_distr. simpl. rewrite <- app_assoc. reflexivity. }
  rewrite (prev_succ (rev post) y (rev pre) E1) in Hp.
  destruct (rev pre) as [|x' q] eqn:Eq; simpl in Hp; [discriminate|]. inversion Hp; subst x'.
  assert (E2 : pre = rev q ++ [x]).
  { rewrite <- (rev_involutive pre), Eq. reflexivity. }
  apply (next_succ rd t fuel HR Hnd Hf (rev q) x (y :: post)).
  rewrite E0, E2, <- app_assoc. reflexivity.
Qed.

(* a step from a node of the tree is never Stuck / OutOfFuel and stays inside the tree *)
Lemma next_total : forall x, In x (ids t) ->
  exists o, next rd fuel x = Ok o /\ match o with Some y => In y (ids t) | None => True end.
Proof.
  intros x Hin. unfold ids in Hin. destruct (in_split _ _ Hin) as [pre [post E0]].
  exists (hd_error post). split; [apply (next_succ rd t fuel HR Hnd Hf pre x post E0)|].
  destruct post as [|y post]; simpl; [exact I|].
  unfold ids. rewrite E0. apply in_or_app. right. right. left. reflexivity.
Qed.

End Backward.
