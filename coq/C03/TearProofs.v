(* C03 - proofs about tear / fortear (destructive post-order tear-down) of IterDefs.v.

   Invariant of the fortear loop (TearInv st t): the heap of st represents a tree t with distinct
   ids and contains nothing else, st's root is t's root, and the saved `next` is either null or
   the root of a subtree s of t (t = plug c s) that has nothing before it in post-order
   (bef_post c = []), so that the POST(left,right) descent from it ends on the first node of
   postorder t.  One tear + free step hands out that first node x and re-establishes the
   invariant for a tree t' with  postorder t = x :: postorder t'. *)

From Coq Require Import List PArith Arith Lia Bool FMapPositive Permutation.
From LibaV Require Import C03.IterDefs C03.IterProofs.
Import ListNotations.

Local Open Scope nat_scope.

(* ids stored in a context: the frame nodes and their sibling subtrees *)
Fixpoint cids (c : list frame) : list id :=
  match c with
  | [] => []
  | FL y r :: c' => y :: ids r ++ cids c'
  | FR l y :: c' => y :: ids l ++ cids c'
  end.

Lemma perm_ids_plug : forall c s, Permutation (ids (plug c s)) (ids s ++ cids c).
Proof.
  induction c as [|[y r|l y] c IH]; intros s; simpl.
  - rewrite app_nil_r. apply Permutation_refl.
  - eapply Permutation_trans; [apply IH|]. unfold ids. simpl.
    rewrite <- app_assoc. simpl. apply Permutation_refl.
  - eapply Permutation_trans; [apply IH|]. unfold ids. simpl.
    rewrite <- app_assoc. simpl.
    (* inorder l ++ y :: inorder s ++ cids c   ~   inorder s ++ y :: inorder l ++ cids c *)
    eapply Permutation_trans; [apply Permutation_sym, Permutation_middle|].
    eapply Permutation_trans; [|apply Permutation_middle].
    constructor. rewrite !app_assoc. apply Permutation_app_tail. apply Permutation_app_comm.
Qed.

Lemma bef_post_app : forall c1 c0, bef_post (c1 ++ c0) = bef_post c0 ++ bef_post c1.
Proof.
  induction c1 as [|[y r|l y] c1 IH]; intros c0; simpl.
  - rewrite app_nil_r. reflexivity.
  - apply IH.
  - rewrite IH, app_assoc. reflexivity.
Qed.

Lemma plug_E : forall c s, plug c s = E -> s = E.
Proof.
  induction c as [|f c IH]; intros s H; simpl in H; [assumption|].
  apply IH in H. destruct f; discriminate.
Qed.

Lemma root_plug : forall c s s', root_id s = root_id s' -> root_id (plug c s) = root_id (plug c s').
Proof.
  induction c as [|f c IH]; intros s s' H; simpl; [assumption|].
  apply IH. destruct f; reflexivity.
Qed.

Lemma postorder_nil : forall t, postorder t = [] -> t = E.
Proof.
  intros [|l x r] H; [reflexivity|]. simpl in H.
  apply app_eq_nil in H. destruct H as [_ H]. apply app_eq_nil in H. destruct H as [_ H]. discriminate.
Qed.

Definition par (c : list frame) : option id :=
  match c with [] => None | f :: _ => Some (fid f) end.

(* replacing the focused subtree by one with the same root, in a heap that agrees on the context *)
Lemma repr_replace : forall (rd rd' : id -> option node) c s s',
  Repr rd None (plug c s) -> root_id s' = root_id s ->
  (forall z, In z (cids c) -> rd' z = rd z) ->
  Repr rd' (par c) s' -> Repr rd' None (plug c s').
Proof.
  induction c as [|f c IH]; intros s s' HR Hroot Hag Hs'; simpl; [assumption|].
  simpl in HR. apply (IH (fill f s) (fill f s') HR).
  - destruct f; reflexivity.
  - intros z Hz. apply Hag. destruct f as [y r|l y]; simpl; right; apply in_or_app; right; assumption.
  - pose proof (repr_plug_inv rd _ _ _ HR) as HF. fold (par c) in HF.
    destruct f as [y r|l y]; simpl in HF |- *; destruct HF as [Hy [H1 H2]].
    + split; [rewrite Hag by (simpl; left; reflexivity); rewrite Hy, Hroot; reflexivity|].
      split; [exact Hs'|].
      apply (repr_ext rd rd'); [|assumption].
      intros z Hz. apply Hag. simpl. right. apply in_or_app. left. assumption.
    + split; [rewrite Hag by (simpl; left; reflexivity); rewrite Hy, Hroot; reflexivity|].
      split; [|exact Hs'].
      apply (repr_ext rd rd'); [|assumption].
      intros z Hz. apply Hag. simpl. right. apply in_or_app. left. assumption.
Qed.

(* ------------------------------------------------------------------ the loop invariant *)

Definition NextOk (t : tree) (nx : option id) : Prop :=
  nx = None \/ exists c s x, t = plug c s /\ root_id s = Some x /\ nx = Some x /\ bef_post c = [].

Record TearInv (st : tstate) (t : tree) : Prop := mkTearInv {
  ti_repr : Repr (rdh (th st)) None t;
  ti_nodup : NoDup (ids t);
  ti_root : troot st = root_id t;
  ti_next : NextOk t (tnext st);
  ti_sub : hsub (th st) t
}.

Lemma tear_inv_init : forall h t,
  Repr (rdh h) None t -> NoDup (ids t) -> hsub h t -> TearInv (mkT h (root_id t) None) t.
Proof. intros h t HR Hnd Hs. constructor; simpl; try assumption; [reflexivity|left; reflexivity]. Qed.

Lemma tear_empty : forall st fuel, TearInv st E -> tear fuel st = Ok (None, st).
Proof.
  intros st fuel [_ _ Hroot Hnext _]. unfold tear. simpl in Hroot. rewrite Hroot.
  destruct Hnext as [Hn|[c [s [x [E1 [E2 _]]]]]].
  - rewrite Hn. reflexivity.
  - symmetry in E1. apply plug_E in E1. subst s. discriminate.
Qed.

(* where the descent of one tear call ends *)
Lemma tear_start : forall st t fuel, TearInv st t -> t <> E -> size t < fuel ->
  exists start cc y,
    (match tnext st with Some n => Some n | None => troot st end) = Some start
    /\ post_descent (rdh (th st)) nl nr fuel start = Ok y
    /\ t = plug cc (T E y E) /\ bef_post cc = [].
Proof.
  intros st t fuel [HR Hnd Hroot Hnext _] Hne Hf.
  assert (Hpos : exists c0 s0 x0, t = plug c0 s0 /\ root_id s0 = Some x0 /\ bef_post c0 = []
            /\ (match tnext st with Some n => Some n | None => troot st end) = Some x0).
  { destruct Hnext as [Hn|[c [s [x [E1 [E2 [E3 E4]]]]]]].
    - rewrite Hn, Hroot. destruct t as [|l x r]; [contradiction|].
      exists [], (T l x r), x. repeat split; reflexivity.
    - exists c, s, x. rewrite E3. repeat split; assumption. }
  destruct Hpos as [c0 [s0 [x0 [E1 [E2 [E3 E4]]]]]].
  rewrite E1 in HR. pose proof (repr_plug_inv _ _ _ _ HR) as HS.
  assert (Hsz : size s0 <= fuel) by (rewrite E1, size_plug in Hf; lia).
  destruct (post_descent_pos _ s0 _ x0 fuel HS E2 Hsz) as [c1 [y [F1 [F2 F3]]]].
  exists x0, (c1 ++ c0), y. split; [assumption|]. split; [assumption|]. split.
  - rewrite plug_app, <- F1. assumption.
  - rewrite bef_post_app, E3, F2. reflexivity.
Qed.

Lemma in_perm_cons : forall (a b : list id) y z, Permutation a (y :: b) -> In z a -> z <> y -> In z b.
Proof.
  intros a b y z HP Hin Hne. apply (Permutation_in _ HP) in Hin. destruct Hin as [H|H]; [congruence|assumption].
Qed.

(* re-establishing the invariant after unlinking leaf y below p and freeing it *)
Lemma tear_inv_rebuild : forall (h : heap) c s s' y p pn' root0,
  Repr (rdh h) None (plug c s) -> NoDup (ids (plug c s)) -> hsub h (plug c s) ->
  root0 = root_id (plug c s) ->
  root_id s = Some p -> root_id s' = Some p ->
  Permutation (ids s) (y :: ids s') ->
  bef_post c = [] ->
  Repr (rdh (PositiveMap.remove y (PositiveMap.add p pn' h))) (par c) s' ->
  TearInv (mkT (PositiveMap.remove y (PositiveMap.add p pn' h)) root0 (Some p)) (plug c s')
  /\ (forall z, In z (ids (plug c s')) -> In z (ids (plug c s))).
Proof.
  intros h c s s' y p pn' root0 HR Hnd Hsub Hroot Hs Hs' HP Hbef HR'.
  pose proof (perm_ids_plug c s) as P1. pose proof (perm_ids_plug c s') as P2.
  assert (Hnd1 : NoDup (ids s ++ cids c)) by (exact (Permutation_NoDup P1 Hnd)).
  apply nodup_app in Hnd1. destruct Hnd1 as [Hnds [Hndc Hdisj]].
  assert (Hnd2 : NoDup (y :: ids s')) by (exact (Permutation_NoDup HP Hnds)).
  assert (Hy : In y (ids s)) by (eapply Permutation_in; [apply Permutation_sym; eassumption|left; reflexivity]).
  assert (Hp : In p (ids s)) by (apply root_in; assumption).
  assert (Hsub' : forall z, In z (ids s') -> In z (ids s)).
  { intros z Hz. eapply Permutation_in; [apply Permutation_sym; eassumption|right; assumption]. }
  assert (Hag : forall z, In z (cids c) ->
                rdh (PositiveMap.remove y (PositiveMap.add p pn' h)) z = rdh h z).
  { intros z Hz. unfold rdh.
    assert (z <> y) by (intros ->; exact (Hdisj y Hy Hz)).
    assert (z <> p) by (intros ->; exact (Hdisj p Hp Hz)).
    rewrite PositiveMap.gro by assumption. rewrite PositiveMap.gso by assumption. reflexivity. }
  split.
  - constructor; simpl.
    + apply (repr_replace (rdh h) _ c s s'); try assumption. congruence.
    + eapply Permutation_NoDup; [apply Permutation_sym; eassumption|].
      apply nodup_app. split; [inversion Hnd2; assumption|]. split; [assumption|].
      intros z Hz1 Hz2. eapply Hdisj; [apply Hsub'|]; eassumption.
    + rewrite Hroot. apply root_plug. congruence.
    + right. exists c, s', p. repeat split; assumption.
    + intros z Hz. unfold rdh in Hz.
      destruct (Pos.eq_dec z y) as [->|Hzy]; [rewrite PositiveMap.grs in Hz; contradiction|].
      rewrite PositiveMap.gro in Hz by assumption.
      eapply Permutation_in; [apply Permutation_sym; eassumption|]. apply in_or_app.
      destruct (Pos.eq_dec z p) as [->|Hzp]; [left; apply root_in; assumption|].
      rewrite PositiveMap.gso in Hz by assumption.
      apply Hsub in Hz. apply (Permutation_in _ P1) in Hz. apply in_app_or in Hz.
      destruct Hz as [Hz|Hz]; [left|right; assumption].
      eapply in_perm_cons; eassumption.
  - intros z Hz. apply (Permutation_in _ P2) in Hz.
    eapply Permutation_in; [apply Permutation_sym; eassumption|]. apply in_or_app.
    apply in_app_or in Hz. destruct Hz as [Hz|Hz]; [left; apply Hsub'|right]; assumption.
Qed.

(* one iteration of the fortear loop on a non-empty tree *)
Lemma tear_step : forall st t fuel, TearInv st t -> t <> E -> size t < fuel ->
  exists x st' t',
    tear fuel st = Ok (Some x, st')
    /\ postorder t = x :: postorder t'
    /\ TearInv (free_node x st') t'
    /\ size t = S (size t')
    /\ (forall z, In z (ids t') -> In z (ids t)).
Proof.
  intros st t fuel Hinv Hne Hf.
  destruct (tear_start st t fuel Hinv Hne Hf) as [start [cc [y [Hst [Hpd [Et Hbef]]]]]].
  destruct Hinv as [HR Hnd Hroot Hnext Hsub].
  unfold tear. rewrite Hst, Hpd.
  destruct cc as [|f c].
  - (* y is the root and the last node *)
    simpl in Et. subst t. simpl in HR. destruct HR as [Hy _]. rewrite Hy. cbn [np].
    exists y, (mkT (th st) None None), E. split; [reflexivity|]. split; [reflexivity|]. split.
    + constructor; simpl; try exact I; try constructor; try reflexivity.
      intros z Hz. unfold rdh in Hz.
      destruct (Pos.eq_dec z y) as [->|Hzy]; [rewrite PositiveMap.grs in Hz; contradiction|].
      rewrite PositiveMap.gro in Hz by assumption. apply Hsub in Hz.
      unfold ids in Hz. simpl in Hz. destruct Hz as [Hz|[]]. congruence.
    + split; [reflexivity|]. intros z [].
  - rewrite Et in HR, Hnd, Hsub, Hroot.
    pose proof (repr_frame _ _ _ _ _ HR) as HF. fold (par c) in HF.
    assert (Hnd2 : NoDup (ids (fill f (T E y E)))) by (simpl in Hnd; eapply nodup_plug; eassumption).
    destruct f as [p r|l p].
    + (* y is the left child of p *)
      simpl in HF. destruct HF as [Hp [[Hy _] Hr]]. simpl in Hbef.
      rewrite Hy. cbn [np]. rewrite Hp. cbn [nl nr np]. rewrite ptr_is_same.
      apply nodup_T in Hnd2. destruct Hnd2 as [_ [Hndr [Hpy [Hpr Hyr]]]].
      assert (Hyp : y <> p) by (intros ->; apply Hpy; unfold ids; simpl; left; reflexivity).
      set (pn' := mkNode None (root_id r) (par c)).
      destruct (tear_inv_rebuild (th st) c (T (T E y E) p r) (T E p r) y p pn' (troot st)) as [Hinv' Hids];
        try assumption; try reflexivity.
      * simpl. split.
        -- unfold rdh. rewrite PositiveMap.gro by congruence. rewrite PositiveMap.gss. reflexivity.
        -- split; [exact I|].
           apply (repr_ext (rdh (th st))); [|assumption].
           intros z Hz. unfold rdh.
           assert (z <> y) by (intros ->; apply (Hyr y); [unfold ids; simpl; left; reflexivity|assumption]).
           assert (z <> p) by (intros ->; contradiction).
           rewrite PositiveMap.gro by assumption. rewrite PositiveMap.gso by assumption. reflexivity.
      * exists y, (mkT (PositiveMap.add p pn' (th st)) (troot st) (Some p)), (plug c (T E p r)).
        split; [reflexivity|]. split.
        -- rewrite Et. simpl plug. rewrite !postorder_plug, Hbef. simpl. reflexivity.
        -- split; [exact Hinv'|]. split; [|rewrite Et; exact Hids].
           rewrite Et. simpl plug. rewrite !size_plug. simpl. lia.
    + (* y is the right child of p, whose left subtree must be empty *)
      simpl in Hbef. apply app_eq_nil in Hbef. destruct Hbef as [Hbef Hl].
      apply postorder_nil in Hl. subst l.
      simpl in HF. destruct HF as [Hp [_ [Hy _]]].
      rewrite Hy. cbn [np]. rewrite Hp. cbn [nl nr np]. cbn [ptr_is].
      apply nodup_T in Hnd2. destruct Hnd2 as [_ [_ [_ [Hpy _]]]].
      assert (Hyp : y <> p) by (intros ->; apply Hpy; unfold ids; simpl; left; reflexivity).
      set (pn' := mkNode None None (par c)).
      destruct (tear_inv_rebuild (th st) c (T E p (T E y E)) (T E p E) y p pn' (troot st)) as [Hinv' Hids];
        try assumption; try reflexivity.
      * unfold ids. simpl. apply perm_swap.
      * simpl. split; [|split; exact I].
        unfold rdh. rewrite PositiveMap.gro by congruence. rewrite PositiveMap.gss. reflexivity.
      * exists y, (mkT (PositiveMap.add p pn' (th st)) (troot st) (Some p)), (plug c (T E p E)).
        split; [reflexivity|]. split.
        -- rewrite Et. simpl plug. rewrite !postorder_plug, Hbef. simpl. reflexivity.
        -- split; [exact Hinv'|]. split; [|rewrite Et; exact Hids].
           rewrite Et. simpl plug. rewrite !size_plug. simpl. lia.
Qed.

(* ------------------------------------------------------------------ the fortear loop *)

Theorem fortear_prefix : forall k st t fuel, TearInv st t -> size t < fuel ->
  exists st' t',
    fortear fuel k st = Ok (firstn k (postorder t), st')
    /\ TearInv st' t'
    /\ postorder t' = skipn k (postorder t)
    /\ (forall z, In z (ids t') -> In z (ids t)).
Proof.
  induction k as [|k IH]; intros st t fuel Hinv Hf.
  - exists st, t. simpl. split; [reflexivity|]. split; [assumption|]. split; [reflexivity|]. auto.
  - destruct t as [|l x r] eqn:Et.
    + exists st, E. simpl. rewrite (tear_empty st fuel Hinv).
      split; [reflexivity|]. split; [assumption|]. split; [reflexivity|]. auto.
    + rewrite <- Et in *.
      assert (Hne : t <> E) by (rewrite Et; discriminate).
      destruct (tear_step st t fuel Hinv Hne Hf) as [y [st1 [t1 [H1 [H2 [H3 [H4 H5]]]]]]].
      destruct (IH (free_node y st1) t1 fuel H3) as [st' [t' [G1 [G2 [G3 G4]]]]]; [lia|].
      exists st', t'. simpl. rewrite H1, G1, H2. simpl.
      split; [reflexivity|]. split; [assumption|]. split; [assumption|]. auto.
Qed.

Lemma tear_inv_E_clean : forall st, TearInv st E ->
  troot st = None /\ tnext st = None /\ (forall x, rdh (th st) x = None).
Proof.
  intros st [_ _ Hroot Hnext Hsub]. split; [exact Hroot|]. split.
  - destruct Hnext as [Hn|[c [s [x [E1 [E2 _]]]]]]; [assumption|].
    symmetry in E1. apply plug_E in E1. subst s. discriminate.
  - intros x. destruct (rdh (th st) x) eqn:Ex; [|reflexivity].
    exfalso. apply (Hsub x). rewrite Ex. discriminate.
Qed.

(* complete tear-down: every element exactly once, in post-order, never Stuck, tree and heap empty *)
Theorem fortear_complete : forall h t fuel k,
  Repr (rdh h) None t -> NoDup (ids t) -> hsub h t -> size t < fuel -> size t <= k ->
  exists st', fortear fuel k (mkT h (root_id t) None) = Ok (postorder t, st')
    /\ troot st' = None /\ tnext st' = None /\ (forall x, rdh (th st') x = None).
Proof.
  intros h t fuel k HR Hnd Hsub Hf Hk.
  destruct (fortear_prefix k _ t fuel (tear_inv_init h t HR Hnd Hsub) Hf) as [st' [t' [G1 [G2 [G3 _]]]]].
  exists st'. rewrite firstn_all2 in G1 by (rewrite length_post; assumption).
  split; [assumption|].
  rewrite skipn_all2 in G3 by (rewrite length_post; assumption).
  apply postorder_nil in G3. subst t'. apply tear_inv_E_clean. assumption.
Qed.

(* interrupted tear-down: after k handed-out nodes the heap is a tree again (so every iterator
   theorem applies to it), it holds exactly the nodes not yet handed out, and the loop can be
   resumed from the saved state and hands out the rest *)
Theorem fortear_interrupted : forall h t fuel k,
  Repr (rdh h) None t -> NoDup (ids t) -> hsub h t -> size t < fuel ->
  exists st' t',
    fortear fuel k (mkT h (root_id t) None) = Ok (firstn k (postorder t), st')
    /\ Repr (rdh (th st')) None t' /\ NoDup (ids t') /\ troot st' = root_id t' /\ hsub (th st') t'
    /\ postorder t' = skipn k (postorder t)
    /\ size t' < fuel
    /\ (forall k2, size t' <= k2 ->
          exists st'', fortear fuel k2 st' = Ok (skipn k (postorder t), st'')
                       /\ troot st'' = None /\ (forall x, rdh (th st'') x = None)).
Proof.
  intros h t fuel k HR Hnd Hsub Hf.
  destruct (fortear_prefix k _ t fuel (tear_inv_init h t HR Hnd Hsub) Hf) as [st' [t' [G1 [G2 [G3 G4]]]]].
  assert (Hsz : size t' <= size t).
  { rewrite <- (length_post t'), <- (length_post t), G3, skipn_length. lia. }
  exists st', t'. split; [assumption|].
  destruct G2 as [A1 A2 A3 A4 A5].
  repeat (split; [assumption|]). split; [lia|].
  intros k2 Hk2.
  destruct (fortear_prefix k2 st' t' fuel (mkTearInv _ _ A1 A2 A3 A4 A5)) as [st'' [t'' [B1 [B2 [B3 _]]]]]; [lia|].
  exists st''. rewrite firstn_all2 in B1 by (rewrite length_post; assumption).
  rewrite G3 in B1. split; [assumption|].
  rewrite skipn_all2 in B3 by (rewrite length_post; assumption).
  apply postorder_nil in B3. subst t''.
  destruct (tear_inv_E_clean _ B2) as [C1 [_ C3]]. split; assumption.
Qed.

(* children before parents: in post-order every node of a subtree precedes the subtree's root *)
Theorem postorder_children_first : forall c l x r,
  exists a, postorder (plug c (T l x r)) = a ++ x :: aft_post c
            /\ (forall z, In z (ids l) \/ In z (ids r) -> In z a).
Proof.
  intros c l x r. exists (bef_post c ++ postorder l ++ postorder r). split.
  - rewrite postorder_plug. simpl. repeat (rewrite <- app_assoc; simpl). reflexivity.
  - intros z [Hz|Hz]; apply in_or_app; right; apply in_or_app; [left|right];
      (eapply Permutation_in; [apply Permutation_sym, perm_post|assumption]).
Qed.
