(* C13 - Membership functions, fuzzy operators and gain scheduling stay within range.
   Models: C13/MfDefs.v (src/mf.c, include/a/fuzzy.h, src/fuzzy.c) and C13/FuzzyDefs.v (src/pid_fuzzy.c on top of
   C12/PidDefs.v), as the code is after the fix: commits (lins/linz at x = a = b, tri at b = c, zero joint membership
   sum, and a_mf_s / a_mf_z testing the end points before the computed midpoint - found by the rounded-arithmetic
   theorems at the end of this file).  Proofs: C13/MfProofs.v, MfCont.v, MfExtra.v, OprProofs.v, FuzzyLimits.v, FuzzyProofs.v, FuzzyGains.v;
   non-vacuity: C13/Examples.v.  All theorems are over Coq's reals, instance R13_ops (C13/R13Ops.v: exp is Coq's exp,
   pow is the real power function Rpow).  Rounding is not part of the statements; the binary64 instance of the same
   terms is compared bit for bit with the C by checks/C13.py.

   Not proved (reported as missing, no statement weakened silently):
   * monotone flanks of the product of sigmoids for slopes of opposite sign (the bump-shaped use): the position of the
     peak has no closed form; psig is covered for slopes of equal sign, dsig under its precondition (peak at the midpoint
     of the centres);
   * S and Z at zero width (a = b) are outside the property's quantifier; C13_sz_zero_width states what the code does. *)
From Coq Require Import Reals ZArith List Bool.
From LibaV Require Import Common.NumOps Common.ROps C12.PidDefs C13.R13Ops C13.MfDefs C13.FuzzyDefs
  C13.MfProofs C13.MfCont C13.MfExtra C13.OprProofs C13.FuzzyLimits C13.FuzzyProofs C13.FuzzyGains C13.Examples.
Import ListNotations.
Local Open Scope R_scope.

Local Notation RO := R13_ops.

(* ============================================================ membership functions *)
(* every value lies in [0,1], for every x and EVERY parameter tuple; the difference of sigmoids under equal slopes and
   centres ordered with the sign of the slope *)
Theorem C13_mf_range :
  (forall x s c, 0 < mf_gauss RO x s c <= 1) /\
  (forall x s1 c1 s2 c2, 0 < mf_gauss2 RO x s1 c1 s2 c2 <= 1) /\
  (forall x a b c, 0 < mf_gbell RO x a b c <= 1) /\
  (forall x a c, 0 < mf_sig RO x a c < 1) /\
  (forall x a c1 c2, (0 <= a /\ c1 <= c2) \/ (a <= 0 /\ c2 <= c1) -> 0 <= mf_dsig RO x a c1 a c2 < 1) /\
  (forall x a1 c1 a2 c2, 0 < mf_psig RO x a1 c1 a2 c2 < 1) /\
  (forall x a b c d, 0 <= mf_trap RO x a b c d <= 1) /\
  (forall x a b c, 0 <= mf_tri RO x a b c <= 1) /\
  (forall x a b, 0 <= mf_lins RO x a b <= 1) /\
  (forall x a b, 0 <= mf_linz RO x a b <= 1) /\
  (forall x a b, 0 <= mf_s RO x a b <= 1) /\
  (forall x a b, 0 <= mf_z RO x a b <= 1) /\
  (forall x a b c d, 0 <= mf_pi RO x a b c d <= 1).
Proof. exact mf_range_each. Qed.
Print Assumptions C13_mf_range.

(* the same through the generic dispatcher a_mf, for every tag *)
Theorem C13_mf_dispatch_range : forall e x ps y,
  mf RO e x ps = Some y -> (e = 5%nat -> dsig_ok ps) -> 0 <= y <= 1.
Proof. exact mf_unit. Qed.
Print Assumptions C13_mf_dispatch_range.

(* without the ordering the difference of sigmoids is negative somewhere: the precondition is needed *)
Theorem C13_dsig_unordered_refuted : exists x a c1 c2, 0 < a /\ c2 < c1 /\ mf_dsig RO x a c1 a c2 < 0.
Proof. exact dsig_unordered_negative. Qed.
Print Assumptions C13_dsig_unordered_refuted.

(* every division executed has a non-zero denominator and every pow stays inside its real domain (so that the range
   statements are not artefacts of x/0 = 0 in R): unconditional for the piecewise families - shoulders a = b included -
   and under non-zero width for the smooth ones *)
Theorem C13_mf_defined :
  (forall x a b c d, trap_defined x a b c d) /\ (forall x a b c, tri_defined x a b c) /\
  (forall x a b, lins_defined x a b) /\ (forall x a b, s_defined x a b) /\ (forall x a b, z_defined x a b) /\
  (forall x a b c d, pi_defined x a b c d) /\
  (forall x s c, gauss_defined x s c <-> s <> 0) /\
  (forall x s1 c1 s2 c2, s1 <> 0 -> s2 <> 0 -> gauss2_defined x s1 c1 s2 c2) /\
  (forall x a b c, a <> 0 -> 0 <= b -> gbell_defined x a b c) /\
  (forall x a c, 1 < exp ((c - x) * a) + 1).
Proof. exact mf_defined_each. Qed.
Print Assumptions C13_mf_defined.

(* exactly 1 on the core *)
Theorem C13_mf_core :
  (forall s c, mf_gauss RO c s c = 1) /\
  (forall x s1 c1 s2 c2, c1 <= x <= c2 -> mf_gauss2 RO x s1 c1 s2 c2 = 1) /\
  (forall a b c, 0 < b -> mf_gbell RO c a b c = 1) /\
  (forall x a b c d, b <= x <= c -> mf_trap RO x a b c d = 1) /\
  (forall a b c, mf_tri RO b a b c = 1) /\
  (forall x a b, a <= b -> b <= x -> mf_lins RO x a b = 1) /\
  (forall x a b, x < a \/ (x <= a /\ a < b) -> mf_linz RO x a b = 1) /\
  (forall x a b, a < b -> b <= x -> mf_s RO x a b = 1) /\
  (forall x a b, x <= a -> a < b -> mf_z RO x a b = 1) /\
  (forall x a b c d, b <= x <= c -> mf_pi RO x a b c d = 1).
Proof. exact mf_core_each. Qed.
Print Assumptions C13_mf_core.

(* exactly 0 outside the support *)
Theorem C13_mf_support :
  (forall x a b c d, a <= b -> b <= c -> c <= d ->
     (x < a \/ (x <= a /\ a < b) \/ d < x \/ (d <= x /\ c < d)) -> mf_trap RO x a b c d = 0) /\
  (forall x a b c, a <= b -> b <= c ->
     (x < a \/ (x <= a /\ a < b) \/ c < x \/ (c <= x /\ b < c)) -> mf_tri RO x a b c = 0) /\
  (forall x a b, x < a \/ (x <= a /\ a < b) -> mf_lins RO x a b = 0) /\
  (forall x a b, a <= b -> b <= x -> mf_linz RO x a b = 0) /\
  (forall x a b, x <= a -> a <= b -> mf_s RO x a b = 0) /\
  (forall x a b, a <= b -> b <= x -> mf_z RO x a b = 0) /\
  (forall x a b c d, a <= b -> c <= d -> b <= c ->
     (x <= a /\ a < b \/ x < a \/ d <= x /\ c < d \/ d < x) -> mf_pi RO x a b c d = 0).
Proof. exact mf_support_each. Qed.
Print Assumptions C13_mf_support.

(* continuous at every real x (hence the adjacent pieces agree at every breakpoint) when the widths are non-zero *)
Theorem C13_mf_continuous :
  (forall s c, continuity (fun x => mf_gauss RO x s c)) /\
  (forall s1 c1 s2 c2, c1 <= c2 -> continuity (fun x => mf_gauss2 RO x s1 c1 s2 c2)) /\
  (forall a b c, a <> 0 -> 0 < b -> continuity (fun x => mf_gbell RO x a b c)) /\
  (forall a c, continuity (fun x => mf_sig RO x a c)) /\
  (forall a1 c1 a2 c2, continuity (fun x => mf_dsig RO x a1 c1 a2 c2)) /\
  (forall a1 c1 a2 c2, continuity (fun x => mf_psig RO x a1 c1 a2 c2)) /\
  (forall a b c d, a < b -> b <= c -> c < d -> continuity (fun x => mf_trap RO x a b c d)) /\
  (forall a b c, a < b -> b < c -> continuity (fun x => mf_tri RO x a b c)) /\
  (forall a b, a < b -> continuity (fun x => mf_lins RO x a b)) /\
  (forall a b, a < b -> continuity (fun x => mf_linz RO x a b)) /\
  (forall a b, a < b -> continuity (fun x => mf_s RO x a b)) /\
  (forall a b, a < b -> continuity (fun x => mf_z RO x a b)) /\
  (forall a b c d, a < b -> b <= c -> c < d -> continuity (fun x => mf_pi RO x a b c d)).
Proof. exact mf_continuous_each. Qed.
Print Assumptions C13_mf_continuous.

(* monotone on each flank *)
Theorem C13_mf_flanks :
  (forall x y s c, (x <= y <= c -> mf_gauss RO x s c <= mf_gauss RO y s c) /\ (c <= x <= y -> mf_gauss RO y s c <= mf_gauss RO x s c)) /\
  (forall x y s1 c1 s2 c2, c1 <= c2 ->
     (x <= y <= c1 -> mf_gauss2 RO x s1 c1 s2 c2 <= mf_gauss2 RO y s1 c1 s2 c2) /\
     (c2 <= x <= y -> mf_gauss2 RO y s1 c1 s2 c2 <= mf_gauss2 RO x s1 c1 s2 c2)) /\
  (forall x y a b c, a <> 0 -> 0 < b -> Rabs (x - c) <= Rabs (y - c) -> mf_gbell RO y a b c <= mf_gbell RO x a b c) /\
  (forall x y a c, x <= y -> (0 <= a -> mf_sig RO x a c <= mf_sig RO y a c) /\ (a <= 0 -> mf_sig RO y a c <= mf_sig RO x a c)) /\
  (forall x y a c1 c2, (0 <= a /\ c1 <= c2) \/ (a <= 0 /\ c2 <= c1) ->
     (x <= y <= (c1 + c2) / 2 -> mf_dsig RO x a c1 a c2 <= mf_dsig RO y a c1 a c2) /\
     ((c1 + c2) / 2 <= x <= y -> mf_dsig RO y a c1 a c2 <= mf_dsig RO x a c1 a c2)) /\
  (forall x y a1 c1 a2 c2, x <= y ->
     (0 <= a1 -> 0 <= a2 -> mf_psig RO x a1 c1 a2 c2 <= mf_psig RO y a1 c1 a2 c2) /\
     (a1 <= 0 -> a2 <= 0 -> mf_psig RO y a1 c1 a2 c2 <= mf_psig RO x a1 c1 a2 c2)) /\
  (forall x y a b c d, b <= c ->
     (x <= y <= b -> mf_trap RO x a b c d <= mf_trap RO y a b c d) /\ (c <= x <= y -> mf_trap RO y a b c d <= mf_trap RO x a b c d)) /\
  (forall x y a b c,
     (x <= y <= b -> mf_tri RO x a b c <= mf_tri RO y a b c) /\ (b <= x <= y -> mf_tri RO y a b c <= mf_tri RO x a b c)) /\
  (forall x y a b, x <= y -> mf_lins RO x a b <= mf_lins RO y a b /\ mf_linz RO y a b <= mf_linz RO x a b) /\
  (forall x y a b, a < b -> x <= y -> mf_s RO x a b <= mf_s RO y a b /\ mf_z RO y a b <= mf_z RO x a b) /\
  (forall x y a b c d, b <= c ->
     (a < b -> x <= y <= b -> mf_pi RO x a b c d <= mf_pi RO y a b c d) /\
     (c < d -> c <= x <= y -> mf_pi RO y a b c d <= mf_pi RO x a b c d)).
Proof. exact mf_flanks_each. Qed.
Print Assumptions C13_mf_flanks.

(* the rising/falling ramps are complementary for ALL x, a, b (a = b included); S and Z whenever the width is non-zero *)
Theorem C13_mf_complement :
  (forall x a b, mf_lins RO x a b + mf_linz RO x a b = 1) /\
  (forall x a b, a < b -> mf_s RO x a b + mf_z RO x a b = 1).
Proof. exact mf_complement_each. Qed.
Print Assumptions C13_mf_complement.

(* what the code does at the single point x = a = b of a zero-width S/Z pair (outside the property's quantifier) *)
Theorem C13_sz_zero_width : forall a, mf_s RO a a a + mf_z RO a a a = 0.
Proof. exact s_z_degenerate. Qed.
Print Assumptions C13_sz_zero_width.

(* pi is S, 1, Z glued and gauss2 is gauss, 1, gauss glued *)
Theorem C13_mf_glue :
  (forall x a b c d, mf_pi RO x a b c d = if Rltb x b then mf_s RO x a b else if Rltb c x then mf_z RO x c d else 1) /\
  (forall x s1 c1 s2 c2, mf_gauss2 RO x s1 c1 s2 c2 =
     if Rltb x c1 then mf_gauss RO x s1 c1 else if Rltb c2 x then mf_gauss RO x s2 c2 else 1).
Proof. exact mf_glue_each. Qed.
Print Assumptions C13_mf_glue.

(* the documented closed form of the gaussian *)
Theorem C13_gauss_closed_form : forall x sigma c, sigma <> 0 -> mf_gauss RO x sigma c = exp (- (x - c) ^ 2 / (2 * sigma ^ 2)).
Proof. exact gauss_closed. Qed.
Print Assumptions C13_gauss_closed_form.

(* the generic dispatcher returns the value of the specific function for all 13 tags, 0 for every other tag, and reads
   exactly the parameters of that function *)
Theorem C13_mf_dispatch : forall e x a0 a1 a2 a3 rest,
  mf RO e x (a0 :: a1 :: a2 :: a3 :: rest) = Some (mf_by_tag e x a0 a1 a2 a3).
Proof. exact mf_dispatch. Qed.
Print Assumptions C13_mf_dispatch.

Theorem C13_mf_dispatch_reads : forall e x a, mf RO e x a = None <-> (length a < mf_arity e)%nat.
Proof. exact mf_reads_arity. Qed.
Print Assumptions C13_mf_dispatch_reads.

(* the code AS FOUND (before the fix: commits): the ramp divided 0 by 0 at x = a = b, the right-angled triangle was 0 at
   its peak; elsewhere the repaired functions agree with the ones found.  S and Z as found (midpoint tested first) are the
   same REAL functions as the repaired ones for every a <= b; they differ in binary64: C13_b64_sz_as_found_refuted *)
Theorem C13_lins_as_found_refuted : exists x a b, a <= b /\ ~ lins_orig_defined x a b.
Proof. exact lins_orig_undefined. Qed.
Print Assumptions C13_lins_as_found_refuted.

Theorem C13_tri_as_found_refuted : exists x a b c, a <= b <= c /\ x = b /\ mf_tri_orig RO x a b c = 0.
Proof. exact tri_orig_refuted. Qed.
Print Assumptions C13_tri_as_found_refuted.

Theorem C13_repairs_conservative :
  (forall x a b, a < b -> mf_lins_orig RO x a b = mf_lins RO x a b /\ mf_linz_orig RO x a b = mf_linz RO x a b) /\
  (forall x a b c, b < c -> mf_tri_orig RO x a b c = mf_tri RO x a b c) /\
  (forall x a b, a <= b -> mf_s_orig RO x a b = mf_s RO x a b /\ mf_z_orig RO x a b = mf_z RO x a b).
Proof. exact repairs_conservative. Qed.
Print Assumptions C13_repairs_conservative.

(* ============================================================ operators on [0,1]^2 *)
(* intersections: values in [0,1], commutative, monotone in each argument, below min, a cap 1 = a, a cap 0 = 0 *)
Theorem C13_cap_operators : is_cap (fuzzy_cap RO) /\ is_cap (fuzzy_cap_algebra RO) /\ is_cap (fuzzy_cap_bounded RO).
Proof. exact cap_operators. Qed.
Print Assumptions C13_cap_operators.

(* unions: values in [0,1], commutative, monotone in each argument, above max, a cup 0 = a, a cup 1 = 1 *)
Theorem C13_cup_operators : is_cup (fuzzy_cup RO) /\ is_cup (fuzzy_cup_algebra RO) /\ is_cup (fuzzy_cup_bounded RO).
Proof. exact cup_operators. Qed.
Print Assumptions C13_cup_operators.

(* equilibrium operator: in [0,1], commutative, monotone, between the algebraic product and the algebraic sum, below
   max, boundary cases, both square roots applied to non-negative arguments *)
Theorem C13_equ_operator :
  (forall a b, unit a -> unit b -> unit (fuzzy_equ RO a b)) /\
  (forall a b, fuzzy_equ RO a b = fuzzy_equ RO b a) /\
  (forall a a' b, unit a -> unit a' -> unit b -> a <= a' -> fuzzy_equ RO a b <= fuzzy_equ RO a' b) /\
  (forall a b b', unit a -> unit b -> unit b' -> b <= b' -> fuzzy_equ RO a b <= fuzzy_equ RO a b') /\
  (forall a b, unit a -> unit b -> fuzzy_cap_algebra RO a b <= fuzzy_equ RO a b <= fuzzy_cup_algebra RO a b) /\
  (forall a b, unit a -> unit b -> fuzzy_equ RO a b <= Rmax a b) /\
  (forall a, unit a -> fuzzy_equ RO a 0 = 0 /\ fuzzy_equ RO 0 a = 0 /\ fuzzy_equ RO 1 1 = 1) /\
  (forall a b, unit a -> unit b -> equ_defined a b).
Proof. exact equ_operator. Qed.
Print Assumptions C13_equ_operator.

(* the parametrised equilibrium operator a_fuzzy_equ_(gamma, a, b), gamma in [0,1] *)
Theorem C13_equ_gamma : forall g a b, unit a -> unit b -> 0 <= g <= 1 ->
  a * b <= fuzzy_equ_ RO g a b <= a + b - a * b /\
  pow_defined (a * b) (1 - g) /\ pow_defined (1 - (1 - a) * (1 - b)) g.
Proof. exact equg_spec. Qed.
Print Assumptions C13_equ_gamma.

Theorem C13_equ_gamma_half : forall a b, unit a -> unit b -> fuzzy_equ_ RO (/ 2) a b = fuzzy_equ RO a b.
Proof. exact equg_half. Qed.
Print Assumptions C13_equ_gamma_half.

(* complement and De Morgan duality *)
Theorem C13_complement :
  (forall a, unit a -> unit (fuzzy_not RO a)) /\ (forall a, fuzzy_not RO (fuzzy_not RO a) = a) /\
  (forall a b, fuzzy_cup RO a b = fuzzy_not RO (fuzzy_cap RO (fuzzy_not RO a) (fuzzy_not RO b))) /\
  (forall a b, fuzzy_cup_algebra RO a b = fuzzy_not RO (fuzzy_cap_algebra RO (fuzzy_not RO a) (fuzzy_not RO b))) /\
  (forall a b, fuzzy_cup_bounded RO a b = fuzzy_not RO (fuzzy_cap_bounded RO (fuzzy_not RO a) (fuzzy_not RO b))).
Proof. exact complement_operator. Qed.
Print Assumptions C13_complement.

(* a_pid_fuzzy_opr: the selector, and what holds of whatever it returns for ANY enumerator value *)
Theorem C13_opr_dispatch : forall k, fuzzy_opr RO k =
  match k with 1 => fuzzy_cap RO | 2 => fuzzy_cap_algebra RO | 3 => fuzzy_cap_bounded RO
             | 4 => fuzzy_cup RO | 5 => fuzzy_cup_algebra RO | 6 => fuzzy_cup_bounded RO | _ => fuzzy_equ RO end%nat.
Proof. exact opr_dispatch. Qed.
Print Assumptions C13_opr_dispatch.

Theorem C13_opr_all : forall k,
  (forall a b, unit a -> unit b -> unit (fuzzy_opr RO k a b)) /\
  (forall a b, fuzzy_opr RO k a b = fuzzy_opr RO k b a) /\
  (forall a a' b, unit a -> unit a' -> unit b -> a <= a' -> fuzzy_opr RO k a b <= fuzzy_opr RO k a' b) /\
  (forall a b b', unit a -> unit b -> unit b' -> b <= b' -> fuzzy_opr RO k a b <= fuzzy_opr RO k a b').
Proof. exact opr_all. Qed.
Print Assumptions C13_opr_all.

(* ============================================================ gain scheduling (a_pid_fuzzy_out_) *)
(* For every controller whose scratch block has the documented size for nfuzz (sized), whose rule bases are
   nrule x nrule (rules_ok), whose tables obey the difference-of-sigmoids precondition (table_ok), and every pair of
   inputs with at most nfuzz active sets each (ae / aec = the sets whose membership exceeds A_REAL_EPSILON, as recorded by
   a_pid_fuzzy_mf): the call succeeds - no access outside idx[2n] / val[n(n+2)] / the rule bases, all of which are
   bounds-checked in the model - the block keeps its size, the set-up is untouched, and each gain g satisfies gain_spec:
   EITHER both inputs have active sets and the joint membership sum is positive (fires), the weights are non-negative,
   the divisor is non-zero, g = base + (sum of w_ij * m_ij) * (1 / sum of w_ij), and base + lo <= g <= base + hi for any
   bounds lo <= m_ij <= hi on the consequents of the active rules; OR no rule fires / the rule base is NULL and g = base. *)
Theorem C13_gains : forall s ec e ae aec,
  sized s -> rules_ok s -> table_ok (nrule s) (me s) -> table_ok (nrule s) (mec s) ->
  walk_spec (nrule s) 0 e (me s) = Some ae -> walk_spec (nrule s) 0 ec (mec s) = Some aec ->
  (length ae <= nfuzz s)%nat -> (length aec <= nfuzz s)%nat ->
  exists s', fuzzy_out_ RO s ec e = Ok s' /\ sized s' /\ same_setup s s' /\
    gain_spec s (mkp s) ae aec (bkp s) (kp (fpid s')) /\
    gain_spec s (mki s) ae aec (bki s) (ki (fpid s')) /\
    gain_spec s (mkd s) ae aec (bkd s) (kd (fpid s')) /\
    sum (fpid s') = sum (fpid s) /\ out (fpid s') = out (fpid s) /\ err (fpid s') = err (fpid s).
Proof. exact fuzzy_out_spec. Qed.
Print Assumptions C13_gains.

(* the scratch clause on its own (no precondition on the tables): idx and val together are exactly
   A_PID_FUZZY_BFUZZ(nfuzz) bytes, val starts where a_pid_fuzzy_set_bfuzz puts it, and no access leaves them *)
Theorem C13_scratch_in_bounds : forall s ec e ae aec,
  sized s -> rules_ok s ->
  walk_spec (nrule s) 0 e (me s) = Some ae -> walk_spec (nrule s) 0 ec (mec s) = Some aec ->
  (length ae <= nfuzz s)%nat -> (length aec <= nfuzz s)%nat ->
  exists s', fuzzy_out_ RO s ec e = Ok s' /\ sized s' /\
    (length (sidx (sc s')) * 4 + length (sval (sc s')) * 8 = bfuzz_bytes (nfuzz s))%nat /\
    val_offset (nfuzz s) = (length (sidx (sc s')) * 4)%nat.
Proof. exact scratch_in_bounds. Qed.
Print Assumptions C13_scratch_in_bounds.

(* the recorded memberships are in (0,1] and the recorded indices are below nrule *)
Theorem C13_active_sets : forall n x a l, walk_spec n 0 x a = Some l ->
  List.Forall (fun q => (fst q < n)%nat) l /\ (table_ok n a -> unit_vals l).
Proof. exact active_sets. Qed.
Print Assumptions C13_active_sets.

(* fuzzy_gains_defined: the division 1/sum is executed only when `fires`, where the divisor is non-zero; with active
   sets on both inputs every operator but the bounded product fires; the bounded product fires iff some pair of active
   memberships sums above 1 (otherwise the repaired code keeps the base gains) *)
Theorem C13_division_defined : forall s ae aec,
  unit_vals ae -> unit_vals aec -> ae <> [] -> aec <> [] ->
  (fires s ae aec -> jsum s ae aec <> 0) /\
  (opr s <> 3%nat -> fires s ae aec) /\
  (opr s = 3%nat -> (fires s ae aec <-> exists a b, In a (map snd ae) /\ In b (map snd aec) /\ 1 < a + b)).
Proof. exact division_defined. Qed.
Print Assumptions C13_division_defined.

(* a whole a_pid_fuzzy_run / pos / inc / zero step: succeeds, keeps the block size and the set-up, gains as above, and
   the output is within outmin..outmax *)
Theorem C13_step : forall s o,
  sized s -> rules_ok s -> table_ok (nrule s) (me s) -> table_ok (nrule s) (mec s) ->
  outmin (fpid s) <= outmax (fpid s) ->
  match step_inputs s o with
  | None => exists s', fstep RO s o = Ok s' /\ sized s' /\ same_setup s s'
  | Some (ec, e) =>
    forall ae aec,
    walk_spec (nrule s) 0 e (me s) = Some ae -> walk_spec (nrule s) 0 ec (mec s) = Some aec ->
    (length ae <= nfuzz s)%nat -> (length aec <= nfuzz s)%nat ->
    exists s', fstep RO s o = Ok s' /\ sized s' /\ same_setup s s' /\
      gain_spec s (mkp s) ae aec (bkp s) (kp (fpid s')) /\
      gain_spec s (mki s) ae aec (bki s) (ki (fpid s')) /\
      gain_spec s (mkd s) ae aec (bkd s) (kd (fpid s')) /\
      outmin (fpid s) <= out (fpid s') <= outmax (fpid s)
  end.
Proof. exact fstep_spec. Qed.
Print Assumptions C13_step.

(* fuzzy_out_in_limits: after EVERY run/pos/inc step of EVERY history that the model executes (a_pid_fuzzy_zero may be
   interleaved anywhere), for all operator enumerators, tables and rule bases, the output is within its limits *)
Theorem C13_fuzzy_out_in_limits : forall ops s o s',
  outmin (fpid s) <= outmax (fpid s) -> is_control_step o -> frun R13_ops s (ops ++ [o]) = Ok s' ->
  outmin (fpid s) <= out (fpid s') <= outmax (fpid s).
Proof. exact fuzzy_out_in_limits_R13. Qed.
Print Assumptions C13_fuzzy_out_in_limits.

(* every step of every history leaves tables, rule bases, operator, base gains, sizes and limits alone *)
Theorem C13_history_setup : forall ops s s', frun R13_ops s ops = Ok s' -> same_setup s s'.
Proof. exact (frun_setup R13_ops). Qed.
Print Assumptions C13_history_setup.

(* ============================================================ non-vacuity and the code as found *)
(* a concrete controller (two triangular sets per input, 2 x 2 rule bases, a block of A_PID_FUZZY_BFUZZ(2) bytes) satisfies
   every hypothesis of C13_gains / C13_step for every operator, with both sets of both inputs active *)
Theorem C13_gains_hypotheses_satisfiable : forall k,
  let s := ex_state RO k in
  sized s /\ rules_ok s /\ table_ok (nrule s) (me s) /\ table_ok (nrule s) (mec s) /\
  walk_spec (nrule s) 0 (/ 2) (me s) = Some [(0%nat, / 2); (1%nat, / 2)] /\
  walk_spec (nrule s) 0 (/ 2) (mec s) = Some [(0%nat, / 2); (1%nat, / 2)] /\
  (2 <= nfuzz s)%nat /\ outmin (fpid s) <= outmax (fpid s).
Proof. exact ex_hypotheses. Qed.
Print Assumptions C13_gains_hypotheses_satisfiable.

(* on it the algebraic product fires all four rules with weight 1/4: kp = 10 + (1+2+3+4)/4, ki = 1 + 1/4, kd = base *)
Theorem C13_gains_example : exists s',
  fuzzy_out_ RO (ex_state RO 2) (/ 2) (/ 2) = Ok s' /\ sized s' /\
  kp (fpid s') = 25 / 2 /\ ki (fpid s') = 5 / 4 /\ kd (fpid s') = 0.
Proof. exact ex_algebra_gains. Qed.
Print Assumptions C13_gains_example.

(* the same state under the bounded product has joint membership sum 0: the repaired code keeps the base gains ... *)
Theorem C13_zero_sum_keeps_base : exists s',
  fuzzy_out_ RO (ex_state RO 3) (/ 2) (/ 2) = Ok s' /\ kp (fpid s') = 10 /\ ki (fpid s') = 1 /\ kd (fpid s') = 0.
Proof. exact ex_bounded_gains. Qed.
Print Assumptions C13_zero_sum_keeps_base.

(* ... while a_pid_fuzzy_out_ AS FOUND (no guard before inv = 1 / inv), run on the binary64 instance, stores NaN as kp:
   C13/Examples.v, orig_out_refuted (vm_compute on primitive floats; kept out of this file so that the assumptions
   listed here are the real-number axioms only).  Likewise overrun_detected: a block sized for one active set per input
   while two are active makes the model return Fail ErrScratch.  checks/C13.py builds C13/Examples.v on every run. *)

(* ============================================================ rounded arithmetic (C13/MfRound.v)
   The same model terms at  Rnd_ops rnd  (Common/RoundOps.v: every + - * / sqrt and literal followed by rnd : R -> R,
   comparisons exact, overflow outside the model) and, for the functions that call libm, at  Orc_ops rnd E P  (the same,
   with exp := E and pow := P ORACLES constrained by orc_ok: 0 <= E, E <= 1 on t <= 0, E monotone, 0 <= P u y for u >= 0,
   0 <= P u 2, P u 2 monotone in u >= 0; Rnd13_ops rnd is the correctly rounded case).  unitR v := 0 <= v <= 1.
   mono_rnd rnd: monotone, rnd 0 = 0, rnd 1 = 1, rnd (-x) = - rnd x.  nz rnd a b := a < b -> rnd (b - a) <> 0 (no flush
   to zero on the subtraction whose result is divided by).  mid rnd a b := rnd (rnd (a + b) / 2), the computed midpoint.
   sz_in rnd P x a b := a < x < b -> (mid <= x -> 2 P (rnd (rnd (b - x) / rnd (b - a))) 2 <= 1) /\
                                     (x <= mid -> 2 P (rnd (rnd (x - a) / rnd (b - a))) 2 <= 1)
     (the quadratic branch that the repaired a_mf_s / a_mf_z execute at x; nothing is required outside (a,b)).
   sz_ok rnd P a b := 2 P (rnd (rnd (b - mid) / rnd (b - a))) 2 <= 1 /\ 2 P (rnd (rnd (mid - a) / rnd (b - a))) 2 <= 1
     (the parameter-only condition that the midpoint-first code needed; it implies sz_in for every x). *)
From LibaV Require Import Common.RoundOps Common.RoundFlocq Common.RoundMono C13.MfRound.

(* piecewise-linear families: in [0,1] ... *)
Theorem C13_round_ramp_range : forall rnd, mono_rnd rnd ->
  (forall x a b c, nz rnd a b -> nz rnd b c -> unitR (mf_tri (Rnd_ops rnd) x a b c)) /\
  (forall x a b c d, nz rnd a b -> nz rnd c d -> unitR (mf_trap (Rnd_ops rnd) x a b c d)) /\
  (forall x a b, nz rnd a b -> unitR (mf_lins (Rnd_ops rnd) x a b)) /\
  (forall x a b, nz rnd a b -> unitR (mf_linz (Rnd_ops rnd) x a b)).
Proof. exact round_ramp_range. Qed.
Print Assumptions C13_round_ramp_range.

(* ... exactly 1 on the core and exactly 0 outside the support: the statements of C13_mf_core / C13_mf_support *)
Theorem C13_round_ramp_core_support : forall rnd, mono_rnd rnd ->
  ((forall x a b c d, b <= x <= c -> mf_trap (Rnd_ops rnd) x a b c d = 1) /\
   (forall a b c, mf_tri (Rnd_ops rnd) b a b c = 1) /\
   (forall x a b, a <= b -> b <= x -> mf_lins (Rnd_ops rnd) x a b = 1) /\
   (forall x a b, nz rnd a b -> x < a \/ (x <= a /\ a < b) -> mf_linz (Rnd_ops rnd) x a b = 1)) /\
  ((forall x a b c d, a <= b -> b <= c -> c <= d ->
      (x < a \/ (x <= a /\ a < b) \/ d < x \/ (d <= x /\ c < d)) -> mf_trap (Rnd_ops rnd) x a b c d = 0) /\
   (forall x a b c, a <= b -> b <= c ->
      (x < a \/ (x <= a /\ a < b) \/ c < x \/ (c <= x /\ b < c)) -> mf_tri (Rnd_ops rnd) x a b c = 0) /\
   (forall x a b, nz rnd a b -> x < a \/ (x <= a /\ a < b) -> mf_lins (Rnd_ops rnd) x a b = 0) /\
   (forall x a b, a <= b -> b <= x -> mf_linz (Rnd_ops rnd) x a b = 0)).
Proof. exact round_ramp_core_support. Qed.
Print Assumptions C13_round_ramp_core_support.

(* piecewise-quadratic families (repaired: end points tested before the computed midpoint): exactly 1 on the core and
   exactly 0 outside the support with NO midpoint condition - the statements of C13_mf_core / C13_mf_support; range under
   sz_in, which holds outside (a,b) and under the old parameter condition sz_ok *)
Theorem C13_round_sz : forall rnd E P, mono_rnd rnd -> rnd 2 = 2 -> orc_ok E P ->
  (forall x a b, sz_in rnd P x a b -> unitR (mf_s (Orc_ops rnd E P) x a b) /\ unitR (mf_z (Orc_ops rnd E P) x a b)) /\
  (forall x a b c d, sz_in rnd P x a b -> sz_in rnd P x c d -> unitR (mf_pi (Orc_ops rnd E P) x a b c d)) /\
  (forall x a b, (x <= a \/ b <= x \/ sz_ok rnd P a b) -> sz_in rnd P x a b) /\
  (forall x a b, a < b -> b <= x -> mf_s (Orc_ops rnd E P) x a b = 1) /\
  (forall x a b, x <= a -> mf_s (Orc_ops rnd E P) x a b = 0) /\
  (forall x a b, x <= a -> a < b -> mf_z (Orc_ops rnd E P) x a b = 1) /\
  (forall x a b, b <= x -> mf_z (Orc_ops rnd E P) x a b = 0) /\
  (forall x a b c d, b <= x <= c -> mf_pi (Orc_ops rnd E P) x a b c d = 1) /\
  (forall x a b c d, a <= b -> c <= d -> b <= c ->
     (x <= a /\ a < b \/ x < a \/ d <= x /\ c < d \/ d < x) -> mf_pi (Orc_ops rnd E P) x a b c d = 0).
Proof. exact round_sz. Qed.
Print Assumptions C13_round_sz.

(* IEEE binary64 with correctly rounded pow: S, Z and pi lie in [0,1] for ALL binary64 numbers x and parameters - no
   ordering, no midpoint condition.  Reason (C13/MfMid64.v): for binary64 numbers a < x < b the ratio of the rounded
   differences on the executed branch is at most 11/16 (2/3 before rounding, attained at a = 1 - 2^-53, x = 1, b = 1 + 2^-52;
   1/2 over the reals), and 2 (11/16)^2 < 1. *)
Theorem C13_b64_sz_pi_range :
  (forall x a b, rnd64 x = x -> rnd64 a = a -> rnd64 b = b ->
     unitR (mf_s (Rnd13_ops rnd64) x a b) /\ unitR (mf_z (Rnd13_ops rnd64) x a b)) /\
  (forall x a b c d, rnd64 x = x -> rnd64 a = a -> rnd64 b = b -> rnd64 c = c -> rnd64 d = d ->
     unitR (mf_pi (Rnd13_ops rnd64) x a b c d)) /\
  (forall x a b, rnd64 x = x -> rnd64 a = a -> rnd64 b = b -> a < x < b ->
     (rnd64 (rnd64 (a + b) / 2) <= x -> rnd64 (b - x) / rnd64 (b - a) <= 11 / 16) /\
     (x <= rnd64 (rnd64 (a + b) / 2) -> rnd64 (x - a) / rnd64 (b - a) <= 11 / 16)).
Proof. exact b64_sz_pi_range. Qed.
Print Assumptions C13_b64_sz_pi_range.

(* sz_in cannot be dropped from C13_round_sz: a monotone, odd rounding fixing 0, 1, 2 (identity outside (-1,1), nearest of
   -1, 0, 1 inside) makes the repaired a_mf_s(1; 0, 2) = 2 *)
Theorem C13_round_sz_needs_condition : exists rnd,
  mono_rnd rnd /\ rnd 2 = 2 /\ orc_ok (fun x => rnd (exp x)) (fun x y => rnd (Rpow x y)) /\
  exists x a b, rnd x = x /\ rnd a = a /\ rnd b = b /\ a < b /\ nz rnd a b /\ mf_s (Rnd13_ops rnd) x a b = 2.
Proof. exact mono_rnd_not_enough. Qed.
Print Assumptions C13_round_sz_needs_condition.

(* the bodies AS FOUND (mf_s_orig / mf_z_orig: computed midpoint tested first) leave [0,1] in IEEE binary64 with correctly
   rounded pow: for adjacent parameters (u52 = 2^-52) a + b is a tie that rounds onto 2b (2a), the computed midpoint is b
   (a), and the value on the core is 2.  The unrepaired C functions a_mf_s / a_mf_z return 2 on these inputs; the repaired
   bodies return 1. *)
Theorem C13_b64_sz_as_found_refuted :
  (exists x a b, rnd64 x = x /\ rnd64 a = a /\ rnd64 b = b /\ a < b /\ b <= x /\ mf_s_orig (Rnd13_ops rnd64) x a b = 2) /\
  (exists x a b, rnd64 x = x /\ rnd64 a = a /\ rnd64 b = b /\ a < b /\ x <= a /\ mf_z_orig (Rnd13_ops rnd64) x a b = 2) /\
  mf_s_orig (Rnd13_ops rnd64) (1 + 2 * u52) (1 + u52) (1 + 2 * u52) = 2 /\
  mf_z_orig (Rnd13_ops rnd64) (1 + 2 * u52) (1 + 2 * u52) (1 + 3 * u52) = 2 /\
  mf_s (Rnd13_ops rnd64) (1 + 2 * u52) (1 + u52) (1 + 2 * u52) = 1 /\
  mf_z (Rnd13_ops rnd64) (1 + 2 * u52) (1 + 2 * u52) (1 + 3 * u52) = 1.
Proof. exact b64_sz_as_found_refuted. Qed.
Print Assumptions C13_b64_sz_as_found_refuted.

(* families built on exp / pow: in [0,1] for every oracle pair satisfying orc_ok *)
Theorem C13_round_smooth_range : forall rnd E P, mono_rnd rnd -> rnd 2 = 2 -> orc_ok E P ->
  (forall x s c, unitR (mf_gauss (Orc_ops rnd E P) x s c)) /\
  (forall x s1 c1 s2 c2, unitR (mf_gauss2 (Orc_ops rnd E P) x s1 c1 s2 c2)) /\
  (forall x a b c, unitR (mf_gbell (Orc_ops rnd E P) x a b c)) /\
  (forall x a c, unitR (mf_sig (Orc_ops rnd E P) x a c)) /\
  (forall x a1 c1 a2 c2, unitR (mf_psig (Orc_ops rnd E P) x a1 c1 a2 c2)) /\
  (forall x a c1 c2, (0 <= a /\ c1 <= c2) \/ (a <= 0 /\ c2 <= c1) -> unitR (mf_dsig (Orc_ops rnd E P) x a c1 a c2)).
Proof. exact round_smooth_range. Qed.
Print Assumptions C13_round_smooth_range.

(* operators on [0,1]^2 (the upper bound of the algebraic sum is not proved) *)
Theorem C13_round_operators : forall rnd, mono_rnd rnd -> rnd 2 = 2 -> forall a b, unitR a -> unitR b ->
  unitR (fuzzy_not (Rnd_ops rnd) a) /\
  unitR (fuzzy_cap (Rnd_ops rnd) a b) /\ unitR (fuzzy_cap_algebra (Rnd_ops rnd) a b) /\
  unitR (fuzzy_cap_bounded (Rnd_ops rnd) a b) /\
  unitR (fuzzy_cup (Rnd_ops rnd) a b) /\ unitR (fuzzy_cup_bounded (Rnd_ops rnd) a b) /\
  0 <= fuzzy_cup_algebra (Rnd_ops rnd) a b /\
  unitR (fuzzy_equ (Rnd_ops rnd) a b).
Proof. exact round_operators. Qed.
Print Assumptions C13_round_operators.

(* IEEE binary64 round-to-nearest-even satisfies every hypothesis on rnd, the correctly rounded oracles satisfy orc_ok,
   and nz holds for parameters that are binary64 numbers (gradual underflow) ... *)
Theorem C13_b64_instances :
  mono_rnd rnd64 /\ rnd64 2 = 2 /\ orc_ok (fun x => rnd64 (exp x)) (fun x y => rnd64 (Rpow x y)) /\
  (forall a b, rnd64 a = a -> rnd64 b = b -> nz rnd64 a b).
Proof. exact b64_instances. Qed.
Print Assumptions C13_b64_instances.

(* ... hence, in binary64, for parameters that are binary64 numbers and every real x *)
Theorem C13_b64_ramp_range :
  (forall x a b c, rnd64 a = a -> rnd64 b = b -> rnd64 c = c -> unitR (mf_tri (Rnd_ops rnd64) x a b c)) /\
  (forall x a b c d, rnd64 a = a -> rnd64 b = b -> rnd64 c = c -> rnd64 d = d -> unitR (mf_trap (Rnd_ops rnd64) x a b c d)) /\
  (forall x a b, rnd64 a = a -> rnd64 b = b -> unitR (mf_lins (Rnd_ops rnd64) x a b)) /\
  (forall x a b, rnd64 a = a -> rnd64 b = b -> unitR (mf_linz (Rnd_ops rnd64) x a b)).
Proof. exact b64_ramp_range. Qed.
Print Assumptions C13_b64_ramp_range.

Theorem C13_b64_smooth_range :
  (forall x s c, unitR (mf_gauss (Rnd13_ops rnd64) x s c)) /\
  (forall x s1 c1 s2 c2, unitR (mf_gauss2 (Rnd13_ops rnd64) x s1 c1 s2 c2)) /\
  (forall x a b c, unitR (mf_gbell (Rnd13_ops rnd64) x a b c)) /\
  (forall x a c, unitR (mf_sig (Rnd13_ops rnd64) x a c)) /\
  (forall x a1 c1 a2 c2, unitR (mf_psig (Rnd13_ops rnd64) x a1 c1 a2 c2)) /\
  (forall x a c1 c2, (0 <= a /\ c1 <= c2) \/ (a <= 0 /\ c2 <= c1) -> unitR (mf_dsig (Rnd13_ops rnd64) x a c1 a c2)).
Proof. exact b64_smooth_range. Qed.
Print Assumptions C13_b64_smooth_range.

(* non-vacuity: the hypotheses of C13_b64_sz_pi_range at a point strictly inside (a,b), where a quadratic branch IS
   executed, with the values computed there in binary64; and the old parameter condition sz_ok and the no-flush condition
   at a = 0, b = 4 (mid = 2, both ratios 1/2) *)
Theorem C13_b64_sz_hypotheses_satisfiable :
  (0 < 1 < 4 /\ sz_in rnd64 (fun x y => rnd64 (Rpow x y)) 1 0 4 /\
   mf_s (Rnd13_ops rnd64) 1 0 4 = / 8 /\ mf_z (Rnd13_ops rnd64) 1 0 4 = 7 / 8) /\
  (0 <= 4 /\ sz_ok rnd64 (fun x y => rnd64 (Rpow x y)) 0 4 /\
   0 < mid rnd64 0 4 < 4 /\ nz rnd64 0 4 /\ rnd64 0 = 0 /\ rnd64 4 = 4).
Proof. exact (conj sz_in_ex sz_ok_ex). Qed.
Print Assumptions C13_b64_sz_hypotheses_satisfiable.

(* ------------------------------------------------------------------------------------------------------------------
   OPEN FINDING (KNOWN_FINDINGS.txt, keys a_mf_<name>/span-overflow): for finite arguments and well-ordered finite parameters
   whose span b - a exceeds the largest binary64 number, the piecewise-linear families return NaN or lose the value in the
   binary64 run of the model (and in the C: checks/C13.py replays these inputs).  The [0,1] theorems above are about the
   rounded reals, where overflow does not exist. *)
From Coq Require Floats.
From LibaV Require Import Common.FloatOps C13.MfOverflow.
Theorem C13_f64_span_overflow_refuted :
  (fin px && fin pa && fin pb && fin pc && fin pd && PrimFloat.ltb pa px && PrimFloat.ltb px pb && PrimFloat.ltb pb pc
   && PrimFloat.ltb pc pd = true) /\
  PrimFloat.is_nan (mf_tri F64_ops px pa pb pc) = true /\
  PrimFloat.is_nan (mf_trap F64_ops px pa pb pc pd) = true /\
  PrimFloat.is_nan (mf_lins F64_ops px pa pb) = true /\
  PrimFloat.eqb (mf_linz F64_ops px pa pb) PrimFloat.zero = true.
Proof. exact f64_mf_span_overflow. Qed.
Print Assumptions C13_f64_span_overflow_refuted.

(* ------------------------------------------------------------------------------------------------------------------
   THE [0,1] RANGE ON THE PRIMITIVE-FLOAT RUN (C13/MfFloat.v, Common/F64Refine.v): for finite binary64 arguments and
   parameters of magnitude at most 2^1022 - no ordering assumed - the float values of a_mf_tri / a_mf_lins / a_mf_linz (the
   instance compared bit for bit with the C) are finite, equal the rounded-real values, and lie in [0,1].  Together with
   C13_f64_span_overflow_refuted this delimits the claim: it holds up to 2^1022 and fails once the span passes 2^1024. *)
From Flocq Require Import Core.
From LibaV Require Import Common.F64Refine C13.MfFloat.
Theorem C13_f64_ramps_are_rounded_ramps :
  (forall x a b c, okf x -> okf a -> okf b -> okf c ->
     ffinite (mf_tri F64_ops x a b c) = true /\
     f2r (mf_tri F64_ops x a b c) = mf_tri (Rnd_ops rnd64) (f2r x) (f2r a) (f2r b) (f2r c)) /\
  (forall x a b, okf x -> okf a -> okf b ->
     ffinite (mf_lins F64_ops x a b) = true /\ f2r (mf_lins F64_ops x a b) = mf_lins (Rnd_ops rnd64) (f2r x) (f2r a) (f2r b)) /\
  (forall x a b, okf x -> okf a -> okf b ->
     ffinite (mf_linz F64_ops x a b) = true /\ f2r (mf_linz F64_ops x a b) = mf_linz (Rnd_ops rnd64) (f2r x) (f2r a) (f2r b)).
Proof. exact (conj f64_mf_tri_refines (conj f64_mf_lins_refines f64_mf_linz_refines)). Qed.
Print Assumptions C13_f64_ramps_are_rounded_ramps.

Theorem C13_f64_ramps_unit :
  (forall x a b c, okf x -> okf a -> okf b -> okf c ->
     ffinite (mf_tri F64_ops x a b c) = true /\ 0 <= f2r (mf_tri F64_ops x a b c) <= 1) /\
  (forall x a b, okf x -> okf a -> okf b ->
     ffinite (mf_lins F64_ops x a b) = true /\ 0 <= f2r (mf_lins F64_ops x a b) <= 1) /\
  (forall x a b, okf x -> okf a -> okf b ->
     ffinite (mf_linz F64_ops x a b) = true /\ 0 <= f2r (mf_linz F64_ops x a b) <= 1).
Proof. exact f64_mf_ramps_unit. Qed.
Print Assumptions C13_f64_ramps_unit.

Theorem C13_f64_trap_unit : forall x a b c d, okf x -> okf a -> okf b -> okf c -> okf d ->
  (ffinite (mf_trap F64_ops x a b c d) = true /\
   f2r (mf_trap F64_ops x a b c d) = mf_trap (Rnd_ops rnd64) (f2r x) (f2r a) (f2r b) (f2r c) (f2r d)) /\
  0 <= f2r (mf_trap F64_ops x a b c d) <= 1.
Proof. exact (fun x a b c d Ox Oa Ob Oc Od => conj (f64_mf_trap_refines x a b c d Ox Oa Ob Oc Od) (proj2 (f64_mf_trap_unit x a b c d Ox Oa Ob Oc Od))). Qed.
Print Assumptions C13_f64_trap_unit.
