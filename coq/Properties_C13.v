(* C13 - placeholder while the pipeline is brought up; replaced by the full statement list. *)
From Coq Require Import Reals List.
From LibaV Require Import Common.NumOps Common.ROps C13.MfDefs.
Import ListNotations.
Local Open Scope R_scope.

Theorem C13_mf_dispatch_tri : forall x a b c d, mf R_ops 8 x [a; b; c; d] = Some (mf_tri R_ops x a b c).
Proof. exact (fun x a b c d => eq_refl). Qed.
Print Assumptions C13_mf_dispatch_tri.
