(* C17 -- the bit-serial register computes the remainder of a polynomial division over GF(2):
     init * x^(8n)  +  M(x) * x^w   =   q(x) * (x^w + poly)  +  crc ,   deg crc < w
   (polynomials as N, + is lxor, * is the carry-less product clmul).  By uniqueness of Euclidean
   division this characterises the CRC; uniqueness itself is not needed (and not proved) here. *)
From Coq Require Import NArith List Lia Bool ZifyBool ZifyN.
From LibaV Require Import C17.CrcDefs C17.BitsProofs C17.RevProofs C17.CrcProofs.
Import ListNotations.
Local Open Scope N_scope.

Lemma clmul_double q g : clmul (N.double q) g = N.double (clmul q g).
Proof. destruct q; reflexivity. Qed.

Lemma clmul_succ_double q g : clmul (N.succ_double q) g = N.lxor (N.double (clmul q g)) g.
Proof. destruct q; reflexivity. Qed.

Lemma double_lxor a b : N.double (N.lxor a b) = N.lxor (N.double a) (N.double b).
Proof.
  apply N.bits_inj; intro i. rewrite N.lxor_spec, !tb_double, N.lxor_spec.
  destruct (1 <=? i); reflexivity.
Qed.

Lemma shiftl_succ_double v k : N.shiftl v (N.succ k) = N.double (N.shiftl v k).
Proof. apply N.shiftl_succ_r. Qed.

Section Division.
Variable w p : N.
Hypothesis Hw : 1 <= w.
Hypothesis Hp : p < 2 ^ w.
Let G := N.lor (2 ^ w) p.       (* the generator x^w + poly *)

(* one clock = multiply by x, add the incoming bit at x^w, subtract G if the x^w coefficient is set *)
Lemma feed_m_poly r b : r < 2 ^ w ->
  feed_m w p r b =
  N.lxor (N.lxor (N.double r) (if b then 2 ^ w else 0))
         (if xorb (N.testbit r (w - 1)) b then G else 0).
Proof.
  intros Hr. apply N.bits_inj; intro i.
  (* arithmetic facts first, while the context is small (lia with ZifyBool is slow otherwise) *)
  assert (Hcase : (i <? w = true /\ (w =? i) = false /\ (w - 1 =? i - 1) && (1 <=? i) = false) \/
                  (i = w /\ (1 <=? w) = true /\ (w <? w) = false) \/
                  (i <? w = false /\ (w =? i) = false /\ w <= i - 1 /\ w <= i)).
  { destruct (N.lt_trichotomy i w) as [Hi|[Hi|Hi]]; [left|right;left|right;right]; lia. }
  assert (Hpw : N.testbit p w = false) by (apply (tb_high p w); [assumption|lia]).
  unfold feed_m, step_m. cbv zeta. rewrite N.lxor_spec.
  assert (HT : N.testbit (if b then N.shiftl 1 (w - 1) else 0) (w - 1) = b).
  { destruct b; [|apply N.bits_0]. rewrite N.shiftl_1_l, tb_pow2. apply N.eqb_refl. }
  rewrite HT. clear HT.
  set (t := xorb (N.testbit r (w - 1)) b).
  assert (Hsh : N.testbit (trunc w (N.shiftl (N.lxor r (if b then N.shiftl 1 (w - 1) else 0)) 1)) i
                = (i <? w) && ((1 <=? i) && xorb (N.testbit r (i - 1)) (b && ((w - 1 =? i - 1))))).
  { rewrite tb_trunc, tb_shiftl, N.lxor_spec. do 3 f_equal.
    destruct b; [|apply N.bits_0]. now rewrite N.shiftl_1_l, tb_pow2. }
  assert (HG : N.testbit G i = (w =? i) || N.testbit p i).
  { unfold G. now rewrite N.lor_spec, tb_pow2. }
  assert (Hd : N.testbit (N.double r) i = (1 <=? i) && N.testbit r (i - 1)) by apply tb_double.
  assert (Hbw : N.testbit (if b then 2 ^ w else 0) i = b && (w =? i)).
  { destruct b; [now rewrite tb_pow2|apply N.bits_0]. }
  assert (HL : forall v', N.testbit (if t then N.lxor v' p else v') i
                          = xorb (N.testbit v' i) (t && N.testbit p i)).
  { intro v'. destruct t; [apply N.lxor_spec|now rewrite xorb_false_r]. }
  assert (HR : N.testbit (if t then G else 0) i = t && ((w =? i) || N.testbit p i)).
  { destruct t; [exact HG|apply N.bits_0]. }
  rewrite HL, Hsh, !N.lxor_spec, HR, Hd, Hbw.
  destruct Hcase as [(E1 & E2 & E3)|[(E1 & E2 & E3)|(E1 & E2 & E3 & E4)]].
  - rewrite E1, E2. cbn [andb orb]. rewrite andb_false_r, xorb_false_r.
    destruct (1 <=? i); cbn [andb]; [|reflexivity].
    rewrite andb_true_r in E3. rewrite E3. now rewrite andb_false_r, xorb_false_r.
  - subst i. rewrite E2, E3, !N.eqb_refl, Hpw. cbn [andb orb].
    unfold t. destruct (N.testbit r (w - 1)); destruct b; reflexivity.
  - rewrite E1, E2. cbn [andb orb].
    rewrite (tb_high p w i) by assumption.
    rewrite (tb_high r w (i - 1)) by assumption.
    now rewrite !andb_false_r.
Qed.

Lemma fold_feed_lt bs : forall v, v < 2 ^ w -> fold_left (feed_m w p) bs v < 2 ^ w.
Proof.
  induction bs as [|b bs IH]; intros v Hv; [exact Hv|]. cbn [fold_left]. apply IH.
  unfold feed_m. now apply step_m_lt.
Qed.

Lemma shiftl_bitval M b :
  N.shiftl (bitval M b) w = N.lxor (N.double (N.shiftl M w)) (if b then 2 ^ w else 0).
Proof.
  unfold bitval. apply N.bits_inj; intro i.
  rewrite tb_shiftl, N.lor_spec, N.lxor_spec, !tb_double, tb_shiftl, tb_b2n.
  assert (Hbw : N.testbit (if b then 2 ^ w else 0) i = b && (w =? i)).
  { destruct b; [now rewrite tb_pow2|apply N.bits_0]. }
  rewrite Hbw.
  destruct (N.leb_spec w i) as [Hi|Hi]; cbn [andb].
  - destruct (N.eqb_spec (i - w) 0) as [E|E].
    + assert (i = w) by lia. subst i. rewrite N.eqb_refl.
      destruct (N.leb_spec 1 (w - w)); [lia|]. cbn [andb orb].
      destruct (N.leb_spec 1 w); [|lia]. cbn [andb].
      destruct (N.leb_spec w (w - 1)); [lia|]. cbn [andb]. now rewrite xorb_false_l.
    + destruct (N.leb_spec 1 (i - w)); [|lia]. destruct (N.leb_spec 1 i); [|lia].
      destruct (N.leb_spec w (i - 1)); [|lia]. destruct (N.eqb_spec w i); [lia|].
      cbn [andb]. rewrite !andb_false_r, orb_false_r, xorb_false_r. f_equal. lia.
  - destruct (N.eqb_spec w i); [lia|]. rewrite andb_false_r, xorb_false_r.
    destruct (N.leb_spec 1 i); cbn [andb]; [|reflexivity].
    destruct (N.leb_spec w (i - 1)); [lia|reflexivity].
Qed.

(* invariant of the division, one message bit at a time *)
Lemma division_invariant bs : forall v, v < 2 ^ w ->
  exists q,
    N.lxor (N.shiftl v (N.of_nat (length bs))) (N.shiftl (bits_val bs) w) =
    N.lxor (clmul q G) (fold_left (feed_m w p) bs v).
Proof.
  induction bs as [|b bs IH] using rev_ind; intros v Hv.
  - exists 0. cbn [length fold_left bits_val clmul]. change (N.of_nat 0) with 0.
    now rewrite N.shiftl_0_r, N.shiftl_0_l, N.lxor_0_r, N.lxor_0_l.
  - destruct (IH v Hv) as [q Hq].
    set (r := fold_left (feed_m w p) bs v) in *.
    assert (Hr : r < 2 ^ w) by (now apply fold_feed_lt).
    set (t := xorb (N.testbit r (w - 1)) b).
    exists (if t then N.succ_double q else N.double q).
    rewrite fold_left_app. cbn [fold_left]. fold r.
    rewrite feed_m_poly by exact Hr. fold t.
    unfold bits_val in *. rewrite fold_left_app. cbn [fold_left].
    rewrite app_length. cbn [length].
    replace (length bs + 1)%nat with (S (length bs)) by lia. rewrite Nat2N.inj_succ.
    rewrite shiftl_succ_double, shiftl_bitval.
    rewrite N.lxor_assoc, <- (N.lxor_assoc (N.double (N.shiftl v _))), <- double_lxor, Hq, double_lxor.
    destruct t.
    + rewrite clmul_succ_double. xor_solve.
    + rewrite clmul_double. xor_solve.
Qed.

End Division.

(* from bits to bytes *)
Lemma bitval_chain n : forall acc b, b < 2 ^ N.of_nat n ->
  fold_left bitval (map (N.testbit b) (down n)) acc = N.lor (N.shiftl acc (N.of_nat n)) b.
Proof.
  induction n as [|n IH]; intros acc b Hb.
  - change (2 ^ N.of_nat 0) with 1 in Hb. assert (b = 0) by lia. subst.
    cbn [down map fold_left]. change (N.of_nat 0) with 0. now rewrite N.shiftl_0_r, N.lor_0_r.
  - cbn [down map fold_left]. rewrite Nat2N.inj_succ in *.
    replace (map (N.testbit b) (down n)) with (map (N.testbit (trunc (N.of_nat n) b)) (down n)).
    + rewrite IH by apply trunc_lt. unfold bitval.
      apply N.bits_inj; intro i.
      rewrite !N.lor_spec, !tb_shiftl, N.lor_spec, tb_double, tb_b2n, tb_trunc.
      destruct (N.leb_spec (N.of_nat n) i) as [Hi|Hi]; cbn [andb].
      * destruct (N.ltb_spec i (N.of_nat n)); [lia|]. cbn [andb]. rewrite orb_false_r.
        destruct (N.eqb_spec (i - N.of_nat n) 0) as [E|E].
        -- assert (i = N.of_nat n) by lia. subst i.
           destruct (N.leb_spec 1 (N.of_nat n - N.of_nat n)); [lia|]. cbn [andb orb].
           destruct (N.leb_spec (N.succ (N.of_nat n)) (N.of_nat n)); [lia|]. cbn [andb orb].
           now rewrite andb_true_r.
        -- destruct (N.leb_spec 1 (i - N.of_nat n)); [|lia].
           destruct (N.leb_spec (N.succ (N.of_nat n)) i); [|lia]. cbn [andb].
           rewrite andb_false_r, orb_false_r.
           rewrite (tb_high b (N.succ (N.of_nat n)) i) by (assumption || lia).
           rewrite orb_false_r. f_equal. lia.
      * destruct (N.ltb_spec i (N.of_nat n)); [|lia].
        destruct (N.leb_spec (N.succ (N.of_nat n)) i); [lia|]. reflexivity.
    + apply map_ext_in. intros j Hj. apply down_lt in Hj. rewrite tb_trunc.
      destruct (N.ltb_spec j (N.of_nat n)); [reflexivity|lia].
Qed.

Lemma bits_val_bytes data : Forall (fun b => b < 2 ^ 8) data -> forall acc,
  fold_left bitval (flat_map byte_bits_msb data) acc =
  fold_left (fun a b => N.lor (N.shiftl a 8) b) data acc.
Proof.
  intros Hd. induction Hd as [|b data Hb Hd IH]; intro acc; [reflexivity|].
  cbn [flat_map fold_left]. rewrite fold_left_app, IH. f_equal.
  change (byte_bits_msb b) with (map (N.testbit b) (down 8)).
  now rewrite (bitval_chain 8).
Qed.

Lemma length_bits data : N.of_nat (length (flat_map byte_bits_msb data)) = 8 * N.of_nat (length data).
Proof.
  induction data as [|b data IH]; [reflexivity|].
  cbn [flat_map]. rewrite app_length, Nat2N.inj_add, IH.
  change (length (byte_bits_msb b)) with 8%nat. cbn [length]. lia.
Qed.

Theorem crc_bits_m_remainder_aux w p data v : 1 <= w -> p < 2 ^ w -> v < 2 ^ w ->
  Forall (fun b => b < 2 ^ 8) data ->
  crc_bits_m w p data v < 2 ^ w /\
  exists q,
    N.lxor (N.shiftl v (8 * N.of_nat (length data))) (N.shiftl (msg_poly data) w) =
    N.lxor (clmul q (N.lor (2 ^ w) p)) (crc_bits_m w p data v).
Proof.
  intros Hw Hp Hv Hd. split; [now apply crc_bits_m_lt|].
  destruct (division_invariant w p Hw Hp (flat_map byte_bits_msb data) v Hv) as [q Hq].
  exists q. unfold crc_bits_m. rewrite <- Hq, length_bits. f_equal. f_equal.
  unfold bits_val, msg_poly. symmetry. now apply bits_val_bytes.
Qed.
