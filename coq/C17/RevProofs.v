(* C17 -- a_u8_rev .. a_u64_rev (swap-stage implementation) = the bit mirror [bitrev].
   Method: every stage is rewritten from `|` to `^` (the two halves are disjoint), which makes
   the whole function xor-linear; it agrees with [bitrev] on the basis words 2^i (vm_compute,
   8/16/32/64 evaluations); the GF(2) lifting lemma extends this to all 2^w words. *)
From Coq Require Import NArith List Lia Bool ZifyBool ZifyN.
From LibaV Require Import C17.CrcDefs C17.BitsProofs.
Import ListNotations.
Local Open Scope N_scope.

(* ---------------------------------------------------------------------------------------- *)
(* the reference mirror                                                                      *)

Lemma tb_bitrev n x i :
  N.testbit (bitrev n x) i = (i <? N.of_nat n) && N.testbit x (N.of_nat n - 1 - i).
Proof.
  revert x i; induction n as [|n IH]; intros x i.
  - cbn [bitrev]. rewrite N.bits_0. destruct (N.ltb_spec i (N.of_nat 0)); [lia|reflexivity].
  - cbn [bitrev]. rewrite N.lor_spec, tb_shiftl, N.land_spec, tb_one, IH, tb_shiftr.
    rewrite Nat2N.inj_succ.
    destruct (N.leb_spec (N.of_nat n) i); destruct (N.ltb_spec i (N.of_nat n));
      destruct (N.ltb_spec i (N.succ (N.of_nat n))); destruct (N.eqb_spec (i - N.of_nat n) 0);
      cbn [andb orb]; try lia; rewrite ?andb_true_r, ?andb_false_r, ?orb_false_r; try reflexivity.
    + f_equal; lia.
    + f_equal; lia.
Qed.

Lemma bitrev_lt n x : bitrev n x < 2 ^ N.of_nat n.
Proof.
  apply lt_pow2_of_bits. intros i Hi. rewrite tb_bitrev.
  destruct (N.ltb_spec i (N.of_nat n)); [lia|reflexivity].
Qed.

Lemma bitrev_xlinear n : xlinear (bitrev n).
Proof.
  intros x y. apply N.bits_inj; intro i. rewrite N.lxor_spec, !tb_bitrev, N.lxor_spec.
  destruct (i <? N.of_nat n); cbn [andb]; reflexivity.
Qed.

Lemma bitrev_involutive n x : x < 2 ^ N.of_nat n -> bitrev n (bitrev n x) = x.
Proof.
  intros Hx. apply N.bits_inj; intro i. rewrite !tb_bitrev.
  destruct (N.ltb_spec i (N.of_nat n)); cbn [andb].
  - destruct (N.ltb_spec (N.of_nat n - 1 - i) (N.of_nat n)); [|lia]. cbn [andb]. f_equal; lia.
  - symmetry. apply (tb_high x (N.of_nat n)); assumption.
Qed.

Lemma bitrev_trunc n x : bitrev n (trunc (N.of_nat n) x) = bitrev n x.
Proof.
  apply N.bits_inj; intro i. rewrite !tb_bitrev, tb_trunc.
  destruct (N.ltb_spec i (N.of_nat n)); cbn [andb]; [|reflexivity].
  destruct (N.ltb_spec (N.of_nat n - 1 - i) (N.of_nat n)); [reflexivity|lia].
Qed.

(* ---------------------------------------------------------------------------------------- *)
(* swap stages                                                                               *)

(* 32/64-bit form: a_uN arithmetic, the left shift wraps immediately *)
Definition stB (w m1 m2 k x : N) : N :=
  N.lor (N.shiftr (N.land x m1) k) (trunc w (N.shiftl (N.land x m2) k)).
(* 8/16-bit form: int arithmetic, one cast per line *)
Definition stA (w m1 m2 k x : N) : N :=
  trunc w (N.lor (N.shiftr (N.land x m1) k) (N.shiftl (N.land x m2) k)).
(* first, unmasked stage in both forms *)
Definition st1B (w k x : N) : N := N.lor (N.shiftr x k) (trunc w (N.shiftl x k)).
Definition st1A (w k x : N) : N := trunc w (N.lor (N.shiftr x k) (N.shiftl x k)).
(* the xor form all of them are equal to *)
Definition stX (w m1 m2 k x : N) : N :=
  N.lxor (N.shiftr (N.land x m1) k) (trunc w (N.shiftl (N.land x m2) k)).

Definition masks_ok (w m1 m2 k : N) : bool :=
  (m1 <? 2 ^ w) && (N.land (N.shiftr m1 k) (N.shiftl m2 k) =? 0).

Lemma masks_bit w m1 m2 k i : masks_ok w m1 m2 k = true ->
  N.testbit m1 (i + k) && ((k <=? i) && N.testbit m2 (i - k)) = false.
Proof.
  unfold masks_ok. rewrite andb_true_iff, N.eqb_eq. intros [_ H].
  apply (f_equal (fun z => N.testbit z i)) in H.
  now rewrite N.land_spec, tb_shiftr, tb_shiftl, N.bits_0 in H.
Qed.

Lemma masks_lt w m1 m2 k : masks_ok w m1 m2 k = true -> m1 < 2 ^ w.
Proof. unfold masks_ok. rewrite andb_true_iff, N.ltb_lt. tauto. Qed.

Lemma stB_stX w m1 m2 k x : masks_ok w m1 m2 k = true -> stB w m1 m2 k x = stX w m1 m2 k x.
Proof.
  intros H. unfold stB, stX. symmetry. apply N.lxor_lor.
  apply N.bits_inj; intro i. pose proof (masks_bit w m1 m2 k i H) as Hb.
  rewrite N.land_spec, tb_shiftr, tb_trunc, tb_shiftl, !N.land_spec, N.bits_0.
  destruct (N.testbit m1 (i + k)); destruct (k <=? i); destruct (N.testbit m2 (i - k));
    cbn [andb] in *; rewrite ?andb_false_r; try reflexivity; discriminate.
Qed.

Lemma stA_stX w m1 m2 k x : masks_ok w m1 m2 k = true -> stA w m1 m2 k x = stX w m1 m2 k x.
Proof.
  intros H. unfold stA, stX. pose proof (masks_lt _ _ _ _ H) as Hm.
  apply N.bits_inj; intro i. pose proof (masks_bit w m1 m2 k i H) as Hb.
  rewrite tb_trunc, N.lor_spec, N.lxor_spec, tb_shiftr, tb_trunc, tb_shiftl, !N.land_spec.
  destruct (N.ltb_spec i w).
  - cbn [andb].
    destruct (N.testbit m1 (i + k)); destruct (k <=? i); destruct (N.testbit m2 (i - k));
      cbn [andb] in *; rewrite ?andb_false_r, ?andb_true_r; try discriminate;
      destruct (N.testbit x (i + k)); try destruct (N.testbit x (i - k)); reflexivity.
  - cbn [andb]. rewrite (tb_high m1 w (i + k)) by (assumption || lia).
    now rewrite andb_false_r.
Qed.

Lemma land_ones_small w x : x < 2 ^ w -> N.land x (N.ones w) = x.
Proof. apply trunc_small. Qed.

Lemma st1B_stX w k x : masks_ok w (N.ones w) (N.ones w) k = true -> x < 2 ^ w ->
  st1B w k x = stX w (N.ones w) (N.ones w) k x.
Proof.
  intros H Hx. rewrite <- stB_stX by assumption. unfold st1B, stB.
  now rewrite land_ones_small.
Qed.

Lemma st1A_stX w k x : masks_ok w (N.ones w) (N.ones w) k = true -> x < 2 ^ w ->
  st1A w k x = stX w (N.ones w) (N.ones w) k x.
Proof.
  intros H Hx. rewrite <- stA_stX by assumption. unfold st1A, stA.
  now rewrite land_ones_small.
Qed.

Lemma stX_xlinear w m1 m2 k : xlinear (stX w m1 m2 k).
Proof.
  intros x y. unfold stX. apply N.bits_inj; intro i.
  rewrite !N.lxor_spec, !tb_shiftr, !tb_trunc, !tb_shiftl, !N.land_spec, !N.lxor_spec.
  destruct (i <? w); destruct (k <=? i); cbn [andb];
    destruct (N.testbit x (i + k)); destruct (N.testbit y (i + k)); destruct (N.testbit m1 (i + k));
    try destruct (N.testbit x (i - k)); try destruct (N.testbit y (i - k)); try destruct (N.testbit m2 (i - k));
    reflexivity.
Qed.

Lemma stX_lxor w m1 m2 k x y :
  stX w m1 m2 k (N.lxor x y) = N.lxor (stX w m1 m2 k x) (stX w m1 m2 k y).
Proof. apply stX_xlinear. Qed.

Lemma stX_lt w m1 m2 k x : m1 < 2 ^ w -> stX w m1 m2 k x < 2 ^ w.
Proof.
  intros Hm. unfold stX. apply lxor_lt; [|apply trunc_lt].
  apply shiftr_lt. rewrite N.land_comm. now apply land_lt_l.
Qed.

Lemma xlinear_comp f g : xlinear f -> xlinear g -> xlinear (fun x => g (f x)).
Proof. intros Hf Hg x y. now rewrite Hf, Hg. Qed.

(* ---------------------------------------------------------------------------------------- *)
(* the four functions in xor form                                                            *)

Definition rev8_x (x : N) : N :=
  stX 8 0xAA 0x55 1 (stX 8 0xCC 0x33 2 (stX 8 (N.ones 8) (N.ones 8) 4 x)).
Definition rev16_x (x : N) : N :=
  stX 16 0xAAAA 0x5555 1 (stX 16 0xCCCC 0x3333 2 (stX 16 0xF0F0 0x0F0F 4 (stX 16 (N.ones 16) (N.ones 16) 8 x))).
Definition rev32_x (x : N) : N :=
  stX 32 0xAAAAAAAA 0x55555555 1 (stX 32 0xCCCCCCCC 0x33333333 2 (stX 32 0xF0F0F0F0 0x0F0F0F0F 4
    (stX 32 0xFF00FF00 0x00FF00FF 8 (stX 32 (N.ones 32) (N.ones 32) 16 x)))).
Definition rev64_x (x : N) : N :=
  stX 64 0xAAAAAAAAAAAAAAAA 0x5555555555555555 1 (stX 64 0xCCCCCCCCCCCCCCCC 0x3333333333333333 2
    (stX 64 0xF0F0F0F0F0F0F0F0 0x0F0F0F0F0F0F0F0F 4 (stX 64 0xFF00FF00FF00FF00 0x00FF00FF00FF00FF 8
      (stX 64 0xFFFF0000FFFF0000 0x0000FFFF0000FFFF 16 (stX 64 (N.ones 64) (N.ones 64) 32 x))))).

Lemma a_u8_rev_x x : x < 2 ^ 8 -> a_u8_rev x = rev8_x x.
Proof.
  intros Hx.
  change (a_u8_rev x) with (stA 8 0xAA 0x55 1 (stA 8 0xCC 0x33 2 (st1A 8 4 x))).
  unfold rev8_x. rewrite !stA_stX by (vm_compute; reflexivity).
  rewrite st1A_stX by (assumption || (vm_compute; reflexivity)). reflexivity.
Qed.

Lemma a_u16_rev_x x : x < 2 ^ 16 -> a_u16_rev x = rev16_x x.
Proof.
  intros Hx.
  change (a_u16_rev x) with
    (stA 16 0xAAAA 0x5555 1 (stA 16 0xCCCC 0x3333 2 (stA 16 0xF0F0 0x0F0F 4 (st1A 16 8 x)))).
  unfold rev16_x. rewrite !stA_stX by (vm_compute; reflexivity).
  rewrite st1A_stX by (assumption || (vm_compute; reflexivity)). reflexivity.
Qed.

Lemma a_u32_rev_x x : x < 2 ^ 32 -> a_u32_rev x = rev32_x x.
Proof.
  intros Hx.
  change (a_u32_rev x) with
    (stB 32 0xAAAAAAAA 0x55555555 1 (stB 32 0xCCCCCCCC 0x33333333 2 (stB 32 0xF0F0F0F0 0x0F0F0F0F 4
      (stB 32 0xFF00FF00 0x00FF00FF 8 (st1B 32 16 x))))).
  unfold rev32_x. rewrite !stB_stX by (vm_compute; reflexivity).
  rewrite st1B_stX by (assumption || (vm_compute; reflexivity)). reflexivity.
Qed.

Lemma a_u64_rev_x x : x < 2 ^ 64 -> a_u64_rev x = rev64_x x.
Proof.
  intros Hx.
  change (a_u64_rev x) with
    (stB 64 0xAAAAAAAAAAAAAAAA 0x5555555555555555 1 (stB 64 0xCCCCCCCCCCCCCCCC 0x3333333333333333 2
      (stB 64 0xF0F0F0F0F0F0F0F0 0x0F0F0F0F0F0F0F0F 4 (stB 64 0xFF00FF00FF00FF00 0x00FF00FF00FF00FF 8
        (stB 64 0xFFFF0000FFFF0000 0x0000FFFF0000FFFF 16 (st1B 64 32 x)))))).
  unfold rev64_x. rewrite !stB_stX by (vm_compute; reflexivity).
  rewrite st1B_stX by (assumption || (vm_compute; reflexivity)). reflexivity.
Qed.

Lemma rev8_x_lin : xlinear rev8_x.
Proof. intros x y. unfold rev8_x. now rewrite !stX_lxor. Qed.
Lemma rev16_x_lin : xlinear rev16_x.
Proof. intros x y. unfold rev16_x. now rewrite !stX_lxor. Qed.
Lemma rev32_x_lin : xlinear rev32_x.
Proof. intros x y. unfold rev32_x. now rewrite !stX_lxor. Qed.
Lemma rev64_x_lin : xlinear rev64_x.
Proof. intros x y. unfold rev64_x. now rewrite !stX_lxor. Qed.

(* basis sweeps: 8 + 16 + 32 + 64 evaluations *)
Lemma rev8_basis : basis_agree 8 rev8_x (bitrev 8) = true. Proof. vm_compute. reflexivity. Qed.
Lemma rev16_basis : basis_agree 16 rev16_x (bitrev 16) = true. Proof. vm_compute. reflexivity. Qed.
Lemma rev32_basis : basis_agree 32 rev32_x (bitrev 32) = true. Proof. vm_compute. reflexivity. Qed.
Lemma rev64_basis : basis_agree 64 rev64_x (bitrev 64) = true. Proof. vm_compute. reflexivity. Qed.

Theorem a_u8_rev_spec x : x < 2 ^ 8 -> a_u8_rev x = bitrev 8 x.
Proof.
  intros Hx. rewrite a_u8_rev_x by assumption.
  apply (gf2_lift 8); try assumption.
  - apply xlinear_on_of_xlinear, rev8_x_lin.
  - apply xlinear_on_of_xlinear, bitrev_xlinear.
  - apply (basis_agree_spec 8), rev8_basis.
Qed.

Theorem a_u16_rev_spec x : x < 2 ^ 16 -> a_u16_rev x = bitrev 16 x.
Proof.
  intros Hx. rewrite a_u16_rev_x by assumption.
  apply (gf2_lift 16); try assumption.
  - apply xlinear_on_of_xlinear, rev16_x_lin.
  - apply xlinear_on_of_xlinear, bitrev_xlinear.
  - apply (basis_agree_spec 16), rev16_basis.
Qed.

Theorem a_u32_rev_spec x : x < 2 ^ 32 -> a_u32_rev x = bitrev 32 x.
Proof.
  intros Hx. rewrite a_u32_rev_x by assumption.
  apply (gf2_lift 32); try assumption.
  - apply xlinear_on_of_xlinear, rev32_x_lin.
  - apply xlinear_on_of_xlinear, bitrev_xlinear.
  - apply (basis_agree_spec 32), rev32_basis.
Qed.

Theorem a_u64_rev_spec x : x < 2 ^ 64 -> a_u64_rev x = bitrev 64 x.
Proof.
  intros Hx. rewrite a_u64_rev_x by assumption.
  apply (gf2_lift 64); try assumption.
  - apply xlinear_on_of_xlinear, rev64_x_lin.
  - apply xlinear_on_of_xlinear, bitrev_xlinear.
  - apply (basis_agree_spec 64), rev64_basis.
Qed.

Lemma nbits_bits k : N.of_nat (nbits k) = bits k.
Proof. destruct k; reflexivity. Qed.

Theorem a_rev_spec k x : x < 2 ^ bits k -> a_rev k x = bitrev (nbits k) x.
Proof.
  destruct k; cbn [a_rev nbits bits]; intros Hx.
  - now apply a_u8_rev_spec.
  - now apply a_u16_rev_spec.
  - now apply a_u32_rev_spec.
  - now apply a_u64_rev_spec.
Qed.

(* bit i of the reversed word is bit (w-1-i) of the argument *)
Theorem a_rev_testbit k x i : x < 2 ^ bits k -> i < bits k ->
  N.testbit (a_rev k x) i = N.testbit x (bits k - 1 - i).
Proof.
  intros Hx Hi. rewrite a_rev_spec by assumption. rewrite tb_bitrev, nbits_bits.
  destruct (N.ltb_spec i (bits k)); [reflexivity|lia].
Qed.

Theorem a_rev_involutive k x : x < 2 ^ bits k -> a_rev k (a_rev k x) = x.
Proof.
  intros Hx. rewrite (a_rev_spec k x) by assumption.
  rewrite a_rev_spec by (rewrite <- nbits_bits; apply bitrev_lt).
  apply bitrev_involutive. now rewrite nbits_bits.
Qed.

Lemma a_rev_lt k x : x < 2 ^ bits k -> a_rev k x < 2 ^ bits k.
Proof.
  intros Hx. rewrite a_rev_spec by assumption. rewrite <- nbits_bits. apply bitrev_lt.
Qed.
