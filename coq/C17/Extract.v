(* C17 -- extraction of the executable model (ExtrOcamlBasic only). *)
Require Extraction.
Require Import ExtrOcamlBasic.
From LibaV Require Import C17.CrcDefs.

Extraction "C17/extracted/crcmodel.ml"
  a_u8_rev a_u16_rev a_u32_rev a_u64_rev a_rev
  a_crc_m_init a_crc_l_init a_crc_m a_crc_l obind
  a_hash_bkdr a_hash_bkdr_ a_hash_sdbm a_hash_sdbm_
  bitrev nbits crc_bits_m crc_bits_l.
