(* C17 -- the property clauses in their final form (used by coq/Properties_C17.v). *)
From Coq Require Import NArith List Lia Bool ZifyBool ZifyN.
From LibaV Require Import C17.CrcDefs C17.BitsProofs C17.RevProofs C17.CrcProofs C17.CrcPolyProofs
  C17.HashProofs.
Import ListNotations.
Local Open Scope N_scope.

Definition bytes (data : list N) : Prop := Forall (fun b => b < 256) data.

(* ---- tables ---- *)
Lemma table_length_m k p : length (a_crc_m_init k p) = 256%nat.
Proof. unfold a_crc_m_init, indices256. now rewrite !map_length, seq_length. Qed.
Lemma table_length_l k p : length (a_crc_l_init k p) = 256%nat.
Proof. unfold a_crc_l_init, indices256. cbv zeta. now rewrite !map_length, seq_length. Qed.

Lemma table_entry_m k p c : p < 2 ^ bits k -> c < 256 ->
  tab_get (a_crc_m_init k p) c = Some (crc_bits_m (bits k) p [c] 0).
Proof.
  intros Hp Hc. rewrite tab_m_entry by assumption. f_equal.
  unfold crc_bits_m. cbn [flat_map]. rewrite app_nil_r.
  rewrite <- (byte_m_feed (bits k) p (bits_ge8 k) Hp 0 c Hc). reflexivity.
Qed.

Lemma table_entry_l k p c : p < 2 ^ bits k -> c < 256 ->
  tab_get (a_crc_l_init k p) c = Some (crc_bits_l k p [c] 0).
Proof.
  intros Hp Hc. rewrite tab_l_entry by assumption. f_equal.
  unfold crc_bits_l. cbn [flat_map]. rewrite app_nil_r.
  rewrite <- (byte_l_feed (bits k) _ (bits_ge8 k) (rpoly_lt k p) 0 c Hc). reflexivity.
Qed.

Lemma table_entry_range_m k p c e : p < 2 ^ bits k ->
  tab_get (a_crc_m_init k p) c = Some e -> c < 256 /\ e < 2 ^ bits k.
Proof.
  intros Hp H. assert (Hc : c < 256).
  { unfold tab_get in H. assert (Hn : nth_error (a_crc_m_init k p) (N.to_nat c) <> None) by congruence.
    apply nth_error_Some in Hn. rewrite table_length_m in Hn. lia. }
  split; [exact Hc|]. rewrite table_entry_m in H by assumption. injection H as <-.
  apply crc_bits_m_lt; [assumption|]. apply N.neq_0_lt_0, N.pow_nonzero. lia.
Qed.

(* ---- table-driven = bit-serial ---- *)
Theorem crc_table_eq_bits_m k p data v : p < 2 ^ bits k -> v < 2 ^ bits k -> bytes data ->
  a_crc_m k (a_crc_m_init k p) data v = Some (crc_bits_m (bits k) p data v).
Proof. intros Hp Hv Hd. now apply crc_m_table_eq_bits_aux. Qed.

Theorem crc_table_eq_bits_l k p data v : p < 2 ^ bits k -> v < 2 ^ bits k -> bytes data ->
  a_crc_l k (a_crc_l_init k p) data v = Some (crc_bits_l k p data v).
Proof. intros Hp Hv Hd. now apply crc_l_table_eq_bits_aux. Qed.

(* ---- reflection ---- *)
Theorem crc_reflect k p data v : p < 2 ^ bits k -> v < 2 ^ bits k -> bytes data ->
  a_crc_l k (a_crc_l_init k p) data v =
  option_map (bitrev (nbits k))
    (a_crc_m k (a_crc_m_init k p) (map (bitrev 8) data) (bitrev (nbits k) v)).
Proof. intros Hp Hv Hd. now apply crc_reflect_aux. Qed.

Theorem crc_reflect_c k p data v : p < 2 ^ bits k -> v < 2 ^ bits k -> bytes data ->
  a_crc_l k (a_crc_l_init k p) data v =
  option_map (a_rev k) (a_crc_m k (a_crc_m_init k p) (map a_u8_rev data) (a_rev k v)).
Proof. intros Hp Hv Hd. now apply crc_reflect_c_aux. Qed.

(* ---- concatenation / every split point (any table, any value) ---- *)
Theorem crc_concat_m k t a b v :
  a_crc_m k t (a ++ b) v = obind (a_crc_m k t a v) (a_crc_m k t b).
Proof. apply crc_loop_app. Qed.

Theorem crc_concat_l k t a b v :
  a_crc_l k t (a ++ b) v = obind (a_crc_l k t a v) (a_crc_l k t b).
Proof. apply crc_loop_app. Qed.

Theorem crc_split_m k t data n v :
  a_crc_m k t data v = obind (a_crc_m k t (firstn n data) v) (a_crc_m k t (skipn n data)).
Proof. rewrite <- crc_concat_m. now rewrite firstn_skipn. Qed.

Theorem crc_split_l k t data n v :
  a_crc_l k t data v = obind (a_crc_l k t (firstn n data) v) (a_crc_l k t (skipn n data)).
Proof. rewrite <- crc_concat_l. now rewrite firstn_skipn. Qed.

(* with a generated table nothing fails and the carried value stays in range, so the pieces can be
   fed one after the other by a caller that only keeps the returned value *)
Theorem crc_chunked_m k p a b v : p < 2 ^ bits k -> v < 2 ^ bits k -> bytes a -> bytes b ->
  exists v1 v2, a_crc_m k (a_crc_m_init k p) a v = Some v1 /\ v1 < 2 ^ bits k /\
                a_crc_m k (a_crc_m_init k p) b v1 = Some v2 /\
                a_crc_m k (a_crc_m_init k p) (a ++ b) v = Some v2.
Proof.
  intros Hp Hv Ha Hb.
  exists (crc_bits_m (bits k) p a v), (crc_bits_m (bits k) p b (crc_bits_m (bits k) p a v)).
  assert (H1 : crc_bits_m (bits k) p a v < 2 ^ bits k) by (now apply crc_bits_m_lt).
  rewrite crc_concat_m, !crc_table_eq_bits_m by assumption. cbn [obind].
  rewrite crc_table_eq_bits_m by assumption. auto.
Qed.

Lemma crc_bits_l_lt k p data : forall v, v < 2 ^ bits k -> crc_bits_l k p data v < 2 ^ bits k.
Proof.
  induction data as [|b data IH]; intros v Hv; [exact Hv|].
  rewrite crc_bits_l_cons. apply IH. unfold byte_bits_lsb. cbn [map fold_left]. unfold feed_l.
  pose proof (pow8_le_bits k) as H8. pose proof (rpoly_lt k p) as Hrp.
  assert (H1 : forall x (c : bool), x < 2 ^ bits k -> N.lxor x (if c then 1 else 0) < 2 ^ bits k).
  { intros x c Hx. apply lxor_lt; [assumption|]. destruct c; change (2 ^ 8) with 256 in H8; lia. }
  repeat (apply (step_l_lt (bits k)); [assumption|]; apply H1). exact Hv.
Qed.

Theorem crc_chunked_l k p a b v : p < 2 ^ bits k -> v < 2 ^ bits k -> bytes a -> bytes b ->
  exists v1 v2, a_crc_l k (a_crc_l_init k p) a v = Some v1 /\ v1 < 2 ^ bits k /\
                a_crc_l k (a_crc_l_init k p) b v1 = Some v2 /\
                a_crc_l k (a_crc_l_init k p) (a ++ b) v = Some v2.
Proof.
  intros Hp Hv Ha Hb.
  exists (crc_bits_l k p a v), (crc_bits_l k p b (crc_bits_l k p a v)).
  assert (H1 : crc_bits_l k p a v < 2 ^ bits k) by (now apply crc_bits_l_lt).
  rewrite crc_concat_l, !crc_table_eq_bits_l by assumption. cbn [obind].
  rewrite crc_table_eq_bits_l by assumption. auto.
Qed.

(* ---- polynomial remainder ---- *)
Theorem crc_bits_m_remainder w p data v : 1 <= w -> p < 2 ^ w -> v < 2 ^ w -> bytes data ->
  crc_bits_m w p data v < 2 ^ w /\
  exists q,
    N.lxor (N.shiftl v (8 * N.of_nat (length data))) (N.shiftl (msg_poly data) w) =
    N.lxor (clmul q (N.lor (2 ^ w) p)) (crc_bits_m w p data v).
Proof. intros. now apply crc_bits_m_remainder_aux. Qed.

(* the table-driven MSB-first routines compute that remainder *)
Theorem crc_m_is_remainder k p data v : p < 2 ^ bits k -> v < 2 ^ bits k -> bytes data ->
  exists r q, a_crc_m k (a_crc_m_init k p) data v = Some r /\ r < 2 ^ bits k /\
    N.lxor (N.shiftl v (8 * N.of_nat (length data))) (N.shiftl (msg_poly data) (bits k)) =
    N.lxor (clmul q (N.lor (2 ^ bits k) p)) r.
Proof.
  intros Hp Hv Hd. pose proof (bits_ge8 k).
  destruct (crc_bits_m_remainder (bits k) p data v) as [Hlt [q Hq]]; try assumption; try lia.
  exists (crc_bits_m (bits k) p data v), q. rewrite crc_table_eq_bits_m by assumption. auto.
Qed.

(* ---- hashes ---- *)
Definition nul_free (s : list N) : Prop := Forall (fun b => b <> 0) s.

Theorem hash_concat mul a b v : hash_len mul (a ++ b) v = hash_len mul b (hash_len mul a v).
Proof. apply hash_len_app. Qed.

Theorem hash_split mul s n v :
  hash_len mul s v = hash_len mul (skipn n s) (hash_len mul (firstn n s) v).
Proof. apply hash_len_split. Qed.

Theorem hash_str_eq_len mul s rest v : nul_free s ->
  hash_str_ptr mul (Some (s ++ 0 :: rest)) v = Some (hash_len mul s v).
Proof. intros Hs. now apply hash_str_eq_len_aux. Qed.

Theorem hash_str_chunked mul a b rest v : nul_free a -> nul_free b ->
  hash_str_ptr mul (Some ((a ++ b) ++ 0 :: rest)) v =
  hash_str_ptr mul (Some (b ++ 0 :: rest)) (hash_len mul a v).
Proof. intros Ha Hb. now apply hash_str_concat. Qed.

Theorem hash_null mul v : hash_str_ptr mul None v = Some v.
Proof. reflexivity. Qed.

Theorem hash_len_closed mul s v : v < 2 ^ 32 ->
  hash_len mul s v = (v * mul ^ N.of_nat (length s) + hash_sum mul s) mod 2 ^ 32.
Proof. apply hash_len_closed_aux. Qed.
