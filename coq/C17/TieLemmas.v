(* C17 - lemmas used by the translator tie (harness/C17/TieInt*.v).  tools/c2int.py turns every loop of src/crc.c and
   src/hash.c into a fuel-indexed Fixpoint of its own; the lemmas here are about ANY function that satisfies the unfolding
   equation of such a loop (the tie files prove that equation for each generated Fixpoint, mostly by computation) and
   relate it to the list recursions / iterations of the hand model C17/CrcDefs.v.  Nothing here mentions generated code. *)
From Coq Require Import NArith PeanoNat List Bool Lia.
From LibaV Require Import C17.CrcDefs C17.BitsProofs C19.IntDefs.
From LibaV Require C19.TieLemmas.
Import ListNotations.
Local Open Scope N_scope.

Module T := LibaV.C19.TieLemmas.

Lemma wrap_trunc w x : wrap w x = trunc w x.
Proof. unfold trunc. apply T.wrap_land_ones. Qed.

Lemma iter_S {A} n (f : A -> A) x : iter (S n) f x = iter n f (f x).
Proof. reflexivity. Qed.

(* ---- for (b = 8; b; --b) value = step value;   (b an unsigned int) *)
Lemma count_down (loop : nat -> N -> N -> option (N * N)) (step : N -> N) :
  (forall f b v, loop (S f) b v = if b =? 0 then Some (b, v) else loop f (wrap 32 (b + 0x100000000 - 1)) (step v)) ->
  forall f b v, b < 2 ^ 32 -> (N.to_nat b < f)%nat -> loop f b v = Some (0, iter (N.to_nat b) step v).
Proof.
  intros E. induction f as [|f IH]; intros b v Hb Hf; [lia|].
  rewrite E. destruct (b =? 0) eqn:B.
  - apply N.eqb_eq in B. subst b. reflexivity.
  - apply N.eqb_neq in B. change 0x100000000 with (2 ^ 32). rewrite T.wrap_dec by lia.
    rewrite IH by lia. replace (N.to_nat b) with (S (N.to_nat (b - 1))) by lia. reflexivity.
Qed.

Lemma firstn_S_app {A} (a : list A) v r : firstn (S (length a)) (a ++ v :: r) = a ++ [v].
Proof. induction a as [|h a IH]; [reflexivity|]. cbn [length app firstn]. f_equal. exact IH. Qed.

(* ---- for (c = 0; c != 0x100; ++c) table[c] = entry c;   (c of width wc) *)
Lemma table_loop (loop : nat -> N -> list N -> option (N * list N)) (entry : N -> N) (wc : N) :
  9 <= wc ->
  (forall f c t, c < 256 -> loop (S f) c t =
                 match T.store t c (entry c) with None => None | Some t1 => loop f (wrap wc (c + 1)) t1 end) ->
  (forall f t, loop (S f) 256 t = Some (256, t)) ->
  forall t, length t = 256%nat -> loop 257%nat 0 t = Some (256, map entry indices256).
Proof.
  intros Hw E1 E2.
  assert (G : forall n c t, (c + n = 256)%nat -> length t = 256%nat ->
              loop (S n) (N.of_nat c) t = Some (256, firstn c t ++ map entry (map N.of_nat (seq c n)))).
  { induction n as [|n IH]; intros c t Hc Ht.
    - replace c with 256%nat by lia. change (N.of_nat 256) with 256. rewrite E2.
      rewrite firstn_all2 by lia. cbn [seq map]. rewrite app_nil_r. reflexivity.
    - rewrite E1 by lia. rewrite T.store_spec by (rewrite Nat2N.id; lia). rewrite Nat2N.id.
      assert (P : 2 ^ 9 <= 2 ^ wc) by (apply N.pow_le_mono_r; [discriminate|exact Hw]).
      rewrite T.wrap_small by (change (2 ^ 9) with 512 in P; lia).
      replace (N.of_nat c + 1) with (N.of_nat (S c)) by lia.
      rewrite IH; [|lia|].
      + f_equal. f_equal. cbn [seq map].
        assert (L : length (firstn c t) = c) by (apply firstn_length_le; lia).
        rewrite <- L at 1. rewrite firstn_S_app, <- app_assoc. reflexivity.
      + rewrite app_length. cbn [length]. rewrite firstn_length_le, skipn_length by lia. lia. }
  intros t Ht. exact (G 256%nat 0%nat t eq_refl Ht).
Qed.

(* ---- for (; n; --n) { v = upd1 v *p++; }   (n an a_size; the read is checked) *)
Lemma byte_loop (loop : nat -> N -> N -> N -> option (N * N * N)) (data : list N) (upd1 : N -> N -> option N)
      (inv : N -> Prop) :
  (forall f n v p, inv v -> n <> 0 -> loop (S f) n v p =
      match T.load data p with
      | None => None
      | Some c => match upd1 v c with
                  | None => None
                  | Some v1 => loop f (wrap 64 (n + 0x10000000000000000 - 1)) v1 (p + 1)
                  end
      end) ->
  (forall f v p, loop (S f) 0 v p = Some (0, v, p)) ->
  (forall v c v1, inv v -> In c data -> upd1 v c = Some v1 -> inv v1) ->
  N.of_nat (length data) < 2 ^ 64 ->
  forall v, inv v ->
  match loop (S (length data)) (N.of_nat (length data)) v 0 with Some (_, v', _) => Some v' | None => None end
  = crc_loop upd1 data v.
Proof.
  intros E1 E0 I Hlen.
  assert (G : forall rest pre v, data = pre ++ rest -> inv v ->
              match loop (S (length rest)) (N.of_nat (length rest)) v (N.of_nat (length pre)) with
              | Some (_, v', _) => Some v' | None => None end = crc_loop upd1 rest v).
  { induction rest as [|c rest IH]; intros pre v D Iv.
    - cbn [length]. change (N.of_nat 0) with 0. rewrite E0. reflexivity.
    - assert (Hn : N.of_nat (length (c :: rest)) < 2 ^ 64).
      { eapply N.le_lt_trans; [|exact Hlen]. rewrite D, app_length. lia. }
      rewrite E1; [|exact Iv|cbn [length]; lia].
      rewrite D, T.load_app. cbn [crc_loop].
      destruct (upd1 v c) as [v1|] eqn:U; [|reflexivity].
      change 0x10000000000000000 with (2 ^ 64). rewrite T.wrap_dec; [|cbn [length]; lia|exact Hn].
      replace (N.of_nat (length (c :: rest)) - 1) with (N.of_nat (length rest)) by (cbn [length]; lia).
      replace (N.of_nat (length pre) + 1) with (N.of_nat (length (pre ++ [c]))) by (rewrite app_length; cbn [length]; lia).
      apply IH.
      + rewrite D, <- app_assoc. reflexivity.
      + apply (I v c v1 Iv); [rewrite D; apply in_or_app; right; left; reflexivity|exact U]. }
  intros v Iv. exact (G data [] v eq_refl Iv).
Qed.

Lemma crc_loop_total (g : N -> N -> N) data v : crc_loop (fun a b => Some (g a b)) data v = Some (fold_left g data v).
Proof. revert v. induction data as [|c r IH]; intros v; [reflexivity|]. cbn [crc_loop fold_left]. apply IH. Qed.

(* ---- for (; *str; ++str) v = step v *str;   (reads are checked: running off the list is an error, as in the model) *)
Lemma str_loop (loop : nat -> N -> N -> option (N * N)) (mem : list N) (mul : N) :
  (forall f v p, loop (S f) v p =
      match T.load mem p with
      | None => None
      | Some c => if c =? 0 then Some (v, p) else loop f (hash_step mul v c) (p + 1)
      end) ->
  forall v, match loop (S (length mem)) v 0 with Some (v', _) => Some v' | None => None end = hash_str mul mem v.
Proof.
  intros E.
  assert (G : forall rest pre v, mem = pre ++ rest ->
              match loop (S (length rest)) v (N.of_nat (length pre)) with Some (v', _) => Some v' | None => None end
              = hash_str mul rest v).
  { induction rest as [|c rest IH]; intros pre v D.
    - rewrite E. rewrite app_nil_r in D. subst pre. rewrite T.load_end. reflexivity.
    - rewrite E. rewrite D, T.load_app. cbn [hash_str]. destruct (c =? 0); [reflexivity|].
      replace (N.of_nat (length pre) + 1) with (N.of_nat (length (pre ++ [c]))) by (rewrite app_length; cbn [length]; lia).
      apply IH. rewrite D, <- app_assoc. reflexivity. }
  intros v. exact (G mem [] v eq_refl).
Qed.

(* val * mul + c on a_u32: the product wraps, then the sum *)
Lemma hash_step_gen mul v c : wrap 32 (wrap 32 (v * mul) + c) = hash_step mul v c.
Proof. unfold hash_step. rewrite T.wrap_add_l. apply wrap_trunc. Qed.

(* ---- table entries: what the generated inner loop leaves in `value`, and the cast at the store *)
Lemma iter_inv {A} (P : A -> Prop) (f : A -> A) : (forall x, P x -> P (f x)) -> forall n x, P x -> P (iter n f x).
Proof. intros H. induction n as [|n IH]; intros x Px; [exact Px|]. cbn [iter]. apply IH, H, Px. Qed.

Lemma m_step_lt w ww poly v : poly < 2 ^ ww -> m_init_step w ww poly v < 2 ^ ww.
Proof.
  intros Hp. unfold m_init_step. cbv zeta. destruct (N.eqb _ 0); [apply trunc_lt|apply lxor_lt; [apply trunc_lt|exact Hp]].
Qed.

Lemma l_step_lt w rp v : rp < 2 ^ w -> v < 2 ^ w -> l_init_step rp v < 2 ^ w.
Proof.
  intros Hp Hv. unfold l_init_step. cbv zeta. destruct (N.eqb _ 0); [apply shiftr_lt, Hv|apply lxor_lt; [apply shiftr_lt, Hv|exact Hp]].
Qed.

Lemma m_iter_lt w ww poly n v : poly < 2 ^ ww -> v < 2 ^ ww -> iter n (m_init_step w ww poly) v < 2 ^ ww.
Proof. intros Hp. apply (iter_inv (fun x => x < 2 ^ ww)). intros x _. apply m_step_lt, Hp. Qed.

Lemma l_iter_lt w rp n v : rp < 2 ^ w -> v < 2 ^ w -> iter n (l_init_step rp) v < 2 ^ w.
Proof. intros Hp. apply (iter_inv (fun x => x < 2 ^ w)). intros x Hx. apply l_step_lt; assumption. Qed.

Lemma m_entry_8 poly c : c < 2 ^ 32 -> wrap 8 (iter 8 (m_init_step 8 32 poly) c) = m_init_entry W8 poly c.
Proof.
  intros Hc. unfold m_init_entry. cbn [bits work_bits]. cbv zeta. change (8 - 8) with 0. rewrite N.shiftl_0_r, (trunc_small 32 c Hc).
  apply wrap_trunc.
Qed.

Lemma m_entry_16 poly c : wrap 16 (iter 8 (m_init_step 16 32 poly) (wrap 32 (N.shiftl c 8))) = m_init_entry W16 poly c.
Proof. unfold m_init_entry. cbn [bits work_bits]. cbv zeta. change (16 - 8) with 8. rewrite !wrap_trunc. reflexivity. Qed.

Lemma m_entry_32 poly c : poly < 2 ^ 32 -> iter 8 (m_init_step 32 32 poly) (wrap 32 (N.shiftl c 24)) = m_init_entry W32 poly c.
Proof.
  intros Hp. unfold m_init_entry. cbn [bits work_bits]. cbv zeta. change (32 - 8) with 24. rewrite wrap_trunc.
  symmetry. apply trunc_small, m_iter_lt; [exact Hp|apply trunc_lt].
Qed.

Lemma m_entry_64 poly c : poly < 2 ^ 64 -> iter 8 (m_init_step 64 64 poly) (wrap 64 (N.shiftl c 56)) = m_init_entry W64 poly c.
Proof.
  intros Hp. unfold m_init_entry. cbn [bits work_bits]. cbv zeta. change (64 - 8) with 56. rewrite wrap_trunc.
  symmetry. apply trunc_small, m_iter_lt; [exact Hp|apply trunc_lt].
Qed.

Lemma l_entry_cast k rp c : wrap (bits k) (iter 8 (l_init_step rp) c) = l_init_entry k rp c.
Proof. unfold l_init_entry. apply wrap_trunc. Qed.

Lemma l_entry_full k rp c : rp < 2 ^ bits k -> c < 2 ^ bits k -> iter 8 (l_init_step rp) c = l_init_entry k rp c.
Proof. intros Hp Hc. unfold l_init_entry. symmetry. apply trunc_small, l_iter_lt; assumption. Qed.

(* ---- byte updates of the 32- and 64-bit CRCs: unsigned arithmetic, the shift wraps on its own and the xor does not *)
Lemma crcm_val w v e : e < 2 ^ w -> N.lxor (wrap w (N.shiftl v 8)) e = trunc w (N.lxor (N.shiftl v 8) e).
Proof. intros He. rewrite <- wrap_trunc, T.wrap_lxor, (T.wrap_small w e He). reflexivity. Qed.

Lemma crcl_val w v e : v < 2 ^ w -> e < 2 ^ w -> N.lxor (N.shiftr v 8) e = trunc w (N.lxor (N.shiftr v 8) e).
Proof. intros Hv He. symmetry. apply trunc_small, lxor_lt; [apply shiftr_lt, Hv|exact He]. Qed.

Lemma nth_error_Forall {A} (P : A -> Prop) l i x : Forall P l -> nth_error l i = Some x -> P x.
Proof. intros F E. rewrite Forall_forall in F. apply F. eapply nth_error_In. exact E. Qed.
