(* C17 -- executable model of src/crc.c, src/hash.c and a_u{8,16,32,64}_rev (include/a/a.h).

   NO proofs in this file.  Everything is over N; every place where the C value is held in a
   fixed-width unsigned type is a [trunc <bits>] (= land with 2^bits-1).  Table reads are
   bounds-checked ([tab_get] returns None outside the 256 entries), so a CRC is an [option N]
   and the theorems have to show the result is [Some _].

   Part A: the model of the C code   (a_*  names follow the C names)
   Part B: the reference the theorems compare with (bit-serial division, bit mirror, GF(2)[x]) *)

From Coq Require Import NArith List.
Import ListNotations.
Local Open Scope N_scope.

(* ------------------------------------------------------------------------------------------ *)
(* generic helpers                                                                            *)

Definition trunc (w x : N) : N := N.land x (N.ones w).

Fixpoint iter {A : Type} (n : nat) (f : A -> A) (x : A) : A :=
  match n with O => x | S n' => iter n' f (f x) end.

(* ------------------------------------------------------------------------------------------ *)
(* Part A.1  a_u8_rev .. a_u64_rev   (include/a/a.h:1244-1405)                                 *)
(* a_u8/a_u16 operands are promoted to int: a whole line is computed untruncated and the cast  *)
(* a_cast_s(a_u8, ...) truncates once; a_u32/a_u64 arithmetic truncates at every shift.        *)

Definition a_u8_rev (x : N) : N :=
  let x := trunc 8 (N.lor (N.shiftr x 4) (N.shiftl x 4)) in
  let x := trunc 8 (N.lor (N.shiftr (N.land x 0xCC) 2) (N.shiftl (N.land x 0x33) 2)) in
  let x := trunc 8 (N.lor (N.shiftr (N.land x 0xAA) 1) (N.shiftl (N.land x 0x55) 1)) in
  x.

Definition a_u16_rev (x : N) : N :=
  let x := trunc 16 (N.lor (N.shiftr x 8) (N.shiftl x 8)) in
  let x := trunc 16 (N.lor (N.shiftr (N.land x 0xF0F0) 4) (N.shiftl (N.land x 0x0F0F) 4)) in
  let x := trunc 16 (N.lor (N.shiftr (N.land x 0xCCCC) 2) (N.shiftl (N.land x 0x3333) 2)) in
  let x := trunc 16 (N.lor (N.shiftr (N.land x 0xAAAA) 1) (N.shiftl (N.land x 0x5555) 1)) in
  x.

Definition a_u32_rev (x : N) : N :=
  let x := N.lor (N.shiftr x 16) (trunc 32 (N.shiftl x 16)) in
  let x := N.lor (N.shiftr (N.land x 0xFF00FF00) 8) (trunc 32 (N.shiftl (N.land x 0x00FF00FF) 8)) in
  let x := N.lor (N.shiftr (N.land x 0xF0F0F0F0) 4) (trunc 32 (N.shiftl (N.land x 0x0F0F0F0F) 4)) in
  let x := N.lor (N.shiftr (N.land x 0xCCCCCCCC) 2) (trunc 32 (N.shiftl (N.land x 0x33333333) 2)) in
  let x := N.lor (N.shiftr (N.land x 0xAAAAAAAA) 1) (trunc 32 (N.shiftl (N.land x 0x55555555) 1)) in
  x.

Definition a_u64_rev (x : N) : N :=
  let x := N.lor (N.shiftr x 32) (trunc 64 (N.shiftl x 32)) in
  let x := N.lor (N.shiftr (N.land x 0xFFFF0000FFFF0000) 16) (trunc 64 (N.shiftl (N.land x 0x0000FFFF0000FFFF) 16)) in
  let x := N.lor (N.shiftr (N.land x 0xFF00FF00FF00FF00) 8) (trunc 64 (N.shiftl (N.land x 0x00FF00FF00FF00FF) 8)) in
  let x := N.lor (N.shiftr (N.land x 0xF0F0F0F0F0F0F0F0) 4) (trunc 64 (N.shiftl (N.land x 0x0F0F0F0F0F0F0F0F) 4)) in
  let x := N.lor (N.shiftr (N.land x 0xCCCCCCCCCCCCCCCC) 2) (trunc 64 (N.shiftl (N.land x 0x3333333333333333) 2)) in
  let x := N.lor (N.shiftr (N.land x 0xAAAAAAAAAAAAAAAA) 1) (trunc 64 (N.shiftl (N.land x 0x5555555555555555) 1)) in
  x.

(* ------------------------------------------------------------------------------------------ *)
(* Part A.2  the four widths                                                                   *)

Inductive width : Set := W8 | W16 | W32 | W64.

Definition bits (k : width) : N :=
  match k with W8 => 8 | W16 => 16 | W32 => 32 | W64 => 64 end.

(* width of the C variable `value` inside a_crc<N>m_init / a_crc<N>l_init:
   `unsigned int` for 8 and 16 (so NOT truncated to N bits inside the loop, only by the final
   cast), a_u32 / a_u64 for 32 and 64. *)
Definition work_bits (k : width) : N :=
  match k with W8 => 32 | W16 => 32 | W32 => 32 | W64 => 64 end.

Definition a_rev (k : width) : N -> N :=
  match k with W8 => a_u8_rev | W16 => a_u16_rev | W32 => a_u32_rev | W64 => a_u64_rev end.

(* ------------------------------------------------------------------------------------------ *)
(* Part A.3  table generators  (src/crc.c a_crc<N>m_init, a_crc<N>l_init)                      *)

(*  sig = TOPBIT & value;  value <<= 1;  if (sig) value ^= poly;  *)
Definition m_init_step (w ww poly value : N) : N :=
  let sig := N.land (N.shiftl 1 (w - 1)) value in
  let value := trunc ww (N.shiftl value 1) in
  if N.eqb sig 0 then value else N.lxor value poly.

(*  sig = value & 1;  value >>= 1;  if (sig) value ^= poly;  *)
Definition l_init_step (poly value : N) : N :=
  let sig := N.land value 1 in
  let value := N.shiftr value 1 in
  if N.eqb sig 0 then value else N.lxor value poly.

(*  value = c << (N-8);  8 steps;  table[c] = (a_uN)value  *)
Definition m_init_entry (k : width) (poly c : N) : N :=
  let value := trunc (work_bits k) (N.shiftl c (bits k - 8)) in
  trunc (bits k) (iter 8 (m_init_step (bits k) (work_bits k) poly) value).

(*  poly = a_uN_rev(poly) (done once by the caller below);  value = c;  8 steps;  (a_uN)value *)
Definition l_init_entry (k : width) (rpoly c : N) : N :=
  trunc (bits k) (iter 8 (l_init_step rpoly) c).

Definition indices256 : list N := map N.of_nat (seq 0 256).

Definition a_crc_m_init (k : width) (poly : N) : list N :=
  map (m_init_entry k poly) indices256.

Definition a_crc_l_init (k : width) (poly : N) : list N :=
  let rpoly := a_rev k poly in
  map (l_init_entry k rpoly) indices256.

(* ------------------------------------------------------------------------------------------ *)
(* Part A.4  byte updates  (a_crc8, a_crc<N>m, a_crc<N>l)                                      *)

Definition tab_get (t : list N) (i : N) : option N := nth_error t (N.to_nat i).

(*  value = table[value ^ *p++];                                         (a_crc8, both orders) *)
Definition crc8_byte (t : list N) (v b : N) : option N :=
  tab_get t (N.lxor v b).

(*  value = (a_uN)((value << 8) ^ table[((value >> (N-8)) ^ *p++) & 0xFF]);                    *)
Definition crcm_byte (w : N) (t : list N) (v b : N) : option N :=
  match tab_get t (N.land (N.lxor (N.shiftr v (w - 8)) b) 0xFF) with
  | Some e => Some (trunc w (N.lxor (N.shiftl v 8) e))
  | None => None
  end.

(*  value = (a_uN)((value >> 8) ^ table[(value ^ *p++) & 0xFF]);                               *)
Definition crcl_byte (w : N) (t : list N) (v b : N) : option N :=
  match tab_get t (N.land (N.lxor v b) 0xFF) with
  | Some e => Some (trunc w (N.lxor (N.shiftr v 8) e))
  | None => None
  end.

Definition upd_m (k : width) : list N -> N -> N -> option N :=
  match k with W8 => crc8_byte | _ => crcm_byte (bits k) end.

Definition upd_l (k : width) : list N -> N -> N -> option N :=
  match k with W8 => crc8_byte | _ => crcl_byte (bits k) end.

(*  for (; nbyte; --nbyte) value = <update>;  return value;  *)
Fixpoint crc_loop (upd : N -> N -> option N) (data : list N) (v : N) : option N :=
  match data with
  | [] => Some v
  | b :: rest => match upd v b with Some v' => crc_loop upd rest v' | None => None end
  end.

Definition a_crc_m (k : width) (t : list N) (data : list N) (v : N) : option N :=
  crc_loop (upd_m k t) data v.
Definition a_crc_l (k : width) (t : list N) (data : list N) (v : N) : option N :=
  crc_loop (upd_l k t) data v.

(* feeding in pieces: the caller carries the returned value into the next call *)
Definition obind {A B : Type} (o : option A) (f : A -> option B) : option B :=
  match o with Some a => f a | None => None end.

(* ------------------------------------------------------------------------------------------ *)
(* Part A.5  hashes  (src/hash.c)                                                              *)

(*  val = val * MUL + *ptr   on a_u32  *)
Definition hash_step (mul v b : N) : N := trunc 32 (v * mul + b).

(*  a_hash_bkdr_ / a_hash_sdbm_ : for (; siz; --siz, ++ptr) ...  *)
Definition hash_len (mul : N) (s : list N) (v : N) : N := fold_left (hash_step mul) s v.

(*  a_hash_bkdr / a_hash_sdbm on the bytes found in memory starting at str:
    for (; *str; ++str) ...   Running off the modelled memory without meeting a 0 byte is an
    error (None): the C would read past the object.  *)
Fixpoint hash_str (mul : N) (mem : list N) (v : N) : option N :=
  match mem with
  | [] => None
  | b :: rest => if N.eqb b 0 then Some v else hash_str mul rest (hash_step mul v b)
  end.

(*  if (str) { ... } return val;   NULL is modelled by None  *)
Definition hash_str_ptr (mul : N) (str : option (list N)) (v : N) : option N :=
  match str with None => Some v | Some mem => hash_str mul mem v end.

Definition BKDR : N := 131.
Definition SDBM : N := 65599.

Definition a_hash_bkdr  := hash_str_ptr BKDR.
Definition a_hash_bkdr_ := hash_len BKDR.
Definition a_hash_sdbm  := hash_str_ptr SDBM.
Definition a_hash_sdbm_ := hash_len SDBM.

(* ========================================================================================== *)
(* Part B  reference definitions                                                              *)

(* B.1  bit mirror of the low n bits:  bit i of the result = bit (n-1-i) of x  *)
Fixpoint bitrev (n : nat) (x : N) : N :=
  match n with
  | O => 0
  | S n' => N.lor (N.shiftl (N.land x 1) (N.of_nat n')) (bitrev n' (N.shiftr x 1))
  end.

Definition nbits (k : width) : nat :=
  match k with W8 => 8%nat | W16 => 16%nat | W32 => 32%nat | W64 => 64%nat end.

(* B.2  bit-serial division, most significant bit first.
   The register holds w bits.  One clock: the bit leaving at the top decides whether the
   generator is subtracted (xor) after the shift. *)
Definition step_m (w poly v : N) : N :=
  let v' := trunc w (N.shiftl v 1) in
  if N.testbit v (w - 1) then N.lxor v' poly else v'.

(* one message bit enters at the top *)
Definition feed_m (w poly v : N) (b : bool) : N :=
  step_m w poly (N.lxor v (if b then N.shiftl 1 (w - 1) else 0)).

Definition byte_bits_msb (b : N) : list bool :=
  map (N.testbit b) [7; 6; 5; 4; 3; 2; 1; 0].

Definition crc_bits_m (w poly : N) (data : list N) (v : N) : N :=
  fold_left (feed_m w poly) (flat_map byte_bits_msb data) v.

(* B.3  the same, least significant bit first (reflected register; rpoly is the mirrored
   generator) *)
Definition step_l (rpoly v : N) : N :=
  let v' := N.shiftr v 1 in
  if N.testbit v 0 then N.lxor v' rpoly else v'.

Definition feed_l (rpoly v : N) (b : bool) : N :=
  step_l rpoly (N.lxor v (if b then 1 else 0)).

Definition byte_bits_lsb (b : N) : list bool :=
  map (N.testbit b) [0; 1; 2; 3; 4; 5; 6; 7].

Definition crc_bits_l (k : width) (poly : N) (data : list N) (v : N) : N :=
  fold_left (feed_l (bitrev (nbits k) poly)) (flat_map byte_bits_lsb data) v.

(* B.4  GF(2)[x]: a polynomial is the N whose bit i is the coefficient of x^i; addition is
   lxor; clmul is the carry-less product. *)
Fixpoint clmul_pos (q : positive) (g : N) : N :=
  match q with
  | xH => g
  | xO q' => N.double (clmul_pos q' g)
  | xI q' => N.lxor (N.double (clmul_pos q' g)) g
  end.
Definition clmul (q g : N) : N := match q with N0 => 0 | Npos p => clmul_pos p g end.

(* the message as a polynomial: first byte = highest coefficients (MSB-first convention) *)
Definition msg_poly (data : list N) : N := fold_left (fun acc b => N.lor (N.shiftl acc 8) b) data 0.

(* the bits fed so far as a polynomial (first bit = highest coefficient) *)
Definition bitval (acc : N) (b : bool) : N := N.lor (N.double acc) (if b then 1 else 0).
Definition bits_val (bs : list bool) : N := fold_left bitval bs 0.

(* B.5  hash closed form:  v*mul^n + sum s_i * mul^(n-1-i)   (mod 2^32)  *)
Fixpoint horner (mul : N) (s : list N) (acc : N) : N :=
  match s with [] => acc | b :: r => horner mul r (acc * mul + b) end.

Fixpoint hash_sum (mul : N) (s : list N) : N :=
  match s with [] => 0 | b :: r => b * mul ^ N.of_nat (length r) + hash_sum mul r end.
