(* C17 -- non-vacuity: concrete states satisfying the hypotheses of the property theorems, and
   the model evaluated (vm_compute) on the eight constants of /repo/test/crc.h and on published
   check values. *)
From Coq Require Import NArith List Lia.
From LibaV Require Import C17.CrcDefs C17.MainProofs.
Import ListNotations.
Local Open Scope N_scope.

Definition digits10 : list N := [0x30; 0x31; 0x32; 0x33; 0x34; 0x35; 0x36; 0x37; 0x38; 0x39].
Definition check9 : list N := [0x31; 0x32; 0x33; 0x34; 0x35; 0x36; 0x37; 0x38; 0x39].
Definition nonascii : list N := [0x00; 0xFF; 0x80; 0x7F; 0x01; 0xFE; 0xAA; 0x55].

Example digits10_bytes : bytes digits10.
Proof. repeat constructor. Qed.
Example nonascii_bytes : bytes nonascii.
Proof. repeat constructor. Qed.
Example digits10_nul_free : nul_free digits10.
Proof. repeat constructor; discriminate. Qed.

(* hypotheses of crc_table_eq_bits / crc_reflect: poly < 2^w, init < 2^w, bytes data *)
Example hyp_crc32 : 0x04C11DB7 < 2 ^ bits W32 /\ 0xFFFFFFFF < 2 ^ bits W32 /\ bytes check9.
Proof. repeat split; repeat constructor. Qed.
Example hyp_crc64 : 0x42F0E1EBA9EA3693 < 2 ^ bits W64 /\ 0x8000000000000001 < 2 ^ bits W64 /\ bytes nonascii.
Proof. repeat split; repeat constructor. Qed.

(* the eight assertions of /repo/test/crc.h, evaluated on the model *)
Example test_crc8m : a_crc_m W8 (a_crc_m_init W8 0x07) digits10 0 = Some 0x45. Proof. vm_compute. reflexivity. Qed.
Example test_crc8l : a_crc_l W8 (a_crc_l_init W8 0x31) digits10 0 = Some 0x75. Proof. vm_compute. reflexivity. Qed.
Example test_crc16m : a_crc_m W16 (a_crc_m_init W16 0x1021) digits10 0 = Some 0x9C58. Proof. vm_compute. reflexivity. Qed.
Example test_crc16l : a_crc_l W16 (a_crc_l_init W16 0x8005) digits10 0 = Some 0x443D. Proof. vm_compute. reflexivity. Qed.
Example test_crc32m : a_crc_m W32 (a_crc_m_init W32 0x1EDC6F41) digits10 0 = Some 0x512B456E. Proof. vm_compute. reflexivity. Qed.
Example test_crc32l : a_crc_l W32 (a_crc_l_init W32 0x04C11DB7) digits10 0 = Some 0x450EAFB0. Proof. vm_compute. reflexivity. Qed.
Example test_crc64m : a_crc_m W64 (a_crc_m_init W64 0x1B) digits10 0 = Some 0xE4FFBEA588AFC790. Proof. vm_compute. reflexivity. Qed.
Example test_crc64l : a_crc_l W64 (a_crc_l_init W64 0x42F0E1EBA9EA3693) digits10 0 = Some 0xDA60676A5CDE0008. Proof. vm_compute. reflexivity. Qed.

(* published check values ("123456789"): CRC-32/ISO-HDLC before the final xor, CRC-16/XMODEM,
   CRC-8/SMBUS, CRC-64/ECMA-182 -- on the reference itself and on the table-driven model *)
Example check_crc32 : crc_bits_l W32 0x04C11DB7 check9 0xFFFFFFFF = N.lxor 0xCBF43926 0xFFFFFFFF.
Proof. vm_compute. reflexivity. Qed.
Example check_crc32_tab : a_crc_l W32 (a_crc_l_init W32 0x04C11DB7) check9 0xFFFFFFFF = Some (N.lxor 0xCBF43926 0xFFFFFFFF).
Proof. vm_compute. reflexivity. Qed.
Example check_crc16_xmodem : crc_bits_m 16 0x1021 check9 0 = 0x31C3. Proof. vm_compute. reflexivity. Qed.
Example check_crc8_smbus : crc_bits_m 8 0x07 check9 0 = 0xF4. Proof. vm_compute. reflexivity. Qed.
Example check_crc64_ecma : crc_bits_m 64 0x42F0E1EBA9EA3693 check9 0 = 0x6C40DF5F0B497347. Proof. vm_compute. reflexivity. Qed.

(* a_u*_rev on non-trivial words *)
Example rev8_ex : a_u8_rev 0x31 = 0x8C. Proof. vm_compute. reflexivity. Qed.
Example rev16_ex : a_u16_rev 0x8005 = 0xA001. Proof. vm_compute. reflexivity. Qed.
Example rev32_ex : a_u32_rev 0x04C11DB7 = 0xEDB88320. Proof. vm_compute. reflexivity. Qed.
Example rev64_ex : a_u64_rev 0x42F0E1EBA9EA3693 = 0xC96C5795D7870F42. Proof. vm_compute. reflexivity. Qed.

(* reflection on a non-ASCII message with a non-zero initial value: both sides are Some and equal *)
Example reflect_ex :
  a_crc_l W16 (a_crc_l_init W16 0x8005) nonascii 0x1234 = Some 0x70EB /\
  option_map (bitrev 16) (a_crc_m W16 (a_crc_m_init W16 0x8005) (map (bitrev 8) nonascii) (bitrev 16 0x1234)) = Some 0x70EB.
Proof. vm_compute. split; reflexivity. Qed.

(* a split point strictly inside the message; value carried over is not the initial value *)
Example split_ex :
  a_crc_m W32 (a_crc_m_init W32 0x04C11DB7) (firstn 3 nonascii) 0xFFFFFFFF = Some 2430056743 /\
  obind (a_crc_m W32 (a_crc_m_init W32 0x04C11DB7) (firstn 3 nonascii) 0xFFFFFFFF)
        (a_crc_m W32 (a_crc_m_init W32 0x04C11DB7) (skipn 3 nonascii))
  = a_crc_m W32 (a_crc_m_init W32 0x04C11DB7) nonascii 0xFFFFFFFF.
Proof. vm_compute. split; reflexivity. Qed.

(* a bounds-checked table read does fail on an ill-formed table: the Some in the theorems is
   not automatic *)
Example short_table_fails : a_crc_m W16 (firstn 16 (a_crc_m_init W16 0x1021)) digits10 0 = None.
Proof. vm_compute. reflexivity. Qed.

(* the division identity on a concrete case: quotient and remainder exhibited *)
Example remainder_ex :
  let w := 8 in let p := 0x07 in let data := [0x31; 0x32] in
  N.lxor (N.shiftl 0 (8 * 2)) (N.shiftl (msg_poly data) w)
  = N.lxor (clmul 0x31A6 (N.lor (2 ^ w) p)) (crc_bits_m w p data 0)
  /\ crc_bits_m w p data 0 = 0x72.
Proof. vm_compute. split; reflexivity. Qed.

(* hashes: constants of /repo/test/hash.h ("hash", "bkdr", "sdbm" under BKDR from 0) *)
Definition str_hash : list N := [0x68; 0x61; 0x73; 0x68].
Definition str_bkdr : list N := [0x62; 0x6B; 0x64; 0x72].
Definition str_sdbm : list N := [0x73; 0x64; 0x62; 0x6D].
Example test_hash_hash : a_hash_bkdr (Some (str_hash ++ [0])) 0 = Some 0x0E0928A2. Proof. vm_compute. reflexivity. Qed.
Example test_hash_bkdr : a_hash_bkdr (Some (str_bkdr ++ [0])) 0 = Some 0x0D3DEDB7. Proof. vm_compute. reflexivity. Qed.
Example test_hash_sdbm : a_hash_bkdr (Some (str_sdbm ++ [0])) 0 = Some 0x0F833EB8. Proof. vm_compute. reflexivity. Qed.
Example hash_wraps : a_hash_sdbm_ [0x80; 0x81; 0xFF] 0xFFFFFFFF = 0x1102107F /\ 0xFFFFFFFF * 65599 > 2 ^ 32.
Proof. vm_compute. split; reflexivity. Qed.
Example hash_unterminated : a_hash_bkdr (Some str_hash) 0 = None. Proof. vm_compute. reflexivity. Qed.
