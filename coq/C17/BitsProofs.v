(* C17 -- bit-level lemmas on N used by the CRC / reversal proofs, and the GF(2) lifting lemma. *)
From Coq Require Import NArith List Lia Bool ZifyBool ZifyN.
From LibaV Require Import C17.CrcDefs.
Import ListNotations.
Local Open Scope N_scope.

(* ---------------------------------------------------------------------------------------- *)
(* total (unconditional) testbit specifications, suitable for rewriting                      *)

Lemma tb_shiftl a n m : N.testbit (N.shiftl a n) m = (n <=? m) && N.testbit a (m - n).
Proof.
  destruct (N.leb_spec n m).
  - now rewrite N.shiftl_spec_high'.
  - now rewrite N.shiftl_spec_low.
Qed.

Lemma tb_shiftr a n m : N.testbit (N.shiftr a n) m = N.testbit a (m + n).
Proof. apply N.shiftr_spec'. Qed.

Lemma tb_ones n m : N.testbit (N.ones n) m = (m <? n).
Proof.
  destruct (N.ltb_spec m n).
  - now apply N.ones_spec_low.
  - now apply N.ones_spec_high.
Qed.

Lemma tb_trunc w a m : N.testbit (trunc w a) m = (m <? w) && N.testbit a m.
Proof. unfold trunc. rewrite N.land_spec, tb_ones. apply andb_comm. Qed.

Lemma tb_pow2 n m : N.testbit (2 ^ n) m = (n =? m).
Proof. apply N.pow2_bits_eqb. Qed.

Lemma tb_one m : N.testbit 1 m = (m =? 0).
Proof. change 1 with (2 ^ 0). rewrite tb_pow2. apply N.eqb_sym. Qed.

Lemma tb_double a m : N.testbit (N.double a) m = (1 <=? m) && N.testbit a (m - 1).
Proof.
  replace (N.double a) with (N.shiftl a 1).
  - apply tb_shiftl.
  - rewrite N.shiftl_mul_pow2, N.double_spec. change (2 ^ 1) with 2. lia.
Qed.

Lemma tb_b2n (b : bool) m : N.testbit (if b then 1 else 0) m = b && (m =? 0).
Proof. destruct b; [apply tb_one | apply N.bits_0]. Qed.

Lemma tb_high x w i : x < 2 ^ w -> w <= i -> N.testbit x i = false.
Proof.
  intros Hx Hi. destruct (N.eq_dec x 0) as [->|Hz]; [apply N.bits_0|].
  apply N.bits_above_log2. apply N.log2_lt_pow2 in Hx; lia.
Qed.

Lemma lt_pow2_of_bits x w : (forall i, w <= i -> N.testbit x i = false) -> x < 2 ^ w.
Proof.
  intros H. destruct (N.eq_dec x 0) as [->|Hz].
  - apply N.neq_0_lt_0, N.pow_nonzero; lia.
  - apply N.log2_lt_pow2; [lia|].
    destruct (N.lt_ge_cases (N.log2 x) w) as [|Hge]; [assumption|].
    specialize (H _ Hge). rewrite N.bit_log2 in H by assumption. discriminate.
Qed.

Lemma trunc_small w x : x < 2 ^ w -> trunc w x = x.
Proof. intros H. unfold trunc. rewrite N.land_ones. now apply N.mod_small. Qed.

Lemma trunc_lt w x : trunc w x < 2 ^ w.
Proof.
  unfold trunc. rewrite N.land_ones. apply N.mod_lt, N.pow_nonzero. lia.
Qed.

Lemma trunc_mod w x : trunc w x = x mod 2 ^ w.
Proof. apply N.land_ones. Qed.

Lemma lxor_lt w a b : a < 2 ^ w -> b < 2 ^ w -> N.lxor a b < 2 ^ w.
Proof.
  intros Ha Hb. apply lt_pow2_of_bits. intros i Hi.
  now rewrite N.lxor_spec, (tb_high a w i), (tb_high b w i).
Qed.

Lemma lor_lt w a b : a < 2 ^ w -> b < 2 ^ w -> N.lor a b < 2 ^ w.
Proof.
  intros Ha Hb. apply lt_pow2_of_bits. intros i Hi.
  now rewrite N.lor_spec, (tb_high a w i), (tb_high b w i).
Qed.

Lemma land_lt_l w a b : a < 2 ^ w -> N.land a b < 2 ^ w.
Proof.
  intros Ha. apply lt_pow2_of_bits. intros i Hi.
  now rewrite N.land_spec, (tb_high a w i).
Qed.

Lemma shiftr_lt w a n : a < 2 ^ w -> N.shiftr a n < 2 ^ w.
Proof.
  intros Ha. apply lt_pow2_of_bits. intros i Hi.
  rewrite tb_shiftr. apply (tb_high a w); [assumption|lia].
Qed.

Lemma shiftr_lt_sub w a n : a < 2 ^ w -> n <= w -> N.shiftr a n < 2 ^ (w - n).
Proof.
  intros Ha Hn. apply lt_pow2_of_bits. intros i Hi.
  rewrite tb_shiftr. apply (tb_high a w); [assumption|lia].
Qed.

Lemma shiftl_lt w a n k : a < 2 ^ k -> k + n <= w -> N.shiftl a n < 2 ^ w.
Proof.
  intros Ha Hn. apply lt_pow2_of_bits. intros i Hi.
  rewrite tb_shiftl. destruct (N.leb_spec n i); [|reflexivity].
  cbn [andb]. apply (tb_high a k); [assumption|lia].
Qed.

(* rewriting database for bit-blasting *)
Ltac tb_rw :=
  repeat (rewrite ?N.lxor_spec, ?N.land_spec, ?N.lor_spec, ?tb_shiftl, ?tb_shiftr, ?tb_trunc,
            ?tb_ones, ?tb_pow2, ?tb_one, ?tb_double, ?tb_b2n, ?N.bits_0).

(* decide the comparisons that appear, then finish by boolean simplification / index equality *)
Ltac tb_cmp :=
  repeat match goal with
    | |- context [N.leb ?a ?b] => destruct (N.leb_spec a b)
    | |- context [N.ltb ?a ?b] => destruct (N.ltb_spec a b)
    | |- context [N.eqb ?a ?b] => destruct (N.eqb_spec a b)
    end.

Ltac tb_high_tac :=
  repeat match goal with
    | H : ?x < 2 ^ ?w |- context [N.testbit ?x ?i] =>
        rewrite (tb_high x w i H) by lia
    end.

Ltac tb_fin :=
  cbn [andb orb xorb negb];
  try lia;
  tb_high_tac;
  rewrite ?andb_false_r, ?andb_true_r, ?orb_false_r, ?xorb_false_r, ?xorb_false_l, ?xorb_nilpotent;
  try reflexivity;
  try (f_equal; lia);
  try (repeat (f_equal; try lia)).

Ltac bitblast i := apply N.bits_inj; intro i; tb_rw; tb_cmp; tb_fin.

(* ---------------------------------------------------------------------------------------- *)
(* GF(2) lifting: two xor-linear maps on w-bit words that agree on the w basis words 2^i     *)
(* agree on every w-bit word.                                                               *)

Definition xlinear_on (w : N) (f : N -> N) : Prop :=
  forall x y, x < 2 ^ w -> y < 2 ^ w -> f (N.lxor x y) = N.lxor (f x) (f y).

Definition xlinear (f : N -> N) : Prop :=
  forall x y, f (N.lxor x y) = N.lxor (f x) (f y).

Lemma xlinear_on_of_xlinear w f : xlinear f -> xlinear_on w f.
Proof. intros H x y _ _. apply H. Qed.

Lemma xlinear_on_zero w f : xlinear_on w f -> f 0 = 0.
Proof.
  intros H. assert (Hz : 0 < 2 ^ w) by (apply N.neq_0_lt_0, N.pow_nonzero; lia).
  specialize (H 0 0 Hz Hz). rewrite N.lxor_0_l in H.
  rewrite H at 1. apply N.lxor_nilpotent.
Qed.

Lemma split_top_bit x n : x < 2 ^ (N.succ n) ->
  x = N.lxor (trunc n x) (if N.testbit x n then 2 ^ n else 0).
Proof.
  intros Hx. apply N.bits_inj; intro i. rewrite N.lxor_spec, tb_trunc.
  destruct (N.ltb_spec i n) as [Hl|Hl]; cbn [andb].
  - replace (N.testbit (if N.testbit x n then 2 ^ n else 0) i) with false.
    + now rewrite xorb_false_r.
    + destruct (N.testbit x n); rewrite ?tb_pow2, ?N.bits_0; trivial.
      symmetry; apply N.eqb_neq; lia.
  - rewrite xorb_false_l. destruct (N.eq_dec i n) as [->|Hne].
    + destruct (N.testbit x n) eqn:E; rewrite ?tb_pow2, ?N.bits_0, ?N.eqb_refl; reflexivity.
    + rewrite (tb_high x (N.succ n) i) by (assumption || lia).
      destruct (N.testbit x n); rewrite ?tb_pow2, ?N.bits_0; trivial.
      symmetry; apply N.eqb_neq; lia.
Qed.

Lemma gf2_lift_nat (f g : N -> N) (n : nat) :
  xlinear_on (N.of_nat n) f -> xlinear_on (N.of_nat n) g ->
  (forall i, i < N.of_nat n -> f (2 ^ i) = g (2 ^ i)) ->
  forall x, x < 2 ^ N.of_nat n -> f x = g x.
Proof.
  intros Hf Hg. pose proof (xlinear_on_zero _ _ Hf) as Hf0. pose proof (xlinear_on_zero _ _ Hg) as Hg0.
  set (w := N.of_nat n) in *.
  assert (forall k : nat, (k <= n)%nat ->
            (forall i, i < N.of_nat n -> f (2 ^ i) = g (2 ^ i)) ->
            forall x, x < 2 ^ N.of_nat k -> f x = g x) as H.
  { induction k as [|k IH]; intros Hk Hb x Hx.
    - change (2 ^ N.of_nat 0) with 1 in Hx. assert (x = 0) by lia. subst. congruence.
    - rewrite Nat2N.inj_succ in Hx.
      rewrite (split_top_bit x (N.of_nat k) Hx).
      assert (Hk' : N.of_nat k < w) by (unfold w; lia).
      assert (Hp : 2 ^ N.of_nat k < 2 ^ w) by (apply N.pow_lt_mono_r; lia).
      assert (Ht : trunc (N.of_nat k) x < 2 ^ w).
      { eapply N.lt_trans; [apply trunc_lt|exact Hp]. }
      assert (Hz : 0 < 2 ^ w) by (apply N.neq_0_lt_0, N.pow_nonzero; lia).
      destruct (N.testbit x (N.of_nat k)).
      + rewrite Hf, Hg by assumption. f_equal.
        * apply IH; [lia|assumption|apply trunc_lt].
        * apply Hb. exact Hk'.
      + rewrite !N.lxor_0_r. apply IH; [lia|assumption|apply trunc_lt]. }
  intros Hb x Hx. apply (H n); auto.
Qed.

Lemma gf2_lift (w : N) (f g : N -> N) :
  xlinear_on w f -> xlinear_on w g ->
  (forall i, i < w -> f (2 ^ i) = g (2 ^ i)) ->
  forall x, x < 2 ^ w -> f x = g x.
Proof.
  rewrite <- (N2Nat.id w). apply gf2_lift_nat.
Qed.

(* a finite sweep over the basis, in a form vm_compute can discharge *)
Definition basis_agree (n : nat) (f g : N -> N) : bool :=
  forallb (fun i => N.eqb (f (2 ^ N.of_nat i)) (g (2 ^ N.of_nat i))) (seq 0 n).

Lemma basis_agree_spec n f g :
  basis_agree n f g = true -> forall i, i < N.of_nat n -> f (2 ^ i) = g (2 ^ i).
Proof.
  unfold basis_agree. rewrite forallb_forall. intros H i Hi.
  specialize (H (N.to_nat i)). rewrite N2Nat.id in H. apply N.eqb_eq, H.
  apply in_seq. lia.
Qed.
