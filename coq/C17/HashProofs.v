(* C17 -- proofs about the BKDR / SDBM hash model (coq/C17/CrcDefs.v part A.5). *)
From Coq Require Import NArith List Lia Bool ZifyBool ZifyN.
From LibaV Require Import C17.CrcDefs C17.BitsProofs.
Import ListNotations.
Local Open Scope N_scope.

(* feeding in pieces *)
Lemma hash_len_app mul a b v : hash_len mul (a ++ b) v = hash_len mul b (hash_len mul a v).
Proof. unfold hash_len. apply fold_left_app. Qed.

Lemma hash_len_split mul s n v :
  hash_len mul s v = hash_len mul (skipn n s) (hash_len mul (firstn n s) v).
Proof. rewrite <- hash_len_app. now rewrite firstn_skipn. Qed.

(* the string form reads up to the first 0 byte and agrees with the length form on what it read *)
Lemma hash_str_prefix mul a : Forall (fun b => b <> 0) a -> forall mem v,
  hash_str mul (a ++ mem) v = hash_str mul mem (hash_len mul a v).
Proof.
  intros Ha. induction Ha as [|b a Hb Ha IH]; intros mem v; [reflexivity|].
  cbn [app hash_str]. destruct (N.eqb_spec b 0); [contradiction|].
  rewrite IH. reflexivity.
Qed.

Lemma hash_str_eq_len_aux mul s rest v : Forall (fun b => b <> 0) s ->
  hash_str mul (s ++ 0 :: rest) v = Some (hash_len mul s v).
Proof. intros Hs. rewrite hash_str_prefix by assumption. reflexivity. Qed.

Lemma hash_str_unterminated mul s v : Forall (fun b => b <> 0) s -> hash_str mul s v = None.
Proof.
  intros Hs. rewrite <- (app_nil_r s). rewrite hash_str_prefix by assumption. reflexivity.
Qed.

(* the string form in pieces: a NUL-free first piece handled by the length form, the rest by the
   string form with the value carried over *)
Lemma hash_str_concat mul a b rest v : Forall (fun x => x <> 0) a -> Forall (fun x => x <> 0) b ->
  hash_str mul ((a ++ b) ++ 0 :: rest) v = hash_str mul (b ++ 0 :: rest) (hash_len mul a v).
Proof. intros Ha Hb. rewrite <- app_assoc. now apply hash_str_prefix. Qed.

(* closed form *)
Lemma hash_len_horner mul s : forall v acc, v = acc mod 2 ^ 32 ->
  hash_len mul s v = horner mul s acc mod 2 ^ 32.
Proof.
  assert (Hnz : 2 ^ 32 <> 0) by (apply N.pow_nonzero; lia).
  induction s as [|b s IH]; intros v acc Hv; [exact Hv|].
  unfold hash_len in *. cbn [fold_left horner]. apply IH.
  unfold hash_step. rewrite trunc_mod, Hv.
  rewrite (N.add_mod (acc mod 2 ^ 32 * mul) b) by assumption.
  rewrite N.mul_mod_idemp_l by assumption. rewrite <- N.add_mod by assumption. reflexivity.
Qed.

Lemma horner_sum mul s : forall acc,
  horner mul s acc = acc * mul ^ N.of_nat (length s) + hash_sum mul s.
Proof.
  induction s as [|b s IH]; intro acc.
  - cbn [horner hash_sum length]. change (mul ^ N.of_nat 0) with 1. lia.
  - cbn [horner hash_sum length]. rewrite IH, Nat2N.inj_succ, N.pow_succ_r'. lia.
Qed.

Theorem hash_len_closed_aux mul s v : v < 2 ^ 32 ->
  hash_len mul s v = (v * mul ^ N.of_nat (length s) + hash_sum mul s) mod 2 ^ 32.
Proof.
  intros Hv. rewrite <- horner_sum. apply hash_len_horner. symmetry. now apply N.mod_small.
Qed.

Lemma hash_len_lt mul s v : v < 2 ^ 32 -> hash_len mul s v < 2 ^ 32.
Proof.
  intros Hv. rewrite hash_len_closed_aux by assumption. apply N.mod_lt, N.pow_nonzero. lia.
Qed.
