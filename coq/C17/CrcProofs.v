(* C17 -- proofs about the CRC model (coq/C17/CrcDefs.v):
   table-driven update = bit-serial division (both bit orders, all four widths, all
   polynomials / initial values / messages), reflection, concatenation. *)
From Coq Require Import NArith List Lia Bool ZifyBool ZifyN.
From LibaV Require Import C17.CrcDefs C17.BitsProofs C17.RevProofs.
Import ListNotations.
Local Open Scope N_scope.

(* ---------------------------------------------------------------------------------------- *)
(* concatenation: for ANY table and any update function, feeding a ++ b is feeding a and then *)
(* b with the value carried over.                                                            *)
Lemma crc_loop_app upd a b v :
  crc_loop upd (a ++ b) v = obind (crc_loop upd a v) (crc_loop upd b).
Proof.
  revert v; induction a as [|x a IH]; intro v; cbn [app crc_loop obind]; [reflexivity|].
  destruct (upd v x); [apply IH|reflexivity].
Qed.

(* ---------------------------------------------------------------------------------------- *)
(* small facts                                                                               *)

Lemma bits_ge8 k : 8 <= bits k. Proof. destruct k; cbn; lia. Qed.
Lemma bits_le_work k : bits k <= work_bits k. Proof. destruct k; cbn; lia. Qed.

Lemma iter_S {A} n (f : A -> A) x : iter (S n) f x = iter n f (f x).
Proof. reflexivity. Qed.

Lemma iter_lxor n f : (forall x y, f (N.lxor x y) = N.lxor (f x) (f y)) ->
  forall x y, iter n f (N.lxor x y) = N.lxor (iter n f x) (iter n f y).
Proof.
  intros Hf. induction n as [|n IH]; intros x y; [reflexivity|].
  now rewrite !iter_S, Hf, IH.
Qed.

Lemma iter_ext {A} n (f g : A -> A) : (forall x, f x = g x) -> forall x, iter n f x = iter n g x.
Proof.
  intros H. induction n as [|n IH]; intro x; [reflexivity|]. now rewrite !iter_S, H, IH.
Qed.

Lemma iter_inv {A} (P : A -> Prop) n (f : A -> A) : (forall x, P x -> P (f x)) ->
  forall x, P x -> P (iter n f x).
Proof.
  intros H. induction n as [|n IH]; intros x Hx; [assumption|]. rewrite iter_S. auto.
Qed.

Ltac xor_solve :=
  apply N.bits_inj; let i := fresh "i" in intro i; rewrite ?N.lxor_spec, ?N.bits_0;
  repeat match goal with |- context [N.testbit ?a ?j] => destruct (N.testbit a j) end; reflexivity.

Lemma land_pow2_testbit n v : N.land (N.shiftl 1 n) v = if N.testbit v n then 2 ^ n else 0.
Proof.
  rewrite N.shiftl_1_l. apply N.bits_inj; intro i. rewrite N.land_spec, tb_pow2.
  destruct (N.eqb_spec n i) as [->|Hne]; cbn [andb].
  - destruct (N.testbit v i); [now rewrite tb_pow2, N.eqb_refl | now rewrite N.bits_0].
  - destruct (N.testbit v n); [|now rewrite N.bits_0].
    rewrite tb_pow2. symmetry. now apply N.eqb_neq.
Qed.

Lemma sig_m_eqb n v : N.eqb (N.land (N.shiftl 1 n) v) 0 = negb (N.testbit v n).
Proof.
  rewrite land_pow2_testbit. destruct (N.testbit v n); [|reflexivity].
  cbn [negb]. apply N.eqb_neq, N.pow_nonzero. lia.
Qed.

Lemma sig_l_eqb v : N.eqb (N.land v 1) 0 = negb (N.testbit v 0).
Proof.
  rewrite N.land_comm. change 1 with (N.shiftl 1 0) at 1. apply sig_m_eqb.
Qed.

Lemma tab_get_map f c : c < 256 -> tab_get (map f indices256) c = Some (f c).
Proof.
  intros Hc. unfold tab_get, indices256. rewrite map_map.
  assert (Hl : (N.to_nat c < length (seq 0 256))%nat) by (rewrite seq_length; lia).
  rewrite (nth_error_nth' _ (f (N.of_nat 0))) by (now rewrite map_length).
  rewrite (map_nth (fun x => f (N.of_nat x))). rewrite seq_nth by lia.
  cbn [Nat.add]. now rewrite N2Nat.id.
Qed.

(* bytewise form = one message bit at a time *)
Fixpoint down (n : nat) : list N :=
  match n with O => [] | S n' => N.of_nat n' :: down n' end.

Lemma down_lt n j : In j (down n) -> j < N.of_nat n.
Proof.
  induction n as [|n IH]; cbn [down In]; [tauto|]. intros [<-|H]; [lia|]. specialize (IH H). lia.
Qed.


(* ======================================================================================== *)
(* MSB first                                                                                *)

Section MSB.
Variable w : N.
Variable p : N.
Hypothesis Hw8 : 8 <= w.
Hypothesis Hp : p < 2 ^ w.

Lemma trunc_shiftl1_lxor x y :
  trunc w (N.shiftl (N.lxor x y) 1) = N.lxor (trunc w (N.shiftl x 1)) (trunc w (N.shiftl y 1)).
Proof.
  apply N.bits_inj; intro i. rewrite N.lxor_spec, !tb_trunc, !tb_shiftl, N.lxor_spec.
  destruct (i <? w); destruct (1 <=? i); cbn [andb]; reflexivity.
Qed.

Lemma step_m_lxor x y : step_m w p (N.lxor x y) = N.lxor (step_m w p x) (step_m w p y).
Proof.
  unfold step_m. cbv zeta. rewrite N.lxor_spec, trunc_shiftl1_lxor.
  destruct (N.testbit x (w - 1)); destruct (N.testbit y (w - 1)); cbn [xorb]; xor_solve.
Qed.

Lemma step_m_lt x : step_m w p x < 2 ^ w.
Proof.
  unfold step_m. cbv zeta. destruct (N.testbit x (w - 1)).
  - apply lxor_lt; [apply trunc_lt|exact Hp].
  - apply trunc_lt.
Qed.

Lemma step_m_small x : x < 2 ^ (w - 1) -> step_m w p x = N.shiftl x 1.
Proof.
  intros Hx. unfold step_m. cbv zeta. rewrite (tb_high x (w - 1)) by (assumption || lia).
  apply trunc_small. apply (shiftl_lt w x 1 (w - 1)); [assumption|lia].
Qed.

Lemma iter_step_m_small n : forall x, N.of_nat n <= w -> x < 2 ^ (w - N.of_nat n) ->
  iter n (step_m w p) x = N.shiftl x (N.of_nat n).
Proof.
  induction n as [|n IH]; intros x Hn Hx.
  - cbn [iter]. now rewrite N.shiftl_0_r.
  - rewrite iter_S. rewrite Nat2N.inj_succ in *.
    assert (Hx1 : x < 2 ^ (w - 1)).
    { eapply N.lt_le_trans; [exact Hx|]. apply N.pow_le_mono_r; lia. }
    rewrite step_m_small by assumption.
    rewrite IH.
    + rewrite N.shiftl_shiftl. f_equal. lia.
    + lia.
    + apply (shiftl_lt _ x 1 (w - N.succ (N.of_nat n))); [assumption|lia].
Qed.

(* the bytewise form of the reference: xor the byte into the top, clock eight times *)
Definition byte_m (v b : N) : N := iter 8 (step_m w p) (N.lxor v (N.shiftl b (w - 8))).

Lemma byte_m_lt v b : byte_m v b < 2 ^ w.
Proof.
  unfold byte_m. rewrite iter_S. apply (iter_inv (fun x => x < 2 ^ w)).
  - intros x _. apply step_m_lt.
  - apply step_m_lt.
Qed.

Lemma byte_split_m v b : v < 2 ^ w -> b < 2 ^ 8 ->
  N.lxor v (N.shiftl b (w - 8)) =
  N.lxor (N.shiftl (N.land (N.lxor (N.shiftr v (w - 8)) b) (N.ones 8)) (w - 8)) (trunc (w - 8) v).
Proof.
  intros Hv Hb. apply N.bits_inj; intro i.
  rewrite !N.lxor_spec, !tb_shiftl, tb_trunc, N.land_spec, N.lxor_spec, tb_shiftr, tb_ones.
  destruct (N.leb_spec (w - 8) i) as [Hi|Hi].
  - destruct (N.ltb_spec i (w - 8)) as [Hi'|_]; [lia|]. cbn [andb].
    rewrite xorb_false_r. destruct (N.ltb_spec (i - (w - 8)) 8).
    + rewrite andb_true_r. f_equal. f_equal. lia.
    + rewrite andb_false_r. rewrite (tb_high v w i) by (assumption || lia).
      rewrite (tb_high b 8) by (assumption || lia). reflexivity.
  - destruct (N.ltb_spec i (w - 8)) as [_|Hi']; [|lia]. cbn [andb].
    now rewrite xorb_false_r, xorb_false_l.
Qed.

Lemma trunc_shiftl8 v : trunc w (N.shiftl v 8) = N.shiftl (trunc (w - 8) v) 8.
Proof.
  apply N.bits_inj; intro i. rewrite tb_trunc, !tb_shiftl, tb_trunc.
  destruct (N.ltb_spec i w); destruct (N.leb_spec 8 i); destruct (N.ltb_spec (i - 8) (w - 8));
    cbn [andb]; try lia; reflexivity.
Qed.

(* table lookup + shift = eight clocks: the heart of the table method *)
Lemma byte_m_table v b : v < 2 ^ w -> b < 2 ^ 8 ->
  byte_m v b =
  trunc w (N.lxor (N.shiftl v 8)
            (iter 8 (step_m w p) (N.shiftl (N.land (N.lxor (N.shiftr v (w - 8)) b) (N.ones 8)) (w - 8)))).
Proof.
  intros Hv Hb. unfold byte_m. rewrite byte_split_m by assumption.
  rewrite (iter_lxor 8 _ step_m_lxor).
  rewrite (iter_step_m_small 8 (trunc (w - 8) v)) by (try apply trunc_lt; cbn; lia).
  set (e := iter 8 _ _).
  assert (He : e < 2 ^ w).
  { unfold e. rewrite iter_S. apply (iter_inv (fun x => x < 2 ^ w)).
    - intros x _. apply step_m_lt.
    - apply step_m_lt. }
  change (N.of_nat 8) with 8. rewrite <- trunc_shiftl8.
  rewrite N.lxor_comm. symmetry.
  apply N.bits_inj; intro i. rewrite tb_trunc, !N.lxor_spec, tb_trunc.
  destruct (N.ltb_spec i w); cbn [andb]; [reflexivity|].
  now rewrite (tb_high e w i) by (assumption || lia).
Qed.

Lemma shiftl_split_top b n s : b < 2 ^ N.succ n ->
  N.shiftl b s = N.lxor (if N.testbit b n then N.shiftl 1 (n + s) else 0) (N.shiftl (trunc n b) s).
Proof.
  intros Hb. rewrite (split_top_bit b n Hb) at 1. rewrite N.shiftl_lxor, N.lxor_comm. f_equal.
  destruct (N.testbit b n); [|apply N.shiftl_0_l].
  rewrite <- N.shiftl_1_l, N.shiftl_shiftl. reflexivity.
Qed.

Lemma feed_chain_m n : forall s v b, N.of_nat n + s = w -> b < 2 ^ N.of_nat n ->
  iter n (step_m w p) (N.lxor v (N.shiftl b s)) =
  fold_left (feed_m w p) (map (N.testbit b) (down n)) v.
Proof.
  induction n as [|n IH]; intros s v b Hs Hb.
  - cbn [iter down map fold_left]. change (2 ^ N.of_nat 0) with 1 in Hb.
    assert (b = 0) by lia. subst. now rewrite N.shiftl_0_l, N.lxor_0_r.
  - rewrite iter_S. cbn [down map fold_left]. rewrite Nat2N.inj_succ in *.
    rewrite (shiftl_split_top b (N.of_nat n) s Hb), <- N.lxor_assoc, step_m_lxor.
    replace (N.of_nat n + s) with (w - 1) by lia.
    change (step_m w p (N.lxor v (if N.testbit b (N.of_nat n) then N.shiftl 1 (w - 1) else 0)))
      with (feed_m w p v (N.testbit b (N.of_nat n))).
    rewrite step_m_small.
    + rewrite N.shiftl_shiftl. rewrite IH by (try apply trunc_lt; lia).
      f_equal. apply map_ext_in. intros j Hj. apply down_lt in Hj.
      rewrite tb_trunc. destruct (N.ltb_spec j (N.of_nat n)); [reflexivity|lia].
    + apply (shiftl_lt _ _ s (N.of_nat n)); [apply trunc_lt|lia].
Qed.

Lemma byte_m_feed v b : b < 2 ^ 8 ->
  byte_m v b = fold_left (feed_m w p) (byte_bits_msb b) v.
Proof.
  intros Hb. unfold byte_m. rewrite (feed_chain_m 8 (w - 8) v b).
  - reflexivity.
  - change (N.of_nat 8) with 8. lia.
  - exact Hb.
Qed.

Lemma crc_bits_m_cons b data v :
  crc_bits_m w p (b :: data) v = crc_bits_m w p data (fold_left (feed_m w p) (byte_bits_msb b) v).
Proof. unfold crc_bits_m. cbn [flat_map]. now rewrite fold_left_app. Qed.

Lemma crc_bits_m_lt data : forall v, v < 2 ^ w -> crc_bits_m w p data v < 2 ^ w.
Proof.
  induction data as [|b data IH]; intros v Hv; [exact Hv|].
  rewrite crc_bits_m_cons. apply IH.
  unfold byte_bits_msb. cbn [map fold_left]. unfold feed_m. apply step_m_lt.
Qed.

End MSB.

(* ---------------------------------------------------------------------------------------- *)
(* the model's MSB-first table generator and update against the reference                    *)

Lemma trunc_trunc_shiftl1 w ww v : w <= ww ->
  trunc w (trunc ww (N.shiftl v 1)) = trunc w (N.shiftl (trunc w v) 1).
Proof.
  intros Hle. apply N.bits_inj; intro i. rewrite !tb_trunc, !tb_shiftl, tb_trunc.
  destruct (N.ltb_spec i w); destruct (N.ltb_spec i ww); destruct (N.leb_spec 1 i);
    destruct (N.ltb_spec (i - 1) w); cbn [andb]; try lia; reflexivity.
Qed.

Lemma trunc_lxor_small w a p : p < 2 ^ w -> trunc w (N.lxor a p) = N.lxor (trunc w a) p.
Proof.
  intros Hp. apply N.bits_inj; intro i. rewrite tb_trunc, !N.lxor_spec, tb_trunc.
  destruct (N.ltb_spec i w); cbn [andb]; [reflexivity|].
  now rewrite (tb_high p w i) by (assumption || lia).
Qed.

(* the C keeps `value` in a wider variable (unsigned int) for the 8/16-bit tables and only the
   final cast truncates: the low w bits evolve exactly like the w-bit register *)
Lemma m_init_step_trunc w ww p v : 1 <= w -> w <= ww -> p < 2 ^ w ->
  trunc w (m_init_step w ww p v) = step_m w p (trunc w v).
Proof.
  intros Hw Hle Hp. unfold m_init_step, step_m. cbv zeta. rewrite sig_m_eqb, tb_trunc.
  destruct (N.ltb_spec (w - 1) w); [|lia]. cbn [andb].
  destruct (N.testbit v (w - 1)); cbn [negb].
  - rewrite trunc_lxor_small by assumption. f_equal. now apply trunc_trunc_shiftl1.
  - now apply trunc_trunc_shiftl1.
Qed.

Lemma m_init_iter w ww p n : 1 <= w -> w <= ww -> p < 2 ^ w -> forall v,
  trunc w (iter n (m_init_step w ww p) v) = iter n (step_m w p) (trunc w v).
Proof.
  intros Hw Hle Hp. induction n as [|n IH]; intro v; [reflexivity|].
  now rewrite !iter_S, IH, m_init_step_trunc.
Qed.

Lemma m_init_entry_eq k p c : p < 2 ^ bits k -> c < 2 ^ 8 ->
  m_init_entry k p c = iter 8 (step_m (bits k) p) (N.shiftl c (bits k - 8)).
Proof.
  intros Hp Hc. pose proof (bits_ge8 k). pose proof (bits_le_work k).
  unfold m_init_entry. cbv zeta. rewrite m_init_iter by (assumption || lia). f_equal.
  assert (Hs : N.shiftl c (bits k - 8) < 2 ^ bits k) by (apply (shiftl_lt _ _ _ 8); [assumption|lia]).
  rewrite (trunc_small (work_bits k)).
  - now apply trunc_small.
  - eapply N.lt_le_trans; [exact Hs|]. apply N.pow_le_mono_r; lia.
Qed.

Lemma tab_m_entry k p c : p < 2 ^ bits k -> c < 2 ^ 8 ->
  tab_get (a_crc_m_init k p) c = Some (iter 8 (step_m (bits k) p) (N.shiftl c (bits k - 8))).
Proof.
  intros Hp Hc. unfold a_crc_m_init. rewrite tab_get_map by exact Hc. f_equal.
  now apply m_init_entry_eq.
Qed.

Lemma land255_lt x : N.land x 255 < 2 ^ 8.
Proof. rewrite N.land_comm. apply land_lt_l. reflexivity. Qed.

Lemma crcm_byte_correct k p v b : p < 2 ^ bits k -> v < 2 ^ bits k -> b < 2 ^ 8 ->
  crcm_byte (bits k) (a_crc_m_init k p) v b = Some (byte_m (bits k) p v b).
Proof.
  intros Hp Hv Hb. pose proof (bits_ge8 k). unfold crcm_byte.
  rewrite tab_m_entry by (assumption || apply land255_lt).
  rewrite byte_m_table by assumption. reflexivity.
Qed.

Lemma upd_m_correct k p v b : p < 2 ^ bits k -> v < 2 ^ bits k -> b < 2 ^ 8 ->
  upd_m k (a_crc_m_init k p) v b = Some (byte_m (bits k) p v b).
Proof.
  intros Hp Hv Hb. destruct k; try (apply crcm_byte_correct; assumption).
  (* a_crc8: value = table[value ^ byte] *)
  cbn [upd_m]. unfold crc8_byte. cbn [bits] in *.
  rewrite tab_m_entry by (try apply lxor_lt; assumption).
  unfold byte_m. cbn [bits]. change (8 - 8) with 0. now rewrite !N.shiftl_0_r.
Qed.

Theorem crc_m_table_eq_bits_aux k p data : p < 2 ^ bits k -> Forall (fun b => b < 2 ^ 8) data ->
  forall v, v < 2 ^ bits k ->
  a_crc_m k (a_crc_m_init k p) data v = Some (crc_bits_m (bits k) p data v).
Proof.
  intros Hp Hd. pose proof (bits_ge8 k) as H8. induction Hd as [|b data Hb Hd IH]; intros v Hv.
  - reflexivity.
  - unfold a_crc_m in *. cbn [crc_loop]. rewrite upd_m_correct by assumption.
    rewrite IH by (now apply byte_m_lt).
    rewrite crc_bits_m_cons, <- byte_m_feed by assumption. reflexivity.
Qed.

(* ======================================================================================== *)
(* LSB first                                                                                *)

Section LSB.
Variable w : N.
Variable rp : N.         (* the mirrored generator *)
Hypothesis Hw8 : 8 <= w.
Hypothesis Hrp : rp < 2 ^ w.

Lemma step_l_lxor x y : step_l rp (N.lxor x y) = N.lxor (step_l rp x) (step_l rp y).
Proof.
  unfold step_l. cbv zeta. rewrite N.lxor_spec, N.shiftr_lxor.
  destruct (N.testbit x 0); destruct (N.testbit y 0); cbn [xorb]; xor_solve.
Qed.

Lemma step_l_lt x : x < 2 ^ w -> step_l rp x < 2 ^ w.
Proof.
  intros Hx. unfold step_l. cbv zeta. destruct (N.testbit x 0).
  - apply lxor_lt; [now apply shiftr_lt|exact Hrp].
  - now apply shiftr_lt.
Qed.

Lemma iter_step_l_lt n x : x < 2 ^ w -> iter n (step_l rp) x < 2 ^ w.
Proof. apply (iter_inv (fun x => x < 2 ^ w)). intros; now apply step_l_lt. Qed.

Lemma step_l_even y : step_l rp (N.shiftl y 1) = y.
Proof.
  unfold step_l. cbv zeta. rewrite tb_shiftl. cbn [N.leb N.compare andb].
  apply N.bits_inj; intro i. rewrite tb_shiftr, tb_shiftl.
  destruct (N.leb_spec 1 (i + 1)); [|lia]. cbn [andb]. f_equal. lia.
Qed.

Lemma iter_step_l_shifted n : forall y, iter n (step_l rp) (N.shiftl y (N.of_nat n)) = y.
Proof.
  induction n as [|n IH]; intro y.
  - cbn [iter]. apply N.shiftl_0_r.
  - rewrite iter_S, Nat2N.inj_succ.
    replace (N.shiftl y (N.succ (N.of_nat n))) with (N.shiftl (N.shiftl y (N.of_nat n)) 1)
      by (rewrite N.shiftl_shiftl; f_equal; lia).
    now rewrite step_l_even.
Qed.

Definition byte_l (v b : N) : N := iter 8 (step_l rp) (N.lxor v b).

Lemma byte_l_lt v b : v < 2 ^ w -> b < 2 ^ 8 -> byte_l v b < 2 ^ w.
Proof.
  intros Hv Hb. apply iter_step_l_lt. apply lxor_lt; [assumption|].
  eapply N.lt_le_trans; [exact Hb|]. apply N.pow_le_mono_r; lia.
Qed.

Lemma byte_split_l v b : b < 2 ^ 8 ->
  N.lxor v b = N.lxor (N.land (N.lxor v b) (N.ones 8)) (N.shiftl (N.shiftr v 8) 8).
Proof.
  intros Hb. apply N.bits_inj; intro i.
  rewrite !N.lxor_spec, N.land_spec, N.lxor_spec, tb_ones, tb_shiftl, tb_shiftr.
  destruct (N.ltb_spec i 8) as [Hi|Hi].
  - destruct (N.leb_spec 8 i); [lia|]. cbn [andb]. now rewrite andb_true_r, xorb_false_r.
  - destruct (N.leb_spec 8 i); [|lia]. cbn [andb].
    rewrite andb_false_r, xorb_false_l. rewrite (tb_high b 8 i) by assumption.
    rewrite xorb_false_r. f_equal. lia.
Qed.

Lemma byte_l_table v b : v < 2 ^ w -> b < 2 ^ 8 ->
  byte_l v b =
  trunc w (N.lxor (N.shiftr v 8) (iter 8 (step_l rp) (N.land (N.lxor v b) (N.ones 8)))).
Proof.
  intros Hv Hb. unfold byte_l. rewrite (byte_split_l v b Hb) at 1.
  rewrite (iter_lxor 8 _ step_l_lxor).
  change 8 with (N.of_nat 8) at 4. rewrite iter_step_l_shifted.
  rewrite N.lxor_comm. symmetry. apply trunc_small. apply lxor_lt.
  - now apply shiftr_lt.
  - apply iter_step_l_lt. rewrite N.land_comm.
    eapply N.lt_le_trans; [apply (land_lt_l 8); reflexivity|]. apply N.pow_le_mono_r; lia.
Qed.

Fixpoint lsb_bits (n : nat) (b : N) : list bool :=
  match n with O => [] | S n' => N.testbit b 0 :: lsb_bits n' (N.shiftr b 1) end.

Lemma split_low_bit b : b = N.lxor (if N.testbit b 0 then 1 else 0) (N.shiftl (N.shiftr b 1) 1).
Proof.
  apply N.bits_inj; intro i. rewrite N.lxor_spec, tb_b2n, tb_shiftl, tb_shiftr.
  destruct (N.eqb_spec i 0) as [->|Hne].
  - cbn [N.leb N.compare andb]. now rewrite andb_true_r, xorb_false_r.
  - destruct (N.leb_spec 1 i); [|lia]. cbn [andb]. rewrite andb_false_r, xorb_false_l. f_equal. lia.
Qed.

Lemma feed_chain_l n : forall v b,
  iter n (step_l rp) (N.lxor v b) =
  N.lxor (fold_left (feed_l rp) (lsb_bits n b) v) (N.shiftr b (N.of_nat n)).
Proof.
  induction n as [|n IH]; intros v b.
  - cbn [iter lsb_bits fold_left]. now rewrite N.shiftr_0_r.
  - rewrite iter_S. cbn [lsb_bits fold_left].
    rewrite (split_low_bit b) at 1. rewrite <- N.lxor_assoc, step_l_lxor, step_l_even.
    change (step_l rp (N.lxor v (if N.testbit b 0 then 1 else 0))) with (feed_l rp v (N.testbit b 0)).
    rewrite IH, N.shiftr_shiftr, Nat2N.inj_succ. f_equal. f_equal. lia.
Qed.

Lemma lsb_bits_8 b : lsb_bits 8 b = byte_bits_lsb b.
Proof.
  unfold byte_bits_lsb. cbn [lsb_bits map]. rewrite !tb_shiftr. reflexivity.
Qed.

Lemma byte_l_feed v b : b < 2 ^ 8 ->
  byte_l v b = fold_left (feed_l rp) (byte_bits_lsb b) v.
Proof.
  intros Hb. unfold byte_l. rewrite (feed_chain_l 8), lsb_bits_8.
  replace (N.shiftr b (N.of_nat 8)) with 0; [apply N.lxor_0_r|].
  symmetry. apply N.bits_inj; intro i. rewrite tb_shiftr, N.bits_0.
  apply (tb_high b 8); [assumption|lia].
Qed.

End LSB.

Lemma l_init_step_eq rp v : l_init_step rp v = step_l rp v.
Proof.
  unfold l_init_step, step_l. cbv zeta. rewrite sig_l_eqb. now destruct (N.testbit v 0).
Qed.

Lemma pow8_le_bits k : 2 ^ 8 <= 2 ^ bits k.
Proof. apply N.pow_le_mono_r; [lia|apply bits_ge8]. Qed.

Lemma l_init_entry_eq k rp c : rp < 2 ^ bits k -> c < 2 ^ 8 ->
  l_init_entry k rp c = iter 8 (step_l rp) c.
Proof.
  intros Hrp Hc. unfold l_init_entry. rewrite (iter_ext 8 _ _ (l_init_step_eq rp)).
  apply trunc_small. apply iter_step_l_lt; [assumption|].
  eapply N.lt_le_trans; [exact Hc|apply pow8_le_bits].
Qed.

Lemma crc_bits_l_cons k p b data v :
  crc_bits_l k p (b :: data) v =
  crc_bits_l k p data (fold_left (feed_l (bitrev (nbits k) p)) (byte_bits_lsb b) v).
Proof. unfold crc_bits_l. cbn [flat_map]. now rewrite fold_left_app. Qed.

Lemma rpoly_lt k p : bitrev (nbits k) p < 2 ^ bits k.
Proof. rewrite <- nbits_bits. apply bitrev_lt. Qed.

Lemma tab_l_entry k p c : p < 2 ^ bits k -> c < 2 ^ 8 ->
  tab_get (a_crc_l_init k p) c = Some (iter 8 (step_l (bitrev (nbits k) p)) c).
Proof.
  intros Hp Hc. unfold a_crc_l_init. cbv zeta. rewrite tab_get_map by exact Hc. f_equal.
  rewrite a_rev_spec by assumption. apply l_init_entry_eq; [apply rpoly_lt|assumption].
Qed.

Lemma crcl_byte_correct k p v b : p < 2 ^ bits k -> v < 2 ^ bits k -> b < 2 ^ 8 ->
  crcl_byte (bits k) (a_crc_l_init k p) v b = Some (byte_l (bitrev (nbits k) p) v b).
Proof.
  intros Hp Hv Hb. pose proof (bits_ge8 k). unfold crcl_byte.
  rewrite tab_l_entry by (assumption || apply land255_lt).
  rewrite (byte_l_table (bits k)) by (assumption || apply rpoly_lt). reflexivity.
Qed.

Lemma upd_l_correct k p v b : p < 2 ^ bits k -> v < 2 ^ bits k -> b < 2 ^ 8 ->
  upd_l k (a_crc_l_init k p) v b = Some (byte_l (bitrev (nbits k) p) v b).
Proof.
  intros Hp Hv Hb. destruct k; try (apply crcl_byte_correct; assumption).
  cbn [upd_l]. unfold crc8_byte. cbn [bits] in *.
  rewrite tab_l_entry by (try apply lxor_lt; assumption). reflexivity.
Qed.

Theorem crc_l_table_eq_bits_aux k p data : p < 2 ^ bits k -> Forall (fun b => b < 2 ^ 8) data ->
  forall v, v < 2 ^ bits k ->
  a_crc_l k (a_crc_l_init k p) data v = Some (crc_bits_l k p data v).
Proof.
  intros Hp Hd. pose proof (bits_ge8 k) as H8. induction Hd as [|b data Hb Hd IH]; intros v Hv.
  - reflexivity.
  - unfold a_crc_l in *. cbn [crc_loop]. rewrite upd_l_correct by assumption.
    rewrite IH by (apply (byte_l_lt (bits k)); assumption || apply rpoly_lt).
    rewrite crc_bits_l_cons, <- (byte_l_feed (bits k)) by (assumption || apply rpoly_lt). reflexivity.
Qed.

(* ======================================================================================== *)
(* reflection: the bit mirror conjugates the MSB-first register into the LSB-first one       *)

Section Reflect.
Variable n : nat.
Variable p : N.
Hypothesis Hn : 1 <= N.of_nat n.
Let w := N.of_nat n.

Lemma R_shift x : bitrev n (trunc w (N.shiftl x 1)) = N.shiftr (bitrev n x) 1.
Proof.
  apply N.bits_inj; intro i. rewrite tb_shiftr, !tb_bitrev, tb_trunc, tb_shiftl. fold w.
  destruct (N.ltb_spec i w) as [Hi|Hi]; cbn [andb].
  - destruct (N.ltb_spec (w - 1 - i) w); [|lia]. cbn [andb].
    destruct (N.ltb_spec (i + 1) w) as [Hj|Hj].
    + destruct (N.leb_spec 1 (w - 1 - i)); [|lia]. cbn [andb]. f_equal. lia.
    + destruct (N.leb_spec 1 (w - 1 - i)); [lia|]. reflexivity.
  - destruct (N.ltb_spec (i + 1) w); [lia|reflexivity].
Qed.

Lemma R_top x : N.testbit (bitrev n x) 0 = N.testbit x (w - 1).
Proof.
  rewrite tb_bitrev. fold w. destruct (N.ltb_spec 0 w); [|lia]. cbn [andb]. f_equal. lia.
Qed.

Lemma reflect_step x : bitrev n (step_m w p x) = step_l (bitrev n p) (bitrev n x).
Proof.
  unfold step_m, step_l. cbv zeta. rewrite R_top.
  destruct (N.testbit x (w - 1)).
  - now rewrite bitrev_xlinear, R_shift.
  - apply R_shift.
Qed.

Lemma R_topbit : bitrev n (N.shiftl 1 (w - 1)) = 1.
Proof.
  apply N.bits_inj; intro i. rewrite tb_bitrev, tb_shiftl, !tb_one. fold w.
  destruct (N.ltb_spec i w); destruct (N.leb_spec (w - 1) (w - 1 - i));
    destruct (N.eqb_spec (w - 1 - i - (w - 1)) 0); destruct (N.eqb_spec i 0); cbn [andb];
    try reflexivity; lia.
Qed.

Lemma R_zero : bitrev n 0 = 0.
Proof. apply N.bits_inj; intro i. rewrite tb_bitrev, !N.bits_0. apply andb_false_r. Qed.

Lemma reflect_feed v b : bitrev n (feed_m w p v b) = feed_l (bitrev n p) (bitrev n v) b.
Proof.
  unfold feed_m, feed_l. rewrite reflect_step, bitrev_xlinear. f_equal. f_equal.
  destruct b; [apply R_topbit|apply R_zero].
Qed.

Lemma reflect_fold bs : forall v,
  bitrev n (fold_left (feed_m w p) bs v) = fold_left (feed_l (bitrev n p)) bs (bitrev n v).
Proof.
  induction bs as [|b bs IH]; intro v; [reflexivity|]. cbn [fold_left]. now rewrite IH, reflect_feed.
Qed.

End Reflect.

Lemma byte_bits_reflect b : byte_bits_lsb b = byte_bits_msb (bitrev 8 b).
Proof.
  unfold byte_bits_lsb, byte_bits_msb. cbn [map]. rewrite !tb_bitrev. reflexivity.
Qed.

Lemma flat_map_reflect data :
  flat_map byte_bits_lsb data = flat_map byte_bits_msb (map (bitrev 8) data).
Proof.
  induction data as [|b data IH]; [reflexivity|]. cbn [flat_map map]. now rewrite IH, byte_bits_reflect.
Qed.

Theorem crc_bits_reflect k p data v :
  crc_bits_l k p data (bitrev (nbits k) v) =
  bitrev (nbits k) (crc_bits_m (bits k) p (map (bitrev 8) data) v).
Proof.
  unfold crc_bits_l, crc_bits_m. rewrite flat_map_reflect, <- nbits_bits.
  symmetry. apply reflect_fold. rewrite nbits_bits. pose proof (bits_ge8 k). lia.
Qed.

Lemma bitrev8_lt b : bitrev 8 b < 2 ^ 8.
Proof. apply (bitrev_lt 8). Qed.

Lemma Forall_bitrev8 data : Forall (fun b => b < 2 ^ 8) (map (bitrev 8) data).
Proof. apply Forall_forall. intros x Hx. apply in_map_iff in Hx as [y [<- _]]. apply bitrev8_lt. Qed.

Theorem crc_reflect_aux k p data v : p < 2 ^ bits k -> v < 2 ^ bits k ->
  Forall (fun b => b < 2 ^ 8) data ->
  a_crc_l k (a_crc_l_init k p) data v =
  option_map (bitrev (nbits k))
    (a_crc_m k (a_crc_m_init k p) (map (bitrev 8) data) (bitrev (nbits k) v)).
Proof.
  intros Hp Hv Hd.
  rewrite crc_l_table_eq_bits_aux by assumption.
  rewrite crc_m_table_eq_bits_aux by (try apply Forall_bitrev8; try apply rpoly_lt; assumption).
  cbn [option_map]. f_equal.
  rewrite <- crc_bits_reflect. f_equal. symmetry. apply bitrev_involutive. now rewrite nbits_bits.
Qed.

(* the same with the library's own reversal routines in place of the reference mirror *)
Theorem crc_reflect_c_aux k p data v : p < 2 ^ bits k -> v < 2 ^ bits k ->
  Forall (fun b => b < 2 ^ 8) data ->
  a_crc_l k (a_crc_l_init k p) data v =
  option_map (a_rev k)
    (a_crc_m k (a_crc_m_init k p) (map a_u8_rev data) (a_rev k v)).
Proof.
  intros Hp Hv Hd. rewrite crc_reflect_aux by assumption.
  rewrite (a_rev_spec k v) by assumption.
  replace (map a_u8_rev data) with (map (bitrev 8) data).
  - rewrite crc_m_table_eq_bits_aux by (try apply Forall_bitrev8; try apply rpoly_lt; assumption).
    cbn [option_map]. f_equal. symmetry. apply a_rev_spec.
    apply crc_bits_m_lt; [assumption|apply rpoly_lt].
  - apply map_ext_in. intros b Hb. symmetry. apply a_u8_rev_spec.
    rewrite Forall_forall in Hd. now apply Hd.
Qed.
