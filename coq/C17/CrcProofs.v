(* C17 -- proofs about the CRC model (coq/C17/CrcDefs.v):
   table-driven update = bit-serial division (both bit orders, all four widths, all
   polynomials / initial values / messages), reflection, concatenation. *)
From Coq Require Import NArith List Lia Bool ZifyBool ZifyN.
From LibaV Require Import C17.CrcDefs C17.BitsProofs C17.RevProofs.
Import ListNotations.
Local Open Scope N_scope.

(* ---------------------------------------------------------------------------------------- *)
(* concatenation: for ANY table and any update function, feeding a ++ b is feeding a and then *)
(* b with the value carried over.                                                            *)
Lemma crc_loop_app upd a b v :
  crc_loop upd (a ++ b) v = obind (crc_loop upd a v) (crc_loop upd b).
Proof.
  revert v; induction a as [|x a IH]; intro v; cbn [app crc_loop obind]; [reflexivity|].
  destruct (upd v x); [apply IH|reflexivity].
Qed.

(* ---------------------------------------------------------------------------------------- *)
(* small facts                                                                               *)

Lemma bits_ge8 k : 8 <= bits k. Proof. destruct k; cbn; lia. Qed.
Lemma bits_le_work k : bits k <= work_bits k. Proof. destruct k; cbn; lia. Qed.

Lemma iter_S {A} n (f : A -> A) x : iter (S n) f x = iter n f (f x).
Proof. reflexivity. Qed.

Lemma iter_lxor n f : (forall x y, f (N.lxor x y) = N.lxor (f x) (f y)) ->
  forall x y, iter n f (N.lxor x y) = N.lxor (iter n f x) (iter n f y).
Proof.
  intros Hf. induction n as [|n IH]; intros x y; [reflexivity|].
  now rewrite !iter_S, Hf, IH.
Qed.

Lemma iter_ext {A} n (f g : A -> A) : (forall x, f x = g x) -> forall x, iter n f x = iter n g x.
Proof.
  intros H. induction n as [|n IH]; intro x; [reflexivity|]. now rewrite !iter_S, H, IH.
Qed.

Lemma iter_inv {A} (P : A -> Prop) n (f : A -> A) : (forall x, P x -> P (f x)) ->
  forall x, P x -> P (iter n f x).
Proof.
  intros H. induction n as [|n IH]; intros x Hx; [assumption|]. rewrite iter_S. auto.
Qed.

Ltac xor_solve :=
  apply N.bits_inj; let i := fresh "i" in intro i; rewrite ?N.lxor_spec, ?N.bits_0;
  repeat match goal with |- context [N.testbit ?a ?j] => destruct (N.testbit a j) end; reflexivity.

Lemma land_pow2_testbit n v : N.land (N.shiftl 1 n) v = if N.testbit v n then 2 ^ n else 0.
Proof.
  rewrite N.shiftl_1_l. apply N.bits_inj; intro i. rewrite N.land_spec, tb_pow2.
  destruct (N.eqb_spec n i) as [->|Hne]; cbn [andb].
  - destruct (N.testbit v i); [now rewrite tb_pow2, N.eqb_refl | now rewrite N.bits_0].
  - destruct (N.testbit v n); [|now rewrite N.bits_0].
    rewrite tb_pow2. symmetry. now apply N.eqb_neq.
Qed.

Lemma sig_m_eqb n v : N.eqb (N.land (N.shiftl 1 n) v) 0 = negb (N.testbit v n).
Proof.
  rewrite land_pow2_testbit. destruct (N.testbit v n); [|reflexivity].
  cbn [negb]. apply N.eqb_neq, N.pow_nonzero. lia.
Qed.

Lemma sig_l_eqb v : N.eqb (N.land v 1) 0 = negb (N.testbit v 0).
Proof.
  rewrite N.land_comm. change 1 with (N.shiftl 1 0) at 1. apply sig_m_eqb.
Qed.

Lemma tab_get_map f c : c < 256 -> tab_get (map f indices256) c = Some (f c).
Proof.
  intros Hc. unfold tab_get, indices256. rewrite map_map.
  assert (Hl : (N.to_nat c < length (seq 0 256))%nat) by (rewrite seq_length; lia).
  rewrite (nth_error_nth' _ (f (N.of_nat 0))) by (now rewrite map_length).
  rewrite (map_nth (fun x => f (N.of_nat x))). rewrite seq_nth by lia.
  cbn [Nat.add]. now rewrite N2Nat.id.
Qed.

(* ======================================================================================== *)
(* MSB first                                                                                *)

Section MSB.
Variable w : N.
Variable p : N.
Hypothesis Hw8 : 8 <= w.
Hypothesis Hp : p < 2 ^ w.

Lemma trunc_shiftl1_lxor x y :
  trunc w (N.shiftl (N.lxor x y) 1) = N.lxor (trunc w (N.shiftl x 1)) (trunc w (N.shiftl y 1)).
Proof.
  apply N.bits_inj; intro i. rewrite N.lxor_spec, !tb_trunc, !tb_shiftl, N.lxor_spec.
  destruct (i <? w); destruct (1 <=? i); cbn [andb]; reflexivity.
Qed.

Lemma step_m_lxor x y : step_m w p (N.lxor x y) = N.lxor (step_m w p x) (step_m w p y).
Proof.
  unfold step_m. cbv zeta. rewrite N.lxor_spec, trunc_shiftl1_lxor.
  destruct (N.testbit x (w - 1)); destruct (N.testbit y (w - 1)); cbn [xorb]; xor_solve.
Qed.

Lemma step_m_lt x : step_m w p x < 2 ^ w.
Proof.
  unfold step_m. cbv zeta. destruct (N.testbit x (w - 1)).
  - apply lxor_lt; [apply trunc_lt|exact Hp].
  - apply trunc_lt.
Qed.

Lemma step_m_small x : x < 2 ^ (w - 1) -> step_m w p x = N.shiftl x 1.
Proof.
  intros Hx. unfold step_m. cbv zeta. rewrite (tb_high x (w - 1)) by (assumption || lia).
  apply trunc_small. apply (shiftl_lt w x 1 (w - 1)); [assumption|lia].
Qed.

Lemma iter_step_m_small n : forall x, N.of_nat n <= w -> x < 2 ^ (w - N.of_nat n) ->
  iter n (step_m w p) x = N.shiftl x (N.of_nat n).
Proof.
  induction n as [|n IH]; intros x Hn Hx.
  - cbn [iter]. now rewrite N.shiftl_0_r.
  - rewrite iter_S. rewrite Nat2N.inj_succ in *.
    assert (Hx1 : x < 2 ^ (w - 1)).
    { eapply N.lt_le_trans; [exact Hx|]. apply N.pow_le_mono_r; lia. }
    rewrite step_m_small by assumption.
    rewrite IH.
    + rewrite N.shiftl_shiftl. f_equal. lia.
    + lia.
    + apply (shiftl_lt _ x 1 (w - N.succ (N.of_nat n))); [assumption|lia].
Qed.

(* the bytewise form of the reference: xor the byte into the top, clock eight times *)
Definition byte_m (v b : N) : N := iter 8 (step_m w p) (N.lxor v (N.shiftl b (w - 8))).

Lemma byte_m_lt v b : byte_m v b < 2 ^ w.
Proof.
  unfold byte_m. rewrite iter_S. apply (iter_inv (fun x => x < 2 ^ w)).
  - intros x _. apply step_m_lt.
  - apply step_m_lt.
Qed.

Lemma byte_split_m v b : v < 2 ^ w -> b < 2 ^ 8 ->
  N.lxor v (N.shiftl b (w - 8)) =
  N.lxor (N.shiftl (N.land (N.lxor (N.shiftr v (w - 8)) b) (N.ones 8)) (w - 8)) (trunc (w - 8) v).
Proof.
  intros Hv Hb. apply N.bits_inj; intro i.
  rewrite !N.lxor_spec, !tb_shiftl, tb_trunc, N.land_spec, N.lxor_spec, tb_shiftr, tb_ones.
  destruct (N.leb_spec (w - 8) i) as [Hi|Hi].
  - destruct (N.ltb_spec i (w - 8)) as [Hi'|_]; [lia|]. cbn [andb].
    rewrite xorb_false_r. destruct (N.ltb_spec (i - (w - 8)) 8).
    + rewrite andb_true_r. f_equal. f_equal. lia.
    + rewrite andb_false_r. rewrite (tb_high v w i) by (assumption || lia).
      rewrite (tb_high b 8) by (assumption || lia). reflexivity.
  - destruct (N.ltb_spec i (w - 8)) as [_|Hi']; [|lia]. cbn [andb].
    now rewrite xorb_false_r, xorb_false_l.
Qed.

Lemma trunc_shiftl8 v : trunc w (N.shiftl v 8) = N.shiftl (trunc (w - 8) v) 8.
Proof.
  apply N.bits_inj; intro i. rewrite tb_trunc, !tb_shiftl, tb_trunc.
  destruct (N.ltb_spec i w); destruct (N.leb_spec 8 i); destruct (N.ltb_spec (i - 8) (w - 8));
    cbn [andb]; try lia; reflexivity.
Qed.

(* table lookup + shift = eight clocks: the heart of the table method *)
Lemma byte_m_table v b : v < 2 ^ w -> b < 2 ^ 8 ->
  byte_m v b =
  trunc w (N.lxor (N.shiftl v 8)
            (iter 8 (step_m w p) (N.shiftl (N.land (N.lxor (N.shiftr v (w - 8)) b) (N.ones 8)) (w - 8)))).
Proof.
  intros Hv Hb. unfold byte_m. rewrite byte_split_m by assumption.
  rewrite (iter_lxor 8 _ step_m_lxor).
  rewrite (iter_step_m_small 8 (trunc (w - 8) v)) by (try apply trunc_lt; cbn; lia).
  set (e := iter 8 _ _).
  assert (He : e < 2 ^ w).
  { unfold e. rewrite iter_S. apply (iter_inv (fun x => x < 2 ^ w)).
    - intros x _. apply step_m_lt.
    - apply step_m_lt. }
  change (N.of_nat 8) with 8. rewrite <- trunc_shiftl8.
  rewrite N.lxor_comm. symmetry.
  apply N.bits_inj; intro i. rewrite tb_trunc, !N.lxor_spec, tb_trunc.
  destruct (N.ltb_spec i w); cbn [andb]; [reflexivity|].
  now rewrite (tb_high e w i) by (assumption || lia).
Qed.

(* bytewise form = one message bit at a time *)
Fixpoint down (n : nat) : list N :=
  match n with O => [] | S n' => N.of_nat n' :: down n' end.

Lemma down_lt n j : In j (down n) -> j < N.of_nat n.
Proof.
  induction n as [|n IH]; cbn [down In]; [tauto|]. intros [<-|H]; [lia|]. specialize (IH H). lia.
Qed.

Lemma shiftl_split_top b n s : b < 2 ^ N.succ n ->
  N.shiftl b s = N.lxor (if N.testbit b n then N.shiftl 1 (n + s) else 0) (N.shiftl (trunc n b) s).
Proof.
  intros Hb. rewrite (split_top_bit b n Hb) at 1. rewrite N.shiftl_lxor, N.lxor_comm. f_equal.
  destruct (N.testbit b n); [|apply N.shiftl_0_l].
  rewrite <- N.shiftl_1_l, N.shiftl_shiftl. reflexivity.
Qed.

Lemma feed_chain_m n : forall s v b, N.of_nat n + s = w -> b < 2 ^ N.of_nat n ->
  iter n (step_m w p) (N.lxor v (N.shiftl b s)) =
  fold_left (feed_m w p) (map (N.testbit b) (down n)) v.
Proof.
  induction n as [|n IH]; intros s v b Hs Hb.
  - cbn [iter down map fold_left]. change (2 ^ N.of_nat 0) with 1 in Hb.
    assert (b = 0) by lia. subst. now rewrite N.shiftl_0_l, N.lxor_0_r.
  - rewrite iter_S. cbn [down map fold_left]. rewrite Nat2N.inj_succ in *.
    rewrite (shiftl_split_top b (N.of_nat n) s Hb), N.lxor_assoc, step_m_lxor.
    replace (N.of_nat n + s) with (w - 1) by lia.
    change (step_m w p (N.lxor v (if N.testbit b (N.of_nat n) then N.shiftl 1 (w - 1) else 0)))
      with (feed_m w p v (N.testbit b (N.of_nat n))).
    rewrite step_m_small.
    + rewrite N.shiftl_shiftl. rewrite IH by (try apply trunc_lt; lia).
      f_equal. apply map_ext_in. intros j Hj. apply down_lt in Hj.
      rewrite tb_trunc. destruct (N.ltb_spec j (N.of_nat n)); [reflexivity|lia].
    + apply (shiftl_lt _ _ s (N.of_nat n)); [apply trunc_lt|lia].
Qed.

Lemma byte_m_feed v b : b < 2 ^ 8 ->
  byte_m v b = fold_left (feed_m w p) (byte_bits_msb b) v.
Proof.
  intros Hb. unfold byte_m. rewrite (feed_chain_m 8) by (assumption || (cbn; lia)). reflexivity.
Qed.

Lemma crc_bits_m_cons b data v :
  crc_bits_m w p (b :: data) v = crc_bits_m w p data (fold_left (feed_m w p) (byte_bits_msb b) v).
Proof. unfold crc_bits_m. cbn [flat_map]. now rewrite fold_left_app. Qed.

Lemma crc_bits_m_lt data : forall v, v < 2 ^ w -> crc_bits_m w p data v < 2 ^ w.
Proof.
  induction data as [|b data IH]; intros v Hv; [exact Hv|].
  rewrite crc_bits_m_cons. apply IH.
  unfold byte_bits_msb. cbn [map fold_left]. unfold feed_m. apply step_m_lt.
Qed.

End MSB.
