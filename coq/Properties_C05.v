(* C05 -- Linked lists and the queue keep sequence and ring integrity under any history.

   Models (tied to the C by checks/C05.py): C05/DListDefs.v (include/a/list.h), C05/SListDefs.v
   (include/a/slist.h), C05/QueDefs.v (src/que.c, include/a/que.h): pointer level, every field
   access checked, allocation explicit.
   Vocabulary: C05/DListSpec.v ([dl_step]/[dl_run] abstract list machine over rings and detached
   chains, [DInv]), C05/SListSpec.v ([sl_step]/[sl_run], [SInv]), C05/QueSpec.v ([dq_step] abstract
   double-ended sequences of (address, value) elements, [QInv]); [Ring]/[Piece]/[Slist] in
   C05/DListProofs.v, C05/SListProofs.v.  Examples showing that the hypotheses can be met:
   dl_run_example, dl_world4_inv (DListRunProofs.v), sl_run_example (SListRunProofs.v),
   ex_hist_pre, ex_hist_run (QueExamples.v), world3_inv (QueProofs.v). *)
From Coq Require Import NArith ZArith List Bool.
From LibaV Require Import C05.DListDefs C05.DListProofs C05.DListSpec C05.DListRunProofs C05.DListObsProofs.
From LibaV Require Import C05.SListDefs C05.SListProofs C05.SListSpec C05.SListRunProofs.
From LibaV Require Import C05.QueDefs C05.QueSpec C05.QueProofs C05.QueDropProofs C05.QueExamples.
From LibaV Require Import C05.AccDefs C05.AccProofs.
Import ListNotations.
Local Open Scope N_scope.

(* ================================================================ include/a/list.h *)

(* Clause "after any sequence of intrusive-list operations (adding, deleting, moving, rotating,
   replacing and swapping nodes or sections that are disjoint and not adjacent) forward and backward
   links stay mutually consistent and the nodes reachable from a head are exactly those of an abstract
   sequence": every history [os] the abstract machine accepts from [a] (the preconditions are the
   side conditions of dl_step) is executed by the code without a fault, and the heap then represents
   the abstract result [a'] - from ANY heap representing [a], for histories of any length. *)
Theorem list_history :
  forall (os : list lop) (a a' : dabs), dl_run os a a' ->
  forall h : dheap, DInv h a -> exists h', l_run h os = Some h' /\ DInv h' a'.
Proof. exact dl_run_refines. Qed.
Print Assumptions list_history.

(* one operation, from any heap satisfying the invariant (not only reachable ones) *)
Theorem list_step :
  forall (o : lop) (a a' : dabs), dl_step o a a' ->
  forall h : dheap, DInv h a -> exists h', l_step h o = Some h' /\ DInv h' a'.
Proof. exact dl_step_refines. Qed.
Print Assumptions list_step.

(* what DInv means for an observer: from any node c of a ring written c :: xs, following next
   visits exactly xs and returns to c, following prev visits xs backwards, no node twice, and
   x->next = y implies y->prev = x all around the ring *)
Theorem list_observed :
  forall (h : dheap) (a : dabs) (c : id) (xs : list id) (fuel : nat),
  DInv h a -> In (c :: xs) (fst a) -> (length xs < fuel)%nat ->
  ring_of h c fuel = Some xs /\ ring_of_back h c fuel = Some (rev xs) /\ NoDup (c :: xs) /\
  (forall x, In x (c :: xs) -> exists y, In y (c :: xs) /\ rd_next h x = Some y /\ rd_prev h y = Some x).
Proof. exact DInv_observed. Qed.
Print Assumptions list_observed.

(* the starting point of the histories: n constructed nodes *)
Theorem list_initial : forall n : nat, DInv (l_world n) (d_abs0 n).
Proof. exact l_world_inv. Qed.
Print Assumptions list_initial.

(* the central case spelled out: exchanging two disjoint, non-adjacent sections s1 and s2 of one ring *)
Theorem list_swap_sections :
  forall (h : dheap) (s1 a s2 b : list id),
  Ring h (s1 ++ a ++ s2 ++ b) -> s1 <> [] -> a <> [] -> s2 <> [] -> b <> [] ->
  exists h', l_swap_ h (hd0 s1) (last s1 0) (hd0 s2) (last s2 0) = Some h' /\
    Ring h' (s2 ++ a ++ s1 ++ b) /\
    Frame h h' (s1 ++ a ++ s2 ++ b) /\ (forall x, live h' x <-> live h x).
Proof. exact swap__same_ring. Qed.
Print Assumptions list_swap_sections.

(* ================================================================ include/a/slist.h *)

(* Clause "the singly linked list's tail always designates its last node", over any history of
   a_slist_ctor/add/add_head/add_tail/del/del_head/mov/rot on any number of list objects. *)
Theorem slist_history :
  forall (os : list sop) (a a' : sabs), sl_run os a a' ->
  forall w : sworld, SInv w a -> exists w', s_run w os = Some w' /\ SInv w' a'.
Proof. exact sl_run_refines. Qed.
Print Assumptions slist_history.

Theorem slist_step :
  forall (o : sop) (a a' : sabs), sl_step o a a' ->
  forall w : sworld, SInv w a -> exists w', s_step w o = Some w' /\ SInv w' a'.
Proof. exact sl_step_refines. Qed.
Print Assumptions slist_step.

(* what SInv means for an observer: the walk from the head yields exactly the abstract sequence,
   tail = its last node (the head itself when empty), whose next is NULL *)
Theorem slist_tail_is_last :
  forall (w : sworld) (a : sabs) (L : id) (xs : list id) (fuel : nat),
  SInv w a -> In (L, xs) (sa_lists a) -> (length xs < fuel)%nat ->
  s_list_of w L fuel = Some xs /\ t_rd w L = Some (last xs L) /\ s_rd w (last xs L) = Some 0 /\ NoDup (L :: xs).
Proof. exact SInv_observed. Qed.
Print Assumptions slist_tail_is_last.

Theorem slist_initial : forall n : nat, SInv (s_world n) (s_abs0 n).
Proof. exact s_world_inv. Qed.
Print Assumptions slist_initial.

(* a_slist_rot as found in the pinned tree (guard `if (node)`), kept as s_rot_orig: refuted.
   /repo now has the guard `node && node->next` (fix commit 75a0696) and s_rot models that. *)
Theorem slist_rot_as_found_refuted :
  exists w L a, Slist w L [a] /\
    exists w', s_rot_orig w L = Some w' /\ s_rd w' L = Some 0 /\ t_rd w' L = Some a /\
               forall xs, ~ Slist w' L xs.
Proof. exact rot_orig_refuted. Qed.
Print Assumptions slist_rot_as_found_refuted.

(* ================================================================ src/que.c, include/a/que.h *)

(* Clause "the queue behaves as a double-ended sequence: push, pull, positional insert/remove,
   indexed access from either end, sorted insertion, element swap, whole-queue swap, drop and
   element-size change all leave exactly the abstract sequence's contents", for two queue objects,
   every history (every index in N / Z), every allocator fault schedule.  An element is the pair
   (address, value): dq_step keeps every pair of every element that stays enqueued, so "element
   addresses stay fixed while enqueued"; a new element's address n satisfies ~ In n (addrs A), so
   "a recycled node is never handed out while still enqueued". *)
Theorem que_history :
  forall (os : list qop) (w : qworld) (X : list id * list id),
  QInv w X -> hist_pre w os ->
  exists w' rs X', q_run w os = Ok (w', rs) /\ QInv w' X' /\ dq_run os (abs w X) rs (abs w' X').
Proof. exact run_refines. Qed.
Print Assumptions que_history.

(* one operation from any state satisfying the invariant; an operation reports failure only when
   an allocation request was refused during it *)
Theorem que_step :
  forall (w0 : qworld) (X : list id * list id) (o : qop),
  QInv w0 X -> dq_pre o (abs w0 X) ->
  exists w' r X', q_step w0 o = Ok (w', r) /\ QInv w' X' /\
    dq_step o (abs w0 X) r (failed w') (abs w' X') /\
    (not_sched o -> no_fault w0 -> no_fault w' /\ failed w' = false).
Proof. exact step_refines. Qed.
Print Assumptions que_step.

(* with an allocator that never refuses, no operation of any history fails *)
Theorem que_no_fault :
  forall (os : list qop) (w : qworld) (X : list id * list id),
  QInv w X -> hist_pre w os -> no_fault w -> Forall not_sched os ->
  exists w' rs X', q_run w os = Ok (w', rs) /\ QInv w' X' /\ no_fault w' /\
    (os <> [] -> failed w' = false).
Proof. exact run_no_fault. Qed.
Print Assumptions que_no_fault.

(* what QInv means for an observer: ring walked forwards / backwards = the abstract sequence /
   its reverse, num_ = its length, no node twice among enqueued and pooled nodes, a pooled
   (recycled) node is not enqueued *)
Theorem que_invariant_facts :
  forall (w : qworld) (X : list id * list id), QInv w X ->
  (forall s, ring_of (w_h w) (qaddr s) (fuel_of w) = Some (sel s X)) /\
  (forall s, ring_of_back (w_h w) (qaddr s) (fuel_of w) = Some (rev (sel s X))) /\
  (forall s, q_num (getq w s) = N.of_nat (length (sel s X))) /\
  NoDup (fst X ++ snd X ++ pools w) /\
  (forall s x, In x (q_pool (getq w s)) -> ~ In x (fst X ++ snd X)).
Proof. exact inv_facts. Qed.
Print Assumptions que_invariant_facts.

(* a_que_drop / a_que_setz (as they are in /repo now: reservation before the first node is moved;
   recycled nodes released instead of resized) are all-or-nothing under every fault schedule: either
   the queue is emptied (and setz installs the new element size), or A_OMEMORY is returned, a request
   was refused, and both abstract sequences are exactly as before.  (dq_step in que_step only
   promises that a suffix remains; this is the sharper statement for the current code.) *)
Theorem que_drop_all_or_nothing :
  forall (w : qworld) (X : list id * list id) (s : bool), QInv w X ->
  exists w' rc, q_drop w s = Ok (w', rc) /\ trace_ok w w' /\
    ((rc = 0%Z /\ QInv w' (upd s [] X) /\ abs w' (upd s [] X) = upd s [] (abs w X)) \/
     (rc = 4%Z /\ failed w' = true /\ QInv w' X /\ abs w' X = abs w X)).
Proof. exact drop_all_or_nothing. Qed.
Print Assumptions que_drop_all_or_nothing.

Theorem que_setz_all_or_nothing :
  forall (w : qworld) (X : list id * list id) (s : bool) (siz : N), QInv w X ->
  exists w' rc, q_setz w s siz = Ok (w', rc) /\ trace_ok w w' /\
    ((rc = 0%Z /\ QInv w' (upd s [] X) /\ abs w' (upd s [] X) = upd s [] (abs w X) /\
      q_siz (getq w' s) = (if N.eqb siz 0 then 1 else siz)) \/
     (rc = 4%Z /\ failed w' = true /\ QInv w' X /\ abs w' X = abs w X)).
Proof. exact setz_all_or_nothing. Qed.
Print Assumptions que_setz_all_or_nothing.

Theorem que_initial : QInv q_world0 ([], []).
Proof. exact world0_inv. Qed.
Print Assumptions que_initial.

(* a concrete history (pushes on both queues, element swap of neighbours, whole-queue swap, pull,
   push that recycles the pulled node, insert, at(-1)) meets the hypotheses and runs as stated *)
Theorem que_example_history :
  hist_pre q_world0 ex_hist /\
  exists w', q_run q_world0 ex_hist = Ok (w', [3; 4; 5; 0; 0; 4; 4; 6; 4]%Z) /\
             ring_of (w_h w') 1 (fuel_of w') = Some [5] /\
             ring_of (w_h w') 2 (fuel_of w') = Some [3; 6; 4].
Proof. exact (conj ex_hist_pre ex_hist_run). Qed.
Print Assumptions que_example_history.

(* a_que_swap_ and a_que_swap as found in the pinned tree (kept as q_swap_elem_orig / q_swap_orig):
   refuted.  /repo now has the repaired bodies (fix commits 0ee4e0e, d4160b5), modelled by
   q_swap_elem / q_swap. *)
Theorem que_swap_elem_as_found_refuted :
  exists w X l r, QInv w X /\ In l (fst X) /\ In r (fst X) /\
    exists w', q_swap_elem_orig w l r = Ok w' /\ ring_of (w_h w') 1 (fuel_of w') = None /\
               forall X', ~ QInv w' X'.
Proof. exact swap_elem_orig_refuted. Qed.
Print Assumptions que_swap_elem_as_found_refuted.

Theorem que_swap_as_found_refuted :
  exists w X, QInv w X /\
    exists w', q_swap_orig w false true = Ok w' /\ ring_of (w_h w') 1 (fuel_of w') = Some [2] /\
               forall X', ~ QInv w' X'.
Proof. exact swap_orig_refuted. Qed.
Print Assumptions que_swap_as_found_refuted.

(* ================================================================ accessors, alias entry points, iteration macros
   (C05/AccDefs.v; the correspondence drivers evaluate them after every operation of every history) *)

(* a_que_fore_ / a_que_back_ (no emptiness test) on a non-empty queue return the first / last element
   of the abstract sequence, agree with the checked a_que_fore / a_que_back, and that pair is what the
   drivers print as e=<fore_>/<back_> *)
Theorem que_end_accessors :
  forall (w : qworld) (X : list id * list id) (s : bool) (x : id) (t : list id),
  QInv w X -> sel s X = x :: t ->
  q_fore_ w s = Ok x /\ q_back_ w s = Ok (last t x) /\
  q_fore w s = Ok x /\ q_back w s = Ok (last t x) /\
  q_ends w s = Ok (Some x, Some (last t x)).
Proof. exact ends_nonempty. Qed.
Print Assumptions que_end_accessors.

Theorem que_end_accessors_empty :
  forall (w : qworld) (X : list id * list id) (s : bool),
  QInv w X -> sel s X = [] ->
  q_fore w s = Ok 0 /\ q_back w s = Ok 0 /\ q_ends w s = Ok (None, None).
Proof. exact ends_empty. Qed.
Print Assumptions que_end_accessors_empty.

(* a_que_foreach / A_QUE_FOREACH visit exactly the abstract sequence, a_que_foreach_reverse /
   A_QUE_FOREACH_REVERSE its reverse *)
Theorem que_iteration :
  forall (w : qworld) (X : list id * list id) (s : bool),
  QInv w X -> q_each w s = Some (sel s X) /\ q_each_rev w s = Some (rev (sel s X)).
Proof. exact que_each_spec. Qed.
Print Assumptions que_iteration.

(* hypotheses of the three theorems above met by a concrete state (three pushes on A), with the
   values the drivers print for it *)
Theorem que_accessors_example :
  q_ends world3 false = Ok (Some 3, Some 5) /\ q_ends world3 true = Ok (None, None) /\
  q_each world3 false = Some [3; 4; 5] /\ q_each_rev world3 false = Some [5; 4; 3].
Proof. exact ends_world3. Qed.
Print Assumptions que_accessors_example.

(* a_list_ctor / a_list_dtor (same body as a_list_init): the node becomes a ring of its own, nothing
   else changes *)
Theorem list_alias_entry_points :
  forall (h : dheap) (c : id), live h c ->
  (exists h', l_ctor h c = Some h' /\ Ring h' [c] /\ Frame h h' [c] /\ (forall x, live h' x <-> live h x)) /\
  (exists h', l_dtor h c = Some h' /\ Ring h' [c] /\ Frame h h' [c] /\ (forall x, live h' x <-> live h x)) /\
  l_ctor h c = l_init h c /\ l_dtor h c = l_init h c.
Proof. exact list_ctor_dtor_ring. Qed.
Print Assumptions list_alias_entry_points.

(* a_list_foreach_next / A_LIST_FOREACH_NEXT / a_list_forsafe_next / A_LIST_FORSAFE_NEXT from any
   node c of a ring c :: xs visit xs, the four _prev macros visit rev xs *)
Theorem list_iteration :
  forall (h : dheap) (a : dabs) (c : id) (xs : list id) (fuel : nat),
  DInv h a -> In (c :: xs) (fst a) -> (length xs < fuel)%nat ->
  l_each_next h c fuel = Some xs /\ l_each_prev h c fuel = Some (rev xs).
Proof. exact list_each_spec. Qed.
Print Assumptions list_iteration.

(* a_slist_init / a_slist_dtor (same body as a_slist_ctor): the list object becomes an empty list,
   no other field changes *)
Theorem slist_alias_entry_points :
  forall (w : sworld) (L : id), s_rd w L <> None -> t_rd w L <> None ->
  (exists w', s_init w L = Some w' /\ Slist w' L [] /\
     (forall x, x <> L -> s_rd w' x = s_rd w x) /\ (forall l, l <> L -> t_rd w' l = t_rd w l)) /\
  (exists w', s_dtor w L = Some w' /\ Slist w' L [] /\
     (forall x, x <> L -> s_rd w' x = s_rd w x) /\ (forall l, l <> L -> t_rd w' l = t_rd w l)) /\
  s_init w L = s_ctor w L /\ s_dtor w L = s_ctor w L.
Proof. exact slist_init_dtor_spec. Qed.
Print Assumptions slist_alias_entry_points.

(* a_slist_link writes head->next and nothing else *)
Theorem slist_link_writes_one_field :
  forall (w : sworld) (a b : id), s_rd w a <> None ->
  exists w', s_link w a b = Some w' /\ s_rd w' a = Some b /\
    (forall x, x <> a -> s_rd w' x = s_rd w x) /\ (forall l, t_rd w' l = t_rd w l).
Proof. exact slist_link_spec. Qed.
Print Assumptions slist_link_writes_one_field.

(* a_slist_foreach / A_SLIST_FOREACH / a_slist_forsafe / A_SLIST_FORSAFE visit the abstract sequence *)
Theorem slist_iteration :
  forall (w : sworld) (a : sabs) (L : id) (xs : list id) (fuel : nat),
  SInv w a -> In (L, xs) (sa_lists a) -> (length xs < fuel)%nat -> s_each w L fuel = Some xs.
Proof. exact slist_each_spec. Qed.
Print Assumptions slist_iteration.
