From Coq Require Import NArith List.
From LibaV Require Import C05.DListDefs C05.DListProofs.
Theorem c05_placeholder : rd_next (l_world 1) 1%N = Some 1%N.
Proof. exact l_world_1. Qed.
Print Assumptions c05_placeholder.
