(* C15 - Polynomial trajectories meet all boundary conditions with consistent derivatives.
   Model: C15/PolyDefs.v (src/trajpoly{3,5,7}.c, src/poly.c); proofs: C15/PolyProofs.v.  Theorems are over Coq's reals
   (instance R_ops): exact arithmetic.  The rounding error of the binary64/binary32 evaluation at the end time is NOT
   proved; it is measured by the check against exact rational arithmetic (see DESIGN.md, C15: partial). *)
From Coq Require Import Reals List.
From Coquelicot Require Import Coquelicot.
From LibaV Require Import Common.NumOps Common.ROps C15.PolyDefs C15.PolyProofs.
Import ListNotations.
Local Open Scope R_scope.

(* every requested boundary value is reproduced exactly, at time 0 and at the end time, for every duration ts <> 0 *)
Theorem C15_trajpoly3_boundary : forall ts p0 p1 v0 v1, ts <> 0 ->
  let c := trajpoly3_gen R_ops ts p0 p1 v0 v1 in
  traj_pos R_ops c 0 = Some p0 /\ traj_vel R_ops c 0 = Some v0 /\
  traj_pos R_ops c ts = Some p1 /\ traj_vel R_ops c ts = Some v1.
Proof. exact trajpoly3_boundary. Qed.
Print Assumptions C15_trajpoly3_boundary.

Theorem C15_trajpoly5_boundary : forall ts p0 p1 v0 v1 a0 a1, ts <> 0 ->
  let c := trajpoly5_gen R_ops ts p0 p1 v0 v1 a0 a1 in
  traj_pos R_ops c 0 = Some p0 /\ traj_vel R_ops c 0 = Some v0 /\ traj_acc R_ops c 0 = Some a0 /\
  traj_pos R_ops c ts = Some p1 /\ traj_vel R_ops c ts = Some v1 /\ traj_acc R_ops c ts = Some a1.
Proof. exact trajpoly5_boundary. Qed.
Print Assumptions C15_trajpoly5_boundary.

Theorem C15_trajpoly7_boundary : forall ts p0 p1 v0 v1 a0 a1 j0 j1, ts <> 0 ->
  let c := trajpoly7_gen R_ops ts p0 p1 v0 v1 a0 a1 j0 j1 in
  traj_pos R_ops c 0 = Some p0 /\ traj_vel R_ops c 0 = Some v0 /\ traj_acc R_ops c 0 = Some a0 /\ traj_jer R_ops c 0 = Some j0 /\
  traj_pos R_ops c ts = Some p1 /\ traj_vel R_ops c ts = Some v1 /\ traj_acc R_ops c ts = Some a1 /\ traj_jer R_ops c ts = Some j1.
Proof. exact trajpoly7_boundary. Qed.
Print Assumptions C15_trajpoly7_boundary.

(* velocity / acceleration / jerk outputs (built from the c1/c2/c3 coefficient accessors) are the successive
   derivatives of the position polynomial, for EVERY coefficient vector and query time *)
Theorem C15_trajpoly3_derivatives : forall c0 c1 c2 c3 (x : R),
  let c := [c0; c1; c2; c3] in
  is_derive (fun t : R => the (traj_pos R_ops c t)) x (the (traj_vel R_ops c x)) /\
  is_derive (fun t : R => the (traj_vel R_ops c t)) x (the (traj_acc R_ops c x)).
Proof. exact trajpoly3_derivatives. Qed.
Print Assumptions C15_trajpoly3_derivatives.

Theorem C15_trajpoly5_derivatives : forall c0 c1 c2 c3 c4 c5 (x : R),
  let c := [c0; c1; c2; c3; c4; c5] in
  is_derive (fun t : R => the (traj_pos R_ops c t)) x (the (traj_vel R_ops c x)) /\
  is_derive (fun t : R => the (traj_vel R_ops c t)) x (the (traj_acc R_ops c x)).
Proof. exact trajpoly5_derivatives. Qed.
Print Assumptions C15_trajpoly5_derivatives.

Theorem C15_trajpoly7_derivatives : forall c0 c1 c2 c3 c4 c5 c6 c7 (x : R),
  let c := [c0; c1; c2; c3; c4; c5; c6; c7] in
  is_derive (fun t : R => the (traj_pos R_ops c t)) x (the (traj_vel R_ops c x)) /\
  is_derive (fun t : R => the (traj_vel R_ops c t)) x (the (traj_acc R_ops c x)) /\
  is_derive (fun t : R => the (traj_acc R_ops c t)) x (the (traj_jer R_ops c x)).
Proof. exact trajpoly7_derivatives. Qed.
Print Assumptions C15_trajpoly7_derivatives.

(* polynomial evaluation: for every degree and coefficient vector, a_poly_eval_ is the Horner value of
   c0 + c1 x + ... (pval, also given as an explicit sum), a_poly_evar_ is the same on the reversed vector,
   a_poly_swap_ is list reversal and hence an involution; the empty range (undefined in C) is an error of the model *)
Theorem C15_poly_eval : forall c x, c <> [] -> poly_eval R_ops c x = Some (pval c x).
Proof. exact poly_eval_spec. Qed.
Print Assumptions C15_poly_eval.

Theorem C15_pval_is_sum : forall c x,
  pval c x = fold_right Rplus 0 (map (fun i => nth i c 0 * x ^ i) (seq 0 (length c))).
Proof. exact pval_sum. Qed.
Print Assumptions C15_pval_is_sum.

Theorem C15_poly_evar : forall c x, poly_evar R_ops c x = poly_eval R_ops (rev c) x.
Proof. exact poly_evar_spec. Qed.
Print Assumptions C15_poly_evar.

Theorem C15_poly_swap : forall (T : Type) (c : list T), poly_swap c = rev c /\ poly_swap (poly_swap c) = c.
Proof. exact (fun T c => conj (poly_swap_is_rev c) (poly_swap_involutive c)). Qed.
Print Assumptions C15_poly_swap.

(* the public wrappers a_poly_eval / a_poly_evar / a_poly_swap (include/a/poly.h), for every length including 0 and 1 *)
Theorem C15_poly_wrappers : forall c x,
  poly_eval_w R_ops c x = pval c x /\ poly_evar_w R_ops c x = pval (rev c) x /\ poly_swap_w c = rev c.
Proof. exact poly_wrappers_spec. Qed.
Print Assumptions C15_poly_wrappers.

(* ================================================================ ROUNDING ERROR OF HORNER'S RULE (C15/PolyRound.v)
   The theorems above are about exact real arithmetic.  The following ones bound the distance between the exact value and
   what the SAME model term returns when every multiplication and addition is followed by a rounding function rnd
   (instance Rnd_ops rnd, Common/RoundOps.v), in the STANDARD MODEL WITH GRADUAL UNDERFLOW
       std_model rnd eps eta :=  (forall x, |rnd x - x| <= eps |x| + eta)  /\  rnd 0 = 0  /\  0 <= eps < 1/4  /\  0 <= eta.
   OVERFLOW IS OUTSIDE THE MODEL (rnd has unbounded range): the bounds describe a binary64 run only while every
   intermediate result stays below 2^1024.  IEEE binary64 round-to-nearest-even satisfies the model with eps = 2^-53,
   eta = 2^-1075 (C15_binary64_satisfies_model, by Flocq); that the C / the F64_ops run computes rnd64 of each exact
   operation is Flocq's theorem about Coq's primitive floats (Common/RoundFlocq.v, prim_*_rnd64, finite operands, no
   overflow) and is not re-stated here; composing it along a whole Horner loop is not proved (trusted as before).
   For ALL coefficient counts n+1 >= 1 (induction), all real c, x (not required to be representable):
       |computed - exact| <= ((1+eps)^(2n) - 1) sum_i |c_i| |x|^i + 2 eta (1+eps)^(2n) (1 + |x| + ... + |x|^(n-1)),
   abs_poly c x = sum_i |c_i| |x|^i, geo q m = 1 + q + ... + q^(m-1), gamma eps k = k eps / (1 - k eps).
   Non-vacuity: PolyRound.horner_round_id (identity rounding: bound 0, instances agree), horner_round_scale (the inexact
   model rnd v = 9/8 v: computed 387/64 vs exact 5, inside the bound), RoundFlocq.rnd64_tie (rnd64 is not the identity). *)
From LibaV Require Import Common.RoundOps Common.RoundFlocq C15.PolyRound.

Theorem C15_horner_rounding_bound : forall (rnd : R -> R) (eps eta : R), std_model rnd eps eta ->
  forall (c : list R) (x : R), c <> [] ->
  let n := (length c - 1)%nat in
  exists vr, poly_eval (Rnd_ops rnd) c x = Some vr /\ poly_eval R_ops c x = Some (pval c x) /\
    Rabs (vr - pval c x) <= ((1 + eps) ^ (2 * n) - 1) * abs_poly c x + 2 * eta * (1 + eps) ^ (2 * n) * geo (Rabs x) n.
Proof. exact poly_eval_round. Qed.
Print Assumptions C15_horner_rounding_bound.

(* Higham's form: gamma_(2n) * sum |c_i| |x|^i, for 2 n eps < 1 *)
Theorem C15_horner_rounding_bound_gamma : forall (rnd : R -> R) (eps eta : R), std_model rnd eps eta ->
  forall (c : list R) (x : R), c <> [] ->
  let n := (length c - 1)%nat in
  INR (2 * n) * eps < 1 ->
  exists vr, poly_eval (Rnd_ops rnd) c x = Some vr /\ poly_eval R_ops c x = Some (pval c x) /\
    Rabs (vr - pval c x) <= gamma eps (2 * n) * abs_poly c x + 2 * eta * (1 + gamma eps (2 * n)) * geo (Rabs x) n.
Proof. exact poly_eval_round_gamma. Qed.
Print Assumptions C15_horner_rounding_bound_gamma.

Theorem C15_evar_rounding_bound : forall (rnd : R -> R) (eps eta : R), std_model rnd eps eta ->
  forall (c : list R) (x : R), c <> [] ->
  let n := (length c - 1)%nat in
  exists vr, poly_evar (Rnd_ops rnd) c x = Some vr /\ poly_evar R_ops c x = Some (pval (rev c) x) /\
    Rabs (vr - pval (rev c) x) <= ((1 + eps) ^ (2 * n) - 1) * abs_poly (rev c) x + 2 * eta * (1 + eps) ^ (2 * n) * geo (Rabs x) n.
Proof. exact poly_evar_round. Qed.
Print Assumptions C15_evar_rounding_bound.

(* the public wrappers, every coefficient count including 0 *)
Theorem C15_poly_wrappers_rounding_bound : forall (rnd : R -> R) (eps eta : R), std_model rnd eps eta ->
  forall (c : list R) (x : R),
  let n := (length c - 1)%nat in
  Rabs (poly_eval_w (Rnd_ops rnd) c x - poly_eval_w R_ops c x)
    <= ((1 + eps) ^ (2 * n) - 1) * abs_poly c x + 2 * eta * (1 + eps) ^ (2 * n) * geo (Rabs x) n /\
  Rabs (poly_evar_w (Rnd_ops rnd) c x - poly_evar_w R_ops c x)
    <= ((1 + eps) ^ (2 * n) - 1) * abs_poly (rev c) x + 2 * eta * (1 + eps) ^ (2 * n) * geo (Rabs x) n.
Proof. exact poly_wrappers_round. Qed.
Print Assumptions C15_poly_wrappers_rounding_bound.

Theorem C15_abs_poly_is_sum : forall c x,
  abs_poly c x = fold_right Rplus 0 (map (fun i => Rabs (nth i c 0) * Rabs x ^ i) (seq 0 (length c))) /\
  abs_poly c x = pval (map Rabs c) (Rabs x).
Proof. exact (fun c x => conj eq_refl (abs_poly_pval c x)). Qed.
Print Assumptions C15_abs_poly_is_sum.

(* IEEE binary64, round to nearest even, gradual underflow; overflow excluded (Flocq) *)
Theorem C15_binary64_satisfies_model :
  std_model rnd64 eps64 eta64 /\ eps64 = / 9007199254740992 /\ eta64 = / IZR (2 ^ 1075) /\
  (forall x, rnd64 x = Flocq.Core.Generic_fmt.round Flocq.Core.Zaux.radix2 (Flocq.Core.FLT.FLT_exp (-1074) 53) (Flocq.Core.Generic_fmt.Znearest (fun z => negb (Z.even z))) x).
Proof. exact (conj std_model_binary64 (conj eps64_val (conj eta64_val (fun x => eq_refl)))). Qed.
Print Assumptions C15_binary64_satisfies_model.

Theorem C15_horner_rounding_bound_binary64 : forall (c : list R) (x : R), c <> [] ->
  let n := (length c - 1)%nat in
  exists vr, poly_eval (Rnd_ops rnd64) c x = Some vr /\ poly_eval R_ops c x = Some (pval c x) /\
    Rabs (vr - pval c x) <= ((1 + eps64) ^ (2 * n) - 1) * abs_poly c x + 2 * eta64 * (1 + eps64) ^ (2 * n) * geo (Rabs x) n /\
    (INR (2 * n) * eps64 < 1 ->
     Rabs (vr - pval c x) <= gamma eps64 (2 * n) * abs_poly c x + 2 * eta64 * (1 + gamma eps64 (2 * n)) * geo (Rabs x) n).
Proof. exact poly_eval_round_binary64. Qed.
Print Assumptions C15_horner_rounding_bound_binary64.

(* ================================================================ END-TO-END ROUNDING ERROR OF THE GENERATED TRAJECTORIES
   (C15/TrajRound.v).  Same standard model as above (overflow excluded).  Here the COEFFICIENTS are computed by the
   generator with every operation rounded and then position / velocity (/ acceleration) are evaluated at t = ts with every
   operation rounded - the model terms of a_trajpoly3_gen, a_trajpoly3_pos, a_trajpoly3_vel (and the quintic ones)
   instantiated at Rnd_ops rnd - and compared with the REQUESTED end values.  For every rounding with eps <= 2^-20 (and
   eta <= 1), every duration ts <> 0 and all real boundary data (not required to be representable):
       cubic    |pos(ts) - p1| <= 120 eps S        + 48  eta (1+1/|ts|)^3 (1+|ts|)^3 W
                |vel(ts) - v1| <= 240 eps S / |ts| + 192 eta (1+1/|ts|)^3 (1+|ts|)^2 W
                S = |p0| + |p1| + |ts| (|v0| + |v1|),   W = 1 + |p1 - p0| + |v0| + |v1|
   (sharper weighted form: C15_traj3_end_rounding_weighted; per coefficient: C15_traj3_coeff_rounding).  The integer
   constants 1, -2, 3, 2 of the formulas are rounded by the model (ofZ) and accounted for.  At t = 0 the outputs are
   rnd p0 and rnd v0, i.e. exactly p0 and v0 when these are numbers of the format (C15_traj3_start_exact).
   Quintic (C15_traj5_end_rounding_bound): 1056 eps S5, 3960 eps S5/|ts|, 11880 eps S5/|ts|^2 for position, velocity,
   acceleration, under the additional hypothesis rnd 2 = 2 (the divisor of the constant 1/2; true for binary64).
   The septic generator: see the last section of this file (theorems C15_traj7_...).  NOT proved: the step from the rounded-real term to
   the C's binary64 run (as before).
   Non-vacuity: TrajRound.traj3_end_id (identity rounding: end values exact), traj3_end_scale20 (the inexact model
   rnd v = v (1 + 2^-20) satisfies all hypotheses), traj3_end_binary64_ex (binary64, ts = 2, 0 -> 10: within 2^-40). *)
From LibaV Require Import C15.TrajRound.

Theorem C15_traj3_end_rounding_bound : forall (rnd : R -> R) (eps eta : R), std_model rnd eps eta -> eps <= / 1048576 -> eta <= 1 ->
  forall ts p0 p1 v0 v1, ts <> 0 ->
  let c := trajpoly3_gen (Rnd_ops rnd) ts p0 p1 v0 v1 in
  exists pr vr, traj_pos (Rnd_ops rnd) c ts = Some pr /\ traj_vel (Rnd_ops rnd) c ts = Some vr /\
    Rabs (pr - p1) <= 120 * eps * (Rabs p0 + Rabs p1 + Rabs ts * (Rabs v0 + Rabs v1))
                      + 48 * eta * ((1 + / Rabs ts) ^ 3 * (1 + Rabs ts) ^ 3 * (1 + Rabs (p1 - p0) + Rabs v0 + Rabs v1)) /\
    Rabs (vr - v1) <= 240 * eps * ((Rabs p0 + Rabs p1 + Rabs ts * (Rabs v0 + Rabs v1)) / Rabs ts)
                      + 192 * eta * ((1 + / Rabs ts) ^ 3 * (1 + Rabs ts) ^ 2 * (1 + Rabs (p1 - p0) + Rabs v0 + Rabs v1)).
Proof. exact traj3_end_rounding_bound. Qed.
Print Assumptions C15_traj3_end_rounding_bound.

Theorem C15_traj3_end_rounding_bound_binary64 : forall ts p0 p1 v0 v1, ts <> 0 ->
  exists pr vr,
    traj_pos (Rnd_ops rnd64) (trajpoly3_gen (Rnd_ops rnd64) ts p0 p1 v0 v1) ts = Some pr /\
    traj_vel (Rnd_ops rnd64) (trajpoly3_gen (Rnd_ops rnd64) ts p0 p1 v0 v1) ts = Some vr /\
    Rabs (pr - p1) <= 120 * eps64 * (Rabs p0 + Rabs p1 + Rabs ts * (Rabs v0 + Rabs v1))
                      + 48 * eta64 * ((1 + / Rabs ts) ^ 3 * (1 + Rabs ts) ^ 3 * (1 + Rabs (p1 - p0) + Rabs v0 + Rabs v1)) /\
    Rabs (vr - v1) <= 240 * eps64 * ((Rabs p0 + Rabs p1 + Rabs ts * (Rabs v0 + Rabs v1)) / Rabs ts)
                      + 192 * eta64 * ((1 + / Rabs ts) ^ 3 * (1 + Rabs ts) ^ 2 * (1 + Rabs (p1 - p0) + Rabs v0 + Rabs v1)).
Proof. exact traj3_end_rounding_bound_binary64. Qed.
Print Assumptions C15_traj3_end_rounding_bound_binary64.

(* the sharper form: 20 eps times the weighted magnitude the algebra gives, in terms of |p1 - p0| *)
Theorem C15_traj3_end_rounding_weighted : forall (rnd : R -> R) (eps eta : R), std_model rnd eps eta -> eps <= / 1048576 -> eta <= 1 ->
  forall ts p0 p1 v0 v1, ts <> 0 ->
  let c := trajpoly3_gen (Rnd_ops rnd) ts p0 p1 v0 v1 in
  exists pr vr, traj_pos (Rnd_ops rnd) c ts = Some pr /\ traj_vel (Rnd_ops rnd) c ts = Some vr /\
    Rabs (pr - p1) <= 20 * eps * (Rabs p0 + 5 * Rabs (p1 - p0) + Rabs ts * (4 * Rabs v0 + 2 * Rabs v1))
                      + 48 * eta * ((1 + / Rabs ts) ^ 3 * (1 + Rabs ts) ^ 3 * (1 + Rabs (p1 - p0) + Rabs v0 + Rabs v1)) /\
    Rabs (vr - v1) <= 20 * eps * (8 * Rabs v0 + 5 * Rabs v1 + 12 * (Rabs (p1 - p0) / Rabs ts))
                      + 192 * eta * ((1 + / Rabs ts) ^ 3 * (1 + Rabs ts) ^ 2 * (1 + Rabs (p1 - p0) + Rabs v0 + Rabs v1)).
Proof. exact traj3_end_rounding_weighted. Qed.
Print Assumptions C15_traj3_end_rounding_weighted.

(* the two computed coefficients against the exact ones (c0 = p0 and c1 = v0 are stored as given) *)
Theorem C15_traj3_coeff_rounding : forall (rnd : R -> R) (eps eta : R), std_model rnd eps eta -> eps <= / 1048576 -> eta <= 1 ->
  forall ts p0 p1 v0 v1, ts <> 0 ->
  exists c2h c3h c2 c3,
    trajpoly3_gen (Rnd_ops rnd) ts p0 p1 v0 v1 = [p0; v0; c2h; c3h] /\ trajpoly3_gen R_ops ts p0 p1 v0 v1 = [p0; v0; c2; c3] /\
    Rabs (c2h - c2) <= 11 * eps * ((2 * Rabs v0 + Rabs v1) / Rabs ts + 3 * Rabs (p1 - p0) / Rabs ts ^ 2)
                       + 34 * eta * ((1 + / Rabs ts) ^ 2 * (1 + Rabs ts) ^ 0 * (1 + Rabs (p1 - p0) + Rabs v0 + Rabs v1)) /\
    Rabs (c3h - c3) <= 14 * eps * ((Rabs v0 + Rabs v1) / Rabs ts ^ 2 + 2 * Rabs (p1 - p0) / Rabs ts ^ 3)
                       + 48 * eta * ((1 + / Rabs ts) ^ 3 * (1 + Rabs ts) ^ 0 * (1 + Rabs (p1 - p0) + Rabs v0 + Rabs v1)).
Proof. exact traj3_coeff_rounding. Qed.
Print Assumptions C15_traj3_coeff_rounding.

Theorem C15_traj3_start_exact : forall (rnd : R -> R) (eps eta : R), std_model rnd eps eta ->
  forall ts p0 p1 v0 v1,
  let c := trajpoly3_gen (Rnd_ops rnd) ts p0 p1 v0 v1 in
  nth 0 c 0 = p0 /\ nth 1 c 0 = v0 /\
  traj_pos (Rnd_ops rnd) c 0 = Some (rnd p0) /\ traj_vel (Rnd_ops rnd) c 0 = Some (rnd v0) /\
  (rnd p0 = p0 -> traj_pos (Rnd_ops rnd) c 0 = Some p0) /\ (rnd v0 = v0 -> traj_vel (Rnd_ops rnd) c 0 = Some v0).
Proof. exact traj3_start_exact. Qed.
Print Assumptions C15_traj3_start_exact.

(* quintic: position, velocity and acceleration at the end time; rnd 2 = 2 for the divisor of the constant 1/2 *)
Theorem C15_traj5_end_rounding_bound : forall (rnd : R -> R) (eps eta : R), std_model rnd eps eta -> eps <= / 1048576 -> eta <= 1 ->
  rnd 2 = 2 ->
  forall ts p0 p1 v0 v1 a0 a1, ts <> 0 ->
  let c := trajpoly5_gen (Rnd_ops rnd) ts p0 p1 v0 v1 a0 a1 in
  let S := Rabs p0 + Rabs p1 + Rabs ts * (Rabs v0 + Rabs v1) + Rabs ts ^ 2 * (Rabs a0 + Rabs a1) in
  exists pr vr ar, traj_pos (Rnd_ops rnd) c ts = Some pr /\ traj_vel (Rnd_ops rnd) c ts = Some vr /\ traj_acc (Rnd_ops rnd) c ts = Some ar /\
    Rabs (pr - p1) <= 1056 * eps * S
      + 1664 * eta * ((1 + / Rabs ts) ^ 5 * (1 + Rabs ts) ^ 5 * (1 + Rabs (p1 - p0) + Rabs v0 + Rabs v1 + Rabs a0 + Rabs a1)) /\
    Rabs (vr - v1) <= 3960 * eps * (S / Rabs ts)
      + 9984 * eta * ((1 + / Rabs ts) ^ 5 * (1 + Rabs ts) ^ 4 * (1 + Rabs (p1 - p0) + Rabs v0 + Rabs v1 + Rabs a0 + Rabs a1)) /\
    Rabs (ar - a1) <= 11880 * eps * (S / Rabs ts ^ 2)
      + 49920 * eta * ((1 + / Rabs ts) ^ 5 * (1 + Rabs ts) ^ 3 * (1 + Rabs (p1 - p0) + Rabs v0 + Rabs v1 + Rabs a0 + Rabs a1)).
Proof. exact traj5_end_rounding_bound. Qed.
Print Assumptions C15_traj5_end_rounding_bound.

Theorem C15_traj5_end_rounding_bound_binary64 : forall ts p0 p1 v0 v1 a0 a1, ts <> 0 ->
  let c := trajpoly5_gen (Rnd_ops rnd64) ts p0 p1 v0 v1 a0 a1 in
  let S := Rabs p0 + Rabs p1 + Rabs ts * (Rabs v0 + Rabs v1) + Rabs ts ^ 2 * (Rabs a0 + Rabs a1) in
  exists pr vr ar, traj_pos (Rnd_ops rnd64) c ts = Some pr /\ traj_vel (Rnd_ops rnd64) c ts = Some vr /\ traj_acc (Rnd_ops rnd64) c ts = Some ar /\
    Rabs (pr - p1) <= 1056 * eps64 * S
      + 1664 * eta64 * ((1 + / Rabs ts) ^ 5 * (1 + Rabs ts) ^ 5 * (1 + Rabs (p1 - p0) + Rabs v0 + Rabs v1 + Rabs a0 + Rabs a1)) /\
    Rabs (vr - v1) <= 3960 * eps64 * (S / Rabs ts)
      + 9984 * eta64 * ((1 + / Rabs ts) ^ 5 * (1 + Rabs ts) ^ 4 * (1 + Rabs (p1 - p0) + Rabs v0 + Rabs v1 + Rabs a0 + Rabs a1)) /\
    Rabs (ar - a1) <= 11880 * eps64 * (S / Rabs ts ^ 2)
      + 49920 * eta64 * ((1 + / Rabs ts) ^ 5 * (1 + Rabs ts) ^ 3 * (1 + Rabs (p1 - p0) + Rabs v0 + Rabs v1 + Rabs a0 + Rabs a1)).
Proof. exact traj5_end_rounding_bound_binary64. Qed.
Print Assumptions C15_traj5_end_rounding_bound_binary64.

(* ================================================================ END-TO-END ROUNDING ERROR OF THE GENERATED SEPTIC TRAJECTORY
   (C15/TrajRound7.v).  Same standard model (overflow excluded), same reading as for the cubic and the quintic: the eight
   coefficients are COMPUTED by the generator term with every operation, every integer constant and the two constants
   (a_real)(1.0/2), (a_real)(1.0/6) rounded, then position / velocity / acceleration / jerk are evaluated at t = ts by the rounded
   Horner term (with the rounded factors k, k(k-1), k(k-1)(k-2) of the derivative coefficients) - the model terms of
   a_trajpoly7_gen, a_trajpoly7_pos/_vel/_acc/_jer instantiated at Rnd_ops rnd - and compared with the REQUESTED end values.
   For every rounding with eps <= 2^-20, eta <= 1, rnd 2 = 2, rnd 6 = 6 (the divisors of the two constants; the quotient 1/6 is
   rounded and counted), every duration ts <> 0 and all real boundary data, T = |ts|,
   S7 = |p0| + |p1| + T(|v0|+|v1|) + T^2(|a0|+|a1|) + T^3(|j0|+|j1|), W = 1 + |p1-p0| + |v0| + |v1| + |a0| + |a1| + |j0| + |j1|:
       |pos(ts) - p1| <=   9030 eps S7       + 10^6   eta (1+1/T)^7 (1+T)^7 W
       |vel(ts) - v1| <=  48160 eps S7 / T   + 4 10^6 eta (1+1/T)^7 (1+T)^6 W
       |acc(ts) - a1| <= 216720 eps S7 / T^2 + 3 10^7 eta (1+1/T)^7 (1+T)^5 W
       |jer(ts) - j1| <= 794640 eps S7 / T^3 + 3 10^8 eta (1+1/T)^7 (1+T)^4 W
   (sharper weighted form, 43 eps times the all-signs-positive value of the exact formulas: C15_traj7_end_rounding_weighted;
   per coefficient: C15_traj7_coeff_rounding).  At t = 0 position and velocity are rnd p0, rnd v0 (exact for format numbers,
   C15_traj7_start_exact); acceleration and jerk are within 7 eps |a0|, 9 eps |j0| of a0, j0 (C15_traj7_start_rounding_bound).
   NOT proved: the step from the rounded-real term to the C's binary64 run (as before); that acceleration at 0 is exactly a0
   in binary64 (true barring underflow, needs the exactness of the products by 1/2 and 2).
   Non-vacuity: TrajRound7.traj7_end_id (identity rounding: the four end values exact), traj7_end_keep26 (an inexact model
   with rnd 2 = 2, rnd 6 = 6 satisfies all hypotheses), traj7_end_binary64_ex (binary64, ts = 2, 0 -> 10 with non-zero
   velocities, accelerations and jerk: the four end values within 2^-30). *)
From LibaV Require Import C15.TrajRound7.

Theorem C15_traj7_end_rounding_bound : forall (rnd : R -> R) (eps eta : R), std_model rnd eps eta -> eps <= / 1048576 -> eta <= 1 ->
  rnd 2 = 2 -> rnd 6 = 6 ->
  forall ts p0 p1 v0 v1 a0 a1 j0 j1, ts <> 0 ->
  let c := trajpoly7_gen (Rnd_ops rnd) ts p0 p1 v0 v1 a0 a1 j0 j1 in
  let S := Rabs p0 + Rabs p1 + Rabs ts * (Rabs v0 + Rabs v1) + Rabs ts ^ 2 * (Rabs a0 + Rabs a1) + Rabs ts ^ 3 * (Rabs j0 + Rabs j1) in
  let W := 1 + Rabs (p1 - p0) + Rabs v0 + Rabs v1 + Rabs a0 + Rabs a1 + Rabs j0 + Rabs j1 in
  exists pr vr ar jr, traj_pos (Rnd_ops rnd) c ts = Some pr /\ traj_vel (Rnd_ops rnd) c ts = Some vr /\
    traj_acc (Rnd_ops rnd) c ts = Some ar /\ traj_jer (Rnd_ops rnd) c ts = Some jr /\
    Rabs (pr - p1) <= 9030 * eps * S + 1000000 * eta * ((1 + / Rabs ts) ^ 7 * (1 + Rabs ts) ^ 7 * W) /\
    Rabs (vr - v1) <= 48160 * eps * (S / Rabs ts) + 4000000 * eta * ((1 + / Rabs ts) ^ 7 * (1 + Rabs ts) ^ 6 * W) /\
    Rabs (ar - a1) <= 216720 * eps * (S / Rabs ts ^ 2) + 30000000 * eta * ((1 + / Rabs ts) ^ 7 * (1 + Rabs ts) ^ 5 * W) /\
    Rabs (jr - j1) <= 794640 * eps * (S / Rabs ts ^ 3) + 300000000 * eta * ((1 + / Rabs ts) ^ 7 * (1 + Rabs ts) ^ 4 * W).
Proof. exact traj7_end_rounding_bound. Qed.
Print Assumptions C15_traj7_end_rounding_bound.

Theorem C15_traj7_end_rounding_bound_binary64 : forall ts p0 p1 v0 v1 a0 a1 j0 j1, ts <> 0 ->
  let c := trajpoly7_gen (Rnd_ops rnd64) ts p0 p1 v0 v1 a0 a1 j0 j1 in
  let S := Rabs p0 + Rabs p1 + Rabs ts * (Rabs v0 + Rabs v1) + Rabs ts ^ 2 * (Rabs a0 + Rabs a1) + Rabs ts ^ 3 * (Rabs j0 + Rabs j1) in
  let W := 1 + Rabs (p1 - p0) + Rabs v0 + Rabs v1 + Rabs a0 + Rabs a1 + Rabs j0 + Rabs j1 in
  exists pr vr ar jr, traj_pos (Rnd_ops rnd64) c ts = Some pr /\ traj_vel (Rnd_ops rnd64) c ts = Some vr /\
    traj_acc (Rnd_ops rnd64) c ts = Some ar /\ traj_jer (Rnd_ops rnd64) c ts = Some jr /\
    Rabs (pr - p1) <= 9030 * eps64 * S + 1000000 * eta64 * ((1 + / Rabs ts) ^ 7 * (1 + Rabs ts) ^ 7 * W) /\
    Rabs (vr - v1) <= 48160 * eps64 * (S / Rabs ts) + 4000000 * eta64 * ((1 + / Rabs ts) ^ 7 * (1 + Rabs ts) ^ 6 * W) /\
    Rabs (ar - a1) <= 216720 * eps64 * (S / Rabs ts ^ 2) + 30000000 * eta64 * ((1 + / Rabs ts) ^ 7 * (1 + Rabs ts) ^ 5 * W) /\
    Rabs (jr - j1) <= 794640 * eps64 * (S / Rabs ts ^ 3) + 300000000 * eta64 * ((1 + / Rabs ts) ^ 7 * (1 + Rabs ts) ^ 4 * W).
Proof. exact traj7_end_rounding_bound_binary64. Qed.
Print Assumptions C15_traj7_end_rounding_bound_binary64.

(* the sharper form: 43 eps times the weighted magnitude the algebra gives, in terms of |p1 - p0| *)
Theorem C15_traj7_end_rounding_weighted : forall (rnd : R -> R) (eps eta : R), std_model rnd eps eta -> eps <= / 1048576 -> eta <= 1 ->
  rnd 2 = 2 -> rnd 6 = 6 ->
  forall ts p0 p1 v0 v1 a0 a1 j0 j1, ts <> 0 ->
  let c := trajpoly7_gen (Rnd_ops rnd) ts p0 p1 v0 v1 a0 a1 j0 j1 in
  let T := Rabs ts in let P := Rabs (p1 - p0) in
  let W := 1 + P + Rabs v0 + Rabs v1 + Rabs a0 + Rabs a1 + Rabs j0 + Rabs j1 in
  exists pr vr ar jr, traj_pos (Rnd_ops rnd) c ts = Some pr /\ traj_vel (Rnd_ops rnd) c ts = Some vr /\
    traj_acc (Rnd_ops rnd) c ts = Some ar /\ traj_jer (Rnd_ops rnd) c ts = Some jr /\
    Rabs (pr - p1) <= 43 * eps * (Rabs p0 + 209 * P + T * (112 * Rabs v0 + 98 * Rabs v1) + T ^ 2 * (25 * Rabs a0 + 18 * Rabs a1)
                                  + T ^ 3 * (8 / 3 * Rabs j0 + 4 / 3 * Rabs j1))
                      + 1000000 * eta * ((1 + / T) ^ 7 * (1 + T) ^ 7 * W) /\
    Rabs (vr - v1) <= 43 * eps * (592 * Rabs v0 + 529 * Rabs v1 + T * (130 * Rabs a0 + 98 * Rabs a1)
                                  + T ^ 2 * (40 / 3 * Rabs j0 + 22 / 3 * Rabs j1) + 1120 * (P / T))
                      + 4000000 * eta * ((1 + / T) ^ 7 * (1 + T) ^ 6 * W) /\
    Rabs (ar - a1) <= 43 * eps * (570 * Rabs a0 + 449 * Rabs a1 + T * (56 * Rabs j0 + 34 * Rabs j1)
                                  + (2640 * Rabs v0 + 2400 * Rabs v1) / T + 5040 * (P / T ^ 2))
                      + 30000000 * eta * ((1 + / T) ^ 7 * (1 + T) ^ 5 * W) /\
    Rabs (jr - j1) <= 43 * eps * (192 * Rabs j0 + 129 * Rabs j1 + (2040 * Rabs a0 + 1680 * Rabs a1) / T
                                  + (9600 * Rabs v0 + 8880 * Rabs v1) / T ^ 2 + 18480 * (P / T ^ 3))
                      + 300000000 * eta * ((1 + / T) ^ 7 * (1 + T) ^ 4 * W).
Proof. exact traj7_end_rounding_weighted. Qed.
Print Assumptions C15_traj7_end_rounding_weighted.

(* the six computed coefficients against the exact ones (c0 = p0 and c1 = v0 are stored as given); the magnitudes are the
   exact coefficient formulas of trajpoly7_gen R_ops with every sign made positive *)
Theorem C15_traj7_coeff_rounding : forall (rnd : R -> R) (eps eta : R), std_model rnd eps eta -> eps <= / 1048576 -> eta <= 1 ->
  rnd 2 = 2 -> rnd 6 = 6 ->
  forall ts p0 p1 v0 v1 a0 a1 j0 j1, ts <> 0 ->
  let ch := trajpoly7_gen (Rnd_ops rnd) ts p0 p1 v0 v1 a0 a1 j0 j1 in
  let cx := trajpoly7_gen R_ops ts p0 p1 v0 v1 a0 a1 j0 j1 in
  let u := / Rabs ts in let P := Rabs (p1 - p0) in
  let V0 := Rabs v0 in let V1 := Rabs v1 in let A0 := Rabs a0 in let A1 := Rabs a1 in let J0 := Rabs j0 in let J1 := Rabs j1 in
  let W := 1 + P + V0 + V1 + A0 + A1 + J0 + J1 in
  length ch = 8%nat /\ nth 0 ch 0 = p0 /\ nth 1 ch 0 = v0 /\ nth 2 cx 0 = a0 * (1 / 2) /\ nth 3 cx 0 = j0 * (1 / 6) /\
  Rabs (nth 2 ch 0 - nth 2 cx 0) <= 4 * eps * (A0 * / 2) + 4 * eta * W /\
  Rabs (nth 3 ch 0 - nth 3 cx 0) <= 4 * eps * (J0 * / 6) + 4 * eta * W /\
  Rabs (nth 4 ch 0 - nth 4 cx 0)
    <= 20 * eps * (/ 6 * (u * (4 * J0 + J1) + u ^ 2 * (15 * A1 + 30 * A0) + u ^ 3 * (120 * V0 + 90 * V1) + u ^ 4 * P * 210))
       + 20000 * eta * ((1 + u) ^ 4 * W) /\
  Rabs (nth 5 ch 0 - nth 5 cx 0)
    <= 23 * eps * (/ 2 * (u ^ 2 * (2 * J0 + J1) + u ^ 3 * (20 * A0 + 14 * A1) + u ^ 4 * (90 * V0 + 78 * V1) + u ^ 5 * P * 168))
       + 40000 * eta * ((1 + u) ^ 5 * W) /\
  Rabs (nth 6 ch 0 - nth 6 cx 0)
    <= 26 * eps * (/ 6 * (u ^ 3 * (4 * J0 + 3 * J1) + u ^ 4 * (39 * A1 + 45 * A0) + u ^ 5 * (216 * V0 + 204 * V1) + u ^ 6 * P * 420))
       + 200000 * eta * ((1 + u) ^ 6 * W) /\
  Rabs (nth 7 ch 0 - nth 7 cx 0)
    <= 29 * eps * (/ 6 * (u ^ 4 * (J0 + J1) + u ^ 5 * (A0 + A1) * 12 + u ^ 6 * (V0 + V1) * 60 + u ^ 7 * P * 120))
       + 200000 * eta * ((1 + u) ^ 7 * W).
Proof. exact traj7_coeff_rounding. Qed.
Print Assumptions C15_traj7_coeff_rounding.

Theorem C15_traj7_start_exact : forall (rnd : R -> R) (eps eta : R), std_model rnd eps eta ->
  forall ts p0 p1 v0 v1 a0 a1 j0 j1,
  let c := trajpoly7_gen (Rnd_ops rnd) ts p0 p1 v0 v1 a0 a1 j0 j1 in
  nth 0 c 0 = p0 /\ nth 1 c 0 = v0 /\
  traj_pos (Rnd_ops rnd) c 0 = Some (rnd p0) /\ traj_vel (Rnd_ops rnd) c 0 = Some (rnd v0) /\
  (rnd p0 = p0 -> traj_pos (Rnd_ops rnd) c 0 = Some p0) /\ (rnd v0 = v0 -> traj_vel (Rnd_ops rnd) c 0 = Some v0).
Proof. exact traj7_start_exact. Qed.
Print Assumptions C15_traj7_start_exact.

Theorem C15_traj7_start_rounding_bound : forall (rnd : R -> R) (eps eta : R), std_model rnd eps eta -> eps <= / 1048576 -> eta <= 1 ->
  rnd 2 = 2 -> rnd 6 = 6 ->
  forall ts p0 p1 v0 v1 a0 a1 j0 j1,
  let c := trajpoly7_gen (Rnd_ops rnd) ts p0 p1 v0 v1 a0 a1 j0 j1 in
  exists ar jr, traj_acc (Rnd_ops rnd) c 0 = Some ar /\ traj_jer (Rnd_ops rnd) c 0 = Some jr /\
    Rabs (ar - a0) <= 7 * eps * Rabs a0 + 16 * eta * (1 + Rabs a0) /\
    Rabs (jr - j0) <= 9 * eps * Rabs j0 + 64 * eta * (1 + Rabs j0).
Proof. exact traj7_start_rounding_bound. Qed.
Print Assumptions C15_traj7_start_rounding_bound.
