(* C15 - Polynomial trajectories meet all boundary conditions with consistent derivatives.
   Model: C15/PolyDefs.v (src/trajpoly{3,5,7}.c, src/poly.c); proofs: C15/PolyProofs.v.  Theorems are over Coq's reals
   (instance R_ops): exact arithmetic.  The rounding error of the binary64/binary32 evaluation at the end time is NOT
   proved; it is measured by the check against exact rational arithmetic (see DESIGN.md, C15: partial). *)
From Coq Require Import Reals List.
From Coquelicot Require Import Coquelicot.
From LibaV Require Import Common.NumOps Common.ROps C15.PolyDefs C15.PolyProofs.
Import ListNotations.
Local Open Scope R_scope.

(* every requested boundary value is reproduced exactly, at time 0 and at the end time, for every duration ts <> 0 *)
Theorem C15_trajpoly3_boundary : forall ts p0 p1 v0 v1, ts <> 0 ->
  let c := trajpoly3_gen R_ops ts p0 p1 v0 v1 in
  traj_pos R_ops c 0 = Some p0 /\ traj_vel R_ops c 0 = Some v0 /\
  traj_pos R_ops c ts = Some p1 /\ traj_vel R_ops c ts = Some v1.
Proof. exact trajpoly3_boundary. Qed.
Print Assumptions C15_trajpoly3_boundary.

Theorem C15_trajpoly5_boundary : forall ts p0 p1 v0 v1 a0 a1, ts <> 0 ->
  let c := trajpoly5_gen R_ops ts p0 p1 v0 v1 a0 a1 in
  traj_pos R_ops c 0 = Some p0 /\ traj_vel R_ops c 0 = Some v0 /\ traj_acc R_ops c 0 = Some a0 /\
  traj_pos R_ops c ts = Some p1 /\ traj_vel R_ops c ts = Some v1 /\ traj_acc R_ops c ts = Some a1.
Proof. exact trajpoly5_boundary. Qed.
Print Assumptions C15_trajpoly5_boundary.

Theorem C15_trajpoly7_boundary : forall ts p0 p1 v0 v1 a0 a1 j0 j1, ts <> 0 ->
  let c := trajpoly7_gen R_ops ts p0 p1 v0 v1 a0 a1 j0 j1 in
  traj_pos R_ops c 0 = Some p0 /\ traj_vel R_ops c 0 = Some v0 /\ traj_acc R_ops c 0 = Some a0 /\ traj_jer R_ops c 0 = Some j0 /\
  traj_pos R_ops c ts = Some p1 /\ traj_vel R_ops c ts = Some v1 /\ traj_acc R_ops c ts = Some a1 /\ traj_jer R_ops c ts = Some j1.
Proof. exact trajpoly7_boundary. Qed.
Print Assumptions C15_trajpoly7_boundary.

(* velocity / acceleration / jerk outputs (built from the c1/c2/c3 coefficient accessors) are the successive
   derivatives of the position polynomial, for EVERY coefficient vector and query time *)
Theorem C15_trajpoly3_derivatives : forall c0 c1 c2 c3 (x : R),
  let c := [c0; c1; c2; c3] in
  is_derive (fun t : R => the (traj_pos R_ops c t)) x (the (traj_vel R_ops c x)) /\
  is_derive (fun t : R => the (traj_vel R_ops c t)) x (the (traj_acc R_ops c x)).
Proof. exact trajpoly3_derivatives. Qed.
Print Assumptions C15_trajpoly3_derivatives.

Theorem C15_trajpoly5_derivatives : forall c0 c1 c2 c3 c4 c5 (x : R),
  let c := [c0; c1; c2; c3; c4; c5] in
  is_derive (fun t : R => the (traj_pos R_ops c t)) x (the (traj_vel R_ops c x)) /\
  is_derive (fun t : R => the (traj_vel R_ops c t)) x (the (traj_acc R_ops c x)).
Proof. exact trajpoly5_derivatives. Qed.
Print Assumptions C15_trajpoly5_derivatives.

Theorem C15_trajpoly7_derivatives : forall c0 c1 c2 c3 c4 c5 c6 c7 (x : R),
  let c := [c0; c1; c2; c3; c4; c5; c6; c7] in
  is_derive (fun t : R => the (traj_pos R_ops c t)) x (the (traj_vel R_ops c x)) /\
  is_derive (fun t : R => the (traj_vel R_ops c t)) x (the (traj_acc R_ops c x)) /\
  is_derive (fun t : R => the (traj_acc R_ops c t)) x (the (traj_jer R_ops c x)).
Proof. exact trajpoly7_derivatives. Qed.
Print Assumptions C15_trajpoly7_derivatives.

(* polynomial evaluation: for every degree and coefficient vector, a_poly_eval_ is the Horner value of
   c0 + c1 x + ... (pval, also given as an explicit sum), a_poly_evar_ is the same on the reversed vector,
   a_poly_swap_ is list reversal and hence an involution; the empty range (undefined in C) is an error of the model *)
Theorem C15_poly_eval : forall c x, c <> [] -> poly_eval R_ops c x = Some (pval c x).
Proof. exact poly_eval_spec. Qed.
Print Assumptions C15_poly_eval.

Theorem C15_pval_is_sum : forall c x,
  pval c x = fold_right Rplus 0 (map (fun i => nth i c 0 * x ^ i) (seq 0 (length c))).
Proof. exact pval_sum. Qed.
Print Assumptions C15_pval_is_sum.

Theorem C15_poly_evar : forall c x, poly_evar R_ops c x = poly_eval R_ops (rev c) x.
Proof. exact poly_evar_spec. Qed.
Print Assumptions C15_poly_evar.

Theorem C15_poly_swap : forall (T : Type) (c : list T), poly_swap c = rev c /\ poly_swap (poly_swap c) = c.
Proof. exact (fun T c => conj (poly_swap_is_rev c) (poly_swap_involutive c)). Qed.
Print Assumptions C15_poly_swap.

(* the public wrappers a_poly_eval / a_poly_evar / a_poly_swap (include/a/poly.h), for every length including 0 and 1 *)
Theorem C15_poly_wrappers : forall c x,
  poly_eval_w R_ops c x = pval c x /\ poly_evar_w R_ops c x = pval (rev c) x /\ poly_swap_w c = rev c.
Proof. exact poly_wrappers_spec. Qed.
Print Assumptions C15_poly_wrappers.

(* ================================================================ ROUNDING ERROR OF HORNER'S RULE (C15/PolyRound.v)
   The theorems above are about exact real arithmetic.  The following ones bound the distance between the exact value and
   what the SAME model term returns when every multiplication and addition is followed by a rounding function rnd
   (instance Rnd_ops rnd, Common/RoundOps.v), in the STANDARD MODEL WITH GRADUAL UNDERFLOW
       std_model rnd eps eta :=  (forall x, |rnd x - x| <= eps |x| + eta)  /\  rnd 0 = 0  /\  0 <= eps < 1/4  /\  0 <= eta.
   OVERFLOW IS OUTSIDE THE MODEL (rnd has unbounded range): the bounds describe a binary64 run only while every
   intermediate result stays below 2^1024.  IEEE binary64 round-to-nearest-even satisfies the model with eps = 2^-53,
   eta = 2^-1075 (C15_binary64_satisfies_model, by Flocq); that the C / the F64_ops run computes rnd64 of each exact
   operation is Flocq's theorem about Coq's primitive floats (Common/RoundFlocq.v, prim_*_rnd64, finite operands, no
   overflow) and is not re-stated here; composing it along a whole Horner loop is not proved (trusted as before).
   For ALL coefficient counts n+1 >= 1 (induction), all real c, x (not required to be representable):
       |computed - exact| <= ((1+eps)^(2n) - 1) sum_i |c_i| |x|^i + 2 eta (1+eps)^(2n) (1 + |x| + ... + |x|^(n-1)),
   abs_poly c x = sum_i |c_i| |x|^i, geo q m = 1 + q + ... + q^(m-1), gamma eps k = k eps / (1 - k eps).
   Non-vacuity: PolyRound.horner_round_id (identity rounding: bound 0, instances agree), horner_round_scale (the inexact
   model rnd v = 9/8 v: computed 387/64 vs exact 5, inside the bound), RoundFlocq.rnd64_tie (rnd64 is not the identity). *)
From LibaV Require Import Common.RoundOps Common.RoundFlocq C15.PolyRound.

Theorem C15_horner_rounding_bound : forall (rnd : R -> R) (eps eta : R), std_model rnd eps eta ->
  forall (c : list R) (x : R), c <> [] ->
  let n := (length c - 1)%nat in
  exists vr, poly_eval (Rnd_ops rnd) c x = Some vr /\ poly_eval R_ops c x = Some (pval c x) /\
    Rabs (vr - pval c x) <= ((1 + eps) ^ (2 * n) - 1) * abs_poly c x + 2 * eta * (1 + eps) ^ (2 * n) * geo (Rabs x) n.
Proof. exact poly_eval_round. Qed.
Print Assumptions C15_horner_rounding_bound.

(* Higham's form: gamma_(2n) * sum |c_i| |x|^i, for 2 n eps < 1 *)
Theorem C15_horner_rounding_bound_gamma : forall (rnd : R -> R) (eps eta : R), std_model rnd eps eta ->
  forall (c : list R) (x : R), c <> [] ->
  let n := (length c - 1)%nat in
  INR (2 * n) * eps < 1 ->
  exists vr, poly_eval (Rnd_ops rnd) c x = Some vr /\ poly_eval R_ops c x = Some (pval c x) /\
    Rabs (vr - pval c x) <= gamma eps (2 * n) * abs_poly c x + 2 * eta * (1 + gamma eps (2 * n)) * geo (Rabs x) n.
Proof. exact poly_eval_round_gamma. Qed.
Print Assumptions C15_horner_rounding_bound_gamma.

Theorem C15_evar_rounding_bound : forall (rnd : R -> R) (eps eta : R), std_model rnd eps eta ->
  forall (c : list R) (x : R), c <> [] ->
  let n := (length c - 1)%nat in
  exists vr, poly_evar (Rnd_ops rnd) c x = Some vr /\ poly_evar R_ops c x = Some (pval (rev c) x) /\
    Rabs (vr - pval (rev c) x) <= ((1 + eps) ^ (2 * n) - 1) * abs_poly (rev c) x + 2 * eta * (1 + eps) ^ (2 * n) * geo (Rabs x) n.
Proof. exact poly_evar_round. Qed.
Print Assumptions C15_evar_rounding_bound.

(* the public wrappers, every coefficient count including 0 *)
Theorem C15_poly_wrappers_rounding_bound : forall (rnd : R -> R) (eps eta : R), std_model rnd eps eta ->
  forall (c : list R) (x : R),
  let n := (length c - 1)%nat in
  Rabs (poly_eval_w (Rnd_ops rnd) c x - poly_eval_w R_ops c x)
    <= ((1 + eps) ^ (2 * n) - 1) * abs_poly c x + 2 * eta * (1 + eps) ^ (2 * n) * geo (Rabs x) n /\
  Rabs (poly_evar_w (Rnd_ops rnd) c x - poly_evar_w R_ops c x)
    <= ((1 + eps) ^ (2 * n) - 1) * abs_poly (rev c) x + 2 * eta * (1 + eps) ^ (2 * n) * geo (Rabs x) n.
Proof. exact poly_wrappers_round. Qed.
Print Assumptions C15_poly_wrappers_rounding_bound.

Theorem C15_abs_poly_is_sum : forall c x,
  abs_poly c x = fold_right Rplus 0 (map (fun i => Rabs (nth i c 0) * Rabs x ^ i) (seq 0 (length c))) /\
  abs_poly c x = pval (map Rabs c) (Rabs x).
Proof. exact (fun c x => conj eq_refl (abs_poly_pval c x)). Qed.
Print Assumptions C15_abs_poly_is_sum.

(* IEEE binary64, round to nearest even, gradual underflow; overflow excluded (Flocq) *)
Theorem C15_binary64_satisfies_model :
  std_model rnd64 eps64 eta64 /\ eps64 = / 9007199254740992 /\ eta64 = / IZR (2 ^ 1075) /\
  (forall x, rnd64 x = Flocq.Core.Generic_fmt.round Flocq.Core.Zaux.radix2 (Flocq.Core.FLT.FLT_exp (-1074) 53) (Flocq.Core.Generic_fmt.Znearest (fun z => negb (Z.even z))) x).
Proof. exact (conj std_model_binary64 (conj eps64_val (conj eta64_val (fun x => eq_refl)))). Qed.
Print Assumptions C15_binary64_satisfies_model.

Theorem C15_horner_rounding_bound_binary64 : forall (c : list R) (x : R), c <> [] ->
  let n := (length c - 1)%nat in
  exists vr, poly_eval (Rnd_ops rnd64) c x = Some vr /\ poly_eval R_ops c x = Some (pval c x) /\
    Rabs (vr - pval c x) <= ((1 + eps64) ^ (2 * n) - 1) * abs_poly c x + 2 * eta64 * (1 + eps64) ^ (2 * n) * geo (Rabs x) n /\
    (INR (2 * n) * eps64 < 1 ->
     Rabs (vr - pval c x) <= gamma eps64 (2 * n) * abs_poly c x + 2 * eta64 * (1 + gamma eps64 (2 * n)) * geo (Rabs x) n).
Proof. exact poly_eval_round_binary64. Qed.
Print Assumptions C15_horner_rounding_bound_binary64.
