(* C15 - Polynomial trajectories meet all boundary conditions with consistent derivatives.
   Model: C15/PolyDefs.v (src/trajpoly{3,5,7}.c, src/poly.c); proofs: C15/PolyProofs.v.  Theorems are over Coq's reals
   (instance R_ops): exact arithmetic.  The rounding error of the binary64/binary32 evaluation at the end time is NOT
   proved; it is measured by the check against exact rational arithmetic (see DESIGN.md, C15: partial). *)
From Coq Require Import Reals List.
From Coquelicot Require Import Coquelicot.
From LibaV Require Import Common.NumOps Common.ROps C15.PolyDefs C15.PolyProofs.
Import ListNotations.
Local Open Scope R_scope.

(* every requested boundary value is reproduced exactly, at time 0 and at the end time, for every duration ts <> 0 *)
Theorem C15_trajpoly3_boundary : forall ts p0 p1 v0 v1, ts <> 0 ->
  let c := trajpoly3_gen R_ops ts p0 p1 v0 v1 in
  traj_pos R_ops c 0 = Some p0 /\ traj_vel R_ops c 0 = Some v0 /\
  traj_pos R_ops c ts = Some p1 /\ traj_vel R_ops c ts = Some v1.
Proof. exact trajpoly3_boundary. Qed.
Print Assumptions C15_trajpoly3_boundary.

Theorem C15_trajpoly5_boundary : forall ts p0 p1 v0 v1 a0 a1, ts <> 0 ->
  let c := trajpoly5_gen R_ops ts p0 p1 v0 v1 a0 a1 in
  traj_pos R_ops c 0 = Some p0 /\ traj_vel R_ops c 0 = Some v0 /\ traj_acc R_ops c 0 = Some a0 /\
  traj_pos R_ops c ts = Some p1 /\ traj_vel R_ops c ts = Some v1 /\ traj_acc R_ops c ts = Some a1.
Proof. exact trajpoly5_boundary. Qed.
Print Assumptions C15_trajpoly5_boundary.

Theorem C15_trajpoly7_boundary : forall ts p0 p1 v0 v1 a0 a1 j0 j1, ts <> 0 ->
  let c := trajpoly7_gen R_ops ts p0 p1 v0 v1 a0 a1 j0 j1 in
  traj_pos R_ops c 0 = Some p0 /\ traj_vel R_ops c 0 = Some v0 /\ traj_acc R_ops c 0 = Some a0 /\ traj_jer R_ops c 0 = Some j0 /\
  traj_pos R_ops c ts = Some p1 /\ traj_vel R_ops c ts = Some v1 /\ traj_acc R_ops c ts = Some a1 /\ traj_jer R_ops c ts = Some j1.
Proof. exact trajpoly7_boundary. Qed.
Print Assumptions C15_trajpoly7_boundary.

(* velocity / acceleration / jerk outputs (built from the c1/c2/c3 coefficient accessors) are the successive
   derivatives of the position polynomial, for EVERY coefficient vector and query time *)
Theorem C15_trajpoly3_derivatives : forall c0 c1 c2 c3 (x : R),
  let c := [c0; c1; c2; c3] in
  is_derive (fun t : R => the (traj_pos R_ops c t)) x (the (traj_vel R_ops c x)) /\
  is_derive (fun t : R => the (traj_vel R_ops c t)) x (the (traj_acc R_ops c x)).
Proof. exact trajpoly3_derivatives. Qed.
Print Assumptions C15_trajpoly3_derivatives.

Theorem C15_trajpoly5_derivatives : forall c0 c1 c2 c3 c4 c5 (x : R),
  let c := [c0; c1; c2; c3; c4; c5] in
  is_derive (fun t : R => the (traj_pos R_ops c t)) x (the (traj_vel R_ops c x)) /\
  is_derive (fun t : R => the (traj_vel R_ops c t)) x (the (traj_acc R_ops c x)).
Proof. exact trajpoly5_derivatives. Qed.
Print Assumptions C15_trajpoly5_derivatives.

Theorem C15_trajpoly7_derivatives : forall c0 c1 c2 c3 c4 c5 c6 c7 (x : R),
  let c := [c0; c1; c2; c3; c4; c5; c6; c7] in
  is_derive (fun t : R => the (traj_pos R_ops c t)) x (the (traj_vel R_ops c x)) /\
  is_derive (fun t : R => the (traj_vel R_ops c t)) x (the (traj_acc R_ops c x)) /\
  is_derive (fun t : R => the (traj_acc R_ops c t)) x (the (traj_jer R_ops c x)).
Proof. exact trajpoly7_derivatives. Qed.
Print Assumptions C15_trajpoly7_derivatives.

(* polynomial evaluation: for every degree and coefficient vector, a_poly_eval_ is the Horner value of
   c0 + c1 x + ... (pval, also given as an explicit sum), a_poly_evar_ is the same on the reversed vector,
   a_poly_swap_ is list reversal and hence an involution; the empty range (undefined in C) is an error of the model *)
Theorem C15_poly_eval : forall c x, c <> [] -> poly_eval R_ops c x = Some (pval c x).
Proof. exact poly_eval_spec. Qed.
Print Assumptions C15_poly_eval.

Theorem C15_pval_is_sum : forall c x,
  pval c x = fold_right Rplus 0 (map (fun i => nth i c 0 * x ^ i) (seq 0 (length c))).
Proof. exact pval_sum. Qed.
Print Assumptions C15_pval_is_sum.

Theorem C15_poly_evar : forall c x, poly_evar R_ops c x = poly_eval R_ops (rev c) x.
Proof. exact poly_evar_spec. Qed.
Print Assumptions C15_poly_evar.

Theorem C15_poly_swap : forall (T : Type) (c : list T), poly_swap c = rev c /\ poly_swap (poly_swap c) = c.
Proof. exact (fun T c => conj (poly_swap_is_rev c) (poly_swap_involutive c)). Qed.
Print Assumptions C15_poly_swap.

(* the public wrappers a_poly_eval / a_poly_evar / a_poly_swap (include/a/poly.h), for every length including 0 and 1 *)
Theorem C15_poly_wrappers : forall c x,
  poly_eval_w R_ops c x = pval c x /\ poly_evar_w R_ops c x = pval (rev c) x /\ poly_swap_w c = rev c.
Proof. exact poly_wrappers_spec. Qed.
Print Assumptions C15_poly_wrappers.
