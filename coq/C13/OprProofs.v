(* C13 proofs, part 3: the fuzzy operators of include/a/fuzzy.h and src/fuzzy.c on [0,1]^2 (instance R13_ops). *)
From Coq Require Import Reals ZArith List Lra Lia Bool.
From LibaV Require Import Common.NumOps Common.ROps C13.R13Ops C13.MfDefs.
Import ListNotations.
Local Open Scope R_scope.

Local Notation RO := R13_ops.
Local Notation sqrt := R_sqrt.sqrt.
Definition unit (a : R) : Prop := 0 <= a <= 1.

Ltac opu := unfold fuzzy_cap, fuzzy_cap_algebra, fuzzy_cap_bounded, fuzzy_cup, fuzzy_cup_algebra, fuzzy_cup_bounded,
                   fuzzy_not, c_min, c_max, unit in *; unfold13; rcases.

Lemma c_min_is_Rmin a b : c_min RO a b = Rmin a b.
Proof. unfold c_min, Rmin. unfold13. rcases; destruct (Rle_dec a b); lra. Qed.
Lemma c_max_is_Rmax a b : c_max RO a b = Rmax a b.
Proof. unfold c_max, Rmax. unfold13. rcases; destruct (Rle_dec a b); lra. Qed.

Lemma not_range a : unit a -> unit (fuzzy_not RO a).          Proof. opu; lra. Qed.
Lemma not_involutive a : fuzzy_not RO (fuzzy_not RO a) = a.   Proof. opu; lra. Qed.

(* what the property demands of an intersection (t-norm-like) operator and of a union operator *)
Definition is_cap (f : R -> R -> R) : Prop :=
  (forall a b, unit a -> unit b -> unit (f a b)) /\
  (forall a b, f a b = f b a) /\
  (forall a a' b, unit a -> unit a' -> unit b -> a <= a' -> f a b <= f a' b) /\
  (forall a b b', unit a -> unit b -> unit b' -> b <= b' -> f a b <= f a b') /\
  (forall a b, unit a -> unit b -> f a b <= Rmin a b) /\
  (forall a, unit a -> f a 1 = a /\ f 1 a = a /\ f a 0 = 0 /\ f 0 a = 0).
Definition is_cup (f : R -> R -> R) : Prop :=
  (forall a b, unit a -> unit b -> unit (f a b)) /\
  (forall a b, f a b = f b a) /\
  (forall a a' b, unit a -> unit a' -> unit b -> a <= a' -> f a b <= f a' b) /\
  (forall a b b', unit a -> unit b -> unit b' -> b <= b' -> f a b <= f a b') /\
  (forall a b, unit a -> unit b -> Rmax a b <= f a b) /\
  (forall a, unit a -> f a 0 = a /\ f 0 a = a /\ f a 1 = 1 /\ f 1 a = 1).

Ltac mm := unfold Rmin, Rmax; repeat match goal with |- context [Rle_dec ?a ?b] => destruct (Rle_dec a b) end.

Theorem cap_is_cap : is_cap (fuzzy_cap RO).
Proof. repeat split; intros; opu; mm; nra. Qed.
Theorem cap_algebra_is_cap : is_cap (fuzzy_cap_algebra RO).
Proof. repeat split; intros; opu; mm; nra. Qed.
Theorem cap_bounded_is_cap : is_cap (fuzzy_cap_bounded RO).
Proof. repeat split; intros; opu; mm; nra. Qed.
Theorem cup_is_cup : is_cup (fuzzy_cup RO).
Proof. repeat split; intros; opu; mm; nra. Qed.
Theorem cup_algebra_is_cup : is_cup (fuzzy_cup_algebra RO).
Proof. repeat split; intros; opu; mm; nra. Qed.
Theorem cup_bounded_is_cup : is_cup (fuzzy_cup_bounded RO).
Proof. repeat split; intros; opu; mm; nra. Qed.

(* De Morgan duality through the complement: each union is the dual of its intersection *)
Lemma cup_dual a b : fuzzy_cup RO a b = fuzzy_not RO (fuzzy_cap RO (fuzzy_not RO a) (fuzzy_not RO b)).
Proof. opu; lra. Qed.
Lemma cup_algebra_dual a b : fuzzy_cup_algebra RO a b = fuzzy_not RO (fuzzy_cap_algebra RO (fuzzy_not RO a) (fuzzy_not RO b)).
Proof. opu; lra. Qed.
Lemma cup_bounded_dual a b : fuzzy_cup_bounded RO a b = fuzzy_not RO (fuzzy_cap_bounded RO (fuzzy_not RO a) (fuzzy_not RO b)).
Proof. opu; lra. Qed.

(* ---------------------------------------------------------------- the equilibrium operator *)
Lemma equ_eq a b : fuzzy_equ RO a b = sqrt (a * b) * sqrt (a + b - a * b).
Proof. unfold fuzzy_equ. unfold13. f_equal. f_equal. ring. Qed.

(* both square roots have non-negative arguments on [0,1]^2 *)
Definition equ_defined (a b : R) : Prop := 0 <= a * b /\ 0 <= 1 - (1 - a) * (1 - b).
Lemma equ_defined_unit a b : unit a -> unit b -> equ_defined a b.
Proof. unfold unit, equ_defined. intros. nra. Qed.

Lemma equ_between a b : unit a -> unit b -> a * b <= fuzzy_equ RO a b <= a + b - a * b.
Proof.
  unfold unit. intros Ha Hb. rewrite equ_eq. set (q := a + b - a * b). set (p := a * b).
  assert (Hp : 0 <= p) by (unfold p; nra). assert (Hpq : p <= q) by (unfold p, q; nra).
  assert (Sp : 0 <= sqrt p) by apply sqrt_pos. assert (Sq : 0 <= sqrt q) by apply sqrt_pos.
  assert (S : sqrt p <= sqrt q) by (apply sqrt_le_1_alt; exact Hpq).
  assert (E1 : sqrt p * sqrt p = p) by (apply sqrt_sqrt; exact Hp).
  assert (E2 : sqrt q * sqrt q = q) by (apply sqrt_sqrt; lra).
  assert (sqrt p * sqrt p <= sqrt p * sqrt q) by (apply Rmult_le_compat_l; lra).
  assert (sqrt p * sqrt q <= sqrt q * sqrt q) by (apply Rmult_le_compat_r; lra).
  lra.
Qed.
Lemma equ_range a b : unit a -> unit b -> unit (fuzzy_equ RO a b).
Proof. intros Ha Hb. pose proof (equ_between a b Ha Hb). unfold unit in *. nra. Qed.
Lemma equ_comm a b : fuzzy_equ RO a b = fuzzy_equ RO b a.
Proof. rewrite !equ_eq. f_equal; f_equal; ring. Qed.
Lemma equ_monotone a a' b : unit a -> unit a' -> unit b -> a <= a' -> fuzzy_equ RO a b <= fuzzy_equ RO a' b.
Proof.
  unfold unit. intros Ha Ha' Hb H. rewrite !equ_eq.
  apply Rmult_le_compat; try apply sqrt_pos; apply sqrt_le_1_alt; nra.
Qed.
Lemma equ_le_max a b : unit a -> unit b -> fuzzy_equ RO a b <= Rmax a b.
Proof.
  unfold unit. intros Ha Hb. rewrite equ_eq.
  assert (K : forall m, 0 <= m -> a * b * (a + b - a * b) <= m * m -> sqrt (a * b) * sqrt (a + b - a * b) <= m).
  { intros m Hm Hs. rewrite <- sqrt_mult by nra. rewrite <- (sqrt_square m Hm). apply sqrt_le_1_alt. exact Hs. }
  unfold Rmax. destruct (Rle_dec a b); apply K; try lra.
  - assert (0 <= a * (b - a)) by nra. assert (0 <= a * a * (1 - b)) by nra. nra.
  - assert (0 <= b * (a - b)) by nra. assert (0 <= b * b * (1 - a)) by nra. nra.
Qed.
Lemma equ_boundary a : unit a -> fuzzy_equ RO a 0 = 0 /\ fuzzy_equ RO 0 a = 0 /\ fuzzy_equ RO 1 1 = 1.
Proof.
  intros H. rewrite !equ_eq. repeat split.
  - rewrite Rmult_0_r, sqrt_0. ring.
  - rewrite Rmult_0_l, sqrt_0. ring.
  - replace (1 * 1) with 1 by ring. replace (1 + 1 - 1) with 1 by ring. rewrite sqrt_1. ring.
Qed.
(* positive on positive degrees: the joint membership sum cannot vanish with this operator *)
Lemma equ_pos a b : 0 < a <= 1 -> 0 < b <= 1 -> 0 < fuzzy_equ RO a b.
Proof. intros Ha Hb. rewrite equ_eq. apply Rmult_lt_0_compat; apply sqrt_lt_R0; nra. Qed.

(* a_pid_fuzzy_opr: the dispatcher on the enumerator, default -> equ *)
Lemma opr_dispatch k : fuzzy_opr RO k =
  match k with 1 => fuzzy_cap RO | 2 => fuzzy_cap_algebra RO | 3 => fuzzy_cap_bounded RO
             | 4 => fuzzy_cup RO | 5 => fuzzy_cup_algebra RO | 6 => fuzzy_cup_bounded RO | _ => fuzzy_equ RO end%nat.
Proof. reflexivity. Qed.

(* all seven (nine enumerator classes) at once: values in [0,1], commutative, monotone *)
Lemma opr_cases (P : (R -> R -> R) -> Prop) :
  P (fuzzy_equ RO) -> P (fuzzy_cap RO) -> P (fuzzy_cap_algebra RO) -> P (fuzzy_cap_bounded RO) ->
  P (fuzzy_cup RO) -> P (fuzzy_cup_algebra RO) -> P (fuzzy_cup_bounded RO) -> forall k, P (fuzzy_opr RO k).
Proof. intros H0 H1 H2 H3 H4 H5 H6 k. do 7 (destruct k as [|k]; [assumption|]). exact H0. Qed.

Theorem opr_range k a b : unit a -> unit b -> unit (fuzzy_opr RO k a b).
Proof.
  revert a b. apply (opr_cases (fun f => forall a b, unit a -> unit b -> unit (f a b))).
  - apply equ_range.
  - apply cap_is_cap.
  - apply cap_algebra_is_cap.
  - apply cap_bounded_is_cap.
  - apply cup_is_cup.
  - apply cup_algebra_is_cup.
  - apply cup_bounded_is_cup.
Qed.
Theorem opr_comm k a b : fuzzy_opr RO k a b = fuzzy_opr RO k b a.
Proof.
  revert a b. apply (opr_cases (fun f => forall a b, f a b = f b a)).
  - apply equ_comm.
  - apply cap_is_cap.
  - apply cap_algebra_is_cap.
  - apply cap_bounded_is_cap.
  - apply cup_is_cup.
  - apply cup_algebra_is_cup.
  - apply cup_bounded_is_cup.
Qed.
Theorem opr_monotone k a a' b : unit a -> unit a' -> unit b -> a <= a' -> fuzzy_opr RO k a b <= fuzzy_opr RO k a' b.
Proof.
  revert a a' b. apply (opr_cases (fun f => forall a a' b, unit a -> unit a' -> unit b -> a <= a' -> f a b <= f a' b)).
  - apply equ_monotone.
  - apply cap_is_cap.
  - apply cap_algebra_is_cap.
  - apply cap_bounded_is_cap.
  - apply cup_is_cup.
  - apply cup_algebra_is_cup.
  - apply cup_bounded_is_cup.
Qed.

(* weights used by the controller: positive memberships give a non-negative weight, and a POSITIVE one for every operator
   except the bounded product (k = 3), whose weight is 0 exactly when a + b <= 1 *)
Theorem opr_weight_nonneg k a b : 0 < a <= 1 -> 0 < b <= 1 -> 0 <= fuzzy_opr RO k a b.
Proof. intros Ha Hb. apply (opr_range k a b); unfold unit; lra. Qed.
Theorem opr_weight_pos k a b : k <> 3%nat -> 0 < a <= 1 -> 0 < b <= 1 -> 0 < fuzzy_opr RO k a b.
Proof.
  intros Hk Ha Hb.
  destruct k as [|k]; [apply equ_pos; assumption|].
  destruct k as [|k]; [cbn [fuzzy_opr]; opu; lra|].
  destruct k as [|k]; [cbn [fuzzy_opr]; opu; nra|].
  destruct k as [|k]; [congruence|].
  destruct k as [|k]; [cbn [fuzzy_opr]; opu; lra|].
  destruct k as [|k]; [cbn [fuzzy_opr]; opu; assert (0 <= b * (1 - a)) by nra; lra|].
  destruct k as [|k]; [cbn [fuzzy_opr]; opu; lra|].
  apply equ_pos; assumption.
Qed.
Theorem cap_bounded_zero_iff a b : fuzzy_cap_bounded RO a b = 0 <-> a + b <= 1.
Proof. opu; split; intros; lra. Qed.
