(* Lemmas about the hand model C13/FuzzyDefs.v used by the all-lengths translator tie (harness/C13/TieLoop*.v): what the table
   walker mf_walk leaves in the index block (only the cells it appends change, and they hold set numbers below i + n), and that
   the joint-membership row leaves the index block alone.  They give the bound the generated code's overflow check on
   `ctx->idx[i] *= ctx->nrule` needs.  Nothing here mentions generated code; every statement is for every NumOps instance. *)
From Coq Require Import ZArith List Bool Arith Lia.
From LibaV Require Import Common.NumOps C12.PidDefs C13.MfDefs C13.FuzzyDefs.
Import ListNotations.

Lemma nth_firstn_lt {A} (l : list A) : forall k j, j < k -> nth_error (firstn k l) j = nth_error l j.
Proof.
  induction l as [|h t IH]; intros k j H.
  - rewrite firstn_nil. reflexivity.
  - destruct k as [|k]; [lia|]. destruct j as [|j]; [reflexivity|]. cbn [firstn nth_error]. apply IH. lia.
Qed.
Lemma nth_skipn_add {A} (l : list A) : forall k j, nth_error (skipn k l) j = nth_error l (k + j).
Proof.
  induction l as [|h t IH]; intros k j.
  - rewrite skipn_nil. destruct j, k; reflexivity.
  - destruct k as [|k]; [reflexivity|]. cbn [skipn Nat.add nth_error]. apply IH.
Qed.

Lemma upd_spec {A} (k : nat) (v : A) (l l' : list A) :
  FuzzyDefs.upd k v l = Some l' -> k < length l /\ l' = firstn k l ++ v :: skipn (S k) l.
Proof.
  unfold FuzzyDefs.upd. destruct (Nat.ltb k (length l)) eqn:E; [|discriminate]. apply Nat.ltb_lt in E.
  intros H. split; [exact E|]. congruence.
Qed.

Lemma upd_nth_same {A} (k : nat) (v : A) (l l' : list A) : FuzzyDefs.upd k v l = Some l' -> nth_error l' k = Some v.
Proof.
  intros H. destruct (upd_spec _ _ _ _ H) as [Hk ->].
  rewrite nth_error_app2 by (rewrite firstn_length; lia). rewrite firstn_length. replace (k - Nat.min k (length l)) with 0 by lia. reflexivity.
Qed.

Lemma upd_nth_other {A} (k : nat) (v : A) (l l' : list A) (j : nat) : FuzzyDefs.upd k v l = Some l' -> j <> k -> nth_error l' j = nth_error l j.
Proof.
  intros H Hj. destruct (upd_spec _ _ _ _ H) as [Hk ->].
  destruct (Nat.lt_ge_cases j k) as [Hlt|Hge].
  - rewrite nth_error_app1 by (rewrite firstn_length; lia). rewrite nth_firstn_lt by exact Hlt. reflexivity.
  - rewrite nth_error_app2 by (rewrite firstn_length; lia). rewrite firstn_length.
    replace (j - Nat.min k (length l)) with (S (j - S k)) by lia.
    change (nth_error (v :: skipn (S k) l) (S (j - S k))) with (nth_error (skipn (S k) l) (j - S k)).
    rewrite nth_skipn_add. replace (S k + (j - S k)) with j by lia. reflexivity.
Qed.

Section Frame.
  Context {T : Type} (O : NumOps T).

  (* the walker appends: cells below p + counter and from p + c' on keep their content, the new cells hold set numbers in [i, i + k) *)
  Lemma walk_frame (x : T) (p : nat) : forall k i a sc counter sc' c',
    mf_walk O k i x a p sc counter = Ok (sc', c') ->
    counter <= c' /\
    (forall j, j < p + counter \/ p + c' <= j -> nth_error (sidx sc') j = nth_error (sidx sc) j) /\
    (forall j v, p + counter <= j < p + c' -> nth_error (sidx sc') j = Some v -> i <= v < i + k).
  Proof.
    induction k as [|k IH]; intros i a sc counter sc' c' H; cbn [mf_walk] in H.
    - injection H as <- <-. split; [lia|split; [intros; reflexivity | intros j v Hj; lia]].
    - destruct a as [|v0 a1]; [discriminate H|].
      destruct (Nat.eqb (tag_of O v0) 0).
      { injection H as <- <-. split; [lia|split; [intros; reflexivity | intros j v Hj; lia]]. }
      destruct (take (mf_arity (tag_of O v0)) a1) as [[ps a2]|]; [|discriminate H].
      destruct (mf O (tag_of O v0) x ps) as [y|]; [|discriminate H].
      destruct (gtb O y (eps O)).
      + unfold FuzzyDefs.bind, wr_idx, wr_val, of_opt, option_map in H.
        destruct (FuzzyDefs.upd (p + counter) i (sidx sc)) as [l1|] eqn:E1; [|discriminate H]. cbn [sidx sval] in H.
        destruct (FuzzyDefs.upd (p + counter) y (sval sc)) as [l2|] eqn:E2; [|discriminate H]. cbn [sidx sval] in H.
        destruct (IH _ _ _ _ _ _ H) as (Hc & Hout & Hin). cbn [sidx] in *.
        split; [lia|]. split.
        * intros j Hj. rewrite Hout by lia. apply (upd_nth_other _ _ _ _ j E1). lia.
        * intros j v Hj Hv. destruct (Nat.eq_dec j (p + counter)) as [->|Hne].
          -- rewrite Hout in Hv by lia. rewrite (upd_nth_same _ _ _ _ E1) in Hv. injection Hv as <-. lia.
          -- assert (Hr : S i <= v < S i + k) by (apply (Hin j v); [lia|exact Hv]). lia.
      + destruct (IH _ _ _ _ _ _ H) as (Hc & Hout & Hin).
        split; [exact Hc|]. split; [exact Hout|].
        intros j v Hj Hv. assert (Hr : S i <= v < S i + k) by (apply (Hin j v); assumption). lia.
  Qed.

  (* it records at most one set per table entry *)
  Lemma walk_count (x : T) (p : nat) : forall k i a sc counter sc' c',
    mf_walk O k i x a p sc counter = Ok (sc', c') -> c' <= counter + k.
  Proof.
    induction k as [|k IH]; intros i a sc counter sc' c' H; cbn [mf_walk] in H.
    - injection H as _ <-. lia.
    - destruct a as [|v0 a1]; [discriminate H|].
      destruct (Nat.eqb (tag_of O v0) 0); [injection H as _ <-; lia|].
      destruct (take (mf_arity (tag_of O v0)) a1) as [[ps a2]|]; [|discriminate H].
      destruct (mf O (tag_of O v0) x ps) as [y|]; [|discriminate H].
      destruct (gtb O y (eps O)).
      + unfold FuzzyDefs.bind, wr_idx, wr_val, of_opt, option_map in H.
        destruct (FuzzyDefs.upd (p + counter) i (sidx sc)) as [l1|]; [|discriminate H]. cbn [sidx sval] in H.
        destruct (FuzzyDefs.upd (p + counter) y (sval sc)) as [l2|]; [|discriminate H].
        pose proof (IH _ _ _ _ _ _ H). lia.
      + pose proof (IH _ _ _ _ _ _ H). lia.
  Qed.

  (* the joint-membership row writes values only *)
  Lemma joint_row_sidx (f : T -> T -> T) (ne i nec mat : nat) : forall fuel ii c inv it c' inv' it',
    joint_row O f ne i nec ii mat (c, inv, it) fuel = Ok (c', inv', it') -> sidx c' = sidx c.
  Proof.
    induction fuel as [|fuel IH]; intros ii c inv it c' inv' it' H; cbn [joint_row] in H.
    - injection H as <- _ _. reflexivity.
    - unfold FuzzyDefs.bind, rd_val, wr_val, of_opt, option_map in H.
      destruct (rd i (sval c)) as [a|]; [|discriminate H].
      destruct (rd (ne + ii) (sval c)) as [b|]; [|discriminate H].
      destruct (FuzzyDefs.upd (mat + it) (f a b) (sval c)) as [l|]; [|discriminate H].
      rewrite (IH _ _ _ _ _ _ _ H). reflexivity.
  Qed.
End Frame.
