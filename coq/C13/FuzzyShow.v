(* C13: printing helpers for the bit-exact correspondence run (binary64 instance only; part of the model DRIVER, no
   theorem depends on this file).  One list of floats per case, in the order harness/C13/drv.c prints them. *)
From Coq Require Import ZArith Floats List.
From LibaV Require Import Common.NumOps Common.FloatOps C12.PidDefs C13.MfDefs C13.FuzzyDefs.
Import ListNotations.
Local Open Scope float_scope.

Definition fnat (n : nat) : float := f_ofZ (Z.of_nat n).

Definition show_state (s : fuzzy (T := float)) : list float :=
  let p := fpid s in
  [out p; kp p; ki p; kd p; sum p; out p; var p; fdb p; err p] ++ map fnat (sidx (sc s)) ++ sval (sc s).

Fixpoint show_hist (l : list (res (fuzzy (T := float)))) : list float :=
  match l with
  | [] => []
  | Ok s :: tl => show_state s ++ show_hist tl
  | Fail _ :: _ => [neg_infinity]
  end.

(* layout items printed by the `fz` command before the steps *)
Definition show_layout (n : nat) : list float := [fnat (val_offset n); fnat (bfuzz_bytes n); 0; fnat n].

(* a_pid_fuzzy_init + set_rule + set_kpid + set_opr + set_bfuzz on a block pre-filled with 99 / 777 *)
Definition fz_init (nrule nfuzz opr : nat) (mkp mki mkd : option (list float)) (me mec : list float)
  (kp ki kd summax summin outmax outmin : float) : fuzzy :=
  {| fpid := {| PidDefs.kp := kp; PidDefs.ki := ki; PidDefs.kd := kd; summax := summax; summin := summin; sum := 0;
                outmax := outmax; outmin := outmin; out := 0; var := 0; fdb := 0; err := 0 |};
     me := me; mec := mec; mkp := mkp; mki := mki; mkd := mkd; FuzzyDefs.opr := opr;
     bkp := kp; bki := ki; bkd := kd; nrule := nrule; nfuzz := nfuzz; sc := mk_scratch nfuzz 99 0x1.848p+9 |}.

Definition fz_case (split : bool) (s : fuzzy) (ops : list (fop (T := float))) : list float :=
  (if split then [] else show_layout (nfuzz s)) ++ show_hist (fhist F64_ops s ops).

(* wk: a_pid_fuzzy_mf on its own with 16-cell arrays *)
Definition wk_case (n : nat) (x : float) (tab : list float) : list float :=
  match mf_walk F64_ops n 0 x tab 0 {| sidx := repeat 0%nat 16; sval := repeat 0 16 |} 0 with
  | Ok (c, cnt) => fnat cnt :: map fnat (firstn cnt (sidx c)) ++ firstn cnt (sval c)
  | Fail _ => [neg_infinity]
  end.

Definition op_case (a b g : float) : list float :=
  [fuzzy_not F64_ops a; fuzzy_cap F64_ops a b; fuzzy_cap_algebra F64_ops a b; fuzzy_cap_bounded F64_ops a b;
   fuzzy_cup F64_ops a b; fuzzy_cup_algebra F64_ops a b; fuzzy_cup_bounded F64_ops a b; fuzzy_equ F64_ops a b;
   fuzzy_equ_ F64_ops g a b] ++ map (fun k => fuzzy_opr F64_ops k a b) (seq 0 8).
