(* C13: the real-number instance used by the C13 theorems.  It is Common/ROps.R_ops except for `pow`:
   R_ops maps Pow to Rpower x y = exp (y * ln x), which is the power function only for a positive base (Coq's ln is 0
   on non-positive arguments, so Rpower 0 y = 1 and Rpower (-3) 2 = 1).  src/mf.c raises (x-c)/sigma - any sign - to the
   literal power 2 and |(x-c)/a| - possibly 0 - to the power 2b.  Rpow below is the real function that C's pow
   approximates on the part of its domain where the result is a real number:
       x > 0            : Rpower x y
       x = 0, y > 0     : 0          x = 0, y = 0 : 1          (x = 0, y < 0 : pole, totalised to 0, excluded by pow_defined)
       x < 0, y integer : powerRZ x y                          (x < 0, y not an integer : NaN in C, totalised to 0, excluded)
   This definition is part of the trusted base of the C13 theorems (it states what `pow` means over R). *)
From Coq Require Import Reals ZArith Lra Lia Bool.
From LibaV Require Import Common.NumOps Common.ROps.
Local Open Scope R_scope.

Definition is_int (y : R) : Prop := y = IZR (Int_part y).

Definition Rpow (x y : R) : R :=
  if Rlt_dec 0 x then Rpower x y
  else if Req_EM_T x 0 then (if Rlt_dec 0 y then 0 else if Req_EM_T y 0 then 1 else 0)
  else if Req_EM_T y (IZR (Int_part y)) then powerRZ x (Int_part y) else 0.

Definition pow_defined (x y : R) : Prop := 0 < x \/ (x = 0 /\ 0 <= y) \/ (x < 0 /\ is_int y).

Definition R13_fn2 (f : lib2) (x y : R) : R := match f with Pow => Rpow x y | _ => R_fn2 f x y end.

Definition R13_ops : NumOps R := {|
  zero := 0; one := 1;
  add := Rplus; sub := Rminus; mul := Rmult; div := Rdiv;
  opp := Ropp; abs := Rabs; sqrt := R_sqrt.sqrt;
  ltb := Rltb; leb := Rleb; eqb := Reqb;
  ofZ := IZR;
  ofD := fun m e => IZR m * powerRZ 2 e;
  fn1 := R_fn1; fn2 := R13_fn2
|}.

Ltac unfold13 :=
  cbn [zero one add sub mul div opp abs sqrt ltb leb eqb ofZ ofD fn1 fn2 R13_ops R13_fn2 R_fn1 gtb geb neb] in *;
  unfold gtb, geb, neb in *;
  cbn [zero one add sub mul div opp abs sqrt ltb leb eqb ofZ ofD fn1 fn2 R13_ops R13_fn2 R_fn1] in *.

Lemma Int_part_IZR z : Int_part (IZR z) = z.
Proof.
  pose proof (base_Int_part (IZR z)) as [H1 H2].
  assert (A : (Int_part (IZR z) <= z)%Z) by (apply le_IZR; exact H1).
  assert (B : (z - 1 < Int_part (IZR z))%Z).
  { apply lt_IZR. rewrite minus_IZR. lra. }
  lia.
Qed.

Lemma is_int_IZR z : is_int (IZR z).
Proof. unfold is_int. rewrite Int_part_IZR. reflexivity. Qed.

(* the only exponent literal in mf.c *)
Lemma Rpow_2 x : Rpow x 2 = x * x.
Proof.
  unfold Rpow. destruct (Rlt_dec 0 x) as [Hx|Hx].
  - replace 2 with (INR 2) by (simpl; lra). rewrite Rpower_pow by exact Hx. simpl. ring.
  - destruct (Req_EM_T x 0) as [E|E].
    + subst x. destruct (Rlt_dec 0 2); [ring|lra].
    + destruct (Req_EM_T 2 (IZR (Int_part 2))) as [I|I].
      * rewrite Int_part_IZR. simpl. ring.
      * exfalso. apply I. rewrite Int_part_IZR. reflexivity.
Qed.

Lemma pow_defined_2 x : pow_defined x 2.
Proof.
  unfold pow_defined. destruct (Rtotal_order 0 x) as [H|[H|H]]; [left; exact H|right; left; split; [symmetry; exact H|lra]|].
  right; right. split; [exact H|apply is_int_IZR].
Qed.

Lemma Rpow_pos x y : 0 < x -> Rpow x y = Rpower x y.
Proof. intros H. unfold Rpow. destruct (Rlt_dec 0 x); [reflexivity|contradiction]. Qed.

Lemma Rpow_0 y : 0 < y -> Rpow 0 y = 0.
Proof.
  intros H. unfold Rpow. destruct (Rlt_dec 0 0); [lra|]. destruct (Req_EM_T 0 0); [|lra].
  destruct (Rlt_dec 0 y); [reflexivity|contradiction].
Qed.

Lemma Rpow_0_0 : Rpow 0 0 = 1.
Proof.
  unfold Rpow. destruct (Rlt_dec 0 0); [lra|]. destruct (Req_EM_T 0 0); [|lra].
  destruct (Rlt_dec 0 0); [lra|]. destruct (Req_EM_T 0 0); [reflexivity|lra].
Qed.

Lemma Rpow_x_0 x : Rpow x 0 = 1.
Proof.
  unfold Rpow. destruct (Rlt_dec 0 x) as [H|H]; [apply Rpower_O; exact H|].
  destruct (Req_EM_T x 0).
  - destruct (Rlt_dec 0 0); [lra|]. destruct (Req_EM_T 0 0); [reflexivity|lra].
  - destruct (Req_EM_T 0 (IZR (Int_part 0))) as [I|I]; [rewrite Int_part_IZR; reflexivity|].
    exfalso. apply I. rewrite Int_part_IZR. reflexivity.
Qed.

Lemma Rpower_pos x y : 0 < Rpower x y.
Proof. unfold Rpower. apply exp_pos. Qed.

Lemma Rpow_nonneg x y : 0 <= x -> 0 <= Rpow x y.
Proof.
  intros H. unfold Rpow. destruct (Rlt_dec 0 x); [left; apply Rpower_pos|].
  destruct (Req_EM_T x 0); [|lra]. destruct (Rlt_dec 0 y); [lra|]. destruct (Req_EM_T y 0); lra.
Qed.

(* monotone in a non-negative base for a positive exponent *)
Lemma Rpow_le_base x x' y : 0 < y -> 0 <= x <= x' -> Rpow x y <= Rpow x' y.
Proof.
  intros Hy [H0 H1]. destruct (Req_EM_T x 0) as [E|E].
  - subst x. rewrite Rpow_0 by exact Hy. apply Rpow_nonneg. lra.
  - rewrite !Rpow_pos by lra. apply Rle_Rpower_l; lra.
Qed.

Lemma Rpow_1_l y : Rpow 1 y = 1.
Proof. rewrite Rpow_pos by lra. unfold Rpower. rewrite ln_1, Rmult_0_r. apply exp_0. Qed.

Lemma Rpow_x_1 x : 0 <= x -> Rpow x 1 = x.
Proof.
  intros H. destruct (Req_EM_T x 0) as [E|E]; [subst; apply Rpow_0; lra|].
  rewrite Rpow_pos by lra. apply Rpower_1. lra.
Qed.

(* A_REAL_EPSILON > 0 *)
Lemma eps_R : ofD R13_ops 1 (-52) = / 2 ^ 52.
Proof. unfold13. rewrite Rmult_1_l. reflexivity. Qed.
Lemma eps_pos : 0 < ofD R13_ops 1 (-52).
Proof. rewrite eps_R. apply Rinv_0_lt_compat. apply pow_lt. lra. Qed.
