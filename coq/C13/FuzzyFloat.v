(* C12 / C13 on the PRIMITIVE-FLOAT run: the fuzzy-tuned controller's output goes through the same clamp as the plain one, so
   for finite output limits outmin <= outmax, ANY controller state, rule base, operator, set-point and feedback (NaN and the
   infinities included), every a_pid_fuzzy_run / pos / inc step that the model completes stores a finite output within the
   limits.  FuzzyLimits.fuzzy_out_shape (a successful a_pid_fuzzy_out_ changes the gains and the scratch block only) is
   generic in the NumOps instance; the clamp is C12/PidFloat.f64_sat_in_limits. *)
From Coq Require Import Reals ZArith List Lra Floats Bool.
From LibaV Require Import Common.NumOps Common.ROps Common.RoundOps Common.RoundFlocq Common.FloatOps Common.F64Refine
                          C12.PidDefs C12.PidFloat C13.MfDefs C13.FuzzyDefs C13.FuzzyLimits.
Import ListNotations.
Local Open Scope R_scope.

Local Notation pfloat := Floats.PrimFloat.float.

Definition is_control_step_f (o : fop (T := pfloat)) : Prop := match o with FZero => False | _ => True end.

Theorem f64_fstep_out_in_limits (s s' : fuzzy (T := pfloat)) (o : fop) :
  lim_ok (fpid s) -> is_control_step_f o -> fstep F64_ops s o = Ok s' ->
  out_ok (fpid s') /\ lim_ok (fpid s').
Proof.
  intros (Fl & Fh & L) C H. destruct o as [a f|a f|a f|]; [| | |destruct C]; cbn [fstep] in H;
    unfold fuzzy_run, fuzzy_pos, fuzzy_inc, fuzzy_out_ in H;
    apply bind_ok in H; destruct H as (s1 & H1 & H); apply fuzzy_out_shape in H1; destruct H1 as (c & kp & ki & kd & ->);
    inversion H; unfold out_ok, lim_ok; cbn; (split; [apply f64_sat_in_limits; assumption|repeat split; assumption]).
Qed.
