(* C13: non-vacuity.  A concrete controller (two triangular sets per input, a 2 x 2 rule base, a scratch block of
   A_PID_FUZZY_BFUZZ(2) bytes) satisfies every hypothesis of the gain-scheduling theorems, its gains are computed in
   closed form, and the same state under the bounded product is the input on which the code AS FOUND divided by a zero
   joint membership sum: the binary64 instance of the unrepaired a_pid_fuzzy_out_ stores NaN gains there, the repaired
   one stores the base gains.  Small satisfiability examples for the membership-function preconditions follow. *)
From Coq Require Import Reals ZArith List Lra Lia Bool Arith Floats.
From LibaV Require Import Common.NumOps Common.ROps Common.FloatOps C12.PidDefs C13.R13Ops C13.MfDefs C13.FuzzyDefs
  C13.FuzzyLimits C13.MfProofs C13.OprProofs C13.FuzzyProofs C13.FuzzyGains.
Import ListNotations.
Local Open Scope R_scope.

Local Notation RO := R13_ops.

(* deciding comparisons between concrete reals *)
Lemma Rltb_t a b : a < b -> Rltb a b = true.  Proof. intros. destruct (Rltb_spec a b); [reflexivity|lra]. Qed.
Lemma Rltb_f a b : ~ a < b -> Rltb a b = false.  Proof. intros. destruct (Rltb_spec a b); [contradiction|reflexivity]. Qed.
Lemma Rleb_t a b : a <= b -> Rleb a b = true.  Proof. intros. destruct (Rleb_spec a b); [reflexivity|lra]. Qed.
Lemma Rleb_f a b : ~ a <= b -> Rleb a b = false.  Proof. intros. destruct (Rleb_spec a b); [contradiction|reflexivity]. Qed.
Ltac rdec := repeat match goal with
  | |- context [Rltb ?a ?b] => first [rewrite (Rltb_t a b) by lra | rewrite (Rltb_f a b) by lra]
  | |- context [Rleb ?a ?b] => first [rewrite (Rleb_t a b) by lra | rewrite (Rleb_f a b) by lra] end.

Lemma eps_small : 0 < eps RO < / 4.
Proof.
  unfold eps. split; [apply eps_pos|]. rewrite eps_R. replace 4 with (2 ^ 2) by (simpl; lra).
  apply Rinv_lt_contravar; [apply Rmult_lt_0_compat; apply pow_lt; lra|]. apply Rlt_pow; [lra|lia].
Qed.

Lemma tag8 : tag_of RO 8 = 8%nat.
Proof. unfold tag_of. cbn [tag_scan]. unfold13. simpl Z.of_nat. simpl Z.add. rdec. reflexivity. Qed.

(* one triangular set of a table *)
Lemma walk_tri_step n i x a b c rest :
  walk_spec (S n) i x (8 :: a :: b :: c :: rest) =
  match walk_spec n (S i) x rest with
  | None => None
  | Some l => Some (if Rltb (eps RO) (mf_tri RO x a b c) then (i, mf_tri RO x a b c) :: l else l)
  end.
Proof. cbn [walk_spec]. rewrite tag8. reflexivity. Qed.

(* ------------------------------------------------------------------------------------------------ the controller *)
Section State.
  Context {T : Type} (O : NumOps T).
  Definition ex_tab : list T := map (ofZ O) [8; -1; 0; 1;  8; 0; 1; 2]%Z.
  Definition ex_pid : pid (T := T) :=
    {| kp := ofZ O 10; ki := ofZ O 1; kd := ofZ O 0; summax := ofZ O 10; summin := ofZ O (-10); sum := ofZ O 0;
       outmax := ofZ O 10; outmin := ofZ O (-10); out := ofZ O 0; var := ofZ O 0; fdb := ofZ O 0; err := ofZ O 0 |}.
  (* a_pid_fuzzy_init; set_rule(2, tab, tab, mkp, mki, NULL); set_kpid(10, 1, 0); set_opr(k); set_bfuzz(block, 2) *)
  Definition ex_state (k : nat) : fuzzy (T := T) :=
    {| fpid := ex_pid; me := ex_tab; mec := ex_tab;
       mkp := Some (map (ofZ O) [1; 2; 3; 4]%Z); mki := Some (map (ofZ O) [0; 0; 0; 1]%Z); mkd := None;
       opr := k; bkp := ofZ O 10; bki := ofZ O 1; bkd := ofZ O 0; nrule := 2; nfuzz := 2;
       sc := mk_scratch 2 0 (ofZ O 0) |}.
  Definition half : T := ofD O 1 (-1).
End State.

Lemma half_R : half RO = / 2.
Proof. unfold half. unfold13. simpl. field. Qed.

Lemma tri_half_lo : mf_tri RO (/ 2) (-1) 0 1 = / 2.
Proof. unfold mf_tri. unfold13. rdec. field. Qed.
Lemma tri_half_hi : mf_tri RO (/ 2) 0 1 2 = / 2.
Proof. unfold mf_tri. unfold13. rdec. field. Qed.

(* both sets are active at 1/2, each to the degree 1/2 *)
Lemma ex_walk : walk_spec 2 0 (/ 2) (ex_tab RO) = Some [(0%nat, / 2); (1%nat, / 2)].
Proof.
  unfold ex_tab. cbn [map ofZ R13_ops]. rewrite !walk_tri_step. cbn [walk_spec]. rewrite tri_half_lo, tri_half_hi.
  pose proof eps_small. rdec. reflexivity.
Qed.

Lemma ex_sized k : sized (ex_state RO k).
Proof. split; reflexivity. Qed.
Lemma ex_rules k : rules_ok (ex_state RO k).
Proof. repeat split; cbn; intros m H; inversion H; reflexivity. Qed.
Lemma ex_table : table_ok 2 (ex_tab RO).
Proof.
  apply no_dsig_ok. unfold ex_tab. cbn [map ofZ R13_ops no_dsig]. rewrite tag8.
  cbn [Nat.eqb mf_arity take length Nat.ltb Nat.leb firstn skipn no_dsig]. rewrite tag8.
  cbn [Nat.eqb mf_arity take length Nat.ltb Nat.leb firstn skipn no_dsig]. repeat split; discriminate.
Qed.

(* every hypothesis of fuzzy_out_spec / fstep_spec holds of this state, for every operator *)
Example ex_hypotheses k :
  let s := ex_state RO k in
  sized s /\ rules_ok s /\ table_ok (nrule s) (me s) /\ table_ok (nrule s) (mec s) /\
  walk_spec (nrule s) 0 (/ 2) (me s) = Some [(0%nat, / 2); (1%nat, / 2)] /\
  walk_spec (nrule s) 0 (/ 2) (mec s) = Some [(0%nat, / 2); (1%nat, / 2)] /\
  (2 <= nfuzz s)%nat /\ outmin (fpid s) <= outmax (fpid s).
Proof.
  cbn zeta. split; [apply ex_sized|]. split; [apply ex_rules|]. split; [exact ex_table|]. split; [exact ex_table|].
  split; [exact ex_walk|]. split; [exact ex_walk|]. split; [cbn; lia|]. cbn. lra.
Qed.

Definition ex_act : list (nat * R) := [(0%nat, / 2); (1%nat, / 2)].

(* algebraic product: all four rules fire with weight 1/4; kp = 10 + (1 + 2 + 3 + 4) / 4, ki = 1 + 1 / 4, kd = base *)
Example ex_algebra_fires : fires (ex_state RO 2) ex_act ex_act.
Proof.
  split; [discriminate|]. split; [discriminate|]. unfold jsum, jw, wmat, wrow, ex_act. cbn. unfold13. lra.
Qed.
Example ex_algebra_gains : exists s',
  fuzzy_out_ RO (ex_state RO 2) (/ 2) (/ 2) = Ok s' /\ sized s' /\
  kp (fpid s') = 25 / 2 /\ ki (fpid s') = 5 / 4 /\ kd (fpid s') = 0.
Proof.
  destruct (fuzzy_out_gains (ex_state RO 2) (/ 2) (/ 2) ex_act ex_act (ex_sized 2) (ex_rules 2) ex_walk ex_walk)
    as (s' & E & Sz & _ & Kp & Ki & Kd & _); [cbn; lia|cbn; lia|].
  exists s'. split; [exact E|]. split; [exact Sz|]. rewrite Kp, Ki, Kd.
  unfold gsel, firesb, goff, jsum, jw, jcons, wmat, wrow, cmat, dotacc, ex_act. cbn. unfold13. rdec. cbn.
  repeat split; field.
Qed.

(* bounded product: 1/2 + 1/2 - 1 = 0 for every pair - the joint membership sum is 0, no rule fires, and the repaired
   a_pid_fuzzy_out_ keeps the base gains without dividing *)
Example ex_bounded_sum_zero : ex_act <> [] /\ unit_vals ex_act /\ jsum (ex_state RO 3) ex_act ex_act = 0 /\
  ~ fires (ex_state RO 3) ex_act ex_act.
Proof.
  assert (Z : jsum (ex_state RO 3) ex_act ex_act = 0).
  { unfold jsum, jw, wmat, wrow, ex_act. cbn. unfold fuzzy_cap_bounded, c_max. unfold13. rdec. lra. }
  split; [discriminate|]. split; [repeat constructor; cbn; lra|]. split; [exact Z|]. intros (_ & _ & P). lra.
Qed.
Example ex_bounded_gains : exists s',
  fuzzy_out_ RO (ex_state RO 3) (/ 2) (/ 2) = Ok s' /\ kp (fpid s') = 10 /\ ki (fpid s') = 1 /\ kd (fpid s') = 0.
Proof.
  destruct (fuzzy_out_spec (ex_state RO 3) (/ 2) (/ 2) ex_act ex_act (ex_sized 3) (ex_rules 3) ex_table ex_table ex_walk ex_walk)
    as (s' & E & _ & _ & Kp & Ki & Kd & _); [cbn; lia|cbn; lia|].
  exists s'. split; [exact E|]. destruct ex_bounded_sum_zero as (_ & _ & _ & NF).
  destruct Kp as [[F _]|[_ Kp]]; [contradiction|]. destruct Ki as [[F _]|[_ Ki]]; [contradiction|].
  destruct Kd as [[F _]|[_ Kd]]; [contradiction|]. rewrite Kp, Ki, Kd. cbn. repeat split.
Qed.

(* the whole step a_pid_fuzzy_pos(ctx, 1/2, 0) on this state *)
Example ex_step : exists s', fstep RO (ex_state RO 2) (FPos (/ 2) 0) = Ok s' /\ sized s' /\ -10 <= out (fpid s') <= 10.
Proof.
  pose proof (fstep_spec (ex_state RO 2) (FPos (/ 2) 0) (ex_sized 2) (ex_rules 2) ex_table ex_table) as H.
  cbn [step_inputs] in H. specialize (H ltac:(cbn; lra) ex_act ex_act).
  replace (/ 2 - 0 - err (fpid (ex_state RO 2))) with (/ 2) in H by (cbn; lra). replace (/ 2 - 0) with (/ 2) in H by lra.
  destruct (H ex_walk ex_walk ltac:(cbn; lia) ltac:(cbn; lia)) as (s' & E & Sz & _ & _ & _ & _ & L).
  exists s'. split; [exact E|]. split; [exact Sz|]. cbn in L. exact L.
Qed.

(* ------------------------------------------------------------------------------------------------ binary64 *)
Local Open Scope float_scope.
Definition kp_of (r : res (fuzzy (T := float))) : float := match r with Ok s => kp (fpid s) | Fail _ => 0 end.

(* AS FOUND (fuzzy_out_orig = no guard): inv = 1/0 = inf, kp = 0 * inf = NaN is stored as the proportional gain *)
Example orig_out_refuted :
  is_nan (kp_of (fuzzy_out_orig F64_ops (ex_state F64_ops 3) (half F64_ops) (half F64_ops))) = true.
Proof. vm_compute. reflexivity. Qed.
(* REPAIRED: the base gain *)
Example fixed_out_base :
  PrimFloat.eqb (kp_of (fuzzy_out_ F64_ops (ex_state F64_ops 3) (half F64_ops) (half F64_ops))) 10 = true.
Proof. vm_compute. reflexivity. Qed.
(* a block sized for ONE active set per input while two are active: the second walk leaves idx[2]: the model reports
   the overrun instead of silently succeeding (the C code writes outside the block; the correspondence run compares
   such cases under AddressSanitizer on exact-size heap blocks) *)
Example overrun_detected :
  match fuzzy_out_ F64_ops (set_bfuzz (ex_state F64_ops 2) 1 0 0) (half F64_ops) (half F64_ops) with
  | Fail ErrScratch => true | _ => false end = true.
Proof. vm_compute. reflexivity. Qed.
Local Close Scope float_scope.

(* ------------------------------------------------------------------------------------------------ membership functions *)
(* the ordering preconditions are satisfiable, the functions are not constant, the as-found defects are real *)
Example ex_trap_shape :
  mf_trap RO 0 1 2 3 4 = 0 /\ mf_trap RO (3 / 2) 1 2 3 4 = / 2 /\ mf_trap RO (5 / 2) 1 2 3 4 = 1 /\
  mf_trap RO (7 / 2) 1 2 3 4 = / 2 /\ mf_trap RO 5 1 2 3 4 = 0.
Proof. unfold mf_trap. unfold13. repeat split; rdec; try reflexivity; field. Qed.
Example ex_s_shape : mf_s RO 1 1 3 = 0 /\ mf_s RO 2 1 3 = / 2 /\ mf_s RO 3 1 3 = 1 /\ mf_z RO 2 1 3 = / 2.
Proof. unfold mf_s, mf_z, rpow. unfold13. rewrite ?Rpow_2. repeat split; rdec; try reflexivity; field. Qed.
Example ex_degenerate_shoulders :
  mf_lins RO 1 1 1 = 1 /\ mf_linz RO 1 1 1 = 0 /\ mf_tri RO 2 1 2 2 = 1 /\ mf_trap RO 1 1 1 1 1 = 1.
Proof. unfold mf_lins, mf_linz, mf_tri, mf_trap. unfold13. repeat split; rdec; reflexivity. Qed.
Example ex_dsig_precondition : dsig_ok [2; 0; 2; 1].
Proof. exists 2, 0, 1, []. split; [reflexivity|]. left. lra. Qed.
Example ex_operators_distinct :
  fuzzy_cap RO (/ 2) (/ 2) = / 2 /\ fuzzy_cap_algebra RO (/ 2) (/ 2) = / 4 /\ fuzzy_cap_bounded RO (/ 2) (/ 2) = 0 /\
  fuzzy_cup RO (/ 2) (/ 2) = / 2 /\ fuzzy_cup_algebra RO (/ 2) (/ 2) = 3 / 4 /\ fuzzy_cup_bounded RO (/ 2) (/ 2) = 1.
Proof.
  unfold fuzzy_cap, fuzzy_cap_algebra, fuzzy_cap_bounded, fuzzy_cup, fuzzy_cup_algebra, fuzzy_cup_bounded, c_min, c_max.
  unfold13. repeat split; rdec; try reflexivity; field.
Qed.
