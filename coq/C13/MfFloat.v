(* C13, the piecewise-linear membership functions ON THE PRIMITIVE-FLOAT RUN (the instance compared bit for bit with the C).

   MfRound.v proves the [0,1] range at the rounded reals (Rnd_ops rnd64), where overflow does not exist; MfOverflow.v shows
   that the float run leaves [0,1] (NaN) once the span of the parameters exceeds the largest binary64 number.  This file
   closes the gap between the two: for FINITE floats of magnitude at most 2^1022 - no ordering of the parameters assumed -

     f64_mf_tri_refines / _lins_ / _linz_ : the float value is finite and its real value is the rounded-real value
     f64_mf_tri_unit / _lins_ / _linz_    : hence it lies in [0,1]  (b64_ramp_range transported)

   by composing the per-operation relation of Common/F64Refine.v along the three bodies: comparisons do not round, a
   difference of two such numbers is below 2^1023, the divisor b - a is non-zero after rounding because binary64 has gradual
   underflow (rnd64_sub_nz), and the quotient of the two rounded differences has magnitude at most 1 by monotonicity. *)
From Coq Require Import Reals ZArith Lra Lia Floats Bool.
From Flocq Require Import Core BinarySingleNaN PrimFloat.
From LibaV Require Import Common.NumOps Common.ROps Common.RoundOps Common.RoundMono Common.RoundFlocq Common.FloatOps
                          Common.F64Refine C13.MfDefs C13.MfRound.
Local Open Scope R_scope.

Local Notation pfloat := Floats.PrimFloat.float.
Definition M1022 : R := bpow radix2 1022.
Definition okf (x : pfloat) : Prop := ffinite x = true /\ Rabs (f2r x) <= M1022.

Lemma f2r_format (x : pfloat) : rnd64 (f2r x) = f2r x.
Proof.
  unfold rnd64, f2r. apply round_generic; [typeclasses eauto|].
  exact (generic_format_B2R prec emax (Prim2B x)).
Qed.

Lemma M1022_twice : M1022 + M1022 = bpow radix2 1023.
Proof. unfold M1022. change 1023%Z with (1022 + 1)%Z. rewrite bpow_plus. simpl (bpow radix2 1). lra. Qed.

Lemma frel_ofZ0 : frel (ofZ F64_ops 0) (ofZ (Rnd_ops rnd64) 0).
Proof.
  cbn [ofZ F64_ops Rnd_ops]. change (f_ofZ 0) with (zero F64_ops).
  replace (rnd64 (IZR 0)) with (zero (Rnd_ops rnd64)); [exact frel_zero|].
  cbn [zero Rnd_ops]. symmetry. exact (mrnd_0 rnd64 mono_rnd_binary64).
Qed.

(* the difference of two numbers of magnitude <= 2^1022 does not overflow *)
Lemma sub_no_overflow (u v : R) : Rabs u <= M1022 -> Rabs v <= M1022 -> no_overflow (u - v).
Proof.
  intros Hu Hv. apply no_overflow_le with (m := bpow radix2 1023); [|apply rnd64_bpow; lia|apply bpow_lt; lia].
  rewrite <- M1022_twice. unfold Rminus. eapply Rle_trans; [apply Rabs_triang|]. rewrite Rabs_Ropp. lra.
Qed.

(* p / q for the rounded differences 0 <= p <= q, q <> 0 *)
Lemma quot_no_overflow (p q : R) : 0 <= p <= q -> q <> 0 -> no_overflow (p / q).
Proof.
  intros [H0 H1] Hq. assert (Q : 0 < q) by lra.
  apply no_overflow_le with (m := 1); [|exact rnd64_1|change 1 with (bpow radix2 0); apply bpow_lt; lia].
  assert (0 <= p / q <= 1).
  { split; [apply Rmult_le_pos; [exact H0|apply Rlt_le, Rinv_0_lt_compat; exact Q]|].
    apply (Rmult_le_reg_r q); [exact Q|]. unfold Rdiv. rewrite Rmult_assoc, Rinv_l by lra. lra. }
  rewrite Rabs_pos_eq; lra.
Qed.

(* the ramp (x - a) / (b - a) for a < x <= b, and (b - x) / (b - a) for a <= x < b, on related arguments *)
Lemma frel_ramp_up (x a b : pfloat) : okf x -> okf a -> okf b -> f2r a < f2r x -> f2r x <= f2r b ->
  frel (div F64_ops (sub F64_ops x a) (sub F64_ops b a))
       (div (Rnd_ops rnd64) (sub (Rnd_ops rnd64) (f2r x) (f2r a)) (sub (Rnd_ops rnd64) (f2r b) (f2r a))).
Proof.
  intros [Fx Hx] [Fa Ha] [Fb Hb] Hax Hxb. pose proof mono_rnd_binary64 as M.
  pose proof (frel_f2r _ Fx) as Rx. pose proof (frel_f2r _ Fa) as Ra. pose proof (frel_f2r _ Fb) as Rb.
  assert (N : rnd64 (f2r b - f2r a) <> 0) by (apply rnd64_sub_nz; [apply f2r_format|apply f2r_format|lra]).
  apply frel_div.
  - apply frel_sub; [exact Rx|exact Ra|apply sub_no_overflow; assumption].
  - apply frel_sub; [exact Rb|exact Ra|apply sub_no_overflow; assumption].
  - exact N.
  - cbn [sub Rnd_ops]. apply quot_no_overflow; [|exact N]. split.
    + apply (mrnd_ge0 rnd64 M). lra.
    + apply (mrnd_le rnd64 M). lra.
Qed.

Lemma frel_ramp_down (x a b : pfloat) : okf x -> okf a -> okf b -> f2r a <= f2r x -> f2r x < f2r b ->
  frel (div F64_ops (sub F64_ops b x) (sub F64_ops b a))
       (div (Rnd_ops rnd64) (sub (Rnd_ops rnd64) (f2r b) (f2r x)) (sub (Rnd_ops rnd64) (f2r b) (f2r a))).
Proof.
  intros [Fx Hx] [Fa Ha] [Fb Hb] Hax Hxb. pose proof mono_rnd_binary64 as M.
  pose proof (frel_f2r _ Fx) as Rx. pose proof (frel_f2r _ Fa) as Ra. pose proof (frel_f2r _ Fb) as Rb.
  assert (N : rnd64 (f2r b - f2r a) <> 0) by (apply rnd64_sub_nz; [apply f2r_format|apply f2r_format|lra]).
  apply frel_div.
  - apply frel_sub; [exact Rb|exact Rx|apply sub_no_overflow; assumption].
  - apply frel_sub; [exact Rb|exact Ra|apply sub_no_overflow; assumption].
  - exact N.
  - cbn [sub Rnd_ops]. apply quot_no_overflow; [|exact N]. split.
    + apply (mrnd_ge0 rnd64 M). lra.
    + apply (mrnd_le rnd64 M). lra.
Qed.

Ltac cmp_to_R H :=
  match type of H with
  | Rltb ?u ?v = true => let H' := fresh in pose proof (Rltb_spec u v) as H'; rewrite H in H'; inversion H' as [H''|H'']; clear H'
  | Rltb ?u ?v = false => let H' := fresh in pose proof (Rltb_spec u v) as H'; rewrite H in H'; inversion H' as [H''|H'']; clear H'
  | Rleb ?u ?v = true => let H' := fresh in pose proof (Rleb_spec u v) as H'; rewrite H in H'; inversion H' as [H''|H'']; clear H'
  | Rleb ?u ?v = false => let H' := fresh in pose proof (Rleb_spec u v) as H'; rewrite H in H'; inversion H' as [H''|H'']; clear H'
  end.

Theorem f64_mf_tri_refines (x a b c : pfloat) : okf x -> okf a -> okf b -> okf c ->
  frel (mf_tri F64_ops x a b c) (mf_tri (Rnd_ops rnd64) (f2r x) (f2r a) (f2r b) (f2r c)).
Proof.
  intros Ox Oa Ob Oc.
  pose proof (frel_f2r _ (proj1 Ox)) as Rx. pose proof (frel_f2r _ (proj1 Oa)) as Ra.
  pose proof (frel_f2r _ (proj1 Ob)) as Rb. pose proof (frel_f2r _ (proj1 Oc)) as Rc.
  unfold mf_tri, gtb.
  rewrite (frel_ltb x b _ _ Rx Rb), (frel_ltb a x _ _ Ra Rx), (frel_ltb b x _ _ Rb Rx), (frel_ltb x c _ _ Rx Rc).
  cbn [ltb Rnd_ops].
  destruct (Rltb (f2r x) (f2r b)) eqn:E1.
  - destruct (Rltb (f2r a) (f2r x)) eqn:E2; [|exact frel_ofZ0].
    pose proof (Rltb_spec (f2r x) (f2r b)) as S1. rewrite E1 in S1. inversion S1 as [L1|L1].
    pose proof (Rltb_spec (f2r a) (f2r x)) as S2. rewrite E2 in S2. inversion S2 as [L2|L2].
    apply frel_ramp_up; try assumption. lra.
  - destruct (Rltb (f2r b) (f2r x)) eqn:E3; [|exact frel_ofZ1].
    destruct (Rltb (f2r x) (f2r c)) eqn:E4; [|exact frel_ofZ0].
    pose proof (Rltb_spec (f2r b) (f2r x)) as S3. rewrite E3 in S3. inversion S3 as [L3|L3].
    pose proof (Rltb_spec (f2r x) (f2r c)) as S4. rewrite E4 in S4. inversion S4 as [L4|L4].
    apply (frel_ramp_down x b c); try assumption. lra.
Qed.

Theorem f64_mf_lins_refines (x a b : pfloat) : okf x -> okf a -> okf b ->
  frel (mf_lins F64_ops x a b) (mf_lins (Rnd_ops rnd64) (f2r x) (f2r a) (f2r b)).
Proof.
  intros Ox Oa Ob.
  pose proof (frel_f2r _ (proj1 Ox)) as Rx. pose proof (frel_f2r _ (proj1 Oa)) as Ra. pose proof (frel_f2r _ (proj1 Ob)) as Rb.
  unfold mf_lins, geb.
  rewrite (frel_ltb x a _ _ Rx Ra), (frel_leb b x _ _ Rb Rx). cbn [ltb leb Rnd_ops].
  destruct (Rltb (f2r x) (f2r a)) eqn:E1; [exact frel_ofZ0|].
  destruct (Rleb (f2r b) (f2r x)) eqn:E2; [exact frel_ofZ1|].
  pose proof (Rltb_spec (f2r x) (f2r a)) as S1. rewrite E1 in S1. inversion S1 as [L1|L1].
  pose proof (Rleb_spec (f2r b) (f2r x)) as S2. rewrite E2 in S2. inversion S2 as [L2|L2].
  destruct (Req_dec (f2r x) (f2r a)) as [Q|Q].
  - (* x = a: numerator x - a; the ramp lemma wants a < x, so go through frel_div directly *)
    pose proof mono_rnd_binary64 as M.
    assert (N : rnd64 (f2r b - f2r a) <> 0) by (apply rnd64_sub_nz; [apply f2r_format|apply f2r_format|lra]).
    apply frel_div.
    + apply frel_sub; [exact Rx|exact Ra|apply sub_no_overflow; [exact (proj2 Ox)|exact (proj2 Oa)]].
    + apply frel_sub; [exact Rb|exact Ra|apply sub_no_overflow; [exact (proj2 Ob)|exact (proj2 Oa)]].
    + exact N.
    + cbn [sub Rnd_ops]. apply quot_no_overflow; [|exact N]. split.
      * apply (mrnd_ge0 rnd64 M). lra.
      * apply (mrnd_le rnd64 M). lra.
  - apply frel_ramp_up; try assumption; lra.
Qed.

Theorem f64_mf_linz_refines (x a b : pfloat) : okf x -> okf a -> okf b ->
  frel (mf_linz F64_ops x a b) (mf_linz (Rnd_ops rnd64) (f2r x) (f2r a) (f2r b)).
Proof.
  intros Ox Oa Ob.
  pose proof (frel_f2r _ (proj1 Ox)) as Rx. pose proof (frel_f2r _ (proj1 Oa)) as Ra. pose proof (frel_f2r _ (proj1 Ob)) as Rb.
  unfold mf_linz, geb.
  rewrite (frel_ltb x a _ _ Rx Ra), (frel_leb b x _ _ Rb Rx). cbn [ltb leb Rnd_ops].
  destruct (Rltb (f2r x) (f2r a)) eqn:E1; [exact frel_ofZ1|].
  destruct (Rleb (f2r b) (f2r x)) eqn:E2; [exact frel_ofZ0|].
  pose proof (Rltb_spec (f2r x) (f2r a)) as S1. rewrite E1 in S1. inversion S1 as [L1|L1].
  pose proof (Rleb_spec (f2r b) (f2r x)) as S2. rewrite E2 in S2. inversion S2 as [L2|L2].
  apply frel_ramp_down; try assumption; lra.
Qed.

Theorem f64_mf_trap_refines (x a b c d : pfloat) : okf x -> okf a -> okf b -> okf c -> okf d ->
  frel (mf_trap F64_ops x a b c d) (mf_trap (Rnd_ops rnd64) (f2r x) (f2r a) (f2r b) (f2r c) (f2r d)).
Proof.
  intros Ox Oa Ob Oc Od.
  pose proof (frel_f2r _ (proj1 Ox)) as Rx. pose proof (frel_f2r _ (proj1 Oa)) as Ra.
  pose proof (frel_f2r _ (proj1 Ob)) as Rb. pose proof (frel_f2r _ (proj1 Oc)) as Rc. pose proof (frel_f2r _ (proj1 Od)) as Rd.
  unfold mf_trap, gtb.
  rewrite (frel_ltb x b _ _ Rx Rb), (frel_ltb a x _ _ Ra Rx), (frel_ltb c x _ _ Rc Rx), (frel_ltb x d _ _ Rx Rd).
  cbn [ltb Rnd_ops].
  destruct (Rltb (f2r x) (f2r b)) eqn:E1.
  - destruct (Rltb (f2r a) (f2r x)) eqn:E2; [|exact frel_ofZ0].
    pose proof (Rltb_spec (f2r x) (f2r b)) as S1. rewrite E1 in S1. inversion S1 as [L1|L1].
    pose proof (Rltb_spec (f2r a) (f2r x)) as S2. rewrite E2 in S2. inversion S2 as [L2|L2].
    apply frel_ramp_up; try assumption. lra.
  - destruct (Rltb (f2r c) (f2r x)) eqn:E3; [|exact frel_ofZ1].
    destruct (Rltb (f2r x) (f2r d)) eqn:E4; [|exact frel_ofZ0].
    pose proof (Rltb_spec (f2r c) (f2r x)) as S3. rewrite E3 in S3. inversion S3 as [L3|L3].
    pose proof (Rltb_spec (f2r x) (f2r d)) as S4. rewrite E4 in S4. inversion S4 as [L4|L4].
    apply (frel_ramp_down x c d); try assumption. lra.
Qed.

Theorem f64_mf_trap_unit (x a b c d : pfloat) : okf x -> okf a -> okf b -> okf c -> okf d ->
  ffinite (mf_trap F64_ops x a b c d) = true /\ 0 <= f2r (mf_trap F64_ops x a b c d) <= 1.
Proof.
  intros Ox Oa Ob Oc Od. destruct b64_ramp_range as (_ & T & _ & _).
  destruct (f64_mf_trap_refines x a b c d Ox Oa Ob Oc Od) as [F E].
  split; [exact F|]. rewrite E. apply T; apply f2r_format.
Qed.

(* hence: finite and in [0,1] on the float run *)
Theorem f64_mf_ramps_unit :
  (forall x a b c, okf x -> okf a -> okf b -> okf c ->
     ffinite (mf_tri F64_ops x a b c) = true /\ 0 <= f2r (mf_tri F64_ops x a b c) <= 1) /\
  (forall x a b, okf x -> okf a -> okf b ->
     ffinite (mf_lins F64_ops x a b) = true /\ 0 <= f2r (mf_lins F64_ops x a b) <= 1) /\
  (forall x a b, okf x -> okf a -> okf b ->
     ffinite (mf_linz F64_ops x a b) = true /\ 0 <= f2r (mf_linz F64_ops x a b) <= 1).
Proof.
  destruct b64_ramp_range as (T & _ & S & Z).
  split; [|split].
  - intros x a b c Ox Oa Ob Oc. destruct (f64_mf_tri_refines x a b c Ox Oa Ob Oc) as [F E].
    split; [exact F|]. rewrite E. apply T; apply f2r_format.
  - intros x a b Ox Oa Ob. destruct (f64_mf_lins_refines x a b Ox Oa Ob) as [F E].
    split; [exact F|]. rewrite E. apply S; apply f2r_format.
  - intros x a b Ox Oa Ob. destruct (f64_mf_linz_refines x a b Ox Oa Ob) as [F E].
    split; [exact F|]. rewrite E. apply Z; apply f2r_format.
Qed.
