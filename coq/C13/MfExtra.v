(* C13 proofs, part 7: the remaining pieces of the membership-function and operator clauses:
   continuity of the generalised bell (through the real power function Rpow), the product of sigmoids on equal-sign
   slopes, the parametrised equilibrium operator a_fuzzy_equ_, and the per-clause summaries cited by Properties_C13.v. *)
From Coq Require Import Reals ZArith List Lra Lia Bool.
From LibaV Require Import Common.NumOps Common.ROps C13.R13Ops C13.MfDefs C13.MfProofs C13.MfCont C13.OprProofs.
Import ListNotations.
Local Open Scope R_scope.

Local Notation RO := R13_ops.
Local Notation sqrt := R_sqrt.sqrt.

(* ================================================================ generalised bell: continuity *)
Lemma Rpower_cont_base p s : 0 < s -> cont (fun t => Rpower t p) s.
Proof.
  intros Hs. apply cont_iff. apply derivable_continuous_pt.
  exists (p * Rpower s (p - 1)). apply derivable_pt_lim_power. exact Hs.
Qed.

Lemma Rpow_abs_cont p u : 0 < p -> cont (fun t => Rpow (Rabs t) p) u.
Proof.
  intros Hp eps He. destruct (Req_dec u 0) as [E|E].
  - subst u. rewrite Rabs_R0, (Rpow_0 p Hp).
    exists (Rpower eps (/ p)). split; [apply Rpower_pos|]. intros t Ht. rewrite Rminus_0_r in Ht. rewrite Rminus_0_r.
    destruct (Req_dec t 0) as [Z|Z].
    + subst t. rewrite Rabs_R0, (Rpow_0 p Hp), Rabs_R0. exact He.
    + assert (P : 0 < Rabs t) by (apply Rabs_pos_lt; exact Z).
      rewrite (Rpow_pos _ _ P). rewrite Rabs_right by (left; apply Rpower_pos).
      apply Rlt_le_trans with (Rpower (Rpower eps (/ p)) p).
      * apply Rlt_Rpower_l; [exact Hp|]. split; [exact P|exact Ht].
      * right. rewrite Rpower_mult. replace (/ p * p) with 1 by (field; lra). apply Rpower_1. exact He.
  - assert (P : 0 < Rabs u) by (apply Rabs_pos_lt; exact E).
    destruct (Rpower_cont_base p (Rabs u) P eps He) as (d1 & Hd1 & K).
    exists (Rmin d1 (Rabs u)). split; [apply Rmin_glb_lt; assumption|]. intros t Ht.
    assert (H1 : Rabs (t - u) < d1) by (eapply Rlt_le_trans; [exact Ht|apply Rmin_l]).
    assert (H2 : Rabs (t - u) < Rabs u) by (eapply Rlt_le_trans; [exact Ht|apply Rmin_r]).
    pose proof (Rabs_triang_inv2 t u) as T1.
    assert (Pt : 0 < Rabs t).
    { pose proof (Rabs_triang_inv u t) as T2. rewrite (Rabs_minus_sym u t) in T2. lra. }
    rewrite (Rpow_pos _ _ Pt), (Rpow_pos _ _ P). apply K. lra.
Qed.

Lemma cont_comp (g f : R -> R) x : cont g x -> cont f (g x) -> cont (fun t => f (g t)) x.
Proof.
  intros Hg Hf eps He. destruct (Hf eps He) as (d1 & Hd1 & K1). destruct (Hg d1 Hd1) as (d & Hd & K).
  exists d. split; [exact Hd|]. intros t Ht. apply K1. apply K. exact Ht.
Qed.

Lemma cont_recip1 y0 : 0 <= y0 -> cont (fun y => 1 / (y + 1)) y0.
Proof.
  intros H. apply cont_ext with (f := fun y => 1 * / (y + 1)); [intros; reflexivity|].
  apply cont_of_derivable. reg. lra.
Qed.

Theorem gbell_continuous a b c : a <> 0 -> 0 < b -> continuity (fun x => mf_gbell RO x a b c).
Proof.
  intros Ha Hb x. apply cont_iff.
  apply cont_ext with (f := fun t => (fun y => 1 / (y + 1)) ((fun u => Rpow (Rabs u) (2 * b)) ((fun t => (t - c) / a) t))).
  { intros t. reflexivity. }
  apply (cont_comp (fun t => (fun u => Rpow (Rabs u) (2 * b)) ((t - c) / a)) (fun y => 1 / (y + 1))).
  - apply (cont_comp (fun t => (t - c) / a) (fun u => Rpow (Rabs u) (2 * b))).
    + apply cont_ramp_up.
    + apply Rpow_abs_cont. lra.
  - apply cont_recip1. apply Rpow_nonneg. apply Rabs_pos.
Qed.

(* ================================================================ product of sigmoids *)
Lemma psig_monotone x y a1 c1 a2 c2 : 0 <= a1 -> 0 <= a2 -> x <= y -> mf_psig RO x a1 c1 a2 c2 <= mf_psig RO y a1 c1 a2 c2.
Proof.
  intros H1 H2 H. unfold mf_psig. unfold13.
  pose proof (sig_range x a1 c1). pose proof (sig_range x a2 c2). pose proof (sig_range y a1 c1). pose proof (sig_range y a2 c2).
  pose proof (sig_monotone x y a1 c1 H1 H). pose proof (sig_monotone x y a2 c2 H2 H). nra.
Qed.
Lemma psig_antitone x y a1 c1 a2 c2 : a1 <= 0 -> a2 <= 0 -> x <= y -> mf_psig RO y a1 c1 a2 c2 <= mf_psig RO x a1 c1 a2 c2.
Proof.
  intros H1 H2 H. unfold mf_psig. unfold13.
  pose proof (sig_range x a1 c1). pose proof (sig_range x a2 c2). pose proof (sig_range y a1 c1). pose proof (sig_range y a2 c2).
  pose proof (sig_antitone x y a1 c1 H1 H). pose proof (sig_antitone x y a2 c2 H2 H). nra.
Qed.

(* ================================================================ difference of sigmoids: flanks *)
(* p, q = exp(a(c1-x)), exp(a(c2-x)) and p', q' the same at y >= x: the difference of the two values is
   (p - p') * ((q' - p') / p') * (q * p' - 1) over positive denominators *)
Lemma dsig_core_id p q p' q' : 0 < p' -> p * q' = p' * q ->
  (q' - p') * ((p + 1) * (q + 1)) - (q - p) * ((p' + 1) * (q' + 1)) = (p - p') * ((q' - p') / p') * (q * p' - 1).
Proof. intros Hp Hr. unfold Rdiv. field_simplify_eq; [|lra]. nra. Qed.

Lemma dsig_core (up : bool) p q p' q' : 0 < p' <= p -> 0 < q' -> p <= q -> p * q' = p' * q ->
  (if up then 1 <= p' * q' else p * q <= 1) ->
  if up then 1 / (p + 1) - 1 / (q + 1) <= 1 / (p' + 1) - 1 / (q' + 1)
  else 1 / (p' + 1) - 1 / (q' + 1) <= 1 / (p + 1) - 1 / (q + 1).
Proof.
  intros Hp Hq' Hpq Hr H1.
  assert (Hq : 0 < q) by lra.
  assert (Hpq' : p' <= q').
  { assert (p' * p <= p * q') by (rewrite Hr; apply Rmult_le_compat_l; lra). nra. }
  assert (E : forall s t, 0 < s -> 0 < t -> 1 / (s + 1) - 1 / (t + 1) = (t - s) / ((s + 1) * (t + 1))) by (intros; field; lra).
  rewrite !E by lra.
  assert (D1 : 0 < (p + 1) * (q + 1)) by nra. assert (D2 : 0 < (p' + 1) * (q' + 1)) by nra.
  pose proof (dsig_core_id p q p' q' (proj1 Hp) Hr) as K.
  assert (G1 : 0 <= (q' - p') / p') by (apply Rmult_le_pos; [lra|left; apply Rinv_0_lt_compat; lra]).
  assert (G3 : 0 <= (p - p') * ((q' - p') / p')) by (apply Rmult_le_pos; lra).
  assert (X1 : (q - p) / ((p + 1) * (q + 1)) * ((p + 1) * (q + 1) * ((p' + 1) * (q' + 1))) = (q - p) * ((p' + 1) * (q' + 1))) by (field; lra).
  assert (X2 : (q' - p') / ((p' + 1) * (q' + 1)) * ((p + 1) * (q + 1) * ((p' + 1) * (q' + 1))) = (q' - p') * ((p + 1) * (q + 1))) by (field; lra).
  destruct up.
  - apply Rmult_le_reg_r with ((p + 1) * (q + 1) * ((p' + 1) * (q' + 1))); [nra|]. rewrite X1, X2.
    assert (G2 : 0 <= q * p' - 1) by (assert (p' * q' <= p * q') by (apply Rmult_le_compat_r; lra); nra).
    assert (G4 : 0 <= (p - p') * ((q' - p') / p') * (q * p' - 1)) by (apply Rmult_le_pos; lra). lra.
  - apply Rmult_le_reg_r with ((p + 1) * (q + 1) * ((p' + 1) * (q' + 1))); [nra|]. rewrite X1, X2.
    assert (G2 : 0 <= 1 - q * p') by (assert (q * p' <= q * p) by (apply Rmult_le_compat_l; lra); nra).
    assert (G4 : 0 <= (p - p') * ((q' - p') / p') * (1 - q * p')) by (apply Rmult_le_pos; lra). nra.
Qed.

Lemma exp_ge_1 t : 0 <= t -> 1 <= exp t.
Proof. intros H. rewrite <- exp_0. apply exp_le_mono. exact H. Qed.

Lemma dsig_rising_pos x y a c1 c2 : 0 <= a -> c1 <= c2 -> x <= y <= (c1 + c2) / 2 ->
  mf_dsig RO x a c1 a c2 <= mf_dsig RO y a c1 a c2.
Proof.
  intros Ha Hc H. unfold mf_dsig. unfold13. rewrite !sig_eq.
  apply (dsig_core true).
  - split; [apply exp_pos|apply exp_le_mono; nra].
  - apply exp_pos.
  - apply exp_le_mono. nra.
  - rewrite <- !exp_plus. f_equal. ring.
  - rewrite <- exp_plus. apply exp_ge_1. nra.
Qed.
Lemma dsig_falling_pos x y a c1 c2 : 0 <= a -> c1 <= c2 -> (c1 + c2) / 2 <= x <= y ->
  mf_dsig RO y a c1 a c2 <= mf_dsig RO x a c1 a c2.
Proof.
  intros Ha Hc H. unfold mf_dsig. unfold13. rewrite !sig_eq.
  apply (dsig_core false).
  - split; [apply exp_pos|apply exp_le_mono; nra].
  - apply exp_pos.
  - apply exp_le_mono. nra.
  - rewrite <- !exp_plus. f_equal. ring.
  - rewrite <- exp_plus. apply exp_le_1. nra.
Qed.

Lemma sig_reflect x a c : mf_sig RO x a c = mf_sig RO (- x) (- a) (- c).
Proof. rewrite !sig_eq. f_equal. f_equal. f_equal. ring. Qed.

(* equal slopes, centres ordered with the sign of the slope: rising up to the midpoint of the centres, falling after it *)
Theorem dsig_flanks x y a c1 c2 : (0 <= a /\ c1 <= c2) \/ (a <= 0 /\ c2 <= c1) ->
  (x <= y <= (c1 + c2) / 2 -> mf_dsig RO x a c1 a c2 <= mf_dsig RO y a c1 a c2) /\
  ((c1 + c2) / 2 <= x <= y -> mf_dsig RO y a c1 a c2 <= mf_dsig RO x a c1 a c2).
Proof.
  intros [[Ha Hc]|[Ha Hc]].
  - split; intros H; [apply dsig_rising_pos|apply dsig_falling_pos]; assumption.
  - assert (R : forall t, mf_dsig RO t a c1 a c2 = mf_dsig RO (- t) (- a) (- c1) (- a) (- c2)).
    { intros t. unfold mf_dsig. unfold13. rewrite (sig_reflect t a c1), (sig_reflect t a c2). reflexivity. }
    rewrite !R. split; intros H.
    + apply dsig_falling_pos; lra.
    + apply dsig_rising_pos; lra.
Qed.

(* ================================================================ equilibrium operators *)
Lemma equ_monotone_r a b b' : unit a -> unit b -> unit b' -> b <= b' -> fuzzy_equ RO a b <= fuzzy_equ RO a b'.
Proof. intros. rewrite (equ_comm a b), (equ_comm a b'). apply equ_monotone; assumption. Qed.

Lemma equg_eq g a b : fuzzy_equ_ RO g a b = Rpow (a * b) (1 - g) * Rpow (a + b - a * b) g.
Proof. unfold fuzzy_equ_, rpow. unfold13. f_equal. f_equal. ring. Qed.

(* both powers are taken of a non-negative base with a non-negative exponent *)
Lemma equg_defined g a b : unit a -> unit b -> 0 <= g <= 1 ->
  pow_defined (a * b) (1 - g) /\ pow_defined (1 - (1 - a) * (1 - b)) g.
Proof.
  unfold unit, pow_defined. intros Ha Hb Hg. split.
  - destruct (Req_dec (a * b) 0) as [E|E]; [right; left; split; [exact E|lra]|left; nra].
  - destruct (Req_dec (1 - (1 - a) * (1 - b)) 0) as [E|E]; [right; left; split; [exact E|lra]|left; nra].
Qed.

Lemma Rpower_split x g : 0 < x -> Rpower x (1 - g) * Rpower x g = x.
Proof. intros H. rewrite <- Rpower_plus. replace (1 - g + g) with 1 by ring. apply Rpower_1. exact H. Qed.

(* for every gamma in [0,1] the parametrised operator lies between the algebraic product and the algebraic sum *)
Theorem equg_between g a b : unit a -> unit b -> 0 <= g <= 1 -> a * b <= fuzzy_equ_ RO g a b <= a + b - a * b.
Proof.
  unfold unit. intros Ha Hb Hg. rewrite equg_eq. set (q := a + b - a * b). set (p := a * b).
  assert (Hp : 0 <= p) by (unfold p; nra). assert (Hpq : p <= q) by (unfold p, q; nra).
  destruct (Req_dec p 0) as [E|E].
  - rewrite E. destruct (Req_dec g 1) as [G|G].
    + subst g. replace (1 - 1) with 0 by ring. rewrite Rpow_0_0, Rpow_x_1 by lra. lra.
    + rewrite Rpow_0 by lra. lra.
  - assert (Pp : 0 < p) by lra. assert (Pq : 0 < q) by lra. rewrite !Rpow_pos by assumption.
    assert (L1 : Rpower p g <= Rpower q g) by (apply Rle_Rpower_l; lra).
    assert (L2 : Rpower p (1 - g) <= Rpower q (1 - g)) by (apply Rle_Rpower_l; lra).
    pose proof (Rpower_pos p g). pose proof (Rpower_pos p (1 - g)). pose proof (Rpower_pos q g). pose proof (Rpower_pos q (1 - g)).
    pose proof (Rpower_split p g Pp) as S1. pose proof (Rpower_split q g Pq) as S2.
    assert (M1 : Rpower p (1 - g) * Rpower p g <= Rpower p (1 - g) * Rpower q g) by (apply Rmult_le_compat_l; lra).
    assert (M2 : Rpower p (1 - g) * Rpower q g <= Rpower q (1 - g) * Rpower q g) by (apply Rmult_le_compat_r; lra).
    lra.
Qed.

(* gamma = 1/2 is a_fuzzy_equ *)
Theorem equg_half a b : unit a -> unit b -> fuzzy_equ_ RO (/ 2) a b = fuzzy_equ RO a b.
Proof.
  unfold unit. intros Ha Hb. rewrite equg_eq, equ_eq. replace (1 - / 2) with (/ 2) by field.
  set (q := a + b - a * b). set (p := a * b).
  assert (Hp : 0 <= p) by (unfold p; nra). assert (Hpq : p <= q) by (unfold p, q; nra).
  destruct (Req_dec p 0) as [E|E].
  - rewrite E, sqrt_0, Rpow_0 by lra. ring.
  - rewrite !Rpow_pos by lra. rewrite !Rpower_sqrt by lra. reflexivity.
Qed.

(* ================================================================ summaries, one per clause of the property *)
(* values in [0,1] - for all x and all parameters; only the difference of sigmoids needs its precondition *)
Theorem mf_range_each :
  (forall x s c, 0 < mf_gauss RO x s c <= 1) /\
  (forall x s1 c1 s2 c2, 0 < mf_gauss2 RO x s1 c1 s2 c2 <= 1) /\
  (forall x a b c, 0 < mf_gbell RO x a b c <= 1) /\
  (forall x a c, 0 < mf_sig RO x a c < 1) /\
  (forall x a c1 c2, (0 <= a /\ c1 <= c2) \/ (a <= 0 /\ c2 <= c1) -> 0 <= mf_dsig RO x a c1 a c2 < 1) /\
  (forall x a1 c1 a2 c2, 0 < mf_psig RO x a1 c1 a2 c2 < 1) /\
  (forall x a b c d, 0 <= mf_trap RO x a b c d <= 1) /\
  (forall x a b c, 0 <= mf_tri RO x a b c <= 1) /\
  (forall x a b, 0 <= mf_lins RO x a b <= 1) /\
  (forall x a b, 0 <= mf_linz RO x a b <= 1) /\
  (forall x a b, 0 <= mf_s RO x a b <= 1) /\
  (forall x a b, 0 <= mf_z RO x a b <= 1) /\
  (forall x a b c d, 0 <= mf_pi RO x a b c d <= 1).
Proof.
  repeat split; intros;
    first [apply gauss_range|apply gauss2_range|apply gbell_range|apply sig_range|apply dsig_range; assumption|apply psig_range
          |apply trap_range|apply tri_range|apply lins_range|apply linz_range|apply s_range|apply z_range|apply pi_range].
Qed.

(* exactly one on the core, exactly zero outside the support *)
Theorem mf_core_each :
  (forall s c, mf_gauss RO c s c = 1) /\
  (forall x s1 c1 s2 c2, c1 <= x <= c2 -> mf_gauss2 RO x s1 c1 s2 c2 = 1) /\
  (forall a b c, 0 < b -> mf_gbell RO c a b c = 1) /\
  (forall x a b c d, b <= x <= c -> mf_trap RO x a b c d = 1) /\
  (forall a b c, mf_tri RO b a b c = 1) /\
  (forall x a b, a <= b -> b <= x -> mf_lins RO x a b = 1) /\
  (forall x a b, x < a \/ (x <= a /\ a < b) -> mf_linz RO x a b = 1) /\
  (forall x a b, a < b -> b <= x -> mf_s RO x a b = 1) /\
  (forall x a b, x <= a -> a < b -> mf_z RO x a b = 1) /\
  (forall x a b c d, b <= x <= c -> mf_pi RO x a b c d = 1).
Proof.
  repeat split; intros;
    first [apply gauss_peak|apply gauss2_core; assumption|apply gbell_peak; assumption|apply trap_core; assumption|apply tri_peak
          |apply lins_core; assumption|apply linz_core; assumption|apply s_core; assumption|apply z_core; assumption
          |apply pi_core; assumption].
Qed.

Theorem mf_support_each :
  (forall x a b c d, a <= b -> b <= c -> c <= d ->
     (x < a \/ (x <= a /\ a < b) \/ d < x \/ (d <= x /\ c < d)) -> mf_trap RO x a b c d = 0) /\
  (forall x a b c, a <= b -> b <= c ->
     (x < a \/ (x <= a /\ a < b) \/ c < x \/ (c <= x /\ b < c)) -> mf_tri RO x a b c = 0) /\
  (forall x a b, x < a \/ (x <= a /\ a < b) -> mf_lins RO x a b = 0) /\
  (forall x a b, a <= b -> b <= x -> mf_linz RO x a b = 0) /\
  (forall x a b, x <= a -> a <= b -> mf_s RO x a b = 0) /\
  (forall x a b, a <= b -> b <= x -> mf_z RO x a b = 0) /\
  (forall x a b c d, a <= b -> c <= d -> b <= c ->
     (x <= a /\ a < b \/ x < a \/ d <= x /\ c < d \/ d < x) -> mf_pi RO x a b c d = 0).
Proof.
  repeat split; intros.
  - destruct H2 as [H2|[H2|[H2|H2]]]; [apply trap_zero_left; [assumption|left; assumption]|apply trap_zero_left; [assumption|right; assumption]
      |apply trap_zero_right; [assumption|left; assumption|assumption]|apply trap_zero_right; [assumption|right; assumption|assumption]].
  - destruct H1 as [H1|[H1|[H1|H1]]]; [apply tri_zero_left; [assumption|left; assumption]|apply tri_zero_left; [assumption|right; assumption]
      |apply tri_zero_right; [assumption|left; assumption]|apply tri_zero_right; [assumption|right; assumption]].
  - apply lins_zero; assumption.
  - apply linz_zero; assumption.
  - apply s_zero; assumption.
  - apply z_zero; assumption.
  - apply pi_zero; assumption.
Qed.

(* continuous at every x (stdlib `continuity`): adjacent pieces agree at every breakpoint when the widths are non-zero *)
Theorem mf_continuous_each :
  (forall s c, continuity (fun x => mf_gauss RO x s c)) /\
  (forall s1 c1 s2 c2, c1 <= c2 -> continuity (fun x => mf_gauss2 RO x s1 c1 s2 c2)) /\
  (forall a b c, a <> 0 -> 0 < b -> continuity (fun x => mf_gbell RO x a b c)) /\
  (forall a c, continuity (fun x => mf_sig RO x a c)) /\
  (forall a1 c1 a2 c2, continuity (fun x => mf_dsig RO x a1 c1 a2 c2)) /\
  (forall a1 c1 a2 c2, continuity (fun x => mf_psig RO x a1 c1 a2 c2)) /\
  (forall a b c d, a < b -> b <= c -> c < d -> continuity (fun x => mf_trap RO x a b c d)) /\
  (forall a b c, a < b -> b < c -> continuity (fun x => mf_tri RO x a b c)) /\
  (forall a b, a < b -> continuity (fun x => mf_lins RO x a b)) /\
  (forall a b, a < b -> continuity (fun x => mf_linz RO x a b)) /\
  (forall a b, a < b -> continuity (fun x => mf_s RO x a b)) /\
  (forall a b, a < b -> continuity (fun x => mf_z RO x a b)) /\
  (forall a b c d, a < b -> b <= c -> c < d -> continuity (fun x => mf_pi RO x a b c d)).
Proof.
  repeat split; intros;
    first [apply gauss_continuous|apply gauss2_continuous; assumption|apply gbell_continuous; assumption|apply sig_continuous
          |apply dsig_continuous|apply psig_continuous|apply trap_continuous; assumption|apply tri_continuous; assumption
          |apply lins_continuous; assumption|apply linz_continuous; assumption|apply s_continuous; assumption
          |apply z_continuous; assumption|apply pi_continuous; assumption].
Qed.

(* monotone on each flank *)
Theorem mf_flanks_each :
  (forall x y s c, (x <= y <= c -> mf_gauss RO x s c <= mf_gauss RO y s c) /\ (c <= x <= y -> mf_gauss RO y s c <= mf_gauss RO x s c)) /\
  (forall x y s1 c1 s2 c2, c1 <= c2 ->
     (x <= y <= c1 -> mf_gauss2 RO x s1 c1 s2 c2 <= mf_gauss2 RO y s1 c1 s2 c2) /\
     (c2 <= x <= y -> mf_gauss2 RO y s1 c1 s2 c2 <= mf_gauss2 RO x s1 c1 s2 c2)) /\
  (forall x y a b c, a <> 0 -> 0 < b -> Rabs (x - c) <= Rabs (y - c) -> mf_gbell RO y a b c <= mf_gbell RO x a b c) /\
  (forall x y a c, x <= y -> (0 <= a -> mf_sig RO x a c <= mf_sig RO y a c) /\ (a <= 0 -> mf_sig RO y a c <= mf_sig RO x a c)) /\
  (forall x y a c1 c2, (0 <= a /\ c1 <= c2) \/ (a <= 0 /\ c2 <= c1) ->
     (x <= y <= (c1 + c2) / 2 -> mf_dsig RO x a c1 a c2 <= mf_dsig RO y a c1 a c2) /\
     ((c1 + c2) / 2 <= x <= y -> mf_dsig RO y a c1 a c2 <= mf_dsig RO x a c1 a c2)) /\
  (forall x y a1 c1 a2 c2, x <= y ->
     (0 <= a1 -> 0 <= a2 -> mf_psig RO x a1 c1 a2 c2 <= mf_psig RO y a1 c1 a2 c2) /\
     (a1 <= 0 -> a2 <= 0 -> mf_psig RO y a1 c1 a2 c2 <= mf_psig RO x a1 c1 a2 c2)) /\
  (forall x y a b c d, b <= c ->
     (x <= y <= b -> mf_trap RO x a b c d <= mf_trap RO y a b c d) /\ (c <= x <= y -> mf_trap RO y a b c d <= mf_trap RO x a b c d)) /\
  (forall x y a b c,
     (x <= y <= b -> mf_tri RO x a b c <= mf_tri RO y a b c) /\ (b <= x <= y -> mf_tri RO y a b c <= mf_tri RO x a b c)) /\
  (forall x y a b, x <= y -> mf_lins RO x a b <= mf_lins RO y a b /\ mf_linz RO y a b <= mf_linz RO x a b) /\
  (forall x y a b, a < b -> x <= y -> mf_s RO x a b <= mf_s RO y a b /\ mf_z RO y a b <= mf_z RO x a b) /\
  (forall x y a b c d, b <= c ->
     (a < b -> x <= y <= b -> mf_pi RO x a b c d <= mf_pi RO y a b c d) /\
     (c < d -> c <= x <= y -> mf_pi RO y a b c d <= mf_pi RO x a b c d)).
Proof.
  repeat split; intros.
  - apply gauss_rising; assumption.
  - apply gauss_falling; assumption.
  - apply gauss2_rising; assumption.
  - apply gauss2_falling; assumption.
  - apply gbell_flanks; assumption.
  - apply sig_monotone; assumption.
  - apply sig_antitone; assumption.
  - apply (dsig_flanks x y a c1 c2 H); assumption.
  - apply (dsig_flanks x y a c1 c2 H); assumption.
  - apply psig_monotone; assumption.
  - apply psig_antitone; assumption.
  - apply trap_rising; assumption.
  - apply trap_falling; assumption.
  - apply tri_rising; assumption.
  - apply tri_falling; assumption.
  - apply lins_monotone; assumption.
  - apply linz_monotone; assumption.
  - apply s_monotone; assumption.
  - apply z_monotone; assumption.
  - apply pi_rising; assumption.
  - apply pi_falling; assumption.
Qed.

(* complementary pairs *)
Theorem mf_complement_each :
  (forall x a b, mf_lins RO x a b + mf_linz RO x a b = 1) /\
  (forall x a b, a < b -> mf_s RO x a b + mf_z RO x a b = 1).
Proof. split; intros; [apply lins_linz_complement|apply s_z_complement; assumption]. Qed.

(* pi = S, 1, Z glued; gauss2 = gauss, 1, gauss glued *)
Theorem mf_glue_each :
  (forall x a b c d, mf_pi RO x a b c d = if Rltb x b then mf_s RO x a b else if Rltb c x then mf_z RO x c d else 1) /\
  (forall x s1 c1 s2 c2, mf_gauss2 RO x s1 c1 s2 c2 =
     if Rltb x c1 then mf_gauss RO x s1 c1 else if Rltb c2 x then mf_gauss RO x s2 c2 else 1).
Proof. split; intros; reflexivity. Qed.

(* every division executed has a non-zero denominator, every pow is applied inside its real domain *)
Theorem mf_defined_each :
  (forall x a b c d, trap_defined x a b c d) /\ (forall x a b c, tri_defined x a b c) /\
  (forall x a b, lins_defined x a b) /\ (forall x a b, s_defined x a b) /\ (forall x a b, z_defined x a b) /\
  (forall x a b c d, pi_defined x a b c d) /\
  (forall x s c, gauss_defined x s c <-> s <> 0) /\
  (forall x s1 c1 s2 c2, s1 <> 0 -> s2 <> 0 -> gauss2_defined x s1 c1 s2 c2) /\
  (forall x a b c, a <> 0 -> 0 <= b -> gbell_defined x a b c) /\
  (forall x a c, 1 < exp ((c - x) * a) + 1).
Proof.
  repeat split; intros;
    first [apply trap_defined_all|apply tri_defined_all|apply lins_defined_all|apply s_defined_all|apply z_defined_all
          |apply pi_defined_all|apply gauss_defined_iff; assumption|apply gauss2_defined_if; assumption
          |apply gbell_defined_if; assumption|apply sig_den|idtac].
  exact (proj1 (gauss_defined_iff x s c) H).
Qed.

(* the operator clause for the equilibrium operator *)
Theorem equ_operator :
  (forall a b, unit a -> unit b -> unit (fuzzy_equ RO a b)) /\
  (forall a b, fuzzy_equ RO a b = fuzzy_equ RO b a) /\
  (forall a a' b, unit a -> unit a' -> unit b -> a <= a' -> fuzzy_equ RO a b <= fuzzy_equ RO a' b) /\
  (forall a b b', unit a -> unit b -> unit b' -> b <= b' -> fuzzy_equ RO a b <= fuzzy_equ RO a b') /\
  (forall a b, unit a -> unit b -> fuzzy_cap_algebra RO a b <= fuzzy_equ RO a b <= fuzzy_cup_algebra RO a b) /\
  (forall a b, unit a -> unit b -> fuzzy_equ RO a b <= Rmax a b) /\
  (forall a, unit a -> fuzzy_equ RO a 0 = 0 /\ fuzzy_equ RO 0 a = 0 /\ fuzzy_equ RO 1 1 = 1) /\
  (forall a b, unit a -> unit b -> equ_defined a b).
Proof.
  repeat split; intros;
    first [apply equ_comm|apply equ_monotone; assumption|apply equ_monotone_r; assumption|apply equ_le_max; assumption
          |apply (equ_range a b); assumption|apply (equ_between a b); assumption|apply (equ_boundary a); assumption
          |apply (equ_defined_unit a b); assumption].
Qed.

Theorem repairs_conservative :
  (forall x a b, a < b -> mf_lins_orig RO x a b = mf_lins RO x a b /\ mf_linz_orig RO x a b = mf_linz RO x a b) /\
  (forall x a b c, b < c -> mf_tri_orig RO x a b c = mf_tri RO x a b c) /\
  (forall x a b, a <= b -> mf_s_orig RO x a b = mf_s RO x a b /\ mf_z_orig RO x a b = mf_z RO x a b).
Proof. exact (conj lins_orig_agrees (conj tri_orig_agrees sz_orig_agrees)). Qed.

Theorem cap_operators : is_cap (fuzzy_cap RO) /\ is_cap (fuzzy_cap_algebra RO) /\ is_cap (fuzzy_cap_bounded RO).
Proof. exact (conj cap_is_cap (conj cap_algebra_is_cap cap_bounded_is_cap)). Qed.
Theorem cup_operators : is_cup (fuzzy_cup RO) /\ is_cup (fuzzy_cup_algebra RO) /\ is_cup (fuzzy_cup_bounded RO).
Proof. exact (conj cup_is_cup (conj cup_algebra_is_cup cup_bounded_is_cup)). Qed.

Theorem equg_spec g a b : unit a -> unit b -> 0 <= g <= 1 ->
  a * b <= fuzzy_equ_ RO g a b <= a + b - a * b /\
  pow_defined (a * b) (1 - g) /\ pow_defined (1 - (1 - a) * (1 - b)) g.
Proof. intros Ha Hb Hg. split; [apply equg_between; assumption|apply equg_defined; assumption]. Qed.

Theorem complement_operator :
  (forall a, unit a -> unit (fuzzy_not RO a)) /\ (forall a, fuzzy_not RO (fuzzy_not RO a) = a) /\
  (forall a b, fuzzy_cup RO a b = fuzzy_not RO (fuzzy_cap RO (fuzzy_not RO a) (fuzzy_not RO b))) /\
  (forall a b, fuzzy_cup_algebra RO a b = fuzzy_not RO (fuzzy_cap_algebra RO (fuzzy_not RO a) (fuzzy_not RO b))) /\
  (forall a b, fuzzy_cup_bounded RO a b = fuzzy_not RO (fuzzy_cap_bounded RO (fuzzy_not RO a) (fuzzy_not RO b))).
Proof. exact (conj not_range (conj not_involutive (conj cup_dual (conj cup_algebra_dual cup_bounded_dual)))). Qed.

Theorem opr_all k :
  (forall a b, unit a -> unit b -> unit (fuzzy_opr RO k a b)) /\
  (forall a b, fuzzy_opr RO k a b = fuzzy_opr RO k b a) /\
  (forall a a' b, unit a -> unit a' -> unit b -> a <= a' -> fuzzy_opr RO k a b <= fuzzy_opr RO k a' b) /\
  (forall a b b', unit a -> unit b -> unit b' -> b <= b' -> fuzzy_opr RO k a b <= fuzzy_opr RO k a b').
Proof.
  split; [apply opr_range|]. split; [apply opr_comm|]. split; [apply opr_monotone|].
  intros a b b' Ha Hb Hb' H. rewrite (opr_comm k a b), (opr_comm k a b'). apply opr_monotone; assumption.
Qed.
