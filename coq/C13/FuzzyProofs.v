(* C13 proofs, part 5: the gain scheduling of a_pid_fuzzy_out_ over the reals.
   - the table walk and the three loops are run FORWARD on explicit scratch arrays: when each array has room for what is
     written (documented sizing, at most nfuzz active sets per input), every bounds-checked write and read succeeds
     (scratch_in_bounds) and the final state is computed in closed form;
   - hence the derived gains are base + (sum of w_ij * m_ij) / (sum of w_ij) over the active rules (gains_weighted_mean),
     which lies between base + the smallest and base + the largest active consequent (gains_convex);
   - the division 1/sum is executed only for a positive sum (repaired code); the sum is positive for every operator but
     the bounded product whenever the memberships are in (0,1], and for the bounded product exactly when some pair of
     active memberships sums above 1 (joint_sum_positive, bounded_sum_zero_iff). *)
From Coq Require Import Reals ZArith List Lra Lia Bool Arith.
From LibaV Require Import Common.NumOps Common.ROps C12.PidDefs C13.R13Ops C13.MfDefs C13.FuzzyDefs C13.FuzzyLimits
  C13.MfProofs C13.OprProofs.
Import ListNotations.
Local Open Scope R_scope.

Local Notation RO := R13_ops.

(* ------------------------------------------------------------------------------------------------ arrays *)
Lemma app_cons_r {A} (l1 : list A) x l2 : l1 ++ x :: l2 = (l1 ++ [x]) ++ l2.
Proof. rewrite <- app_assoc. reflexivity. Qed.

Lemma upd_app {A} (l1 : list A) x l2 v k : length l1 = k -> upd k v (l1 ++ x :: l2) = Some (l1 ++ v :: l2).
Proof.
  intros <-. unfold upd. rewrite app_length. cbn [length].
  destruct (Nat.ltb_spec (length l1) (length l1 + S (length l2))) as [_|H]; [|lia].
  f_equal. rewrite firstn_app, Nat.sub_diag, firstn_all. cbn [firstn]. rewrite app_nil_r. f_equal. f_equal.
  rewrite skipn_app. rewrite skipn_all2 by lia. replace (S (length l1) - length l1)%nat with 1%nat by lia. reflexivity.
Qed.
Lemma rd_app {A} (l1 : list A) x l2 k : length l1 = k -> rd k (l1 ++ x :: l2) = Some x.
Proof. intros <-. unfold rd. rewrite nth_error_app2 by lia. rewrite Nat.sub_diag. reflexivity. Qed.
Lemma upd_length {A} k (v : A) l l' : upd k v l = Some l' -> length l' = length l.
Proof.
  unfold upd. destruct (Nat.ltb_spec k (length l)) as [H|H]; [|discriminate]. intros E. injection E as <-.
  destruct l as [|x0 l0]; [cbn in H; lia|]. rewrite app_length, firstn_length. cbn [length]. rewrite skipn_length.
  cbn [length] in H. lia.
Qed.

(* ------------------------------------------------------------------------------------------------ the table walk *)
(* what a_pid_fuzzy_mf records, without the arrays: the (index, value) pairs of the sets whose value exceeds epsilon;
   None when the table is too short for its own tags *)
Fixpoint walk_spec (n i : nat) (x : R) (a : list R) : option (list (nat * R)) :=
  match n with
  | 0%nat => Some []
  | S n' =>
    match a with
    | [] => None
    | v :: a1 =>
      let t := tag_of RO v in
      if Nat.eqb t 0 then Some []
      else match take (mf_arity t) a1 with
           | None => None
           | Some (ps, a2) =>
             match mf RO t x ps with
             | None => None
             | Some y => match walk_spec n' (S i) x a2 with
                         | None => None
                         | Some l => Some (if gtb RO y (eps RO) then (i, y) :: l else l)
                         end
             end
           end
    end
  end.

Lemma walk_forward : forall n i x a p l, walk_spec n i x a = Some l ->
  forall cnt pi di ri pv dv rv,
  length pi = (p + cnt)%nat -> length di = length l -> length pv = (p + cnt)%nat -> length dv = length l ->
  mf_walk RO n i x a p {| sidx := pi ++ di ++ ri; sval := pv ++ dv ++ rv |} cnt =
  Ok ({| sidx := pi ++ map fst l ++ ri; sval := pv ++ map snd l ++ rv |}, (cnt + length l)%nat).
Proof.
  induction n as [|n IH]; intros i x a p l H cnt pi di ri pv dv rv Hpi Hdi Hpv Hdv.
  - cbn in H. inversion H. subst l. destruct di; [|discriminate]. destruct dv; [|discriminate]. cbn. rewrite Nat.add_0_r. reflexivity.
  - cbn [walk_spec] in H. cbn [mf_walk]. destruct a as [|v a1]; [discriminate|].
    destruct (Nat.eqb (tag_of RO v) 0).
    { inversion H. subst l. destruct di; [|discriminate]. destruct dv; [|discriminate]. cbn. rewrite Nat.add_0_r. reflexivity. }
    destruct (take (mf_arity (tag_of RO v)) a1) as [[ps a2]|]; [|discriminate].
    destruct (mf RO (tag_of RO v) x ps) as [y|]; [|discriminate].
    destruct (walk_spec n (S i) x a2) as [l'|] eqn:W; [|discriminate].
    destruct (gtb RO y (eps RO)).
    + inversion H. subst l. cbn [length] in Hdi, Hdv.
      destruct di as [|d0 di']; [discriminate|]. destruct dv as [|v0 dv']; [discriminate|].
      cbn [length] in Hdi, Hdv.
      unfold wr_idx. cbn [sidx sval app]. rewrite (upd_app pi d0 (di' ++ ri) i (p + cnt) Hpi). cbn [option_map of_opt bind].
      unfold wr_val. cbn [sidx sval app]. rewrite (upd_app pv v0 (dv' ++ rv) y (p + cnt) Hpv). cbn [option_map of_opt bind].
      rewrite (app_cons_r pi), (app_cons_r pv).
      rewrite (IH (S i) x a2 p l' W (S cnt) (pi ++ [i]) di' ri (pv ++ [y]) dv' rv).
      * cbn [map fst snd length]. rewrite <- !app_assoc. cbn [app]. f_equal. f_equal. lia.
      * rewrite app_length. cbn. lia.
      * lia.
      * rewrite app_length. cbn. lia.
      * lia.
    + inversion H. subst l'. apply (IH (S i) x a2 p l W cnt pi di ri pv dv rv); assumption.
Qed.

(* recorded indices are the loop counter values: all below i + n *)
Lemma walk_spec_idx : forall n i x a l, walk_spec n i x a = Some l -> Forall (fun q => (i <= fst q < i + n)%nat) l.
Proof.
  induction n as [|n IH]; intros i x a l H; cbn [walk_spec] in H.
  - inversion H. constructor.
  - destruct a as [|v a1]; [discriminate|]. destruct (Nat.eqb (tag_of RO v) 0); [inversion H; constructor|].
    destruct (take (mf_arity (tag_of RO v)) a1) as [[ps a2]|]; [|discriminate].
    destruct (mf RO (tag_of RO v) x ps) as [y|]; [|discriminate].
    destruct (walk_spec n (S i) x a2) as [l'|] eqn:W; [|discriminate].
    specialize (IH (S i) x a2 l' W).
    assert (F : Forall (fun q => (i <= fst q < i + S n)%nat) l').
    { eapply Forall_impl; [|exact IH]. cbn. intros q Hq. lia. }
    destruct (gtb RO y (eps RO)); inversion H; subst l; [constructor; [cbn; lia|exact F]|exact F].
Qed.

(* every recorded value exceeds A_REAL_EPSILON (> 0) *)
Lemma walk_spec_val : forall n i x a l, walk_spec n i x a = Some l -> Forall (fun q => eps RO < snd q) l.
Proof.
  induction n as [|n IH]; intros i x a l H; cbn [walk_spec] in H.
  - inversion H. constructor.
  - destruct a as [|v a1]; [discriminate|]. destruct (Nat.eqb (tag_of RO v) 0); [inversion H; constructor|].
    destruct (take (mf_arity (tag_of RO v)) a1) as [[ps a2]|]; [|discriminate].
    destruct (mf RO (tag_of RO v) x ps) as [y|]; [|discriminate].
    destruct (walk_spec n (S i) x a2) as [l'|] eqn:W; [|discriminate].
    specialize (IH (S i) x a2 l' W). unfold gtb in H. cbn [ltb R13_ops] in H.
    destruct (Rltb_spec (eps RO) y); inversion H; subst l; [constructor; [exact r|exact IH]|exact IH].
Qed.
