(* C13 proofs, part 5: the gain scheduling of a_pid_fuzzy_out_ over the reals.
   - the table walk and the three loops are run FORWARD on explicit scratch arrays: when each array has room for what is
     written (documented sizing, at most nfuzz active sets per input), every bounds-checked write and read succeeds
     (scratch_in_bounds) and the final state is computed in closed form;
   - hence the derived gains are base + (sum of w_ij * m_ij) / (sum of w_ij) over the active rules (gains_weighted_mean),
     which lies between base + the smallest and base + the largest active consequent (gains_convex);
   - the division 1/sum is executed only for a positive sum (repaired code); the sum is positive for every operator but
     the bounded product whenever the memberships are in (0,1], and for the bounded product exactly when some pair of
     active memberships sums above 1 (joint_sum_positive, bounded_sum_zero_iff). *)
From Coq Require Import Reals ZArith List Lra Lia Bool Arith.
From LibaV Require Import Common.NumOps Common.ROps C12.PidDefs C13.R13Ops C13.MfDefs C13.FuzzyDefs C13.FuzzyLimits
  C13.MfProofs C13.OprProofs.
Import ListNotations.
Local Open Scope R_scope.

Local Notation RO := R13_ops.

(* ------------------------------------------------------------------------------------------------ arrays *)
Lemma app_cons_r {A} (l1 : list A) x l2 : l1 ++ x :: l2 = (l1 ++ [x]) ++ l2.
Proof. rewrite <- app_assoc. reflexivity. Qed.

Lemma upd_app {A} (l1 : list A) x l2 v k : length l1 = k -> upd k v (l1 ++ x :: l2) = Some (l1 ++ v :: l2).
Proof.
  intros <-. unfold upd. rewrite app_length. cbn [length].
  destruct (Nat.ltb_spec (length l1) (length l1 + S (length l2))) as [_|H]; [|lia].
  f_equal. rewrite firstn_app, Nat.sub_diag, firstn_all. cbn [firstn]. rewrite app_nil_r. f_equal. f_equal.
  rewrite skipn_app. rewrite skipn_all2 by lia. replace (S (length l1) - length l1)%nat with 1%nat by lia. reflexivity.
Qed.
Lemma rd_app {A} (l1 : list A) x l2 k : length l1 = k -> rd k (l1 ++ x :: l2) = Some x.
Proof. intros <-. unfold rd. rewrite nth_error_app2 by lia. rewrite Nat.sub_diag. reflexivity. Qed.
Lemma upd_length {A} k (v : A) l l' : upd k v l = Some l' -> length l' = length l.
Proof.
  unfold upd. destruct (Nat.ltb_spec k (length l)) as [H|H]; [|discriminate]. intros E. injection E as <-.
  destruct l as [|x0 l0]; [cbn in H; lia|]. rewrite app_length, firstn_length. cbn [length]. rewrite skipn_length.
  cbn [length] in H. lia.
Qed.

(* ------------------------------------------------------------------------------------------------ the table walk *)
(* what a_pid_fuzzy_mf records, without the arrays: the (index, value) pairs of the sets whose value exceeds epsilon;
   None when the table is too short for its own tags *)
Fixpoint walk_spec (n i : nat) (x : R) (a : list R) : option (list (nat * R)) :=
  match n with
  | 0%nat => Some []
  | S n' =>
    match a with
    | [] => None
    | v :: a1 =>
      let t := tag_of RO v in
      if Nat.eqb t 0 then Some []
      else match take (mf_arity t) a1 with
           | None => None
           | Some (ps, a2) =>
             match mf RO t x ps with
             | None => None
             | Some y => match walk_spec n' (S i) x a2 with
                         | None => None
                         | Some l => Some (if gtb RO y (eps RO) then (i, y) :: l else l)
                         end
             end
           end
    end
  end.

Lemma walk_forward : forall n i x a p l, walk_spec n i x a = Some l ->
  forall cnt pi di ri pv dv rv,
  length pi = (p + cnt)%nat -> length di = length l -> length pv = (p + cnt)%nat -> length dv = length l ->
  mf_walk RO n i x a p {| sidx := pi ++ di ++ ri; sval := pv ++ dv ++ rv |} cnt =
  Ok ({| sidx := pi ++ map fst l ++ ri; sval := pv ++ map snd l ++ rv |}, (cnt + length l)%nat).
Proof.
  induction n as [|n IH]; intros i x a p l H cnt pi di ri pv dv rv Hpi Hdi Hpv Hdv.
  - cbn in H. inversion H. subst l. destruct di; [|discriminate]. destruct dv; [|discriminate]. cbn. rewrite Nat.add_0_r. reflexivity.
  - cbn [walk_spec] in H. cbn [mf_walk]. destruct a as [|v a1]; [discriminate|].
    destruct (Nat.eqb (tag_of RO v) 0).
    { inversion H. subst l. destruct di; [|discriminate]. destruct dv; [|discriminate]. cbn. rewrite Nat.add_0_r. reflexivity. }
    destruct (take (mf_arity (tag_of RO v)) a1) as [[ps a2]|]; [|discriminate].
    destruct (mf RO (tag_of RO v) x ps) as [y|]; [|discriminate].
    destruct (walk_spec n (S i) x a2) as [l'|] eqn:W; [|discriminate].
    destruct (gtb RO y (eps RO)).
    + inversion H. subst l. cbn [length] in Hdi, Hdv.
      destruct di as [|d0 di']; [discriminate|]. destruct dv as [|v0 dv']; [discriminate|].
      cbn [length] in Hdi, Hdv.
      unfold wr_idx. cbn [sidx sval app]. rewrite (upd_app pi d0 (di' ++ ri) i (p + cnt) Hpi). cbn [option_map of_opt bind].
      unfold wr_val. cbn [sidx sval app]. rewrite (upd_app pv v0 (dv' ++ rv) y (p + cnt) Hpv). cbn [option_map of_opt bind].
      rewrite (app_cons_r pi), (app_cons_r pv).
      rewrite (IH (S i) x a2 p l' W (S cnt) (pi ++ [i]) di' ri (pv ++ [y]) dv' rv).
      * cbn [map fst snd length]. rewrite <- !app_assoc. cbn [app]. f_equal. f_equal. lia.
      * rewrite app_length. cbn. lia.
      * lia.
      * rewrite app_length. cbn. lia.
      * lia.
    + inversion H. subst l'. apply (IH (S i) x a2 p l W cnt pi di ri pv dv rv); assumption.
Qed.

(* recorded indices are the loop counter values: all below i + n *)
Lemma walk_spec_idx : forall n i x a l, walk_spec n i x a = Some l -> Forall (fun q => (i <= fst q < i + n)%nat) l.
Proof.
  induction n as [|n IH]; intros i x a l H; cbn [walk_spec] in H.
  - inversion H. constructor.
  - destruct a as [|v a1]; [discriminate|]. destruct (Nat.eqb (tag_of RO v) 0); [inversion H; constructor|].
    destruct (take (mf_arity (tag_of RO v)) a1) as [[ps a2]|]; [|discriminate].
    destruct (mf RO (tag_of RO v) x ps) as [y|]; [|discriminate].
    destruct (walk_spec n (S i) x a2) as [l'|] eqn:W; [|discriminate].
    specialize (IH (S i) x a2 l' W).
    assert (F : Forall (fun q => (i <= fst q < i + S n)%nat) l').
    { eapply Forall_impl; [|exact IH]. cbn. intros q Hq. lia. }
    destruct (gtb RO y (eps RO)); inversion H; subst l; [constructor; [cbn; lia|exact F]|exact F].
Qed.

(* every recorded value exceeds A_REAL_EPSILON (> 0) *)
Lemma walk_spec_val : forall n i x a l, walk_spec n i x a = Some l -> Forall (fun q => eps RO < snd q) l.
Proof.
  induction n as [|n IH]; intros i x a l H; cbn [walk_spec] in H.
  - inversion H. constructor.
  - destruct a as [|v a1]; [discriminate|]. destruct (Nat.eqb (tag_of RO v) 0); [inversion H; constructor|].
    destruct (take (mf_arity (tag_of RO v)) a1) as [[ps a2]|]; [|discriminate].
    destruct (mf RO (tag_of RO v) x ps) as [y|]; [|discriminate].
    destruct (walk_spec n (S i) x a2) as [l'|] eqn:W; [|discriminate].
    specialize (IH (S i) x a2 l' W). unfold gtb in H. cbn [ltb R13_ops] in H.
    destruct (Rltb_spec (eps RO) y); inversion H; subst l; [constructor; [exact r|exact IH]|exact IH].
Qed.

(* ------------------------------------------------------------------------------------------------ joint membership *)
Lemma nth_error_app_some {A} (l l' : list A) k x : nth_error l k = Some x -> nth_error (l ++ l') k = Some x.
Proof. intros H. rewrite nth_error_app1; [exact H|]. apply nth_error_Some. congruence. Qed.

Lemma joint_row_forward (f : R -> R -> R) ne i nec mat a ci rest : forall vs Q room inv it ii,
  length Q = (mat + it)%nat -> length room = length vs ->
  nth_error Q i = Some a ->
  (forall k b, nth_error vs k = Some b -> nth_error Q (ne + ii + k) = Some b) ->
  joint_row RO f ne i nec ii mat ({| sidx := ci; sval := Q ++ room ++ rest |}, inv, it) (length vs) =
  Ok ({| sidx := ci; sval := (Q ++ map (f a) vs) ++ rest |}, fold_left Rplus (map (f a) vs) inv, (it + length vs)%nat).
Proof.
  induction vs as [|b vs IH]; intros Q room inv it ii HQ Hroom Ha Hb.
  - destruct room; [|discriminate]. cbn. rewrite app_nil_r, Nat.add_0_r. reflexivity.
  - destruct room as [|r0 room]; [discriminate|]. cbn [length] in Hroom. cbn [joint_row length].
    unfold rd_val at 1. unfold rd. cbn [sval]. rewrite (nth_error_app_some Q _ i a Ha). cbn [of_opt bind].
    unfold rd_val at 1. unfold rd. cbn [sval].
    pose proof (Hb 0%nat b eq_refl) as Hb0. rewrite Nat.add_0_r in Hb0.
    rewrite (nth_error_app_some Q _ _ b Hb0). cbn [of_opt bind].
    unfold wr_val. cbn [sval sidx app]. rewrite (upd_app Q r0 (room ++ rest) (f a b) (mat + it) HQ). cbn [option_map of_opt bind].
    rewrite (app_cons_r Q).
    rewrite (IH (Q ++ [f a b]) room (add RO inv (f a b)) (S it) (S ii)).
    + cbn [map fold_left]. rewrite <- !app_assoc. cbn [app]. f_equal. f_equal. lia.
    + rewrite app_length. cbn. lia.
    + lia.
    + apply nth_error_app_some. exact Ha.
    + intros k b' Hk. apply nth_error_app_some. replace (ne + S ii + k)%nat with (ne + ii + S k)%nat by lia. apply Hb. exact Hk.
Qed.

(* weights of one row / the whole matrix, row-major, and the consequents they multiply *)
Definition wrow (f : R -> R -> R) (a : R) (vec : list R) : list R := map (f a) vec.
Definition wmat (f : R -> R -> R) (ve vec : list R) : list R := flat_map (fun a => wrow f a vec) ve.

Lemma wmat_length f ve vec : length (wmat f ve vec) = (length ve * length vec)%nat.
Proof. unfold wmat, wrow. induction ve as [|a ve IH]; cbn; [reflexivity|]. rewrite app_length, map_length, IH. reflexivity. Qed.

Lemma wmat_cons f a ve vec : wmat f (a :: ve) vec = map (f a) vec ++ wmat f ve vec.
Proof. reflexivity. Qed.

Lemma fold_left_Rplus_app l1 l2 acc : fold_left Rplus (l1 ++ l2) acc = fold_left Rplus l2 (fold_left Rplus l1 acc).
Proof. apply fold_left_app. Qed.

Lemma joint_rows_forward (f : R -> R -> R) nr ne mat vec Is rest : forall es ves Ip Q room inv it i,
  length es = length ves ->
  length Ip = i -> length Q = (mat + it)%nat -> length room = (length ves * length vec)%nat ->
  (forall k a, nth_error ves k = Some a -> nth_error Q (i + k) = Some a) ->
  (forall k b, nth_error vec k = Some b -> nth_error Q (ne + k) = Some b) ->
  joint_rows RO f nr ne (length vec) i mat ({| sidx := Ip ++ es ++ Is; sval := Q ++ room ++ rest |}, inv, it) (length ves) =
  Ok ({| sidx := Ip ++ map (fun k => (k * nr)%nat) es ++ Is; sval := (Q ++ wmat f ves vec) ++ rest |},
      fold_left Rplus (wmat f ves vec) inv, (it + length ves * length vec)%nat).
Proof.
  induction es as [|e0 es IH]; intros ves Ip Q room inv it i Hlen HIp HQ Hroom Hve Hvec.
  - destruct ves; [|discriminate]. cbn in Hroom. destruct room; [|discriminate]. cbn. rewrite app_nil_r, Nat.add_0_r. reflexivity.
  - destruct ves as [|a ves]; [discriminate|]. cbn [length] in Hlen, Hroom |- *. cbn [joint_rows].
    (* split the room: one row now, the others later *)
    assert (Hr : room = firstn (length vec) room ++ skipn (length vec) room) by (symmetry; apply firstn_skipn).
    set (room1 := firstn (length vec) room) in *. set (room2 := skipn (length vec) room) in *.
    assert (L1 : length room1 = length vec) by (unfold room1; rewrite firstn_length; lia).
    assert (L2 : length room2 = (length ves * length vec)%nat) by (unfold room2; rewrite skipn_length; lia).
    rewrite Hr. rewrite <- app_assoc.
    pose proof (Hve 0%nat a eq_refl) as Ha0. rewrite Nat.add_0_r in Ha0.
    rewrite (joint_row_forward f ne i (length vec) mat a (Ip ++ (e0 :: es) ++ Is) (room2 ++ rest) vec Q room1 inv it 0 HQ L1 Ha0).
    2:{ intros k b Hk. rewrite Nat.add_0_r. apply Hvec. exact Hk. }
    cbn [bind].
    unfold rd_idx, rd. cbn [sidx app]. rewrite nth_error_app2 by lia. rewrite HIp, Nat.sub_diag. cbn [nth_error of_opt bind].
    unfold wr_idx. cbn [sidx sval]. rewrite (upd_app Ip e0 (es ++ Is) (e0 * nr)%nat i HIp). cbn [option_map of_opt bind].
    rewrite (app_cons_r Ip).
    rewrite (IH ves (Ip ++ [(e0 * nr)%nat]) (Q ++ map (f a) vec) room2 (fold_left Rplus (map (f a) vec) inv) (it + length vec)%nat (S i)).
    + cbn [map]. rewrite wmat_cons, fold_left_Rplus_app. rewrite <- !app_assoc. cbn [app]. f_equal. f_equal. lia.
    + lia.
    + rewrite app_length. cbn. lia.
    + rewrite app_length, map_length. lia.
    + exact L2.
    + intros k a' Hk. apply nth_error_app_some. replace (S i + k)%nat with (i + S k)%nat by lia. apply Hve. exact Hk.
    + intros k b Hk. apply nth_error_app_some. apply Hvec. exact Hk.
Qed.

(* ------------------------------------------------------------------------------------------------ defuzzifier *)
Definition dotacc (ws cs : list R) (k : R) : R := fold_left (fun acc wc => acc + fst wc * snd wc) (combine ws cs) k.
Definition cmat (m : list R) (rows js : list nat) : list R := flat_map (fun r => map (fun j => nth (r + j) m 0) js) rows.

Lemma combine_app {A B} (l1 l1' : list A) (l2 l2' : list B) :
  length l1 = length l2 -> combine (l1 ++ l1') (l2 ++ l2') = combine l1 l2 ++ combine l1' l2'.
Proof.
  revert l2. induction l1 as [|x l1 IH]; intros [|y l2] H; try discriminate; cbn; [reflexivity|].
  f_equal. apply IH. cbn in H. lia.
Qed.
Lemma dotacc_app ws ws' cs cs' k : length ws = length cs -> dotacc (ws ++ ws') (cs ++ cs') k = dotacc ws' cs' (dotacc ws cs k).
Proof. intros H. unfold dotacc. rewrite combine_app by exact H. apply fold_left_app. Qed.

Lemma defuzz_row_forward m c ne nec mat row : forall ws js k it ii,
  length ws = length js ->
  (forall t w, nth_error ws t = Some w -> nth_error (sval c) (mat + it + t) = Some w) ->
  (forall t j, nth_error js t = Some j -> nth_error (sidx c) (ne + ii + t) = Some j) ->
  (forall j, In j js -> (row + j < length m)%nat) ->
  defuzz_row RO m c ne nec ii mat row (k, it) (length ws) =
  Ok (dotacc ws (map (fun j => nth (row + j) m 0) js) k, (it + length ws)%nat).
Proof.
  induction ws as [|w ws IH]; intros js k it ii Hl Hw Hj Hm.
  - destruct js; [|discriminate]. cbn. rewrite Nat.add_0_r. reflexivity.
  - destruct js as [|j js]; [discriminate|]. cbn [length] in Hl. cbn [defuzz_row length].
    unfold rd_val, rd. pose proof (Hw 0%nat w eq_refl) as H0. rewrite Nat.add_0_r in H0. rewrite H0. cbn [of_opt bind].
    unfold rd_idx, rd. pose proof (Hj 0%nat j eq_refl) as J0. rewrite Nat.add_0_r in J0. rewrite J0. cbn [of_opt bind].
    unfold rd. rewrite (nth_error_nth' m 0 (Hm j (or_introl eq_refl))). cbn [of_opt bind].
    rewrite (IH js (add RO k (mul RO w (nth (row + j) m 0))) (S it) (S ii)).
    + cbn [map]. unfold dotacc. cbn [combine fold_left fst snd]. f_equal. f_equal. lia.
    + lia.
    + intros t w' Ht. replace (mat + S it + t)%nat with (mat + it + S t)%nat by lia. apply Hw. exact Ht.
    + intros t j' Ht. replace (ne + S ii + t)%nat with (ne + ii + S t)%nat by lia. apply Hj. exact Ht.
    + intros j' Hj'. apply Hm. right. exact Hj'.
Qed.

Lemma cmat_cons m r rows js : cmat m (r :: rows) js = map (fun j => nth (r + j) m 0) js ++ cmat m rows js.
Proof. reflexivity. Qed.

Lemma defuzz_rows_forward m c ne mat (f : R -> R -> R) vec js : forall rows ves k it i,
  length rows = length ves -> length js = length vec ->
  (forall t r, nth_error rows t = Some r -> nth_error (sidx c) (i + t) = Some r) ->
  (forall t w, nth_error (wmat f ves vec) t = Some w -> nth_error (sval c) (mat + it + t) = Some w) ->
  (forall t j, nth_error js t = Some j -> nth_error (sidx c) (ne + t) = Some j) ->
  (forall r j, In r rows -> In j js -> (r + j < length m)%nat) ->
  defuzz_rows RO m c ne (length js) i mat (k, it) (length rows) =
  Ok (dotacc (wmat f ves vec) (cmat m rows js) k, (it + length rows * length js)%nat).
Proof.
  induction rows as [|r rows IH]; intros ves k it i Hl Hjs Hr Hw Hj Hm.
  - destruct ves; [|discriminate]. cbn. rewrite Nat.add_0_r. reflexivity.
  - destruct ves as [|a ves]; [discriminate|]. cbn [length] in Hl. cbn [defuzz_rows length].
    unfold rd_idx, rd. pose proof (Hr 0%nat r eq_refl) as R0. rewrite Nat.add_0_r in R0. rewrite R0. cbn [of_opt bind].
    assert (Lw : length (map (f a) vec) = length js) by (rewrite map_length; lia).
    rewrite <- Lw at 2.
    rewrite (defuzz_row_forward m c ne (length js) mat r (map (f a) vec) js k it 0 Lw).
    + cbn [bind]. rewrite (IH ves _ (it + length (map (f a) vec))%nat (S i)).
      * rewrite wmat_cons, cmat_cons. rewrite dotacc_app by (rewrite !map_length; lia). f_equal. f_equal. rewrite Lw. lia.
      * lia.
      * exact Hjs.
      * intros t r' Ht. replace (S i + t)%nat with (i + S t)%nat by lia. apply Hr. exact Ht.
      * intros t w Ht. replace (mat + (it + length (map (f a) vec)) + t)%nat with (mat + it + (length (map (f a) vec) + t))%nat by lia.
        apply Hw. rewrite wmat_cons. rewrite nth_error_app2 by lia. replace (length (map (f a) vec) + t - length (map (f a) vec))%nat with t by lia. exact Ht.
      * exact Hj.
      * intros r' j Hr' Hj'. apply Hm; [right; exact Hr'|exact Hj'].
    + intros t w Ht. apply Hw. rewrite wmat_cons. apply nth_error_app_some. exact Ht.
    + intros t j Ht. rewrite Nat.add_0_r. apply Hj. exact Ht.
    + intros j Hj'. apply Hm; [left; reflexivity|exact Hj'].
Qed.

(* ------------------------------------------------------------------------------------------------ a_pid_fuzzy_out_ *)
Definition sized (s : fuzzy (T := R)) : Prop :=
  length (sidx (sc s)) = idx_cells (nfuzz s) /\ length (sval (sc s)) = val_cells (nfuzz s).
Definition rules_ok (s : fuzzy (T := R)) : Prop :=
  (forall m, mkp s = Some m -> length m = (nrule s * nrule s)%nat) /\
  (forall m, mki s = Some m -> length m = (nrule s * nrule s)%nat) /\
  (forall m, mkd s = Some m -> length m = (nrule s * nrule s)%nat).

(* joint membership weights w_ij (row-major over the active sets of e, then of ec), their sum, the consequents m_ij *)
Definition jw (s : fuzzy (T := R)) (ae aec : list (nat * R)) : list R :=
  wmat (fuzzy_opr RO (opr s)) (map snd ae) (map snd aec).
Definition jsum (s : fuzzy (T := R)) ae aec : R := fold_left Rplus (jw s ae aec) 0.
Definition jcons (s : fuzzy (T := R)) (m : list R) (ae aec : list (nat * R)) : list R :=
  cmat m (map (fun k => (k * nrule s)%nat) (map fst ae)) (map fst aec).
(* the offset a_pid_fuzzy_out_ adds to one base gain: (sum of w_ij * m_ij) * (1 / sum of w_ij); 0 for a NULL rule base *)
Definition goff (s : fuzzy (T := R)) (m : option (list R)) ae aec : R :=
  match m with
  | None => 0
  | Some l => dotacc (jw s ae aec) (jcons s l ae aec) 0 * (1 / jsum s ae aec)
  end.
Definition fires (s : fuzzy (T := R)) ae aec : Prop := ae <> [] /\ aec <> [] /\ 0 < jsum s ae aec.

Lemma split_room {A} (l : list A) k : (k <= length l)%nat ->
  l = firstn k l ++ skipn k l /\ length (firstn k l) = k /\ length (skipn k l) = (length l - k)%nat.
Proof. intros H. split; [symmetry; apply firstn_skipn|]. split; [apply firstn_length_le; exact H|apply skipn_length]. Qed.

Lemma defuzz_forward s m c ne mat ae aec inv :
  (forall l, m = Some l -> length l = (nrule s * nrule s)%nat) ->
  Forall (fun q => (fst q < nrule s)%nat) ae -> Forall (fun q => (fst q < nrule s)%nat) aec ->
  ne = length ae ->
  (forall t r, nth_error (map (fun k => (k * nrule s)%nat) (map fst ae)) t = Some r -> nth_error (sidx c) (0 + t) = Some r) ->
  (forall t w, nth_error (jw s ae aec) t = Some w -> nth_error (sval c) (mat + 0 + t) = Some w) ->
  (forall t j, nth_error (map fst aec) t = Some j -> nth_error (sidx c) (ne + t) = Some j) ->
  defuzz RO m c ne (length aec) mat inv =
  Ok (match m with None => 0 | Some l => dotacc (jw s ae aec) (jcons s l ae aec) 0 * inv end).
Proof.
  intros Hm Fe Fec Hne Hr Hw Hj. subst ne. destruct m as [l|]; [|reflexivity]. cbn [defuzz]. change (ofZ RO 0) with 0.
  specialize (Hm l eq_refl).
  pose proof (defuzz_rows_forward l c (length ae) mat (fuzzy_opr RO (opr s)) (map snd aec) (map fst aec)
                (map (fun k => (k * nrule s)%nat) (map fst ae)) (map snd ae) 0 0%nat 0%nat) as D.
  rewrite !map_length in D. rewrite D; [ | reflexivity | reflexivity | exact Hr | exact Hw | exact Hj | ].
  - cbn [bind fst]. reflexivity.
  - intros r j Hr' Hj'. rewrite Hm.
    apply in_map_iff in Hr'. destruct Hr' as (k & <- & Hk). apply in_map_iff in Hk. destruct Hk as (q & <- & Hq).
    apply in_map_iff in Hj'. destruct Hj' as (q' & <- & Hq').
    rewrite Forall_forall in Fe, Fec. specialize (Fe q Hq). specialize (Fec q' Hq'). cbn in Fe, Fec. nia.
Qed.

Definition firesb (s : fuzzy (T := R)) ae aec : bool :=
  negb (Nat.eqb (length ae) 0) && negb (Nat.eqb (length aec) 0) && Rltb 0 (jsum s ae aec).
Definition gsel (s : fuzzy (T := R)) m ae aec : R := if firesb s ae aec then goff s m ae aec else 0.

Theorem fuzzy_out_forward s ec e ae aec :
  sized s -> rules_ok s ->
  walk_spec (nrule s) 0 e (me s) = Some ae -> walk_spec (nrule s) 0 ec (mec s) = Some aec ->
  (length ae <= nfuzz s)%nat -> (length aec <= nfuzz s)%nat ->
  exists c', (length (sidx c') = idx_cells (nfuzz s) /\ length (sval c') = val_cells (nfuzz s)) /\
    fuzzy_out_ RO s ec e =
      Ok (fuzzy_exit RO s c' (gsel s (mkp s) ae aec) (gsel s (mki s) ae aec) (gsel s (mkd s) ae aec)).
Proof.
  intros [SI SV] (RKp & RKi & RKd) We Wec Le Lec.
  unfold gsel, firesb.
  unfold idx_cells in SI. unfold val_cells in SV. unfold idx_cells, val_cells.
  remember (sc s) as c0 eqn:Ec0. destruct c0 as [I0 V0]. cbn [sidx sval] in SI, SV.
  set (n := nfuzz s) in *. set (la := length ae) in *. set (lb := length aec) in *.
  assert (Hla : (la <= length I0 /\ la <= length V0)%nat) by nia.
  destruct (split_room I0 la (proj1 Hla)) as (EI & LI1 & LI2).
  destruct (split_room V0 la (proj2 Hla)) as (EV & LV1 & LV2).
  pose proof (walk_forward (nrule s) 0 e (me s) 0 ae We 0 [] (firstn la I0) (skipn la I0) [] (firstn la V0) (skipn la V0)
                eq_refl LI1 eq_refl LV1) as W1.
  cbn [app Nat.add] in W1. rewrite <- EI, <- EV in W1. fold la in W1.
  unfold fuzzy_out_, fuzzy_out_gen. rewrite <- Ec0. rewrite W1. cbn [bind].
  change (ofZ RO 0) with 0. change (ofZ RO 1) with 1.
  destruct (Nat.eqb_spec la 0) as [Z|NZ].
  { cbn [negb andb]. eexists. split; [|reflexivity]. cbn [sidx sval]. rewrite !app_length, !map_length. fold la. lia. }
  cbn [negb andb].
  set (I2 := skipn la I0) in *. set (V2 := skipn la V0) in *.
  assert (Hlb : (lb <= length I2 /\ lb <= length V2)%nat) by nia.
  destruct (split_room I2 lb (proj1 Hlb)) as (EI2 & LI3 & LI4).
  destruct (split_room V2 lb (proj2 Hlb)) as (EV2 & LV3 & LV4).
  pose proof (walk_forward (nrule s) 0 ec (mec s) la aec Wec 0 (map fst ae) (firstn lb I2) (skipn lb I2)
                (map snd ae) (firstn lb V2) (skipn lb V2)) as W2.
  rewrite !map_length in W2. fold la in W2. specialize (W2 ltac:(lia) LI3 ltac:(lia) LV3).
  rewrite <- EI2, <- EV2 in W2. cbn [Nat.add] in W2. fold lb in W2.
  rewrite W2. cbn [bind].
  destruct (Nat.eqb_spec lb 0) as [Zb|NZb].
  { cbn [negb andb]. eexists. split; [|reflexivity]. cbn [sidx sval]. rewrite !app_length, !map_length. fold la lb. lia. }
  cbn [negb andb].
  set (I3 := skipn lb I2) in *. set (V3 := skipn lb V2) in *.
  assert (Hm : (la * lb <= length V3)%nat) by nia.
  destruct (split_room V3 (la * lb) Hm) as (EV3 & LV5 & LV6).
  pose proof (joint_rows_forward (fuzzy_opr RO (opr s)) (nrule s) la (la + lb) (map snd aec) (map fst aec ++ I3)
                (skipn (la * lb) V3) (map fst ae) (map snd ae) [] (map snd ae ++ map snd aec) (firstn (la * lb) V3) 0 0%nat 0%nat) as J.
  rewrite !app_length, !map_length in J. fold la lb in J.
  specialize (J eq_refl eq_refl ltac:(lia) LV5).
  rewrite <- EV3 in J. cbn [app Nat.add] in J. rewrite <- (app_assoc (map snd ae) (map snd aec) V3) in J.
  assert (P1 : forall (k : nat) (a : R), nth_error (map snd ae) k = Some a ->
               nth_error (map snd ae ++ map snd aec) k = Some a) by (intros k a H; apply nth_error_app_some; exact H).
  assert (P2 : forall (k : nat) (b : R), nth_error (map snd aec) k = Some b ->
               nth_error (map snd ae ++ map snd aec) (la + k) = Some b).
  { intros k b H. rewrite nth_error_app2 by (rewrite map_length; fold la; lia). rewrite map_length. fold la.
    replace (la + k - la)%nat with k by lia. exact H. }
  specialize (J P1 P2). rewrite J. cbn [bind].
  fold (jw s ae aec). fold (jsum s ae aec).
  set (c3 := {| sidx := map (fun k : nat => (k * nrule s)%nat) (map fst ae) ++ map fst aec ++ I3;
                sval := ((map snd ae ++ map snd aec) ++ jw s ae aec) ++ skipn (la * lb) V3 |}).
  assert (Sz : length (sidx c3) = (2 * n)%nat /\ length (sval c3) = (n * (2 + n))%nat).
  { unfold c3. cbn [sidx sval]. unfold jw. rewrite !app_length, !map_length, wmat_length, !map_length. fold la lb.
    unfold I3, V3, I2, V2 in *. rewrite !skipn_length in *. nia. }
  exists c3. split; [exact Sz|].
  unfold gtb. cbn [ltb div R13_ops].
  destruct (Rltb_spec 0 (jsum s ae aec)) as [Pos|NPos]; cbn [negb]; [|reflexivity].
  assert (Fe : Forall (fun q => (fst q < nrule s)%nat) ae).
  { eapply Forall_impl; [|exact (walk_spec_idx _ _ _ _ _ We)]. cbn. intros q Hq. lia. }
  assert (Fec : Forall (fun q => (fst q < nrule s)%nat) aec).
  { eapply Forall_impl; [|exact (walk_spec_idx _ _ _ _ _ Wec)]. cbn. intros q Hq. lia. }
  assert (Hr : forall t r, nth_error (map (fun k => (k * nrule s)%nat) (map fst ae)) t = Some r ->
                           nth_error (sidx c3) (0 + t) = Some r).
  { intros t r H. unfold c3. cbn [sidx Nat.add]. apply nth_error_app_some. exact H. }
  assert (Hw : forall t w, nth_error (jw s ae aec) t = Some w -> nth_error (sval c3) (la + lb + 0 + t) = Some w).
  { intros t w H. unfold c3. cbn [sval]. apply nth_error_app_some.
    rewrite nth_error_app2 by (rewrite app_length, !map_length; fold la lb; lia).
    rewrite app_length, !map_length. fold la lb. replace (la + lb + 0 + t - (la + lb))%nat with t by lia. exact H. }
  assert (Hj : forall t j, nth_error (map fst aec) t = Some j -> nth_error (sidx c3) (la + t) = Some j).
  { intros t j H. unfold c3. cbn [sidx]. rewrite nth_error_app2 by (rewrite !map_length; fold la; lia).
    rewrite !map_length. fold la. replace (la + t - la)%nat with t by lia. apply nth_error_app_some. exact H. }
  pose proof (defuzz_forward s (mkp s) c3 la (la + lb) ae aec (1 / jsum s ae aec) RKp Fe Fec eq_refl Hr Hw Hj) as D1.
  pose proof (defuzz_forward s (mki s) c3 la (la + lb) ae aec (1 / jsum s ae aec) RKi Fe Fec eq_refl Hr Hw Hj) as D2.
  pose proof (defuzz_forward s (mkd s) c3 la (la + lb) ae aec (1 / jsum s ae aec) RKd Fe Fec eq_refl Hr Hw Hj) as D3.
  fold lb in D1, D2, D3. rewrite D1. cbn [bind]. rewrite D2. cbn [bind]. rewrite D3. cbn [bind]. reflexivity.
Qed.

(* ------------------------------------------------------------------------------------------------ sums *)
Lemma fold_Rplus_acc l : forall acc, fold_left Rplus l acc = acc + fold_left Rplus l 0.
Proof.
  induction l as [|x l IH]; intros acc; cbn; [lra|]. rewrite (IH (acc + x)), (IH (0 + x)). lra.
Qed.
Lemma sum_nonneg l : Forall (fun x => 0 <= x) l -> 0 <= fold_left Rplus l 0.
Proof. induction 1 as [|x l Hx _ IH]; cbn; [lra|]. rewrite fold_Rplus_acc. lra. Qed.
Lemma sum_pos l : Forall (fun x => 0 < x) l -> l <> [] -> 0 < fold_left Rplus l 0.
Proof.
  intros F N. destruct F as [|x l Hx F]; [congruence|]. cbn. rewrite fold_Rplus_acc.
  assert (0 <= fold_left Rplus l 0) by (apply sum_nonneg; eapply Forall_impl; [|exact F]; cbn; intros; lra). lra.
Qed.
Lemma sum_zero_iff l : Forall (fun x => 0 <= x) l -> (fold_left Rplus l 0 = 0 <-> Forall (fun x => x = 0) l).
Proof.
  induction 1 as [|x l Hx F IH]; cbn.
  - split; [constructor|reflexivity].
  - rewrite fold_Rplus_acc. pose proof (sum_nonneg l F) as S. split.
    + intros E. constructor; [lra|]. apply IH. lra.
    + intros E. inversion E as [|? ? E1 E2]. subst. apply IH in E2. lra.
Qed.

Lemma wmat_Forall (P : R -> Prop) f ve vec :
  Forall P (wmat f ve vec) <-> (forall a b, In a ve -> In b vec -> P (f a b)).
Proof.
  unfold wmat, wrow. rewrite Forall_forall. split.
  - intros H a b Ha Hb. apply H. apply in_flat_map. exists a. split; [exact Ha|]. apply in_map. exact Hb.
  - intros H w Hw. apply in_flat_map in Hw. destruct Hw as (a & Ha & Hw). apply in_map_iff in Hw. destruct Hw as (b & <- & Hb).
    apply H; assumption.
Qed.
Lemma wmat_nonempty f ve vec : ve <> [] -> vec <> [] -> wmat f ve vec <> [].
Proof. intros H1 H2 E. apply (f_equal (@length R)) in E. rewrite wmat_length in E. destruct ve; [congruence|]. destruct vec; [congruence|]. cbn in E. lia. Qed.

(* weighted mean of consequents: between the smallest and the largest of them *)
Lemma dotacc_bounds lo hi : forall ws cs accw accd,
  length ws = length cs -> Forall (fun w => 0 <= w) ws -> Forall (fun c => lo <= c <= hi) cs ->
  lo * accw <= accd <= hi * accw ->
  lo * fold_left Rplus ws accw <= dotacc ws cs accd <= hi * fold_left Rplus ws accw.
Proof.
  induction ws as [|w ws IH]; intros cs accw accd Hl Fw Fc Hacc.
  - destruct cs; [|discriminate]. cbn. exact Hacc.
  - destruct cs as [|c cs]; [discriminate|]. inversion Fw as [|? ? Hw Fw']. inversion Fc as [|? ? Hc Fc']. subst.
    unfold dotacc. cbn [combine fold_left fst snd]. apply IH; [cbn in Hl; lia|assumption|assumption|]. nra.
Qed.
Lemma weighted_mean_bounds lo hi ws cs :
  length ws = length cs -> Forall (fun w => 0 <= w) ws -> Forall (fun c => lo <= c <= hi) cs ->
  0 < fold_left Rplus ws 0 ->
  lo <= dotacc ws cs 0 * (1 / fold_left Rplus ws 0) <= hi.
Proof.
  intros Hl Fw Fc Hs. pose proof (dotacc_bounds lo hi ws cs 0 0 Hl Fw Fc ltac:(lra)) as B.
  set (S := fold_left Rplus ws 0) in *. set (D := dotacc ws cs 0) in *.
  assert (Hi : 0 < / S) by (apply Rinv_0_lt_compat; exact Hs).
  unfold Rdiv. rewrite Rmult_1_l. split.
  - replace lo with (lo * S * / S) by (field; lra). apply Rmult_le_compat_r; lra.
  - replace hi with (hi * S * / S) by (field; lra). apply Rmult_le_compat_r; lra.
Qed.

(* ------------------------------------------------------------------------------------------------ the statements *)
Definition unit_vals (l : list (nat * R)) : Prop := Forall (fun q => 0 < snd q <= 1) l.

Lemma in_map_snd (l : list (nat * R)) a : In a (map snd l) -> exists q, In q l /\ snd q = a.
Proof. intros H. apply in_map_iff in H. destruct H as (q & E & H). exists q. split; assumption. Qed.

Lemma jw_Forall (P : R -> Prop) s ae aec :
  (forall a b, In a (map snd ae) -> In b (map snd aec) -> P (fuzzy_opr RO (opr s) a b)) -> Forall P (jw s ae aec).
Proof. intros H. unfold jw. apply wmat_Forall. exact H. Qed.

Lemma unit_vals_in l a : unit_vals l -> In a (map snd l) -> 0 < a <= 1.
Proof. intros U H. apply in_map_snd in H. destruct H as (q & Hq & <-). unfold unit_vals in U. rewrite Forall_forall in U. apply U. exact Hq. Qed.

Lemma jw_nonneg s ae aec : unit_vals ae -> unit_vals aec -> Forall (fun w => 0 <= w) (jw s ae aec).
Proof.
  intros Ue Uec. apply jw_Forall. intros a b Ha Hb.
  apply opr_weight_nonneg; [exact (unit_vals_in ae a Ue Ha)|exact (unit_vals_in aec b Uec Hb)].
Qed.

(* the joint membership sum is positive - the division 1/sum is defined - for every operator except the bounded product *)
Theorem joint_sum_positive s ae aec :
  opr s <> 3%nat -> ae <> [] -> aec <> [] -> unit_vals ae -> unit_vals aec -> 0 < jsum s ae aec.
Proof.
  intros Hk Ne Nec Ue Uec. unfold jsum. apply sum_pos.
  - apply jw_Forall. intros a b Ha Hb. apply opr_weight_pos; [exact Hk|exact (unit_vals_in ae a Ue Ha)|exact (unit_vals_in aec b Uec Hb)].
  - unfold jw. apply wmat_nonempty; intros E; apply map_eq_nil in E; congruence.
Qed.

(* for the bounded product the sum vanishes exactly when no pair of active memberships sums above 1 *)
Theorem bounded_sum_zero_iff s ae aec :
  opr s = 3%nat -> unit_vals ae -> unit_vals aec ->
  (~ 0 < jsum s ae aec <-> (forall a b, In a (map snd ae) -> In b (map snd aec) -> a + b <= 1)).
Proof.
  intros Hk Ue Uec. pose proof (jw_nonneg s ae aec Ue Uec) as NN. pose proof (sum_nonneg _ NN) as S0. fold (jsum s ae aec) in S0.
  pose proof (sum_zero_iff _ NN) as Z. fold (jsum s ae aec) in Z. split.
  - intros H a b Ha Hb. assert (E : jsum s ae aec = 0) by lra. apply Z in E. unfold jw in E. rewrite wmat_Forall in E.
    specialize (E a b Ha Hb). rewrite Hk in E. cbn [fuzzy_opr] in E. apply cap_bounded_zero_iff. exact E.
  - intros H. assert (E : jsum s ae aec = 0); [|lra]. apply Z. unfold jw. apply wmat_Forall. intros a b Ha Hb.
    rewrite Hk. cbn [fuzzy_opr]. apply cap_bounded_zero_iff. apply H; assumption.
Qed.

Lemma cmat_Forall (P : R -> Prop) m rows js :
  (forall r j, In r rows -> In j js -> P (nth (r + j) m 0)) -> Forall P (cmat m rows js).
Proof.
  intros H. unfold cmat. rewrite Forall_forall. intros c Hc. apply in_flat_map in Hc. destruct Hc as (r & Hr & Hc).
  apply in_map_iff in Hc. destruct Hc as (j & <- & Hj). apply H; assumption.
Qed.
Lemma cmat_length m rows js : length (cmat m rows js) = (length rows * length js)%nat.
Proof. unfold cmat. induction rows as [|r rows IH]; cbn; [reflexivity|]. rewrite app_length, map_length, IH. reflexivity. Qed.

(* the offset is a weighted mean of the consequents of the active rules: between the smallest and the largest *)
Theorem gains_convex s m ae aec lo hi :
  fires s ae aec -> unit_vals ae -> unit_vals aec ->
  (forall i j, In i (map fst ae) -> In j (map fst aec) -> lo <= nth (i * nrule s + j) m 0 <= hi) ->
  lo <= goff s (Some m) ae aec <= hi.
Proof.
  intros (Ne & Nec & Pos) Ue Uec Hc. unfold goff, jsum in *. apply weighted_mean_bounds.
  - unfold jw, jcons. rewrite wmat_length, cmat_length, !map_length. reflexivity.
  - apply jw_nonneg; assumption.
  - unfold jcons. apply cmat_Forall. intros r j Hr Hj. apply in_map_iff in Hr. destruct Hr as (i & <- & Hi). apply Hc; assumption.
  - exact Pos.
Qed.

(* a_pid_fuzzy_out_ as a whole, under the documented sizing *)
Theorem fuzzy_out_gains s ec e ae aec :
  sized s -> rules_ok s ->
  walk_spec (nrule s) 0 e (me s) = Some ae -> walk_spec (nrule s) 0 ec (mec s) = Some aec ->
  (length ae <= nfuzz s)%nat -> (length aec <= nfuzz s)%nat ->
  exists s', fuzzy_out_ RO s ec e = Ok s' /\ sized s' /\ same_setup s s' /\
    kp (fpid s') = bkp s + gsel s (mkp s) ae aec /\
    ki (fpid s') = bki s + gsel s (mki s) ae aec /\
    kd (fpid s') = bkd s + gsel s (mkd s) ae aec /\
    sum (fpid s') = sum (fpid s) /\ out (fpid s') = out (fpid s) /\ err (fpid s') = err (fpid s).
Proof.
  intros Sz Rk We Wec Le Lec. destruct (fuzzy_out_forward s ec e ae aec Sz Rk We Wec Le Lec) as (c' & (S1 & S2) & E).
  eexists. split; [exact E|]. split; [split; cbn; assumption|]. split; [apply fuzzy_exit_setup|]. cbn. repeat split.
Qed.

Lemma gsel_cases s m ae aec :
  (fires s ae aec /\ gsel s m ae aec = goff s m ae aec) \/ (~ fires s ae aec /\ gsel s m ae aec = 0).
Proof.
  unfold gsel, firesb, fires.
  destruct (Nat.eqb_spec (length ae) 0) as [Z|NZ]; cbn [negb andb].
  { right. split; [|reflexivity]. intros (N & _). apply N. apply length_zero_iff_nil. exact Z. }
  destruct (Nat.eqb_spec (length aec) 0) as [Zb|NZb]; cbn [negb andb].
  { right. split; [|reflexivity]. intros (_ & N & _). apply N. apply length_zero_iff_nil. exact Zb. }
  destruct (Rltb_spec 0 (jsum s ae aec)) as [P|P].
  - left. split; [|reflexivity]. repeat split; [intros E; subst; cbn in NZ; lia|intros E; subst; cbn in NZ; cbn in NZb; lia|exact P].
  - right. split; [|reflexivity]. intros (_ & _ & Q). contradiction.
Qed.

(* every derived gain is finite and lies between base + smallest and base + largest active consequent; it IS the base gain
   when no rule fires (no active set, or a non-positive joint membership sum: the repaired code skips the division) or
   when the rule base pointer is NULL *)
Theorem gain_between s m ae aec lo hi :
  unit_vals ae -> unit_vals aec ->
  (forall l, m = Some l -> forall i j, In i (map fst ae) -> In j (map fst aec) -> lo <= nth (i * nrule s + j) l 0 <= hi) ->
  (fires s ae aec /\ m <> None /\ lo <= gsel s m ae aec <= hi) \/ ((~ fires s ae aec \/ m = None) /\ gsel s m ae aec = 0).
Proof.
  intros Ue Uec Hc. destruct (gsel_cases s m ae aec) as [[F E]|[F E]].
  - destruct m as [l|].
    + left. split; [exact F|]. split; [discriminate|]. rewrite E. apply gains_convex; try assumption. apply Hc. reflexivity.
    + right. split; [right; reflexivity|]. rewrite E. reflexivity.
  - right. split; [left; exact F|exact E].
Qed.
