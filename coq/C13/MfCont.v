(* C13 proofs, part 2: continuity (stdlib `continuity`, i.e. at every real x) of the piecewise membership functions when
   the widths are non-zero - the adjacent pieces agree at every breakpoint - and of the smooth families. *)
From Coq Require Import Reals ZArith List Lra Lia Bool.
From LibaV Require Import Common.NumOps Common.ROps C13.R13Ops C13.MfDefs C13.MfProofs.
Local Open Scope R_scope.

Local Notation RO := R13_ops.

Definition cont (f : R -> R) (x : R) : Prop :=
  forall eps, 0 < eps -> exists d, 0 < d /\ forall t, Rabs (t - x) < d -> Rabs (f t - f x) < eps.

Lemma cont_iff f x : continuity_pt f x <-> cont f x.
Proof.
  unfold continuity_pt, continue_in, limit1_in, limit_in, cont, D_x, no_cond. simpl. unfold R_dist. split.
  - intros H eps He. destruct (H eps He) as (d & Hd & K). exists d. split; [lra|]. intros t Ht.
    destruct (Req_dec x t) as [E|E].
    + subst t. replace (f x - f x) with 0 by ring. rewrite Rabs_R0. exact He.
    + apply K. split; [split; [exact I|exact E]|exact Ht].
  - intros H eps He. destruct (H eps He) as (d & Hd & K). exists d. split; [lra|]. intros t [_ Ht]. apply K. exact Ht.
Qed.

Lemma cont_ext f g x : (forall t, f t = g t) -> cont f x -> cont g x.
Proof. intros E H eps He. destruct (H eps He) as (d & Hd & K). exists d. split; [exact Hd|]. intros t Ht. rewrite <- !E. apply K. exact Ht. Qed.

(* two continuous pieces that agree at the breakpoint b, selected by any test that is true below b and false above *)
Lemma glue (p : R -> bool) (g h : R -> R) b x :
  (forall t, t < b -> p t = true) -> (forall t, b < t -> p t = false) ->
  cont g x -> cont h x -> (x = b -> g b = h b) ->
  cont (fun t => if p t then g t else h t) x.
Proof.
  intros Pl Pr Hg Hh E eps He.
  destruct (Hg eps He) as (dg & Hdg & Kg). destruct (Hh eps He) as (dh & Hdh & Kh).
  destruct (Rtotal_order x b) as [L|[Eq|G]].
  - exists (Rmin dg (b - x)). split; [apply Rmin_glb_lt; lra|]. intros t Ht.
    assert (Ht1 : Rabs (t - x) < dg) by (eapply Rlt_le_trans; [exact Ht|apply Rmin_l]).
    assert (Ht2 : Rabs (t - x) < b - x) by (eapply Rlt_le_trans; [exact Ht|apply Rmin_r]).
    apply Rabs_def2 in Ht2. rewrite (Pl t), (Pl x) by lra. apply Kg. exact Ht1.
  - subst x. specialize (E eq_refl). exists (Rmin dg dh). split; [apply Rmin_glb_lt; lra|]. intros t Ht.
    assert (Ht1 : Rabs (t - b) < dg) by (eapply Rlt_le_trans; [exact Ht|apply Rmin_l]).
    assert (Ht2 : Rabs (t - b) < dh) by (eapply Rlt_le_trans; [exact Ht|apply Rmin_r]).
    assert (Fb : (if p b then g b else h b) = g b) by (destruct (p b); [reflexivity|symmetry; exact E]).
    rewrite Fb. destruct (Rtotal_order t b) as [L|[Eq|G]].
    + rewrite (Pl t L). apply Kg. exact Ht1.
    + subst t. rewrite Fb. replace (g b - g b) with 0 by ring. rewrite Rabs_R0. exact He.
    + rewrite (Pr t G). rewrite E. apply Kh. exact Ht2.
  - exists (Rmin dh (x - b)). split; [apply Rmin_glb_lt; lra|]. intros t Ht.
    assert (Ht1 : Rabs (t - x) < dh) by (eapply Rlt_le_trans; [exact Ht|apply Rmin_l]).
    assert (Ht2 : Rabs (t - x) < x - b) by (eapply Rlt_le_trans; [exact Ht|apply Rmin_r]).
    apply Rabs_def2 in Ht2. rewrite (Pr t), (Pr x) by lra. apply Kh. exact Ht1.
Qed.

(* the test is true ABOVE b *)
Lemma glue_above (p : R -> bool) (g h : R -> R) b x :
  (forall t, b < t -> p t = true) -> (forall t, t < b -> p t = false) ->
  cont g x -> cont h x -> (x = b -> g b = h b) ->
  cont (fun t => if p t then g t else h t) x.
Proof.
  intros Pr Pl Hg Hh E.
  apply cont_ext with (f := fun t => if negb (p t) then h t else g t).
  - intros t. destruct (p t); reflexivity.
  - apply (glue (fun t => negb (p t)) h g b x); try assumption.
    + intros t Ht. rewrite (Pl t Ht). reflexivity.
    + intros t Ht. rewrite (Pr t Ht). reflexivity.
    + intros Ex. symmetry. apply E. exact Ex.
Qed.

Lemma ltb_below b t : t < b -> Rltb t b = true.  Proof. intros. destruct (Rltb_spec t b); [reflexivity|lra]. Qed.
Lemma ltb_not_below b t : b < t -> Rltb t b = false.  Proof. intros. destruct (Rltb_spec t b); [lra|reflexivity]. Qed.
Lemma gtb_above b t : b < t -> Rltb b t = true.  Proof. intros. destruct (Rltb_spec b t); [reflexivity|lra]. Qed.
Lemma gtb_not_above b t : t < b -> Rltb b t = false.  Proof. intros. destruct (Rltb_spec b t); [lra|reflexivity]. Qed.
Lemma geb_above b t : b < t -> Rleb b t = true.  Proof. intros. destruct (Rleb_spec b t); [reflexivity|lra]. Qed.
Lemma geb_not_above b t : t < b -> Rleb b t = false.  Proof. intros. destruct (Rleb_spec b t); [lra|reflexivity]. Qed.
Lemma leb_below b t : t < b -> Rleb t b = true.  Proof. intros. destruct (Rleb_spec t b); [reflexivity|lra]. Qed.
Lemma leb_not_below b t : b < t -> Rleb t b = false.  Proof. intros. destruct (Rleb_spec t b); [lra|reflexivity]. Qed.

Lemma cont_of_derivable f x : derivable_pt f x -> cont f x.
Proof. intros H. apply cont_iff. apply derivable_continuous_pt. exact H. Qed.

Lemma cont_const k x : cont (fun _ => k) x.
Proof. apply cont_of_derivable. reg. Qed.
Lemma cont_ramp_up a w x : cont (fun t => (t - a) / w) x.
Proof. apply cont_ext with (f := fun t => (t - a) * / w); [intros; reflexivity|]. apply cont_of_derivable. reg. Qed.
Lemma cont_ramp_down a w x : cont (fun t => (a - t) / w) x.
Proof. apply cont_ext with (f := fun t => (a - t) * / w); [intros; reflexivity|]. apply cont_of_derivable. reg. Qed.
Lemma cont_sq_up a w x : cont (fun t => 2 * (((t - a) / w) * ((t - a) / w))) x.
Proof. apply cont_ext with (f := fun t => 2 * (((t - a) * / w) * ((t - a) * / w))); [intros; reflexivity|]. apply cont_of_derivable. reg. Qed.
Lemma cont_sq_down a w x : cont (fun t => 2 * (((a - t) / w) * ((a - t) / w))) x.
Proof. apply cont_ext with (f := fun t => 2 * (((a - t) * / w) * ((a - t) * / w))); [intros; reflexivity|]. apply cont_of_derivable. reg. Qed.
Lemma cont_1m_sq_up a w x : cont (fun t => 1 - 2 * (((t - a) / w) * ((t - a) / w))) x.
Proof. apply cont_ext with (f := fun t => 1 - 2 * (((t - a) * / w) * ((t - a) * / w))); [intros; reflexivity|]. apply cont_of_derivable. reg. Qed.
Lemma cont_1m_sq_down a w x : cont (fun t => 1 - 2 * (((a - t) / w) * ((a - t) / w))) x.
Proof. apply cont_ext with (f := fun t => 1 - 2 * (((a - t) * / w) * ((a - t) * / w))); [intros; reflexivity|]. apply cont_of_derivable. reg. Qed.

(* ---------------------------------------------------------------- the piecewise families *)
Ltac below := (intros; first [apply ltb_below|apply ltb_not_below|apply gtb_above|apply gtb_not_above|apply geb_above|apply geb_not_above|apply leb_below|apply leb_not_below]; assumption).

Lemma up_piece_cont a w x : w <> 0 -> cont (fun t => if Rltb a t then (t - a) / w else 0) x.
Proof.
  intros Hw. apply (glue_above (fun t => Rltb a t) (fun t => (t - a) / w) (fun _ => 0) a x); try below.
  - apply cont_ramp_up.
  - apply cont_const.
  - intros _. unfold Rdiv. ring.
Qed.
Lemma down_piece_cont d w x : w <> 0 -> cont (fun t => if Rltb t d then (d - t) / w else 0) x.
Proof.
  intros Hw. apply (glue (fun t => Rltb t d) (fun t => (d - t) / w) (fun _ => 0) d x); try below.
  - apply cont_ramp_down.
  - apply cont_const.
  - intros _. unfold Rdiv. ring.
Qed.

Theorem trap_continuous a b c d : a < b -> b <= c -> c < d -> continuity (fun x => mf_trap RO x a b c d).
Proof.
  intros Hab Hbc Hcd x. apply cont_iff. unfold mf_trap. unfold13.
  apply (glue (fun t => Rltb t b) (fun t => if Rltb a t then (t - a) / (b - a) else 0)
              (fun t => if Rltb c t then (if Rltb t d then (d - t) / (d - c) else 0) else 1) b x); try below.
  - apply up_piece_cont. lra.
  - apply (glue_above (fun t => Rltb c t) (fun t => if Rltb t d then (d - t) / (d - c) else 0) (fun _ => 1) c x); try below.
    + apply down_piece_cont. lra.
    + apply cont_const.
    + intros _. rewrite ltb_below by lra. field. lra.
  - intros _. rcases; try lra; field; lra.
Qed.

Theorem tri_continuous a b c : a < b -> b < c -> continuity (fun x => mf_tri RO x a b c).
Proof. intros Hab Hbc. apply (trap_continuous a b b c); lra. Qed.

Theorem lins_continuous a b : a < b -> continuity (fun x => mf_lins RO x a b).
Proof.
  intros Hab x. apply cont_iff. unfold mf_lins. unfold13.
  apply (glue (fun t => Rltb t a) (fun _ => 0) (fun t => if Rleb b t then 1 else (t - a) / (b - a)) a x); try below.
  - apply cont_const.
  - apply (glue_above (fun t => Rleb b t) (fun _ => 1) (fun t => (t - a) / (b - a)) b x); try below.
    + apply cont_const.
    + apply cont_ramp_up.
    + intros _. field. lra.
  - intros _. rcases; try lra; unfold Rdiv; ring.
Qed.
Theorem linz_continuous a b : a < b -> continuity (fun x => mf_linz RO x a b).
Proof.
  intros Hab x. apply cont_iff. unfold mf_linz. unfold13.
  apply (glue (fun t => Rltb t a) (fun _ => 1) (fun t => if Rleb b t then 0 else (b - t) / (b - a)) a x); try below.
  - apply cont_const.
  - apply (glue_above (fun t => Rleb b t) (fun _ => 0) (fun t => (b - t) / (b - a)) b x); try below.
    + apply cont_const.
    + apply cont_ramp_down.
    + intros _. unfold Rdiv. ring.
  - intros _. rcases; try lra; field; lra.
Qed.

(* the repaired order of tests: x <= a, x >= b, then the midpoint; three breakpoints a < (a+b)/2 < b *)
Lemma s_cont a b x : a < b -> cont (fun t => mf_s RO t a b) x.
Proof.
  intros Hab. unfold mf_s, rpow. unfold13.
  apply cont_ext with (f := fun t => if Rleb t a then 0 else if Rleb b t then 1 else if Rltb ((a + b) / 2) t
     then 1 - 2 * (((b - t) / (b - a)) * ((b - t) / (b - a)))
     else 2 * (((t - a) / (b - a)) * ((t - a) / (b - a)))).
  { intros t. rewrite !Rpow_2. reflexivity. }
  apply (glue (fun t => Rleb t a) (fun _ => 0)
           (fun t => if Rleb b t then 1 else if Rltb ((a + b) / 2) t
              then 1 - 2 * (((b - t) / (b - a)) * ((b - t) / (b - a)))
              else 2 * (((t - a) / (b - a)) * ((t - a) / (b - a)))) a x); try below.
  - apply cont_const.
  - apply (glue_above (fun t => Rleb b t) (fun _ => 1)
             (fun t => if Rltb ((a + b) / 2) t
                then 1 - 2 * (((b - t) / (b - a)) * ((b - t) / (b - a)))
                else 2 * (((t - a) / (b - a)) * ((t - a) / (b - a)))) b x); try below.
    + apply cont_const.
    + apply (glue_above (fun t => Rltb ((a + b) / 2) t)
               (fun t => 1 - 2 * (((b - t) / (b - a)) * ((b - t) / (b - a))))
               (fun t => 2 * (((t - a) / (b - a)) * ((t - a) / (b - a)))) ((a + b) / 2) x); try below.
      * apply cont_1m_sq_down.
      * apply cont_sq_up.
      * intros _. field. lra.
    + intros _. rcases; try lra; unfold Rdiv; ring.
  - intros _. rcases; try lra; unfold Rdiv; ring.
Qed.
Theorem s_continuous a b : a < b -> continuity (fun x => mf_s RO x a b).
Proof. intros Hab x. apply cont_iff. apply s_cont. exact Hab. Qed.

Lemma z_cont a b x : a < b -> cont (fun t => mf_z RO t a b) x.
Proof.
  intros Hab. unfold mf_z, rpow. unfold13.
  apply cont_ext with (f := fun t => if Rleb b t then 0 else if Rleb t a then 1 else if Rltb t ((a + b) / 2)
     then 1 - 2 * (((t - a) / (b - a)) * ((t - a) / (b - a)))
     else 2 * (((b - t) / (b - a)) * ((b - t) / (b - a)))).
  { intros t. rewrite !Rpow_2. reflexivity. }
  apply (glue_above (fun t => Rleb b t) (fun _ => 0)
           (fun t => if Rleb t a then 1 else if Rltb t ((a + b) / 2)
              then 1 - 2 * (((t - a) / (b - a)) * ((t - a) / (b - a)))
              else 2 * (((b - t) / (b - a)) * ((b - t) / (b - a)))) b x); try below.
  - apply cont_const.
  - apply (glue (fun t => Rleb t a) (fun _ => 1)
             (fun t => if Rltb t ((a + b) / 2)
                then 1 - 2 * (((t - a) / (b - a)) * ((t - a) / (b - a)))
                else 2 * (((b - t) / (b - a)) * ((b - t) / (b - a)))) a x); try below.
    + apply cont_const.
    + apply (glue (fun t => Rltb t ((a + b) / 2))
               (fun t => 1 - 2 * (((t - a) / (b - a)) * ((t - a) / (b - a))))
               (fun t => 2 * (((b - t) / (b - a)) * ((b - t) / (b - a)))) ((a + b) / 2) x); try below.
      * apply cont_1m_sq_up.
      * apply cont_sq_down.
      * intros _. field. lra.
    + intros _. rcases; try lra; unfold Rdiv; ring.
  - intros _. rcases; try lra; unfold Rdiv; ring.
Qed.
Theorem z_continuous a b : a < b -> continuity (fun x => mf_z RO x a b).
Proof. intros Hab x. apply cont_iff. apply z_cont. exact Hab. Qed.

Theorem pi_continuous a b c d : a < b -> b <= c -> c < d -> continuity (fun x => mf_pi RO x a b c d).
Proof.
  intros Hab Hbc Hcd x. apply cont_iff. unfold mf_pi. unfold13.
  apply (glue (fun t => Rltb t b) (fun t => mf_s RO t a b) (fun t => if Rltb c t then mf_z RO t c d else 1) b x); try below.
  - apply s_cont. exact Hab.
  - apply (glue_above (fun t => Rltb c t) (fun t => mf_z RO t c d) (fun _ => 1) c x); try below.
    + apply z_cont. exact Hcd.
    + apply cont_const.
    + intros _. apply z_core; lra.
  - intros _. rewrite s_core by lra. rcases; lra.
Qed.

(* ---------------------------------------------------------------- smooth families *)
Lemma gauss_cont sigma c x : cont (fun t => mf_gauss RO t sigma c) x.
Proof.
  apply cont_ext with (f := fun t => exp (- (((t - c) * / sigma) * ((t - c) * / sigma)) * / 2)).
  { intros t. rewrite gauss_eq. reflexivity. }
  apply cont_of_derivable. reg.
Qed.
Theorem gauss_continuous sigma c : continuity (fun x => mf_gauss RO x sigma c).
Proof. intros x. apply cont_iff. apply gauss_cont. Qed.

Theorem gauss2_continuous s1 c1 s2 c2 : c1 <= c2 -> continuity (fun x => mf_gauss2 RO x s1 c1 s2 c2).
Proof.
  intros Hc x. apply cont_iff. unfold mf_gauss2. unfold13.
  apply (glue (fun t => Rltb t c1) (fun t => mf_gauss RO t s1 c1) (fun t => if Rltb c2 t then mf_gauss RO t s2 c2 else 1) c1 x); try below.
  - apply gauss_cont.
  - apply (glue_above (fun t => Rltb c2 t) (fun t => mf_gauss RO t s2 c2) (fun _ => 1) c2 x); try below.
    + apply gauss_cont.
    + apply cont_const.
    + intros _. apply gauss_peak.
  - intros _. rewrite gauss_peak. rcases; lra.
Qed.

Lemma sig_cont a c x : cont (fun t => mf_sig RO t a c) x.
Proof.
  apply cont_ext with (f := fun t => 1 * / (exp ((c - t) * a) + 1)); [intros; reflexivity|].
  apply cont_of_derivable. reg. pose proof (exp_pos ((c - x) * a)). lra.
Qed.
Theorem sig_continuous a c : continuity (fun x => mf_sig RO x a c).
Proof. intros x. apply cont_iff. apply sig_cont. Qed.
Theorem dsig_continuous a1 c1 a2 c2 : continuity (fun x => mf_dsig RO x a1 c1 a2 c2).
Proof.
  intros x. unfold mf_dsig. unfold13.
  apply (continuity_pt_minus (fun t => mf_sig RO t a1 c1) (fun t => mf_sig RO t a2 c2)); apply cont_iff; apply sig_cont.
Qed.
Theorem psig_continuous a1 c1 a2 c2 : continuity (fun x => mf_psig RO x a1 c1 a2 c2).
Proof.
  intros x. unfold mf_psig. unfold13.
  apply (continuity_pt_mult (fun t => mf_sig RO t a1 c1) (fun t => mf_sig RO t a2 c2)); apply cont_iff; apply sig_cont.
Qed.
