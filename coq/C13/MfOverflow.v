(* C13, an OPEN FINDING stated as a theorem about the binary64 run of the model (the Gallina terms tied to src/mf.c):
   for FINITE arguments and well-ordered FINITE parameters whose span b - a exceeds the largest binary64 number, the
   piecewise-linear membership functions return NaN (inf / inf) or lose the value (finite / inf = 0) - outside [0,1] resp.
   off the documented shape.  The [0,1] theorems of MfRound.v are about the rounded reals, where overflow does not exist
   (Common/RoundOps.v); this witness shows that the restriction is not vacuous.  checks/C13.py replays the same inputs on the
   C (KNOWN_FINDINGS.txt, keys a_mf_<name>/span-overflow).  Evaluated by vm_compute on Coq's primitive floats. *)
From Coq Require Import Floats ZArith Bool.
From LibaV Require Import Common.NumOps Common.FloatOps C13.MfDefs.
Local Open Scope float_scope.

Definition fin (x : float) : bool := negb (is_nan x) && negb (is_infinity x).

Definition pa : float := (-0x1.8p+1023).
Definition pb : float := 0x1.8p+1023.
Definition pc : float := 0x1.cp+1023.
Definition pd : float := 0x1.ep+1023.
Definition px : float := 0x1p+1023.

Theorem f64_mf_span_overflow :
  (fin px && fin pa && fin pb && fin pc && fin pd && (pa <? px) && (px <? pb) && (pb <? pc) && (pc <? pd) = true) /\
  is_nan (mf_tri F64_ops px pa pb pc) = true /\
  is_nan (mf_trap F64_ops px pa pb pc pd) = true /\
  is_nan (mf_lins F64_ops px pa pb) = true /\
  (mf_linz F64_ops px pa pb =? 0) = true.     (* strictly inside the falling ramp, where the documented value is 1/6 *)
Proof. vm_compute. repeat split. Qed.
