(* C13: the COMPUTED midpoint rnd64 (rnd64 (a + b) / 2) of two binary64 numbers, and the ratios that the repaired
   a_mf_s / a_mf_z (boundaries tested first) square.  IEEE binary64, round to nearest even (Common/RoundFlocq.v), gradual
   underflow, overflow outside the model.

   mid64_single     : the two roundings of the midpoint are one: rnd64 (rnd64 (a + b) / 2) = rnd64 ((a + b) / 2)
                      (halving is exact in the normal range; a sum below 2^-1021 is a binary64 number)
   mid64_upper      : for binary64 numbers a < x < b with  mid <= x :  b - x <= 2 (x - a)
                      (mid <= x puts (a + b) / 2 at or below the middle of x and its successor; the distances to the
                       neighbours of x differ by a factor of at most 2 - at a power of two - and then b is that successor)
   b64_upper_ratio  : ... hence  rnd64 (b - x) / rnd64 (b - a) <= 11/16
   b64_lower_ratio  : the mirror image:  x <= mid  gives  rnd64 (x - a) / rnd64 (b - a) <= 11/16
   (over the reals both ratios are <= 1/2; 2/3 is attained: a = 1 - 2^-53, x = 1, b = 1 + 2^-52 has mid = x.)
   11/16 is a binary64 number and 2 (11/16)^2 < 1: what MfRound.v needs for the [0,1] range of S, Z and pi. *)
From Coq Require Import Reals ZArith Lra Lia.
From Flocq Require Import Core Relative Plus_error.
From LibaV Require Import Common.RoundFlocq Common.RoundMono.
Local Open Scope R_scope.

Local Instance prec53m : Prec_gt_0 53 := eq_refl.
Local Instance valid64m : Valid_exp fexp64 := FLT_exp_valid (-1074) 53.
Local Instance mono64m : Monotone_exp fexp64 := FLT_exp_monotone (-1074) 53.

Local Notation F64 := (generic_format radix2 fexp64).

Lemma F64_fix x : F64 x -> rnd64 x = x.
Proof. intros H. unfold rnd64. apply round_generic; [typeclasses eauto|exact H]. Qed.

(* ------------------------------------------------------------------ halving *)
Lemma fexp64_pred e : (-1020 <= e)%Z -> fexp64 (e - 1) = (fexp64 e - 1)%Z.
Proof. intros H. unfold fexp64, FLT_exp. lia. Qed.

Lemma rnd64_half_normal v : bpow radix2 (-1021) <= Rabs v -> rnd64 (v / 2) = rnd64 v / 2.
Proof.
  intros Hv.
  assert (Nz : v <> 0).
  { intros ->. rewrite Rabs_R0 in Hv. pose proof (bpow_gt_0 radix2 (-1021)). lra. }
  assert (Hm : (-1020 <= mag radix2 v)%Z) by (apply mag_ge_bpow; exact Hv).
  assert (C : cexp radix2 fexp64 (v / 2) = (cexp radix2 fexp64 v - 1)%Z).
  { unfold cexp. replace (v / 2) with (v * bpow radix2 (-1)) by (simpl; lra).
    rewrite mag_mult_bpow by exact Nz. replace (mag radix2 v + -1)%Z with (mag radix2 v - 1)%Z by ring.
    apply fexp64_pred. exact Hm. }
  unfold rnd64, round, F2R, scaled_mantissa. cbn [Fnum Fexp]. rewrite C.
  set (c := cexp radix2 fexp64 v).
  assert (S : v / 2 * bpow radix2 (- (c - 1)) = v * bpow radix2 (- c)).
  { replace (- (c - 1))%Z with (- c + 1)%Z by ring. rewrite bpow_plus_1. simpl. lra. }
  rewrite S. replace (c - 1)%Z with (c + -1)%Z by ring. rewrite bpow_plus. simpl. lra.
Qed.

Lemma mid64_single a b : F64 a -> F64 b -> rnd64 (rnd64 (a + b) / 2) = rnd64 ((a + b) / 2).
Proof.
  intros Fa Fb. destruct (Rle_or_lt (Rabs (a + b)) (bpow radix2 (-1021))) as [S|L].
  - rewrite (F64_fix (a + b)); [reflexivity|].
    unfold fexp64. apply FLT_format_plus_small; [typeclasses eauto|exact Fa|exact Fb|exact S].
  - rewrite <- rnd64_half_normal by lra. apply rnd64_idem.
Qed.

(* ------------------------------------------------------------------ neighbours *)
Lemma ulp64_pos x : 0 < ulp radix2 fexp64 x.
Proof.
  destruct (Req_dec x 0) as [->|N].
  - unfold fexp64. rewrite ulp_FLT_0 by typeclasses eauto. apply bpow_gt_0.
  - rewrite ulp_neq_0 by exact N. apply bpow_gt_0.
Qed.

(* below a non-positive number the gap is at least the gap above *)
Lemma gaps_nonpos x : x <= 0 ->
  succ radix2 fexp64 x - x <= x - pred radix2 fexp64 x.
Proof.
  intros Hx. pose proof (succ_le_plus_ulp radix2 fexp64 x) as S.
  assert (P : pred radix2 fexp64 x = x - ulp radix2 fexp64 x).
  { unfold pred. rewrite succ_eq_pos by lra. rewrite ulp_opp. ring. }
  rewrite P. lra.
Qed.

(* above a positive number the gap is at most twice the gap below (twice: at a power of two) *)
Lemma gaps_pos x : 0 < x ->
  succ radix2 fexp64 x - x <= 2 * (x - pred radix2 fexp64 x).
Proof.
  intros Hx. rewrite succ_eq_pos by lra. rewrite pred_eq_pos by lra. unfold pred_pos.
  rewrite ulp_neq_0 by lra. unfold cexp. set (e := mag radix2 x).
  assert (K : bpow radix2 (fexp64 e) <= 2 * bpow radix2 (fexp64 (e - 1))).
  { change 2 with (IZR radix2). rewrite <- bpow_plus_1. apply bpow_le. unfold fexp64, FLT_exp. lia. }
  pose proof (bpow_gt_0 radix2 (fexp64 e)).
  destruct (Req_bool x (bpow radix2 (e - 1))); lra.
Qed.

(* the second number above a positive binary64 number x is at least two gaps away *)
Lemma succ_succ_pos x : 0 < x ->
  x + 2 * (succ radix2 fexp64 x - x) <= succ radix2 fexp64 (succ radix2 fexp64 x).
Proof.
  intros Hx. pose proof (ulp64_pos x) as U.
  rewrite (succ_eq_pos radix2 fexp64 x) by lra.
  rewrite (succ_eq_pos radix2 fexp64 (x + ulp radix2 fexp64 x)) by lra.
  pose proof (ulp_le_pos radix2 fexp64 x (x + ulp radix2 fexp64 x)) as L.
  assert (ulp radix2 fexp64 x <= ulp radix2 fexp64 (x + ulp radix2 fexp64 x)) by (apply L; lra). lra.
Qed.

(* ------------------------------------------------------------------ the computed midpoint at or below x *)
Lemma mid64_upper x a b : F64 a -> F64 x -> F64 b -> a < x < b ->
  rnd64 ((a + b) / 2) <= x -> b - x <= 2 * (x - a).
Proof.
  intros Fa Fx Fb [Hax Hxb] Hm.
  pose proof (round_N_le_le_midp radix2 fexp64 (fun z => negb (Z.even z)) x ((a + b) / 2) Fx Hm) as Mid.
  pose proof (pred_ge_gt radix2 fexp64 a x Fa Fx Hax) as Ha.
  pose proof (succ_le_lt radix2 fexp64 x b Fx Fb Hxb) as Hb.
  set (sx := succ radix2 fexp64 x) in *. set (px := pred radix2 fexp64 x) in *.
  destruct (Rle_or_lt x 0) as [Nx|Px].
  - pose proof (gaps_nonpos x Nx) as G. fold sx px in G. lra.
  - pose proof (gaps_pos x Px) as G. fold sx px in G.
    destruct (Rle_or_lt (sx - x) (x - a)) as [E|E]; [lra|].
    (* x - a is less than the gap above x: b is below the second number above x, hence the successor of x *)
    assert (Fs : F64 sx) by (apply generic_format_succ; [typeclasses eauto|exact Fx]).
    assert (Fss : F64 (succ radix2 fexp64 sx)) by (apply generic_format_succ; [typeclasses eauto|exact Fs]).
    pose proof (succ_succ_pos x Px) as SS. fold sx in SS.
    assert (Hb2 : b < succ radix2 fexp64 sx) by lra.
    pose proof (pred_ge_gt radix2 fexp64 b _ Fb Fss Hb2) as Hb3.
    rewrite pred_succ in Hb3 by (try typeclasses eauto; exact Fs). lra.
Qed.

(* ------------------------------------------------------------------ rounded differences of binary64 numbers *)
Definition e64 : R := / 9007199254740992.      (* 2^-53 *)

Lemma sub64_rel u v : F64 u -> F64 v -> Rabs (rnd64 (u - v) - (u - v)) <= e64 * Rabs (u - v).
Proof.
  intros Fu Fv. destruct (Rle_or_lt (Rabs (u - v)) (bpow radix2 (-1021))) as [S|L].
  - rewrite (F64_fix (u - v)).
    + replace (u - v - (u - v)) with 0 by ring. rewrite Rabs_R0. apply Rmult_le_pos; [unfold e64; lra|apply Rabs_pos].
    + unfold Rminus, fexp64. apply FLT_format_plus_small; [typeclasses eauto|exact Fu|apply generic_format_opp; exact Fv|exact S].
  - pose proof (relative_error_N_FLT radix2 (-1074) 53 eq_refl (fun z => negb (Z.even z)) (u - v)) as R.
    assert (B : bpow radix2 (-1074 + 53 - 1) <= Rabs (u - v)).
    { apply Rle_trans with (bpow radix2 (-1021)); [apply bpow_le; lia|lra]. }
    specialize (R B).
    assert (Q : / 2 * bpow radix2 (- (53) + 1) = e64).
    { change (bpow radix2 (- (53) + 1)) with (/ 4503599627370496). unfold e64. lra. }
    rewrite Q in R. exact R.
Qed.

Lemma ratio64 x a b : F64 a -> F64 x -> F64 b -> a < x < b -> b - x <= 2 * (x - a) ->
  rnd64 (b - x) / rnd64 (b - a) <= 11 / 16.
Proof.
  intros Fa Fx Fb [Hax Hxb] H.
  pose proof (sub64_rel b x Fb Fx) as E1. pose proof (sub64_rel b a Fb Fa) as E2.
  rewrite (Rabs_pos_eq (b - x)) in E1 by lra. rewrite (Rabs_pos_eq (b - a)) in E2 by lra.
  apply Rabs_le_inv in E1. apply Rabs_le_inv in E2. unfold e64 in E1, E2.
  assert (D : 0 < rnd64 (b - a)) by lra.
  apply (Rmult_le_reg_r (rnd64 (b - a))); [exact D|].
  unfold Rdiv. rewrite Rmult_assoc, Rinv_l by lra. lra.
Qed.

(* ------------------------------------------------------------------ the two statements used by MfRound.v *)
Theorem b64_upper_ratio x a b : rnd64 a = a -> rnd64 x = x -> rnd64 b = b -> a < x < b ->
  rnd64 (rnd64 (a + b) / 2) <= x -> rnd64 (b - x) / rnd64 (b - a) <= 11 / 16.
Proof.
  intros Ea Ex Eb H Hm.
  pose proof (rnd64_fix_format a Ea) as Fa. pose proof (rnd64_fix_format x Ex) as Fx. pose proof (rnd64_fix_format b Eb) as Fb.
  rewrite mid64_single in Hm by assumption.
  apply ratio64; try assumption. apply mid64_upper; assumption.
Qed.

Theorem b64_lower_ratio x a b : rnd64 a = a -> rnd64 x = x -> rnd64 b = b -> a < x < b ->
  x <= rnd64 (rnd64 (a + b) / 2) -> rnd64 (x - a) / rnd64 (b - a) <= 11 / 16.
Proof.
  intros Ea Ex Eb H Hm. pose proof mono_rnd_binary64 as M.
  assert (Na : rnd64 (- a) = - a) by (rewrite (mr_opp _ M), Ea; reflexivity).
  assert (Nx : rnd64 (- x) = - x) by (rewrite (mr_opp _ M), Ex; reflexivity).
  assert (Nb : rnd64 (- b) = - b) by (rewrite (mr_opp _ M), Eb; reflexivity).
  pose proof (b64_upper_ratio (- x) (- b) (- a) Nb Nx Na ltac:(lra)) as U.
  replace (- a - - x) with (x - a) in U by ring. replace (- a - - b) with (b - a) in U by ring.
  apply U. replace (- b + - a) with (- (a + b)) by ring. rewrite (mr_opp _ M).
  replace (- rnd64 (a + b) / 2) with (- (rnd64 (a + b) / 2)) by (unfold Rdiv; ring). rewrite (mr_opp _ M). lra.
Qed.

(* 11/16 and 121/256 are binary64 numbers *)
Lemma rnd64_11_16 : rnd64 (11 / 16) = 11 / 16.
Proof.
  replace (11 / 16) with (IZR 11 * bpow radix2 (-4)) by (simpl; lra). apply rnd64_dyadic; simpl; lia.
Qed.
Lemma rnd64_121_256 : rnd64 (121 / 256) = 121 / 256.
Proof.
  replace (121 / 256) with (IZR 121 * bpow radix2 (-8)) by (simpl; lra). apply rnd64_dyadic; simpl; lia.
Qed.

(* 2/3 is attained: the three consecutive binary64 numbers around 1 *)
Example mid64_two_thirds :
  let a := 1 - / 9007199254740992 in let b := 1 + / 4503599627370496 in
  a < 1 < b /\ (1 - a) / (b - a) = / 3 /\ (b - 1) / (b - a) = 2 / 3.
Proof. cbv zeta. split; [lra|]. split; field. Qed.
