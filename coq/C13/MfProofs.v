(* C13 proofs, part 1: the membership functions of src/mf.c over the reals (instance R13_ops). *)
From Coq Require Import Reals ZArith List Lra Lia Bool.
From LibaV Require Import Common.NumOps Common.ROps C13.R13Ops C13.MfDefs.
Import ListNotations.
Local Open Scope R_scope.

Local Notation RO := R13_ops.

Ltac mfu := unfold13; rcases.

Lemma div_01 n d : 0 < d -> 0 <= n <= d -> 0 <= n / d <= 1.
Proof.
  intros Hd [H0 H1]. assert (Hi : 0 < / d) by (apply Rinv_0_lt_compat; exact Hd). unfold Rdiv. split.
  - apply Rmult_le_pos; lra.
  - replace 1 with (d * / d) by (field; lra). apply Rmult_le_compat_r; lra.
Qed.
Lemma div_mono n1 n2 d : 0 < d -> n1 <= n2 -> n1 / d <= n2 / d.
Proof.
  intros Hd H. assert (Hi : 0 < / d) by (apply Rinv_0_lt_compat; exact Hd). unfold Rdiv.
  apply Rmult_le_compat_r; lra.
Qed.
Lemma div_lt1 n d : 0 < d -> n < d -> n / d < 1.
Proof.
  intros Hd H. assert (Hi : 0 < / d) by (apply Rinv_0_lt_compat; exact Hd). unfold Rdiv.
  replace 1 with (d * / d) by (field; lra). apply Rmult_lt_compat_r; lra.
Qed.
Lemma div_pos n d : 0 < d -> 0 < n -> 0 < n / d.
Proof. intros Hd H. unfold Rdiv. apply Rmult_lt_0_compat; [exact H|apply Rinv_0_lt_compat; exact Hd]. Qed.

(* ================================================================ trapezoid *)
(* every division on the executed path has a non-zero denominator: the same branching as mf_trap *)
Definition trap_defined (x a b c d : R) : Prop :=
  if Rltb x b then (if Rltb a x then b - a <> 0 else True)
  else if Rltb c x then (if Rltb x d then d - c <> 0 else True) else True.

Lemma trap_defined_all x a b c d : trap_defined x a b c d.
Proof. unfold trap_defined. rcases; try exact I; lra. Qed.

Lemma trap_range x a b c d : 0 <= mf_trap RO x a b c d <= 1.
Proof. unfold mf_trap. mfu; try lra; apply div_01; lra. Qed.

Lemma trap_core x a b c d : b <= x <= c -> mf_trap RO x a b c d = 1.
Proof. intros H. unfold mf_trap. mfu; lra. Qed.

Lemma trap_zero_left x a b c d : a <= b -> x < a \/ (x <= a /\ a < b) -> mf_trap RO x a b c d = 0.
Proof. intros H1 H. unfold mf_trap. mfu; lra. Qed.

Lemma trap_zero_right x a b c d : c <= d -> d < x \/ (d <= x /\ c < d) -> b <= c -> mf_trap RO x a b c d = 0.
Proof. intros H1 H H2. unfold mf_trap. mfu; lra. Qed.

Lemma trap_rising x y a b c d : b <= c -> x <= y <= b -> mf_trap RO x a b c d <= mf_trap RO y a b c d.
Proof.
  intros H1 H. pose proof (trap_range x a b c d) as Rx. pose proof (trap_range y a b c d) as Ry.
  revert Rx Ry. unfold mf_trap. mfu; intros; try lra. apply div_mono; lra.
Qed.

Lemma trap_falling x y a b c d : b <= c -> c <= x <= y -> mf_trap RO y a b c d <= mf_trap RO x a b c d.
Proof.
  intros H1 H. pose proof (trap_range x a b c d) as Rx. pose proof (trap_range y a b c d) as Ry.
  revert Rx Ry. unfold mf_trap. mfu; intros; try lra. apply div_mono; lra.
Qed.

(* ================================================================ triangle (repaired) *)
Definition tri_defined (x a b c : R) : Prop :=
  if Rltb x b then (if Rltb a x then b - a <> 0 else True)
  else if Rltb b x then (if Rltb x c then c - b <> 0 else True) else True.

Lemma tri_defined_all x a b c : tri_defined x a b c.
Proof. unfold tri_defined. rcases; try exact I; lra. Qed.

Lemma tri_is_trap x a b c : mf_tri RO x a b c = mf_trap RO x a b b c.
Proof. reflexivity. Qed.

Lemma tri_range x a b c : 0 <= mf_tri RO x a b c <= 1.
Proof. rewrite tri_is_trap. apply trap_range. Qed.

Lemma tri_peak a b c : mf_tri RO b a b c = 1.
Proof. rewrite tri_is_trap. apply trap_core. lra. Qed.

Lemma tri_zero_left x a b c : a <= b -> x < a \/ (x <= a /\ a < b) -> mf_tri RO x a b c = 0.
Proof. intros. rewrite tri_is_trap. apply trap_zero_left; assumption. Qed.
Lemma tri_zero_right x a b c : b <= c -> c < x \/ (c <= x /\ b < c) -> mf_tri RO x a b c = 0.
Proof. intros. rewrite tri_is_trap. apply trap_zero_right; try assumption; lra. Qed.

Lemma tri_rising x y a b c : x <= y <= b -> mf_tri RO x a b c <= mf_tri RO y a b c.
Proof. intros. rewrite !tri_is_trap. apply trap_rising; [lra|assumption]. Qed.
Lemma tri_falling x y a b c : b <= x <= y -> mf_tri RO y a b c <= mf_tri RO x a b c.
Proof. intros. rewrite !tri_is_trap. apply trap_falling; [lra|assumption]. Qed.

(* the code as found returned 0 at the peak of a right-angled triangle (b = c) *)
Lemma tri_orig_refuted : exists x a b c, a <= b <= c /\ x = b /\ mf_tri_orig RO x a b c = 0.
Proof. exists 2, 1, 2, 2. split; [lra|]. split; [reflexivity|]. unfold mf_tri_orig. mfu; lra. Qed.
Lemma tri_orig_agrees x a b c : b < c -> mf_tri_orig RO x a b c = mf_tri RO x a b c.
Proof. intros H. unfold mf_tri_orig, mf_tri. mfu; try lra. replace x with b by lra. field. lra. Qed.

(* ================================================================ linear S / Z (repaired) *)
Definition lins_defined (x a b : R) : Prop := if Rltb x a then True else if Rleb b x then True else b - a <> 0.
Definition lins_orig_defined (x a b : R) : Prop := if Rltb x a then True else if Rltb b x then True else b - a <> 0.

Lemma lins_defined_all x a b : lins_defined x a b.
Proof. unfold lins_defined. rcases; try exact I; lra. Qed.
(* as found: x = a = b divides 0 by 0 *)
Lemma lins_orig_undefined : exists x a b, a <= b /\ ~ lins_orig_defined x a b.
Proof. exists 1, 1, 1. split; [lra|]. unfold lins_orig_defined. rcases; lra. Qed.
Lemma lins_orig_agrees x a b : a < b -> mf_lins_orig RO x a b = mf_lins RO x a b /\ mf_linz_orig RO x a b = mf_linz RO x a b.
Proof. intros H. unfold mf_lins_orig, mf_lins, mf_linz_orig, mf_linz. mfu; split; try lra; replace x with b by lra; field; lra. Qed.

Lemma lins_range x a b : 0 <= mf_lins RO x a b <= 1.
Proof. unfold mf_lins. mfu; try lra; apply div_01; lra. Qed.
Lemma linz_range x a b : 0 <= mf_linz RO x a b <= 1.
Proof. unfold mf_linz. mfu; try lra; apply div_01; lra. Qed.

Lemma lins_core x a b : a <= b -> b <= x -> mf_lins RO x a b = 1.
Proof. intros. unfold mf_lins. mfu; lra. Qed.
Lemma lins_zero x a b : x < a \/ (x <= a /\ a < b) -> mf_lins RO x a b = 0.
Proof. intros. unfold mf_lins. mfu; try lra. replace (x - a) with 0 by lra. unfold Rdiv. ring. Qed.
Lemma linz_core x a b : x < a \/ (x <= a /\ a < b) -> mf_linz RO x a b = 1.
Proof. intros. unfold mf_linz. mfu; try lra. replace (b - x) with (b - a) by lra. field. lra. Qed.
Lemma linz_zero x a b : a <= b -> b <= x -> mf_linz RO x a b = 0.
Proof. intros. unfold mf_linz. mfu; lra. Qed.

(* complementary for ALL x, a, b (also the degenerate a = b) *)
Lemma lins_linz_complement x a b : mf_lins RO x a b + mf_linz RO x a b = 1.
Proof. unfold mf_lins, mf_linz. mfu; try lra. field. lra. Qed.

Lemma lins_monotone x y a b : x <= y -> mf_lins RO x a b <= mf_lins RO y a b.
Proof.
  intros H. pose proof (lins_range x a b) as Rx. pose proof (lins_range y a b) as Ry.
  revert Rx Ry. unfold mf_lins. mfu; intros; try lra. apply div_mono; lra.
Qed.
Lemma linz_monotone x y a b : x <= y -> mf_linz RO y a b <= mf_linz RO x a b.
Proof.
  intros H. pose proof (lins_linz_complement x a b). pose proof (lins_linz_complement y a b).
  pose proof (lins_monotone x y a b H). lra.
Qed.

(* ================================================================ S, Z, pi (quadratic splines) *)
Lemma div_half n d : 0 < d -> 0 <= n <= d / 2 -> 0 <= n / d <= / 2.
Proof.
  intros Hd [H0 H1]. assert (Hi : 0 < / d) by (apply Rinv_0_lt_compat; exact Hd). unfold Rdiv. split.
  - apply Rmult_le_pos; lra.
  - replace (/ 2) with (d / 2 * / d) by (field; lra). apply Rmult_le_compat_r; lra.
Qed.

Definition s_defined (x a b : R) : Prop :=
  if Rltb ((a + b) / 2) x then (if Rltb x b then b - a <> 0 /\ pow_defined ((b - x) / (b - a)) 2 else True)
  else (if Rltb a x then b - a <> 0 /\ pow_defined ((x - a) / (b - a)) 2 else True).
Definition z_defined (x a b : R) : Prop :=
  if Rltb x ((a + b) / 2) then (if Rltb a x then b - a <> 0 /\ pow_defined ((x - a) / (b - a)) 2 else True)
  else (if Rltb x b then b - a <> 0 /\ pow_defined ((b - x) / (b - a)) 2 else True).

Lemma s_defined_all x a b : s_defined x a b.
Proof. unfold s_defined. rcases; try exact I; (split; [lra|apply pow_defined_2]). Qed.
Lemma z_defined_all x a b : z_defined x a b.
Proof. unfold z_defined. rcases; try exact I; (split; [lra|apply pow_defined_2]). Qed.

Ltac su := unfold mf_s, mf_z, rpow; unfold13; rewrite ?Rpow_2; rcases.

Lemma s_range x a b : 0 <= mf_s RO x a b <= 1.
Proof.
  su; try lra.
  - assert (U : 0 <= (b - x) / (b - a) <= / 2) by (apply div_half; lra). nra.
  - assert (U : 0 <= (x - a) / (b - a) <= / 2) by (apply div_half; lra). nra.
Qed.
Lemma z_range x a b : 0 <= mf_z RO x a b <= 1.
Proof.
  su; try lra.
  - assert (U : 0 <= (x - a) / (b - a) <= / 2) by (apply div_half; lra). nra.
  - assert (U : 0 <= (b - x) / (b - a) <= / 2) by (apply div_half; lra). nra.
Qed.

Lemma s_core x a b : a < b -> b <= x -> mf_s RO x a b = 1.
Proof. intros. su; lra. Qed.
Lemma s_zero x a b : x <= a -> a <= b -> mf_s RO x a b = 0.
Proof. intros. su; lra. Qed.
Lemma z_core x a b : x <= a -> a < b -> mf_z RO x a b = 1.
Proof. intros. su; lra. Qed.
Lemma z_zero x a b : a <= b -> b <= x -> mf_z RO x a b = 0.
Proof. intros. su; lra. Qed.
Lemma s_mid a b : a < b -> mf_s RO ((a + b) / 2) a b = / 2.
Proof. intros. su; try lra. field. lra. Qed.

(* complementary whenever the width is non-zero ... *)
Lemma s_z_complement x a b : a < b -> mf_s RO x a b + mf_z RO x a b = 1.
Proof. intros H. su; try lra. replace x with ((a + b) / 2) by lra. field. lra. Qed.
(* ... and NOT at the single point x = a = b of a zero-width pair (outside the property's quantifier: S and Z need a < b) *)
Lemma s_z_degenerate a : mf_s RO a a a + mf_z RO a a a = 0.
Proof. su; lra. Qed.

Lemma s_monotone x y a b : a < b -> x <= y -> mf_s RO x a b <= mf_s RO y a b.
Proof.
  intros Hab H. pose proof (s_range x a b) as Rx. pose proof (s_range y a b) as Ry. revert Rx Ry.
  assert (Hi : 0 < / (b - a)) by (apply Rinv_0_lt_compat; lra).
  su; intros; try lra.
  - (* both on the upper half *)
    assert (U : 0 <= (b - y) / (b - a) <= (b - x) / (b - a)) by (split; [apply div_01; lra|apply div_mono; lra]). nra.
  - (* x lower half, y upper half *)
    assert (U : 0 <= (b - y) / (b - a) <= / 2) by (apply div_half; lra).
    assert (V : 0 <= (x - a) / (b - a) <= / 2) by (apply div_half; lra). nra.
  - assert (U : 0 <= (x - a) / (b - a) <= (y - a) / (b - a)) by (split; [apply div_01; lra|apply div_mono; lra]). nra.
Qed.
Lemma z_monotone x y a b : a < b -> x <= y -> mf_z RO y a b <= mf_z RO x a b.
Proof.
  intros Hab H. pose proof (s_z_complement x a b Hab). pose proof (s_z_complement y a b Hab).
  pose proof (s_monotone x y a b Hab H). lra.
Qed.

(* pi = S, 1, Z glued *)
Lemma pi_glue x a b c d :
  mf_pi RO x a b c d = if Rltb x b then mf_s RO x a b else if Rltb c x then mf_z RO x c d else 1.
Proof. reflexivity. Qed.
Lemma pi_range x a b c d : 0 <= mf_pi RO x a b c d <= 1.
Proof. rewrite pi_glue. rcases; [apply s_range|apply z_range|lra]. Qed.
Lemma pi_core x a b c d : b <= x <= c -> mf_pi RO x a b c d = 1.
Proof. intros. rewrite pi_glue. rcases; lra. Qed.
Lemma pi_rising x y a b c d : a < b -> b <= c -> x <= y <= b -> mf_pi RO x a b c d <= mf_pi RO y a b c d.
Proof.
  intros Hab Hbc H. rewrite !pi_glue. pose proof (s_range x a b). rcases; try lra. apply s_monotone; lra.
Qed.
Lemma pi_falling x y a b c d : c < d -> b <= c -> c <= x <= y -> mf_pi RO y a b c d <= mf_pi RO x a b c d.
Proof.
  intros Hcd Hbc H. rewrite !pi_glue. pose proof (z_range y c d). rcases; try lra. apply z_monotone; lra.
Qed.
Lemma pi_zero x a b c d : a <= b -> c <= d -> b <= c -> x <= a /\ a < b \/ x < a \/ d <= x /\ c < d \/ d < x -> mf_pi RO x a b c d = 0.
Proof.
  intros H1 H2 H3 H. rewrite pi_glue. rcases.
  - apply s_zero; lra.
  - apply z_zero; lra.
  - lra.
Qed.
Definition pi_defined (x a b c d : R) : Prop :=
  if Rltb x b then s_defined x a b else if Rltb c x then z_defined x c d else True.
Lemma pi_defined_all x a b c d : pi_defined x a b c d.
Proof. unfold pi_defined. rcases; [apply s_defined_all|apply z_defined_all|exact I]. Qed.
