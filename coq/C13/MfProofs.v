(* C13 proofs, part 1: the membership functions of src/mf.c over the reals (instance R13_ops). *)
From Coq Require Import Reals ZArith List Lra Lia Bool.
From LibaV Require Import Common.NumOps Common.ROps C13.R13Ops C13.MfDefs.
Import ListNotations.
Local Open Scope R_scope.

Local Notation RO := R13_ops.

Ltac mfu := unfold13; rcases.

Lemma div_01 n d : 0 < d -> 0 <= n <= d -> 0 <= n / d <= 1.
Proof.
  intros Hd [H0 H1]. assert (Hi : 0 < / d) by (apply Rinv_0_lt_compat; exact Hd). unfold Rdiv. split.
  - apply Rmult_le_pos; lra.
  - replace 1 with (d * / d) by (field; lra). apply Rmult_le_compat_r; lra.
Qed.
Lemma div_mono n1 n2 d : 0 < d -> n1 <= n2 -> n1 / d <= n2 / d.
Proof.
  intros Hd H. assert (Hi : 0 < / d) by (apply Rinv_0_lt_compat; exact Hd). unfold Rdiv.
  apply Rmult_le_compat_r; lra.
Qed.
Lemma div_lt1 n d : 0 < d -> n < d -> n / d < 1.
Proof.
  intros Hd H. assert (Hi : 0 < / d) by (apply Rinv_0_lt_compat; exact Hd). unfold Rdiv.
  replace 1 with (d * / d) by (field; lra). apply Rmult_lt_compat_r; lra.
Qed.
Lemma div_pos n d : 0 < d -> 0 < n -> 0 < n / d.
Proof. intros Hd H. unfold Rdiv. apply Rmult_lt_0_compat; [exact H|apply Rinv_0_lt_compat; exact Hd]. Qed.

(* ================================================================ trapezoid *)
(* every division on the executed path has a non-zero denominator: the same branching as mf_trap *)
Definition trap_defined (x a b c d : R) : Prop :=
  if Rltb x b then (if Rltb a x then b - a <> 0 else True)
  else if Rltb c x then (if Rltb x d then d - c <> 0 else True) else True.

Lemma trap_defined_all x a b c d : trap_defined x a b c d.
Proof. unfold trap_defined. rcases; try exact I; lra. Qed.

Lemma trap_range x a b c d : 0 <= mf_trap RO x a b c d <= 1.
Proof. unfold mf_trap. mfu; try lra; apply div_01; lra. Qed.

Lemma trap_core x a b c d : b <= x <= c -> mf_trap RO x a b c d = 1.
Proof. intros H. unfold mf_trap. mfu; lra. Qed.

Lemma trap_zero_left x a b c d : a <= b -> x < a \/ (x <= a /\ a < b) -> mf_trap RO x a b c d = 0.
Proof. intros H1 H. unfold mf_trap. mfu; lra. Qed.

Lemma trap_zero_right x a b c d : c <= d -> d < x \/ (d <= x /\ c < d) -> b <= c -> mf_trap RO x a b c d = 0.
Proof. intros H1 H H2. unfold mf_trap. mfu; lra. Qed.

Lemma trap_rising x y a b c d : b <= c -> x <= y <= b -> mf_trap RO x a b c d <= mf_trap RO y a b c d.
Proof.
  intros H1 H. pose proof (trap_range x a b c d) as Rx. pose proof (trap_range y a b c d) as Ry.
  revert Rx Ry. unfold mf_trap. mfu; intros; try lra. apply div_mono; lra.
Qed.

Lemma trap_falling x y a b c d : b <= c -> c <= x <= y -> mf_trap RO y a b c d <= mf_trap RO x a b c d.
Proof.
  intros H1 H. pose proof (trap_range x a b c d) as Rx. pose proof (trap_range y a b c d) as Ry.
  revert Rx Ry. unfold mf_trap. mfu; intros; try lra. apply div_mono; lra.
Qed.

(* ================================================================ triangle (repaired) *)
Definition tri_defined (x a b c : R) : Prop :=
  if Rltb x b then (if Rltb a x then b - a <> 0 else True)
  else if Rltb b x then (if Rltb x c then c - b <> 0 else True) else True.

Lemma tri_defined_all x a b c : tri_defined x a b c.
Proof. unfold tri_defined. rcases; try exact I; lra. Qed.

Lemma tri_is_trap x a b c : mf_tri RO x a b c = mf_trap RO x a b b c.
Proof. reflexivity. Qed.

Lemma tri_range x a b c : 0 <= mf_tri RO x a b c <= 1.
Proof. rewrite tri_is_trap. apply trap_range. Qed.

Lemma tri_peak a b c : mf_tri RO b a b c = 1.
Proof. rewrite tri_is_trap. apply trap_core. lra. Qed.

Lemma tri_zero_left x a b c : a <= b -> x < a \/ (x <= a /\ a < b) -> mf_tri RO x a b c = 0.
Proof. intros. rewrite tri_is_trap. apply trap_zero_left; assumption. Qed.
Lemma tri_zero_right x a b c : b <= c -> c < x \/ (c <= x /\ b < c) -> mf_tri RO x a b c = 0.
Proof. intros. rewrite tri_is_trap. apply trap_zero_right; try assumption; lra. Qed.

Lemma tri_rising x y a b c : x <= y <= b -> mf_tri RO x a b c <= mf_tri RO y a b c.
Proof. intros. rewrite !tri_is_trap. apply trap_rising; [lra|assumption]. Qed.
Lemma tri_falling x y a b c : b <= x <= y -> mf_tri RO y a b c <= mf_tri RO x a b c.
Proof. intros. rewrite !tri_is_trap. apply trap_falling; [lra|assumption]. Qed.

(* the code as found returned 0 at the peak of a right-angled triangle (b = c) *)
Lemma tri_orig_refuted : exists x a b c, a <= b <= c /\ x = b /\ mf_tri_orig RO x a b c = 0.
Proof. exists 2, 1, 2, 2. split; [lra|]. split; [reflexivity|]. unfold mf_tri_orig. mfu; lra. Qed.
Lemma tri_orig_agrees x a b c : b < c -> mf_tri_orig RO x a b c = mf_tri RO x a b c.
Proof. intros H. unfold mf_tri_orig, mf_tri. mfu; try lra. replace x with b by lra. field. lra. Qed.

(* ================================================================ linear S / Z (repaired) *)
Definition lins_defined (x a b : R) : Prop := if Rltb x a then True else if Rleb b x then True else b - a <> 0.
Definition lins_orig_defined (x a b : R) : Prop := if Rltb x a then True else if Rltb b x then True else b - a <> 0.

Lemma lins_defined_all x a b : lins_defined x a b.
Proof. unfold lins_defined. rcases; try exact I; lra. Qed.
(* as found: x = a = b divides 0 by 0 *)
Lemma lins_orig_undefined : exists x a b, a <= b /\ ~ lins_orig_defined x a b.
Proof. exists 1, 1, 1. split; [lra|]. unfold lins_orig_defined. rcases; lra. Qed.
Lemma lins_orig_agrees x a b : a < b -> mf_lins_orig RO x a b = mf_lins RO x a b /\ mf_linz_orig RO x a b = mf_linz RO x a b.
Proof. intros H. unfold mf_lins_orig, mf_lins, mf_linz_orig, mf_linz. mfu; split; try lra; replace x with b by lra; field; lra. Qed.

Lemma lins_range x a b : 0 <= mf_lins RO x a b <= 1.
Proof. unfold mf_lins. mfu; try lra; apply div_01; lra. Qed.
Lemma linz_range x a b : 0 <= mf_linz RO x a b <= 1.
Proof. unfold mf_linz. mfu; try lra; apply div_01; lra. Qed.

Lemma lins_core x a b : a <= b -> b <= x -> mf_lins RO x a b = 1.
Proof. intros. unfold mf_lins. mfu; lra. Qed.
Lemma lins_zero x a b : x < a \/ (x <= a /\ a < b) -> mf_lins RO x a b = 0.
Proof. intros. unfold mf_lins. mfu; try lra. replace (x - a) with 0 by lra. unfold Rdiv. ring. Qed.
Lemma linz_core x a b : x < a \/ (x <= a /\ a < b) -> mf_linz RO x a b = 1.
Proof. intros. unfold mf_linz. mfu; try lra. replace (b - x) with (b - a) by lra. field. lra. Qed.
Lemma linz_zero x a b : a <= b -> b <= x -> mf_linz RO x a b = 0.
Proof. intros. unfold mf_linz. mfu; lra. Qed.

(* complementary for ALL x, a, b (also the degenerate a = b) *)
Lemma lins_linz_complement x a b : mf_lins RO x a b + mf_linz RO x a b = 1.
Proof. unfold mf_lins, mf_linz. mfu; try lra. field. lra. Qed.

Lemma lins_monotone x y a b : x <= y -> mf_lins RO x a b <= mf_lins RO y a b.
Proof.
  intros H. pose proof (lins_range x a b) as Rx. pose proof (lins_range y a b) as Ry.
  revert Rx Ry. unfold mf_lins. mfu; intros; try lra. apply div_mono; lra.
Qed.
Lemma linz_monotone x y a b : x <= y -> mf_linz RO y a b <= mf_linz RO x a b.
Proof.
  intros H. pose proof (lins_linz_complement x a b). pose proof (lins_linz_complement y a b).
  pose proof (lins_monotone x y a b H). lra.
Qed.

(* ================================================================ S, Z, pi (quadratic splines) *)
Lemma div_half n d : 0 < d -> 0 <= n <= d / 2 -> 0 <= n / d <= / 2.
Proof.
  intros Hd [H0 H1]. assert (Hi : 0 < / d) by (apply Rinv_0_lt_compat; exact Hd). unfold Rdiv. split.
  - apply Rmult_le_pos; lra.
  - replace (/ 2) with (d / 2 * / d) by (field; lra). apply Rmult_le_compat_r; lra.
Qed.

(* the same branching as the repaired mf_s / mf_z: boundaries first, then the midpoint *)
Definition s_defined (x a b : R) : Prop :=
  if Rleb x a then True else if Rleb b x then True
  else if Rltb ((a + b) / 2) x then b - a <> 0 /\ pow_defined ((b - x) / (b - a)) 2
  else b - a <> 0 /\ pow_defined ((x - a) / (b - a)) 2.
Definition z_defined (x a b : R) : Prop :=
  if Rleb b x then True else if Rleb x a then True
  else if Rltb x ((a + b) / 2) then b - a <> 0 /\ pow_defined ((x - a) / (b - a)) 2
  else b - a <> 0 /\ pow_defined ((b - x) / (b - a)) 2.

Lemma s_defined_all x a b : s_defined x a b.
Proof. unfold s_defined. rcases; try exact I; (split; [lra|apply pow_defined_2]). Qed.
Lemma z_defined_all x a b : z_defined x a b.
Proof. unfold z_defined. rcases; try exact I; (split; [lra|apply pow_defined_2]). Qed.

Ltac su := unfold mf_s, mf_z, rpow; unfold13; rewrite ?Rpow_2; rcases.

Lemma s_range x a b : 0 <= mf_s RO x a b <= 1.
Proof.
  su; try lra.
  - assert (U : 0 <= (b - x) / (b - a) <= / 2) by (apply div_half; lra). nra.
  - assert (U : 0 <= (x - a) / (b - a) <= / 2) by (apply div_half; lra). nra.
Qed.
Lemma z_range x a b : 0 <= mf_z RO x a b <= 1.
Proof.
  su; try lra.
  - assert (U : 0 <= (x - a) / (b - a) <= / 2) by (apply div_half; lra). nra.
  - assert (U : 0 <= (b - x) / (b - a) <= / 2) by (apply div_half; lra). nra.
Qed.

Lemma s_core x a b : a < b -> b <= x -> mf_s RO x a b = 1.
Proof. intros. su; lra. Qed.
Lemma s_zero x a b : x <= a -> a <= b -> mf_s RO x a b = 0.
Proof. intros. su; lra. Qed.
Lemma z_core x a b : x <= a -> a < b -> mf_z RO x a b = 1.
Proof. intros. su; lra. Qed.
Lemma z_zero x a b : a <= b -> b <= x -> mf_z RO x a b = 0.
Proof. intros. su; lra. Qed.
Lemma s_mid a b : a < b -> mf_s RO ((a + b) / 2) a b = / 2.
Proof. intros. su; try lra. field. lra. Qed.

(* complementary whenever the width is non-zero ... *)
Lemma s_z_complement x a b : a < b -> mf_s RO x a b + mf_z RO x a b = 1.
Proof. intros H. su; try lra. replace x with ((a + b) / 2) by lra. field. lra. Qed.
(* ... and NOT at the single point x = a = b of a zero-width pair (outside the property's quantifier: S and Z need a < b) *)
Lemma s_z_degenerate a : mf_s RO a a a + mf_z RO a a a = 0.
Proof. su; lra. Qed.

(* the bodies as found (midpoint tested first) compute the same real function for every ordered pair a <= b; they differ
   in binary64, where the computed midpoint can coincide with an end point (MfRound.v: b64_sz_as_found_refuted) *)
Lemma sz_orig_agrees x a b : a <= b -> mf_s_orig RO x a b = mf_s RO x a b /\ mf_z_orig RO x a b = mf_z RO x a b.
Proof. intros H. unfold mf_s_orig, mf_z_orig. su; split; lra. Qed.

Lemma s_monotone x y a b : a < b -> x <= y -> mf_s RO x a b <= mf_s RO y a b.
Proof.
  intros Hab H. pose proof (s_range x a b) as Rx. pose proof (s_range y a b) as Ry. revert Rx Ry.
  assert (Hi : 0 < / (b - a)) by (apply Rinv_0_lt_compat; lra).
  su; intros; try lra.
  - (* both on the upper half *)
    assert (U : 0 <= (b - y) / (b - a) <= (b - x) / (b - a)) by (split; [apply div_01; lra|apply div_mono; lra]). nra.
  - (* x lower half, y upper half *)
    assert (U : 0 <= (b - y) / (b - a) <= / 2) by (apply div_half; lra).
    assert (V : 0 <= (x - a) / (b - a) <= / 2) by (apply div_half; lra). nra.
  - assert (U : 0 <= (x - a) / (b - a) <= (y - a) / (b - a)) by (split; [apply div_01; lra|apply div_mono; lra]). nra.
Qed.
Lemma z_monotone x y a b : a < b -> x <= y -> mf_z RO y a b <= mf_z RO x a b.
Proof.
  intros Hab H. pose proof (s_z_complement x a b Hab). pose proof (s_z_complement y a b Hab).
  pose proof (s_monotone x y a b Hab H). lra.
Qed.

(* pi = S, 1, Z glued *)
Lemma pi_glue x a b c d :
  mf_pi RO x a b c d = if Rltb x b then mf_s RO x a b else if Rltb c x then mf_z RO x c d else 1.
Proof. reflexivity. Qed.
Lemma pi_range x a b c d : 0 <= mf_pi RO x a b c d <= 1.
Proof. rewrite pi_glue. rcases; [apply s_range|apply z_range|lra]. Qed.
Lemma pi_core x a b c d : b <= x <= c -> mf_pi RO x a b c d = 1.
Proof. intros. rewrite pi_glue. rcases; lra. Qed.
Lemma pi_rising x y a b c d : a < b -> b <= c -> x <= y <= b -> mf_pi RO x a b c d <= mf_pi RO y a b c d.
Proof.
  intros Hab Hbc H. rewrite !pi_glue. pose proof (s_range x a b). rcases; try lra. apply s_monotone; lra.
Qed.
Lemma pi_falling x y a b c d : c < d -> b <= c -> c <= x <= y -> mf_pi RO y a b c d <= mf_pi RO x a b c d.
Proof.
  intros Hcd Hbc H. rewrite !pi_glue. pose proof (z_range y c d). rcases; try lra. apply z_monotone; lra.
Qed.
Lemma pi_zero x a b c d : a <= b -> c <= d -> b <= c -> x <= a /\ a < b \/ x < a \/ d <= x /\ c < d \/ d < x -> mf_pi RO x a b c d = 0.
Proof.
  intros H1 H2 H3 H. rewrite pi_glue. rcases.
  - apply s_zero; lra.
  - apply z_zero; lra.
  - lra.
Qed.
Definition pi_defined (x a b c d : R) : Prop :=
  if Rltb x b then s_defined x a b else if Rltb c x then z_defined x c d else True.
Lemma pi_defined_all x a b c d : pi_defined x a b c d.
Proof. unfold pi_defined. rcases; [apply s_defined_all|apply z_defined_all|exact I]. Qed.

(* ================================================================ gaussian families *)
Lemma exp_le_mono s t : s <= t -> exp s <= exp t.
Proof. intros [H|H]; [left; apply exp_increasing; exact H|subst; lra]. Qed.
Lemma exp_le_1 t : t <= 0 -> exp t <= 1.
Proof. intros H. rewrite <- exp_0. apply exp_le_mono. exact H. Qed.

Definition gauss_defined (x sigma c : R) : Prop := sigma <> 0 /\ pow_defined ((x - c) / sigma) 2.
Lemma gauss_defined_iff x sigma c : gauss_defined x sigma c <-> sigma <> 0.
Proof. unfold gauss_defined. split; [intros [H _]; exact H|intros H; split; [exact H|apply pow_defined_2]]. Qed.

Lemma gauss_eq x sigma c : mf_gauss RO x sigma c = exp (- (((x - c) / sigma) * ((x - c) / sigma)) / 2).
Proof. unfold mf_gauss, rexp, rpow. unfold13. rewrite Rpow_2. f_equal. set (u := (x - c) / sigma). field. Qed.
(* the documented closed form *)
Lemma gauss_closed x sigma c : sigma <> 0 -> mf_gauss RO x sigma c = exp (- (x - c) ^ 2 / (2 * sigma ^ 2)).
Proof. intros H. rewrite gauss_eq. f_equal. field. exact H. Qed.

Lemma gauss_range x sigma c : 0 < mf_gauss RO x sigma c <= 1.
Proof.
  rewrite gauss_eq. split; [apply exp_pos|]. apply exp_le_1.
  pose proof (Rle_0_sqr ((x - c) / sigma)) as H. unfold Rsqr in H. lra.
Qed.
Lemma gauss_peak sigma c : mf_gauss RO c sigma c = 1.
Proof. rewrite gauss_eq. replace (c - c) with 0 by ring. unfold Rdiv. rewrite !Rmult_0_l, Ropp_0, Rmult_0_l. apply exp_0. Qed.

Lemma sq_div_mono p q s : p * p <= q * q -> (p / s) * (p / s) <= (q / s) * (q / s).
Proof.
  intros H. unfold Rdiv. replace (p * / s * (p * / s)) with (p * p * (/ s * / s)) by ring.
  replace (q * / s * (q * / s)) with (q * q * (/ s * / s)) by ring.
  apply Rmult_le_compat_r; [|exact H]. pose proof (Rle_0_sqr (/ s)) as K. unfold Rsqr in K. exact K.
Qed.
Lemma gauss_rising x y sigma c : x <= y <= c -> mf_gauss RO x sigma c <= mf_gauss RO y sigma c.
Proof.
  intros H. rewrite !gauss_eq. apply exp_le_mono.
  assert (K : (y - c) * (y - c) <= (x - c) * (x - c)) by nra.
  pose proof (sq_div_mono _ _ sigma K). lra.
Qed.
Lemma gauss_falling x y sigma c : c <= x <= y -> mf_gauss RO y sigma c <= mf_gauss RO x sigma c.
Proof.
  intros H. rewrite !gauss_eq. apply exp_le_mono.
  assert (K : (x - c) * (x - c) <= (y - c) * (y - c)) by nra.
  pose proof (sq_div_mono _ _ sigma K). lra.
Qed.

Lemma gauss2_glue x s1 c1 s2 c2 :
  mf_gauss2 RO x s1 c1 s2 c2 = if Rltb x c1 then mf_gauss RO x s1 c1 else if Rltb c2 x then mf_gauss RO x s2 c2 else 1.
Proof. reflexivity. Qed.
Lemma gauss2_range x s1 c1 s2 c2 : 0 < mf_gauss2 RO x s1 c1 s2 c2 <= 1.
Proof. rewrite gauss2_glue. rcases; try apply gauss_range. lra. Qed.
Lemma gauss2_core x s1 c1 s2 c2 : c1 <= x <= c2 -> mf_gauss2 RO x s1 c1 s2 c2 = 1.
Proof. intros. rewrite gauss2_glue. rcases; lra. Qed.
Lemma gauss2_rising x y s1 c1 s2 c2 : c1 <= c2 -> x <= y <= c1 -> mf_gauss2 RO x s1 c1 s2 c2 <= mf_gauss2 RO y s1 c1 s2 c2.
Proof.
  intros Hc H. rewrite !gauss2_glue. pose proof (gauss_range x s1 c1). rcases; try lra. apply gauss_rising. lra.
Qed.
Lemma gauss2_falling x y s1 c1 s2 c2 : c1 <= c2 -> c2 <= x <= y -> mf_gauss2 RO y s1 c1 s2 c2 <= mf_gauss2 RO x s1 c1 s2 c2.
Proof.
  intros Hc H. rewrite !gauss2_glue. pose proof (gauss_range y s2 c2). rcases; try lra. apply gauss_falling. lra.
Qed.
Definition gauss2_defined (x s1 c1 s2 c2 : R) : Prop :=
  if Rltb x c1 then gauss_defined x s1 c1 else if Rltb c2 x then gauss_defined x s2 c2 else True.
Lemma gauss2_defined_if x s1 c1 s2 c2 : s1 <> 0 -> s2 <> 0 -> gauss2_defined x s1 c1 s2 c2.
Proof. intros. unfold gauss2_defined. rcases; try exact I; apply gauss_defined_iff; assumption. Qed.

(* ================================================================ generalised bell *)
Definition gbell_defined (x a b c : R) : Prop :=
  a <> 0 /\ pow_defined (Rabs ((x - c) / a)) (2 * b) /\ Rpow (Rabs ((x - c) / a)) (2 * b) + 1 <> 0.
Lemma gbell_eq x a b c : mf_gbell RO x a b c = 1 / (Rpow (Rabs ((x - c) / a)) (2 * b) + 1).
Proof. reflexivity. Qed.
Lemma gbell_den x a b c : 1 <= Rpow (Rabs ((x - c) / a)) (2 * b) + 1.
Proof. pose proof (Rpow_nonneg (Rabs ((x - c) / a)) (2 * b) (Rabs_pos _)). lra. Qed.
Lemma gbell_defined_if x a b c : a <> 0 -> 0 <= b -> gbell_defined x a b c.
Proof.
  intros Ha Hb. split; [exact Ha|]. split; [|pose proof (gbell_den x a b c); lra].
  unfold pow_defined. destruct (Rabs_pos ((x - c) / a)) as [H|H]; [left; exact H|right; left; split; [symmetry; exact H|lra]].
Qed.
Lemma gbell_range x a b c : 0 < mf_gbell RO x a b c <= 1.
Proof.
  rewrite gbell_eq. pose proof (gbell_den x a b c) as D. set (q := Rpow _ _ + 1) in *. split.
  - apply div_pos; lra.
  - unfold Rdiv. rewrite Rmult_1_l. rewrite <- Rinv_1. apply Rinv_le_contravar; lra.
Qed.
Lemma gbell_peak a b c : 0 < b -> mf_gbell RO c a b c = 1.
Proof.
  intros Hb. rewrite gbell_eq. replace ((c - c) / a) with 0 by (unfold Rdiv; ring). rewrite Rabs_R0, Rpow_0 by lra. field.
Qed.
(* the further from the centre, the smaller: both flanks at once *)
Lemma gbell_flanks x y a b c : a <> 0 -> 0 < b -> Rabs (x - c) <= Rabs (y - c) -> mf_gbell RO y a b c <= mf_gbell RO x a b c.
Proof.
  intros Ha Hb H. rewrite !gbell_eq. pose proof (gbell_den x a b c) as Dx. pose proof (gbell_den y a b c) as Dy.
  assert (M : Rpow (Rabs ((x - c) / a)) (2 * b) <= Rpow (Rabs ((y - c) / a)) (2 * b)).
  { apply Rpow_le_base; [lra|]. split; [apply Rabs_pos|]. unfold Rdiv. rewrite !Rabs_mult.
    apply Rmult_le_compat_r; [apply Rabs_pos|exact H]. }
  unfold Rdiv. rewrite !Rmult_1_l. apply Rinv_le_contravar; lra.
Qed.

(* ================================================================ sigmoid families *)
Lemma sig_eq x a c : mf_sig RO x a c = 1 / (exp ((c - x) * a) + 1).
Proof. reflexivity. Qed.
(* the denominator is never 0: always defined *)
Lemma sig_den x a c : 1 < exp ((c - x) * a) + 1.
Proof. pose proof (exp_pos ((c - x) * a)). lra. Qed.
Lemma sig_range x a c : 0 < mf_sig RO x a c < 1.
Proof.
  rewrite sig_eq. pose proof (sig_den x a c) as D. set (q := exp _ + 1) in *. split.
  - apply div_pos; lra.
  - apply div_lt1; lra.
Qed.
Lemma sig_centre a c : mf_sig RO c a c = / 2.
Proof. rewrite sig_eq. replace ((c - c) * a) with 0 by ring. rewrite exp_0. field. Qed.
Lemma sig_monotone x y a c : 0 <= a -> x <= y -> mf_sig RO x a c <= mf_sig RO y a c.
Proof.
  intros Ha H. rewrite !sig_eq. pose proof (sig_den x a c). pose proof (sig_den y a c).
  assert (exp ((c - y) * a) <= exp ((c - x) * a)) by (apply exp_le_mono; nra).
  unfold Rdiv. rewrite !Rmult_1_l. apply Rinv_le_contravar; lra.
Qed.
Lemma sig_antitone x y a c : a <= 0 -> x <= y -> mf_sig RO y a c <= mf_sig RO x a c.
Proof.
  intros Ha H. rewrite !sig_eq. pose proof (sig_den x a c). pose proof (sig_den y a c).
  assert (exp ((c - x) * a) <= exp ((c - y) * a)) by (apply exp_le_mono; nra).
  unfold Rdiv. rewrite !Rmult_1_l. apply Rinv_le_contravar; lra.
Qed.
(* in the centre parameter: a later centre gives a smaller value for a non-negative slope *)
Lemma sig_centre_order x a c1 c2 : 0 <= a -> c1 <= c2 -> mf_sig RO x a c2 <= mf_sig RO x a c1.
Proof.
  intros Ha H. rewrite !sig_eq. pose proof (sig_den x a c1). pose proof (sig_den x a c2).
  assert (exp ((c1 - x) * a) <= exp ((c2 - x) * a)) by (apply exp_le_mono; nra).
  unfold Rdiv. rewrite !Rmult_1_l. apply Rinv_le_contravar; lra.
Qed.
Lemma sig_centre_order_neg x a c1 c2 : a <= 0 -> c2 <= c1 -> mf_sig RO x a c2 <= mf_sig RO x a c1.
Proof.
  intros Ha H. rewrite !sig_eq. pose proof (sig_den x a c1). pose proof (sig_den x a c2).
  assert (exp ((c1 - x) * a) <= exp ((c2 - x) * a)) by (apply exp_le_mono; nra).
  unfold Rdiv. rewrite !Rmult_1_l. apply Rinv_le_contravar; lra.
Qed.

(* difference of sigmoids: inside [0,1) for equal slopes and centres ordered with the sign of the slope *)
Lemma dsig_range x a c1 c2 : (0 <= a /\ c1 <= c2) \/ (a <= 0 /\ c2 <= c1) -> 0 <= mf_dsig RO x a c1 a c2 < 1.
Proof.
  intros H. unfold mf_dsig. unfold13. pose proof (sig_range x a c1). pose proof (sig_range x a c2).
  destruct H as [[Ha Hc]|[Ha Hc]].
  - pose proof (sig_centre_order x a c1 c2 Ha Hc). lra.
  - pose proof (sig_centre_order_neg x a c1 c2 Ha Hc). lra.
Qed.
(* without the ordering the value leaves [0,1] - the reason for the property's precondition *)
Lemma dsig_unordered_negative : exists x a c1 c2, 0 < a /\ c2 < c1 /\ mf_dsig RO x a c1 a c2 < 0.
Proof.
  exists 0, 1, 1, 0. split; [lra|]. split; [lra|]. unfold mf_dsig. unfold13. rewrite (sig_centre 1 0).
  rewrite sig_eq. replace ((1 - 0) * 1) with 1 by ring.
  assert (2 < exp 1 + 1) by (pose proof exp_ineq1 1 ltac:(lra); lra).
  assert (1 / (exp 1 + 1) < / 2).
  { unfold Rdiv. rewrite Rmult_1_l. apply Rinv_lt_contravar; nra. }
  lra.
Qed.
Lemma psig_range x a1 c1 a2 c2 : 0 < mf_psig RO x a1 c1 a2 c2 < 1.
Proof. unfold mf_psig. unfold13. pose proof (sig_range x a1 c1). pose proof (sig_range x a2 c2). nra. Qed.

(* ================================================================ the generic dispatcher a_mf *)
Definition mf_by_tag (e : nat) (x a0 a1 a2 a3 : R) : R :=
  match e with
  | 1%nat => mf_gauss RO x a0 a1 | 2%nat => mf_gauss2 RO x a0 a1 a2 a3 | 3%nat => mf_gbell RO x a0 a1 a2 | 4%nat => mf_sig RO x a0 a1
  | 5%nat => mf_dsig RO x a0 a1 a2 a3 | 6%nat => mf_psig RO x a0 a1 a2 a3 | 7%nat => mf_trap RO x a0 a1 a2 a3 | 8%nat => mf_tri RO x a0 a1 a2
  | 9%nat => mf_lins RO x a0 a1 | 10%nat => mf_linz RO x a0 a1 | 11%nat => mf_s RO x a0 a1 | 12%nat => mf_z RO x a0 a1
  | 13%nat => mf_pi RO x a0 a1 a2 a3 | _ => 0
  end.

(* all 13 tags call their specific function on a[0..]; every other tag (A_MF_NUL included) gives 0 *)
Lemma mf_dispatch e x a0 a1 a2 a3 rest : mf RO e x (a0 :: a1 :: a2 :: a3 :: rest) = Some (mf_by_tag e x a0 a1 a2 a3).
Proof. do 14 (destruct e as [|e]; [reflexivity|]). reflexivity. Qed.

(* the model reads exactly mf_arity e parameters: it fails (None) iff fewer are supplied *)
Lemma mf_reads_arity e x a : mf RO e x a = None <-> (length a < mf_arity e)%nat.
Proof.
  do 14 (destruct e as [|e]; [destruct a as [|a0 [|a1 [|a2 [|a3 r]]]]; cbn; split; intros H; try discriminate; try lia; reflexivity|]).
  cbn. split; [destruct a; discriminate|lia].
Qed.

(* values of the dispatcher are membership degrees; only the difference of sigmoids needs its precondition *)
Definition dsig_ok (ps : list R) : Prop :=
  exists a c1 c2 rest, ps = a :: c1 :: a :: c2 :: rest /\ ((0 <= a /\ c1 <= c2) \/ (a <= 0 /\ c2 <= c1)).

Lemma some_inj {A} (a b : A) : Some a = Some b -> a = b.
Proof. congruence. Qed.

Lemma mf_unit e x ps y : mf RO e x ps = Some y -> (e = 5%nat -> dsig_ok ps) -> 0 <= y <= 1.
Proof.
  intros H D.
  destruct e as [|e]; [cbn in H; apply some_inj in H; subst y; lra|].
  destruct e as [|e]; [destruct ps as [|a0 [|a1 r]]; cbn [mf] in H; try discriminate H; apply some_inj in H; subst y; pose proof (gauss_range x a0 a1); lra|].
  destruct e as [|e]; [destruct ps as [|a0 [|a1 [|a2 [|a3 r]]]]; cbn [mf] in H; try discriminate H; apply some_inj in H; subst y; pose proof (gauss2_range x a0 a1 a2 a3); lra|].
  destruct e as [|e]; [destruct ps as [|a0 [|a1 [|a2 r]]]; cbn [mf] in H; try discriminate H; apply some_inj in H; subst y; pose proof (gbell_range x a0 a1 a2); lra|].
  destruct e as [|e]; [destruct ps as [|a0 [|a1 r]]; cbn [mf] in H; try discriminate H; apply some_inj in H; subst y; pose proof (sig_range x a0 a1); lra|].
  destruct e as [|e].
  { destruct (D eq_refl) as (a & c1 & c2 & rest & -> & Hc). cbn [mf] in H. apply some_inj in H; subst y. pose proof (dsig_range x a c1 c2 Hc). lra. }
  destruct e as [|e]; [destruct ps as [|a0 [|a1 [|a2 [|a3 r]]]]; cbn [mf] in H; try discriminate H; apply some_inj in H; subst y; pose proof (psig_range x a0 a1 a2 a3); lra|].
  destruct e as [|e]; [destruct ps as [|a0 [|a1 [|a2 [|a3 r]]]]; cbn [mf] in H; try discriminate H; apply some_inj in H; subst y; apply trap_range|].
  destruct e as [|e]; [destruct ps as [|a0 [|a1 [|a2 r]]]; cbn [mf] in H; try discriminate H; apply some_inj in H; subst y; apply tri_range|].
  destruct e as [|e]; [destruct ps as [|a0 [|a1 r]]; cbn [mf] in H; try discriminate H; apply some_inj in H; subst y; apply lins_range|].
  destruct e as [|e]; [destruct ps as [|a0 [|a1 r]]; cbn [mf] in H; try discriminate H; apply some_inj in H; subst y; apply linz_range|].
  destruct e as [|e]; [destruct ps as [|a0 [|a1 r]]; cbn [mf] in H; try discriminate H; apply some_inj in H; subst y; apply s_range|].
  destruct e as [|e]; [destruct ps as [|a0 [|a1 r]]; cbn [mf] in H; try discriminate H; apply some_inj in H; subst y; apply z_range|].
  destruct e as [|e]; [destruct ps as [|a0 [|a1 [|a2 [|a3 r]]]]; cbn [mf] in H; try discriminate H; apply some_inj in H; subst y; apply pi_range|].
  cbn in H. apply some_inj in H; subst y. lra.
Qed.
