(* C13 proofs, part 4 (cited by Properties_C12 as well): a_pid_fuzzy_out_ only replaces the three gains and the scratch
   block, so after every a_pid_fuzzy_run/pos/inc step of every history, for every operator, table and rule base, the
   controller output lies within outmin..outmax.  Proved for any NumOps over R whose `<` is the real order (R_ops and
   R13_ops are instances) - the statement does not depend on what exp/pow are. *)
From Coq Require Import Reals ZArith List Lra Lia Bool.
From LibaV Require Import Common.NumOps Common.ROps C12.PidDefs C13.R13Ops C13.MfDefs C13.FuzzyDefs.
Import ListNotations.
Local Open Scope R_scope.

Lemma bind_ok {A B} (r : res A) (f : A -> res B) y : bind r f = Ok y -> exists a, r = Ok a /\ f a = Ok y.
Proof. destruct r as [a|e]; cbn; [intros H; exists a; split; [reflexivity|exact H]|discriminate]. Qed.

Section AnyOps.
  Context {T : Type} (O : NumOps T).

  (* every successful exit of a_pid_fuzzy_out_ is the `exit:` label: new gains, new scratch, nothing else *)
  Lemma fuzzy_out_shape g (s s' : fuzzy (T := T)) ec e :
    fuzzy_out_gen O g s ec e = Ok s' -> exists c kp ki kd, s' = fuzzy_exit O s c kp ki kd.
  Proof.
    unfold fuzzy_out_gen. intros H.
    apply bind_ok in H. destruct H as ([c1 ne] & _ & H).
    destruct (Nat.eqb ne 0); [inversion H; eauto|].
    apply bind_ok in H. destruct H as ([c2 nec] & _ & H).
    destruct (Nat.eqb nec 0); [inversion H; eauto|].
    apply bind_ok in H. destruct H as ([[c3 sum] it] & _ & H).
    destruct (g && negb (gtb O sum (ofZ O 0))); [inversion H; eauto|].
    apply bind_ok in H. destruct H as (kp & _ & H).
    apply bind_ok in H. destruct H as (ki & _ & H).
    apply bind_ok in H. destruct H as (kd & _ & H).
    inversion H. eauto.
  Qed.

  Definition same_setup (s s' : fuzzy (T := T)) : Prop :=
    me s' = me s /\ mec s' = mec s /\ mkp s' = mkp s /\ mki s' = mki s /\ mkd s' = mkd s /\ opr s' = opr s /\
    bkp s' = bkp s /\ bki s' = bki s /\ bkd s' = bkd s /\ nrule s' = nrule s /\ nfuzz s' = nfuzz s /\
    outmax (fpid s') = outmax (fpid s) /\ outmin (fpid s') = outmin (fpid s) /\
    summax (fpid s') = summax (fpid s) /\ summin (fpid s') = summin (fpid s).

  Lemma same_setup_refl s : same_setup s s.
  Proof. unfold same_setup. repeat split. Qed.
  Lemma same_setup_trans s1 s2 s3 : same_setup s1 s2 -> same_setup s2 s3 -> same_setup s1 s3.
  Proof. unfold same_setup. intuition congruence. Qed.

  Lemma fuzzy_exit_setup s c kp ki kd : same_setup s (fuzzy_exit O s c kp ki kd).
  Proof. unfold same_setup. cbn. repeat split. Qed.

  (* the part of the plain-controller state that out_ leaves alone *)
  Lemma fuzzy_exit_state s c kp ki kd :
    let p := fpid (fuzzy_exit O s c kp ki kd) in
    sum p = sum (fpid s) /\ out p = out (fpid s) /\ var p = var (fpid s) /\ fdb p = fdb (fpid s) /\ err p = err (fpid s).
  Proof. cbn. repeat split. Qed.

  Lemma fstep_setup s o s' : fstep O s o = Ok s' -> same_setup s s'.
  Proof.
    destruct o as [a f|a f|a f|]; cbn [fstep]; unfold fuzzy_run, fuzzy_pos, fuzzy_inc, fuzzy_out_; intros H.
    1-3: apply bind_ok in H; destruct H as (s1 & H1 & H); apply fuzzy_out_shape in H1; destruct H1 as (c & kp & ki & kd & ->);
         inversion H; unfold same_setup; cbn; repeat split.
    inversion H. unfold same_setup. cbn. repeat split.
  Qed.
End AnyOps.

Section RealOrder.
  Context (O : NumOps R) (HO : ltb O = Rltb).

  Lemma sat_range_any x lo hi : lo <= hi -> lo <= sat O x lo hi <= hi.
  Proof. intros H. unfold sat. rewrite HO. rcases; lra. Qed.

  Definition is_control_step (o : fop (T := R)) : Prop := match o with FZero => False | _ => True end.

  (* one step *)
  Lemma fstep_out_in_limits s o s' :
    outmin (fpid s) <= outmax (fpid s) -> is_control_step o -> fstep O s o = Ok s' ->
    outmin (fpid s) <= out (fpid s') <= outmax (fpid s).
  Proof.
    intros L C H. destruct o as [a f|a f|a f|]; [| | |destruct C]; cbn [fstep] in H;
      unfold fuzzy_run, fuzzy_pos, fuzzy_inc, fuzzy_out_ in H;
      apply bind_ok in H; destruct H as (s1 & H1 & H); apply fuzzy_out_shape in H1; destruct H1 as (c & kp & ki & kd & ->);
      inversion H; cbn; apply sat_range_any; exact L.
  Qed.

  (* running a whole history: Ok only if every step was Ok *)
  Fixpoint frun (s : fuzzy (T := R)) (ops : list fop) : res fuzzy :=
    match ops with [] => Ok s | o :: tl => bind (fstep O s o) (fun s1 => frun s1 tl) end.

  Lemma frun_setup : forall ops s s', frun s ops = Ok s' -> same_setup s s'.
  Proof.
    induction ops as [|o tl IH]; intros s s' H; cbn in H.
    - inversion H. apply same_setup_refl.
    - apply bind_ok in H. destruct H as (s1 & H1 & H). eapply same_setup_trans; [eapply fstep_setup; exact H1|apply IH; exact H].
  Qed.

  (* after EVERY run/pos/inc step of EVERY history (zero steps may be interleaved anywhere), all operators *)
  Theorem fuzzy_out_in_limits : forall (ops : list fop) (s : fuzzy) (o : fop) (s' : fuzzy),
    outmin (fpid s) <= outmax (fpid s) -> is_control_step o ->
    frun s (ops ++ [o]) = Ok s' ->
    outmin (fpid s) <= out (fpid s') <= outmax (fpid s).
  Proof.
    induction ops as [|a tl IH]; intros s o s' L C H.
    - cbn in H. apply bind_ok in H. destruct H as (s1 & H1 & H). inversion H. subst s1.
      eapply fstep_out_in_limits; eassumption.
    - cbn [app frun] in H. apply bind_ok in H. destruct H as (s1 & H1 & H).
      pose proof (fstep_setup O s a s1 H1) as S. destruct S as (_&_&_&_&_&_&_&_&_&_&_&E1&E2&_).
      rewrite <- E1, <- E2. apply (IH s1 o s'); [rewrite E1, E2; exact L|exact C|exact H].
  Qed.

  (* fhist (the driver's form, keeping every intermediate state) agrees with frun *)
  Lemma fhist_frun : forall ops s s', frun s ops = Ok s' -> ops <> [] -> exists pre, fhist O s ops = pre ++ [Ok s'].
  Proof.
    induction ops as [|o tl IH]; intros s s' H N; [congruence|].
    cbn in H. apply bind_ok in H. destruct H as (s1 & H1 & H). cbn [fhist]. rewrite H1.
    destruct tl as [|o2 tl2].
    - cbn in H. inversion H. exists []. reflexivity.
    - destruct (IH s1 s' H ltac:(discriminate)) as (pre & E). exists (Ok s1 :: pre). rewrite E. reflexivity.
  Qed.
End RealOrder.

Theorem fuzzy_out_in_limits_R_ops : forall ops s o s',
  outmin (fpid s) <= outmax (fpid s) -> is_control_step o -> frun R_ops s (ops ++ [o]) = Ok s' ->
  outmin (fpid s) <= out (fpid s') <= outmax (fpid s).
Proof. exact (fuzzy_out_in_limits R_ops eq_refl). Qed.
Theorem fuzzy_out_in_limits_R13 : forall ops s o s',
  outmin (fpid s) <= outmax (fpid s) -> is_control_step o -> frun R13_ops s (ops ++ [o]) = Ok s' ->
  outmin (fpid s) <= out (fpid s') <= outmax (fpid s).
Proof. exact (fuzzy_out_in_limits R13_ops eq_refl). Qed.
