(* C13 proofs, part 6: the statements of the gain-scheduling clause assembled from FuzzyProofs.v.
   - table_ok: the only precondition the property puts on a membership table (every difference-of-sigmoids set has
     equal slopes and centres ordered with the sign of the slope); under it every recorded membership is in (0,1]
     (walk_unit);
   - gain_spec: what one derived gain is - base + (sum of w_ij * m_ij) * (1 / sum of w_ij) over the active rules with
     w_ij >= 0 and a POSITIVE sum (so the division executed is defined), hence between base + smallest and base + largest
     active consequent; or exactly the base gain when no rule fires / the rule base pointer is NULL;
   - fuzzy_out_spec: a_pid_fuzzy_out_ under the documented sizing returns Ok (no bounds-checked scratch / rule-base
     access failed), keeps the block sizes, and all three gains satisfy gain_spec;
   - fstep_spec: the same for a whole a_pid_fuzzy_run / pos / inc step (and zero), with the output inside the limits. *)
From Coq Require Import Reals ZArith List Lra Lia Bool Arith.
From LibaV Require Import Common.NumOps Common.ROps C12.PidDefs C13.R13Ops C13.MfDefs C13.FuzzyDefs C13.FuzzyLimits
  C13.MfProofs C13.OprProofs C13.FuzzyProofs.
Import ListNotations.
Local Open Scope R_scope.

Local Notation RO := R13_ops.

(* ------------------------------------------------------------------------------------------------ tables *)
Fixpoint table_ok (n : nat) (a : list R) : Prop :=
  match n with
  | 0%nat => True
  | S n' =>
    match a with
    | [] => True
    | v :: a1 =>
      let t := tag_of RO v in
      if Nat.eqb t 0 then True
      else match take (mf_arity t) a1 with
           | None => True
           | Some (ps, a2) => (t = 5%nat -> dsig_ok ps) /\ table_ok n' a2
           end
    end
  end.

Lemma walk_unit : forall n i x a l, table_ok n a -> walk_spec n i x a = Some l -> unit_vals l.
Proof.
  induction n as [|n IH]; intros i x a l T H; cbn [walk_spec] in H; cbn [table_ok] in T.
  - inversion H. constructor.
  - destruct a as [|v a1]; [discriminate|]. destruct (Nat.eqb (tag_of RO v) 0); [inversion H; constructor|].
    destruct (take (mf_arity (tag_of RO v)) a1) as [[ps a2]|]; [|discriminate]. destruct T as [D T].
    destruct (mf RO (tag_of RO v) x ps) as [y|] eqn:M; [|discriminate].
    destruct (walk_spec n (S i) x a2) as [l'|] eqn:W; [|discriminate].
    specialize (IH (S i) x a2 l' T W). unfold gtb in H. cbn [ltb R13_ops] in H.
    pose proof (mf_unit _ _ _ _ M D) as U. pose proof eps_pos as E. unfold eps in H.
    destruct (Rltb_spec (ofD RO 1 (-52)) y) as [r|r]; inversion H; subst l; [|exact IH].
    constructor; [cbn; lra|exact IH].
Qed.

(* a table without difference-of-sigmoids sets needs no precondition at all *)
Fixpoint no_dsig (n : nat) (a : list R) : Prop :=
  match n with
  | 0%nat => True
  | S n' =>
    match a with
    | [] => True
    | v :: a1 =>
      let t := tag_of RO v in
      if Nat.eqb t 0 then True
      else match take (mf_arity t) a1 with
           | None => True
           | Some (ps, a2) => t <> 5%nat /\ no_dsig n' a2
           end
    end
  end.
Lemma no_dsig_ok : forall n a, no_dsig n a -> table_ok n a.
Proof.
  induction n as [|n IH]; intros a H; cbn [table_ok no_dsig] in *; [exact I|].
  destruct a as [|v a1]; [exact I|]. destruct (Nat.eqb (tag_of RO v) 0); [exact I|].
  destruct (take (mf_arity (tag_of RO v)) a1) as [[ps a2]|]; [|exact I]. destruct H as [N H].
  split; [intros E; contradiction|apply IH; exact H].
Qed.

(* ------------------------------------------------------------------------------------------------ one gain *)
Definition gain_spec (s : fuzzy (T := R)) (m : option (list R)) (ae aec : list (nat * R)) (base g : R) : Prop :=
  (fires s ae aec /\
   exists l, m = Some l /\
     Forall (fun w => 0 <= w) (jw s ae aec) /\ jsum s ae aec <> 0 /\
     g = base + dotacc (jw s ae aec) (jcons s l ae aec) 0 * (1 / jsum s ae aec) /\
     forall lo hi, (forall i j, In i (map fst ae) -> In j (map fst aec) -> lo <= nth (i * nrule s + j) l 0 <= hi) ->
                   base + lo <= g <= base + hi)
  \/ ((~ fires s ae aec \/ m = None) /\ g = base).

Lemma gsel_gain_spec s m ae aec base :
  unit_vals ae -> unit_vals aec -> gain_spec s m ae aec base (base + gsel s m ae aec).
Proof.
  intros Ue Uec. destruct (gsel_cases s m ae aec) as [[F E]|[F E]].
  - destruct m as [l|].
    + left. split; [exact F|]. exists l. split; [reflexivity|]. split; [apply jw_nonneg; assumption|].
      destruct F as (N1 & N2 & P). split; [lra|]. split; [rewrite E; reflexivity|].
      intros lo hi Hc. rewrite E. pose proof (gains_convex s l ae aec lo hi (conj N1 (conj N2 P)) Ue Uec Hc). lra.
    + right. split; [right; reflexivity|]. rewrite E. cbn. lra.
  - right. split; [left; exact F|]. rewrite E. lra.
Qed.

(* ------------------------------------------------------------------------------------------------ a_pid_fuzzy_out_ *)
Theorem fuzzy_out_spec s ec e ae aec :
  sized s -> rules_ok s -> table_ok (nrule s) (me s) -> table_ok (nrule s) (mec s) ->
  walk_spec (nrule s) 0 e (me s) = Some ae -> walk_spec (nrule s) 0 ec (mec s) = Some aec ->
  (length ae <= nfuzz s)%nat -> (length aec <= nfuzz s)%nat ->
  exists s', fuzzy_out_ RO s ec e = Ok s' /\ sized s' /\ same_setup s s' /\
    gain_spec s (mkp s) ae aec (bkp s) (kp (fpid s')) /\
    gain_spec s (mki s) ae aec (bki s) (ki (fpid s')) /\
    gain_spec s (mkd s) ae aec (bkd s) (kd (fpid s')) /\
    sum (fpid s') = sum (fpid s) /\ out (fpid s') = out (fpid s) /\ err (fpid s') = err (fpid s).
Proof.
  intros Sz Rk Te Tec We Wec Le Lec.
  destruct (fuzzy_out_gains s ec e ae aec Sz Rk We Wec Le Lec) as (s' & E & Sz' & St & Kp & Ki & Kd & R).
  pose proof (walk_unit _ _ _ _ _ Te We) as Ue. pose proof (walk_unit _ _ _ _ _ Tec Wec) as Uec.
  exists s'. split; [exact E|]. split; [exact Sz'|]. split; [exact St|].
  rewrite Kp, Ki, Kd. repeat split; try apply gsel_gain_spec; try assumption; apply R.
Qed.

(* the scratch clause on its own: with room for the active sets no access leaves idx[2n] / val[n(n+2)] (the model's
   accesses are all bounds-checked and would give Fail ErrScratch), no rule-base read leaves its nrule x nrule cells *)
Theorem scratch_in_bounds s ec e ae aec :
  sized s -> rules_ok s ->
  walk_spec (nrule s) 0 e (me s) = Some ae -> walk_spec (nrule s) 0 ec (mec s) = Some aec ->
  (length ae <= nfuzz s)%nat -> (length aec <= nfuzz s)%nat ->
  exists s', fuzzy_out_ RO s ec e = Ok s' /\ sized s' /\
    (length (sidx (sc s')) * 4 + length (sval (sc s')) * 8 = bfuzz_bytes (nfuzz s))%nat /\
    val_offset (nfuzz s) = (length (sidx (sc s')) * 4)%nat.
Proof.
  intros Sz Rk We Wec Le Lec.
  destruct (fuzzy_out_gains s ec e ae aec Sz Rk We Wec Le Lec) as (s' & E & Sz' & St & _).
  exists s'. split; [exact E|]. split; [exact Sz'|]. destruct Sz' as [S1 S2].
  destruct St as (_&_&_&_&_&_&_&_&_&_&Nf&_). rewrite S1, S2, Nf. unfold idx_cells, val_cells, bfuzz_bytes, val_offset. split; lia.
Qed.

(* without room the model reports the overrun: one active set, nfuzz = 0 *)
(* (the C code would write outside the block here; the correspondence run compares this case under AddressSanitizer) *)

(* ------------------------------------------------------------------------------------------------ whole steps *)
Definition step_inputs (s : fuzzy (T := R)) (o : fop (T := R)) : option (R * R) :=
  match o with
  | FRun a f | FPos a f | FInc a f => let e := a - f in Some (e - err (fpid s), e)
  | FZero => None
  end.

Theorem fstep_spec s o :
  sized s -> rules_ok s -> table_ok (nrule s) (me s) -> table_ok (nrule s) (mec s) ->
  outmin (fpid s) <= outmax (fpid s) ->
  match step_inputs s o with
  | None => exists s', fstep RO s o = Ok s' /\ sized s' /\ same_setup s s'
  | Some (ec, e) =>
    forall ae aec,
    walk_spec (nrule s) 0 e (me s) = Some ae -> walk_spec (nrule s) 0 ec (mec s) = Some aec ->
    (length ae <= nfuzz s)%nat -> (length aec <= nfuzz s)%nat ->
    exists s', fstep RO s o = Ok s' /\ sized s' /\ same_setup s s' /\
      gain_spec s (mkp s) ae aec (bkp s) (kp (fpid s')) /\
      gain_spec s (mki s) ae aec (bki s) (ki (fpid s')) /\
      gain_spec s (mkd s) ae aec (bkd s) (kd (fpid s')) /\
      outmin (fpid s) <= out (fpid s') <= outmax (fpid s)
  end.
Proof.
  intros Sz Rk Te Tec L.
  destruct o as [a f|a f|a f|]; cbn [step_inputs].
  4:{ eexists. split; [reflexivity|]. split; [exact Sz|]. unfold same_setup. cbn. repeat split. }
  all: intros ae aec We Wec Le Lec;
    destruct (fuzzy_out_spec s _ _ ae aec Sz Rk Te Tec We Wec Le Lec) as (s1 & E & Sz1 & St & Kp & Ki & Kd & _);
    cbn [fstep]; unfold fuzzy_run, fuzzy_pos, fuzzy_inc; cbn [sub R13_ops]; rewrite E; cbn [bind];
    eexists; (split; [reflexivity|]);
    (split; [exact Sz1|]);
    (split; [destruct St as (?&?&?&?&?&?&?&?&?&?&?&?&?&?&?); unfold same_setup; cbn; repeat split; assumption|]);
    (split; [exact Kp|]); (split; [exact Ki|]); (split; [exact Kd|]);
    destruct St as (_&_&_&_&_&_&_&_&_&_&_&E1&E2&_); cbn; rewrite E1, E2;
    apply (sat_range_any RO eq_refl); exact L.
Qed.

(* ------------------------------------------------------------------------------------------------ 1 / sum *)
(* fuzzy_out_ divides by the joint membership sum on exactly one path: both inputs have active sets AND the sum is
   positive (`fires`); on that path the divisor is non-zero.  For six of the seven operators (every enumerator but
   A_PID_FUZZY_CAP_BOUNDED) the sum is positive as soon as both inputs have active sets; for the bounded product it is
   positive iff some pair of active memberships sums above 1. *)
Theorem division_defined s ae aec :
  unit_vals ae -> unit_vals aec -> ae <> [] -> aec <> [] ->
  (fires s ae aec -> jsum s ae aec <> 0) /\
  (opr s <> 3%nat -> fires s ae aec) /\
  (opr s = 3%nat -> (fires s ae aec <-> exists a b, In a (map snd ae) /\ In b (map snd aec) /\ 1 < a + b)).
Proof.
  intros Ue Uec Ne Nec. split; [intros (_ & _ & P); lra|]. split.
  - intros Hk. split; [exact Ne|]. split; [exact Nec|]. apply joint_sum_positive; assumption.
  - intros Hk. pose proof (bounded_sum_zero_iff s ae aec Hk Ue Uec) as Z. split.
    + intros (_ & _ & P). apply Classical_Prop.NNPP. intros N. apply (proj2 Z); [|exact P].
      intros a b Ha Hb. destruct (Rle_dec (a + b) 1) as [Q|Q]; [exact Q|]. exfalso. apply N. exists a, b. repeat split; try assumption. lra.
    + intros (a & b & Ha & Hb & Hab). split; [exact Ne|]. split; [exact Nec|].
      apply Classical_Prop.NNPP. intros N. pose proof (proj1 Z N a b Ha Hb). lra.
Qed.

(* what a_pid_fuzzy_mf records: indices below n, memberships in (0,1] *)
Theorem active_sets n x a l : walk_spec n 0 x a = Some l ->
  Forall (fun q => (fst q < n)%nat) l /\ (table_ok n a -> unit_vals l).
Proof.
  intros H. split.
  - eapply Forall_impl; [|exact (walk_spec_idx n 0 x a l H)]. cbn. intros q Hq. lia.
  - intros T. exact (walk_unit n 0 x a l T H).
Qed.

(* names announced to C12 (the theorems above under the names used in the plan) *)
Definition fuzzy_gains_defined := division_defined.
Definition fuzzy_gains_finite := fuzzy_out_spec.
