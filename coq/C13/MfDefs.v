(* C13 model, part 1: src/mf.c (13 membership functions + the generic dispatcher a_mf), the inline fuzzy operators of
   include/a/fuzzy.h and a_fuzzy_equ/a_fuzzy_equ_ of src/fuzzy.c, transcribed statement by statement, polymorphic over
   NumOps.  No proofs here.

   The model is the code as /repo has it after the fix: commits 4d7bbba and fcf888d (proposed_fixes/C13-1 and C13-2):
     a_mf_lins / a_mf_linz : second test is  x >= b  (was x > b: x = a = b computed 0/0)
     a_mf_tri              : third arm  x == b -> 1  (was: b == c gave 0 at the peak); same shape as a_mf_trap
   and proposed_fixes/C13-4-mf-s-z-boundary-first.diff:
     a_mf_s / a_mf_z       : the end points are tested BEFORE the computed midpoint (was: midpoint first; in binary64 the
                             computed (a+b)/2 can round onto an end point, which then fell into the quadratic branch of the
                             other half: a_mf_s(b; a, b) = 2 for adjacent a < b)
   The unrepaired bodies are kept as mf_lins_orig / mf_linz_orig / mf_tri_orig / mf_s_orig / mf_z_orig for the refutation
   lemmas. *)
From Coq Require Import ZArith List Bool.
From LibaV Require Import Common.NumOps.
Import ListNotations.

Section Model.
  Context {T : Type} (O : NumOps T).
  Local Notation "x + y" := (add O x y) (at level 50, left associativity).
  Local Notation "x - y" := (sub O x y) (at level 50, left associativity).
  Local Notation "x * y" := (mul O x y) (at level 40, left associativity).
  Local Notation "x / y" := (div O x y) (at level 40, left associativity).
  Local Notation "x <? y" := (ltb O x y) (at level 70).
  Local Notation "x >? y" := (gtb O x y) (at level 70).
  Local Notation "x <=? y" := (leb O x y) (at level 70).
  Local Notation "x >=? y" := (geb O x y) (at level 70).
  Local Notation "# z" := (ofZ O z%Z) (at level 0, z at level 0).

  (* a_real_pow(u, v) = pow(u, v); a_real_exp = exp; a_real_abs = fabs; a_real_sqrt = sqrt *)
  Definition rpow (u v : T) : T := fn2 O Pow u v.
  Definition rexp (u : T) : T := fn1 O Exp u.

  (* ---------------------------------------------------------------- src/mf.c *)
  (* return a_real_exp(a_real_pow((x - c) / sigma, 2) / -2); *)
  Definition mf_gauss (x sigma c : T) : T := rexp (rpow ((x - c) / sigma) #2 / #(-2)).

  Definition mf_gauss2 (x sigma1 c1 sigma2 c2 : T) : T :=
    if x <? c1 then mf_gauss x sigma1 c1
    else if x >? c2 then mf_gauss x sigma2 c2
    else #1.

  (* return 1 / (a_real_pow(a_real_abs((x - c) / a), 2 * b) + 1); *)
  Definition mf_gbell (x a b c : T) : T := #1 / (rpow (abs O ((x - c) / a)) (#2 * b) + #1).

  (* return 1 / (a_real_exp((c - x) * a) + 1); *)
  Definition mf_sig (x a c : T) : T := #1 / (rexp ((c - x) * a) + #1).
  Definition mf_dsig (x a1 c1 a2 c2 : T) : T := mf_sig x a1 c1 - mf_sig x a2 c2.
  Definition mf_psig (x a1 c1 a2 c2 : T) : T := mf_sig x a1 c1 * mf_sig x a2 c2.

  Definition mf_trap (x a b c d : T) : T :=
    if x <? b then (if x >? a then (x - a) / (b - a) else #0)
    else if x >? c then (if x <? d then (d - x) / (d - c) else #0)
    else #1.

  (* repaired (C13-2) *)
  Definition mf_tri (x a b c : T) : T :=
    if x <? b then (if x >? a then (x - a) / (b - a) else #0)
    else if x >? b then (if x <? c then (c - x) / (c - b) else #0)
    else #1.
  (* as found *)
  Definition mf_tri_orig (x a b c : T) : T :=
    if x <? b then (if x >? a then (x - a) / (b - a) else #0)
    else (if x <? c then (c - x) / (c - b) else #0).

  (* repaired (C13-1) *)
  Definition mf_lins (x a b : T) : T :=
    if x <? a then #0 else if x >=? b then #1 else (x - a) / (b - a).
  Definition mf_linz (x a b : T) : T :=
    if x <? a then #1 else if x >=? b then #0 else (b - x) / (b - a).
  (* as found *)
  Definition mf_lins_orig (x a b : T) : T :=
    if x <? a then #0 else if x >? b then #1 else (x - a) / (b - a).
  Definition mf_linz_orig (x a b : T) : T :=
    if x <? a then #1 else if x >? b then #0 else (b - x) / (b - a).

  (* repaired (C13-4): boundaries first, then the computed midpoint *)
  Definition mf_s (x a b : T) : T :=
    if x <=? a then #0
    else if x >=? b then #1
    else if x >? (a + b) / #2 then #1 - #2 * rpow ((b - x) / (b - a)) #2
    else #2 * rpow ((x - a) / (b - a)) #2.

  Definition mf_z (x a b : T) : T :=
    if x >=? b then #0
    else if x <=? a then #1
    else if x <? (a + b) / #2 then #1 - #2 * rpow ((x - a) / (b - a)) #2
    else #2 * rpow ((b - x) / (b - a)) #2.
  (* as found *)
  Definition mf_s_orig (x a b : T) : T :=
    if x >? (a + b) / #2 then
      (if x <? b then #1 - #2 * rpow ((b - x) / (b - a)) #2 else #1)
    else
      (if x >? a then #2 * rpow ((x - a) / (b - a)) #2 else #0).

  Definition mf_z_orig (x a b : T) : T :=
    if x <? (a + b) / #2 then
      (if x >? a then #1 - #2 * rpow ((x - a) / (b - a)) #2 else #1)
    else
      (if x <? b then #2 * rpow ((b - x) / (b - a)) #2 else #0).

  Definition mf_pi (x a b c d : T) : T :=
    if x <? b then mf_s x a b
    else if x >? c then mf_z x c d
    else #1.

  (* enum: A_MF_NUL=0 GAUSS=1 GAUSS2=2 GBELL=3 SIG=4 DSIG=5 PSIG=6 TRAP=7 TRI=8 LINS=9 LINZ=10 S=11 Z=12 PI=13 *)
  Definition mf_arity (e : nat) : nat :=
    match e with
    | 1 => 2 | 2 => 4 | 3 => 3 | 4 => 2 | 5 => 4 | 6 => 4 | 7 => 4 | 8 => 3 | 9 => 2 | 10 => 2 | 11 => 2 | 12 => 2 | 13 => 4
    | _ => 0
    end%nat.

  (* a_mf(e, x, a): the switch, reading a[0..].  A read beyond the supplied parameters is an error (None), not a default. *)
  Definition mf (e : nat) (x : T) (a : list T) : option T :=
    match e, a with
    | 13%nat, a0 :: a1 :: a2 :: a3 :: _ => Some (mf_pi x a0 a1 a2 a3)
    | 12%nat, a0 :: a1 :: _ => Some (mf_z x a0 a1)
    | 11%nat, a0 :: a1 :: _ => Some (mf_s x a0 a1)
    | 10%nat, a0 :: a1 :: _ => Some (mf_linz x a0 a1)
    | 9%nat, a0 :: a1 :: _ => Some (mf_lins x a0 a1)
    | 8%nat, a0 :: a1 :: a2 :: _ => Some (mf_tri x a0 a1 a2)
    | 7%nat, a0 :: a1 :: a2 :: a3 :: _ => Some (mf_trap x a0 a1 a2 a3)
    | 6%nat, a0 :: a1 :: a2 :: a3 :: _ => Some (mf_psig x a0 a1 a2 a3)
    | 5%nat, a0 :: a1 :: a2 :: a3 :: _ => Some (mf_dsig x a0 a1 a2 a3)
    | 4%nat, a0 :: a1 :: _ => Some (mf_sig x a0 a1)
    | 3%nat, a0 :: a1 :: a2 :: _ => Some (mf_gbell x a0 a1 a2)
    | 2%nat, a0 :: a1 :: a2 :: a3 :: _ => Some (mf_gauss2 x a0 a1 a2 a3)
    | 1%nat, a0 :: a1 :: _ => Some (mf_gauss x a0 a1)
    | 1%nat, _ | 2%nat, _ | 3%nat, _ | 4%nat, _ | 5%nat, _ | 6%nat, _ | 7%nat, _ | 8%nat, _ | 9%nat, _ | 10%nat, _
    | 11%nat, _ | 12%nat, _ | 13%nat, _ => None
    | _, _ => Some #0                                        (* A_MF_NUL and default *)
    end.

  (* ---------------------------------------------------------------- include/a/fuzzy.h, src/fuzzy.c *)
  (* #define A_MIN(x, y) (((x) < (y)) ? (x) : (y))     #define A_MAX(x, y) (((x) > (y)) ? (x) : (y))   (not fmin/fmax) *)
  Definition c_min (x y : T) : T := if x <? y then x else y.
  Definition c_max (x y : T) : T := if x >? y then x else y.

  Definition fuzzy_not (x : T) : T := #1 - x.
  Definition fuzzy_cap (a b : T) : T := c_min a b.
  Definition fuzzy_cap_algebra (a b : T) : T := a * b.
  Definition fuzzy_cap_bounded (a b : T) : T := let c := a + b - #1 in c_max c #0.
  Definition fuzzy_cup (a b : T) : T := c_max a b.
  Definition fuzzy_cup_algebra (a b : T) : T := a + b - a * b.
  Definition fuzzy_cup_bounded (a b : T) : T := let c := a + b in c_min c #1.
  (* return a_real_sqrt(a * b) * a_real_sqrt(1 - (1 - a) * (1 - b)); *)
  Definition fuzzy_equ (a b : T) : T := sqrt O (a * b) * sqrt O (#1 - (#1 - a) * (#1 - b)).
  (* return a_real_pow(a * b, 1 - gamma) * a_real_pow(1 - (1 - a) * (1 - b), gamma); *)
  Definition fuzzy_equ_ (gamma a b : T) : T := rpow (a * b) (#1 - gamma) * rpow (#1 - (#1 - a) * (#1 - b)) gamma.

  (* a_pid_fuzzy_opr: enum EQU=0 CAP=1 CAP_ALGEBRA=2 CAP_BOUNDED=3 CUP=4 CUP_ALGEBRA=5 CUP_BOUNDED=6; default -> equ *)
  Definition fuzzy_opr (k : nat) : T -> T -> T :=
    match k with
    | 1 => fuzzy_cap | 2 => fuzzy_cap_algebra | 3 => fuzzy_cap_bounded
    | 4 => fuzzy_cup | 5 => fuzzy_cup_algebra | 6 => fuzzy_cup_bounded
    | _ => fuzzy_equ
    end%nat.
End Model.
