(* C13 model, part 2: src/pid_fuzzy.c - the fuzzy-tuned PID controller on top of C12/PidDefs.v.
     a_pid_fuzzy_mf      parameter-table walk recording the active sets (y > A_REAL_EPSILON) into idx[] / val[]
     a_pid_fuzzy_set_bfuzz / A_PID_FUZZY_BFUZZ    the scratch layout (explicit arrays, every write and read bounds-checked)
     a_pid_fuzzy_out_    joint membership, 1/sum normalisation, mean-of-centres defuzzifier, gains = base + offset
     a_pid_fuzzy_run/pos/inc/zero
   The model is the code as /repo has it after the fix: commit 75cb48d (proposed_fixes/C13-3): when the joint membership sum is not positive the defuzzifier is
   skipped (goto exit, gains = base gains).  `fuzzy_out_orig` keeps the unrepaired behaviour (inv = 1/sum unconditionally).
   No proofs here.

   Abstractions (a reader must trust these):
   * unsigned int indices are nat (no wrap at 2^32: idx[i]*nrule < nrule^2 would need a rule base of 2^32 cells);
   * (int)*a++ on the table is modelled by tag_of: the truncation of every finite value to the 13 enumerators, everything
     else (NUL, negative, >= 14, NaN) takes the `default: goto exit` arm;
   * NULL rule bases (ctx->mkp == 0) are `None`;
   * the scratch block is two arrays: idx[2n] (unsigned) and val[n(2+n)] (a_real), exactly the two regions that
     a_pid_fuzzy_set_bfuzz lays out inside A_PID_FUZZY_BFUZZ(n) bytes (see bfuzz_bytes / val_offset below). *)
From Coq Require Import ZArith List Bool Arith.
From LibaV Require Import Common.NumOps C12.PidDefs C13.MfDefs.
Import ListNotations.

Inductive ferr := ErrScratch   (* a write or read outside idx[2n] / val[n(2+n)] *)
                | ErrTable     (* the walk read beyond the supplied membership parameter table *)
                | ErrRule.     (* a rule-base read outside nrule*nrule cells *)
Inductive res (A : Type) := Ok (a : A) | Fail (e : ferr).
Arguments Ok {A}. Arguments Fail {A}.

Definition bind {A B} (r : res A) (f : A -> res B) : res B := match r with Ok a => f a | Fail e => Fail e end.
Definition of_opt {A} (e : ferr) (o : option A) : res A := match o with Some a => Ok a | None => Fail e end.

(* bounds-checked array write / read *)
Definition upd {A} (k : nat) (v : A) (l : list A) : option (list A) :=
  if Nat.ltb k (length l) then Some (firstn k l ++ v :: skipn (S k) l) else None.
Definition rd {A} (k : nat) (l : list A) : option A := nth_error l k.

(* sizeof(unsigned int) = 4, sizeof(a_real) = 8:
   #define A_PID_FUZZY_BFUZZ(n) (sizeof(unsigned int) * (n) * 2 + sizeof(a_real) * (n) * (2 + (n)))
   a_pid_fuzzy_set_bfuzz: idx = ptr; val = ptr (as bytes) + 2 * sizeof(unsigned int) * num *)
Definition bfuzz_bytes (n : nat) : nat := 4 * n * 2 + 8 * n * (2 + n).
Definition val_offset (n : nat) : nat := 2 * 4 * n.
Definition idx_cells (n : nat) : nat := 2 * n.
Definition val_cells (n : nat) : nat := n * (2 + n).

Section Model.
  Context {T : Type} (O : NumOps T).
  Local Notation "x + y" := (add O x y) (at level 50, left associativity).
  Local Notation "x - y" := (sub O x y) (at level 50, left associativity).
  Local Notation "x * y" := (mul O x y) (at level 40, left associativity).
  Local Notation "x / y" := (div O x y) (at level 40, left associativity).
  Local Notation "x <? y" := (ltb O x y) (at level 70).
  Local Notation "x >? y" := (gtb O x y) (at level 70).
  Local Notation "x <=? y" := (leb O x y) (at level 70).
  Local Notation "# z" := (ofZ O z%Z) (at level 0, z at level 0).

  Record scratch := { sidx : list nat; sval : list T }.
  (* a block of A_PID_FUZZY_BFUZZ(n) bytes, previous content i0 / v0 *)
  Definition mk_scratch (n : nat) (i0 : nat) (v0 : T) : scratch :=
    {| sidx := repeat i0 (idx_cells n); sval := repeat v0 (val_cells n) |}.
  Definition wr_idx (k v : nat) (sc : scratch) : res scratch :=
    of_opt ErrScratch (option_map (fun l => {| sidx := l; sval := sval sc |}) (upd k v (sidx sc))).
  Definition wr_val (k : nat) (v : T) (sc : scratch) : res scratch :=
    of_opt ErrScratch (option_map (fun l => {| sidx := sidx sc; sval := l |}) (upd k v (sval sc))).
  Definition rd_idx (k : nat) (sc : scratch) : res nat := of_opt ErrScratch (rd k (sidx sc)).
  Definition rd_val (k : nat) (sc : scratch) : res T := of_opt ErrScratch (rd k (sval sc)).

  (* A_REAL_EPSILON = DBL_EPSILON = 2^-52 *)
  Definition eps : T := ofD O 1 (-52).

  (* (int)v restricted to what the switch distinguishes: k for k <= v < k+1, k = 1..13; 0 = the exit arm *)
  Fixpoint tag_scan (k : nat) (v : T) : nat :=
    match k with
    | 0%nat => 0%nat
    | S k' => if (ofZ O (Z.of_nat k) <=? v) && (v <? ofZ O (Z.of_nat k + 1)) then k else tag_scan k' v
    end.
  Definition tag_of (v : T) : nat := tag_scan 13 v.

  Definition take (k : nat) (a : list T) : option (list T * list T) :=
    if Nat.ltb (length a) k then None else Some (firstn k a, skipn k a).

  (* unsigned a_pid_fuzzy_mf(x, n, a, idx, val): idx/val both start at cell p of their arrays.
     n = sets still to examine, i = loop counter, counter = active sets recorded so far. *)
  Fixpoint mf_walk (n i : nat) (x : T) (a : list T) (p : nat) (sc : scratch) (counter : nat) : res (scratch * nat) :=
    match n with
    | 0%nat => Ok (sc, counter)
    | S n' =>
      match a with
      | [] => Fail ErrTable
      | v :: a1 =>
        let t := tag_of v in
        if Nat.eqb t 0 then Ok (sc, counter)                       (* default: case A_MF_NUL: goto exit *)
        else
          match take (mf_arity t) a1 with
          | None => Fail ErrTable
          | Some (ps, a2) =>
            match mf O t x ps with
            | None => Fail ErrTable
            | Some y =>
              if y >? eps then
                bind (wr_idx (p + counter) i sc) (fun sc1 =>       (* *idx++ = i;   *)
                bind (wr_val (p + counter) y sc1) (fun sc2 =>      (* *val++ = y;   *)
                mf_walk n' (S i) x a2 p sc2 (S counter)))          (* ++counter;    *)
              else mf_walk n' (S i) x a2 p sc counter
            end
          end
      end
    end.

  Record fuzzy := {
    fpid : pid (T := T);
    me : list T; mec : list T;                       (* membership parameter tables *)
    mkp : option (list T); mki : option (list T); mkd : option (list T);   (* rule bases, row-major nrule x nrule *)
    opr : nat;                                       (* operator enumerator given to a_pid_fuzzy_set_opr *)
    bkp : T; bki : T; bkd : T;                       (* base gains (ctx->kp, ki, kd) *)
    nrule : nat; nfuzz : nat;
    sc : scratch }.

  Definition with_pid_sc (s : fuzzy) (p : pid) (c : scratch) : fuzzy :=
    {| fpid := p; me := me s; mec := mec s; mkp := mkp s; mki := mki s; mkd := mkd s; opr := opr s;
       bkp := bkp s; bki := bki s; bkd := bkd s; nrule := nrule s; nfuzz := nfuzz s; sc := c |}.

  (* a_pid_fuzzy_set_bfuzz(ctx, ptr, num) on a fresh block whose cells hold i0 / v0 *)
  Definition set_bfuzz (s : fuzzy) (n i0 : nat) (v0 : T) : fuzzy :=
    {| fpid := fpid s; me := me s; mec := mec s; mkp := mkp s; mki := mki s; mkd := mkd s; opr := opr s;
       bkp := bkp s; bki := bki s; bkd := bkd s; nrule := nrule s; nfuzz := n; sc := mk_scratch n i0 v0 |}.

  (* inner loop of the joint membership: for (ii = 0; ii != nec; ++ii) { *it = opr(ctx->val[i], val[ii]); inv += *it++; } *)
  Fixpoint joint_row (f : T -> T -> T) (ne i nec ii : nat) (mat : nat) (st : scratch * T * nat) (fuel : nat)
    : res (scratch * T * nat) :=
    match fuel with
    | 0%nat => Ok st
    | S fuel' =>
      let '(c, inv, it) := st in
      bind (rd_val i c) (fun a =>
      bind (rd_val (ne + ii) c) (fun b =>
      let w := f a b in
      bind (wr_val (mat + it) w c) (fun c1 =>
      joint_row f ne i nec (S ii) mat (c1, inv + w, S it) fuel')))
    end.

  (* outer loop: for (i = 0; i != ne; ++i) { <row>; ctx->idx[i] *= ctx->nrule; } *)
  Fixpoint joint_rows (f : T -> T -> T) (nr ne nec i : nat) (mat : nat) (st : scratch * T * nat) (fuel : nat)
    : res (scratch * T * nat) :=
    match fuel with
    | 0%nat => Ok st
    | S fuel' =>
      bind (joint_row f ne i nec 0 mat st nec) (fun st1 =>
      let '(c, inv, it) := st1 in
      bind (rd_idx i c) (fun k =>
      bind (wr_idx i (k * nr)%nat c) (fun c1 =>
      joint_rows f nr ne nec (S i) mat (c1, inv, it) fuel')))
    end.

  (* defuzzifier for one rule base:
       for i < ne { mk = m + ctx->idx[i]; for ii < nec { k += *it++ * mk[idx[ii]]; } }    (idx = ctx->idx + ne) *)
  Fixpoint defuzz_row (m : list T) (c : scratch) (ne nec ii : nat) (mat : nat) (row : nat) (st : T * nat) (fuel : nat)
    : res (T * nat) :=
    match fuel with
    | 0%nat => Ok st
    | S fuel' =>
      let '(k, it) := st in
      bind (rd_val (mat + it) c) (fun w =>
      bind (rd_idx (ne + ii) c) (fun col =>
      bind (of_opt ErrRule (rd (row + col) m)) (fun mv =>
      defuzz_row m c ne nec (S ii) mat row (k + w * mv, S it) fuel')))
    end.
  Fixpoint defuzz_rows (m : list T) (c : scratch) (ne nec i : nat) (mat : nat) (st : T * nat) (fuel : nat) : res (T * nat) :=
    match fuel with
    | 0%nat => Ok st
    | S fuel' =>
      bind (rd_idx i c) (fun row =>
      bind (defuzz_row m c ne nec 0 mat row st nec) (fun st1 =>
      defuzz_rows m c ne nec (S i) mat st1 fuel'))
    end.
  (* if (ctx->mk) { ...; k *= inv; }  with k initially 0 *)
  Definition defuzz (m : option (list T)) (c : scratch) (ne nec mat : nat) (inv : T) : res T :=
    match m with
    | None => Ok #0
    | Some l => bind (defuzz_rows l c ne nec 0 mat (#0, 0%nat) ne) (fun st => Ok (fst st * inv))
    end.

  (* exit: a_pid_set_kpid(&ctx->pid, ctx->kp + kp, ctx->ki + ki, ctx->kd + kd); *)
  Definition fuzzy_exit (s : fuzzy) (c : scratch) (kp ki kd : T) : fuzzy :=
    with_pid_sc s (set_kpid (fpid s) (bkp s + kp) (bki s + ki) (bkd s + kd)) c.

  (* a_pid_fuzzy_out_(ctx, ec, e); `guard` = the repaired code's  if (!(inv > 0)) goto exit; *)
  Definition fuzzy_out_gen (guard : bool) (s : fuzzy) (ec e : T) : res fuzzy :=
    bind (mf_walk (nrule s) 0 e (me s) 0 (sc s) 0) (fun r1 =>
    let '(c1, ne) := r1 in
    if Nat.eqb ne 0 then Ok (fuzzy_exit s c1 #0 #0 #0) else
    bind (mf_walk (nrule s) 0 ec (mec s) ne c1 0) (fun r2 =>
    let '(c2, nec) := r2 in
    if Nat.eqb nec 0 then Ok (fuzzy_exit s c2 #0 #0 #0) else
    let mat := (ne + nec)%nat in
    bind (joint_rows (fuzzy_opr O (opr s)) (nrule s) ne nec 0 mat (c2, #0, 0%nat) ne) (fun st =>
    let '(c3, sum, _) := st in
    if guard && negb (sum >? #0) then Ok (fuzzy_exit s c3 #0 #0 #0) else
    let inv := #1 / sum in
    bind (defuzz (mkp s) c3 ne nec mat inv) (fun kp =>
    bind (defuzz (mki s) c3 ne nec mat inv) (fun ki =>
    bind (defuzz (mkd s) c3 ne nec mat inv) (fun kd =>
    Ok (fuzzy_exit s c3 kp ki kd))))))).

  Definition fuzzy_out_ := fuzzy_out_gen true.
  Definition fuzzy_out_orig := fuzzy_out_gen false.

  Definition on_pid (s : fuzzy) (f : pid -> pid) : fuzzy := with_pid_sc s (f (fpid s)) (sc s).

  (* a_pid_fuzzy_run / pos / inc: err = set - fdb; out_(ctx, err - ctx->pid.err, err); then the plain controller *)
  Definition fuzzy_run (s : fuzzy) (set f : T) : res fuzzy :=
    let e := set - f in
    bind (fuzzy_out_ s (e - err (fpid s)) e) (fun s1 => Ok (on_pid s1 (fun p => pid_run_ O p set f e))).
  Definition fuzzy_pos (s : fuzzy) (set f : T) : res fuzzy :=
    let e := set - f in
    bind (fuzzy_out_ s (e - err (fpid s)) e) (fun s1 => Ok (on_pid s1 (fun p => pid_pos_ O p f e))).
  Definition fuzzy_inc (s : fuzzy) (set f : T) : res fuzzy :=
    let e := set - f in
    bind (fuzzy_out_ s (e - err (fpid s)) e) (fun s1 => Ok (on_pid s1 (fun p => pid_inc_ O p f e))).
  Definition fuzzy_zero (s : fuzzy) : fuzzy := on_pid s (pid_zero O).

  (* the same three with the unrepaired a_pid_fuzzy_out_ (used only by the refutation lemma and to replay the finding) *)
  Definition fuzzy_pos_orig (s : fuzzy) (set f : T) : res fuzzy :=
    let e := set - f in
    bind (fuzzy_out_orig s (e - err (fpid s)) e) (fun s1 => Ok (on_pid s1 (fun p => pid_pos_ O p f e))).

  Inductive fop := FRun (set f : T) | FPos (set f : T) | FInc (set f : T) | FZero.
  Definition fstep (s : fuzzy) (o : fop) : res fuzzy :=
    match o with
    | FRun a f => fuzzy_run s a f
    | FPos a f => fuzzy_pos s a f
    | FInc a f => fuzzy_inc s a f
    | FZero => Ok (fuzzy_zero s)
    end.

  (* a history; the state after each step is kept so that a driver can print every intermediate state *)
  Fixpoint fhist (s : fuzzy) (ops : list fop) : list (res fuzzy) :=
    match ops with
    | [] => []
    | o :: tl => match fstep s o with
                 | Ok s1 => Ok s1 :: fhist s1 tl
                 | Fail e => [Fail e]
                 end
    end.
End Model.
