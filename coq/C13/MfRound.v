(* C13 membership functions and fuzzy operators in ROUNDED arithmetic: what survives monotone rounding.

   INSTANCE.  Orc_ops rnd E P : every + - * / sqrt and every literal followed by rnd : R -> R, comparisons exact (as
   Common/RoundOps.Rnd_ops), and the two libm entry points used by src/mf.c are ORACLES:  exp := E,  pow := P.
   Rnd13_ops rnd := Orc_ops rnd (rnd o exp) (rnd o Rpow) is the rounded version of the instance R13_ops of the
   real-number theorems ("libm correctly rounded"); for the functions that call neither exp nor pow - tri, trap, lins,
   linz and the operators - Orc_ops rnd E P and Rnd_ops rnd are the same term (tri_Rnd_ops ...).  Overflow is outside
   the model.  Hypotheses: mono_rnd rnd (Common/RoundMono.v: monotone, rnd 0 = 0, rnd 1 = 1, odd), rnd 2 = 2 where the
   literal 2 occurs, and

   * no flush to zero on the executed subtraction:  nz a b := a < b -> rnd (b - a) <> 0.  Needed because a ramp divides by
     rnd (b - a): in a flush-to-zero arithmetic the C computes 0/0.  binary64 has gradual underflow: nz64.
   * oracles (orc_ok): 0 <= E t; E t <= 1 for t <= 0; E monotone; 0 <= P u y for u >= 0; 0 <= P u 2; P u 2 monotone in
     u >= 0.  The correctly rounded oracles satisfy them (orc_ok_rounded); a real libm is ASSUMED to.

   RESULTS (Section Mf; binary64 corollaries below it)
     tri, trap, lins, linz  : value in [0,1] (r_tri_range ...), exactly 1 on the core, exactly 0 outside the support
                              (r_ramp_core, r_ramp_support: the statements of the real-number theorems, verbatim).
     s, z, pi               : REPAIRED bodies (proposed_fixes/C13-4: x <= a and x >= b are tested before the COMPUTED
                              midpoint  mid a b = rnd (rnd (a + b) / 2)).  Exactly 1 / 0 on core / outside support: the
                              statements of the real-number theorems verbatim, NO midpoint condition (r_sz_core_support).
                              Value in [0,1] under sz_in x a b: a condition on the executed quadratic branch only (for
                              a < x < b: twice the squared rounded ratio is at most 1); it holds outside (a,b), follows
                              from the old parameter condition sz_ok (sz_ok_in), and monotone rounding alone does NOT
                              give it (mono_rnd_not_enough: a coarse monotone rounding with a_mf_s(1; 0, 2) = 2).
                              In binary64 it holds for ALL binary64 numbers x, a, b (b64_sz_in, from MfMid64.v: the
                              squared ratio is at most 11/16), so S, Z and pi lie in [0,1] with no side condition:
                              b64_sz_range, b64_pi_range.
                              The bodies AS FOUND (mf_s_orig / mf_z_orig: midpoint tested first) leave [0,1] in binary64:
                              b64_sz_as_found_refuted : a = 1 + 2^-52, b = 1 + 2^-51 (adjacent numbers): a + b is a tie that
                              rounds to 2b, the computed midpoint is b, and a_mf_s(b, a, b) = 2; likewise
                              a = 1 + 2^-51, b = 1 + 3 2^-52, a_mf_z(a, a, b) = 2.  The unrepaired C returns the same values;
                              the repaired bodies return 1 there (b64_sz_repaired_at_witnesses).
     gauss, gauss2, gbell, sig, psig : value in [0,1] under orc_ok;  dsig: equal slopes, ordered centres, E monotone.
                              (0 and 1 are attained in floating point: the open bounds of the real theorems do not survive.)
     operators on [0,1]^2   : not, cap, cap_algebra, cap_bounded, cup, cup_bounded, equ stay in [0,1];
                              cup_algebra: 0 <= value proved; value <= 1 NOT proved (rnd (a+b) - rnd (a*b) <= 1 does not
                              follow from monotonicity; it seems to hold in binary formats by an argument on the grid).
   NOT covered: continuity, flank monotonicity, complements (s + z = 1 is an exact-arithmetic identity), the dispatcher. *)
From Coq Require Import Reals ZArith List Lra Lia Bool.
From Flocq Require Import Core.
From LibaV Require Import Common.NumOps Common.ROps Common.RoundOps Common.RoundFlocq Common.RoundMono
                          C13.R13Ops C13.MfDefs C13.MfMid64.
Local Open Scope R_scope.

Definition Orc_ops (rnd : R -> R) (E : R -> R) (P : R -> R -> R) : NumOps R := {|
  zero := 0; one := rnd 1;
  add := fun a b => rnd (a + b); sub := fun a b => rnd (a - b);
  mul := fun a b => rnd (a * b); div := fun a b => rnd (a / b);
  opp := Ropp; abs := Rabs; sqrt := fun a => rnd (R_sqrt.sqrt a);
  ltb := Rltb; leb := Rleb; eqb := Reqb;
  ofZ := fun z => rnd (IZR z);
  ofD := fun m e => rnd (IZR m * powerRZ 2 e);
  fn1 := fun f x => match f with Exp => E x | _ => rnd (R_fn1 f x) end;
  fn2 := fun f x y => match f with Pow => P x y | _ => rnd (R13_fn2 f x y) end
|}.

Definition Rnd13_ops (rnd : R -> R) : NumOps R := Orc_ops rnd (fun x => rnd (exp x)) (fun x y => rnd (Rpow x y)).

Ltac unfold_orc :=
  cbn [zero one add sub mul div opp abs sqrt ltb leb eqb ofZ ofD fn1 fn2 Orc_ops gtb geb neb rpow rexp] in *;
  unfold gtb, geb, neb, rpow, rexp in *;
  cbn [zero one add sub mul div opp abs sqrt ltb leb eqb ofZ ofD fn1 fn2 Orc_ops] in *.

Record orc_ok (E : R -> R) (P : R -> R -> R) : Prop := {
  oe_ge0 : forall t, 0 <= E t;
  oe_le1 : forall t, t <= 0 -> E t <= 1;
  oe_mono : forall s t, s <= t -> E s <= E t;
  op_ge0 : forall u y, 0 <= u -> 0 <= P u y;
  op_sq_ge0 : forall u, 0 <= P u 2;
  op_sq_mono : forall u v, 0 <= u <= v -> P u 2 <= P v 2
}.

(* the functions that call no libm function do not see the oracles: same term as at Rnd_ops *)
Lemma tri_Rnd_ops rnd E P x a b c : mf_tri (Orc_ops rnd E P) x a b c = mf_tri (Rnd_ops rnd) x a b c.
Proof. reflexivity. Qed.
Lemma trap_Rnd_ops rnd E P x a b c d : mf_trap (Orc_ops rnd E P) x a b c d = mf_trap (Rnd_ops rnd) x a b c d.
Proof. reflexivity. Qed.
Lemma lins_Rnd_ops rnd E P x a b : mf_lins (Orc_ops rnd E P) x a b = mf_lins (Rnd_ops rnd) x a b.
Proof. reflexivity. Qed.
Lemma linz_Rnd_ops rnd E P x a b : mf_linz (Orc_ops rnd E P) x a b = mf_linz (Rnd_ops rnd) x a b.
Proof. reflexivity. Qed.
Lemma opr_Rnd_ops rnd E P k a b : (k <> 0)%nat -> (k <= 6)%nat ->
  fuzzy_opr (Orc_ops rnd E P) k a b = fuzzy_opr (Rnd_ops rnd) k a b.
Proof. intros H0 H6. do 7 (destruct k as [|k]; [try reflexivity; lia|]). lia. Qed.

Definition unitR (v : R) : Prop := 0 <= v <= 1.

Lemma sqrt_unit v : v <= 1 -> 0 <= R_sqrt.sqrt v <= 1.
Proof. intros H. split; [apply sqrt_pos|]. apply Rle_trans with (R_sqrt.sqrt 1); [apply sqrt_le_1_alt; exact H|rewrite sqrt_1; lra]. Qed.

Section Mf.
  Variable rnd : R -> R.
  Variable E : R -> R.
  Variable P : R -> R -> R.
  Hypothesis M : mono_rnd rnd.
  Local Notation OO := (Orc_ops rnd E P).

  Definition nz (a b : R) : Prop := a < b -> rnd (b - a) <> 0.
  Definition mid (a b : R) : R := rnd (rnd (a + b) / 2).

  Ltac lits := rewrite ?(mrnd_0 rnd M), ?(mrnd_1 rnd M) in *.

  (* ---------------------------------------------------------------- the two building blocks *)
  Lemma quot_unit p q : 0 <= p <= q -> 0 < q -> unitR (rnd (p / q)).
  Proof.
    intros [H0 H1] Hq. apply (mrnd_01 rnd M). split.
    - apply Rmult_le_pos; [exact H0|left; apply Rinv_0_lt_compat; exact Hq].
    - apply (Rmult_le_reg_r q); [exact Hq|]. unfold Rdiv. rewrite Rmult_assoc, Rinv_l by lra. lra.
  Qed.
  Lemma ramp_up x a b : a <= x <= b -> rnd (b - a) <> 0 -> unitR (rnd (rnd (x - a) / rnd (b - a))).
  Proof.
    intros H Hn. assert (0 <= rnd (x - a)) by (apply (mrnd_ge0 rnd M); lra).
    assert (rnd (x - a) <= rnd (b - a)) by (apply (mrnd_le rnd M); lra).
    apply quot_unit; lra.
  Qed.
  Lemma ramp_dn x c d : c <= x <= d -> rnd (d - c) <> 0 -> unitR (rnd (rnd (d - x) / rnd (d - c))).
  Proof.
    intros H Hn. assert (0 <= rnd (d - x)) by (apply (mrnd_ge0 rnd M); lra).
    assert (rnd (d - x) <= rnd (d - c)) by (apply (mrnd_le rnd M); lra).
    apply quot_unit; lra.
  Qed.
  Lemma inv_unit d : 1 <= d -> unitR (rnd (1 / d)).
  Proof. intros H. replace (1 / d) with (1 / d) by reflexivity. apply quot_unit; lra. Qed.

  (* ---------------------------------------------------------------- tri, trap, lins, linz: range *)
  Theorem r_tri_range x a b c : nz a b -> nz b c -> unitR (mf_tri OO x a b c).
  Proof.
    intros N1 N2. unfold mf_tri, unitR. unfold_orc. lits.
    destruct (Rltb_spec x b) as [A|A]; [destruct (Rltb_spec a x) as [B|B]|destruct (Rltb_spec b x) as [B|B]; [destruct (Rltb_spec x c) as [C|C]|]];
      try lra.
    - apply ramp_up; [lra|apply N1; lra].
    - apply ramp_dn; [lra|apply N2; lra].
  Qed.

  Theorem r_trap_range x a b c d : nz a b -> nz c d -> unitR (mf_trap OO x a b c d).
  Proof.
    intros N1 N2. unfold mf_trap, unitR. unfold_orc. lits.
    destruct (Rltb_spec x b) as [A|A]; [destruct (Rltb_spec a x) as [B|B]|destruct (Rltb_spec c x) as [B|B]; [destruct (Rltb_spec x d) as [C|C]|]];
      try lra.
    - apply ramp_up; [lra|apply N1; lra].
    - apply ramp_dn; [lra|apply N2; lra].
  Qed.

  Theorem r_lins_range x a b : nz a b -> unitR (mf_lins OO x a b).
  Proof.
    intros N1. unfold mf_lins, unitR. unfold_orc. lits.
    destruct (Rltb_spec x a) as [A|A]; [lra|]. destruct (Rleb_spec b x) as [B|B]; [lra|].
    apply ramp_up; [lra|apply N1; lra].
  Qed.

  Theorem r_linz_range x a b : nz a b -> unitR (mf_linz OO x a b).
  Proof.
    intros N1. unfold mf_linz, unitR. unfold_orc. lits.
    destruct (Rltb_spec x a) as [A|A]; [lra|]. destruct (Rleb_spec b x) as [B|B]; [lra|].
    apply ramp_dn; [lra|apply N1; lra].
  Qed.

  (* ---------------------------------------------------------------- core and support: the literal branches, verbatim *)
  Theorem r_ramp_core :
    (forall x a b c d, b <= x <= c -> mf_trap OO x a b c d = 1) /\
    (forall a b c, mf_tri OO b a b c = 1) /\
    (forall x a b, a <= b -> b <= x -> mf_lins OO x a b = 1) /\
    (forall x a b, nz a b -> x < a \/ (x <= a /\ a < b) -> mf_linz OO x a b = 1).
  Proof.
    split; [|split; [|split]]; intros; unfold mf_trap, mf_tri, mf_lins, mf_linz; unfold_orc; lits; rcases; try reflexivity; try lra.
    (* linz at x = a < b: (b - a) / (b - a), the only non-literal case *)
    assert (x = a) by lra. subst x. unfold Rdiv. rewrite Rinv_r by (apply H; lra). apply (mrnd_1 rnd M).
  Qed.

  Theorem r_ramp_support :
    (forall x a b c d, a <= b -> b <= c -> c <= d ->
       (x < a \/ (x <= a /\ a < b) \/ d < x \/ (d <= x /\ c < d)) -> mf_trap OO x a b c d = 0) /\
    (forall x a b c, a <= b -> b <= c ->
       (x < a \/ (x <= a /\ a < b) \/ c < x \/ (c <= x /\ b < c)) -> mf_tri OO x a b c = 0) /\
    (forall x a b, nz a b -> x < a \/ (x <= a /\ a < b) -> mf_lins OO x a b = 0) /\
    (forall x a b, a <= b -> b <= x -> mf_linz OO x a b = 0).
  Proof.
    split; [|split; [|split]]; intros; unfold mf_trap, mf_tri, mf_lins, mf_linz; unfold_orc; lits; rcases; try reflexivity; try lra.
    (* lins at x = a < b: 0 / (b - a), the only non-literal case *)
    assert (x = a) by lra. subst x. replace (a - a) with 0 by ring. rewrite (mrnd_0 rnd M). unfold Rdiv. rewrite Rmult_0_l.
    apply (mrnd_0 rnd M).
  Qed.

  (* ---------------------------------------------------------------- s, z, pi *)
  Hypothesis R2 : rnd 2 = 2.
  Hypothesis OK : orc_ok E P.

  (* the condition of the midpoint-first code, on the parameters only (kept: it implies the pointwise condition below) *)
  Definition sz_ok (a b : R) : Prop :=
    2 * P (rnd (rnd (b - mid a b) / rnd (b - a))) 2 <= 1 /\ 2 * P (rnd (rnd (mid a b - a) / rnd (b - a))) 2 <= 1.

  (* the repaired bodies reach a quadratic branch only for a < x < b; what that branch needs *)
  Definition sz_in (x a b : R) : Prop :=
    a < x < b ->
    (mid a b <= x -> 2 * P (rnd (rnd (b - x) / rnd (b - a))) 2 <= 1) /\
    (x <= mid a b -> 2 * P (rnd (rnd (x - a) / rnd (b - a))) 2 <= 1).

  Lemma sz_in_outside x a b : x <= a \/ b <= x -> sz_in x a b.
  Proof. intros H K. lra. Qed.

  (* a squared rounded ratio below the squared rounded ratio with a larger numerator *)
  Lemma sq_mono p p' w : 0 <= p <= p' -> 0 <= w -> P (rnd (rnd p / w)) 2 <= P (rnd (rnd p' / w)) 2.
  Proof.
    intros [H0 H1] Hw.
    assert (I : 0 <= / w) by (destruct (Req_dec w 0) as [->|]; [rewrite Rinv_0; lra|left; apply Rinv_0_lt_compat; lra]).
    assert (A0 : 0 <= rnd p) by (apply (mrnd_ge0 rnd M); exact H0).
    assert (A1 : rnd p <= rnd p') by (apply (mrnd_le rnd M); exact H1).
    assert (B0 : 0 <= rnd (rnd p / w)) by (apply (mrnd_ge0 rnd M); apply Rmult_le_pos; assumption).
    assert (B1 : rnd (rnd p / w) <= rnd (rnd p' / w)) by (apply (mrnd_le rnd M); apply Rmult_le_compat_r; assumption).
    apply (op_sq_mono _ _ OK). split; assumption.
  Qed.

  Lemma sz_ok_in x a b : sz_ok a b -> sz_in x a b.
  Proof.
    intros [HA HB] Hx. assert (W : 0 <= rnd (b - a)) by (apply (mrnd_ge0 rnd M); lra). split; intros Hm.
    - pose proof (sq_mono (b - x) (b - mid a b) (rnd (b - a)) ltac:(lra) W). lra.
    - pose proof (sq_mono (x - a) (mid a b - a) (rnd (b - a)) ltac:(lra) W). lra.
  Qed.

  (* from a bound c on the ratio of the rounded differences, c a number of the format with 2 c^2 <= 1 *)
  Lemma sz_in_of_ratio c x a b : rnd c = c -> 2 * P c 2 <= 1 ->
    (a < x < b -> (mid a b <= x -> rnd (b - x) / rnd (b - a) <= c) /\ (x <= mid a b -> rnd (x - a) / rnd (b - a) <= c)) ->
    sz_in x a b.
  Proof.
    intros Fc Hc H Hx. destruct (H Hx) as [H1 H2].
    assert (W : 0 <= rnd (b - a)) by (apply (mrnd_ge0 rnd M); lra).
    assert (I : 0 <= / rnd (b - a)).
    { destruct (Req_dec (rnd (b - a)) 0) as [->|]; [rewrite Rinv_0; lra|left; apply Rinv_0_lt_compat; lra]. }
    assert (Q : forall p, 0 <= p -> rnd p / rnd (b - a) <= c -> 2 * P (rnd (rnd p / rnd (b - a))) 2 <= 1).
    { intros p Hp Hr. assert (A0 : 0 <= rnd p) by (apply (mrnd_ge0 rnd M); exact Hp).
      assert (B0 : 0 <= rnd (rnd p / rnd (b - a))) by (apply (mrnd_ge0 rnd M); apply Rmult_le_pos; assumption).
      assert (B1 : rnd (rnd p / rnd (b - a)) <= c) by (rewrite <- Fc; apply (mrnd_le rnd M); exact Hr).
      pose proof (op_sq_mono _ _ OK _ _ (conj B0 B1)). lra. }
    split; intros Hm.
    - apply Q; [lra|apply H1; exact Hm].
    - apply Q; [lra|apply H2; exact Hm].
  Qed.

  Lemma sq_unit q : 2 * P q 2 <= 1 -> unitR (rnd (2 * P q 2)).
  Proof. intros H. apply (mrnd_01 rnd M). pose proof (op_sq_ge0 _ _ OK q). lra. Qed.

  Lemma one_minus_unit v : unitR v -> unitR (rnd (1 - v)).
  Proof. intros [H0 H1]. apply (mrnd_01 rnd M). lra. Qed.

  Theorem r_s_range x a b : sz_in x a b -> unitR (mf_s OO x a b).
  Proof.
    intros H. unfold mf_s, unitR. unfold_orc. lits. rewrite R2. fold (mid a b).
    destruct (Rleb_spec x a) as [A|A]; [lra|]. destruct (Rleb_spec b x) as [B|B]; [lra|].
    destruct (H ltac:(lra)) as [HU HL].
    destruct (Rltb_spec (mid a b) x) as [C|C].
    - apply one_minus_unit. apply sq_unit. apply HU. lra.
    - apply sq_unit. apply HL. lra.
  Qed.

  Theorem r_z_range x a b : sz_in x a b -> unitR (mf_z OO x a b).
  Proof.
    intros H. unfold mf_z, unitR. unfold_orc. lits. rewrite R2. fold (mid a b).
    destruct (Rleb_spec b x) as [B|B]; [lra|]. destruct (Rleb_spec x a) as [A|A]; [lra|].
    destruct (H ltac:(lra)) as [HU HL].
    destruct (Rltb_spec x (mid a b)) as [C|C].
    - apply one_minus_unit. apply sq_unit. apply HL. lra.
    - apply sq_unit. apply HU. lra.
  Qed.

  Theorem r_pi_range x a b c d : sz_in x a b -> sz_in x c d -> unitR (mf_pi OO x a b c d).
  Proof.
    intros H1 H2. unfold mf_pi. cbn [ltb gtb Orc_ops]. unfold gtb. cbn [ltb Orc_ops].
    destruct (Rltb x b); [apply r_s_range; assumption|]. destruct (Rltb c x); [apply r_z_range; assumption|].
    unfold unitR. unfold_orc. lits. lra.
  Qed.

  (* core and support: the literal branches; the statements of the real-number theorems, no midpoint condition *)
  Theorem r_sz_core_support :
    (forall x a b, a < b -> b <= x -> mf_s OO x a b = 1) /\
    (forall x a b, x <= a -> mf_s OO x a b = 0) /\
    (forall x a b, x <= a -> a < b -> mf_z OO x a b = 1) /\
    (forall x a b, b <= x -> mf_z OO x a b = 0) /\
    (forall x a b c d, b <= x <= c -> mf_pi OO x a b c d = 1) /\
    (forall x a b c d, a <= b -> c <= d -> b <= c ->
       (x <= a /\ a < b \/ x < a \/ d <= x /\ c < d \/ d < x) -> mf_pi OO x a b c d = 0).
  Proof.
    repeat split; intros; unfold mf_pi, mf_s, mf_z; unfold_orc; lits; rcases; try reflexivity; try lra.
  Qed.

  (* ---------------------------------------------------------------- the families built on exp / pow *)
  Lemma Rm2 : rnd (-2) = -2.
  Proof. change (-2) with (- (2)). rewrite (mrnd_opp rnd M), R2. reflexivity. Qed.

  Theorem r_gauss_range x s c : unitR (mf_gauss OO x s c).
  Proof.
    unfold mf_gauss, unitR. unfold_orc. rewrite R2, Rm2.
    set (p := P _ 2). assert (Hp : 0 <= p) by apply (op_sq_ge0 _ _ OK).
    assert (T : rnd (p / -2) <= 0) by (apply (mrnd_le0 rnd M); lra).
    split; [apply (oe_ge0 _ _ OK)|apply (oe_le1 _ _ OK); exact T].
  Qed.

  Theorem r_gauss2_range x s1 c1 s2 c2 : unitR (mf_gauss2 OO x s1 c1 s2 c2).
  Proof.
    unfold mf_gauss2. cbn [ltb gtb Orc_ops]. unfold gtb. cbn [ltb Orc_ops].
    destruct (Rltb x c1); [apply r_gauss_range|]. destruct (Rltb c2 x); [apply r_gauss_range|].
    unfold unitR. unfold_orc. lits. lra.
  Qed.

  Theorem r_gbell_range x a b c : unitR (mf_gbell OO x a b c).
  Proof.
    unfold mf_gbell. unfold_orc. lits. apply inv_unit.
    apply (mrnd_ge1 rnd M). pose proof (op_ge0 _ _ OK (Rabs (rnd (rnd (x - c) / a))) (rnd (rnd 2 * b)) (Rabs_pos _)). lra.
  Qed.

  Lemma sig_den_ge1 t : 1 <= rnd (E t + 1).
  Proof. apply (mrnd_ge1 rnd M). pose proof (oe_ge0 _ _ OK t). lra. Qed.

  Theorem r_sig_range x a c : unitR (mf_sig OO x a c).
  Proof. unfold mf_sig. unfold_orc. lits. apply inv_unit. apply sig_den_ge1. Qed.

  Theorem r_psig_range x a1 c1 a2 c2 : unitR (mf_psig OO x a1 c1 a2 c2).
  Proof.
    unfold mf_psig. pose proof (r_sig_range x a1 c1) as [A0 A1]. pose proof (r_sig_range x a2 c2) as [B0 B1].
    cbn [mul Orc_ops]. apply (mrnd_01 rnd M). split; nra.
  Qed.

  (* the difference of sigmoids: equal slopes, centres ordered with the sign of the slope *)
  Theorem r_dsig_range x a c1 c2 : (0 <= a /\ c1 <= c2) \/ (a <= 0 /\ c2 <= c1) -> unitR (mf_dsig OO x a c1 a c2).
  Proof.
    intros H. unfold mf_dsig. pose proof (r_sig_range x a c1) as [A0 A1]. pose proof (r_sig_range x a c2) as [B0 B1].
    cbn [sub Orc_ops]. apply (mrnd_01 rnd M).
    assert (L : mf_sig OO x a c2 <= mf_sig OO x a c1).
    { unfold mf_sig. unfold_orc. lits.
      assert (T : rnd (rnd (c1 - x) * a) <= rnd (rnd (c2 - x) * a)).
      { apply (mrnd_le rnd M). destruct H as [[Ha Hc]|[Ha Hc]].
        - assert (rnd (c1 - x) <= rnd (c2 - x)) by (apply (mrnd_le rnd M); lra). nra.
        - assert (rnd (c2 - x) <= rnd (c1 - x)) by (apply (mrnd_le rnd M); lra). nra. }
      pose proof (oe_mono _ _ OK _ _ T) as T'.
      pose proof (sig_den_ge1 (rnd (rnd (c1 - x) * a))) as D1.
      assert (D : rnd (E (rnd (rnd (c1 - x) * a)) + 1) <= rnd (E (rnd (rnd (c2 - x) * a)) + 1)) by (apply (mrnd_le rnd M); lra).
      apply (mrnd_le rnd M). unfold Rdiv. rewrite !Rmult_1_l. apply Rinv_le_contravar; lra. }
    lra.
  Qed.

  (* ---------------------------------------------------------------- operators on [0,1]^2 *)
  Theorem r_operators a b : unitR a -> unitR b ->
    unitR (fuzzy_not OO a) /\
    unitR (fuzzy_cap OO a b) /\ unitR (fuzzy_cap_algebra OO a b) /\ unitR (fuzzy_cap_bounded OO a b) /\
    unitR (fuzzy_cup OO a b) /\ unitR (fuzzy_cup_bounded OO a b) /\
    0 <= fuzzy_cup_algebra OO a b /\
    unitR (fuzzy_equ OO a b).
  Proof.
    intros [A0 A1] [B0 B1]. unfold unitR.
    assert (S2 : rnd (a + b) <= 2) by (rewrite <- R2; apply (mrnd_le rnd M); lra).
    assert (S0 : 0 <= rnd (a + b)) by (apply (mrnd_ge0 rnd M); lra).
    assert (Pab : 0 <= a * b <= 1) by nra.
    repeat split.
    - unfold fuzzy_not. unfold_orc. lits. apply (mrnd_ge0 rnd M); lra.
    - unfold fuzzy_not. unfold_orc. lits. apply (mrnd_le1 rnd M); lra.
    - unfold fuzzy_cap, c_min. unfold_orc. destruct (Rltb a b); lra.
    - unfold fuzzy_cap, c_min. unfold_orc. destruct (Rltb a b); lra.
    - unfold fuzzy_cap_algebra. unfold_orc. apply (mrnd_ge0 rnd M); lra.
    - unfold fuzzy_cap_algebra. unfold_orc. apply (mrnd_le1 rnd M); lra.
    - unfold fuzzy_cap_bounded, c_max. unfold_orc. lits. destruct (Rltb_spec 0 (rnd (rnd (a + b) - 1))); lra.
    - unfold fuzzy_cap_bounded, c_max. unfold_orc. lits.
      assert (rnd (rnd (a + b) - 1) <= 1) by (apply (mrnd_le1 rnd M); lra).
      destruct (Rltb_spec 0 (rnd (rnd (a + b) - 1))); lra.
    - unfold fuzzy_cup, c_max. unfold_orc. destruct (Rltb b a); lra.
    - unfold fuzzy_cup, c_max. unfold_orc. destruct (Rltb b a); lra.
    - unfold fuzzy_cup_bounded, c_min. unfold_orc. lits. destruct (Rltb_spec (rnd (a + b)) 1); lra.
    - unfold fuzzy_cup_bounded, c_min. unfold_orc. lits. destruct (Rltb_spec (rnd (a + b)) 1); lra.
    - unfold fuzzy_cup_algebra. unfold_orc. apply (mrnd_ge0 rnd M).
      assert (rnd (a * b) <= rnd (a + b)) by (apply (mrnd_le rnd M); nra). lra.
    - unfold fuzzy_equ. unfold_orc. lits.
      apply (mrnd_ge0 rnd M). apply Rmult_le_pos; apply (mrnd_ge0 rnd M); apply sqrt_pos.
    - unfold fuzzy_equ. unfold_orc. lits.
      assert (Q1 : unitR (rnd (R_sqrt.sqrt (rnd (a * b))))).
      { apply (mrnd_01 rnd M). pose proof (mrnd_01 rnd M _ Pab) as [q0 q1]. apply sqrt_unit. exact q1. }
      assert (Q2 : unitR (rnd (R_sqrt.sqrt (rnd (1 - rnd (rnd (1 - a) * rnd (1 - b))))))).
      { assert (Ua : unitR (rnd (1 - a))) by (apply (mrnd_01 rnd M); lra).
        assert (Ub : unitR (rnd (1 - b))) by (apply (mrnd_01 rnd M); lra).
        destruct Ua as [a0 a1], Ub as [b0 b1].
        assert (Up : unitR (rnd (rnd (1 - a) * rnd (1 - b)))) by (apply (mrnd_01 rnd M); split; nra).
        destruct Up as [p0 p1].
        assert (Uq : unitR (rnd (1 - rnd (rnd (1 - a) * rnd (1 - b))))) by (apply (mrnd_01 rnd M); lra).
        destruct Uq as [q0 q1].
        apply (mrnd_01 rnd M). apply sqrt_unit. exact q1. }
      destruct Q1 as [u0 u1], Q2 as [v0 v1]. apply (mrnd_le1 rnd M). nra.
  Qed.
End Mf.

(* ------------------------------------------------------------------ the correctly rounded oracles satisfy orc_ok *)
Lemma orc_ok_rounded rnd : mono_rnd rnd -> orc_ok (fun x => rnd (exp x)) (fun x y => rnd (Rpow x y)).
Proof.
  intros M. constructor.
  - intros t. apply (mrnd_ge0 rnd M). left. apply exp_pos.
  - intros t Ht. apply (mrnd_le1 rnd M). rewrite <- exp_0. destruct Ht as [Ht| ->]; [left; apply exp_increasing; exact Ht|right; reflexivity].
  - intros s t Hst. apply (mrnd_le rnd M). destruct Hst as [Hst| ->]; [left; apply exp_increasing; exact Hst|right; reflexivity].
  - intros u y Hu. apply (mrnd_ge0 rnd M). apply Rpow_nonneg. exact Hu.
  - intros u. apply (mrnd_ge0 rnd M). rewrite Rpow_2. nra.
  - intros u v Huv. apply (mrnd_le rnd M). apply Rpow_le_base; [lra|exact Huv].
Qed.

(* ------------------------------------------------------------------ binary64 *)
Lemma rnd64_2 : rnd64 2 = 2.
Proof. apply (rnd64_IZR 2). simpl. lia. Qed.

(* gradual underflow: no flush to zero on the difference of two binary64 numbers *)
Lemma nz64 a b : rnd64 a = a -> rnd64 b = b -> nz rnd64 a b.
Proof. intros Fa Fb Hab. apply rnd64_sub_nz; [exact Fa|exact Fb|lra]. Qed.

Corollary b64_ramp_range :
  (forall x a b c, rnd64 a = a -> rnd64 b = b -> rnd64 c = c -> unitR (mf_tri (Rnd_ops rnd64) x a b c)) /\
  (forall x a b c d, rnd64 a = a -> rnd64 b = b -> rnd64 c = c -> rnd64 d = d -> unitR (mf_trap (Rnd_ops rnd64) x a b c d)) /\
  (forall x a b, rnd64 a = a -> rnd64 b = b -> unitR (mf_lins (Rnd_ops rnd64) x a b)) /\
  (forall x a b, rnd64 a = a -> rnd64 b = b -> unitR (mf_linz (Rnd_ops rnd64) x a b)).
Proof.
  split; [|split; [|split]]; intros.
  - apply (r_tri_range rnd64 (fun x => x) (fun x _ => x) mono_rnd_binary64); apply nz64; assumption.
  - apply (r_trap_range rnd64 (fun x => x) (fun x _ => x) mono_rnd_binary64); apply nz64; assumption.
  - apply (r_lins_range rnd64 (fun x => x) (fun x _ => x) mono_rnd_binary64); apply nz64; assumption.
  - apply (r_linz_range rnd64 (fun x => x) (fun x _ => x) mono_rnd_binary64); apply nz64; assumption.
Qed.

(* binary64: the pointwise condition holds for ALL binary64 numbers x, a, b (MfMid64.v: the ratio of the rounded
   differences on the executed branch is at most 11/16, and 2 (11/16)^2 = 242/256) *)
Lemma b64_sz_in x a b : rnd64 x = x -> rnd64 a = a -> rnd64 b = b ->
  sz_in rnd64 (fun x y => rnd64 (Rpow x y)) x a b.
Proof.
  intros Fx Fa Fb.
  apply (sz_in_of_ratio rnd64 _ _ mono_rnd_binary64 (orc_ok_rounded rnd64 mono_rnd_binary64) (11 / 16)).
  - exact rnd64_11_16.
  - rewrite Rpow_2. replace (11 / 16 * (11 / 16)) with (121 / 256) by lra. rewrite rnd64_121_256. lra.
  - intros H. unfold mid. split; intros Hm.
    + apply b64_upper_ratio; assumption.
    + apply b64_lower_ratio; assumption.
Qed.

Corollary b64_sz_range x a b : rnd64 x = x -> rnd64 a = a -> rnd64 b = b ->
  unitR (mf_s (Rnd13_ops rnd64) x a b) /\ unitR (mf_z (Rnd13_ops rnd64) x a b).
Proof.
  intros Fx Fa Fb. pose proof (b64_sz_in x a b Fx Fa Fb) as H. split.
  - apply (r_s_range rnd64 _ _ mono_rnd_binary64 rnd64_2 (orc_ok_rounded rnd64 mono_rnd_binary64)); exact H.
  - apply (r_z_range rnd64 _ _ mono_rnd_binary64 rnd64_2 (orc_ok_rounded rnd64 mono_rnd_binary64)); exact H.
Qed.

Corollary b64_pi_range x a b c d : rnd64 x = x -> rnd64 a = a -> rnd64 b = b -> rnd64 c = c -> rnd64 d = d ->
  unitR (mf_pi (Rnd13_ops rnd64) x a b c d).
Proof.
  intros Fx Fa Fb Fc Fd.
  apply (r_pi_range rnd64 _ _ mono_rnd_binary64 rnd64_2 (orc_ok_rounded rnd64 mono_rnd_binary64)); apply b64_sz_in; assumption.
Qed.

Corollary b64_smooth_range :
  (forall x s c, unitR (mf_gauss (Rnd13_ops rnd64) x s c)) /\
  (forall x s1 c1 s2 c2, unitR (mf_gauss2 (Rnd13_ops rnd64) x s1 c1 s2 c2)) /\
  (forall x a b c, unitR (mf_gbell (Rnd13_ops rnd64) x a b c)) /\
  (forall x a c, unitR (mf_sig (Rnd13_ops rnd64) x a c)) /\
  (forall x a1 c1 a2 c2, unitR (mf_psig (Rnd13_ops rnd64) x a1 c1 a2 c2)) /\
  (forall x a c1 c2, (0 <= a /\ c1 <= c2) \/ (a <= 0 /\ c2 <= c1) -> unitR (mf_dsig (Rnd13_ops rnd64) x a c1 a c2)).
Proof.
  pose proof mono_rnd_binary64 as M. pose proof (orc_ok_rounded rnd64 M) as OK.
  split; [|split; [|split; [|split; [|split]]]]; intros.
  - apply (r_gauss_range rnd64 _ _ M rnd64_2 OK).
  - apply (r_gauss2_range rnd64 _ _ M rnd64_2 OK).
  - apply (r_gbell_range rnd64 _ _ M OK).
  - apply (r_sig_range rnd64 _ _ M OK).
  - apply (r_psig_range rnd64 _ _ M OK).
  - apply (r_dsig_range rnd64 _ _ M OK); assumption.
Qed.

Corollary b64_operators a b : unitR a -> unitR b ->
  unitR (fuzzy_not (Rnd_ops rnd64) a) /\
  unitR (fuzzy_cap (Rnd_ops rnd64) a b) /\ unitR (fuzzy_cap_algebra (Rnd_ops rnd64) a b) /\
  unitR (fuzzy_cap_bounded (Rnd_ops rnd64) a b) /\
  unitR (fuzzy_cup (Rnd_ops rnd64) a b) /\ unitR (fuzzy_cup_bounded (Rnd_ops rnd64) a b) /\
  0 <= fuzzy_cup_algebra (Rnd_ops rnd64) a b /\
  unitR (fuzzy_equ (Rnd_ops rnd64) a b).
Proof. exact (r_operators rnd64 (fun x => x) (fun x _ => x) mono_rnd_binary64 rnd64_2 a b). Qed.

(* ------------------------------------------------------------------ s and z AS FOUND leave [0,1] in binary64 *)
Definition u52 : R := / 4503599627370496.      (* 2^-52: the spacing of binary64 numbers in [1,2) *)
Lemma u52_pos : 0 < u52. Proof. unfold u52. lra. Qed.
Lemma u52_bpow : u52 = bpow radix2 (-52). Proof. reflexivity. Qed.

Lemma rnd64_1pk (k : Z) : (0 <= k < 2 ^ 52)%Z -> rnd64 (1 + IZR k * u52) = 1 + IZR k * u52.
Proof.
  intros Hk. replace (1 + IZR k * u52) with (IZR (2 ^ 52 + k) * bpow radix2 (-52)).
  - apply rnd64_dyadic; lia.
  - rewrite plus_IZR, <- u52_bpow. change (IZR (2 ^ 52)) with 4503599627370496. unfold u52. field.
Qed.
Lemma rnd64_u52 : rnd64 u52 = u52.
Proof. rewrite u52_bpow. rewrite <- (Rmult_1_l (bpow radix2 (-52))). apply (rnd64_dyadic 1 (-52)); simpl; lia. Qed.

(* a + b is a tie between 2 + 2 2^-52 and 2 + 4 2^-52; the even one is 2 + 4 2^-52 = 2 b *)
Lemma s_w1 : rnd64 (1 + u52 + (1 + 2 * u52)) = 2 + 4 * u52.
Proof.
  rewrite (rnd64_tie 4503599627370497 (-51)); [|lia| |].
  - change (Z.even 4503599627370497) with false. cbv iota.
    change (4503599627370497 + 1)%Z with 4503599627370498%Z. change (bpow radix2 (-51)) with (/ 2251799813685248). unfold u52. lra.
  - change (bpow radix2 (-51 + 52)) with 2. change (bpow radix2 (-51 + 53)) with 4. unfold u52. lra.
  - change (bpow radix2 (-51)) with (/ 2251799813685248). unfold u52. lra.
Qed.
Lemma s_w2 : rnd64 ((2 + 4 * u52) / 2) = 1 + 2 * u52.
Proof. replace ((2 + 4 * u52) / 2) with (1 + IZR 2 * u52) by lra. apply rnd64_1pk. lia. Qed.
Lemma s_w3 : rnd64 (1 + 2 * u52 - (1 + u52)) = u52.
Proof. replace (1 + 2 * u52 - (1 + u52)) with u52 by ring. exact rnd64_u52. Qed.

Lemma mf_s_b64_witness : mf_s_orig (Rnd13_ops rnd64) (1 + 2 * u52) (1 + u52) (1 + 2 * u52) = 2.
Proof.
  pose proof u52_pos as U.
  unfold mf_s_orig, Rnd13_ops. unfold_orc. rewrite !rnd64_2, s_w1, s_w2.
  destruct (Rltb_spec (1 + 2 * u52) (1 + 2 * u52)) as [A|A]; [lra|].
  destruct (Rltb_spec (1 + u52) (1 + 2 * u52)) as [B|B]; [|lra].
  rewrite s_w3. replace (u52 / u52) with 1 by (field; lra).
  rewrite rnd64_1, Rpow_2, Rmult_1_r, rnd64_1, Rmult_1_r. exact rnd64_2.
Qed.

(* a + b is a tie between 2 + 4 2^-52 and 2 + 6 2^-52; the even one is 2 + 4 2^-52 = 2 a *)
Lemma z_w1 : rnd64 (1 + 2 * u52 + (1 + 3 * u52)) = 2 + 4 * u52.
Proof.
  rewrite (rnd64_tie 4503599627370498 (-51)); [|lia| |].
  - change (Z.even 4503599627370498) with true. cbv iota.
    change (bpow radix2 (-51)) with (/ 2251799813685248). unfold u52. lra.
  - change (bpow radix2 (-51 + 52)) with 2. change (bpow radix2 (-51 + 53)) with 4. unfold u52. lra.
  - change (bpow radix2 (-51)) with (/ 2251799813685248). unfold u52. lra.
Qed.
Lemma z_w3 : rnd64 (1 + 3 * u52 - (1 + 2 * u52)) = u52.
Proof. replace (1 + 3 * u52 - (1 + 2 * u52)) with u52 by ring. exact rnd64_u52. Qed.

Lemma mf_z_b64_witness : mf_z_orig (Rnd13_ops rnd64) (1 + 2 * u52) (1 + 2 * u52) (1 + 3 * u52) = 2.
Proof.
  pose proof u52_pos as U.
  unfold mf_z_orig, Rnd13_ops. unfold_orc. rewrite !rnd64_2, z_w1, s_w2.
  destruct (Rltb_spec (1 + 2 * u52) (1 + 2 * u52)) as [A|A]; [lra|].
  destruct (Rltb_spec (1 + 2 * u52) (1 + 3 * u52)) as [B|B]; [|lra].
  rewrite z_w3. replace (u52 / u52) with 1 by (field; lra).
  rewrite rnd64_1, Rpow_2, Rmult_1_r, rnd64_1, Rmult_1_r. exact rnd64_2.
Qed.

Theorem b64_mf_s_as_found_refuted : exists x a b,
  rnd64 x = x /\ rnd64 a = a /\ rnd64 b = b /\ a < b /\ b <= x /\ mf_s_orig (Rnd13_ops rnd64) x a b = 2.
Proof.
  pose proof u52_pos as U. exists (1 + 2 * u52), (1 + u52), (1 + 2 * u52).
  pose proof (rnd64_1pk 1 ltac:(lia)) as F1. pose proof (rnd64_1pk 2 ltac:(lia)) as F2. rewrite Rmult_1_l in F1.
  repeat split; try assumption; try lra. exact mf_s_b64_witness.
Qed.

Theorem b64_mf_z_as_found_refuted : exists x a b,
  rnd64 x = x /\ rnd64 a = a /\ rnd64 b = b /\ a < b /\ x <= a /\ mf_z_orig (Rnd13_ops rnd64) x a b = 2.
Proof.
  pose proof u52_pos as U. exists (1 + 2 * u52), (1 + 2 * u52), (1 + 3 * u52).
  pose proof (rnd64_1pk 2 ltac:(lia)) as F2. pose proof (rnd64_1pk 3 ltac:(lia)) as F3.
  repeat split; try assumption; try lra. exact mf_z_b64_witness.
Qed.

(* the repaired bodies at the same inputs: the literal branches *)
Lemma b64_sz_repaired_at_witnesses :
  mf_s (Rnd13_ops rnd64) (1 + 2 * u52) (1 + u52) (1 + 2 * u52) = 1 /\
  mf_z (Rnd13_ops rnd64) (1 + 2 * u52) (1 + 2 * u52) (1 + 3 * u52) = 1.
Proof.
  pose proof u52_pos as U.
  pose proof (r_sz_core_support rnd64 (fun x => rnd64 (exp x)) (fun x y => rnd64 (Rpow x y)) mono_rnd_binary64) as (S1 & _ & Z1 & _).
  split; [apply S1; lra|apply Z1; lra].
Qed.

(* ------------------------------------------------------------------ monotone rounding alone is not enough *)
(* a coarse rounding: the identity outside (-1,1); inside, to the nearest of -1, 0, 1 (halves away from zero).  It is
   monotone, odd, fixes 0, 1, 2, the correctly rounded oracles satisfy orc_ok - and the repaired a_mf_s(1; 0, 2) is 2:
   the computed midpoint is 1 = x, the ratio 1/2 rounds to 1.  This is why the generic range theorems keep sz_in. *)
Definition rndS (t : R) : R :=
  if Rle_dec 1 t then t else if Rle_dec t (-1) then t
  else if Rle_dec (/ 2) t then 1 else if Rle_dec t (- / 2) then -1 else 0.

Lemma mono_rnd_S : mono_rnd rndS.
Proof.
  constructor.
  - intros x y H. unfold rndS.
    destruct (Rle_dec 1 x), (Rle_dec x (-1)), (Rle_dec (/ 2) x), (Rle_dec x (- / 2)),
             (Rle_dec 1 y), (Rle_dec y (-1)), (Rle_dec (/ 2) y), (Rle_dec y (- / 2)); lra.
  - unfold rndS. destruct (Rle_dec 1 0), (Rle_dec 0 (-1)), (Rle_dec (/ 2) 0), (Rle_dec 0 (- / 2)); lra.
  - unfold rndS. destruct (Rle_dec 1 1); lra.
  - intros x. unfold rndS.
    destruct (Rle_dec 1 x), (Rle_dec x (-1)), (Rle_dec (/ 2) x), (Rle_dec x (- / 2)),
             (Rle_dec 1 (- x)), (Rle_dec (- x) (-1)), (Rle_dec (/ 2) (- x)), (Rle_dec (- x) (- / 2)); lra.
Qed.

Lemma rndS_ge1 t : 1 <= t -> rndS t = t.
Proof. intros H. unfold rndS. destruct (Rle_dec 1 t); [reflexivity|lra]. Qed.
Lemma rndS_half : rndS (/ 2) = 1.
Proof. unfold rndS. destruct (Rle_dec 1 (/ 2)), (Rle_dec (/ 2) (-1)), (Rle_dec (/ 2) (/ 2)); lra. Qed.

Theorem mono_rnd_not_enough : exists rnd,
  mono_rnd rnd /\ rnd 2 = 2 /\ orc_ok (fun x => rnd (exp x)) (fun x y => rnd (Rpow x y)) /\
  exists x a b, rnd x = x /\ rnd a = a /\ rnd b = b /\ a < b /\ nz rnd a b /\ mf_s (Rnd13_ops rnd) x a b = 2.
Proof.
  exists rndS. pose proof mono_rnd_S as M.
  split; [exact M|]. split; [apply rndS_ge1; lra|]. split; [apply orc_ok_rounded; exact M|].
  exists 1, 0, 2. split; [apply rndS_ge1; lra|]. split; [apply (mr_0 _ M)|]. split; [apply rndS_ge1; lra|]. split; [lra|].
  split; [intros _; rewrite Rminus_0_r, rndS_ge1; lra|].
  unfold mf_s, Rnd13_ops. unfold_orc. rewrite (mr_0 _ M), !(rndS_ge1 2) by lra.
  rewrite Rplus_0_l, !Rminus_0_r, (rndS_ge1 2), (rndS_ge1 1) by lra.
  replace (2 / 2) with 1 by lra. rewrite (rndS_ge1 1) by lra. replace (1 / 2) with (/ 2) by lra. rewrite rndS_half.
  destruct (Rleb_spec 1 0) as [A|A]; [lra|]. destruct (Rleb_spec 2 1) as [B|B]; [lra|]. destruct (Rltb_spec 1 1) as [C|C]; [lra|].
  rewrite Rpow_2, Rmult_1_r, (rndS_ge1 1), Rmult_1_r by lra. apply rndS_ge1. lra.
Qed.

(* ------------------------------------------------------------------ non-vacuity *)
Lemma rnd64_half : rnd64 (/ 2) = / 2.
Proof. pose proof (rnd64_dyadic 1 (-1)) as H. change (bpow radix2 (-1)) with (/ 2) in H. rewrite Rmult_1_l in H. apply H; simpl; lia. Qed.
Lemma rnd64_quarter : rnd64 (/ 4) = / 4.
Proof. pose proof (rnd64_dyadic 1 (-2)) as H. change (bpow radix2 (-2)) with (/ 4) in H. rewrite Rmult_1_l in H. apply H; simpl; lia. Qed.
Lemma rnd64_8th : rnd64 (/ 8) = / 8.
Proof. pose proof (rnd64_dyadic 1 (-3)) as H. change (bpow radix2 (-3)) with (/ 8) in H. rewrite Rmult_1_l in H. apply H; simpl; lia. Qed.
Lemma rnd64_16th : rnd64 (/ 16) = / 16.
Proof. pose proof (rnd64_dyadic 1 (-4)) as H. change (bpow radix2 (-4)) with (/ 16) in H. rewrite Rmult_1_l in H. apply H; simpl; lia. Qed.
Lemma rnd64_4 : rnd64 4 = 4.
Proof. apply (rnd64_IZR 4). simpl. lia. Qed.

Lemma mid64_0_4 : mid rnd64 0 4 = 2.
Proof. unfold mid. rewrite Rplus_0_l, rnd64_4. replace (4 / 2) with 2 by lra. exact rnd64_2. Qed.

(* the old parameter condition sz_ok holds in binary64 for a = 0, b = 4 (mid = 2, both rounded ratios 1/2, squares 1/4) *)
Example sz_ok_ex : 0 <= 4 /\ sz_ok rnd64 (fun x y => rnd64 (Rpow x y)) 0 4 /\
                   0 < mid rnd64 0 4 < 4 /\ nz rnd64 0 4 /\ rnd64 0 = 0 /\ rnd64 4 = 4.
Proof.
  split; [lra|]. split; [|split; [rewrite mid64_0_4; lra|split; [apply nz64; [apply (mr_0 _ mono_rnd_binary64)|exact rnd64_4]|
                          split; [apply (mr_0 _ mono_rnd_binary64)|exact rnd64_4]]]].
  unfold sz_ok. rewrite mid64_0_4. rewrite !Rminus_0_r. replace (4 - 2) with 2 by lra.
  rewrite rnd64_2, rnd64_4. replace (2 / 4) with (/ 2) by lra. rewrite rnd64_half, Rpow_2.
  replace (/ 2 * / 2) with (/ 4) by lra. rewrite rnd64_quarter. lra.
Qed.

(* the pointwise condition at a point strictly inside (a,b), where a quadratic branch IS executed, and the value there *)
Example sz_in_ex : 0 < 1 < 4 /\ sz_in rnd64 (fun x y => rnd64 (Rpow x y)) 1 0 4 /\
                   mf_s (Rnd13_ops rnd64) 1 0 4 = / 8 /\ mf_z (Rnd13_ops rnd64) 1 0 4 = 7 / 8.
Proof.
  pose proof (mr_0 _ mono_rnd_binary64) as R0.
  split; [lra|]. split; [apply b64_sz_in; [exact rnd64_1|exact R0|exact rnd64_4]|].
  assert (F78 : rnd64 (7 / 8) = 7 / 8).
  { replace (7 / 8) with (IZR 7 * bpow radix2 (-3)) by (simpl; lra). apply rnd64_dyadic; simpl; lia. }
  split.
  - unfold mf_s, Rnd13_ops. unfold_orc. rewrite R0, !rnd64_2, Rplus_0_l, !Rminus_0_r, rnd64_4, rnd64_1.
    replace (4 / 2) with 2 by lra. rewrite rnd64_2.
    destruct (Rleb_spec 1 0) as [A|A]; [lra|]. destruct (Rleb_spec 4 1) as [B|B]; [lra|]. destruct (Rltb_spec 2 1) as [C|C]; [lra|].
    replace (1 / 4) with (/ 4) by lra. rewrite rnd64_quarter, Rpow_2. replace (/ 4 * / 4) with (/ 16) by lra.
    rewrite rnd64_16th. replace (2 * / 16) with (/ 8) by lra. exact rnd64_8th.
  - unfold mf_z, Rnd13_ops. unfold_orc. rewrite R0, !rnd64_2, Rplus_0_l, !Rminus_0_r, rnd64_4, !rnd64_1.
    replace (4 / 2) with 2 by lra. rewrite rnd64_2.
    destruct (Rleb_spec 4 1) as [B|B]; [lra|]. destruct (Rleb_spec 1 0) as [A|A]; [lra|]. destruct (Rltb_spec 1 2) as [C|C]; [|lra].
    replace (1 / 4) with (/ 4) by lra. rewrite rnd64_quarter, Rpow_2. replace (/ 4 * / 4) with (/ 16) by lra.
    rewrite rnd64_16th. replace (2 * / 16) with (/ 8) by lra. rewrite rnd64_8th. replace (1 - / 8) with (7 / 8) by lra. exact F78.
Qed.

(* a value strictly inside (0,1) computed in binary64: tri(1; 0, 2, 4) = rnd64 (rnd64 (1 - 0) / rnd64 (2 - 0)) = 1/2 *)
Example tri_b64_ex : mf_tri (Rnd_ops rnd64) 1 0 2 4 = / 2.
Proof.
  unfold mf_tri. unfold_rops.
  destruct (Rltb_spec 1 2) as [A|A]; [|lra]. destruct (Rltb_spec 0 1) as [B|B]; [|lra].
  rewrite !Rminus_0_r, rnd64_1, rnd64_2. replace (1 / 2) with (/ 2) by lra. exact rnd64_half.
Qed.

(* ------------------------------------------------------------------ the statements cited by Properties_C13.v *)
Theorem round_ramp_range : forall rnd, mono_rnd rnd ->
  (forall x a b c, nz rnd a b -> nz rnd b c -> unitR (mf_tri (Rnd_ops rnd) x a b c)) /\
  (forall x a b c d, nz rnd a b -> nz rnd c d -> unitR (mf_trap (Rnd_ops rnd) x a b c d)) /\
  (forall x a b, nz rnd a b -> unitR (mf_lins (Rnd_ops rnd) x a b)) /\
  (forall x a b, nz rnd a b -> unitR (mf_linz (Rnd_ops rnd) x a b)).
Proof.
  intros rnd M. split; [|split; [|split]]; intros.
  - apply (r_tri_range rnd (fun x => x) (fun x _ => x) M); assumption.
  - apply (r_trap_range rnd (fun x => x) (fun x _ => x) M); assumption.
  - apply (r_lins_range rnd (fun x => x) (fun x _ => x) M); assumption.
  - apply (r_linz_range rnd (fun x => x) (fun x _ => x) M); assumption.
Qed.

Theorem round_ramp_core_support : forall rnd, mono_rnd rnd ->
  ((forall x a b c d, b <= x <= c -> mf_trap (Rnd_ops rnd) x a b c d = 1) /\
   (forall a b c, mf_tri (Rnd_ops rnd) b a b c = 1) /\
   (forall x a b, a <= b -> b <= x -> mf_lins (Rnd_ops rnd) x a b = 1) /\
   (forall x a b, nz rnd a b -> x < a \/ (x <= a /\ a < b) -> mf_linz (Rnd_ops rnd) x a b = 1)) /\
  ((forall x a b c d, a <= b -> b <= c -> c <= d ->
      (x < a \/ (x <= a /\ a < b) \/ d < x \/ (d <= x /\ c < d)) -> mf_trap (Rnd_ops rnd) x a b c d = 0) /\
   (forall x a b c, a <= b -> b <= c ->
      (x < a \/ (x <= a /\ a < b) \/ c < x \/ (c <= x /\ b < c)) -> mf_tri (Rnd_ops rnd) x a b c = 0) /\
   (forall x a b, nz rnd a b -> x < a \/ (x <= a /\ a < b) -> mf_lins (Rnd_ops rnd) x a b = 0) /\
   (forall x a b, a <= b -> b <= x -> mf_linz (Rnd_ops rnd) x a b = 0)).
Proof.
  intros rnd M. split.
  - exact (r_ramp_core rnd (fun x => x) (fun x _ => x) M).
  - exact (r_ramp_support rnd (fun x => x) (fun x _ => x) M).
Qed.

Theorem round_sz : forall rnd E P, mono_rnd rnd -> rnd 2 = 2 -> orc_ok E P ->
  (forall x a b, sz_in rnd P x a b -> unitR (mf_s (Orc_ops rnd E P) x a b) /\ unitR (mf_z (Orc_ops rnd E P) x a b)) /\
  (forall x a b c d, sz_in rnd P x a b -> sz_in rnd P x c d -> unitR (mf_pi (Orc_ops rnd E P) x a b c d)) /\
  (forall x a b, (x <= a \/ b <= x \/ sz_ok rnd P a b) -> sz_in rnd P x a b) /\
  (forall x a b, a < b -> b <= x -> mf_s (Orc_ops rnd E P) x a b = 1) /\
  (forall x a b, x <= a -> mf_s (Orc_ops rnd E P) x a b = 0) /\
  (forall x a b, x <= a -> a < b -> mf_z (Orc_ops rnd E P) x a b = 1) /\
  (forall x a b, b <= x -> mf_z (Orc_ops rnd E P) x a b = 0) /\
  (forall x a b c d, b <= x <= c -> mf_pi (Orc_ops rnd E P) x a b c d = 1) /\
  (forall x a b c d, a <= b -> c <= d -> b <= c ->
     (x <= a /\ a < b \/ x < a \/ d <= x /\ c < d \/ d < x) -> mf_pi (Orc_ops rnd E P) x a b c d = 0).
Proof.
  intros rnd E P M R2 OK.
  split; [intros; split; [apply r_s_range|apply r_z_range]; assumption|].
  split; [intros; apply r_pi_range; assumption|].
  split; [intros x a b [H|[H|H]]; [apply sz_in_outside; lra|apply sz_in_outside; lra|apply (sz_ok_in rnd E P M OK); assumption]|].
  exact (r_sz_core_support rnd E P M).
Qed.

(* binary64, correctly rounded pow: no side condition at all for binary64 numbers *)
Theorem b64_sz_pi_range :
  (forall x a b, rnd64 x = x -> rnd64 a = a -> rnd64 b = b ->
     unitR (mf_s (Rnd13_ops rnd64) x a b) /\ unitR (mf_z (Rnd13_ops rnd64) x a b)) /\
  (forall x a b c d, rnd64 x = x -> rnd64 a = a -> rnd64 b = b -> rnd64 c = c -> rnd64 d = d ->
     unitR (mf_pi (Rnd13_ops rnd64) x a b c d)) /\
  (forall x a b, rnd64 x = x -> rnd64 a = a -> rnd64 b = b -> a < x < b ->
     (rnd64 (rnd64 (a + b) / 2) <= x -> rnd64 (b - x) / rnd64 (b - a) <= 11 / 16) /\
     (x <= rnd64 (rnd64 (a + b) / 2) -> rnd64 (x - a) / rnd64 (b - a) <= 11 / 16)).
Proof.
  split; [exact b64_sz_range|]. split; [exact b64_pi_range|].
  intros x a b Fx Fa Fb H. split; intros Hm; [apply b64_upper_ratio|apply b64_lower_ratio]; assumption.
Qed.

Theorem round_smooth_range : forall rnd E P, mono_rnd rnd -> rnd 2 = 2 -> orc_ok E P ->
  (forall x s c, unitR (mf_gauss (Orc_ops rnd E P) x s c)) /\
  (forall x s1 c1 s2 c2, unitR (mf_gauss2 (Orc_ops rnd E P) x s1 c1 s2 c2)) /\
  (forall x a b c, unitR (mf_gbell (Orc_ops rnd E P) x a b c)) /\
  (forall x a c, unitR (mf_sig (Orc_ops rnd E P) x a c)) /\
  (forall x a1 c1 a2 c2, unitR (mf_psig (Orc_ops rnd E P) x a1 c1 a2 c2)) /\
  (forall x a c1 c2, (0 <= a /\ c1 <= c2) \/ (a <= 0 /\ c2 <= c1) -> unitR (mf_dsig (Orc_ops rnd E P) x a c1 a c2)).
Proof.
  intros rnd E P M R2 OK. split; [|split; [|split; [|split; [|split]]]]; intros.
  - apply r_gauss_range; assumption.
  - apply r_gauss2_range; assumption.
  - apply r_gbell_range; assumption.
  - apply r_sig_range; assumption.
  - apply r_psig_range; assumption.
  - apply r_dsig_range; assumption.
Qed.

Theorem round_operators : forall rnd, mono_rnd rnd -> rnd 2 = 2 -> forall a b, unitR a -> unitR b ->
  unitR (fuzzy_not (Rnd_ops rnd) a) /\
  unitR (fuzzy_cap (Rnd_ops rnd) a b) /\ unitR (fuzzy_cap_algebra (Rnd_ops rnd) a b) /\
  unitR (fuzzy_cap_bounded (Rnd_ops rnd) a b) /\
  unitR (fuzzy_cup (Rnd_ops rnd) a b) /\ unitR (fuzzy_cup_bounded (Rnd_ops rnd) a b) /\
  0 <= fuzzy_cup_algebra (Rnd_ops rnd) a b /\
  unitR (fuzzy_equ (Rnd_ops rnd) a b).
Proof. intros rnd M R2. exact (r_operators rnd (fun x => x) (fun x _ => x) M R2). Qed.

Theorem b64_sz_as_found_refuted :
  (exists x a b, rnd64 x = x /\ rnd64 a = a /\ rnd64 b = b /\ a < b /\ b <= x /\ mf_s_orig (Rnd13_ops rnd64) x a b = 2) /\
  (exists x a b, rnd64 x = x /\ rnd64 a = a /\ rnd64 b = b /\ a < b /\ x <= a /\ mf_z_orig (Rnd13_ops rnd64) x a b = 2) /\
  mf_s_orig (Rnd13_ops rnd64) (1 + 2 * u52) (1 + u52) (1 + 2 * u52) = 2 /\
  mf_z_orig (Rnd13_ops rnd64) (1 + 2 * u52) (1 + 2 * u52) (1 + 3 * u52) = 2 /\
  mf_s (Rnd13_ops rnd64) (1 + 2 * u52) (1 + u52) (1 + 2 * u52) = 1 /\
  mf_z (Rnd13_ops rnd64) (1 + 2 * u52) (1 + 2 * u52) (1 + 3 * u52) = 1.
Proof.
  exact (conj b64_mf_s_as_found_refuted (conj b64_mf_z_as_found_refuted (conj mf_s_b64_witness (conj mf_z_b64_witness
         b64_sz_repaired_at_witnesses)))).
Qed.

Theorem b64_instances :
  mono_rnd rnd64 /\ rnd64 2 = 2 /\ orc_ok (fun x => rnd64 (exp x)) (fun x y => rnd64 (Rpow x y)) /\
  (forall a b, rnd64 a = a -> rnd64 b = b -> nz rnd64 a b).
Proof. exact (conj mono_rnd_binary64 (conj rnd64_2 (conj (orc_ok_rounded rnd64 mono_rnd_binary64) nz64))). Qed.
