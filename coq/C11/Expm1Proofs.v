(* C11 proofs over R, part 3: the rational approximation of a_real_expm1 on [-1/2, 1/2] (method error, by interval
   arithmetic on the coefficients as the C compiler rounds them to binary64) and the complete function. *)
From Coq Require Import Reals Lra List ZArith Bool.
From Coquelicot Require Import Coquelicot.
From Interval Require Import Tactic.
From LibaV Require Import Common.NumOps Common.ROps C11.MathDefs C11.HypProofs.
Import ListNotations.
Local Open Scope R_scope.

Ltac open_rat := unfold expm1_rat, polevl, expm1_P, expm1_Q; cbn [fold_left add sub mul div ofD R_ops].

(* ------------------------------------------------------------ whole interval: absolute error, and the divisor *)
Lemma expm1_rat_abs (x : R) : -1/2 <= x <= 1/2 -> Rabs (expm1_rat R_ops x - (exp x - 1)) <= 1 / 1000000000000000000.
Proof. intros H. open_rat. interval with (i_taylor x, i_degree 25, i_prec 100, i_bisect x, i_depth 12). Qed.

(* definedness: the divisor Q(x^2) - x P(x^2) of the approximation stays above 1 *)
Lemma expm1_rat_divisor (x : R) : -1/2 <= x <= 1/2 ->
  1 <= polevl R_ops (expm1_Q R_ops) (x * x) - polevl R_ops (expm1_P R_ops) (x * x) * x.
Proof. intros H. open_rat. interval with (i_prec 60, i_bisect x). Qed.

(* ------------------------------------------------------------ relative error away from 0: 2^-58 *)
Lemma rel_p1 x : 1/1048576 <= x <= 1/2 -> Rabs ((expm1_rat R_ops x - (exp x - 1)) / (exp x - 1)) <= 1/288230376151711744.
Proof. intros H. open_rat. interval with (i_taylor x, i_degree 20, i_prec 120, i_bisect x, i_depth 40). Qed.
Lemma rel_n1 x : -1/2 <= x <= -1/1048576 -> Rabs ((expm1_rat R_ops x - (exp x - 1)) / (exp x - 1)) <= 1/288230376151711744.
Proof. intros H. open_rat. interval with (i_taylor x, i_degree 20, i_prec 120, i_bisect x, i_depth 40). Qed.
Lemma rel_p2 x : 1/134217728 <= x <= 1/1048576 -> Rabs ((expm1_rat R_ops x - (exp x - 1)) / (exp x - 1)) <= 1/288230376151711744.
Proof. intros H. open_rat. interval with (i_taylor x, i_degree 10, i_prec 160, i_bisect x, i_depth 40). Qed.
Lemma rel_n2 x : -1/1048576 <= x <= -1/134217728 -> Rabs ((expm1_rat R_ops x - (exp x - 1)) / (exp x - 1)) <= 1/288230376151711744.
Proof. intros H. open_rat. interval with (i_taylor x, i_degree 10, i_prec 160, i_bisect x, i_depth 40). Qed.

Lemma expm1_nonzero (x : R) : x <> 0 -> exp x - 1 <> 0.
Proof. intros H. pose proof (exp_ineq1 x H). destruct (Rlt_dec 0 x); [lra|]. assert (exp x < exp 0) by (apply exp_increasing; lra). rewrite exp_0 in *. lra. Qed.

Lemma expm1_rat_rel_outer (x : R) : / 134217728 <= Rabs x <= / 2 ->
  Rabs (expm1_rat R_ops x - (exp x - 1)) <= / 288230376151711744 * Rabs (exp x - 1).
Proof.
  intros H.
  assert (Hq : Rabs ((expm1_rat R_ops x - (exp x - 1)) / (exp x - 1)) <= 1/288230376151711744).
  { unfold Rabs in H. destruct (Rcase_abs x).
    - destruct (Rle_dec x (-1/1048576)); [apply rel_n1 | apply rel_n2]; lra.
    - destruct (Rle_dec (1/1048576) x); [apply rel_p1 | apply rel_p2]; lra. }
  assert (Hn : exp x - 1 <> 0). { apply expm1_nonzero. intros ->. rewrite Rabs_R0 in H. lra. }
  unfold Rdiv in Hq. rewrite Rabs_mult, Rabs_inv in Hq.
  assert (0 < Rabs (exp x - 1)) by (apply Rabs_pos_lt; auto).
  apply Rmult_le_compat_r with (r := Rabs (exp x - 1)) in Hq; [|lra].
  rewrite Rmult_assoc, Rinv_l, Rmult_1_r in Hq by lra. lra.
Qed.

(* ------------------------------------------------------------ the sliver around 0, where a relative bound is 0/0 for intervals *)
(* shape: the approximation is x + x^2/2 + x^3 * M / D with an explicit polynomial M - for ANY coefficients with P(0)=1, Q(0)=2 *)
Section Sliver.
  Variables p0 p1 q0 q1 q2 : R.
  Definition Pz (x : R) := (p0 * (x * x) + p1) * (x * x) + 1.
  Definition Qz (x : R) := ((q0 * (x * x) + q1) * (x * x) + q2) * (x * x) + 2.
  Definition Mz (x : R) :=
    let z := x * x in
    (2 * p1 - q2) + z * (2 * p0 - q1) - q0 * z * z + x * (p1 - q2 / 2 + z * (p0 - q1 / 2) - q0 * z * z / 2) + Pz x / 2.
  Lemma rat_cubic (x : R) : Qz x - Pz x * x <> 0 ->
    Pz x * x / (Qz x - Pz x * x) + Pz x * x / (Qz x - Pz x * x) - (x + x * x / 2) = x * x * x * (Mz x / (Qz x - Pz x * x)).
  Proof. intros H. unfold Mz. unfold Pz, Qz in *. field. exact H. Qed.
End Sliver.

Lemma ofD_1_0 : ofD R_ops 1 0 = 1.
Proof. cbn [ofD R_ops]. simpl. ring. Qed.
Lemma ofD_1_1 : ofD R_ops 1 1 = 2.
Proof. cbn [ofD R_ops]. simpl. ring. Qed.

Definition cp0 := ofD R_ops 581889597147517 (-62).
Definition cp1 := ofD R_ops 4366609605269055 (-57).
Definition cq0 := ofD R_ops 221507399824125 (-66).
Definition cq1 := ofD R_ops 90954100122331 (-55).
Definition cq2 := ofD R_ops 2047026076448797 (-53).

Lemma expm1_rat_shape (x : R) :
  expm1_rat R_ops x = Pz cp0 cp1 x * x / (Qz cq0 cq1 cq2 x - Pz cp0 cp1 x * x) + Pz cp0 cp1 x * x / (Qz cq0 cq1 cq2 x - Pz cp0 cp1 x * x).
Proof.
  unfold expm1_rat, polevl, expm1_P, expm1_Q. cbn [fold_left]. rewrite ofD_1_0, ofD_1_1.
  fold cp0 cp1 cq0 cq1 cq2. cbn [add sub mul div R_ops]. reflexivity.
Qed.

Lemma sliver_M (x : R) : -1/1024 <= x <= 1/1024 ->
  Rabs (Mz cp0 cp1 cq0 cq1 cq2 x / (Qz cq0 cq1 cq2 x - Pz cp0 cp1 x * x)) <= 1/5.
Proof.
  intros H. unfold Mz, Pz, Qz, cp0, cp1, cq0, cq1, cq2. cbn [ofD R_ops]. interval with (i_prec 60).
Qed.

(* |exp x - 1 - x - x^2/2| <= |x|^3 / 4 for |x| <= 1/4 : three applications of the mean value theorem each way *)
Lemma D_exp (t : R) : is_derive exp t (exp t).
Proof. apply is_derive_Reals, derivable_pt_lim_exp. Qed.

Lemma exp_cubic_pos (x : R) : 0 <= x <= 1/4 -> 0 <= exp x - 1 - x - x * x / 2 <= x * x * x / 4.
Proof.
  intros Hx.
  assert (E1 : forall t, 0 <= t -> 0 <= exp t - 1 - t) by (intros t _; pose proof (exp_ineq1_le t); lra).
  assert (E2 : forall t, 0 <= t -> 0 <= exp t - 1 - t - t * t / 2).
  { intros t Ht. pose proof (mvt_nonneg (fun u => exp u - 1 - u - u * u / 2) (fun u => exp u - 1 - u) 0 t Ht) as M.
    cbv beta in M. rewrite exp_0 in M. replace (1 - 1 - 0 - 0 * 0 / 2) with 0 in M by field. apply M.
    - intros u _. auto_derive; auto. field.
    - intros u Hu. apply E1. lra. }
  split; [apply E2; lra|].
  assert (U2 : forall t, 0 <= t <= 1/4 -> 0 <= 3 / 2 * t - (exp t - 1)).
  { intros t Ht. pose proof (mvt_nonneg (fun u => 3 / 2 * u - (exp u - 1)) (fun u => 3 / 2 - exp u) 0 t (proj1 Ht)) as M.
    cbv beta in M. rewrite exp_0 in M. replace (3 / 2 * 0 - (1 - 1)) with 0 in M by field. apply M.
    - intros u _. auto_derive; auto. field.
    - intros u Hu. assert (Hu' : 0 <= u <= 1/4) by lra. assert (exp u <= 3 / 2); [|lra]. interval with (i_prec 30). }
  assert (U1 : forall t, 0 <= t <= 1/4 -> 0 <= 3 / 4 * t * t - (exp t - 1 - t)).
  { intros t Ht. pose proof (mvt_nonneg (fun u => 3 / 4 * u * u - (exp u - 1 - u)) (fun u => 3 / 2 * u - (exp u - 1)) 0 t (proj1 Ht)) as M.
    cbv beta in M. rewrite exp_0 in M. replace (3 / 4 * 0 * 0 - (1 - 1 - 0)) with 0 in M by field. apply M.
    - intros u _. auto_derive; auto. field.
    - intros u Hu. apply U2. lra. }
  pose proof (mvt_nonneg (fun u => u * u * u / 4 - (exp u - 1 - u - u * u / 2)) (fun u => 3 / 4 * u * u - (exp u - 1 - u)) 0 x (proj1 Hx)) as M.
  cbv beta in M. rewrite exp_0 in M. replace (0 * 0 * 0 / 4 - (1 - 1 - 0 - 0 * 0 / 2)) with 0 in M by field.
  assert (0 <= x * x * x / 4 - (exp x - 1 - x - x * x / 2)); [|lra]. apply M.
  - intros u _. auto_derive; auto. field.
  - intros u Hu. apply U1. lra.
Qed.

Lemma exp_cubic_neg (x : R) : -1/4 <= x <= 0 -> x * x * x / 4 <= exp x - 1 - x - x * x / 2 <= 0.
Proof.
  intros Hx.
  assert (E1 : forall t, 0 <= exp t - 1 - t) by (intros t; pose proof (exp_ineq1_le t); lra).
  split.
  - (* v(t) = e2(t) - t^3/4 decreases on [x,0]: v' = e1 - 3t^2/4 <= 0 there, because v'' = exp t - 1 - 3t/2 >= 0 and v'(0) = 0 *)
    assert (V2 : forall t, -1/4 <= t <= 0 -> 0 <= exp t - 1 - 3 / 2 * t).
    { intros t Ht. pose proof (exp_ineq1_le t). lra. }
    assert (V1 : forall t, -1/4 <= t <= 0 -> exp t - 1 - t - 3 / 4 * t * t <= 0).
    { intros t Ht. pose proof (mvt_nonneg (fun u => exp u - 1 - u - 3 / 4 * u * u) (fun u => exp u - 1 - 3 / 2 * u) t 0 (proj2 Ht)) as M.
      cbv beta in M. rewrite exp_0 in M. replace (1 - 1 - 0 - 3 / 4 * 0 * 0) with 0 in M by field. apply M.
      - intros u _. auto_derive; auto. field.
      - intros u Hu. apply V2. lra. }
    pose proof (mvt_nonneg (fun u => - (exp u - 1 - u - u * u / 2 - u * u * u / 4)) (fun u => - (exp u - 1 - u - 3 / 4 * u * u)) x 0 (proj2 Hx)) as M.
    cbv beta in M. rewrite exp_0 in M. replace (- (1 - 1 - 0 - 0 * 0 / 2 - 0 * 0 * 0 / 4)) with 0 in M by field.
    assert (- (exp x - 1 - x - x * x / 2 - x * x * x / 4) <= 0); [|lra]. apply M.
    + intros u _. auto_derive; auto. field.
    + intros u Hu. specialize (V1 u). lra.
  - pose proof (mvt_nonneg (fun u => exp u - 1 - u - u * u / 2) (fun u => exp u - 1 - u) x 0 (proj2 Hx)) as M.
    cbv beta in M. rewrite exp_0 in M. replace (1 - 1 - 0 - 0 * 0 / 2) with 0 in M by field. apply M.
    + intros u _. auto_derive; auto. field.
    + intros u Hu. apply E1.
Qed.

Lemma exp_cubic (x : R) : Rabs x <= 1/4 -> Rabs (exp x - 1 - x - x * x / 2) <= Rabs x * Rabs x * Rabs x / 4.
Proof.
  intros H. unfold Rabs in H. destruct (Rcase_abs x) as [Hn|Hp].
  - destruct (exp_cubic_neg x) as [A B]; [lra|]. rewrite (Rabs_left x) by lra. rewrite Rabs_left1 by lra. lra.
  - destruct (exp_cubic_pos x) as [A B]; [lra|]. rewrite (Rabs_right x) by lra. rewrite Rabs_right by lra. lra.
Qed.

Lemma Rabs_lower (u v : R) : Rabs u - Rabs v <= Rabs (u + v).
Proof. replace (u + v) with (u - - v) by ring. rewrite <- (Rabs_Ropp v). apply Rabs_triang_inv. Qed.

Lemma expm1_rat_rel_sliver (x : R) : Rabs x <= / 134217728 ->
  Rabs (expm1_rat R_ops x - (exp x - 1)) <= / 9007199254740992 * Rabs (exp x - 1).      (* 2^-53 *)
Proof.
  intros H. assert (Hx : -1/1024 <= x <= 1/1024) by (apply Rabs_le_between in H; lra).
  pose proof (expm1_rat_divisor x) as HD. rewrite expm1_rat_shape.
  assert (HD' : Qz cq0 cq1 cq2 x - Pz cp0 cp1 x * x <> 0).
  { unfold expm1_Q, expm1_P, polevl in HD. cbn [fold_left] in HD. rewrite ofD_1_0, ofD_1_1 in HD. fold cp0 cp1 cq0 cq1 cq2 in HD.
    cbn [add sub mul R_ops] in HD. unfold Qz, Pz. lra. }
  pose proof (rat_cubic cp0 cp1 cq0 cq1 cq2 x HD') as HC. pose proof (sliver_M x Hx) as HM.
  set (r := Pz cp0 cp1 x * x / (Qz cq0 cq1 cq2 x - Pz cp0 cp1 x * x) + Pz cp0 cp1 x * x / (Qz cq0 cq1 cq2 x - Pz cp0 cp1 x * x)) in *.
  set (m := Mz cp0 cp1 cq0 cq1 cq2 x / (Qz cq0 cq1 cq2 x - Pz cp0 cp1 x * x)) in *.
  pose proof (exp_cubic x) as HE. assert (Rabs x <= 1/4) by lra. specialize (HE H0).
  set (a := Rabs x) in *. assert (Ha : 0 <= a) by apply Rabs_pos.
  (* |r - em1| <= |r - x - x^2/2| + |em1 - x - x^2/2| <= a^3 (1/5 + 1/4) *)
  assert (H1 : Rabs (r - (exp x - 1)) <= a * a * a * (9 / 20)).
  { replace (r - (exp x - 1)) with ((r - (x + x * x / 2)) - (exp x - 1 - x - x * x / 2)) by ring.
    eapply Rle_trans; [apply Rabs_triang|]. rewrite Rabs_Ropp. rewrite HC. rewrite !Rabs_mult. fold a.
    assert (a * a * a * Rabs m <= a * a * a * (1 / 5)). { apply Rmult_le_compat_l; [|lra]. apply Rmult_le_pos; [apply Rmult_le_pos|]; lra. }
    lra. }
  (* |em1| >= a - a^2/2 - a^3/4 >= a * 0.99 *)
  assert (H2 : a * (99 / 100) <= Rabs (exp x - 1)).
  { replace (exp x - 1) with ((x + x * x / 2) + (exp x - 1 - x - x * x / 2)) by ring.
    pose proof (Rabs_lower (x + x * x / 2) (exp x - 1 - x - x * x / 2)) as L1.
    pose proof (Rabs_lower x (x * x / 2)) as L2.
    assert (L3 : Rabs (x * x / 2) = a * a / 2).
    { unfold Rdiv. rewrite !Rabs_mult. fold a. rewrite (Rabs_right (/ 2)) by lra. reflexivity. }
    fold a in L2. rewrite L3 in L2.
    assert (a * a <= a * (/ 134217728)) by (apply Rmult_le_compat_l; lra).
    assert (a * a * a <= a * a * (/ 134217728)) by (apply Rmult_le_compat_l; [nra|lra]).
    nra. }
  assert (a * a <= / 134217728 * / 134217728) by (apply Rmult_le_compat; lra).
  assert (a * a * a * (9 / 20) <= a * (/ 134217728 * / 134217728) * (9 / 20)) by nra.
  nra.
Qed.

(* ------------------------------------------------------------ the approximation on its whole interval *)
Theorem expm1_rat_relative (x : R) : -1/2 <= x <= 1/2 ->
  Rabs (expm1_rat R_ops x - (exp x - 1)) <= / 9007199254740992 * Rabs (exp x - 1).
Proof.
  intros H. destruct (Rle_dec (Rabs x) (/ 134217728)).
  - apply expm1_rat_rel_sliver; auto.
  - eapply Rle_trans; [apply expm1_rat_rel_outer|].
    + split; [lra|]. apply Rabs_le_between. lra.
    + apply Rmult_le_compat_r; [apply Rabs_pos|lra].
Qed.

(* the complete function: exact outside [-1/2,1/2] (it calls exp there), the approximation inside *)
Theorem expm1_spec (x : R) :
  (x < -1/2 \/ 1/2 < x -> real_expm1 R_ops x = exp x - 1) /\
  (-1/2 <= x <= 1/2 -> real_expm1 R_ops x = expm1_rat R_ops x).
Proof.
  unfold real_expm1. rewrite isnan_R, isinf_R, c_half_val. uo.
  destruct (Rltb_spec x (- / 2)); destruct (Rltb_spec (/ 2) x); cbn [orb]; split; intros; try lra; reflexivity.
Qed.
