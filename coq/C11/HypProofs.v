(* C11 proofs over R, part 1: log1p, asinh, acosh, atanh of the model C11/MathDefs.v (fallback bodies of src/math.c). *)
From Coq Require Import Reals Lra Lia List ZArith Bool.
From Coquelicot Require Import Coquelicot.
From Interval Require Import Tactic.
From LibaV Require Import Common.NumOps Common.ROps C11.MathDefs.
Import ListNotations.
Local Open Scope R_scope.
Local Notation sqrt := R_sqrt.sqrt.

Ltac uo := unfold flog, fexp, fatan, fsin, fcos in *; unfold_ops; cbn [R_fn1 R_fn2] in *.

(* ------------------------------------------------------------ constants *)
Lemma c_sqrt_eps_val : c_sqrt_eps R_ops = / 67108864.
Proof. unfold c_sqrt_eps. cbn [ofD R_ops]. unfold powerRZ. simpl. field. Qed.
Lemma c_eps_val : c_eps R_ops = / 4503599627370496.
Proof. unfold c_eps. cbn [ofD R_ops]. unfold powerRZ. simpl. field. Qed.
Lemma c_half_val : c_half R_ops = / 2.
Proof. unfold c_half. cbn [ofD R_ops]. unfold powerRZ. simpl. field. Qed.
Lemma c_ln2_close : Rabs (c_ln2 R_ops - ln 2) <= / 36028797018963968.     (* 2^-55 *)
Proof. unfold c_ln2. cbn [ofD R_ops]. interval with (i_prec 80). Qed.

Lemma isinf_R (x : R) : isinf R_ops x = false.
Proof. unfold isinf. uo. rcases; cbn; auto. exfalso. lra. Qed.
Lemma isnan_R (x : R) : isnan R_ops x = false.
Proof. unfold isnan. uo. rcases; cbn; auto. exfalso. auto. Qed.

(* ------------------------------------------------------------ log1p: the compensation is neutral in exact arithmetic *)
Lemma log1p_neutral (x : R) : real_log1p R_ops x = ln (1 + x).
Proof.
  unfold real_log1p. rewrite isinf_R. uo. rcases; cbn [andb negb].
  - replace (x + 1 - 1 - x) with 0 by ring. unfold Rdiv. rewrite Rmult_0_l, Rminus_0_r. f_equal. ring.
  - f_equal; ring.
Qed.
(* definedness: the division of the compensation is only executed with a non-zero divisor *)
Lemma log1p_divisor_nonzero (x : R) : ltb R_ops 0 (x + 1) = true -> x + 1 <> 0.
Proof. uo. rcases; intros; [lra | discriminate]. Qed.

(* ------------------------------------------------------------ generic: a function with non-negative derivative grows *)
Lemma mvt_nonneg (f df : R -> R) (a b : R) :
  a <= b -> (forall t, a <= t <= b -> is_derive f t (df t)) -> (forall t, a <= t <= b -> 0 <= df t) -> f a <= f b.
Proof.
  intros Hab Hd Hp.
  destruct (MVT_gen f a b df) as [c [Hc He]].
  - intros t Ht. apply Hd. rewrite Rmin_left, Rmax_right in Ht by lra. lra.
  - intros t Ht. rewrite Rmin_left, Rmax_right in Ht by lra.
    apply continuity_pt_filterlim. apply (ex_derive_continuous f). exists (df t). apply Hd. lra.
  - rewrite Rmin_left, Rmax_right in Hc by lra. specialize (Hp c Hc).
    assert (0 <= df c * (b - a)) by (apply Rmult_le_pos; lra). lra.
Qed.

(* ------------------------------------------------------------ asinh *)
Lemma sinh_opp (x : R) : sinh (- x) = - sinh x.
Proof. unfold sinh. rewrite Ropp_involutive. field. Qed.
Lemma arcsinh_opp (x : R) : arcsinh (- x) = - arcsinh x.
Proof. rewrite <- (sinh_arcsinh x) at 1. rewrite <- sinh_opp. apply arcsinh_sinh. Qed.

Lemma sqrt_sq1 (a : R) : let S := sqrt (a * a + 1) in S * S = a * a + 1 /\ 1 <= S.
Proof.
  intros S. assert (H : S * S = a * a + 1) by (apply sqrt_sqrt; nra). split; auto.
  assert (0 <= S) by apply sqrt_pos. nra.
Qed.

(* both middle formulas are arcsinh on the whole half line, not only on the range where they are used *)
Lemma asinh_log_form (a : R) : 0 <= a -> ln (1 / (sqrt (a * a + 1) + a) + a * 2) = arcsinh a.
Proof.
  intros Ha. destruct (sqrt_sq1 a) as [HS H1]. set (S := sqrt (a * a + 1)) in *.
  unfold arcsinh. replace (a ^ 2 + 1) with (a * a + 1) by ring. fold S. f_equal.
  assert (S + a <> 0) by lra. field_simplify_eq; auto. nra.
Qed.
Lemma asinh_log1p_form (a : R) : 0 <= a -> ln (1 + (a * a / (sqrt (a * a + 1) + 1) + a)) = arcsinh a.
Proof.
  intros Ha. destruct (sqrt_sq1 a) as [HS H1]. set (S := sqrt (a * a + 1)) in *.
  unfold arcsinh. replace (a ^ 2 + 1) with (a * a + 1) by ring. fold S. f_equal.
  assert (S + 1 <> 0) by lra. field_simplify_eq; auto. nra.
Qed.

(* the sign handling: s * f |x| for an odd function *)
Lemma asinh_sign (x v : R) : v = arcsinh (Rabs x) -> (if Rltb x 0 then -1 else 1) * v = arcsinh x.
Proof.
  intros ->. destruct (Rltb_spec x 0).
  - rewrite Rabs_left by lra. rewrite arcsinh_opp. ring.
  - rewrite Rabs_right by lra. ring.
Qed.

Theorem asinh_mid (x : R) : / 67108864 < Rabs x <= 67108864 -> real_asinh R_ops x = arcsinh x.
Proof.
  intros [H1 H2]. unfold real_asinh. rewrite c_sqrt_eps_val. rewrite log1p_neutral. uo.
  replace (1 / / 67108864) with 67108864 by field.
  destruct (Rltb_spec 67108864 (Rabs x)); [lra|].
  destruct (Rltb_spec 2 (Rabs x)).
  - apply asinh_sign. apply asinh_log_form. apply Rabs_pos.
  - destruct (Rltb_spec (/ 67108864) (Rabs x)); [|lra].
    apply asinh_sign. apply asinh_log1p_form. apply Rabs_pos.
Qed.

Lemma ln_1p_le (u : R) : 0 <= u -> 0 <= ln (1 + u) <= u.
Proof.
  intros Hu. split.
  - rewrite <- ln_1. apply ln_le; lra.
  - rewrite <- (ln_exp u) at 2. apply ln_le; [lra|]. apply exp_ineq1_le.
Qed.

(* |x| > 2^26: log(|x|) + LN2 instead of log(|x| + sqrt(x^2+1)): method error below 2^-53 (the value exceeds 18) *)
Lemma asinh_large_pos (a : R) : 67108864 < a -> Rabs (ln a + c_ln2 R_ops - arcsinh a) <= / 9007199254740992.
Proof.
  intros Ha. destruct (sqrt_sq1 a) as [HS H1]. set (S := sqrt (a * a + 1)) in *.
  assert (Hq : arcsinh a = ln a + ln 2 + ln (1 + (S - a) / (2 * a))).
  { unfold arcsinh. replace (a ^ 2 + 1) with (a * a + 1) by ring. fold S.
    rewrite <- ln_mult by lra. rewrite <- ln_mult.
    - f_equal. field. lra.
    - lra.
    - assert (0 <= (S - a) / (2 * a)); [|lra]. apply Rmult_le_pos; [nra|]. apply Rlt_le, Rinv_0_lt_compat. lra. }
  assert (Hu : 0 <= (S - a) / (2 * a) <= / 18014398509481984).
  { assert (Hs : 0 <= S - a <= / (2 * a)).
    { split; [nra|]. assert (S <= a + / (2 * a)); [|lra].
      assert (0 < / (2 * a)) by (apply Rinv_0_lt_compat; lra).
      assert (S * S <= (a + / (2 * a)) * (a + / (2 * a))).
      { rewrite HS. replace ((a + / (2 * a)) * (a + / (2 * a))) with (a * a + 1 + / (2 * a) * / (2 * a)) by (field; lra). nra. }
      nra. }
    assert (0 < / (2 * a)) by (apply Rinv_0_lt_compat; lra).
    split; [apply Rmult_le_pos; lra|].
    apply Rle_trans with (/ (2 * a) * / (2 * a)).
    - unfold Rdiv. apply Rmult_le_compat_r; lra.
    - assert (/ (2 * a) <= / 134217728) by (apply Rinv_le_contravar; lra).
      replace (/ 18014398509481984) with (/ 134217728 * / 134217728) by lra. apply Rmult_le_compat; lra. }
  destruct (ln_1p_le _ (proj1 Hu)) as [L1 L2].
  pose proof c_ln2_close as HC. apply Rabs_le_between in HC.
  rewrite Hq. apply Rabs_le. lra.
Qed.

Theorem asinh_large (x : R) : 67108864 < Rabs x -> Rabs (real_asinh R_ops x - arcsinh x) <= / 9007199254740992.
Proof.
  intros H. unfold real_asinh. rewrite c_sqrt_eps_val. uo.
  replace (1 / / 67108864) with 67108864 by field.
  destruct (Rltb_spec 67108864 (Rabs x)); [|lra].
  pose proof (asinh_large_pos _ H) as HL.
  destruct (Rltb_spec x 0).
  - assert (Ea : Rabs x = - x) by (apply Rabs_left; lra). rewrite Ea in *. replace (arcsinh x) with (- arcsinh (- x)) by (rewrite arcsinh_opp; ring).
    replace (-1 * (ln (- x) + c_ln2 R_ops) - - arcsinh (- x)) with (- (ln (- x) + c_ln2 R_ops - arcsinh (- x))) by ring.
    rewrite Rabs_Ropp. exact HL.
  - assert (Ea : Rabs x = x) by (apply Rabs_right; lra). rewrite Ea in *. rewrite Rmult_1_l. exact HL.
Qed.

(* |x| <= 2^-26: x itself; 0 <= x - arcsinh x <= x^3/6 for x >= 0 *)
Lemma D_comb (k : R) (p dp : R -> R) (t : R) :
  is_derive p t (dp t) -> is_derive (fun u => k * arcsinh u + p u) t (k * / sqrt (t ^ 2 + 1) + dp t).
Proof.
  intros Hp. apply (is_derive_plus (fun u => k * arcsinh u) p t (k * / sqrt (t ^ 2 + 1)) (dp t)); [|exact Hp].
  apply is_derive_scal. apply is_derive_Reals, derivable_pt_lim_arcsinh.
Qed.

Lemma arcsinh_small_pos (x : R) : 0 <= x <= 1 -> 0 <= x - arcsinh x <= x * x * x / 6.
Proof.
  intros Hx. split.
  - pose proof (mvt_nonneg (fun t => -1 * arcsinh t + t) (fun t => -1 * / sqrt (t ^ 2 + 1) + 1) 0 x (proj1 Hx)) as M.
    cbv beta in M. rewrite arcsinh_0 in M. assert (-1 * 0 + 0 <= -1 * arcsinh x + x); [|lra]. apply M.
    + intros t _. apply (D_comb (-1) (fun u => u) (fun _ => 1)). apply (is_derive_id t).
    + intros t _. destruct (sqrt_sq1 t) as [HS H1]. replace (t ^ 2 + 1) with (t * t + 1) by ring.
      assert (/ sqrt (t * t + 1) <= / 1) by (apply Rinv_le_contravar; lra). lra.
  - pose proof (mvt_nonneg (fun t => 1 * arcsinh t + (- t + t * t * t / 6)) (fun t => 1 * / sqrt (t ^ 2 + 1) + (- 1 + t * t / 2)) 0 x (proj1 Hx)) as M.
    cbv beta in M. rewrite arcsinh_0 in M.
    assert (1 * 0 + (- 0 + 0 * 0 * 0 / 6) <= 1 * arcsinh x + (- x + x * x * x / 6)); [|lra]. apply M.
    + intros t _. apply (D_comb 1 (fun u => - u + u * u * u / 6) (fun u => - 1 + u * u / 2)).
      auto_derive; auto. field.
    + intros t Ht. destruct (sqrt_sq1 t) as [HS H1]. replace (t ^ 2 + 1) with (t * t + 1) by ring.
      set (S := sqrt (t * t + 1)) in *.
      assert (HS2 : S <= 1 + t * t / 2) by nra.
      assert (Hi : / (1 + t * t / 2) <= / S) by (apply Rinv_le_contravar; lra).
      assert (1 - t * t / 2 <= / (1 + t * t / 2)); [|lra].
      apply Rmult_le_reg_r with (1 + t * t / 2); [nra|]. rewrite Rinv_l by nra. nra.
Qed.

Theorem asinh_small (x : R) : Rabs x <= / 67108864 ->
  real_asinh R_ops x = x /\ Rabs (x - arcsinh x) <= Rabs x * / 27021597764222976.     (* relative error <= 2^-52/6 *)
Proof.
  intros H. split.
  - unfold real_asinh. rewrite c_sqrt_eps_val. uo. replace (1 / / 67108864) with 67108864 by field.
    destruct (Rltb_spec 67108864 (Rabs x)); [lra|]. destruct (Rltb_spec 2 (Rabs x)); [lra|].
    destruct (Rltb_spec (/ 67108864) (Rabs x)); [lra|]. reflexivity.
  - assert (Hp : forall y, 0 <= y <= / 67108864 -> Rabs (y - arcsinh y) <= y * / 27021597764222976).
    { intros y Hy. destruct (arcsinh_small_pos y) as [A B]; [lra|]. rewrite Rabs_right by lra.
      apply Rle_trans with (1 := B). assert (y * y <= / 67108864 * / 67108864) by (apply Rmult_le_compat; lra). nra. }
    destruct (Rle_dec 0 x).
    + assert (Ea : Rabs x = x) by (apply Rabs_right; lra). rewrite Ea in *. apply Hp. lra.
    + assert (Ea : Rabs x = - x) by (apply Rabs_left; lra). rewrite Ea in *. specialize (Hp (- x)). rewrite arcsinh_opp in Hp.
      replace (- x - - arcsinh x) with (- (x - arcsinh x)) in Hp by ring. rewrite Rabs_Ropp in Hp. apply Hp. lra.
Qed.

(* ------------------------------------------------------------ acosh *)
(* the inverse hyperbolic cosine on [1, oo): the ln formula; it IS the inverse (cosh_arccosh, arccosh_nonneg) *)
Definition arccosh (x : R) : R := ln (x + sqrt (x * x - 1)).

Lemma sqrt_sqm1 (x : R) : 1 <= x -> let S := sqrt (x * x - 1) in S * S = x * x - 1 /\ 0 <= S < x.
Proof.
  intros Hx S. assert (H : S * S = x * x - 1) by (apply sqrt_sqrt; nra).
  assert (0 <= S) by apply sqrt_pos. repeat split; auto. nra.
Qed.
Lemma cosh_arccosh (x : R) : 1 <= x -> cosh (arccosh x) = x.
Proof.
  intros Hx. destruct (sqrt_sqm1 x Hx) as [HS [H0 H1]]. unfold cosh, arccosh. set (S := sqrt (x * x - 1)) in *.
  rewrite exp_Ropp, exp_ln by lra. field_simplify_eq; [nra | lra].
Qed.
Lemma arccosh_nonneg (x : R) : 1 <= x -> 0 <= arccosh x.
Proof.
  intros Hx. destruct (sqrt_sqm1 x Hx) as [HS [H0 H1]]. unfold arccosh. rewrite <- ln_1. apply ln_le; lra.
Qed.
Lemma acosh_log_form (x : R) : 1 <= x -> ln (-1 / (sqrt (x * x - 1) + x) + x * 2) = arccosh x.
Proof.
  intros Hx. destruct (sqrt_sqm1 x Hx) as [HS [H0 H1]]. unfold arccosh. set (S := sqrt (x * x - 1)) in *.
  f_equal. assert (S + x <> 0) by lra. field_simplify_eq; auto. nra.
Qed.
Lemma acosh_log1p_form (x : R) : 1 <= x -> ln (1 + (sqrt ((x - 1) * (x - 1) + (x - 1) * 2) + (x - 1))) = arccosh x.
Proof.
  intros Hx. unfold arccosh. replace ((x - 1) * (x - 1) + (x - 1) * 2) with (x * x - 1) by ring. f_equal. ring.
Qed.

Theorem acosh_mid (x : R) : 1 <= x <= 67108864 -> real_acosh R_ops x = arccosh x.
Proof.
  intros [H1 H2]. unfold real_acosh. rewrite c_sqrt_eps_val. rewrite log1p_neutral. uo.
  replace (1 / / 67108864) with 67108864 by field.
  destruct (Rltb_spec 67108864 x); [lra|].
  destruct (Rltb_spec 2 x); [apply acosh_log_form; lra|].
  destruct (Rltb_spec 1 x); [apply acosh_log1p_form; lra|].
  destruct (Reqb_spec x 1); [|lra]. subst x. unfold arccosh.
  replace (1 * 1 - 1) with 0 by ring. rewrite sqrt_0, Rplus_0_r, ln_1. reflexivity.
Qed.

(* x > 2^26: log(x) + LN2 instead of log(x + sqrt(x^2-1)): method error below 2^-51 (the value exceeds 18) *)
Theorem acosh_large (x : R) : 67108864 < x -> Rabs (real_acosh R_ops x - arccosh x) <= / 2251799813685248.
Proof.
  intros Hx. unfold real_acosh. rewrite c_sqrt_eps_val. uo. replace (1 / / 67108864) with 67108864 by field.
  destruct (Rltb_spec 67108864 x); [|lra].
  destruct (sqrt_sqm1 x) as [HS [H0 H1]]; [lra|]. set (S := sqrt (x * x - 1)) in *.
  set (u := (x - S) / (x + S)).
  assert (Hu : 0 <= u <= / 4503599627370496).
  { unfold u. assert (0 < / (x + S)) by (apply Rinv_0_lt_compat; lra). split; [apply Rmult_le_pos; lra|].
    replace ((x - S) / (x + S)) with (/ (x + S) * / (x + S)) by (field_simplify_eq; [nra|lra]).
    assert (/ (x + S) <= / 67108864) by (apply Rinv_le_contravar; lra).
    replace (/ 4503599627370496) with (/ 67108864 * / 67108864) by lra. apply Rmult_le_compat; lra. }
  assert (Hq : ln x + ln 2 = arccosh x + ln (1 + u)).
  { unfold arccosh. fold S. rewrite <- !ln_mult by lra. f_equal. unfold u. field. lra. }
  destruct (ln_1p_le _ (proj1 Hu)) as [L1 L2].
  pose proof c_ln2_close as HC. apply Rabs_le_between in HC. apply Rabs_le. lra.
Qed.

(* ------------------------------------------------------------ atanh *)
Definition arctanh (x : R) : R := / 2 * ln ((1 + x) / (1 - x)).

Lemma arctanh_opp (x : R) : -1 < x < 1 -> arctanh (- x) = - arctanh x.
Proof.
  intros Hx. unfold arctanh. replace ((1 + - x) / (1 - - x)) with (/ ((1 + x) / (1 - x))) by (field; lra).
  rewrite ln_Rinv; [ring|]. apply Rmult_lt_0_compat; [lra|]. apply Rinv_0_lt_compat; lra.
Qed.
Lemma tanh_arctanh (x : R) : -1 < x < 1 -> tanh (arctanh x) = x.
Proof.
  intros Hx. assert (Hq : 0 < (1 + x) / (1 - x)) by (apply Rmult_lt_0_compat; [lra|]; apply Rinv_0_lt_compat; lra).
  unfold tanh, sinh, cosh, arctanh. set (y := / 2 * ln ((1 + x) / (1 - x))).
  assert (He : exp y * exp y = (1 + x) / (1 - x)).
  { rewrite <- exp_plus. unfold y. replace (/ 2 * ln ((1 + x) / (1 - x)) + / 2 * ln ((1 + x) / (1 - x))) with (ln ((1 + x) / (1 - x))) by field.
    apply exp_ln; auto. }
  rewrite exp_Ropp. assert (0 < exp y) by apply exp_pos. set (e := exp y) in *.
  assert (e * e * (1 - x) = 1 + x) by (rewrite He; field; lra).
  field_simplify_eq; [nra|]. split; [nra|lra].
Qed.

Lemma atanh_sign (x v : R) : -1 < x < 1 -> v = ln ((1 + Rabs x) / (1 - Rabs x)) ->
  (if Rltb x 0 then - / 2 else / 2) * v = arctanh x.
Proof.
  intros Hx ->. destruct (Rltb_spec x 0).
  - rewrite Rabs_left by lra. replace x with (- - x) at 3 by ring. rewrite arctanh_opp by lra. unfold arctanh. ring.
  - rewrite Rabs_right by lra. reflexivity.
Qed.

Lemma Rabs_lt1 (x : R) : Rabs x < 1 -> -1 < x < 1.
Proof. intros H. unfold Rabs in H. destruct (Rcase_abs x); lra. Qed.

Theorem atanh_mid (x : R) : / 4503599627370496 < Rabs x < 1 -> real_atanh R_ops x = arctanh x.
Proof.
  intros [H1 H2]. pose proof (Rabs_lt1 x H2) as Hx.
  unfold real_atanh. rewrite c_eps_val, c_half_val. rewrite !log1p_neutral. uo.
  destruct (Rltb_spec 1 (Rabs x)); [lra|]. destruct (Reqb_spec (Rabs x) 1); [lra|].
  destruct (Rleb_spec (/ 2) (Rabs x)).
  - apply atanh_sign; auto. f_equal. field. lra.
  - destruct (Rltb_spec (/ 4503599627370496) (Rabs x)); [|lra].
    apply atanh_sign; auto. f_equal. field. lra.
Qed.

(* 0 <= arctanh x - x <= x^3 for 0 <= x <= 1/2 *)
Lemma arctanh_small_pos (x : R) : 0 <= x <= / 2 -> 0 <= arctanh x - x <= x * x * x.
Proof.
  intros Hx.
  assert (D : forall t, 0 <= t <= x -> is_derive arctanh t (/ (1 - t * t))).
  { intros t Ht. unfold arctanh. auto_derive.
    - repeat split; try lra. apply Rmult_lt_0_compat; [lra|]. apply Rinv_0_lt_compat; lra.
    - field. repeat split; nra. }
  assert (A0 : arctanh 0 = 0).
  { unfold arctanh. replace ((1 + 0) / (1 - 0)) with 1 by field. rewrite ln_1. ring. }
  split.
  - pose proof (mvt_nonneg (fun t => arctanh t - t) (fun t => / (1 - t * t) - 1) 0 x (proj1 Hx)) as M.
    cbv beta in M. rewrite A0 in M. rewrite Rminus_0_r in M. apply M.
    + intros t Ht. apply (is_derive_minus arctanh (fun u => u) t (/ (1 - t * t)) 1); [apply D; auto | apply (is_derive_id t)].
    + intros t Ht. assert (0 < 1 - t * t <= 1) by nra. assert (/ 1 <= / (1 - t * t)) by (apply Rinv_le_contravar; lra). lra.
  - pose proof (mvt_nonneg (fun t => (t + t * t * t) - arctanh t) (fun t => (1 + 3 * t * t) - / (1 - t * t)) 0 x (proj1 Hx)) as M.
    cbv beta in M. rewrite A0 in M. assert (0 + 0 * 0 * 0 - 0 <= x + x * x * x - arctanh x); [|lra]. apply M.
    + intros t Ht. apply (is_derive_minus (fun u => u + u * u * u) arctanh t (1 + 3 * t * t) (/ (1 - t * t))); [|apply D; auto].
      auto_derive; auto. ring.
    + intros t Ht. assert (0 < 1 - t * t) by nra.
      assert (/ (1 - t * t) <= 1 + 3 * t * t); [|lra].
      apply Rmult_le_reg_r with (1 - t * t); auto. rewrite Rinv_l by lra.
      assert (Ht2 : 0 <= t * t <= / 4) by nra. assert (0 <= t * t * (2 - 3 * (t * t))) by (apply Rmult_le_pos; lra). nra.
Qed.

Theorem atanh_small (x : R) : Rabs x <= / 4503599627370496 ->
  real_atanh R_ops x = x /\ Rabs (x - arctanh x) <= Rabs x * / 20282409603651670423947251286016.   (* relative error <= 2^-104 *)
Proof.
  intros H. split.
  - unfold real_atanh. rewrite c_eps_val, c_half_val. uo.
    destruct (Rltb_spec 1 (Rabs x)); [lra|]. destruct (Reqb_spec (Rabs x) 1); [lra|].
    destruct (Rleb_spec (/ 2) (Rabs x)); [lra|]. destruct (Rltb_spec (/ 4503599627370496) (Rabs x)); [lra|]. reflexivity.
  - assert (Hp : forall y, 0 <= y <= / 4503599627370496 -> Rabs (y - arctanh y) <= y * / 20282409603651670423947251286016).
    { intros y Hy. destruct (arctanh_small_pos y) as [A B]; [lra|]. rewrite Rabs_left1 by lra.
      assert (y * y <= / 4503599627370496 * / 4503599627370496) by (apply Rmult_le_compat; lra). nra. }
    destruct (Rle_dec 0 x).
    + assert (Ea : Rabs x = x) by (apply Rabs_right; lra). rewrite Ea in *. apply Hp. lra.
    + assert (Ea : Rabs x = - x) by (apply Rabs_left; lra). rewrite Ea in *. specialize (Hp (- x)).
      rewrite arctanh_opp in Hp by lra.
      replace (- x - - arctanh x) with (- (x - arctanh x)) in Hp by ring. rewrite Rabs_Ropp in Hp. apply Hp. lra.
Qed.
