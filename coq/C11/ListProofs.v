(* C11 proofs, part 4: strided reads, reductions (sum, sum1, sum2, mean, dot, norm) over R, and the array helpers
   (copy, swap, fill, zero, push, roll) over an arbitrary cell type: every length, stride and offset. *)
From Coq Require Import Reals Lra Lia List ZArith Bool Arith.
From LibaV Require Import Common.NumOps Common.ROps C11.MathDefs C11.HypProofs.
Import ListNotations.
Local Notation sqrt := R_sqrt.sqrt.

(* ------------------------------------------------------------ strided reads (any cell type) *)
Section Strided.
  Context {T : Type} (d0 : T).

  (* every index i, i+c, ..., i+(n-1)c is inside p *)
  Definition in_bounds (n : nat) (p : list T) (i c : nat) : Prop := n = 0%nat \/ (i + (n - 1) * c < length p)%nat.
  (* the cells the C loop visits, in order *)
  Definition cells (n : nat) (p : list T) (i c : nat) : list T := map (fun k => nth (i + k * c) p d0) (seq 0 n).

  Lemma cells_S n p i c : cells (S n) p i c = nth i p d0 :: cells n p (i + c) c.
  Proof.
    unfold cells. rewrite <- cons_seq, <- seq_shift, map_cons, map_map. f_equal.
    - f_equal. lia.
    - apply map_ext. intros k. f_equal. simpl. lia.
  Qed.

  Lemma strided_some n : forall p i c, in_bounds n p i c -> strided n p i c = Some (cells n p i c).
  Proof.
    induction n as [|n IH]; intros p i c H; [reflexivity|].
    rewrite cells_S. cbn [strided].
    assert (Hi : (i < length p)%nat) by (destruct H as [H|H]; [discriminate|]; lia).
    rewrite (nth_error_nth' p d0 Hi). rewrite IH; [reflexivity|].
    destruct n; [left; reflexivity|right]. destruct H as [H|H]; [discriminate|].
    replace (S (S n) - 1)%nat with (S n) in H by lia. replace (S n - 1)%nat with n by lia. simpl in H. lia.
  Qed.
  Lemma strided_none n : forall p i c, ~ in_bounds n p i c -> strided n p i c = None.
  Proof.
    induction n as [|n IH]; intros p i c H; [exfalso; apply H; left; reflexivity|].
    cbn [strided]. destruct (nth_error p i) eqn:E; [|reflexivity].
    rewrite IH; [reflexivity|]. intros B. apply H. right.
    assert (Hi : (i < length p)%nat) by (apply nth_error_Some; congruence).
    destruct B as [->|B]; [simpl; lia|].
    destruct n; [simpl; lia|]. replace (S (S n) - 1)%nat with (S n) by lia. replace (S n - 1)%nat with n in B by lia. simpl. lia.
  Qed.
  Lemma cells_length n p i c : length (cells n p i c) = n.
  Proof. unfold cells. rewrite map_length, seq_length. reflexivity. Qed.
End Strided.

Local Open Scope R_scope.

(* ------------------------------------------------------------ reductions over R *)
Definition rsum (l : list R) : R := fold_right Rplus 0 l.

Lemma fold_left_rsum {A : Type} (f : A -> R) (l : list A) : forall a, fold_left (fun r v => r + f v) l a = a + rsum (map f l).
Proof. induction l as [|h t IH]; intros a; cbn [fold_left map rsum fold_right]; [ring|]. rewrite IH. unfold rsum. ring. Qed.
Lemma c_abs_R (x : R) : c_abs R_ops x = Rabs x.
Proof. unfold c_abs. uo. unfold Rabs. destruct (Rltb_spec x 0); destruct (Rcase_abs x); lra. Qed.

Lemma red_spec (g : R -> R -> R) (f : R -> R) (n : nat) (p : list R) (c : nat) :
  (forall r v, g r v = r + f v) ->
  (in_bounds n p 0 c -> red R_ops g n p c = Some (rsum (map f (cells 0 n p 0 c)))) /\
  (~ in_bounds n p 0 c -> red R_ops g n p c = None).
Proof.
  intros Hg. unfold red. split; intros H.
  - rewrite (strided_some 0) by auto. cbn [option_map]. f_equal.
    assert (G : forall l a, fold_left g l a = a + rsum (map f l)).
    { induction l as [|h t IH]; intros a; cbn [fold_left map rsum fold_right]; [ring|]. rewrite IH, Hg. unfold rsum. ring. }
    rewrite G. cbn [ofZ R_ops]. ring.
  - rewrite strided_none by auto. reflexivity.
Qed.

Theorem sum_spec (n : nat) (p : list R) (c : nat) : in_bounds n p 0 c ->
  real_sum_ R_ops n p c = Some (rsum (cells 0 n p 0 c)).
Proof.
  intros H. pose proof (proj1 (red_spec (fun r v => add R_ops r v) (fun v => v) n p c (fun r v => eq_refl)) H) as E.
  rewrite map_id in E. exact E.
Qed.
Theorem sum1_spec (n : nat) (p : list R) (c : nat) : in_bounds n p 0 c ->
  real_sum1_ R_ops n p c = Some (rsum (map Rabs (cells 0 n p 0 c))).
Proof.
  intros H. exact (proj1 (red_spec (fun r v => add R_ops r (c_abs R_ops v)) Rabs n p c (fun r v => f_equal (Rplus r) (c_abs_R v))) H).
Qed.
Theorem sum2_spec (n : nat) (p : list R) (c : nat) : in_bounds n p 0 c ->
  real_sum2_ R_ops n p c = Some (rsum (map (fun v => v * v) (cells 0 n p 0 c))).
Proof.
  intros H. exact (proj1 (red_spec (fun r v => add R_ops r (mul R_ops v v)) (fun v => v * v) n p c (fun r v => eq_refl)) H).
Qed.
Lemma rsum_scal (k : R) (l : list R) : rsum (map (fun v => v * k) l) = rsum l * k.
Proof. induction l; cbn [map rsum fold_right]; [ring|]. fold (rsum (map (fun v => v * k) l)). fold (rsum l). rewrite IHl. ring. Qed.
Theorem mean_spec (n : nat) (p : list R) (c : nat) : in_bounds n p 0 c ->
  real_mean_ R_ops n p c = Some (rsum (cells 0 n p 0 c) / INR n).
Proof.
  intros H. unfold real_mean_.
  pose proof (proj1 (red_spec (fun r v => add R_ops r (mul R_ops v (div R_ops (ofZ R_ops 1) (ofZ R_ops (Z.of_nat n))))) (fun v => v * (1 / IZR (Z.of_nat n))) n p c (fun r v => eq_refl)) H) as E.
  cbv zeta. rewrite E. rewrite rsum_scal. rewrite <- INR_IZR_INZ. f_equal. unfold Rdiv. ring.
Qed.
(* out of bounds (undefined in C) is an error of the model, for every reduction *)
Theorem reductions_out_of_bounds (n : nat) (p : list R) (c : nat) : ~ in_bounds n p 0 c ->
  real_sum_ R_ops n p c = None /\ real_sum1_ R_ops n p c = None /\ real_sum2_ R_ops n p c = None /\ real_mean_ R_ops n p c = None.
Proof.
  intros H. unfold real_sum_, real_sum1_, real_sum2_, real_mean_, red. rewrite strided_none by auto. auto.
Qed.
(* the unit-stride entry points are the strided ones with c = 1 *)
Theorem unit_stride (n : nat) (p : list R) :
  real_sum R_ops n p = real_sum_ R_ops n p 1 /\ real_sum1 R_ops n p = real_sum1_ R_ops n p 1 /\
  real_sum2 R_ops n p = real_sum2_ R_ops n p 1 /\ real_mean R_ops n p = real_mean_ R_ops n p 1 /\
  (forall q, real_dot R_ops n p q = real_dot_ R_ops n p 1 q 1).
Proof. repeat split. Qed.

Theorem dot_spec (n : nat) (X : list R) (Xc : nat) (Y : list R) (Yc : nat) : in_bounds n X 0 Xc -> in_bounds n Y 0 Yc ->
  real_dot_ R_ops n X Xc Y Yc = Some (rsum (map (fun k => nth (k * Xc) X 0 * nth (k * Yc) Y 0) (seq 0 n))).
Proof.
  intros HX HY. unfold real_dot_. rewrite (strided_some 0), (strided_some 0) by auto. f_equal.
  cbn [ofZ R_ops add mul].
  transitivity (0 + rsum (map (fun xy : R * R => fst xy * snd xy) (combine (cells 0 n X 0 Xc) (cells 0 n Y 0 Yc)))).
  - apply (fold_left_rsum (fun xy : R * R => fst xy * snd xy)).
  - rewrite Rplus_0_l. f_equal. unfold cells. generalize (seq 0 n). induction l; cbn [map combine fst snd]; [reflexivity|]. f_equal; auto.
Qed.

(* ------------------------------------------------------------ a_real_norm / a_real_norm_ *)
Definition maxabs (l : list R) (w : R) : R := fold_left (fun w p => Rmax w (Rabs p)) l w.
Definition sumsq (l : list R) : R := rsum (map (fun v => v * v) l).

Lemma norm_scan_R (l : list R) : forall w, norm_scan R_ops l w = Some (maxabs l w).
Proof.
  induction l as [|p r IH]; intros w; [reflexivity|]. cbn [norm_scan]. rewrite isinf_R. unfold maxabs. cbn [fold_left].
  fold (maxabs r (Rmax w (Rabs p))). rewrite <- IH. f_equal. uo.
  destruct (Rltb_spec w (Rabs p)); [rewrite Rmax_right by lra | rewrite Rmax_left by lra]; reflexivity.
Qed.
Lemma maxabs_ge (l : list R) : forall w, w <= maxabs l w /\ Forall (fun p => Rabs p <= maxabs l w) l.
Proof.
  induction l as [|p r IH]; intros w; [split; [apply Rle_refl|constructor]|].
  unfold maxabs. cbn [fold_left]. fold (maxabs r (Rmax w (Rabs p))).
  destruct (IH (Rmax w (Rabs p))) as [A B]. pose proof (Rmax_l w (Rabs p)). pose proof (Rmax_r w (Rabs p)).
  split; [lra|]. constructor; [lra|exact B].
Qed.
Lemma sumsq_nonneg (l : list R) : 0 <= sumsq l.
Proof. unfold sumsq. induction l; cbn [map rsum fold_right]; [lra|]. fold (rsum (map (fun v => v * v) l)). nra. Qed.
Lemma sumsq_zero (l : list R) : Forall (fun p => Rabs p <= 0) l -> sumsq l = 0.
Proof.
  unfold sumsq. induction 1 as [|p r Hp _ IH]; cbn [map rsum fold_right]; [reflexivity|].
  fold (rsum (map (fun v => v * v) r)). rewrite IH. pose proof (Rabs_pos p). assert (Rabs p = 0) by lra.
  assert (p = 0). { destruct (Req_dec p 0); auto. apply Rabs_no_R0 in H1. lra. } subst p. ring.
Qed.
Lemma scaled_sumsq (l : list R) (w : R) : w <> 0 ->
  fold_left (fun s p => s + p / w * (p / w)) l 0 = sumsq l / (w * w).
Proof.
  intros Hw. rewrite (fold_left_rsum (fun p => p / w * (p / w))). unfold sumsq.
  induction l; cbn [map rsum fold_right]; [field; auto|].
  fold (rsum (map (fun p => p / w * (p / w)) l)). fold (rsum (map (fun v => v * v) l)).
  assert (E : rsum (map (fun p => p / w * (p / w)) l) = rsum (map (fun v => v * v) l) / (w * w)) by lra.
  rewrite E. field. auto.
Qed.

(* the two loops of the model on a cell list: largest magnitude w first; every division is by w and is executed only
   when w > 0 (definedness); the result is the Euclidean norm *)
Theorem norm_cells_spec (l : list R) :
  let w := maxabs l 0 in
  (w <= 0 -> norm_cells R_ops l = 0 /\ sumsq l = 0) /\
  (0 < w -> norm_cells R_ops l = sqrt (fold_left (fun s p => s + p / w * (p / w)) l 0) * w) /\
  norm_cells R_ops l = sqrt (sumsq l).
Proof.
  intros w. unfold norm_cells. rewrite norm_scan_R. cbn [ofZ R_ops]. fold w. uo.
  destruct (maxabs_ge l 0) as [W0 WA]. fold w in W0, WA.
  destruct (Rleb_spec w 0) as [Hw|Hw].
  - assert (Z : sumsq l = 0). { apply sumsq_zero. eapply Forall_impl; [|exact WA]. cbv beta. intros; lra. }
    repeat split; intros; try lra; auto. rewrite Z, sqrt_0. reflexivity.
  - repeat split; intros; try lra; auto.
    rewrite scaled_sumsq by lra. pose proof (sumsq_nonneg l).
    transitivity (sqrt (sumsq l / (w * w)) * sqrt (w * w)); [rewrite (sqrt_square w) by lra; reflexivity|].
    rewrite <- sqrt_mult_alt.
    + f_equal. field. lra.
    + apply Rmult_le_pos; [lra|]. apply Rlt_le, Rinv_0_lt_compat. nra.
Qed.

Theorem norm_spec (n : nat) (p : list R) (c : nat) : (1 <= c)%nat ->
  (in_bounds n p 0 c -> real_norm_ R_ops n p c = Some (sqrt (sumsq (cells 0 n p 0 c)))) /\
  (~ in_bounds n p 0 c -> real_norm_ R_ops n p c = None) /\
  real_norm R_ops n p = real_norm_ R_ops n p 1.
Proof.
  intros Hc. unfold real_norm_, real_norm. destruct (Nat.eqb_spec c 0); [lia|]. repeat split.
  - intros H. rewrite (strided_some 0) by auto. cbn [option_map]. f_equal. apply norm_cells_spec.
  - intros H. rewrite strided_none by auto. reflexivity.
Qed.
(* stride 0: both loops of a_real_norm_ are empty (i < n*0 is false at once) and 0 is returned *)
Theorem norm_stride0 (n : nat) (p : list R) : real_norm_ R_ops n p 0 = Some 0.
Proof. reflexivity. Qed.

(* ------------------------------------------------------------ array helpers over any cell type *)
Local Close Scope R_scope.
Section Moves.
  Context {T : Type} (d0 : T).
  Local Notation nth' := (fun k (l : list T) => nth k l d0).

  (* p' has the length len and its k-th cell is f k: this determines p' *)
  Definition agrees (p' : list T) (len : nat) (f : nat -> T) : Prop :=
    length p' = len /\ forall k, k < len -> nth k p' d0 = f k.
  Lemma agrees_unique p1 p2 len f : agrees p1 len f -> agrees p2 len f -> p1 = p2.
  Proof.
    intros [L1 N1] [L2 N2]. apply (nth_ext _ _ d0 d0); [congruence|]. intros k Hk. rewrite N1, N2 by lia. reflexivity.
  Qed.

  Lemma nth_firstn_lt (l : list T) : forall n k, k < n -> nth k (firstn n l) d0 = nth k l d0.
  Proof. induction l as [|h t IH]; intros [|n] [|k] H; cbn; try reflexivity; try lia. apply IH. lia. Qed.
  Lemma nth_skipn_add (l : list T) : forall n k, nth k (skipn n l) d0 = nth (n + k) l d0.
  Proof. induction l as [|h t IH]; intros [|n] k; cbn; try reflexivity; [destruct k; reflexivity|]. apply IH. Qed.

  Lemma upd_ok (m : list T) (i : nat) (v : T) : i < length m ->
    exists m', upd m i v = Some m' /\ length m' = length m /\ forall k, nth k m' d0 = if k =? i then v else nth k m d0.
  Proof.
    intros Hi. unfold upd. destruct (Nat.ltb_spec i (length m)); [|lia]. eexists. split; [reflexivity|]. split.
    - rewrite app_length, firstn_length_le by lia. cbn [length]. rewrite skipn_length. lia.
    - intros k. destruct (Nat.eqb_spec k i) as [->|Hk].
      + rewrite app_nth2; rewrite firstn_length_le by lia; [|lia]. rewrite Nat.sub_diag. reflexivity.
      + destruct (Nat.lt_ge_cases k i).
        * rewrite app_nth1 by (rewrite firstn_length_le; lia). apply nth_firstn_lt. lia.
        * rewrite app_nth2; rewrite firstn_length_le by lia; [|lia].
          destruct (k - i) as [|j] eqn:E; [lia|]. cbn [nth]. rewrite nth_skipn_add. f_equal. lia.
  Qed.
  Lemma upd_none (m : list T) (i : nat) (v : T) : length m <= i -> upd m i v = None.
  Proof. intros H. unfold upd. destruct (Nat.ltb_spec i (length m)); [lia|reflexivity]. Qed.

  Lemma sub_ok (m : list T) (off len : nat) : off + len <= length m ->
    exists l, sub_ m off len = Some l /\ length l = len /\ forall k, k < len -> nth k l d0 = nth (off + k) m d0.
  Proof.
    intros H. unfold sub_. destruct (Nat.leb_spec (off + len) (length m)); [|lia]. eexists. split; [reflexivity|]. split.
    - rewrite firstn_length_le; [reflexivity|]. rewrite skipn_length. lia.
    - intros k Hk. rewrite nth_firstn_lt by lia. apply nth_skipn_add.
  Qed.
  Lemma blit_ok (m : list T) (off : nat) (e : list T) : off + length e <= length m ->
    exists m', blit m off e = Some m' /\ length m' = length m /\
      forall k, nth k m' d0 = if (off <=? k) && (k <? off + length e) then nth (k - off) e d0 else nth k m d0.
  Proof.
    intros H. unfold blit. destruct (Nat.leb_spec (off + length e) (length m)); [|lia]. eexists. split; [reflexivity|]. split.
    - rewrite !app_length, firstn_length_le, skipn_length by lia. lia.
    - intros k. destruct (Nat.leb_spec off k); destruct (Nat.ltb_spec k (off + length e)); cbn [andb].
      + rewrite app_nth2; rewrite firstn_length_le by lia; [|lia]. rewrite app_nth1 by lia. reflexivity.
      + rewrite app_nth2; rewrite firstn_length_le by lia; [|lia]. rewrite app_nth2 by lia. rewrite nth_skipn_add. f_equal. lia.
      + rewrite app_nth1 by (rewrite firstn_length_le; lia). apply nth_firstn_lt. lia.
      + lia.
  Qed.

  (* ---- a_real_copy (memcpy): cells d..d+n-1 receive cells s..s+n-1, nothing else changes *)
  Theorem copy_spec (n : nat) (m : list T) (d s : nat) : d + n <= length m -> s + n <= length m ->
    exists m', real_copy n m d s = Some m' /\
      agrees m' (length m) (fun k => if (d <=? k) && (k <? d + n) then nth (s + (k - d)) m d0 else nth k m d0).
  Proof.
    intros Hd Hs. unfold real_copy. destruct (sub_ok m s n Hs) as (l & E & Ll & Nl). rewrite E. cbn [bind].
    destruct (blit_ok m d l) as (m' & E' & Lm & Nm); [lia|]. exists m'. split; [exact E'|]. split; [exact Lm|].
    intros k Hk. rewrite Nm, Ll. destruct ((d <=? k) && (k <? d + n)) eqn:B; [|reflexivity].
    apply andb_prop in B. destruct B as [B1 B2]. apply Nat.leb_le in B1. apply Nat.ltb_lt in B2. apply Nl. lia.
  Qed.

  (* ---- a_real_copy_: destination cells distinct (dc >= 1) and none of them a source cell *)
  Theorem copy__spec (n : nat) : forall (m : list T) (d dc s sc : nat),
    1 <= dc -> (n = 0 \/ (d + (n - 1) * dc < length m /\ s + (n - 1) * sc < length m)) ->
    (forall i j, i < n -> j < n -> d + i * dc <> s + j * sc) ->
    exists m', real_copy_ n m d dc s sc = Some m' /\ length m' = length m /\
      (forall k, k < n -> nth (d + k * dc) m' d0 = nth (s + k * sc) m d0) /\
      (forall a, (forall k, k < n -> a <> d + k * dc) -> nth a m' d0 = nth a m d0).
  Proof.
    induction n as [|n IH]; intros m d dc s sc Hdc Hb Hdis.
    - exists m. repeat split; auto. intros; lia.
    - cbn [real_copy_]. destruct Hb as [Hb|[Hb1 Hb2]]; [discriminate|].
      replace (S n - 1) with n in * by lia.
      assert (Hs : s < length m) by lia. assert (Hd : d < length m) by lia.
      rewrite (nth_error_nth' m d0 Hs). cbn [bind].
      destruct (upd_ok m d (nth s m d0) Hd) as (m1 & E1 & L1 & N1). rewrite E1. cbn [bind].
      destruct (IH m1 (d + dc) dc (s + sc) sc Hdc) as (m' & E' & L' & C' & O').
      + destruct n; [left; reflexivity|right]. replace (S n - 1) with n by lia. rewrite L1. simpl in Hb1, Hb2. split; lia.
      + intros i j Hi Hj. specialize (Hdis (S i) (S j)). simpl in Hdis. lia.
      + exists m'. split; [exact E'|]. split; [lia|]. split.
        * intros [|k] Hk.
          -- rewrite Nat.mul_0_l, !Nat.add_0_r. rewrite O'; [|intros k Hk'; lia]. rewrite N1, Nat.eqb_refl. reflexivity.
          -- replace (d + S k * dc) with (d + dc + k * dc) by (simpl; lia). rewrite C' by lia. rewrite N1.
             replace (s + sc + k * sc) with (s + S k * sc) by (simpl; lia).
             destruct (Nat.eqb_spec (s + S k * sc) d) as [Eq|]; [|reflexivity].
             exfalso. apply (Hdis 0 (S k)); lia.
        * intros a Ha. rewrite O'.
          -- rewrite N1. destruct (Nat.eqb_spec a d) as [->|]; [|reflexivity]. exfalso. apply (Ha 0); lia.
          -- intros k Hk Eq. apply (Ha (S k)); [lia|]. simpl. lia.
  Qed.

  (* ---- a_real_swap_: both cell families distinct and disjoint from each other *)
  Theorem swap__spec (n : nat) : forall (m : list T) (l lc r rc : nat),
    1 <= lc -> 1 <= rc -> (n = 0 \/ (l + (n - 1) * lc < length m /\ r + (n - 1) * rc < length m)) ->
    (forall i j, i < n -> j < n -> l + i * lc <> r + j * rc) ->
    exists m', real_swap_ n m l lc r rc = Some m' /\ length m' = length m /\
      (forall k, k < n -> nth (l + k * lc) m' d0 = nth (r + k * rc) m d0 /\ nth (r + k * rc) m' d0 = nth (l + k * lc) m d0) /\
      (forall a, (forall k, k < n -> a <> l + k * lc /\ a <> r + k * rc) -> nth a m' d0 = nth a m d0).
  Proof.
    induction n as [|n IH]; intros m l lc r rc Hlc Hrc Hb Hdis.
    - exists m. repeat split; auto; intros; lia.
    - cbn [real_swap_]. destruct Hb as [Hb|[Hb1 Hb2]]; [discriminate|].
      replace (S n - 1) with n in * by lia.
      assert (Hl : l < length m) by lia. assert (Hr : r < length m) by lia.
      rewrite (nth_error_nth' m d0 Hl), (nth_error_nth' m d0 Hr). cbn [bind].
      destruct (upd_ok m l (nth r m d0) Hl) as (m1 & E1 & L1 & N1). rewrite E1. cbn [bind].
      destruct (upd_ok m1 r (nth l m d0)) as (m2 & E2 & L2 & N2); [lia|]. rewrite E2. cbn [bind].
      assert (Hlr : l <> r) by (specialize (Hdis 0 0); lia).
      destruct (IH m2 (l + lc) lc (r + rc) rc Hlc Hrc) as (m' & E' & L' & C' & O').
      + destruct n; [left; reflexivity|right]. replace (S n - 1) with n by lia. rewrite L2, L1. simpl in Hb1, Hb2. split; lia.
      + intros i j Hi Hj. specialize (Hdis (S i) (S j)). simpl in Hdis. lia.
      + assert (M2 : forall a, nth a m2 d0 = if a =? r then nth l m d0 else if a =? l then nth r m d0 else nth a m d0).
        { intros a. rewrite N2, N1. reflexivity. }
        exists m'. split; [exact E'|]. split; [lia|]. split.
        * intros [|k] Hk.
          -- rewrite !Nat.mul_0_l, !Nat.add_0_r. rewrite !O'.
             ++ rewrite !M2. rewrite !Nat.eqb_refl. destruct (Nat.eqb_spec l r); [lia|]. auto.
             ++ intros k Hk'. pose proof (Hdis (S k) 0). simpl in *. lia.
             ++ intros k Hk'. pose proof (Hdis 0 (S k)). simpl in *. lia.
          -- replace (l + S k * lc) with (l + lc + k * lc) by (simpl; lia).
             replace (r + S k * rc) with (r + rc + k * rc) by (simpl; lia).
             destruct (C' k) as [C1 C2]; [lia|]. rewrite C1, C2, !M2.
             pose proof (Hdis 0 (S k)). pose proof (Hdis (S k) 0). simpl in *.
             destruct (Nat.eqb_spec (r + rc + k * rc) r); [lia|]. destruct (Nat.eqb_spec (r + rc + k * rc) l); [lia|].
             destruct (Nat.eqb_spec (l + lc + k * lc) r); [lia|]. destruct (Nat.eqb_spec (l + lc + k * lc) l); [lia|]. auto.
        * intros a Ha. rewrite O'.
          -- rewrite M2. destruct (Ha 0) as [A1 A2]; [lia|]. rewrite Nat.mul_0_l, Nat.add_0_r in *.
             destruct (Nat.eqb_spec a r); [lia|]. destruct (Nat.eqb_spec a l); [lia|]. reflexivity.
          -- intros k Hk. destruct (Ha (S k)) as [A1 A2]; [lia|]. simpl in *. lia.
  Qed.
  Theorem swap_unit (n : nat) (m : list T) (l r : nat) : real_swap n m l r = real_swap_ n m l 1 r 1.
  Proof. reflexivity. Qed.

  (* ---- a_real_swap (restrict: the two blocks do not overlap): the blocks are exchanged, nothing else changes *)
  Theorem swap_spec (n : nat) (m : list T) (l r : nat) : l + n <= length m -> r + n <= length m -> (l + n <= r \/ r + n <= l) ->
    exists m', real_swap n m l r = Some m' /\
      agrees m' (length m) (fun k => if (l <=? k) && (k <? l + n) then nth (r + (k - l)) m d0
                                        else if (r <=? k) && (k <? r + n) then nth (l + (k - r)) m d0 else nth k m d0).
  Proof.
    intros Hl Hr Hd. rewrite swap_unit.
    destruct (swap__spec n m l 1 r 1) as (m' & E & L & C & O); try lia.
    exists m'. split; [exact E|]. split; [exact L|]. intros k Hk.
    destruct ((l <=? k) && (k <? l + n)) eqn:B1.
    - apply andb_prop in B1. destruct B1 as [B1 B1']. apply Nat.leb_le in B1. apply Nat.ltb_lt in B1'.
      destruct (C (k - l)) as [C1 _]; [lia|]. replace (l + (k - l) * 1) with k in C1 by lia. rewrite C1. f_equal. lia.
    - destruct ((r <=? k) && (k <? r + n)) eqn:B2.
      + apply andb_prop in B2. destruct B2 as [B2 B2']. apply Nat.leb_le in B2. apply Nat.ltb_lt in B2'.
        destruct (C (k - r)) as [_ C2]; [lia|]. replace (r + (k - r) * 1) with k in C2 by lia. rewrite C2. f_equal. lia.
      + apply O. intros j Hj. apply andb_false_iff in B1, B2. rewrite Nat.leb_gt, Nat.ltb_ge in B1, B2. lia.
  Qed.

  (* ---- a_real_fill / a_real_zero: the first n cells become v, the others are untouched *)
  Lemma fill_from_spec (n : nat) : forall (m : list T) (i : nat) (v : T), i + n <= length m ->
    exists m', fill_from n m i v = Some m' /\ agrees m' (length m) (fun k => if (i <=? k) && (k <? i + n) then v else nth k m d0).
  Proof.
    induction n as [|n IH]; intros m i v H.
    - exists m. split; [reflexivity|]. split; [reflexivity|]. intros k Hk.
      destruct (Nat.leb_spec i k); destruct (Nat.ltb_spec k (i + 0)); cbn [andb]; try reflexivity; lia.
    - cbn [fill_from]. destruct (upd_ok m i v) as (m1 & E1 & L1 & N1); [lia|]. rewrite E1. cbn [bind].
      destruct (IH m1 (S i) v) as (m' & E' & L' & N'); [lia|]. exists m'. split; [exact E'|]. split; [lia|].
      intros k Hk. rewrite N' by lia. rewrite N1.
      destruct (Nat.leb_spec (S i) k); destruct (Nat.ltb_spec k (S i + n)); destruct (Nat.leb_spec i k);
        destruct (Nat.ltb_spec k (i + S n)); destruct (Nat.eqb_spec k i); cbn [andb]; try reflexivity; lia.
  Qed.
  Theorem fill_spec (n : nat) (p : list T) (v : T) : n <= length p ->
    exists p', real_fill n p v = Some p' /\ agrees p' (length p) (fun k => if k <? n then v else nth k p d0).
  Proof.
    intros H. destruct (fill_from_spec n p 0 v) as (p' & E & L & N); [lia|]. exists p'. split; [exact E|]. split; [exact L|].
    intros k Hk. rewrite N by lia. cbn [Nat.leb andb Nat.add]. reflexivity.
  Qed.

  (* ---- push: shift by one towards the back / the front inside the first n cells *)
  Theorem push_fore_spec (p : list T) (n : nat) (x : T) : n <= length p ->
    exists p', real_push_fore p n x = Some p' /\
      agrees p' (length p) (fun k => if k <? n then (if k =? 0 then x else nth (k - 1) p d0) else nth k p d0).
  Proof.
    intros H. destruct n as [|n'].
    - exists p. split; [reflexivity|]. split; [reflexivity|]. intros; reflexivity.
    - cbn [real_push_fore]. destruct (sub_ok p 0 n') as (l & E & Ll & Nl); [lia|]. rewrite E. cbn [bind].
      destruct (blit_ok p 1 l) as (p1 & E1 & L1 & N1); [lia|]. rewrite E1. cbn [bind].
      destruct (upd_ok p1 0 x) as (p2 & E2 & L2 & N2); [lia|]. exists p2. split; [exact E2|]. split; [lia|].
      intros k Hk. rewrite N2, N1, Ll.
      destruct (Nat.eqb_spec k 0); destruct (Nat.ltb_spec k (S n')); destruct (Nat.leb_spec 1 k); destruct (Nat.ltb_spec k (1 + n'));
        cbn [andb]; try reflexivity; try lia. rewrite Nl by lia. reflexivity.
  Qed.
  Theorem push_back_spec (p : list T) (n : nat) (x : T) : n <= length p ->
    exists p', real_push_back p n x = Some p' /\
      agrees p' (length p) (fun k => if k <? n then (if k =? n - 1 then x else nth (k + 1) p d0) else nth k p d0).
  Proof.
    intros H. destruct n as [|n'].
    - exists p. split; [reflexivity|]. split; [reflexivity|]. intros; reflexivity.
    - cbn [real_push_back]. destruct (sub_ok p 1 n') as (l & E & Ll & Nl); [lia|]. rewrite E. cbn [bind].
      destruct (blit_ok p 0 l) as (p1 & E1 & L1 & N1); [lia|]. rewrite E1. cbn [bind].
      destruct (upd_ok p1 n' x) as (p2 & E2 & L2 & N2); [lia|]. exists p2. split; [exact E2|]. split; [lia|].
      intros k Hk. rewrite N2, N1, Ll. replace (S n' - 1) with n' by lia.
      destruct (Nat.eqb_spec k n'); destruct (Nat.ltb_spec k (S n')); destruct (Nat.leb_spec 0 k); destruct (Nat.ltb_spec k (0 + n'));
        cbn [andb]; try reflexivity; try lia. rewrite Nl by lia. f_equal. lia.
  Qed.

  (* ---- roll by one *)
  Theorem roll_fore_spec (p : list T) (n : nat) : n <= length p ->
    exists p', real_roll_fore p n = Some p' /\
      agrees p' (length p) (fun k => if k <? n then (if k =? n - 1 then nth 0 p d0 else nth (k + 1) p d0) else nth k p d0).
  Proof.
    intros H. destruct n as [|n'].
    - exists p. split; [reflexivity|]. split; [reflexivity|]. intros; reflexivity.
    - cbn [real_roll_fore]. rewrite (nth_error_nth' p d0) by lia. cbn [bind].
      destruct (sub_ok p 1 n') as (l & E & Ll & Nl); [lia|]. rewrite E. cbn [bind].
      destruct (blit_ok p 0 l) as (p1 & E1 & L1 & N1); [lia|]. rewrite E1. cbn [bind].
      destruct (upd_ok p1 n' (nth 0 p d0)) as (p2 & E2 & L2 & N2); [lia|]. exists p2. split; [exact E2|]. split; [lia|].
      intros k Hk. rewrite N2, N1, Ll. replace (S n' - 1) with n' by lia.
      destruct (Nat.eqb_spec k n'); destruct (Nat.ltb_spec k (S n')); destruct (Nat.leb_spec 0 k); destruct (Nat.ltb_spec k (0 + n'));
        cbn [andb]; try reflexivity; try lia. rewrite Nl by lia. f_equal. lia.
  Qed.
  Theorem roll_back_spec (p : list T) (n : nat) : n <= length p ->
    exists p', real_roll_back p n = Some p' /\
      agrees p' (length p) (fun k => if k <? n then (if k =? 0 then nth (n - 1) p d0 else nth (k - 1) p d0) else nth k p d0).
  Proof.
    intros H. destruct n as [|n'].
    - exists p. split; [reflexivity|]. split; [reflexivity|]. intros; reflexivity.
    - cbn [real_roll_back]. rewrite (nth_error_nth' p d0) by lia. cbn [bind].
      destruct (sub_ok p 0 n') as (l & E & Ll & Nl); [lia|]. rewrite E. cbn [bind].
      destruct (blit_ok p 1 l) as (p1 & E1 & L1 & N1); [lia|]. rewrite E1. cbn [bind].
      destruct (upd_ok p1 0 (nth n' p d0)) as (p2 & E2 & L2 & N2); [lia|]. exists p2. split; [exact E2|]. split; [lia|].
      intros k Hk. rewrite N2, N1, Ll. replace (S n' - 1) with n' by lia.
      destruct (Nat.eqb_spec k 0); destruct (Nat.ltb_spec k (S n')); destruct (Nat.leb_spec 1 k); destruct (Nat.ltb_spec k (1 + n'));
        cbn [andb]; try reflexivity; try lia. rewrite Nl by lia. reflexivity.
  Qed.

  (* ---- block push: the last min(cache_n, block_n) cache cells enter, the block shifts by that many *)
  Theorem push_fore__spec (block : list T) (bn : nat) (cache : list T) (cn : nat) : bn <= length block -> cn <= length cache ->
    let n := Nat.min cn bn in
    exists b', real_push_fore_ block bn cache cn = Some b' /\
      agrees b' (length block) (fun k => if k <? n then nth (cn - n + k) cache d0 else if k <? bn then nth (k - n) block d0 else nth k block d0).
  Proof.
    intros Hb Hc n. unfold real_push_fore_.
    replace (if cn <? bn then cn else bn) with n by (unfold n; destruct (Nat.ltb_spec cn bn); lia).
    destruct (Nat.eqb_spec n 0) as [Hn|Hn].
    - exists block. split; [reflexivity|]. split; [reflexivity|]. intros k Hk. rewrite Hn.
      destruct (Nat.ltb_spec k 0); [lia|]. destruct (Nat.ltb_spec k bn); [f_equal; lia|reflexivity].
    - assert (n <= bn /\ n <= cn) by (unfold n; lia).
      destruct (sub_ok block 0 (bn - n)) as (l & E & Ll & Nl); [lia|]. rewrite E. cbn [bind].
      destruct (blit_ok block n l) as (b1 & E1 & L1 & N1); [lia|]. rewrite E1. cbn [bind].
      destruct (sub_ok cache (cn - n) n) as (e & E2 & Le & Ne); [lia|]. rewrite E2. cbn [bind].
      destruct (blit_ok b1 0 e) as (b2 & E3 & L3 & N3); [lia|]. exists b2. split; [exact E3|]. split; [lia|].
      intros k Hk. rewrite N3, Le, N1, Ll.
      destruct (Nat.leb_spec 0 k); destruct (Nat.ltb_spec k (0 + n)); destruct (Nat.ltb_spec k n); destruct (Nat.leb_spec n k);
        destruct (Nat.ltb_spec k (n + (bn - n))); destruct (Nat.ltb_spec k bn); cbn [andb]; try reflexivity; try lia.
      + rewrite Ne by lia. f_equal. lia.
      + rewrite Nl by lia. reflexivity.
  Qed.
  Theorem push_back__spec (block : list T) (bn : nat) (cache : list T) (cn : nat) : bn <= length block -> cn <= length cache ->
    let n := Nat.min cn bn in
    exists b', real_push_back_ block bn cache cn = Some b' /\
      agrees b' (length block) (fun k => if k <? bn - n then nth (k + n) block d0 else if k <? bn then nth (cn - n + (k - (bn - n))) cache d0 else nth k block d0).
  Proof.
    intros Hb Hc n. unfold real_push_back_.
    replace (if cn <? bn then cn else bn) with n by (unfold n; destruct (Nat.ltb_spec cn bn); lia).
    destruct (Nat.eqb_spec n 0) as [Hn|Hn].
    - exists block. split; [reflexivity|]. split; [reflexivity|]. intros k Hk. rewrite Hn.
      destruct (Nat.ltb_spec k (bn - 0)); [f_equal; lia|]. destruct (Nat.ltb_spec k bn); [lia|reflexivity].
    - assert (n <= bn /\ n <= cn) by (unfold n; lia).
      destruct (sub_ok block n (bn - n)) as (l & E & Ll & Nl); [lia|]. rewrite E. cbn [bind].
      destruct (blit_ok block 0 l) as (b1 & E1 & L1 & N1); [lia|]. rewrite E1. cbn [bind].
      destruct (sub_ok cache (cn - n) n) as (e & E2 & Le & Ne); [lia|]. rewrite E2. cbn [bind].
      destruct (blit_ok b1 (bn - n) e) as (b2 & E3 & L3 & N3); [lia|]. exists b2. split; [exact E3|]. split; [lia|].
      intros k Hk. rewrite N3, Le, N1, Ll.
      destruct (Nat.leb_spec (bn - n) k); destruct (Nat.ltb_spec k (bn - n + n)); destruct (Nat.ltb_spec k (bn - n)); destruct (Nat.leb_spec 0 k);
        destruct (Nat.ltb_spec k (0 + (bn - n))); destruct (Nat.ltb_spec k bn); cbn [andb]; try reflexivity; try lia.
      + rewrite Ne by lia. reflexivity.
      + rewrite Nl by lia. f_equal. lia.
  Qed.

  (* ---- block roll: rotation by shift_n mod block_n inside the first block_n cells; an empty block is left alone
     (repaired: the unrepaired code divides by zero there) *)
  Theorem roll_fore__spec (block : list T) (bn : nat) (shift : list T) (sn : nat) :
    bn <= length block -> (bn = 0 \/ sn mod bn <= length shift) ->
    exists b' s', real_roll_fore_ block bn shift sn = Some (b', s') /\ length s' = length shift /\
      agrees b' (length block) (fun k => if k <? bn then nth ((k + sn mod bn) mod bn) block d0 else nth k block d0).
  Proof.
    intros Hb Hs. unfold real_roll_fore_. destruct (Nat.eqb_spec bn 0) as [->|Hn].
    - exists block, shift. split; [reflexivity|]. split; [reflexivity|]. split; [reflexivity|]. intros; reflexivity.
    - destruct Hs as [Hs|Hs]; [lia|]. set (s := sn mod bn) in *.
      assert (Hlt : s < bn) by (apply Nat.mod_upper_bound; lia).
      destruct (sub_ok block 0 s) as (l & E & Ll & Nl); [lia|]. rewrite E. cbn [bind].
      destruct (blit_ok shift 0 l) as (sh1 & E1 & L1 & N1); [lia|]. rewrite E1. cbn [bind].
      destruct (sub_ok block s (bn - s)) as (e & E2 & Le & Ne); [lia|]. rewrite E2. cbn [bind].
      destruct (blit_ok block 0 e) as (b1 & E3 & L3 & N3); [lia|]. rewrite E3. cbn [bind].
      destruct (sub_ok sh1 0 s) as (g & E4 & Lg & Ng); [lia|]. rewrite E4. cbn [bind].
      destruct (blit_ok b1 (bn - s) g) as (b2 & E5 & L5 & N5); [lia|]. rewrite E5. cbn [bind].
      exists b2, sh1. split; [reflexivity|]. split; [exact L1|]. split; [lia|].
      intros k Hk. rewrite N5, Lg, N3, Le.
      destruct (Nat.ltb_spec k bn).
      + destruct (Nat.ltb_spec k (bn - s)).
        * destruct (Nat.leb_spec (bn - s) k); [lia|]. cbn [andb]. destruct (Nat.leb_spec 0 k); [|lia].
          destruct (Nat.ltb_spec k (0 + (bn - s))); [|lia]. cbn [andb]. rewrite Ne by lia.
          rewrite (Nat.mod_small (k + s)) by lia. f_equal. lia.
        * destruct (Nat.leb_spec (bn - s) k); [|lia]. destruct (Nat.ltb_spec k (bn - s + s)); [|lia]. cbn [andb].
          rewrite Ng by lia. rewrite N1, Ll. cbn [Nat.leb Nat.add andb]. destruct (Nat.ltb_spec (k - (bn - s)) s); [|lia].
          rewrite Nat.sub_0_r. rewrite Nl by lia. f_equal.
          replace (k + s) with ((k - (bn - s)) + 1 * bn) by lia. rewrite Nat.mod_add by lia. rewrite Nat.mod_small; lia.
      + destruct (Nat.leb_spec (bn - s) k); destruct (Nat.ltb_spec k (bn - s + s)); cbn [andb]; try lia.
        destruct (Nat.leb_spec 0 k); destruct (Nat.ltb_spec k (0 + (bn - s))); cbn [andb]; try lia. reflexivity.
  Qed.
  Theorem roll_back__spec (block : list T) (bn : nat) (shift : list T) (sn : nat) :
    bn <= length block -> (bn = 0 \/ sn mod bn <= length shift) ->
    exists b' s', real_roll_back_ block bn shift sn = Some (b', s') /\ length s' = length shift /\
      agrees b' (length block) (fun k => if k <? bn then nth ((k + (bn - sn mod bn)) mod bn) block d0 else nth k block d0).
  Proof.
    intros Hb Hs. unfold real_roll_back_. destruct (Nat.eqb_spec bn 0) as [->|Hn].
    - exists block, shift. split; [reflexivity|]. split; [reflexivity|]. split; [reflexivity|]. intros; reflexivity.
    - destruct Hs as [Hs|Hs]; [lia|]. set (s := sn mod bn) in *.
      assert (Hlt : s < bn) by (apply Nat.mod_upper_bound; lia).
      destruct (sub_ok block (bn - s) s) as (l & E & Ll & Nl); [lia|]. rewrite E. cbn [bind].
      destruct (blit_ok shift 0 l) as (sh1 & E1 & L1 & N1); [lia|]. rewrite E1. cbn [bind].
      destruct (sub_ok block 0 (bn - s)) as (e & E2 & Le & Ne); [lia|]. rewrite E2. cbn [bind].
      destruct (blit_ok block s e) as (b1 & E3 & L3 & N3); [lia|]. rewrite E3. cbn [bind].
      destruct (sub_ok sh1 0 s) as (g & E4 & Lg & Ng); [lia|]. rewrite E4. cbn [bind].
      destruct (blit_ok b1 0 g) as (b2 & E5 & L5 & N5); [lia|]. rewrite E5. cbn [bind].
      exists b2, sh1. split; [reflexivity|]. split; [exact L1|]. split; [lia|].
      intros k Hk. rewrite N5, Lg, N3, Le. cbn [Nat.leb Nat.add andb].
      destruct (Nat.ltb_spec k bn).
      + destruct (Nat.ltb_spec k s).
        * rewrite Nat.sub_0_r. rewrite Ng by lia. rewrite N1, Ll. cbn [Nat.leb Nat.add andb]. destruct (Nat.ltb_spec k s); [|lia].
          rewrite Nat.sub_0_r. rewrite Nl by lia. f_equal. rewrite Nat.mod_small; lia.
        * destruct (Nat.leb_spec s k); [|lia]. destruct (Nat.ltb_spec k (s + (bn - s))); [|lia]. cbn [andb].
          rewrite Ne by lia. f_equal. cbn [Nat.add].
          replace (k + (bn - s)) with ((k - s) + 1 * bn) by lia. rewrite Nat.mod_add by lia. rewrite Nat.mod_small; lia.
      + destruct (Nat.ltb_spec k s); [lia|]. destruct (Nat.leb_spec s k); destruct (Nat.ltb_spec k (s + (bn - s))); cbn [andb]; try lia. reflexivity.
  Qed.
End Moves.

Theorem zero_spec (n : nat) (p : list R) : (n <= length p)%nat ->
  exists p', real_zero R_ops n p = Some p' /\ agrees 0%R p' (length p) (fun k => if (k <? n)%nat then 0%R else nth k p 0%R).
Proof. intros H. apply (fill_spec 0%R n p 0%R H). Qed.
