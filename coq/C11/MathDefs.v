(* C11 model: the real helpers of src/math.c in the FALLBACK configuration (every A_HAVE_* switch off, a_real = double),
   transcribed statement by statement and polymorphic over NumOps (R for the theorems, binary64 for the bit-exact run).
   libm calls made by the fallback bodies (log, exp, atan, sin, cos) are the oracle fields fn1; sqrt and fabs are the
   NumOps fields sqrt/abs (correctly rounded / exact in IEEE arithmetic).  C macros are written out as conditionals.
   The bodies modelled are the REPAIRED ones (proposed_fixes/C11-1..3.diff); the bodies of the unrepaired tree are kept
   at the end as *_unpatched, only to state what was wrong.   No proofs here. *)
From Coq Require Import ZArith List Bool Arith.
From LibaV Require Import Common.NumOps.
Import ListNotations.

Section Model.
  Context {T : Type} (O : NumOps T).
  Local Notation "x + y" := (add O x y) (at level 50, left associativity).
  Local Notation "x - y" := (sub O x y) (at level 50, left associativity).
  Local Notation "x * y" := (mul O x y) (at level 40, left associativity).
  Local Notation "x / y" := (div O x y) (at level 40, left associativity).
  Local Notation "x <? y" := (ltb O x y) (at level 70).
  Local Notation "x >? y" := (gtb O x y) (at level 70).
  Local Notation "x <=? y" := (leb O x y) (at level 70).
  Local Notation "x >=? y" := (geb O x y) (at level 70).
  Local Notation "x == y" := (eqb O x y) (at level 70).
  Local Notation "# z" := (ofZ O z%Z) (at level 0, z at level 0).
  Local Notation "- x" := (opp O x) (at level 35, right associativity).

  (* ------------------------------------------------------------ constants (exact values of the C double literals) *)
  Definition c_ln2 : T := ofD O 6243314768165359 (-53).       (* A_REAL_LN2   0.693147180559945309417  = 0x1.62e42fefa39efp-1 *)
  Definition c_pi : T := ofD O 884279719003555 (-48).         (* A_REAL_PI    3.14159265358979323846   = 0x1.921fb54442d18p+1 *)
  Definition c_pi_2 : T := ofD O 884279719003555 (-49).       (* A_REAL_PI_2  1.57079632679489661923   = 0x1.921fb54442d18p+0 *)
  Definition c_sqrt_eps : T := ofD O 1 (-26).                 (* A_REAL_SQRT_EPSILON 1.4901161193847656e-8 = 2^-26 *)
  Definition c_eps : T := ofD O 1 (-52).                      (* A_REAL_EPSILON = DBL_EPSILON = 2^-52 *)
  Definition c_half : T := ofD O 1 (-1).                      (* A_REAL_C(0.5) *)
  Definition c_rad2deg : T := ofD O 1007958012753983 (-44).   (* A_REAL_RAD2DEG 57.2957795130823208768 *)
  Definition c_deg2rad : T := ofD O 5030569068109113 (-58).   (* A_REAL_DEG2RAD 0.01745329251994329576924 *)
  (* A_REAL_INF / A_REAL_NAN (= 0.0 * inf).  In binary64 these are +inf and NaN.  Over R the terms are meaningless
     (1/0 = 0 there); every theorem is stated on the domain where the branch returning them is not taken. *)
  Definition c_inf : T := #1 / #0.
  Definition c_nan : T := #0 * c_inf.
  (* isnan(x), isinf(x).  isinf is written the way math.c's own pre-C99 macro writes it, ((x)+(x)==(x) && (x)!=0): true
     exactly for +-inf in binary64, and false for every real number. *)
  Definition isnan (x : T) : bool := negb (x == x).
  Definition isinf (x : T) : bool := (x + x == x) && negb (x == #0).

  Definition flog := fn1 O Log.
  Definition fexp := fn1 O Exp.
  Definition fatan := fn1 O Atan.
  Definition fsin := fn1 O Sin.
  Definition fcos := fn1 O Cos.

  (* ------------------------------------------------------------ a_real_log1p (fallback, repaired) *)
  (* a_real volatile a = x + 1; y = log(a); if (a > 0 && !isinf(a)) { a_real volatile b = a - 1; y -= (b - x) / a; } return y; *)
  Definition real_log1p (x : T) : T :=
    let a := x + #1 in
    let y := flog a in
    if (a >? #0) && negb (isinf a) then
      let b := a - #1 in
      y - (b - x) / a
    else y.

  (* ------------------------------------------------------------ a_real_asinh *)
  Definition real_asinh (x : T) : T :=
    let a := abs O x in
    let s := if x <? #0 then #(-1) else #1 in
    if a >? #1 / c_sqrt_eps then s * (flog a + c_ln2)
    else if a >? #2 then s * flog (#1 / (sqrt O (a * a + #1) + a) + a * #2)
    else if a >? c_sqrt_eps then
      let aa := a * a in
      s * real_log1p (aa / (sqrt O (aa + #1) + #1) + a)
    else x.

  (* ------------------------------------------------------------ a_real_acosh *)
  Definition real_acosh (x : T) : T :=
    if x >? #1 / c_sqrt_eps then flog x + c_ln2
    else if x >? #2 then flog (#(-1) / (sqrt O (x * x - #1) + x) + x * #2)
    else if x >? #1 then
      let t := x - #1 in
      real_log1p (sqrt O (t * t + t * #2) + t)
    else if x == #1 then #0
    else c_nan.

  (* ------------------------------------------------------------ a_real_atanh *)
  Definition real_atanh (x : T) : T :=
    let a := abs O x in
    let s := if x <? #0 then - c_half else c_half in
    if a >? #1 then c_nan
    else if a == #1 then (if x <? #0 then - c_inf else c_inf)
    else if a >=? c_half then s * real_log1p ((a + a) / (#1 - a))
    else if a >? c_eps then s * real_log1p ((a + a) * (a / (#1 - a) + #1))
    else x.

  (* ------------------------------------------------------------ a_real_expm1 *)
  (* polevl(p, n, x): y = *p++; do { y = y * x + *p++; } while (--n);   with n = A_LEN(p) - 1 *)
  Definition polevl (p : list T) (x : T) : T :=
    match p with
    | [] => #0
    | h :: t => fold_left (fun y c => y * x + c) t h
    end.
  Definition expm1_P : list T :=
    [ ofD O 581889597147517 (-62);      (* 1.2617719307481059087798E-4 *)
      ofD O 4366609605269055 (-57);     (* 3.0299440770744196129956E-2 *)
      ofD O 1 0 ].                      (* 9.9999999999999999991025E-1 rounds to 1 in binary64 *)
  Definition expm1_Q : list T :=
    [ ofD O 221507399824125 (-66);      (* 3.0019850513866445504159E-6 *)
      ofD O 90954100122331 (-55);       (* 2.5244834034968410419224E-3 *)
      ofD O 2047026076448797 (-53);     (* 2.2726554820815502876593E-1 *)
      ofD O 1 1 ].                      (* 2.0000000000000000000897E-0 rounds to 2 in binary64 *)
  (* the rational approximation used on [-1/2, 1/2] *)
  Definition expm1_rat (x : T) : T :=
    let xx := x * x in
    let y := polevl expm1_P xx * x in
    let y := y / (polevl expm1_Q xx - y) in
    y + y.
  Definition real_expm1 (x : T) : T :=
    if isnan x then x
    else if isinf x then (if x >? #0 then x else #(-1))
    else if (x <? - c_half) || (x >? c_half) then fexp x - #1
    else expm1_rat x.

  (* ------------------------------------------------------------ a_real_atan2 (fallback, repaired: +-PI_2 on the y axis) *)
  Definition real_atan2 (y x : T) : T :=
    if x >? #0 then fatan (y / x)
    else if x <? #0 then
      let r := fatan (y / x) in
      if y >=? #0 then r + c_pi else r - c_pi
    else if y >? #0 then c_pi_2
    else if y <? #0 then - c_pi_2
    else #0.

  (* ------------------------------------------------------------ a_real_norm2 / a_real_norm3 *)
  Definition real_norm2 (x y : T) : T :=
    let x := abs O x in
    if isinf x then c_inf else
    let y := abs O y in
    if isinf y then c_inf else
    let xy := if x >? y then (y, x) else (x, y) in
    let x := fst xy in let y := snd xy in
    if y == #0 then #0 else
    let x := x / y in
    sqrt O (x * x + #1) * y.

  Definition real_norm3 (x y z : T) : T :=
    let x := abs O x in
    if isinf x then c_inf else
    let y := abs O y in
    if isinf y then c_inf else
    let z := abs O z in
    if isinf z then c_inf else
    let xy := if x >? y then (y, x) else (x, y) in
    let x := fst xy in let y := snd xy in
    let yz := if y >? z then (z, y) else (y, z) in
    let y := fst yz in let z := snd yz in
    if z == #0 then #0 else
    let x := x / z in
    let y := y / z in
    sqrt O (x * x + y * y + #1) * z.

  (* ------------------------------------------------------------ strided reads *)
  (* the cells p[i], p[i+c], ..., p[i+(n-1)c]; None if one of them lies outside the array (undefined in C) *)
  Fixpoint strided (n : nat) (p : list T) (i c : nat) : option (list T) :=
    match n with
    | 0%nat => Some []
    | S n' =>
        match nth_error p i with
        | None => None
        | Some v => match strided n' p (i + c) c with
                    | None => None
                    | Some l => Some (v :: l)
                    end
        end
    end.

  (* ------------------------------------------------------------ a_real_norm / a_real_norm_ *)
  (* first loop: largest |p[i]|; None = an infinite component was met (return A_REAL_INF) *)
  Fixpoint norm_scan (cells : list T) (w : T) : option T :=
    match cells with
    | [] => Some w
    | p :: r => let x := abs O p in
                if isinf x then None else norm_scan r (if x >? w then x else w)
    end.
  Definition norm_cells (cells : list T) : T :=
    match norm_scan cells #0 with
    | None => c_inf
    | Some w =>
        if w <=? #0 then #0 else
        sqrt O (fold_left (fun s p => let x := p / w in s + x * x) cells #0) * w
    end.
  Definition real_norm (n : nat) (p : list T) : option T := option_map norm_cells (strided n p 0 1).
  (* for (i = 0; i < n * c; i += c): with c = 0 neither loop runs, w stays 0 and 0 is returned.
     (n * c and i + c are assumed not to wrap around 2^64.) *)
  Definition real_norm_ (n : nat) (p : list T) (c : nat) : option T :=
    if (c =? 0)%nat then Some #0 else option_map norm_cells (strided n p 0 c).

  (* ------------------------------------------------------------ reductions *)
  (* #define A_ABS(x) ((x) < 0 ? -(x) : (x))  - not fabs *)
  Definition c_abs (x : T) : T := if x <? #0 then - x else x.
  Definition red (f : T -> T -> T) (n : nat) (p : list T) (c : nat) : option T :=
    option_map (fun cells => fold_left f cells #0) (strided n p 0 c).
  Definition real_sum (n : nat) (p : list T) := red (fun r v => r + v) n p 1.
  Definition real_sum_ (n : nat) (p : list T) (c : nat) := red (fun r v => r + v) n p c.
  Definition real_sum1 (n : nat) (p : list T) := red (fun r v => r + c_abs v) n p 1.
  Definition real_sum1_ (n : nat) (p : list T) (c : nat) := red (fun r v => r + c_abs v) n p c.
  Definition real_sum2 (n : nat) (p : list T) := red (fun r v => r + v * v) n p 1.
  Definition real_sum2_ (n : nat) (p : list T) (c : nat) := red (fun r v => r + v * v) n p c.
  (* a_real const i = 1 / (a_real)n; r += *p * i *)
  Definition real_mean_ (n : nat) (p : list T) (c : nat) :=
    let i := #1 / ofZ O (Z.of_nat n) in red (fun r v => r + v * i) n p c.
  Definition real_mean (n : nat) (p : list T) := real_mean_ n p 1.
  Definition real_dot_ (n : nat) (X : list T) (Xc : nat) (Y : list T) (Yc : nat) : option T :=
    match strided n X 0 Xc, strided n Y 0 Yc with
    | Some xs, Some ys => Some (fold_left (fun r xy => r + fst xy * snd xy) (combine xs ys) #0)
    | _, _ => None
    end.
  Definition real_dot (n : nat) (X Y : list T) := real_dot_ n X 1 Y 1.

  (* ------------------------------------------------------------ memory helpers (bounds-checked) *)
  Definition bind {A B} (o : option A) (f : A -> option B) : option B := match o with Some a => f a | None => None end.
  Definition upd (m : list T) (i : nat) (v : T) : option (list T) :=
    if (i <? length m)%nat then Some (firstn i m ++ v :: skipn (S i) m) else None.
  (* the len cells starting at off *)
  Definition sub_ (m : list T) (off len : nat) : option (list T) :=
    if (off + len <=? length m)%nat then Some (firstn len (skipn off m)) else None.
  (* overwrite the cells starting at off with d *)
  Definition blit (m : list T) (off : nat) (d : list T) : option (list T) :=
    if (off + length d <=? length m)%nat then Some (firstn off m ++ d ++ skipn (off + length d) m) else None.

  (* ------------------------------------------------------------ copy / swap / fill / zero *)
  (* One memory m; d, s (l, r) are the offsets of the two array arguments in it, so that overlapping arguments of
     the strided forms are modelled too.  a_real_copy is memcpy (restrict): all cells are read before any is written. *)
  Definition real_copy (n : nat) (m : list T) (d s : nat) : option (list T) := bind (sub_ m s n) (blit m d).
  (* for (; n; --n, dst += dc, src += sc) { *dst = *src; } *)
  Fixpoint real_copy_ (n : nat) (m : list T) (d dc s sc : nat) : option (list T) :=
    match n with
    | 0%nat => Some m
    | S n' => bind (nth_error m s) (fun v => bind (upd m d v) (fun m' => real_copy_ n' m' (d + dc) dc (s + sc) sc))
    end.
  (* swap = *lhs; *lhs = *rhs; *rhs = swap; *)
  Fixpoint real_swap_ (n : nat) (m : list T) (l lc r rc : nat) : option (list T) :=
    match n with
    | 0%nat => Some m
    | S n' =>
        bind (nth_error m l) (fun sw =>
        bind (nth_error m r) (fun vr =>
        bind (upd m l vr) (fun m1 =>
        bind (upd m1 r sw) (fun m2 => real_swap_ n' m2 (l + lc) lc (r + rc) rc))))
    end.
  Definition real_swap (n : nat) (m : list T) (l r : nat) : option (list T) := real_swap_ n m l 1 r 1.
  Fixpoint fill_from (n : nat) (m : list T) (i : nat) (v : T) : option (list T) :=
    match n with
    | 0%nat => Some m
    | S n' => bind (upd m i v) (fun m' => fill_from n' m' (S i) v)
    end.
  Definition real_fill (n : nat) (p : list T) (v : T) := fill_from n p 0 v.
  Definition real_zero (n : nat) (p : list T) := fill_from n p 0 #0.

  (* ------------------------------------------------------------ push / roll (memmove = read all, then write) *)
  (* if (n--) { a_move(p + 1, p, n); p[0] = x; } *)
  Definition real_push_fore (p : list T) (n : nat) (x : T) : option (list T) :=
    match n with
    | 0%nat => Some p
    | S n' => bind (sub_ p 0 n') (fun d => bind (blit p 1 d) (fun p1 => upd p1 0 x))
    end.
  (* if (n--) { a_move(p, p + 1, n); p[n] = x; } *)
  Definition real_push_back (p : list T) (n : nat) (x : T) : option (list T) :=
    match n with
    | 0%nat => Some p
    | S n' => bind (sub_ p 1 n') (fun d => bind (blit p 0 d) (fun p1 => upd p1 n' x))
    end.
  (* n = A_MIN(cache_n, block_n); if (n) { m = block_n - n; cache_p += cache_n - n;
     a_move(block_p + n, block_p, m); a_copy(block_p, cache_p, n); } *)
  Definition real_push_fore_ (block : list T) (block_n : nat) (cache : list T) (cache_n : nat) : option (list T) :=
    let n := if (cache_n <? block_n)%nat then cache_n else block_n in
    if (n =? 0)%nat then Some block else
    let m := (block_n - n)%nat in
    bind (sub_ block 0 m) (fun d => bind (blit block n d) (fun b1 =>
    bind (sub_ cache (cache_n - n) n) (fun e => blit b1 0 e))).
  (* ... a_move(block_p, block_p + n, m); a_copy(block_p + m, cache_p, n); *)
  Definition real_push_back_ (block : list T) (block_n : nat) (cache : list T) (cache_n : nat) : option (list T) :=
    let n := if (cache_n <? block_n)%nat then cache_n else block_n in
    if (n =? 0)%nat then Some block else
    let m := (block_n - n)%nat in
    bind (sub_ block n m) (fun d => bind (blit block 0 d) (fun b1 =>
    bind (sub_ cache (cache_n - n) n) (fun e => blit b1 m e))).
  (* if (n--) { x = p[0]; a_move(p, p + 1, n); p[n] = x; } *)
  Definition real_roll_fore (p : list T) (n : nat) : option (list T) :=
    match n with
    | 0%nat => Some p
    | S n' => bind (nth_error p 0) (fun x => bind (sub_ p 1 n') (fun d => bind (blit p 0 d) (fun p1 => upd p1 n' x)))
    end.
  (* if (n--) { x = p[n]; a_move(p + 1, p, n); p[0] = x; } *)
  Definition real_roll_back (p : list T) (n : nat) : option (list T) :=
    match n with
    | 0%nat => Some p
    | S n' => bind (nth_error p n') (fun x => bind (sub_ p 0 n') (fun d => bind (blit p 1 d) (fun p1 => upd p1 0 x)))
    end.
  (* (repaired: if (!block_n) return;)  shift_n %= block_n; block_n -= shift_n; a_copy(shift_p, block_p, shift_n);
     a_move(block_p, block_p + shift_n, block_n); a_copy(block_p + block_n, shift_p, shift_n);
     result: (block, shift buffer) *)
  Definition real_roll_fore_ (block : list T) (block_n : nat) (shift : list T) (shift_n : nat) : option (list T * list T) :=
    if (block_n =? 0)%nat then Some (block, shift) else
    let sn := (shift_n mod block_n)%nat in
    let bn := (block_n - sn)%nat in
    bind (sub_ block 0 sn) (fun d => bind (blit shift 0 d) (fun sh1 =>
    bind (sub_ block sn bn) (fun e => bind (blit block 0 e) (fun b1 =>
    bind (sub_ sh1 0 sn) (fun g => bind (blit b1 bn g) (fun b2 => Some (b2, sh1))))))).
  (* a_copy(shift_p, block_p + block_n, shift_n); a_move(block_p + shift_n, block_p, block_n); a_copy(block_p, shift_p, shift_n); *)
  Definition real_roll_back_ (block : list T) (block_n : nat) (shift : list T) (shift_n : nat) : option (list T * list T) :=
    if (block_n =? 0)%nat then Some (block, shift) else
    let sn := (shift_n mod block_n)%nat in
    let bn := (block_n - sn)%nat in
    bind (sub_ block bn sn) (fun d => bind (blit shift 0 d) (fun sh1 =>
    bind (sub_ block 0 bn) (fun e => bind (blit block sn e) (fun b1 =>
    bind (sub_ sh1 0 sn) (fun g => bind (blit b1 0 g) (fun b2 => Some (b2, sh1))))))).

  (* ------------------------------------------------------------ coordinate conversions (a_real_hypot = a_real_norm2) *)
  Definition real_rad2deg (x : T) : T := x * c_rad2deg.
  Definition real_deg2rad (x : T) : T := x * c_deg2rad.
  Definition real_cart2pol (x y : T) : T * T := (real_norm2 x y, real_atan2 y x).
  Definition real_pol2cart (rho theta : T) : T * T := (rho * fcos theta, rho * fsin theta).
  Definition real_cart2sph (x y z : T) : T * T * T :=
    let r := real_norm2 x y in
    (real_norm2 r z, real_atan2 y x, real_atan2 z r).
  Definition real_sph2cart (rho theta alpha : T) : T * T * T :=
    let c := rho * fcos alpha in
    let s := rho * fsin alpha in
    (c * fcos theta, c * fsin theta, s).

  (* ------------------------------------------------------------ the bodies of the unrepaired tree (findings) *)
  (* if (y > 0) { return +A_REAL_PI; } if (y < 0) { return -A_REAL_PI; } *)
  Definition real_atan2_unpatched (y x : T) : T :=
    if x >? #0 then fatan (y / x)
    else if x <? #0 then
      let r := fatan (y / x) in
      if y >=? #0 then r + c_pi else r - c_pi
    else if y >? #0 then c_pi
    else if y <? #0 then - c_pi
    else #0.
  (* if (x < A_REAL_EPSILON && a > 0): the compensation is skipped for every x >= 2^-52 *)
  Definition real_log1p_unpatched (x : T) : T :=
    let a := x + #1 in
    let y := flog a in
    if (x <? c_eps) && (a >? #0) then
      let b := a - #1 in
      y - (b - x) / a
    else y.
End Model.
