(* C11: non-vacuity.  Every hypothesis of the property theorems is met by concrete, non-trivial data. *)
From Coq Require Import Reals Lra Lia List ZArith Bool Arith.
From Interval Require Import Tactic.
From LibaV Require Import Common.NumOps Common.ROps C11.MathDefs C11.HypProofs C11.GeomProofs C11.Expm1Proofs C11.ListProofs C11.Defined.
Import ListNotations.
Local Open Scope R_scope.

Lemma abs3 : Rabs 3 = 3. Proof. apply Rabs_right; lra. Qed.
Example ex_asinh_mid_log : / 67108864 < Rabs 3 <= 67108864 /\ 2 < Rabs 3.          (* the log branch *)
Proof. rewrite abs3. lra. Qed.
Example ex_asinh_mid_log1p : / 67108864 < Rabs (-1) <= 67108864 /\ Rabs (-1) <= 2.  (* the log1p branch, negative argument *)
Proof. rewrite Rabs_left by lra. lra. Qed.
Example ex_asinh_large : 67108864 < Rabs (-100000000).
Proof. rewrite Rabs_left by lra. lra. Qed.
Example ex_asinh_small : Rabs (/ 100000000) <= / 67108864 /\ / 100000000 <> 0.
Proof. rewrite Rabs_right by lra. lra. Qed.
Example ex_acosh : 1 <= 1 <= 67108864 /\ 1 <= 3 / 2 <= 67108864 /\ 1 <= 5 <= 67108864 /\ 67108864 < 100000000.
Proof. lra. Qed.
Example ex_atanh : / 4503599627370496 < Rabs (3 / 4) < 1 /\ / 4503599627370496 < Rabs (- / 8) < 1 /\
                   Rabs (/ 10000000000000000) <= / 4503599627370496.
Proof. rewrite (Rabs_right (3 / 4)), (Rabs_left (- / 8)), (Rabs_right (/ 10000000000000000)) by lra. lra. Qed.
Example ex_expm1 : -1/2 <= / 4 <= 1/2 /\ -1/2 <= - / 1000000000 <= 1/2 /\ (1 / 2 < 3).
Proof. lra. Qed.
(* atan2: one point in each of the eight regions, with the value the model returns there *)
Example ex_atan2_axes :
  real_atan2 R_ops 0 1 = 0 /\ real_atan2 R_ops 1 0 = c_pi_2 R_ops /\ real_atan2 R_ops (-1) 0 = - c_pi_2 R_ops /\
  real_atan2 R_ops 0 (-1) = c_pi R_ops /\ real_atan2 R_ops 1 1 = PI / 4 /\ real_atan2 R_ops (-1) (-1) = PI / 4 - c_pi R_ops.
Proof.
  unfold real_atan2. uo.
  repeat match goal with |- context [Rltb ?a ?b] => destruct (Rltb_spec a b); try lra end;
  repeat match goal with |- context [Rleb ?a ?b] => destruct (Rleb_spec a b); try lra end.
  replace (0 / 1) with 0 by field. replace (0 / -1) with 0 by field. replace (1 / 1) with 1 by field. replace (-1 / -1) with 1 by field.
  rewrite atan_0, atan_1. repeat split; ring.
Qed.
Example ex_polar : polar_angle (-1) 0 PI /\ polar_angle 0 2 (PI / 2).
Proof.
  split; [|apply angle_up; lra]. pose proof PI_RGT_0. unfold polar_angle. rewrite cos_PI, sin_PI.
  replace (-1 * -1 + 0 * 0) with 1 by ring. rewrite sqrt_1. repeat split; lra.
Qed.
Example ex_norm2 : real_norm2 R_ops 3 (-4) = 5.
Proof. rewrite norm2_spec. replace (3 * 3 + -4 * -4) with (5 * 5) by ring. apply sqrt_square. lra. Qed.
Example ex_norm3 : real_norm3 R_ops 2 (-3) 6 = 7.
Proof. rewrite norm3_spec. replace (2 * 2 + -3 * -3 + 6 * 6) with (7 * 7) by ring. apply sqrt_square. lra. Qed.

(* arrays: counts, strides and offsets that satisfy the hypotheses, and what the model computes there *)
Example ex_in_bounds : in_bounds 3 [1; 2; 3; 4; 5] 0 2 /\ ~ in_bounds 3 [1; 2; 3; 4] 0 2 /\ in_bounds 0 (@nil R) 0 7.
Proof. unfold in_bounds. cbn [length]. repeat split; try lia. Qed.
Example ex_sum : real_sum_ R_ops 3 [1; 2; 3; 4; 5] 2 = Some (0 + 1 + 3 + 5) /\ real_sum_ R_ops 3 [1; 2; 3; 4] 2 = None.
Proof. split; reflexivity. Qed.
Example ex_norm_vec : real_norm_ R_ops 2 [3; 9; 4] 2 = Some 5.
Proof.
  destruct (norm_spec 2 [3; 9; 4] 2) as [A _]; [lia|]. rewrite A by (right; cbn; lia). f_equal.
  unfold sumsq, cells. cbn [seq map rsum fold_right nth Nat.add Nat.mul]. replace (3 * 3 + (4 * 4 + 0)) with (5 * 5) by ring. apply sqrt_square. lra.
Qed.
Example ex_copy_ : real_copy_ 2 [1; 2; 3; 4; 5] 0 2 1 2 = Some [2; 2; 4; 4; 5].         (* even cells <- odd cells *)
Proof. reflexivity. Qed.
Example ex_copy__hyp : (1 <= 2)%nat /\ (0 + (2 - 1) * 2 < 5 /\ 1 + (2 - 1) * 2 < 5)%nat /\
                       (forall i j, (i < 2 -> j < 2 -> 0 + i * 2 <> 1 + j * 2)%nat).
Proof. repeat split; try lia. Qed.
Example ex_swap_ : real_swap_ 2 [1; 2; 3; 4; 5] 0 2 1 2 = Some [2; 1; 4; 3; 5].
Proof. reflexivity. Qed.
Example ex_push : real_push_fore [1; 2; 3; 4] 3 9 = Some [9; 1; 2; 4] /\ real_push_back [1; 2; 3; 4] 3 9 = Some [2; 3; 9; 4] /\
                  real_push_fore [1; 2] 3 9 = None.
Proof. repeat split; reflexivity. Qed.
Example ex_push_ : real_push_fore_ [1; 2; 3; 4; 5] 4 [7; 8; 9] 3 = Some [7; 8; 9; 1; 5] /\
                   real_push_back_ [1; 2; 3; 4; 5] 4 [7; 8; 9] 2 = Some [3; 4; 7; 8; 5] /\
                   real_push_fore_ [1; 2] 2 [6; 7; 8; 9] 4 = Some [8; 9].
Proof. repeat split; reflexivity. Qed.
Example ex_roll : real_roll_fore [1; 2; 3; 4] 3 = Some [2; 3; 1; 4] /\ real_roll_back [1; 2; 3; 4] 3 = Some [3; 1; 2; 4] /\
                  real_roll_fore_ [1; 2; 3; 4; 5] 4 [0; 0; 0] 7 = Some ([4; 1; 2; 3; 5], [1; 2; 3]) /\
                  real_roll_back_ [1; 2; 3; 4; 5] 4 [0; 0; 0] 1 = Some ([4; 1; 2; 3; 5], [4; 0; 0]) /\
                  real_roll_fore_ [1; 2] 0 [0] 3 = Some ([1; 2], [0]).
Proof. repeat split; reflexivity. Qed.

(* hypotheses of the scaling / definedness / round-trip theorems *)
Example ex_scaling_hyp : 0 < Rmax (Rabs 3) (Rabs (-4)) /\ 0 < Rmax (Rmax (Rabs 2) (Rabs (-3))) (Rabs 6) /\ 0 < maxabs [3; -4; 0] 0.
Proof.
  unfold maxabs. cbn [fold_left]. rewrite abs3, Rabs_R0, (Rabs_left (-4)), (Rabs_left (-3)), (Rabs_right 2), (Rabs_right 6) by lra.
  unfold Rmax. repeat destruct Rle_dec; lra.
Qed.
Example ex_scaling_val : real_norm2 R_ops 3 (-4) = R_sqrt.sqrt (3 / 4 * (3 / 4) + 1) * 4.
Proof.
  rewrite ex_norm2. replace (3 / 4 * (3 / 4) + 1) with ((5 / 4) * (5 / 4)) by field. rewrite sqrt_square by lra. field.
Qed.
Example ex_roundtrip_hyp : (-1 <> 0 \/ 0 <> 0) /\ (0 <> 0 \/ 2 <> 0).
Proof. split; [left|right]; lra. Qed.
Example ex_defined_hyp : -1 < - / 2 /\ 1 <= 1 /\ -1 < 3 / 4 < 1.
Proof. lra. Qed.
Example ex_oob_hyp : (length [1; 2] < 3)%nat.
Proof. cbn. lia. Qed.
