(* C11: the clauses of the property, one lemma per theorem of Properties_C11.v (conjunctions of the results proved in
   HypProofs / GeomProofs / Expm1Proofs / ListProofs / RangeProofs / Defined).  Grouped per function family so that the
   number of Print Assumptions runs (several seconds each once Interval is among the dependencies) stays small. *)
From Coq Require Import Reals Lra Lia List ZArith Bool Arith.
From LibaV Require Import Common.NumOps Common.ROps C11.MathDefs
  C11.HypProofs C11.GeomProofs C11.Expm1Proofs C11.ListProofs C11.RangeProofs C11.Defined.
Import ListNotations.
Local Open Scope R_scope.
Local Notation sqrt := R_sqrt.sqrt.

Lemma clause_asinh :
  (forall x, / 67108864 < Rabs x <= 67108864 -> real_asinh R_ops x = arcsinh x) /\
  (forall x, 67108864 < Rabs x -> Rabs (real_asinh R_ops x - arcsinh x) <= / 9007199254740992) /\
  (forall x, Rabs x <= / 67108864 -> real_asinh R_ops x = x /\ Rabs (x - arcsinh x) <= Rabs x * / 27021597764222976) /\
  (forall x, Rabs (real_asinh R_ops x - arcsinh x) <= / 9007199254740992 * Rabs (arcsinh x)).
Proof. exact (conj asinh_mid (conj asinh_large (conj asinh_small asinh_all))). Qed.

Lemma clause_acosh :
  (forall x, 1 <= x -> cosh (arccosh x) = x /\ 0 <= arccosh x) /\
  (forall x, 1 <= x <= 67108864 -> real_acosh R_ops x = arccosh x) /\
  (forall x, 67108864 < x -> Rabs (real_acosh R_ops x - arccosh x) <= / 2251799813685248) /\
  (forall x, 1 <= x -> Rabs (real_acosh R_ops x - arccosh x) <= / 9007199254740992 * Rabs (arccosh x)).
Proof. exact (conj arccosh_inverse (conj acosh_mid (conj acosh_large acosh_all))). Qed.

Lemma clause_atanh :
  (forall x, -1 < x < 1 -> tanh (arctanh x) = x) /\
  (forall x, / 4503599627370496 < Rabs x < 1 -> real_atanh R_ops x = arctanh x) /\
  (forall x, Rabs x <= / 4503599627370496 ->
     real_atanh R_ops x = x /\ Rabs (x - arctanh x) <= Rabs x * / 20282409603651670423947251286016) /\
  (forall x, Rabs x < 1 -> Rabs (real_atanh R_ops x - arctanh x) <= / 9007199254740992 * Rabs (arctanh x)).
Proof. exact (conj tanh_arctanh (conj atanh_mid (conj atanh_small atanh_all))). Qed.

Lemma clause_expm1 :
  (forall x, (x < -1/2 \/ 1/2 < x -> real_expm1 R_ops x = exp x - 1) /\
             (-1/2 <= x <= 1/2 -> real_expm1 R_ops x = expm1_rat R_ops x)) /\
  (forall x, -1/2 <= x <= 1/2 -> Rabs (expm1_rat R_ops x - (exp x - 1)) <= 1 / 1000000000000000000) /\
  (forall x, -1/2 <= x <= 1/2 -> Rabs (expm1_rat R_ops x - (exp x - 1)) <= / 9007199254740992 * Rabs (exp x - 1)) /\
  (forall x, Rabs (real_expm1 R_ops x - (exp x - 1)) <= / 9007199254740992 * Rabs (exp x - 1)) /\
  (forall x, -1/2 <= x <= 1/2 -> 1 <= polevl R_ops (expm1_Q R_ops) (x * x) - polevl R_ops (expm1_P R_ops) (x * x) * x) /\
  (forall p x, real_expm1 (Rp_ops p) x = real_expm1 R_ops x).
Proof. exact (conj expm1_spec (conj expm1_rat_abs (conj expm1_rat_relative (conj expm1_all (conj expm1_rat_divisor expm1_defined))))). Qed.

Lemma clause_atan2 :
  (forall x y, x <> 0 \/ y <> 0 ->
     exists theta, polar_angle x y theta /\ Rabs (real_atan2 R_ops y x - theta) <= Rabs (c_pi R_ops - PI)) /\
  (Rabs (c_pi R_ops - PI) <= / 4503599627370496 /\ c_pi_2 R_ops = c_pi R_ops / 2) /\
  real_atan2 R_ops 0 0 = 0 /\
  (forall x y, - PI < real_atan2 R_ops y x <= PI) /\
  (forall x, Rabs (real_rad2deg R_ops x - x * (180 / PI)) <= / 9007199254740992 * Rabs (x * (180 / PI))) /\
  (forall x, Rabs (real_deg2rad R_ops x - x * (PI / 180)) <= / 9007199254740992 * Rabs (x * (PI / 180))).
Proof. exact (conj atan2_angle (conj (conj c_pi_close c_pi_2_half) (conj atan2_origin (conj atan2_range (conj rad2deg_spec deg2rad_spec))))). Qed.

(* the body before fix 4df114e: at (x, y) = (0, 1) the polar angle is PI/2 <= 2, the body returned the double PI > 3.
   (no interval arithmetic here: exact value of the literal, and PI <= 4 from the standard library) *)
Lemma clause_atan2_unpatched :
  exists x y theta, polar_angle x y theta /\ theta <= 2 /\ 3 < real_atan2_unpatched R_ops y x.
Proof.
  exists 0, 1, (PI / 2). split; [apply angle_up; lra|]. split; [pose proof PI_4; lra|].
  unfold real_atan2_unpatched. uo. destruct (Rltb_spec 0 0); [lra|]. destruct (Rltb_spec 0 1); [|lra].
  unfold c_pi. cbn [ofD R_ops]. unfold powerRZ. simpl. lra.
Qed.

Lemma clause_norm23 :
  (forall x y, real_norm2 R_ops x y = sqrt (x * x + y * y)) /\
  (forall x y z, real_norm3 R_ops x y z = sqrt (x * x + y * y + z * z)).
Proof. exact (conj norm2_spec norm3_spec). Qed.

Lemma clause_norm :
  (forall (n : nat) (p : list R) (c : nat), (1 <= c)%nat ->
     (in_bounds n p 0 c -> real_norm_ R_ops n p c = Some (sqrt (sumsq (cells 0 n p 0 c)))) /\
     (~ in_bounds n p 0 c -> real_norm_ R_ops n p c = None) /\
     real_norm R_ops n p = real_norm_ R_ops n p 1) /\
  (forall (n : nat) (p : list R), real_norm_ R_ops n p 0 = Some 0) /\
  (forall (l : list R), let w := maxabs l 0 in
     (w <= 0 -> norm_cells R_ops l = 0 /\ sumsq l = 0) /\
     (0 < w -> norm_cells R_ops l = sqrt (fold_left (fun s p => s + p / w * (p / w)) l 0) * w) /\
     norm_cells R_ops l = sqrt (sumsq l)).
Proof. exact (conj norm_spec (conj norm_stride0 norm_cells_spec)). Qed.

Lemma clause_norm_scaling :
  (forall x y, let m := Rmax (Rabs x) (Rabs y) in let q := Rmin (Rabs x) (Rabs y) / m in
     0 < m -> 0 <= q <= 1 /\ 1 <= q * q + 1 <= 2 /\ real_norm2 R_ops x y = sqrt (q * q + 1) * m /\
              m <= real_norm2 R_ops x y <= sqrt 2 * m) /\
  (forall x y z, let m := Rmax (Rmax (Rabs x) (Rabs y)) (Rabs z) in
     0 < m -> exists q1 q2, 0 <= q1 <= 1 /\ 0 <= q2 <= 1 /\ 1 <= q1 * q1 + q2 * q2 + 1 <= 3 /\
              real_norm3 R_ops x y z = sqrt (q1 * q1 + q2 * q2 + 1) * m /\ m <= real_norm3 R_ops x y z <= sqrt 3 * m) /\
  (forall (l : list R), let w := maxabs l 0 in 0 < w ->
     List.Forall (fun p => -1 <= p / w <= 1) l /\
     1 <= fold_left (fun s p => s + p / w * (p / w)) l 0 <= INR (length l) /\
     norm_cells R_ops l = sqrt (fold_left (fun s p => s + p / w * (p / w)) l 0) * w /\
     w <= norm_cells R_ops l <= sqrt (INR (length l)) * w).
Proof. exact (conj norm2_scaling (conj norm3_scaling norm_cells_scaling)). Qed.

(* round trip with the bound left symbolic (|A_REAL_PI - pi|, bounded by 2^-52 in clause_atan2) *)
Lemma cart2pol_roundtrip_sym (x y : R) : x <> 0 \/ y <> 0 ->
  exists theta, polar_angle x y theta /\ real_pol2cart R_ops (fst (real_cart2pol R_ops x y)) theta = (x, y) /\
                Rabs (snd (real_cart2pol R_ops x y) - theta) <= Rabs (c_pi R_ops - PI).
Proof.
  intros H. destruct (atan2_angle x y H) as (theta & P & B). exists theta. destruct (cart2pol_spec x y) as [E1 E2].
  rewrite E1, E2. split; [exact P|]. split; [apply pol2cart_of_polar; exact P | exact B].
Qed.

Lemma clause_polar :
  (forall x y, fst (real_cart2pol R_ops x y) = sqrt (x * x + y * y) /\ snd (real_cart2pol R_ops x y) = real_atan2 R_ops y x) /\
  (forall x y theta, polar_angle x y theta -> real_pol2cart R_ops (sqrt (x * x + y * y)) theta = (x, y)) /\
  (forall rho theta, let p := real_pol2cart R_ops rho theta in fst p * fst p + snd p * snd p = rho * rho) /\
  (forall x y, x <> 0 \/ y <> 0 ->
     exists theta, polar_angle x y theta /\ real_pol2cart R_ops (fst (real_cart2pol R_ops x y)) theta = (x, y) /\
                   Rabs (snd (real_cart2pol R_ops x y) - theta) <= Rabs (c_pi R_ops - PI)).
Proof. exact (conj cart2pol_spec (conj pol2cart_of_polar (conj pol2cart_radius cart2pol_roundtrip_sym))). Qed.

Lemma clause_spherical :
  (forall x y z, let r := sqrt (x * x + y * y) in
     real_cart2sph R_ops x y z = (sqrt (x * x + y * y + z * z), real_atan2 R_ops y x, real_atan2 R_ops z r)) /\
  (forall x y z theta alpha, let r := sqrt (x * x + y * y) in
     polar_angle x y theta -> polar_angle r z alpha ->
     real_sph2cart R_ops (sqrt (x * x + y * y + z * z)) theta alpha = (x, y, z)) /\
  (forall rho theta alpha, let '(x, y, z) := real_sph2cart R_ops rho theta alpha in x * x + y * y + z * z = rho * rho).
Proof. exact (conj cart2sph_spec (conj sph2cart_of_angles sph2cart_radius)). Qed.

Lemma clause_defined : forall p,
  ((forall x, -1 < x -> real_log1p (Rp_ops p) x = real_log1p R_ops x) /\
   (forall x, real_asinh (Rp_ops p) x = real_asinh R_ops x) /\
   (forall x, 1 <= x -> real_acosh (Rp_ops p) x = real_acosh R_ops x) /\
   (forall x, -1 < x < 1 -> real_atanh (Rp_ops p) x = real_atanh R_ops x) /\
   (forall y x, real_atan2 (Rp_ops p) y x = real_atan2 R_ops y x)) /\
  ((forall x y, real_norm2 (Rp_ops p) x y = real_norm2 R_ops x y) /\
   (forall x y z, real_norm3 (Rp_ops p) x y z = real_norm3 R_ops x y z) /\
   (forall n l c, real_norm_ (Rp_ops p) n l c = real_norm_ R_ops n l c /\ real_norm (Rp_ops p) n l = real_norm R_ops n l) /\
   (forall n l c, real_mean_ (Rp_ops p) n l c = real_mean_ R_ops n l c) /\
   (forall x y, real_cart2pol (Rp_ops p) x y = real_cart2pol R_ops x y) /\
   (forall x y z, real_cart2sph (Rp_ops p) x y z = real_cart2sph R_ops x y z) /\
   (forall r t, real_pol2cart (Rp_ops p) r t = real_pol2cart R_ops r t) /\
   (forall r t a, real_sph2cart (Rp_ops p) r t a = real_sph2cart R_ops r t a)) /\
  (real_acosh (Rp_ops p) (1 / 2) = c_nan (Rp_ops p) /\ real_atanh (Rp_ops p) 2 = c_nan (Rp_ops p) /\
   real_atanh (Rp_ops p) 1 = c_inf (Rp_ops p) /\ real_atanh (Rp_ops p) (-1) = - c_inf (Rp_ops p) /\ c_inf (Rp_ops p) = p).
Proof.
  intros p. split; [|split; [exact (defined_geometry p) | exact (domain_edges p)]].
  split; [exact (log1p_defined p)|]. split; [exact (asinh_defined p)|]. split; [exact (acosh_defined p)|].
  split; [exact (atanh_defined p) | exact (atan2_defined p)].
Qed.

Lemma clause_sums :
  (forall (n : nat) (p : list R) (c : nat), in_bounds n p 0 c -> real_sum_ R_ops n p c = Some (rsum (cells 0 n p 0 c))) /\
  (forall (n : nat) (p : list R) (c : nat), in_bounds n p 0 c -> real_sum1_ R_ops n p c = Some (rsum (map Rabs (cells 0 n p 0 c)))) /\
  (forall (n : nat) (p : list R) (c : nat), in_bounds n p 0 c ->
     real_sum2_ R_ops n p c = Some (rsum (map (fun v => v * v) (cells 0 n p 0 c)))) /\
  (forall (n : nat) (p : list R) (c : nat), in_bounds n p 0 c -> real_mean_ R_ops n p c = Some (rsum (cells 0 n p 0 c) / INR n)).
Proof. exact (conj sum_spec (conj sum1_spec (conj sum2_spec mean_spec))). Qed.

Lemma clause_reductions_edges :
  (forall (n : nat) (p : list R) (c : nat), ~ in_bounds n p 0 c ->
     real_sum_ R_ops n p c = None /\ real_sum1_ R_ops n p c = None /\ real_sum2_ R_ops n p c = None /\ real_mean_ R_ops n p c = None) /\
  (forall (n : nat) (p : list R),
     real_sum R_ops n p = real_sum_ R_ops n p 1 /\ real_sum1 R_ops n p = real_sum1_ R_ops n p 1 /\
     real_sum2 R_ops n p = real_sum2_ R_ops n p 1 /\ real_mean R_ops n p = real_mean_ R_ops n p 1 /\
     (forall q, real_dot R_ops n p q = real_dot_ R_ops n p 1 q 1)).
Proof. exact (conj reductions_out_of_bounds unit_stride). Qed.
