(* C11: forward error bounds of the reductions (recursive summation, dot product, mean) and of a_real_norm2 in the
   standard model of floating-point arithmetic with gradual underflow (Common/RoundOps.v):  the SAME Gallina terms
   real_sum_/real_dot_/real_mean_/real_norm2 (those tied bit for bit to the C at F64_ops) instantiated at Rnd_ops rnd
   (each operation followed by rnd) against their value at R_ops (exact), for EVERY length n and stride.

   With P k = (1+eps)^k  (and P k - 1 <= gamma_k = k eps / (1 - k eps) when k eps < 1):
     sum   |s^ - s| <= (P n - 1) sum|x_i| + n eta P n             for ARBITRARY real cells
           |s^ - s| <= (P (n-1) - 1) sum|x_i| + (n-1) eta P (n-1) if the first cell is representable (rnd x_0 = x_0)
                                                                  - the classical gamma_(n-1) of recursive summation
     dot   |d^ - d| <= (P (n+1) - 1) sum|x_i y_i| + 2n eta P (n+1)             arbitrary cells, any rnd
           |d^ - d| <= (P n - 1) sum|x_i y_i| + (2n-1) eta P n                 if rnd is idempotent - the classical gamma_n
     mean  |m^ - m| <= (P (n+2) - 1) sum|x_i| / n + eta P (n+2) ((1+eps) sum|x_i| + 2n)      if rnd 1 = 1, rnd n = n
     norm2 |h^ - h| <= 7/2 (eps + eta) h + eta,  h = sqrt (x^2 + y^2)         if rnd 1 = 1, eps + eta <= 1/64 and
                                                                  each of x, y is 0 or at least 2 eta in magnitude
   The eta terms are the price of gradual underflow in the abstract model (in IEEE arithmetic an addition never
   underflows inexactly, so for binary64 the eta terms of sum are pessimistic, not wrong).  Overflow is outside the model. *)
From Coq Require Import Reals Lra Lia List ZArith Bool Arith.
From LibaV Require Import Common.NumOps Common.ROps Common.RoundOps Common.RoundFlocq C11.MathDefs C11.HypProofs C11.GeomProofs C11.ListProofs.
Import ListNotations.
Local Open Scope R_scope.
Local Notation sqrt := R_sqrt.sqrt.

Lemma rsum_cons a l : rsum (a :: l) = a + rsum l.
Proof. reflexivity. Qed.
Lemma rsum_const0 {A} (l : list A) : rsum (map (fun _ => 0) l) = 0.
Proof. induction l; cbn [map]; [reflexivity|]. rewrite rsum_cons, IHl. ring. Qed.
Lemma rsum_const1 {A} (l : list A) : rsum (map (fun _ => 1) l) = INR (length l).
Proof. induction l; cbn [map length]; [reflexivity|]. rewrite rsum_cons, IHl, S_INR. ring. Qed.
Lemma rsum_affine {A} (g : A -> R) (k d : R) (l : list A) :
  rsum (map (fun v => k * g v + d) l) = k * rsum (map g l) + d * INR (length l).
Proof. induction l; cbn [map length]; [unfold rsum; simpl; ring|]. rewrite !rsum_cons, IHl, S_INR. ring. Qed.
Lemma rsum_abs_nonneg {A} (g : A -> R) (l : list A) : 0 <= rsum (map (fun v => Rabs (g v)) l).
Proof. induction l; cbn [map]; [unfold rsum; simpl; lra|]. rewrite rsum_cons. pose proof (Rabs_pos (g a)). lra. Qed.
Lemma rsum_div {A} (g : A -> R) (k : R) (l : list A) : rsum (map (fun v => g v * k) l) = rsum (map g l) * k.
Proof. induction l; cbn [map]; [unfold rsum; simpl; ring|]. rewrite !rsum_cons, IHl. ring. Qed.

Section Reductions.
  Variable rnd : R -> R.
  Variables eps eta : R.
  Hypothesis M : std_model rnd eps eta.
  Local Notation P k := ((1 + eps) ^ k).

  (* ------------------------------------------------------------ one accumulation step  s := rnd (s + w^)
     s^ carries (P k - 1) a + eta P k b against s, the term w^ carries (P p - 1) al + eta be against w, p <= k *)
  Lemma acc_step (sh s wh w a al b be : R) (k p : nat) : (p <= k)%nat ->
    Rabs s <= a -> Rabs w <= al -> 0 <= b -> 0 <= be ->
    Rabs (sh - s) <= (P k - 1) * a + eta * P k * b ->
    Rabs (wh - w) <= (P p - 1) * al + eta * be ->
    Rabs (rnd (sh + wh) - (s + w)) <= (P (S k) - 1) * (a + al) + eta * P (S k) * (b + be + 1).
  Proof.
    intros Hpk Hs Hw Hb Hbe HDs HDw.
    pose proof (eps_ge0 _ _ _ M) as Hu. pose proof (eta_ge0 _ _ _ M) as Ht.
    pose proof (p1_ge1 _ _ _ M k) as HPk. pose proof (p1_ge1 _ _ _ M p) as HPp. pose proof (p1_mono _ _ _ M p k Hpk) as HPpk.
    cbn [pow]. set (pk := P k) in *. set (pp := P p) in *.
    pose proof (Rabs_pos s). pose proof (Rabs_pos w).
    pose proof (rnd_step _ _ _ M (sh + wh) (s + w)) as H1.
    assert (T1 : Rabs (sh + wh - (s + w)) <= Rabs (sh - s) + Rabs (wh - w)).
    { replace (sh + wh - (s + w)) with ((sh - s) + (wh - w)) by ring. apply Rabs_triang. }
    assert (T2 : Rabs (s + w) <= a + al) by (eapply Rle_trans; [apply Rabs_triang|lra]).
    set (Ds := Rabs (sh - s)) in *. set (Dw := Rabs (wh - w)) in *.
    assert (B1 : (1 + eps) * Rabs (sh + wh - (s + w)) <= (1 + eps) * (((pk - 1) * a + eta * pk * b) + ((pp - 1) * al + eta * be)))
      by (apply Rmult_le_compat_l; lra).
    assert (B2 : eps * Rabs (s + w) <= eps * (a + al)) by (apply Rmult_le_compat_l; lra).
    assert (A1 : 0 <= (1 + eps) * (pk - pp) * al) by (apply Rmult_le_pos; [apply Rmult_le_pos|]; lra).
    assert (A2 : 0 <= eta * ((1 + eps) * (pk - 1) * be)) by (repeat apply Rmult_le_pos; lra).
    assert (A3 : 0 <= eta * ((1 + eps) * pk - 1)) by (apply Rmult_le_pos; nra).
    lra.
  Qed.

  (* ------------------------------------------------------------ the accumulation loop over any list of terms *)
  Lemma acc_fold {A : Type} (fh f al be : A -> R) (p : nat) (l : list A) :
    Forall (fun x => Rabs (f x) <= al x /\ 0 <= be x /\ Rabs (fh x - f x) <= (P p - 1) * al x + eta * be x) l ->
    forall (sh s a b : R) (k : nat), (p <= k)%nat -> Rabs s <= a -> 0 <= b ->
    Rabs (sh - s) <= (P k - 1) * a + eta * P k * b ->
    Rabs (fold_left (fun r x => rnd (r + fh x)) l sh - fold_left (fun r x => r + f x) l s)
      <= (P (k + length l) - 1) * (a + rsum (map al l))
         + eta * P (k + length l) * (b + rsum (map be l) + INR (length l)).
  Proof.
    induction 1 as [|x l (Hx1 & Hx2 & Hx3) _ IH]; intros sh s a b k Hpk Hs Hb HD.
    - cbn [fold_left map length]. rewrite Nat.add_0_r. unfold rsum. simpl. rewrite !Rplus_0_r. exact HD.
    - cbn [fold_left map length]. rewrite !rsum_cons, S_INR.
      replace (k + S (length l))%nat with (S k + length l)%nat by lia.
      eapply Rle_trans.
      + apply (IH (rnd (sh + fh x)) (s + f x) (a + al x) (b + be x + 1) (S k)).
        * lia.
        * eapply Rle_trans; [apply Rabs_triang|lra].
        * lra.
        * apply (acc_step sh s (fh x) (f x) a (al x) b (be x) k p); assumption.
      + apply Req_le. ring.
  Qed.

  (* ------------------------------------------------------------ a_real_sum / a_real_sum_ *)
  Lemma sum_fold_round (l : list R) :
    Rabs (fold_left (fun r v => rnd (r + v)) l 0 - rsum l)
      <= (P (length l) - 1) * rsum (map Rabs l) + INR (length l) * eta * P (length l).
  Proof.
    assert (F : Forall (fun x : R => Rabs x <= Rabs x /\ 0 <= 0 /\ Rabs (x - x) <= (P 0 - 1) * Rabs x + eta * 0) l).
    { apply Forall_forall. intros x _. rewrite Rminus_diag_eq, Rabs_R0 by reflexivity. simpl. lra. }
    pose proof (acc_fold (fun v => v) (fun v => v) Rabs (fun _ => 0) 0 l F 0 0 0 0 0%nat (Nat.le_refl _)) as H.
    rewrite Rminus_diag_eq, Rabs_R0 in H by reflexivity.
    specialize (H (Rle_refl _) (Rle_refl _)). simpl pow in H at 1 2. rewrite Nat.add_0_l in H.
    assert (H0 : 0 <= (1 - 1) * 0 + eta * 1 * 0) by lra. specialize (H H0).
    rewrite (fold_left_rsum (fun v => v)), map_id, rsum_const0 in H. rewrite !Rplus_0_l in H. lra.
  Qed.

  (* first cell representable: one rounding fewer *)
  Lemma sum_fold_round_sharp (h : R) (t : list R) : rnd h = h ->
    Rabs (fold_left (fun r v => rnd (r + v)) (h :: t) 0 - rsum (h :: t))
      <= (P (length t) - 1) * rsum (map Rabs (h :: t)) + INR (length t) * eta * P (length t).
  Proof.
    intros Hh. cbn [fold_left]. rewrite Rplus_0_l, Hh.
    assert (F : Forall (fun x : R => Rabs x <= Rabs x /\ 0 <= 0 /\ Rabs (x - x) <= (P 0 - 1) * Rabs x + eta * 0) t).
    { apply Forall_forall. intros x _. rewrite Rminus_diag_eq, Rabs_R0 by reflexivity. simpl. lra. }
    pose proof (acc_fold (fun v => v) (fun v => v) Rabs (fun _ => 0) 0 t F h h (Rabs h) 0 0%nat (Nat.le_refl _) (Rle_refl _) (Rle_refl _)) as H.
    rewrite Rminus_diag_eq, Rabs_R0 in H by reflexivity. simpl pow in H at 1 2. rewrite Nat.add_0_l in H.
    assert (H0 : 0 <= (1 - 1) * Rabs h + eta * 1 * 0) by lra. specialize (H H0).
    rewrite (fold_left_rsum (fun v => v)), map_id, rsum_const0 in H. cbn [map]. rewrite !rsum_cons. lra.
  Qed.

  Theorem sum_round (n : nat) (p : list R) (c : nat) : in_bounds n p 0 c ->
    let xs := cells 0 n p 0 c in
    exists sr, real_sum_ (Rnd_ops rnd) n p c = Some sr /\ real_sum_ R_ops n p c = Some (rsum xs) /\
      Rabs (sr - rsum xs) <= (P n - 1) * rsum (map Rabs xs) + INR n * eta * P n.
  Proof.
    intros Hb xs. rewrite sum_spec by exact Hb. fold xs.
    unfold real_sum_, red. rewrite (strided_some 0) by exact Hb. fold xs. cbn [option_map].
    eexists. split; [reflexivity|]. split; [reflexivity|].
    unfold_rops. rewrite (rnd_0 _ _ _ M).
    assert (L : length xs = n) by apply cells_length.
    pose proof (sum_fold_round xs) as H. rewrite L in H. exact H.
  Qed.

  Theorem sum_round_sharp (n : nat) (p : list R) (c : nat) : in_bounds n p 0 c -> (1 <= n)%nat ->
    rnd (nth 0 p 0) = nth 0 p 0 ->
    let xs := cells 0 n p 0 c in
    exists sr, real_sum_ (Rnd_ops rnd) n p c = Some sr /\ real_sum_ R_ops n p c = Some (rsum xs) /\
      Rabs (sr - rsum xs) <= (P (n - 1) - 1) * rsum (map Rabs xs) + INR (n - 1) * eta * P (n - 1).
  Proof.
    intros Hb Hn Hh xs. rewrite sum_spec by exact Hb. fold xs.
    unfold real_sum_, red. rewrite (strided_some 0) by exact Hb. fold xs. cbn [option_map].
    eexists. split; [reflexivity|]. split; [reflexivity|].
    unfold_rops. rewrite (rnd_0 _ _ _ M).
    destruct n as [|n']; [lia|]. unfold xs. rewrite cells_S.
    replace (S n' - 1)%nat with n' by lia.
    pose proof (sum_fold_round_sharp (nth 0 p 0) (cells 0 n' p (0 + c) c) Hh) as H.
    rewrite cells_length in H. exact H.
  Qed.

  (* ------------------------------------------------------------ a_real_dot / a_real_dot_ *)
  Definition prods (xs ys : list R) : list R := map (fun xy : R * R => fst xy * snd xy) (combine xs ys).

  Lemma dot_term (xy : R * R) :
    Rabs (fst xy * snd xy) <= Rabs (fst xy * snd xy) /\ 0 <= 1 /\
    Rabs (rnd (fst xy * snd xy) - fst xy * snd xy) <= (P 1 - 1) * Rabs (fst xy * snd xy) + eta * 1.
  Proof. pose proof (rnd_err _ _ _ M (fst xy * snd xy)). simpl. split; [lra|]. split; lra. Qed.

  Lemma dot_fold_round (l : list (R * R)) :
    Rabs (fold_left (fun r xy => rnd (r + rnd (fst xy * snd xy))) l 0 - rsum (map (fun xy => fst xy * snd xy) l))
      <= (P (length l + 1) - 1) * rsum (map (fun xy => Rabs (fst xy * snd xy)) l) + 2 * INR (length l) * eta * P (length l + 1).
  Proof.
    assert (F : Forall (fun xy : R * R => Rabs (fst xy * snd xy) <= Rabs (fst xy * snd xy) /\ 0 <= 1 /\
                   Rabs (rnd (fst xy * snd xy) - fst xy * snd xy) <= (P 1 - 1) * Rabs (fst xy * snd xy) + eta * 1) l).
    { apply Forall_forall. intros xy _. apply dot_term. }
    pose proof (acc_fold (fun xy => rnd (fst xy * snd xy)) (fun xy => fst xy * snd xy) (fun xy => Rabs (fst xy * snd xy))
                  (fun _ => 1) 1 l F 0 0 0 0 1%nat (Nat.le_refl _)) as H.
    rewrite Rminus_diag_eq, Rabs_R0 in H by reflexivity. specialize (H (Rle_refl _) (Rle_refl _)).
    assert (H0 : 0 <= (P 1 - 1) * 0 + eta * P 1 * 0) by lra. specialize (H H0).
    rewrite (fold_left_rsum (fun xy => fst xy * snd xy)), rsum_const1 in H.
    replace (1 + length l)%nat with (length l + 1)%nat in H by lia. rewrite !Rplus_0_l in H. lra.
  Qed.

  (* idempotent rounding: the first addition 0 + rnd (x0 y0) is exact *)
  Lemma dot_fold_round_sharp (h : R * R) (t : list (R * R)) : (forall v, rnd (rnd v) = rnd v) ->
    let l := h :: t in
    Rabs (fold_left (fun r xy => rnd (r + rnd (fst xy * snd xy))) l 0 - rsum (map (fun xy => fst xy * snd xy) l))
      <= (P (length l) - 1) * rsum (map (fun xy => Rabs (fst xy * snd xy)) l) + (2 * INR (length l) - 1) * eta * P (length l).
  Proof.
    intros Hid l. unfold l. cbn [fold_left]. rewrite Rplus_0_l, Hid.
    assert (F : Forall (fun xy : R * R => Rabs (fst xy * snd xy) <= Rabs (fst xy * snd xy) /\ 0 <= 1 /\
                   Rabs (rnd (fst xy * snd xy) - fst xy * snd xy) <= (P 1 - 1) * Rabs (fst xy * snd xy) + eta * 1) t).
    { apply Forall_forall. intros xy _. apply dot_term. }
    pose proof (eps_ge0 _ _ _ M) as Hu. pose proof (eta_ge0 _ _ _ M) as Ht.
    pose proof (acc_fold (fun xy => rnd (fst xy * snd xy)) (fun xy => fst xy * snd xy) (fun xy => Rabs (fst xy * snd xy))
                  (fun _ => 1) 1 t F (rnd (fst h * snd h)) (fst h * snd h) (Rabs (fst h * snd h)) 1 1%nat (Nat.le_refl _) (Rle_refl _) Rle_0_1) as H.
    assert (H0 : Rabs (rnd (fst h * snd h) - fst h * snd h) <= (P 1 - 1) * Rabs (fst h * snd h) + eta * P 1 * 1).
    { pose proof (rnd_err _ _ _ M (fst h * snd h)). simpl. nra. }
    specialize (H H0). rewrite (fold_left_rsum (fun xy => fst xy * snd xy)), rsum_const1 in H.
    cbn [map length]. rewrite !rsum_cons, S_INR. replace (1 + length t)%nat with (S (length t)) in H by lia. lra.
  Qed.

  Lemma combine_cells_length n X Xc Y Yc : length (combine (cells 0 n X 0 Xc) (cells 0 n Y 0 Yc)) = n.
  Proof. rewrite combine_length, !cells_length. apply Nat.min_id. Qed.

  Lemma dot_exact (n : nat) (X : list R) (Xc : nat) (Y : list R) (Yc : nat) : in_bounds n X 0 Xc -> in_bounds n Y 0 Yc ->
    real_dot_ R_ops n X Xc Y Yc = Some (rsum (prods (cells 0 n X 0 Xc) (cells 0 n Y 0 Yc))).
  Proof.
    intros HX HY. unfold real_dot_. rewrite (strided_some 0), (strided_some 0) by auto. f_equal.
    cbn [ofZ R_ops add mul]. rewrite (fold_left_rsum (fun xy : R * R => fst xy * snd xy)). unfold prods. ring.
  Qed.

  Theorem dot_round (n : nat) (X : list R) (Xc : nat) (Y : list R) (Yc : nat) : in_bounds n X 0 Xc -> in_bounds n Y 0 Yc ->
    let ps := prods (cells 0 n X 0 Xc) (cells 0 n Y 0 Yc) in
    exists dr, real_dot_ (Rnd_ops rnd) n X Xc Y Yc = Some dr /\ real_dot_ R_ops n X Xc Y Yc = Some (rsum ps) /\
      Rabs (dr - rsum ps) <= (P (n + 1) - 1) * rsum (map Rabs ps) + 2 * INR n * eta * P (n + 1).
  Proof.
    intros HX HY ps. rewrite dot_exact by assumption. fold ps.
    unfold real_dot_. rewrite (strided_some 0), (strided_some 0) by auto.
    eexists. split; [reflexivity|]. split; [reflexivity|].
    unfold_rops. rewrite (rnd_0 _ _ _ M).
    pose proof (dot_fold_round (combine (cells 0 n X 0 Xc) (cells 0 n Y 0 Yc))) as H.
    rewrite combine_cells_length in H. unfold ps, prods. rewrite map_map. exact H.
  Qed.

  Theorem dot_round_sharp (n : nat) (X : list R) (Xc : nat) (Y : list R) (Yc : nat) : in_bounds n X 0 Xc -> in_bounds n Y 0 Yc ->
    (1 <= n)%nat -> (forall v, rnd (rnd v) = rnd v) ->
    let ps := prods (cells 0 n X 0 Xc) (cells 0 n Y 0 Yc) in
    exists dr, real_dot_ (Rnd_ops rnd) n X Xc Y Yc = Some dr /\ real_dot_ R_ops n X Xc Y Yc = Some (rsum ps) /\
      Rabs (dr - rsum ps) <= (P n - 1) * rsum (map Rabs ps) + (2 * INR n - 1) * eta * P n.
  Proof.
    intros HX HY Hn Hid ps. rewrite dot_exact by assumption. fold ps.
    unfold real_dot_. rewrite (strided_some 0), (strided_some 0) by auto.
    eexists. split; [reflexivity|]. split; [reflexivity|].
    unfold_rops. rewrite (rnd_0 _ _ _ M).
    unfold ps, prods. rewrite map_map.
    pose proof (combine_cells_length n X Xc Y Yc) as L.
    destruct (combine (cells 0 n X 0 Xc) (cells 0 n Y 0 Yc)) as [|h t] eqn:E; [simpl in L; lia|].
    pose proof (dot_fold_round_sharp h t Hid) as H. cbv zeta in H. rewrite L in H. exact H.
  Qed.

  (* ------------------------------------------------------------ a_real_mean / a_real_mean_
     i = 1 / (a_real)n is computed once (one rounding, 1 and n being representable), each term is rnd (x * i) *)
  Lemma mean_term (n : nat) (v : R) : (1 <= n)%nat ->
    let i := 1 / INR n in let ih := rnd (1 / INR n) in
    Rabs (v * i) <= Rabs v * i /\ 0 <= (1 + eps) * Rabs v + 1 /\
    Rabs (rnd (v * ih) - v * i) <= (P 2 - 1) * (Rabs v * i) + eta * ((1 + eps) * Rabs v + 1).
  Proof.
    intros Hn i ih. pose proof (eps_ge0 _ _ _ M) as Hu. pose proof (eta_ge0 _ _ _ M) as Ht.
    assert (Hi : 0 < i). { unfold i. apply Rdiv_lt_0_compat; [lra|]. apply lt_0_INR. lia. }
    pose proof (Rabs_pos v) as Hv.
    split; [|split].
    - rewrite Rabs_mult, (Rabs_pos_eq i) by lra. lra.
    - nra.
    - change ih with (rnd i). clear ih. pose proof (rnd_err _ _ _ M i) as H1. rewrite (Rabs_pos_eq i) in H1 by lra.
      pose proof (rnd_step _ _ _ M (v * rnd i) (v * i)) as H2.
      replace (v * rnd i - v * i) with (v * (rnd i - i)) in H2 by ring. rewrite !Rabs_mult, (Rabs_pos_eq i) in H2 by lra.
      set (D := Rabs (rnd i - i)) in *. set (V := Rabs v) in *.
      assert (B1 : V * D <= V * (eps * i + eta)) by (apply Rmult_le_compat_l; lra).
      assert (B2 : (1 + eps) * (V * D) <= (1 + eps) * (V * (eps * i + eta))) by (apply Rmult_le_compat_l; lra).
      simpl pow. lra.
  Qed.

  Theorem mean_round (n : nat) (p : list R) (c : nat) : in_bounds n p 0 c -> (1 <= n)%nat ->
    rnd 1 = 1 -> rnd (INR n) = INR n ->
    let xs := cells 0 n p 0 c in
    exists mr, real_mean_ (Rnd_ops rnd) n p c = Some mr /\ real_mean_ R_ops n p c = Some (rsum xs / INR n) /\
      Rabs (mr - rsum xs / INR n)
        <= (P (n + 2) - 1) * (rsum (map Rabs xs) / INR n) + eta * P (n + 2) * ((1 + eps) * rsum (map Rabs xs) + 2 * INR n).
  Proof.
    intros Hb Hn H1 HN xs. rewrite mean_spec by exact Hb. fold xs.
    unfold real_mean_, red. rewrite (strided_some 0) by exact Hb. fold xs. cbn [option_map].
    eexists. split; [reflexivity|]. split; [reflexivity|].
    unfold_rops. rewrite (rnd_0 _ _ _ M). rewrite <- INR_IZR_INZ, H1, HN.
    set (i := 1 / INR n). set (ih := rnd (1 / INR n)).
    assert (F : Forall (fun v : R => Rabs (v * i) <= Rabs v * i /\ 0 <= (1 + eps) * Rabs v + 1 /\
                   Rabs (rnd (v * ih) - v * i) <= (P 2 - 1) * (Rabs v * i) + eta * ((1 + eps) * Rabs v + 1)) xs).
    { apply Forall_forall. intros v _. apply mean_term. exact Hn. }
    pose proof (acc_fold (fun v => rnd (v * ih)) (fun v => v * i) (fun v => Rabs v * i) (fun v => (1 + eps) * Rabs v + 1)
                  2 xs F 0 0 0 0 2%nat (Nat.le_refl _)) as H.
    rewrite Rminus_diag_eq, Rabs_R0 in H by reflexivity. specialize (H (Rle_refl _) (Rle_refl _)).
    assert (H0 : 0 <= (P 2 - 1) * 0 + eta * P 2 * 0) by lra. specialize (H H0).
    rewrite (fold_left_rsum (fun v => v * i)) in H. rewrite !Rplus_0_l in H.
    rewrite (rsum_div (fun v => v) i), map_id in H. rewrite (rsum_div Rabs i) in H.
    assert (L : length xs = n) by apply cells_length.
    rewrite (rsum_affine Rabs (1 + eps) 1) in H. rewrite !L in H. replace (2 + n)%nat with (n + 2)%nat in H by lia.
    unfold i in H. unfold Rdiv in *. rewrite !Rmult_1_l in H.
    eapply Rle_trans; [|eapply Rle_trans; [exact H|]]; [apply Req_le; f_equal; ring|apply Req_le; ring].
  Qed.
End Reductions.

(* ------------------------------------------------------------ a_real_norm2 (= the fallback a_real_hypot)
   |x|, |y| exact; q = rnd (min / max); rnd (rnd (sqrt (rnd (rnd (q q) + 1))) * max): five roundings.
   First-order error 3.25 eps; proved: 7/2 (eps + eta) relative plus eta absolute, for eps + eta <= 1/64. *)
Lemma Rabs_le_both (x y : R) : Rabs x <= y -> - y <= x <= y.
Proof. unfold Rabs. destruct (Rcase_abs x); lra. Qed.

Lemma sqrt_pert (w wh th : R) : 0 < w -> 0 <= th <= 1 -> Rabs (wh - w) <= th * w ->
  Rabs (sqrt wh - sqrt w) <= sqrt w * (th * (1 + th) / 2).
Proof.
  intros Hw Hth HD.
  assert (Hwh : w * (1 - th) <= wh) by (apply Rabs_le_both in HD; lra).
  assert (Hwh0 : 0 <= wh) by nra.
  pose proof (sqrt_lt_R0 w Hw) as Hr. pose proof (sqrt_sqrt w (Rlt_le _ _ Hw)) as Er.
  pose proof (sqrt_pos wh) as Hrh. pose proof (sqrt_sqrt wh Hwh0) as Erh.
  set (r := sqrt w) in *. set (rh := sqrt wh) in *.
  apply Rabs_le_both in HD.
  destruct (Rle_dec r rh) as [C|C].
  - rewrite Rabs_pos_eq by lra.
    assert (2 * (rh - r) <= th * r) by nra. nra.
  - assert (G : rh < r) by lra. rewrite Rabs_left by lra.
    assert (L : r * (1 - th) <= rh) by nra.
    assert (K : (r - rh) * (2 - th) <= th * r) by nra.
    nra.
Qed.

Section Norm2.
  Variable rnd : R -> R.
  Variables eps eta : R.
  Hypothesis M : std_model rnd eps eta.

  Lemma norm2_core (s m : R) : 0 <= s <= m -> 0 < m -> eps + eta <= / 64 ->
    let qh := rnd (s / m) in
    Rabs (rnd (rnd (sqrt (rnd (rnd (qh * qh) + 1))) * m) - sqrt (s * s + m * m))
      <= 7 / 2 * (eps + eta) * sqrt (s * s + m * m) + eta.
  Proof.
    intros Hs Hm Hv qh.
    pose proof (eps_ge0 _ _ _ M) as Hu. pose proof (eta_ge0 _ _ _ M) as Ht.
    rewrite <- (scaled2 s m Hm).
    set (q := s / m) in *.
    assert (Hq : 0 <= q <= 1).
    { unfold q. split; [apply Rmult_le_pos; [lra|apply Rlt_le, Rinv_0_lt_compat; lra]|].
      apply (Rmult_le_reg_r m); [lra|]. unfold Rdiv. rewrite Rmult_assoc, Rinv_l by lra. lra. }
    set (t := q * q). assert (Htr : 0 <= t <= 1) by (unfold t; nra).
    set (w := t + 1). assert (Hw : 1 <= w <= 2) by (unfold w; lra).
    set (r := sqrt w).
    assert (Hr1 : 1 <= r). { unfold r. rewrite <- sqrt_1. apply sqrt_le_1; lra. }
    (* a: the quotient *)
    pose proof (rnd_err _ _ _ M q) as Ha. fold qh in Ha. rewrite (Rabs_pos_eq q) in Ha by lra.
    set (Dq := Rabs (qh - q)) in *. pose proof (Rabs_pos (qh - q)) as HDq. fold Dq in HDq.
    (* b: its square *)
    assert (Hb : Rabs (qh * qh - t) <= 2 * eps * t + 2 * eta + (eps + eta) * (eps + eta)).
    { unfold t. replace (qh * qh - q * q) with ((qh - q) * ((qh - q) + 2 * q)) by ring.
      rewrite Rabs_mult. fold Dq.
      assert (Rabs (qh - q + 2 * q) <= Dq + 2 * q).
      { eapply Rle_trans; [apply Rabs_triang|]. fold Dq. rewrite (Rabs_pos_eq (2 * q)) by lra. lra. }
      assert (Dq * Rabs (qh - q + 2 * q) <= (eps * q + eta) * ((eps * q + eta) + 2 * q)).
      { apply Rmult_le_compat; try lra. apply Rabs_pos. }
      assert (eps * q + eta <= eps + eta) by nra.
      assert ((eps * q + eta) * (eps * q + eta) <= (eps + eta) * (eps + eta)) by (apply Rmult_le_compat; nra).
      assert (eta * q <= eta) by nra.
      nra. }
    (* c: rounded square *)
    pose proof (rnd_step _ _ _ M (qh * qh) t) as Hc. rewrite (Rabs_pos_eq t) in Hc by lra.
    set (th := rnd (qh * qh)) in *.
    (* d: + 1 *)
    pose proof (rnd_step _ _ _ M (th + 1) w) as Hd. rewrite (Rabs_pos_eq w) in Hd by lra.
    replace (th + 1 - w) with (th - t) in Hd by (unfold w; ring).
    set (wh := rnd (th + 1)) in *.
    (* e: relative form *)
    set (theta := 53 / 20 * eps + 83 / 20 * eta).
    assert (He : Rabs (wh - w) <= theta * w).
    { set (A := 2 * eps * t + 2 * eta + (eps + eta) * (eps + eta)) in *.
      assert (HA0 : 0 <= Rabs (qh * qh - t)) by apply Rabs_pos.
      assert (HB0 : 0 <= Rabs (th - t)) by apply Rabs_pos.
      set (A' := 2 * eps * t + 2 * eta + (eps + eta) / 64).
      assert (HA' : A <= A') by (unfold A, A'; nra).
      assert (B1 : (1 + eps) * Rabs (qh * qh - t) <= 65 / 64 * A') by nra.
      set (B' := 65 / 64 * A' + eps * t + eta).
      assert (HB' : Rabs (th - t) <= B') by (unfold B'; lra).
      assert (B2 : (1 + eps) * Rabs (th - t) <= 65 / 64 * B') by nra.
      assert (HC : Rabs (wh - w) <= 65 / 64 * B' + eps * w + eta) by lra.
      eapply Rle_trans; [exact HC|]. unfold B', A', theta. replace t with (w - 1) by (unfold w; ring).
      assert (U1 : eps <= eps * w) by nra. assert (U2 : eps * w <= 2 * eps) by nra. assert (U3 : eta <= eta * w) by nra.
      lra. }
    (* f: the square root *)
    assert (Hth : 0 <= theta <= 83 / 1280) by (unfold theta; lra).
    assert (Hf : Rabs (sqrt wh - r) <= r * (theta * (1 + theta) / 2)) by (apply sqrt_pert; lra).
    assert (Hf' : Rabs (sqrt wh - r) <= r * (1363 / 2560 * theta)).
    { eapply Rle_trans; [exact Hf|]. apply Rmult_le_compat_l; [lra|]. nra. }
    (* g: its rounding *)
    pose proof (rnd_step _ _ _ M (sqrt wh) r) as Hg. rewrite (Rabs_pos_eq r) in Hg by lra.
    set (rh := rnd (sqrt wh)) in *.
    set (rho := 88595 / 163840 * theta + eps + eta).
    assert (Hg' : Rabs (rh - r) <= r * rho).
    { pose proof (Rabs_pos (sqrt wh - r)).
      assert ((1 + eps) * Rabs (sqrt wh - r) <= 65 / 64 * (r * (1363 / 2560 * theta))) by nra.
      assert (eta <= r * eta) by nra. unfold rho. lra. }
    (* h: the final product *)
    pose proof (rnd_step _ _ _ M (rh * m) (r * m)) as Hh.
    replace (rh * m - r * m) with ((rh - r) * m) in Hh by ring.
    rewrite !Rabs_mult, (Rabs_pos_eq r), (Rabs_pos_eq m) in Hh by lra.
    assert (Hrm : 0 <= r * m) by (apply Rmult_le_pos; lra).
    assert (K1 : Rabs (rh - r) * m <= r * rho * m) by (apply Rmult_le_compat_r; lra).
    assert (K2 : (1 + eps) * (Rabs (rh - r) * m) <= 65 / 64 * (r * rho * m)).
    { pose proof (Rabs_pos (rh - r)). assert (0 <= Rabs (rh - r) * m) by (apply Rmult_le_pos; lra). nra. }
    assert (K3 : 65 / 64 * rho + eps <= 7 / 2 * (eps + eta)) by (unfold rho, theta; lra).
    assert (K4 : (r * m) * (65 / 64 * rho + eps) <= (r * m) * (7 / 2 * (eps + eta))) by (apply Rmult_le_compat_l; lra).
    fold w r. lra.
  Qed.

  Lemma isinf_rnd (a : R) : 0 <= a -> (a = 0 \/ 2 * eta <= a) -> isinf (Rnd_ops rnd) a = false.
  Proof.
    intros Ha Hc. unfold isinf. unfold_rops. rewrite (rnd_0 _ _ _ M).
    destruct (Reqb_spec a 0) as [E|E]; [apply andb_false_r|].
    destruct (Reqb_spec (rnd (a + a)) a) as [E2|E2]; [|reflexivity]. exfalso.
    pose proof (rnd_err _ _ _ M (a + a)) as H. rewrite E2 in H.
    replace (a - (a + a)) with (- a) in H by ring. rewrite Rabs_Ropp, !Rabs_pos_eq in H by lra.
    pose proof (eps_ge0 _ _ _ M). pose proof (eps_lt _ _ _ M). pose proof (eta_ge0 _ _ _ M).
    destruct Hc as [Hc|Hc]; [lra|]. nra.
  Qed.

  Theorem norm2_round (x y : R) : rnd 1 = 1 -> eps + eta <= / 64 ->
    (x = 0 \/ 2 * eta <= Rabs x) -> (y = 0 \/ 2 * eta <= Rabs y) ->
    let h := sqrt (x * x + y * y) in
    real_norm2 R_ops x y = h /\
    Rabs (real_norm2 (Rnd_ops rnd) x y - h) <= 7 / 2 * (eps + eta) * h + eta.
  Proof.
    intros H1 Hv Hx Hy h. split; [apply norm2_spec|].
    pose proof (eps_ge0 _ _ _ M) as Hu. pose proof (eta_ge0 _ _ _ M) as Ht.
    assert (Hxa : Rabs x = 0 \/ 2 * eta <= Rabs x).
    { destruct Hx as [->|Hx]; [left; apply Rabs_R0|right; exact Hx]. }
    assert (Hya : Rabs y = 0 \/ 2 * eta <= Rabs y).
    { destruct Hy as [->|Hy]; [left; apply Rabs_R0|right; exact Hy]. }
    unfold real_norm2. cbn [abs Rnd_ops].
    rewrite (isinf_rnd (Rabs x) (Rabs_pos x) Hxa), (isinf_rnd (Rabs y) (Rabs_pos y) Hya).
    unfold h. rewrite <- (abs_sq x), <- (abs_sq y).
    pose proof (Rabs_pos x) as Ha. pose proof (Rabs_pos y) as Hb. clear Hxa Hya Hx Hy h.
    generalize dependent (Rabs y). generalize dependent (Rabs x). intros a Ha b Hb.
    unfold_rops. rewrite (rnd_0 _ _ _ M), H1.
    assert (Z : forall c d, 0 <= c -> 0 <= d -> c <= d -> d = 0 ->
              Rabs (0 - sqrt (c * c + d * d)) <= 7 / 2 * (eps + eta) * sqrt (c * c + d * d) + eta).
    { intros c d ? ? ? ?. replace (c * c + d * d) with 0 by nra. rewrite sqrt_0, Rminus_diag_eq, Rabs_R0 by reflexivity. lra. }
    destruct (Rltb_spec b a); cbn [fst snd].
    - destruct (Reqb_spec a 0).
      + rewrite (Rplus_comm (a * a)). apply Z; lra.
      + rewrite (Rplus_comm (a * a)). apply norm2_core; lra.
    - destruct (Reqb_spec b 0).
      + apply Z; lra.
      + apply norm2_core; lra.
  Qed.
End Norm2.

(* ------------------------------------------------------------ the classical gamma forms (k eps < 1) *)
Section Gamma.
  Variable rnd : R -> R.
  Variables eps eta : R.
  Hypothesis M : std_model rnd eps eta.

  Theorem sum_round_gamma (n : nat) (p : list R) (c : nat) : in_bounds n p 0 c -> (1 <= n)%nat ->
    rnd (nth 0 p 0) = nth 0 p 0 -> INR (n - 1) * eps < 1 ->
    let xs := cells 0 n p 0 c in
    exists sr, real_sum_ (Rnd_ops rnd) n p c = Some sr /\ real_sum_ R_ops n p c = Some (rsum xs) /\
      Rabs (sr - rsum xs) <= gamma eps (n - 1) * rsum (map Rabs xs) + INR (n - 1) * eta * (1 + gamma eps (n - 1)).
  Proof.
    intros Hb Hn Hh Hg xs. destruct (sum_round_sharp _ _ _ M n p c Hb Hn Hh) as (sr & E1 & E2 & B).
    exists sr. split; [exact E1|]. split; [exact E2|]. fold xs in B.
    apply (bound_gamma _ _ _ M (n - 1)); [exact Hg| | |lra].
    - rewrite <- (map_id xs) at 1. rewrite <- (map_id xs). rewrite map_map. apply (rsum_abs_nonneg (fun v => v)).
    - apply Rmult_le_pos; [apply pos_INR|apply (eta_ge0 _ _ _ M)].
  Qed.

  Theorem dot_round_gamma (n : nat) (X : list R) (Xc : nat) (Y : list R) (Yc : nat) : in_bounds n X 0 Xc -> in_bounds n Y 0 Yc ->
    (1 <= n)%nat -> (forall v, rnd (rnd v) = rnd v) -> INR n * eps < 1 ->
    let ps := prods (cells 0 n X 0 Xc) (cells 0 n Y 0 Yc) in
    exists dr, real_dot_ (Rnd_ops rnd) n X Xc Y Yc = Some dr /\ real_dot_ R_ops n X Xc Y Yc = Some (rsum ps) /\
      Rabs (dr - rsum ps) <= gamma eps n * rsum (map Rabs ps) + (2 * INR n - 1) * eta * (1 + gamma eps n).
  Proof.
    intros HX HY Hn Hid Hg ps. destruct (dot_round_sharp _ _ _ M n X Xc Y Yc HX HY Hn Hid) as (dr & E1 & E2 & B).
    exists dr. split; [exact E1|]. split; [exact E2|]. fold ps in B.
    apply (bound_gamma _ _ _ M n); [exact Hg| | |lra].
    - apply (rsum_abs_nonneg (fun v => v)).
    - apply Rmult_le_pos; [|apply (eta_ge0 _ _ _ M)]. assert (1 <= INR n) by (apply (le_INR 1); exact Hn). lra.
  Qed.
End Gamma.

(* ------------------------------------------------------------ non-vacuity *)
(* (1) the identity is a model (eps = eta = 0): every bound is 0 and the two instances agree *)
Lemma Rabs_le0 a b : Rabs (a - b) <= 0 -> a = b.
Proof. intros H. pose proof (Rabs_pos (a - b)). destruct (Req_dec (a - b) 0) as [E|E]; [lra|]. apply Rabs_no_R0 in E. lra. Qed.

Example reductions_round_id :
  real_sum_ (Rnd_ops (fun v => v)) 3 [1; 2; 4] 1 = real_sum_ R_ops 3 [1; 2; 4] 1 /\
  real_dot_ (Rnd_ops (fun v => v)) 2 [1; 2] 1 [3; 4] 1 = real_dot_ R_ops 2 [1; 2] 1 [3; 4] 1 /\
  real_mean_ (Rnd_ops (fun v => v)) 2 [1; 2] 1 = real_mean_ R_ops 2 [1; 2] 1 /\
  real_norm2 (Rnd_ops (fun v => v)) 3 (-4) = real_norm2 R_ops 3 (-4).
Proof.
  assert (B3 : in_bounds 3 [1; 2; 4] 0 1) by (right; simpl; lia).
  assert (B2 : forall a b : R, in_bounds 2 [a; b] 0 1) by (intros; right; simpl; lia).
  split; [|split; [|split]].
  - destruct (sum_round _ _ _ std_model_id 3 [1; 2; 4] 1 B3) as (sr & E1 & E2 & B). rewrite E1, E2. f_equal.
    apply Rabs_le0. replace (1 + 0) with 1 in B by ring. rewrite pow1 in B. lra.
  - destruct (dot_round _ _ _ std_model_id 2 [1; 2] 1 [3; 4] 1 (B2 _ _) (B2 _ _)) as (dr & E1 & E2 & B). rewrite E1, E2. f_equal.
    apply Rabs_le0. replace (1 + 0) with 1 in B by ring. rewrite pow1 in B. lra.
  - destruct (mean_round _ _ _ std_model_id 2 [1; 2] 1 (B2 _ _)) as (mr & E1 & E2 & B); [lia|reflexivity|reflexivity|]. rewrite E1, E2. f_equal.
    apply Rabs_le0. replace (1 + 0) with 1 in B by ring. rewrite pow1 in B. lra.
  - destruct (norm2_round _ _ _ std_model_id 3 (-4)) as (E & B); [reflexivity|lra|right; rewrite Rabs_pos_eq; lra|right; rewrite Rabs_left; lra|].
    rewrite E. apply Rabs_le0. lra.
Qed.

(* (2) a genuinely inexact model, rnd v = v (1 + 1/8): summing [1; 2] gives ((0 + 1) 9/8 + 2) 9/8 = 225/64, not 3;
   the error 33/64 is inside the bound ((9/8)^2 - 1) * 3 = 51/64 *)
Example sum_round_scale :
  real_sum_ (Rnd_ops (fun v => v * (1 + / 8))) 2 [1; 2] 1 = Some (225 / 64) /\ real_sum_ R_ops 2 [1; 2] 1 = Some 3 /\
  Rabs (225 / 64 - 3) <= ((1 + / 8) ^ 2 - 1) * rsum (map Rabs [1; 2]) + INR 2 * 0 * (1 + / 8) ^ 2.
Proof.
  split; [|split].
  - unfold real_sum_, red. cbn [strided nth_error Nat.add option_map fold_left]. unfold_rops. f_equal. field.
  - unfold real_sum_, red. cbn [strided nth_error Nat.add option_map fold_left]. unfold_ops. f_equal. ring.
  - unfold rsum. cbn [map fold_right]. rewrite !Rabs_pos_eq by lra. simpl. lra.
Qed.

(* ------------------------------------------------------------ IEEE binary64 (Flocq): eps = 2^-53, eta = 2^-1075 *)
Local Notation P64 k := ((1 + eps64) ^ k).

Theorem sum_round_binary64 (n : nat) (p : list R) (c : nat) : in_bounds n p 0 c ->
  let xs := cells 0 n p 0 c in
  exists sr, real_sum_ (Rnd_ops rnd64) n p c = Some sr /\ real_sum_ R_ops n p c = Some (rsum xs) /\
    Rabs (sr - rsum xs) <= (P64 n - 1) * rsum (map Rabs xs) + INR n * eta64 * P64 n /\
    ((1 <= n)%nat -> rnd64 (nth 0 p 0) = nth 0 p 0 ->
     Rabs (sr - rsum xs) <= (P64 (n - 1) - 1) * rsum (map Rabs xs) + INR (n - 1) * eta64 * P64 (n - 1)).
Proof.
  intros Hb xs. destruct (sum_round _ _ _ std_model_binary64 n p c Hb) as (sr & E1 & E2 & B).
  exists sr. split; [exact E1|]. split; [exact E2|]. split; [exact B|].
  intros Hn Hh. destruct (sum_round_sharp _ _ _ std_model_binary64 n p c Hb Hn Hh) as (sr' & E1' & _ & B').
  rewrite E1 in E1'. injection E1' as <-. exact B'.
Qed.

Theorem dot_round_binary64 (n : nat) (X : list R) (Xc : nat) (Y : list R) (Yc : nat) : in_bounds n X 0 Xc -> in_bounds n Y 0 Yc ->
  (1 <= n)%nat ->
  let ps := prods (cells 0 n X 0 Xc) (cells 0 n Y 0 Yc) in
  exists dr, real_dot_ (Rnd_ops rnd64) n X Xc Y Yc = Some dr /\ real_dot_ R_ops n X Xc Y Yc = Some (rsum ps) /\
    Rabs (dr - rsum ps) <= (P64 n - 1) * rsum (map Rabs ps) + (2 * INR n - 1) * eta64 * P64 n.
Proof. intros HX HY Hn. exact (dot_round_sharp _ _ _ std_model_binary64 n X Xc Y Yc HX HY Hn rnd64_idem). Qed.

Theorem mean_round_binary64 (n : nat) (p : list R) (c : nat) : in_bounds n p 0 c -> (1 <= n <= 2 ^ 53)%nat ->
  let xs := cells 0 n p 0 c in
  exists mr, real_mean_ (Rnd_ops rnd64) n p c = Some mr /\ real_mean_ R_ops n p c = Some (rsum xs / INR n) /\
    Rabs (mr - rsum xs / INR n)
      <= (P64 (n + 2) - 1) * (rsum (map Rabs xs) / INR n) + eta64 * P64 (n + 2) * ((1 + eps64) * rsum (map Rabs xs) + 2 * INR n).
Proof.
  intros Hb [Hn1 Hn2]. exact (mean_round _ _ _ std_model_binary64 n p c Hb Hn1 rnd64_1 (rnd64_INR n Hn2)).
Qed.

Lemma eps_eta64_small : eps64 + eta64 <= / 64.
Proof.
  assert (eta64 <= eps64) by (apply Flocq.Core.Raux.bpow_le; lia).
  rewrite eps64_val in *. lra.
Qed.

(* every binary64 number is 0 or at least 2^-1074 = 2 eta64 in magnitude, so the side conditions on x, y hold for all
   floating-point arguments; they are stated on reals because the model is over R *)
Theorem norm2_round_binary64 (x y : R) :
  (x = 0 \/ 2 * eta64 <= Rabs x) -> (y = 0 \/ 2 * eta64 <= Rabs y) ->
  let h := sqrt (x * x + y * y) in
  real_norm2 R_ops x y = h /\
  Rabs (real_norm2 (Rnd_ops rnd64) x y - h) <= 7 / 2 * (eps64 + eta64) * h + eta64.
Proof. intros Hx Hy. exact (norm2_round _ _ _ std_model_binary64 x y rnd64_1 eps_eta64_small Hx Hy). Qed.

Example norm2_round_binary64_ex :
  Rabs (real_norm2 (Rnd_ops rnd64) 3 (-4) - 5) <= 7 / 2 * (eps64 + eta64) * 5 + eta64.
Proof.
  assert (E : eta64 <= / 2).
  { change (/ 2) with (Flocq.Core.Raux.bpow Flocq.Core.Zaux.radix2 (-1)). apply Flocq.Core.Raux.bpow_le. lia. }
  destruct (norm2_round_binary64 3 (-4)) as (_ & B).
  - right. rewrite Rabs_pos_eq; lra.
  - right. rewrite Rabs_left; lra.
  - replace (3 * 3 + -4 * -4) with (5 * 5) in B by ring. rewrite sqrt_square in B by lra. exact B.
Qed.
