(* C11: the binary64 instance of the model, wrapped so that every case of the correspondence run is a `list float`
   printed in the order harness/C11/drv.c prints it.  Definitions only (glue for vm_compute; nothing is proved here). *)
From Coq Require Import ZArith Floats List.
From LibaV Require Import Common.NumOps Common.FloatOps C11.MathDefs.
Import ListNotations.
Local Open Scope float_scope.

Definition F := F64_ops.
(* option results: 1 followed by the cells, or a lone 0 for an out-of-bounds access of the model (the C side always
   prints 1: the generator never asks the C for an out-of-bounds access) *)
Definition ov (o : option float) : list float := match o with Some v => [1; v] | None => [0] end.
Definition ol (o : option (list float)) : list float := match o with Some l => 1 :: l | None => [0] end.
Definition ol2 (o : option (list float * list float)) : list float :=
  match o with Some (a, b) => 1 :: a ++ b | None => [0] end.
Definition p2 (p : float * float) : list float := [fst p; snd p].
Definition p3 (p : float * float * float) : list float := [fst (fst p); snd (fst p); snd p].

Definition r_asinh x := [real_asinh F x].
Definition r_acosh x := [real_acosh F x].
Definition r_atanh x := [real_atanh F x].
Definition r_expm1 x := [real_expm1 F x].
Definition r_log1p x := [real_log1p F x].
Definition r_atan2 y x := [real_atan2 F y x].
Definition r_norm2 x y := [real_norm2 F x y].
Definition r_norm3 x y z := [real_norm3 F x y z].
Definition r_r2d x := [real_rad2deg F x].
Definition r_d2r x := [real_deg2rad F x].
Definition r_c2p x y := p2 (real_cart2pol F x y).
Definition r_p2c r t := p2 (real_pol2cart F r t).
Definition r_c2s x y z := p3 (real_cart2sph F x y z).
Definition r_s2c r t a := p3 (real_sph2cart F r t a).
Definition r_norm n p := ov (real_norm F n p).
Definition r_norm_ n c p := ov (real_norm_ F n p c).
Definition r_sum n p := ov (real_sum F n p).
Definition r_sum_ n c p := ov (real_sum_ F n p c).
Definition r_sum1 n p := ov (real_sum1 F n p).
Definition r_sum1_ n c p := ov (real_sum1_ F n p c).
Definition r_sum2 n p := ov (real_sum2 F n p).
Definition r_sum2_ n c p := ov (real_sum2_ F n p c).
Definition r_mean n p := ov (real_mean F n p).
Definition r_mean_ n c p := ov (real_mean_ F n p c).
Definition r_dot n x y := ov (real_dot F n x y).
Definition r_dot_ n xc yc x y := ov (real_dot_ F n x xc y yc).
Definition r_copy n d s (m : list float) := ol (real_copy n m d s).
Definition r_copy_ n d dc s sc (m : list float) := ol (real_copy_ n m d dc s sc).
Definition r_swap n l r (m : list float) := ol (real_swap n m l r).
Definition r_swap_ n l lc r rc (m : list float) := ol (real_swap_ n m l lc r rc).
Definition r_fill n v (p : list float) := ol (real_fill n p v).
Definition r_zero n (p : list float) := ol (real_zero F n p).
Definition r_pushf n x (p : list float) := ol (real_push_fore p n x).
Definition r_pushb n x (p : list float) := ol (real_push_back p n x).
Definition r_pushf_ bn cn (b c : list float) := ol (real_push_fore_ b bn c cn).
Definition r_pushb_ bn cn (b c : list float) := ol (real_push_back_ b bn c cn).
Definition r_rollf n (p : list float) := ol (real_roll_fore p n).
Definition r_rollb n (p : list float) := ol (real_roll_back p n).
Definition r_rollf_ bn sn (b s : list float) := ol2 (real_roll_fore_ b bn s sn).
Definition r_rollb_ bn sn (b s : list float) := ol2 (real_roll_back_ b bn s sn).
