(* C11 proofs, part 5: DEFINEDNESS.  Over Coq's reals x/0 = 0, sqrt of a negative number is 0 and ln of a non-positive
   number is 0, so a theorem about the model instantiated with R_ops could hold for the wrong reason.  Here the model
   is instantiated with a second real-number instance, Rp_ops p, in which a division by zero, a square root of a negative
   number and a logarithm of a non-positive number all return an arbitrary "poison" value p.  For every function and
   every argument in the property's domain the result is shown to be the same as with R_ops, for EVERY p: no such
   operation is executed on the path taken (or its result is never used). *)
From Coq Require Import Reals Lra Lia List ZArith Bool.
From LibaV Require Import Common.NumOps Common.ROps C11.MathDefs C11.HypProofs C11.Expm1Proofs C11.ListProofs.
Import ListNotations.
Local Open Scope R_scope.

Definition Rp_div (p a b : R) : R := if Req_EM_T b 0 then p else a / b.
Definition Rp_sqrt (p a : R) : R := if Rle_dec 0 a then R_sqrt.sqrt a else p.
Definition Rp_ln (p a : R) : R := if Rlt_dec 0 a then ln a else p.
Definition Rp_fn1 (p : R) (f : lib1) (x : R) : R := match f with Log => Rp_ln p x | _ => R_fn1 f x end.

Definition Rp_ops (p : R) : NumOps R := {|
  zero := 0; one := 1;
  add := Rplus; sub := Rminus; mul := Rmult; div := Rp_div p;
  opp := Ropp; abs := Rabs; sqrt := Rp_sqrt p;
  ltb := Rltb; leb := Rleb; eqb := Reqb;
  ofZ := IZR;
  ofD := fun m e => IZR m * powerRZ 2 e;
  fn1 := Rp_fn1 p; fn2 := R_fn2
|}.

Lemma Rp_div_ok p a b : b <> 0 -> Rp_div p a b = a / b.
Proof. intros H. unfold Rp_div. destruct (Req_EM_T b 0); [contradiction|reflexivity]. Qed.
Lemma Rp_sqrt_ok p a : 0 <= a -> Rp_sqrt p a = R_sqrt.sqrt a.
Proof. intros H. unfold Rp_sqrt. destruct (Rle_dec 0 a); [reflexivity|contradiction]. Qed.
Lemma Rp_ln_ok p a : 0 < a -> Rp_ln p a = ln a.
Proof. intros H. unfold Rp_ln. destruct (Rlt_dec 0 a); [reflexivity|contradiction]. Qed.

Ltac up p :=
  unfold flog, fexp, fatan, fsin, fcos in *;
  cbn [zero one add sub mul div opp abs sqrt ltb leb eqb ofZ ofD fn1 fn2 R_ops Rp_ops gtb geb neb] in *;
  unfold gtb, geb, neb in *;
  cbn [zero one add sub mul div opp abs sqrt ltb leb eqb ofZ ofD fn1 fn2 R_ops Rp_ops R_fn1 Rp_fn1] in *.

(* facts the side conditions need: square roots are >= 0, inverses of positive numbers are positive *)
Ltac sqrt_facts :=
  repeat match goal with
         | |- context [R_sqrt.sqrt ?t] =>
             lazymatch goal with
             | H : 0 <= R_sqrt.sqrt t |- _ => fail
             | _ => pose proof (sqrt_pos t)
             end
         end.
Ltac inv_facts :=
  repeat match goal with
         | |- context [/ ?t] =>
             lazymatch goal with
             | H : 0 < / t |- _ => fail
             | _ => assert (0 < / t) by (apply Rinv_0_lt_compat; sqrt_facts; first [ lra | nra ]);
                    assert (t * / t = 1) by (apply Rinv_r; sqrt_facts; first [ lra | nra ])
             end
         end.
Ltac side := first [ lra | nra | sqrt_facts; first [ lra | nra ] | unfold Rdiv; sqrt_facts; inv_facts; first [ lra | nra ] ].

Ltac pd p :=
  repeat first
    [ match goal with
      | |- context [Rp_div p ?a ?b] => rewrite (Rp_div_ok p a b) by side
      | |- context [Rp_sqrt p ?a] => rewrite (Rp_sqrt_ok p a) by side
      | |- context [Rp_ln p ?a] => rewrite (Rp_ln_ok p a) by side
      end
    | match goal with
      | |- context [Rltb ?a ?b] => destruct (Rltb_spec a b)
      | |- context [Rleb ?a ?b] => destruct (Rleb_spec a b)
      | |- context [Reqb ?a ?b] => destruct (Reqb_spec a b)
      end ];
  cbn [andb orb negb].

Lemma cse_p p : c_sqrt_eps (Rp_ops p) = / 67108864.
Proof. exact c_sqrt_eps_val. Qed.
Lemma ce_p p : c_eps (Rp_ops p) = / 4503599627370496.
Proof. exact c_eps_val. Qed.
Lemma ch_p p : c_half (Rp_ops p) = / 2.
Proof. exact c_half_val. Qed.

Lemma isinf_p p x : isinf (Rp_ops p) x = false.
Proof. exact (isinf_R x). Qed.
Lemma isnan_p p x : isnan (Rp_ops p) x = false.
Proof. exact (isnan_R x). Qed.

Theorem log1p_defined p x : -1 < x -> real_log1p (Rp_ops p) x = real_log1p R_ops x.
Proof.
  intros H. unfold real_log1p. rewrite isinf_p, isinf_R. up p. pd p; try lra; reflexivity.
Qed.

Theorem asinh_defined p x : real_asinh (Rp_ops p) x = real_asinh R_ops x.
Proof.
  unfold real_asinh, real_log1p. rewrite !isinf_p, !isinf_R, cse_p, c_sqrt_eps_val. up p.
  pose proof (Rabs_pos x). generalize dependent (Rabs x). intros a Ha.
  pd p; try lra; try reflexivity.
Qed.

Theorem acosh_defined p x : 1 <= x -> real_acosh (Rp_ops p) x = real_acosh R_ops x.
Proof.
  intros Hx. unfold real_acosh, real_log1p. rewrite !isinf_p, !isinf_R, cse_p, c_sqrt_eps_val. up p.
  pd p; try lra; try reflexivity.
Qed.

Theorem atanh_defined p x : -1 < x < 1 -> real_atanh (Rp_ops p) x = real_atanh R_ops x.
Proof.
  intros Hx. unfold real_atanh, real_log1p. rewrite !isinf_p, !isinf_R, ce_p, c_eps_val, ch_p, c_half_val. up p.
  assert (Ha : 0 <= Rabs x < 1) by (unfold Rabs; destruct (Rcase_abs x); lra).
  generalize dependent (Rabs x). intros a Ha.
  pd p; try lra; try reflexivity.
Qed.

Theorem atan2_defined p y x : real_atan2 (Rp_ops p) y x = real_atan2 R_ops y x.
Proof. unfold real_atan2. up p. pd p; try lra; reflexivity. Qed.

Theorem norm2_defined p x y : real_norm2 (Rp_ops p) x y = real_norm2 R_ops x y.
Proof.
  unfold real_norm2. rewrite !isinf_p, !isinf_R. up p.
  pose proof (Rabs_pos x) as Ha. pose proof (Rabs_pos y) as Hb. revert Ha Hb. generalize (Rabs x) (Rabs y). intros a b Ha Hb.
  destruct (Rltb_spec b a); cbn [fst snd]; pd p; try lra; reflexivity.
Qed.
Theorem norm3_defined p x y z : real_norm3 (Rp_ops p) x y z = real_norm3 R_ops x y z.
Proof.
  unfold real_norm3. rewrite !isinf_p, !isinf_R. up p.
  pose proof (Rabs_pos x) as Ha. pose proof (Rabs_pos y) as Hb. pose proof (Rabs_pos z) as Hc. revert Ha Hb Hc.
  generalize (Rabs x) (Rabs y) (Rabs z). intros a b c Ha Hb Hc.
  destruct (Rltb_spec b a); cbn [fst snd]; (destruct (Rltb_spec c a) || destruct (Rltb_spec c b)); cbn [fst snd]; pd p; try lra; reflexivity.
Qed.

Theorem cart2pol_defined p x y : real_cart2pol (Rp_ops p) x y = real_cart2pol R_ops x y.
Proof. unfold real_cart2pol. rewrite norm2_defined, atan2_defined. reflexivity. Qed.
Theorem cart2sph_defined p x y z : real_cart2sph (Rp_ops p) x y z = real_cart2sph R_ops x y z.
Proof. unfold real_cart2sph. rewrite !norm2_defined, !atan2_defined. reflexivity. Qed.
Theorem pol2cart_defined p r t : real_pol2cart (Rp_ops p) r t = real_pol2cart R_ops r t.
Proof. reflexivity. Qed.
Theorem sph2cart_defined p r t a : real_sph2cart (Rp_ops p) r t a = real_sph2cart R_ops r t a.
Proof. reflexivity. Qed.

Theorem expm1_defined p x : real_expm1 (Rp_ops p) x = real_expm1 R_ops x.
Proof.
  unfold real_expm1. rewrite isnan_p, isinf_p, isnan_R, isinf_R, ch_p, c_half_val. up p.
  destruct (Rltb_spec x (- / 2)); destruct (Rltb_spec (/ 2) x); cbn [orb]; try reflexivity.
  unfold expm1_rat.
  change (polevl (Rp_ops p) (expm1_P (Rp_ops p))) with (polevl R_ops (expm1_P R_ops)).
  change (polevl (Rp_ops p) (expm1_Q (Rp_ops p))) with (polevl R_ops (expm1_Q R_ops)).
  up p. rewrite Rp_div_ok; [reflexivity|].
  pose proof (expm1_rat_divisor x). lra.
Qed.

(* vector norm: the scan never stops early over R, every division is by the largest magnitude and only when it is > 0 *)
Theorem norm_cells_defined p (l : list R) : norm_cells (Rp_ops p) l = norm_cells R_ops l.
Proof.
  unfold norm_cells.
  change (norm_scan (Rp_ops p) l (ofZ (Rp_ops p) 0)) with (norm_scan R_ops l (ofZ R_ops 0)).
  rewrite norm_scan_R. cbn [ofZ R_ops]. set (w := maxabs l 0). up p.
  destruct (Rleb_spec w 0); [reflexivity|]. assert (Hw : w <> 0) by lra.
  assert (E : forall l' a, fold_left (fun s q => s + Rp_div p q w * Rp_div p q w) l' a = fold_left (fun s q => s + q / w * (q / w)) l' a).
  { induction l' as [|h t IH]; intros a; [reflexivity|]. cbn [fold_left]. rewrite !Rp_div_ok by auto. apply IH. }
  rewrite E. rewrite Rp_sqrt_ok; [reflexivity|].
  rewrite scaled_sumsq by auto. pose proof (sumsq_nonneg l). apply Rmult_le_pos; [lra|]. apply Rlt_le, Rinv_0_lt_compat. nra.
Qed.
Theorem norm_defined p n l c : real_norm_ (Rp_ops p) n l c = real_norm_ R_ops n l c /\ real_norm (Rp_ops p) n l = real_norm R_ops n l.
Proof.
  unfold real_norm_, real_norm. split.
  - destruct (c =? 0)%nat; [reflexivity|]. destruct (strided n l 0 c); [cbn [option_map]; rewrite norm_cells_defined|]; reflexivity.
  - destruct (strided n l 0 1); [cbn [option_map]; rewrite norm_cells_defined|]; reflexivity.
Qed.
(* mean: 1/(a_real)n is a division by zero only for n = 0, and then no cell is visited and the quotient is never used *)
Theorem mean_defined p n l c : real_mean_ (Rp_ops p) n l c = real_mean_ R_ops n l c.
Proof.
  unfold real_mean_, red. destruct n as [|n].
  - cbn [strided option_map fold_left]. reflexivity.
  - up p. rewrite Rp_div_ok; [reflexivity|]. apply not_0_IZR. lia.
Qed.

(* ------------------------------------------------------------ the clauses collected *)
Theorem defined_scalar p :
  (forall x, -1 < x -> real_log1p (Rp_ops p) x = real_log1p R_ops x) /\
  (forall x, real_asinh (Rp_ops p) x = real_asinh R_ops x) /\
  (forall x, 1 <= x -> real_acosh (Rp_ops p) x = real_acosh R_ops x) /\
  (forall x, -1 < x < 1 -> real_atanh (Rp_ops p) x = real_atanh R_ops x) /\
  (forall x, real_expm1 (Rp_ops p) x = real_expm1 R_ops x) /\
  (forall y x, real_atan2 (Rp_ops p) y x = real_atan2 R_ops y x).
Proof.
  repeat split; intros.
  - apply log1p_defined; auto.
  - apply asinh_defined.
  - apply acosh_defined; auto.
  - apply atanh_defined; auto.
  - apply expm1_defined.
  - apply atan2_defined.
Qed.
Theorem defined_geometry p :
  (forall x y, real_norm2 (Rp_ops p) x y = real_norm2 R_ops x y) /\
  (forall x y z, real_norm3 (Rp_ops p) x y z = real_norm3 R_ops x y z) /\
  (forall n l c, real_norm_ (Rp_ops p) n l c = real_norm_ R_ops n l c /\ real_norm (Rp_ops p) n l = real_norm R_ops n l) /\
  (forall n l c, real_mean_ (Rp_ops p) n l c = real_mean_ R_ops n l c) /\
  (forall x y, real_cart2pol (Rp_ops p) x y = real_cart2pol R_ops x y) /\
  (forall x y z, real_cart2sph (Rp_ops p) x y z = real_cart2sph R_ops x y z) /\
  (forall r t, real_pol2cart (Rp_ops p) r t = real_pol2cart R_ops r t) /\
  (forall r t a, real_sph2cart (Rp_ops p) r t a = real_sph2cart R_ops r t a).
Proof.
  split; [exact (norm2_defined p)|]. split; [exact (norm3_defined p)|]. split; [exact (norm_defined p)|].
  split; [exact (mean_defined p)|]. split; [exact (cart2pol_defined p)|]. split; [exact (cart2sph_defined p)|].
  split; [exact (pol2cart_defined p) | exact (sph2cart_defined p)].
Qed.

(* outside the domain the C returns NaN / +-inf on purpose: those are exactly the branches that DO divide by zero
   (A_REAL_INF is 1/0-like, A_REAL_NAN = 0 * inf), so over the poisoned reals they return the poison *)
Theorem domain_edges p :
  real_acosh (Rp_ops p) (1 / 2) = c_nan (Rp_ops p) /\ real_atanh (Rp_ops p) 2 = c_nan (Rp_ops p) /\
  real_atanh (Rp_ops p) 1 = c_inf (Rp_ops p) /\ real_atanh (Rp_ops p) (-1) = - c_inf (Rp_ops p) /\ c_inf (Rp_ops p) = p.
Proof.
  assert (A2 : Rabs 2 = 2) by (apply Rabs_right; lra). assert (A1 : Rabs 1 = 1) by (apply Rabs_right; lra).
  assert (Am : Rabs (-1) = 1) by (rewrite Rabs_left; lra).
  repeat split.
  - unfold real_acosh. rewrite cse_p. up p. rewrite Rp_div_ok by lra.
    replace (1 / / 67108864) with 67108864 by field.
    destruct (Rltb_spec 67108864 (1 / 2)); [lra|]. destruct (Rltb_spec 2 (1 / 2)); [lra|].
    destruct (Rltb_spec 1 (1 / 2)); [lra|]. destruct (Reqb_spec (1 / 2) 1); [lra|]. reflexivity.
  - unfold real_atanh. up p. rewrite A2. destruct (Rltb_spec 1 2); [reflexivity|lra].
  - unfold real_atanh. up p. rewrite A1. destruct (Rltb_spec 1 1); [lra|]. destruct (Reqb_spec 1 1); [|lra].
    destruct (Rltb_spec 1 0); [lra|]. reflexivity.
  - unfold real_atanh. up p. rewrite Am. destruct (Rltb_spec 1 1); [lra|]. destruct (Reqb_spec 1 1); [|lra].
    destruct (Rltb_spec (-1) 0); [|lra]. reflexivity.
  - unfold c_inf. up p. unfold Rp_div. destruct (Req_EM_T 0 0); [reflexivity|lra].
Qed.
