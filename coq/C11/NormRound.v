(* C11: forward error bound of the n-element scaled Euclidean norm a_real_norm / a_real_norm_ at the ROUNDED instance
   Rnd_ops rnd (Common/RoundOps.v: every + - * / sqrt followed by rnd, comparisons and fabs exact, overflow outside the
   model), for EVERY length n >= 1 and stride, every std_model rnd eps eta.

   The model (C11/MathDefs.v norm_cells; tied to the C for every length by harness/C11/TieLoop*.v):
     pass 1   w = max |p_i|            exact (fabs and comparisons do not round; the isinf test  x + x == x && x != 0  is
                                       false for every cell that is 0 or at least 2 eta in magnitude)
     pass 2   s = sum rnd (q_i q_i), q_i = rnd (p_i / w), accumulated by s := rnd (s + ..), from 0
     result   rnd (rnd (sqrt s) * w)
   3 roundings per term before the accumulation, n accumulations, 2 more at the end; the exact scaled sum S lies in [1, n].

   norm_cells_round : for  (n + 3) (eps + eta) <= 1/64,  0 < w,  every cell 0 or >= 2 eta in magnitude, N = sqrt (sum p_i^2):
        |fl - N| <= ((9/16 n + 15/4) eps + (9/4 n + 17/16) eta) N + eta        (first-order truth: (n/2 + 3.5) eps)
   hence
        |fl - N| <= (9/4 n + 15/4) (eps + eta) N + eta.
   The eta inside the bracket is the price of underflow in the scaled quantities (all of size <= n, the sum >= 1); the last
   eta is the absolute underflow error of the final product by w.  norm_cells_round_zero: w = 0 (all cells 0) returns 0.
   norm_round / norm_round_binary64: the same for real_norm_ (any stride >= 1) and real_norm on the cells visited.
   norm3_round / norm3_round_binary64: a_real_norm3 (different code: the largest magnitude found by two compare-and-swaps, two
   quotients, + 1): |fl - N| <= (21/4 eps + 25/4 eta) N + eta for eps + eta <= 1/64, rnd 1 = 1 (first-order truth 4.5 eps). *)
From Coq Require Import Reals Lra Lia List ZArith Bool Arith.
From LibaV Require Import Common.NumOps Common.ROps Common.RoundOps Common.RoundFlocq C11.MathDefs C11.HypProofs C11.GeomProofs
                          C11.ListProofs C11.RangeProofs C11.RoundProofs.
Import ListNotations.
Local Open Scope R_scope.
Local Notation sqrt := R_sqrt.sqrt.

(* the bound *)
Definition norm_C (n : nat) (eps eta : R) : R := (9 / 16 * INR n + 15 / 4) * eps + (9 / 4 * INR n + 17 / 16) * eta.

Lemma rsum_const {A} (c : R) (l : list A) : rsum (map (fun _ => c) l) = c * INR (length l).
Proof. induction l; cbn [map length]; [unfold rsum; simpl; ring|]. rewrite rsum_cons, IHl, S_INR. ring. Qed.

Section NormN.
  Variable rnd : R -> R.
  Variables eps eta : R.
  Hypothesis M : std_model rnd eps eta.
  Local Notation P k := ((1 + eps) ^ k).

  Definition cell_ok (p : R) : Prop := p = 0 \/ 2 * eta <= Rabs p.

  (* pass 1 is exact *)
  Lemma norm_scan_rnd (l : list R) : Forall cell_ok l -> forall w, norm_scan (Rnd_ops rnd) l w = Some (maxabs l w).
  Proof.
    induction 1 as [|p r Hp _ IH]; intros w; [reflexivity|]. cbn [norm_scan]. cbn [abs Rnd_ops].
    rewrite (isinf_rnd _ _ _ M (Rabs p) (Rabs_pos p)).
    - unfold maxabs. cbn [fold_left]. fold (maxabs r (Rmax w (Rabs p))). rewrite <- IH. f_equal.
      unfold gtb. cbn [ltb Rnd_ops].
      destruct (Rltb_spec w (Rabs p)); [rewrite Rmax_right by lra | rewrite Rmax_left by lra]; reflexivity.
    - destruct Hp as [->|Hp]; [left; apply Rabs_R0|right; exact Hp].
  Qed.

  Lemma norm_cells_rnd_eq (l : list R) : Forall cell_ok l ->
    let w := maxabs l 0 in
    norm_cells (Rnd_ops rnd) l =
      if Rleb w 0 then 0
      else rnd (rnd (sqrt (fold_left (fun s p => rnd (s + rnd (rnd (p / w) * rnd (p / w)))) l 0)) * w).
  Proof.
    intros H w. unfold norm_cells. cbn [ofZ Rnd_ops]. rewrite (rnd_0 _ _ _ M).
    rewrite (norm_scan_rnd l H 0). fold w. cbn [leb sqrt mul add div Rnd_ops]. reflexivity.
  Qed.

  Theorem norm_cells_round_zero (l : list R) : Forall cell_ok l -> maxabs l 0 <= 0 ->
    norm_cells (Rnd_ops rnd) l = 0 /\ norm_cells R_ops l = 0 /\ sumsq l = 0.
  Proof.
    intros H Hw. rewrite (norm_cells_rnd_eq l H). cbv zeta.
    destruct (Rleb_spec (maxabs l 0) 0) as [_|C]; [|lra].
    destruct (norm_cells_spec l) as [Z _]. cbv zeta in Z. destruct (Z Hw) as [Z1 Z2]. auto.
  Qed.

  (* one term of pass 2: rnd (rnd q * rnd q) against q * q, |q| <= 1 *)
  Definition norm_be : R := (1 + eps) * (2 * (1 + eps) + eta) + 1.

  Lemma sq_term (q : R) : -1 <= q <= 1 ->
    Rabs (rnd (rnd q * rnd q) - q * q) <= (P 3 - 1) * (q * q) + eta * norm_be.
  Proof.
    intros Hq. pose proof (eps_ge0 _ _ _ M) as Hu. pose proof (eta_ge0 _ _ _ M) as Ht.
    pose proof (rnd_err _ _ _ M q) as Ha.
    set (qh := rnd q) in *. set (a := Rabs q) in *.
    assert (Ha1 : 0 <= a <= 1) by (unfold a; split; [apply Rabs_pos|apply Rabs_le; lra]).
    assert (Et : q * q = a * a) by (unfold a; rewrite abs_sq; reflexivity).
    set (D := Rabs (qh - q)) in *. assert (HD : 0 <= D) by apply Rabs_pos.
    assert (Hb : Rabs (qh * qh - q * q) <= D * (D + 2 * a)).
    { replace (qh * qh - q * q) with ((qh - q) * ((qh - q) + 2 * q)) by ring. rewrite Rabs_mult. fold D.
      apply Rmult_le_compat_l; [exact HD|]. eapply Rle_trans; [apply Rabs_triang|]. fold D.
      rewrite Rabs_mult, (Rabs_pos_eq 2) by lra. fold a. lra. }
    assert (Hb2 : D * (D + 2 * a) <= (eps * a + eta) * ((eps * a + eta) + 2 * a)).
    { apply Rmult_le_compat; lra. }
    assert (Hb3 : (eps * a + eta) * ((eps * a + eta) + 2 * a) <= (P 2 - 1) * (a * a) + eta * (2 * (1 + eps) + eta)).
    { simpl pow. assert (eta * a <= eta) by nra. assert (eps * (eta * a) <= eps * eta) by (apply Rmult_le_compat_l; lra). nra. }
    pose proof (rnd_step _ _ _ M (qh * qh) (q * q)) as Hc. rewrite (Rabs_pos_eq (q * q)) in Hc by nra.
    set (X := Rabs (qh * qh - q * q)) in *.
    assert (HX : X <= (P 2 - 1) * (a * a) + eta * (2 * (1 + eps) + eta)) by lra.
    assert (HX2 : (1 + eps) * X <= (1 + eps) * ((P 2 - 1) * (a * a) + eta * (2 * (1 + eps) + eta)))
      by (apply Rmult_le_compat_l; lra).
    eapply Rle_trans; [exact Hc|]. rewrite Et. unfold norm_be. simpl pow in *. nra.
  Qed.

  (* ------------------------------------------------------------ the two rounded passes on a cell list *)
  Theorem norm_cells_round (l : list R) : Forall cell_ok l ->
    let w := maxabs l 0 in let n := length l in
    0 < w -> INR (n + 3) * (eps + eta) <= / 64 ->
    let N := sqrt (sumsq l) in
    norm_cells R_ops l = N /\
    Rabs (norm_cells (Rnd_ops rnd) l - N) <= norm_C n eps eta * N + eta.
  Proof.
    intros Hok w n Hw Hsmall N.
    destruct (norm_cells_spec l) as [_ [_ EN]]. split; [exact EN|].
    destruct (norm_cells_scaling l Hw) as (Hq & [S1 Sn] & ES & _). fold w in Hq, S1, Sn, ES.
    rewrite (norm_cells_rnd_eq l Hok). cbv zeta. fold w.
    destruct (Rleb_spec w 0) as [C|_]; [lra|].
    assert (ENS : N = sqrt (fold_left (fun s p => s + p / w * (p / w)) l 0) * w) by (unfold N; rewrite <- EN; exact ES).
    rewrite ENS. clear ENS EN ES N.
    pose proof (eps_ge0 _ _ _ M) as Hu. pose proof (eta_ge0 _ _ _ M) as Ht.
    set (S := fold_left (fun s p => s + p / w * (p / w)) l 0) in *.
    set (Sh := fold_left (fun s p => rnd (s + rnd (rnd (p / w) * rnd (p / w)))) l 0).
    (* n >= 1 *)
    assert (Hn1 : 1 <= INR n).
    { unfold n. destruct l as [|x l']; [unfold w, maxabs in Hw; simpl in Hw; lra|]. cbn [length]. rewrite S_INR.
      pose proof (pos_INR (length l')). lra. }
    set (nR := INR n) in *.
    assert (EnR : INR (n + 3) = nR + 3) by (rewrite plus_INR; unfold nR; simpl; lra).
    rewrite EnR in Hsmall.
    assert (Hv : eps + eta <= / 256) by nra.
    (* the accumulation *)
    assert (F : Forall (fun p : R => Rabs (p / w * (p / w)) <= p / w * (p / w) /\ 0 <= norm_be /\
                   Rabs (rnd (rnd (p / w) * rnd (p / w)) - p / w * (p / w)) <= (P 3 - 1) * (p / w * (p / w)) + eta * norm_be) l).
    { eapply Forall_impl; [|exact Hq]. cbv beta. intros p Hp. split; [rewrite Rabs_pos_eq by nra; lra|].
      split; [unfold norm_be; nra|]. apply sq_term. exact Hp. }
    pose proof (acc_fold _ _ _ M (fun p => rnd (rnd (p / w) * rnd (p / w))) (fun p => p / w * (p / w))
                  (fun p => p / w * (p / w)) (fun _ => norm_be) 3 l F 0 0 0 0 3%nat (Nat.le_refl _)) as HS.
    rewrite Rminus_diag_eq, Rabs_R0 in HS by reflexivity. specialize (HS (Rle_refl _) (Rle_refl _)).
    assert (H0 : 0 <= (P 3 - 1) * 0 + eta * P 3 * 0) by lra. specialize (HS H0). clear H0.
    fold Sh S in HS. rewrite rsum_const in HS. fold n nR in HS.
    assert (ES2 : rsum (map (fun p => p / w * (p / w)) l) = S).
    { unfold S. rewrite (fold_left_rsum (fun p => p / w * (p / w))). ring. }
    rewrite ES2, !Rplus_0_l in HS.
    (* g = (1+eps)^(n+3) *)
    set (g := P (3 + n)) in *.
    assert (Hg1 : 1 <= g) by apply (p1_ge1 _ _ _ M).
    pose proof (p1_gamma_aux _ _ _ M (3 + n)) as Hga. fold g in Hga.
    replace (INR (3 + n)) with (nR + 3) in Hga by (rewrite plus_INR; unfold nR; simpl; lra).
    set (E := (nR + 3) * eps) in *. set (Fe := nR * eta).
    assert (HE : 0 <= E) by (unfold E; nra). assert (HF : 0 <= Fe) by (unfold Fe; nra).
    assert (HEF : E + Fe <= / 64) by (unfold E, Fe; nra).
    assert (Hg2 : g <= 64 / 63) by nra.
    assert (Hg3 : g - 1 <= 64 / 63 * E) by nra.
    assert (Hbe : norm_be + 1 <= 81 / 20) by (unfold norm_be; nra).
    assert (Hbe0 : 0 <= norm_be) by (unfold norm_be; nra).
    set (theta := 64 / 63 * (E + 81 / 20 * Fe)).
    assert (Hth : 0 <= theta <= 13 / 200) by (unfold theta; lra).
    assert (HSh : Rabs (Sh - S) <= theta * S).
    { eapply Rle_trans; [exact HS|].
      assert (A1 : (g - 1) * S <= 64 / 63 * E * S) by (apply Rmult_le_compat_r; lra).
      assert (A2 : eta * g * (norm_be * nR + nR) <= 64 / 63 * (81 / 20 * Fe)).
      { replace (eta * g * (norm_be * nR + nR)) with (g * (Fe * (norm_be + 1))) by (unfold Fe; ring).
        assert (Fe * (norm_be + 1) <= Fe * (81 / 20)) by (apply Rmult_le_compat_l; lra).
        assert (0 <= Fe * (norm_be + 1)) by (apply Rmult_le_pos; lra).
        nra. }
      assert (A3 : 64 / 63 * (81 / 20 * Fe) <= 64 / 63 * (81 / 20 * Fe) * S) by nra.
      unfold theta. lra. }
    (* the square root *)
    set (r := sqrt S).
    assert (Hr1 : 1 <= r). { unfold r. rewrite <- sqrt_1. apply sqrt_le_1; lra. }
    assert (Hf : Rabs (sqrt Sh - r) <= r * (theta * (1 + theta) / 2)) by (apply sqrt_pert; lra).
    assert (Hf' : Rabs (sqrt Sh - r) <= r * (213 / 400 * theta)).
    { eapply Rle_trans; [exact Hf|]. apply Rmult_le_compat_l; [lra|]. nra. }
    (* its rounding *)
    pose proof (rnd_step _ _ _ M (sqrt Sh) r) as Hg. rewrite (Rabs_pos_eq r) in Hg by lra.
    set (rh := rnd (sqrt Sh)) in *.
    set (rho := 107 / 200 * theta + eps + eta).
    assert (Hrho : Rabs (rh - r) <= r * rho).
    { pose proof (Rabs_pos (sqrt Sh - r)).
      assert ((1 + eps) * Rabs (sqrt Sh - r) <= 257 / 256 * (r * (213 / 400 * theta))) by nra.
      assert (eta <= r * eta) by nra. unfold rho. nra. }
    (* the final product *)
    pose proof (rnd_step _ _ _ M (rh * w) (r * w)) as Hh.
    replace (rh * w - r * w) with ((rh - r) * w) in Hh by ring.
    rewrite !Rabs_mult, (Rabs_pos_eq r), (Rabs_pos_eq w) in Hh by lra.
    assert (Hrw : 0 <= r * w) by (apply Rmult_le_pos; lra).
    assert (K1 : Rabs (rh - r) * w <= r * rho * w) by (apply Rmult_le_compat_r; lra).
    assert (K2 : (1 + eps) * (Rabs (rh - r) * w) <= 257 / 256 * (r * rho * w)).
    { pose proof (Rabs_pos (rh - r)). assert (0 <= Rabs (rh - r) * w) by (apply Rmult_le_pos; lra). nra. }
    assert (K3 : 257 / 256 * rho + eps <= norm_C n eps eta).
    { unfold rho, theta, norm_C, E, Fe. fold nR. set (ne := nR * eps). set (nt := nR * eta).
      replace ((nR + 3) * eps) with (ne + 3 * eps) by (unfold ne; ring).
      replace (9 / 16 * nR * eps) with (9 / 16 * ne) by (unfold ne; ring).
      assert (0 <= ne) by (unfold ne; nra). assert (0 <= nt) by (unfold nt; nra).
      replace ((9 / 16 * nR + 15 / 4) * eps) with (9 / 16 * ne + 15 / 4 * eps) by (unfold ne; ring).
      replace ((9 / 4 * nR + 17 / 16) * eta) with (9 / 4 * nt + 17 / 16 * eta) by (unfold nt; ring).
      lra. }
    assert (K4 : (r * w) * (257 / 256 * rho + eps) <= (r * w) * norm_C n eps eta) by (apply Rmult_le_compat_l; lra).
    lra.
  Qed.

  (* the combined form *)
  Lemma norm_C_le (n : nat) : norm_C n eps eta <= (9 / 4 * INR n + 15 / 4) * (eps + eta).
  Proof.
    unfold norm_C. pose proof (eps_ge0 _ _ _ M). pose proof (eta_ge0 _ _ _ M). pose proof (pos_INR n).
    assert (0 <= INR n * eps) by (apply Rmult_le_pos; lra). assert (0 <= INR n * eta) by (apply Rmult_le_pos; lra). lra.
  Qed.

  (* ------------------------------------------------------------ a_real_norm_ / a_real_norm on the visited cells *)
  Theorem norm_round (n : nat) (p : list R) (c : nat) : (1 <= c)%nat -> in_bounds n p 0 c ->
    let xs := cells 0 n p 0 c in
    Forall cell_ok xs -> 0 < maxabs xs 0 -> INR (n + 3) * (eps + eta) <= / 64 ->
    let N := sqrt (sumsq xs) in
    exists fl, real_norm_ (Rnd_ops rnd) n p c = Some fl /\ real_norm_ R_ops n p c = Some N /\
      (c = 1%nat -> real_norm (Rnd_ops rnd) n p = Some fl) /\
      Rabs (fl - N) <= norm_C n eps eta * N + eta /\
      Rabs (fl - N) <= (9 / 4 * INR n + 15 / 4) * (eps + eta) * N + eta.
  Proof.
    intros Hc Hb xs Hok Hw Hsmall N.
    pose proof (norm_cells_round xs Hok) as H. cbv zeta in H.
    assert (L : length xs = n) by apply cells_length. rewrite L in H.
    destruct (H Hw Hsmall) as [E B]. fold N in E, B.
    exists (norm_cells (Rnd_ops rnd) xs).
    assert (R1 : real_norm_ (Rnd_ops rnd) n p c = Some (norm_cells (Rnd_ops rnd) xs)).
    { unfold real_norm_. destruct (Nat.eqb_spec c 0); [lia|]. rewrite (strided_some 0) by exact Hb. reflexivity. }
    split; [exact R1|]. split.
    - destruct (norm_spec n p c Hc) as [Q _]. exact (Q Hb).
    - split; [intros ->; exact R1|]. split; [exact B|].
      eapply Rle_trans; [exact B|].
      assert (0 <= N) by apply sqrt_pos. pose proof (norm_C_le n).
      assert (norm_C n eps eta * N <= (9 / 4 * INR n + 15 / 4) * (eps + eta) * N) by (apply Rmult_le_compat_r; lra). lra.
  Qed.
End NormN.

(* ------------------------------------------------------------ a_real_norm3: |x|, |y|, |z| exact, sorted by comparisons so
   that m is the largest; q1 = rnd (s1 / m), q2 = rnd (s2 / m); rnd (rnd (sqrt (rnd (rnd (rnd (q1 q1) + rnd (q2 q2)) + 1))) * m):
   ten roundings, first-order error 4.5 eps; proved: (21/4 eps + 25/4 eta) relative plus eta absolute, eps + eta <= 1/64 *)
Section Norm3.
  Variable rnd : R -> R.
  Variables eps eta : R.
  Hypothesis M : std_model rnd eps eta.
  Local Notation P k := ((1 + eps) ^ k).

  Lemma norm3_core (s1 s2 m : R) : 0 <= s1 <= m -> 0 <= s2 <= m -> 0 < m -> rnd 1 = 1 -> eps + eta <= / 64 ->
    Rabs (rnd (rnd (sqrt (rnd (rnd (rnd (rnd (s1 / m) * rnd (s1 / m)) + rnd (rnd (s2 / m) * rnd (s2 / m))) + 1))) * m)
          - sqrt (s1 * s1 + s2 * s2 + m * m))
      <= (21 / 4 * eps + 25 / 4 * eta) * sqrt (s1 * s1 + s2 * s2 + m * m) + eta.
  Proof.
    intros Hs1 Hs2 Hm H1 Hv.
    pose proof (eps_ge0 _ _ _ M) as Hu. pose proof (eta_ge0 _ _ _ M) as Ht.
    rewrite <- (scaled3 s1 s2 m Hm).
    set (q1 := s1 / m). set (q2 := s2 / m).
    assert (Hq : forall s, 0 <= s <= m -> 0 <= s / m <= 1).
    { intros s Hs. split; [apply Rmult_le_pos; [lra|apply Rlt_le, Rinv_0_lt_compat; lra]|].
      apply (Rmult_le_reg_r m); [lra|]. unfold Rdiv. rewrite Rmult_assoc, Rinv_l by lra. lra. }
    pose proof (Hq s1 Hs1) as Hq1. pose proof (Hq s2 Hs2) as Hq2. fold q1 in Hq1. fold q2 in Hq2. clear Hq.
    set (t1 := q1 * q1). set (t2 := q2 * q2).
    assert (Ht1 : 0 <= t1 <= 1) by (unfold t1; nra). assert (Ht2 : 0 <= t2 <= 1) by (unfold t2; nra).
    set (Be := norm_be eps eta).
    assert (HBe : 0 <= Be <= 77 / 25) by (unfold Be, norm_be; nra).
    pose proof (p1_ge1 _ _ _ M 3) as HP3.
    pose proof (sq_term _ _ _ M q1 ltac:(lra)) as A1. fold t1 Be in A1.
    pose proof (sq_term _ _ _ M q2 ltac:(lra)) as A2. fold t2 Be in A2.
    set (T1 := rnd (rnd q1 * rnd q1)) in *. set (T2 := rnd (rnd q2 * rnd q2)) in *.
    assert (A1' : Rabs (T1 - t1) <= (P 3 - 1) * t1 + eta * P 3 * Be).
    { assert (0 <= eta * Be) by (apply Rmult_le_pos; lra).
      assert (eta * Be * 1 <= eta * Be * P 3) by (apply Rmult_le_compat_l; lra). lra. }
    pose proof (acc_step _ _ _ M T1 t1 T2 t2 t1 t2 Be Be 3 3 (Nat.le_refl _)) as B1.
    rewrite (Rabs_pos_eq t1), (Rabs_pos_eq t2) in B1 by lra.
    specialize (B1 (Rle_refl _) (Rle_refl _) (proj1 HBe) (proj1 HBe) A1' A2).
    set (Ah := rnd (T1 + T2)) in *.
    pose proof (acc_step _ _ _ M Ah (t1 + t2) 1 1 (t1 + t2) 1 (Be + Be + 1) 0 4 0 ltac:(lia)) as B2.
    rewrite (Rabs_pos_eq (t1 + t2)), Rabs_R1 in B2 by lra.
    assert (Z1 : Rabs (1 - 1) <= (P 0 - 1) * 1 + eta * 0) by (rewrite Rminus_diag_eq, Rabs_R0 by reflexivity; simpl; lra).
    specialize (B2 (Rle_refl _) (Rle_refl _) ltac:(lra) (Rle_refl _) B1 Z1).
    set (S := t1 + t2 + 1) in *. assert (HS : 1 <= S <= 3) by (unfold S; lra).
    set (Sh := rnd (Ah + 1)) in *.
    set (g := P 5) in *.
    assert (Hg1 : 1 <= g) by apply (p1_ge1 _ _ _ M).
    pose proof (p1_gamma_aux _ _ _ M 5) as Hga. fold g in Hga. simpl INR in Hga.
    assert (Hg2 : g <= 64 / 59).
    { assert (g * (59 / 64) <= g * (1 - (1 + 1 + 1 + 1 + 1) * eps)) by (apply Rmult_le_compat_l; lra). lra. }
    assert (Hg3 : g - 1 <= 320 / 59 * eps).
    { assert (g * eps <= 64 / 59 * eps) by (apply Rmult_le_compat_r; lra). lra. }
    set (theta := 320 / 59 * eps + 64 / 59 * (204 / 25) * eta).
    assert (Hth : 0 <= theta <= 7 / 50) by (unfold theta; lra).
    assert (HSh : Rabs (Sh - S) <= theta * S).
    { eapply Rle_trans; [exact B2|].
      assert (A3 : (g - 1) * S <= 320 / 59 * eps * S) by (apply Rmult_le_compat_r; lra).
      assert (A4 : eta * g * (Be + Be + 1 + 0 + 1) <= 64 / 59 * (204 / 25) * eta).
      { assert (0 <= Be + Be + 1 + 0 + 1 <= 204 / 25) by lra.
        assert (eta * g <= eta * (64 / 59)) by (apply Rmult_le_compat_l; lra).
        assert (0 <= eta * g) by (apply Rmult_le_pos; lra).
        assert (eta * g * (Be + Be + 1 + 0 + 1) <= eta * (64 / 59) * (204 / 25)) by (apply Rmult_le_compat; lra). lra. }
      assert (A5 : 64 / 59 * (204 / 25) * eta <= 64 / 59 * (204 / 25) * eta * S) by nra.
      unfold theta. lra. }
    set (r := sqrt S).
    assert (Hr1 : 1 <= r). { unfold r. rewrite <- sqrt_1. apply sqrt_le_1; lra. }
    assert (Hf : Rabs (sqrt Sh - r) <= r * (theta * (1 + theta) / 2)) by (apply sqrt_pert; lra).
    assert (Hf' : Rabs (sqrt Sh - r) <= r * (57 / 100 * theta)).
    { eapply Rle_trans; [exact Hf|]. apply Rmult_le_compat_l; [lra|]. nra. }
    pose proof (rnd_step _ _ _ M (sqrt Sh) r) as Hg. rewrite (Rabs_pos_eq r) in Hg by lra.
    set (rh := rnd (sqrt Sh)) in *.
    set (rho := 58 / 100 * theta + eps + eta).
    assert (Hrho : Rabs (rh - r) <= r * rho).
    { pose proof (Rabs_pos (sqrt Sh - r)).
      assert ((1 + eps) * Rabs (sqrt Sh - r) <= 65 / 64 * (r * (57 / 100 * theta))) by nra.
      assert (eta <= r * eta) by nra. unfold rho. nra. }
    pose proof (rnd_step _ _ _ M (rh * m) (r * m)) as Hh.
    replace (rh * m - r * m) with ((rh - r) * m) in Hh by ring.
    rewrite !Rabs_mult, (Rabs_pos_eq r), (Rabs_pos_eq m) in Hh by lra.
    assert (Hrm : 0 <= r * m) by (apply Rmult_le_pos; lra).
    assert (K1 : Rabs (rh - r) * m <= r * rho * m) by (apply Rmult_le_compat_r; lra).
    assert (K2 : (1 + eps) * (Rabs (rh - r) * m) <= 65 / 64 * (r * rho * m)).
    { pose proof (Rabs_pos (rh - r)). assert (0 <= Rabs (rh - r) * m) by (apply Rmult_le_pos; lra). nra. }
    assert (K3 : 65 / 64 * rho + eps <= 21 / 4 * eps + 25 / 4 * eta) by (unfold rho, theta; lra).
    assert (K4 : (r * m) * (65 / 64 * rho + eps) <= (r * m) * (21 / 4 * eps + 25 / 4 * eta)) by (apply Rmult_le_compat_l; lra).
    fold q1 q2 t1 t2. fold S. fold r. lra.
  Qed.

  Theorem norm3_round (x y z : R) : rnd 1 = 1 -> eps + eta <= / 64 ->
    cell_ok eta x -> cell_ok eta y -> cell_ok eta z ->
    let h := sqrt (x * x + y * y + z * z) in
    real_norm3 R_ops x y z = h /\
    Rabs (real_norm3 (Rnd_ops rnd) x y z - h) <= (21 / 4 * eps + 25 / 4 * eta) * h + eta.
  Proof.
    intros H1 Hv Hx Hy Hz h. split; [apply norm3_spec|].
    pose proof (eps_ge0 _ _ _ M) as Hu. pose proof (eta_ge0 _ _ _ M) as Ht.
    assert (Hok : forall v, cell_ok eta v -> Rabs v = 0 \/ 2 * eta <= Rabs v).
    { intros v [->|Hc]; [left; apply Rabs_R0|right; exact Hc]. }
    unfold real_norm3. cbn [abs Rnd_ops].
    rewrite (isinf_rnd _ _ _ M (Rabs x) (Rabs_pos x) (Hok x Hx)), (isinf_rnd _ _ _ M (Rabs y) (Rabs_pos y) (Hok y Hy)),
            (isinf_rnd _ _ _ M (Rabs z) (Rabs_pos z) (Hok z Hz)).
    unfold h. rewrite <- (abs_sq x), <- (abs_sq y), <- (abs_sq z).
    pose proof (Rabs_pos x) as Ha. pose proof (Rabs_pos y) as Hb. pose proof (Rabs_pos z) as Hc.
    clear Hx Hy Hz Hok h. revert Ha Hb Hc. generalize (Rabs x) (Rabs y) (Rabs z). intros a b c Ha Hb Hc.
    unfold_rops. rewrite (rnd_0 _ _ _ M), H1.
    assert (Z0 : forall u v w, 0 <= u -> 0 <= v -> u <= w -> v <= w -> w = 0 ->
              Rabs (0 - sqrt (u * u + v * v + w * w)) <= (21 / 4 * eps + 25 / 4 * eta) * sqrt (u * u + v * v + w * w) + eta).
    { intros u v w ? ? ? ? ?. replace (u * u + v * v + w * w) with 0 by nra. rewrite sqrt_0, Rminus_diag_eq, Rabs_R0 by reflexivity. lra. }
    destruct (Rltb_spec b a); cbn [fst snd].
    - destruct (Rltb_spec c a); cbn [fst snd].
      + replace (a * a + b * b + c * c) with (b * b + c * c + a * a) by ring.
        destruct (Reqb_spec a 0); [apply Z0; lra|apply norm3_core; auto; lra].
      + replace (a * a + b * b + c * c) with (b * b + a * a + c * c) by ring.
        destruct (Reqb_spec c 0); [apply Z0; lra|apply norm3_core; auto; lra].
    - destruct (Rltb_spec c b); cbn [fst snd].
      + replace (a * a + b * b + c * c) with (a * a + c * c + b * b) by ring.
        destruct (Reqb_spec b 0); [apply Z0; lra|apply norm3_core; auto; lra].
      + destruct (Reqb_spec c 0); [apply Z0; lra|apply norm3_core; auto; lra].
  Qed.
End Norm3.

(* ------------------------------------------------------------ IEEE binary64 (Flocq): eps = 2^-53, eta = 2^-1075
   every binary64 number is 0 or at least 2^-1074 = 2 eta64 in magnitude, so cell_ok holds for all floating-point cells;
   (n + 3) (eps64 + eta64) <= 1/64 for every n <= 2^45 *)
Lemma small64 (n : nat) : (n <= 2 ^ 45)%nat -> INR (n + 3) * (eps64 + eta64) <= / 64.
Proof.
  intros Hn.
  assert (He : eta64 <= eps64) by (apply Flocq.Core.Raux.bpow_le; lia).
  assert (H0 : 0 <= eta64) by apply Flocq.Core.Raux.bpow_ge_0.
  assert (H1 : INR (n + 3) <= 35184372088835).
  { rewrite INR_IZR_INZ. apply IZR_le. apply Nat2Z.inj_le in Hn. rewrite Nat2Z.inj_pow in Hn.
    change (Z.of_nat 2 ^ Z.of_nat 45)%Z with 35184372088832%Z in Hn. lia. }
  pose proof (pos_INR (n + 3)) as H2.
  assert (H3 : INR (n + 3) * (eps64 + eta64) <= 35184372088835 * (2 * eps64)) by (apply Rmult_le_compat; lra).
  assert (H4 : 35184372088835 * (2 * eps64) <= / 64) by (rewrite eps64_val; lra).
  lra.
Qed.

Theorem norm_round_binary64 (n : nat) (p : list R) (c : nat) : (1 <= c)%nat -> in_bounds n p 0 c -> (n <= 2 ^ 45)%nat ->
  let xs := cells 0 n p 0 c in
  Forall (cell_ok eta64) xs -> 0 < maxabs xs 0 ->
  let N := sqrt (sumsq xs) in
  exists fl, real_norm_ (Rnd_ops rnd64) n p c = Some fl /\ real_norm_ R_ops n p c = Some N /\
    (c = 1%nat -> real_norm (Rnd_ops rnd64) n p = Some fl) /\
    Rabs (fl - N) <= norm_C n eps64 eta64 * N + eta64 /\
    Rabs (fl - N) <= (9 / 4 * INR n + 15 / 4) * (eps64 + eta64) * N + eta64.
Proof.
  intros Hc Hb Hn xs Hok Hw.
  exact (norm_round _ _ _ std_model_binary64 n p c Hc Hb Hok Hw (small64 n Hn)).
Qed.

Theorem norm3_round_binary64 (x y z : R) : cell_ok eta64 x -> cell_ok eta64 y -> cell_ok eta64 z ->
  let h := sqrt (x * x + y * y + z * z) in
  real_norm3 R_ops x y z = h /\
  Rabs (real_norm3 (Rnd_ops rnd64) x y z - h) <= (21 / 4 * eps64 + 25 / 4 * eta64) * h + eta64.
Proof. intros Hx Hy Hz. exact (norm3_round _ _ _ std_model_binary64 x y z rnd64_1 eps_eta64_small Hx Hy Hz). Qed.

(* ------------------------------------------------------------ non-vacuity *)
(* binary64, the vector [3; -4; 12] (norm 13): all hypotheses hold *)
Example norm_round_binary64_ex :
  exists fl, real_norm (Rnd_ops rnd64) 3 [3; -4; 12] = Some fl /\
    Rabs (fl - 13) <= (9 / 4 * 3 + 15 / 4) * (eps64 + eta64) * 13 + eta64.
Proof.
  assert (E : eta64 <= / 2).
  { change (/ 2) with (Flocq.Core.Raux.bpow Flocq.Core.Zaux.radix2 (-1)). apply Flocq.Core.Raux.bpow_le. lia. }
  assert (Hb : in_bounds 3 [3; -4; 12] 0 1) by (right; simpl; lia).
  assert (Ec : cells 0 3 [3; -4; 12] 0 1 = [3; -4; 12]) by reflexivity.
  assert (Hm : maxabs [3; -4; 12] 0 = 12).
  { unfold maxabs. cbn [fold_left]. rewrite (Rabs_pos_eq 3), (Rabs_left (-4)), (Rabs_pos_eq 12) by lra.
    rewrite (Rmax_right 0 3), (Rmax_right 3 (- -4)), (Rmax_right (- -4) 12) by lra. reflexivity. }
  destruct (norm_round_binary64 3 [3; -4; 12] 1 (Nat.le_refl _) Hb) as (fl & _ & _ & R1 & _ & B).
  - apply Nat.le_trans with (2 ^ 2)%nat; [simpl; lia|apply Nat.pow_le_mono_r; lia].
  - rewrite Ec. constructor; [right; rewrite Rabs_pos_eq by lra; lra|].
    constructor; [right; rewrite Rabs_left by lra; lra|]. constructor; [right; rewrite Rabs_pos_eq by lra; lra|constructor].
  - rewrite Ec, Hm. lra.
  - exists fl. split; [apply R1; reflexivity|].
    rewrite Ec in B. replace (sumsq [3; -4; 12]) with (13 * 13) in B by (unfold sumsq, rsum; simpl; ring).
    rewrite sqrt_square in B by lra. simpl INR in B. replace (1 + 1 + 1) with 3 in B by ring. exact B.
Qed.

(* an inexact abstract model, rnd v = v (1 + 1/1024) (eps = 1/1024, eta = 0), the vector [3; 4]: (2 + 3)/1024 <= 1/64 *)
Lemma std_model_scale10 : std_model (fun v => v * (1 + / 1024)) (/ 1024) 0.
Proof.
  constructor; [|ring|lra|lra].
  intros v. replace (v * (1 + / 1024) - v) with (v * / 1024) by ring. rewrite Rabs_mult, (Rabs_pos_eq (/ 1024)) by lra. lra.
Qed.

Example norm_round_scale_ex :
  Rabs (norm_cells (Rnd_ops (fun v => v * (1 + / 1024))) [3; 4] - 5) <= (9 / 16 * 2 + 15 / 4) * / 1024 * 5.
Proof.
  assert (Hm : maxabs [3; 4] 0 = 4).
  { unfold maxabs. cbn [fold_left]. rewrite (Rabs_pos_eq 3), (Rabs_pos_eq 4) by lra.
    rewrite (Rmax_right 0 3), (Rmax_right 3 4) by lra. reflexivity. }
  destruct (norm_cells_round _ _ _ std_model_scale10 [3; 4]) as [_ B].
  - constructor; [right; rewrite Rabs_pos_eq by lra; lra|]. constructor; [right; rewrite Rabs_pos_eq by lra; lra|constructor].
  - rewrite Hm. lra.
  - simpl. lra.
  - replace (sumsq [3; 4]) with (5 * 5) in B by (unfold sumsq, rsum; simpl; ring).
    rewrite sqrt_square in B by lra. unfold norm_C in B. simpl INR in B.
    eapply Rle_trans; [exact B|]. lra.
Qed.

(* norm3 in binary64 on (2, -3, 6), norm 7 *)
Example norm3_round_binary64_ex :
  Rabs (real_norm3 (Rnd_ops rnd64) 2 (-3) 6 - 7) <= (21 / 4 * eps64 + 25 / 4 * eta64) * 7 + eta64.
Proof.
  assert (E : eta64 <= / 2).
  { change (/ 2) with (Flocq.Core.Raux.bpow Flocq.Core.Zaux.radix2 (-1)). apply Flocq.Core.Raux.bpow_le. lia. }
  destruct (norm3_round_binary64 2 (-3) 6) as (_ & B).
  - right. rewrite Rabs_pos_eq; lra.
  - right. rewrite Rabs_left; lra.
  - right. rewrite Rabs_pos_eq; lra.
  - replace (2 * 2 + -3 * -3 + 6 * 6) with (7 * 7) in B by ring. rewrite sqrt_square in B by lra. exact B.
Qed.
