(* C11 proofs over R, part 2: atan2 (all quadrants and half-axes), norm2 / norm3, polar and spherical conversions. *)
From Coq Require Import Reals Lra Lia List ZArith Bool.
From Coquelicot Require Import Coquelicot.
From Interval Require Import Tactic.
From LibaV Require Import Common.NumOps Common.ROps C11.MathDefs C11.HypProofs.
Import ListNotations.
Local Open Scope R_scope.
Local Notation sqrt := R_sqrt.sqrt.

(* ------------------------------------------------------------ the constants *)
Lemma c_pi_close : Rabs (c_pi R_ops - PI) <= / 4503599627370496.       (* 2^-52; the actual distance is 1.23e-16 *)
Proof. unfold c_pi. cbn [ofD R_ops]. interval with (i_prec 80). Qed.
Lemma c_pi_below : c_pi R_ops < PI.
Proof. unfold c_pi. cbn [ofD R_ops]. interval with (i_prec 80). Qed.
Lemma c_pi_2_half : c_pi_2 R_ops = c_pi R_ops / 2.
Proof. unfold c_pi_2, c_pi. cbn [ofD R_ops]. unfold powerRZ. simpl. field. Qed.

(* ------------------------------------------------------------ atan2 *)
(* theta is THE polar angle of (x, y): principal range and both defining equations *)
Definition polar_angle (x y theta : R) : Prop :=
  - PI < theta <= PI /\ x = sqrt (x * x + y * y) * cos theta /\ y = sqrt (x * x + y * y) * sin theta.

Lemma hyp_pos (x t : R) : 0 < x -> sqrt (x * x + (x * t) * (x * t)) = x * sqrt (1 + t²).
Proof.
  intros Hx. replace (x * x + x * t * (x * t)) with ((x * x) * (1 + t²)) by (unfold Rsqr; ring).
  rewrite sqrt_mult_alt by nra. rewrite sqrt_square by lra. reflexivity.
Qed.
Lemma sqrt_1t_pos (t : R) : 0 < sqrt (1 + t²).
Proof. apply sqrt_lt_R0. pose proof (Rle_0_sqr t). lra. Qed.

Lemma angle_right (x y : R) : 0 < x -> polar_angle x y (atan (y / x)).
Proof.
  intros Hx. assert (Hy : y = x * (y / x)) by (field; lra). revert Hy. generalize (y / x). intros t ->.
  pose proof (atan_bound t) as B. pose proof PI_RGT_0 as P. pose proof (sqrt_1t_pos t) as S.
  unfold polar_angle. rewrite cos_atan, sin_atan. rewrite hyp_pos by auto.
  repeat split; try lra; field; lra.
Qed.
Lemma angle_left (x y : R) : x < 0 ->
  polar_angle x y (if Rle_dec 0 y then atan (y / x) + PI else atan (y / x) - PI).
Proof.
  intros Hx. assert (Hy : y = x * (y / x)) by (field; lra). revert Hy. generalize (y / x). intros t ->.
  pose proof (atan_bound t) as B. pose proof PI_RGT_0 as P. pose proof (sqrt_1t_pos t) as S.
  assert (Hr : sqrt (x * x + x * t * (x * t)) = - x * sqrt (1 + t²)).
  { replace (x * x + x * t * (x * t)) with (- x * - x + (- x * t) * (- x * t)) by ring. apply hyp_pos. lra. }
  unfold polar_angle. rewrite Hr. destruct (Rle_dec 0 (x * t)) as [H0|H0].
  - assert (t <= 0) by nra.
    assert (atan t <= 0). { destruct (Req_dec t 0) as [->|]; [rewrite atan_0; lra|]. pose proof (atan_increasing t 0). rewrite atan_0 in *. lra. }
    rewrite neg_cos, neg_sin, cos_atan, sin_atan. repeat split; try lra; field; lra.
  - assert (0 < t) by nra.
    assert (0 < atan t). { pose proof (atan_increasing 0 t). rewrite atan_0 in *. lra. }
    replace (atan t - PI) with (- (- atan t + PI)) by ring.
    rewrite cos_neg, sin_neg, neg_cos, neg_sin, cos_neg, sin_neg, cos_atan, sin_atan. repeat split; try lra; field; lra.
Qed.
Lemma angle_up (y : R) : 0 < y -> polar_angle 0 y (PI / 2).
Proof.
  intros Hy. pose proof PI_RGT_0. unfold polar_angle. rewrite cos_PI2, sin_PI2.
  replace (0 * 0 + y * y) with (y * y) by ring. rewrite sqrt_square by lra. repeat split; lra.
Qed.
Lemma angle_down (y : R) : y < 0 -> polar_angle 0 y (- (PI / 2)).
Proof.
  intros Hy. pose proof PI_RGT_0. unfold polar_angle. rewrite cos_neg, sin_neg, cos_PI2, sin_PI2.
  replace (0 * 0 + y * y) with (- y * - y) by ring. rewrite sqrt_square by lra. repeat split; lra.
Qed.

(* The model's result differs from the exact polar angle only by the distance of the double constant from pi
   (0 in the right half plane, |c_pi - PI| in the left half plane, half of it on the y axis). *)
Theorem atan2_angle (x y : R) : x <> 0 \/ y <> 0 ->
  exists theta, polar_angle x y theta /\ Rabs (real_atan2 R_ops y x - theta) <= Rabs (c_pi R_ops - PI).
Proof.
  intros Hxy. unfold real_atan2. rewrite c_pi_2_half. uo.
  destruct (Rltb_spec 0 x).
  - exists (atan (y / x)). split; [apply angle_right; auto|]. replace (atan (y / x) - atan (y / x)) with 0 by ring.
    rewrite Rabs_R0. apply Rabs_pos.
  - destruct (Rltb_spec x 0).
    + eexists. split; [apply angle_left; auto|]. destruct (Rleb_spec 0 y); destruct (Rle_dec 0 y); try lra.
      * replace (atan (y / x) + c_pi R_ops - (atan (y / x) + PI)) with (c_pi R_ops - PI) by ring. lra.
      * replace (atan (y / x) - c_pi R_ops - (atan (y / x) - PI)) with (- (c_pi R_ops - PI)) by ring. rewrite Rabs_Ropp. lra.
    + assert (x = 0) by lra. subst x. destruct (Rltb_spec 0 y).
      * exists (PI / 2). split; [apply angle_up; auto|].
        replace (c_pi R_ops / 2 - PI / 2) with ((c_pi R_ops - PI) * / 2) by field.
        rewrite Rabs_mult, (Rabs_right (/ 2)) by lra. pose proof (Rabs_pos (c_pi R_ops - PI)). lra.
      * destruct (Rltb_spec y 0); [|lra].
        exists (- (PI / 2)). split; [apply angle_down; auto|].
        replace (- (c_pi R_ops / 2) - - (PI / 2)) with (- ((c_pi R_ops - PI) * / 2)) by field.
        rewrite Rabs_Ropp, Rabs_mult, (Rabs_right (/ 2)) by lra. pose proof (Rabs_pos (c_pi R_ops - PI)). lra.
Qed.
Theorem atan2_origin : real_atan2 R_ops 0 0 = 0.
Proof.
  unfold real_atan2. uo. destruct (Rltb_spec 0 0); [lra|]. reflexivity.
Qed.
(* the result itself stays in the principal range: the constant is below pi *)
Theorem atan2_range (x y : R) : - PI < real_atan2 R_ops y x <= PI.
Proof.
  pose proof c_pi_below as C. pose proof c_pi_close as D. apply Rabs_le_between in D.
  pose proof PI_RGT_0 as P. assert (3 < PI) by (interval with (i_prec 40)).
  unfold real_atan2. rewrite c_pi_2_half. uo.
  pose proof (atan_bound (y / x)) as B.
  destruct (Rltb_spec 0 x); [lra|]. destruct (Rltb_spec x 0).
  - assert (Hx : x < 0) by lra. destruct (Rleb_spec 0 y).
    + assert (y / x <= 0). { apply Rmult_le_reg_r with (- x); [lra|]. replace (y / x * - x) with (- y) by (field; lra). lra. }
      assert (atan (y / x) <= 0). { destruct (Req_dec (y / x) 0) as [->|]; [rewrite atan_0; lra|]. pose proof (atan_increasing (y / x) 0). rewrite atan_0 in *. lra. }
      lra.
    + assert (0 < y / x). { apply Rmult_lt_reg_r with (- x); [lra|]. replace (y / x * - x) with (- y) by (field; lra). lra. }
      assert (0 < atan (y / x)). { pose proof (atan_increasing 0 (y / x)). rewrite atan_0 in *. lra. }
      lra.
  - destruct (Rltb_spec 0 y); [lra|]. destruct (Rltb_spec y 0); lra.
Qed.

(* the unrepaired body (atan2(+-y, 0) = +-PI) is not the polar angle: finding C11-1 *)
Theorem atan2_unpatched_refuted : exists x y, x = 0 /\ y = 1 /\ real_atan2_unpatched R_ops y x > 3 /\ PI / 2 < 2.
Proof.
  exists 0, 1. repeat split; auto.
  - unfold real_atan2_unpatched. uo. destruct (Rltb_spec 0 0); [lra|]. destruct (Rltb_spec 0 1); [|lra].
    unfold c_pi. cbn [ofD R_ops]. interval with (i_prec 40).
  - interval with (i_prec 40).
Qed.

(* ------------------------------------------------------------ norm2 / norm3 *)
Lemma scaled2 (s b : R) : 0 < b -> sqrt (s / b * (s / b) + 1) * b = sqrt (s * s + b * b).
Proof.
  intros Hb. assert (0 <= s / b * (s / b)) by apply Rle_0_sqr.
  transitivity (sqrt (s / b * (s / b) + 1) * sqrt (b * b)); [rewrite (sqrt_square b) by lra; reflexivity|].
  rewrite <- sqrt_mult_alt by lra. f_equal. field. lra.
Qed.
Lemma scaled3 (s m b : R) : 0 < b -> sqrt (s / b * (s / b) + m / b * (m / b) + 1) * b = sqrt (s * s + m * m + b * b).
Proof.
  intros Hb. assert (0 <= s / b * (s / b)) by apply Rle_0_sqr. assert (0 <= m / b * (m / b)) by apply Rle_0_sqr.
  transitivity (sqrt (s / b * (s / b) + m / b * (m / b) + 1) * sqrt (b * b)); [rewrite (sqrt_square b) by lra; reflexivity|].
  rewrite <- sqrt_mult_alt by lra. f_equal. field. lra.
Qed.
Lemma abs_sq (x : R) : Rabs x * Rabs x = x * x.
Proof. unfold Rabs. destruct (Rcase_abs x); ring. Qed.

Theorem norm2_spec (x y : R) : real_norm2 R_ops x y = sqrt (x * x + y * y).
Proof.
  unfold real_norm2. rewrite !isinf_R. uo. rewrite <- (abs_sq x), <- (abs_sq y).
  pose proof (Rabs_pos x). pose proof (Rabs_pos y). generalize dependent (Rabs y). generalize dependent (Rabs x). intros a Ha b Hb.
  destruct (Rltb_spec b a); cbn [fst snd].
  - destruct (Reqb_spec a 0).
    + assert (a = 0) by lra. assert (b = 0) by lra. replace (a * a + b * b) with 0 by nra. rewrite sqrt_0. reflexivity.
    + rewrite scaled2 by lra. f_equal. ring.
  - destruct (Reqb_spec b 0).
    + assert (a = 0) by lra. replace (a * a + b * b) with 0 by nra. rewrite sqrt_0. reflexivity.
    + apply scaled2. lra.
Qed.
(* definedness: the only division is by the larger of |x|, |y| and is executed only when that is non-zero *)
Theorem norm2_divisor (x y : R) :
  let m := Rmax (Rabs x) (Rabs y) in
  (m = 0 -> real_norm2 R_ops x y = 0) /\ (m <> 0 -> real_norm2 R_ops x y = sqrt (Rmin (Rabs x) (Rabs y) / m * (Rmin (Rabs x) (Rabs y) / m) + 1) * m).
Proof.
  intros m. unfold m, real_norm2. rewrite !isinf_R. uo.
  destruct (Rltb_spec (Rabs y) (Rabs x)); cbn [fst snd].
  - rewrite Rmax_left, Rmin_right by lra. destruct (Reqb_spec (Rabs x) 0); split; intros; try lra; reflexivity.
  - rewrite Rmax_right, Rmin_left by lra. destruct (Reqb_spec (Rabs y) 0); split; intros; try lra; reflexivity.
Qed.

Theorem norm3_spec (x y z : R) : real_norm3 R_ops x y z = sqrt (x * x + y * y + z * z).
Proof.
  unfold real_norm3. rewrite !isinf_R. uo. rewrite <- (abs_sq x), <- (abs_sq y), <- (abs_sq z).
  pose proof (Rabs_pos x) as Ha. pose proof (Rabs_pos y) as Hb. pose proof (Rabs_pos z) as Hc.
  revert Ha Hb Hc. generalize (Rabs x) (Rabs y) (Rabs z). intros a b c Ha Hb Hc.
  assert (Z0 : forall u v w, 0 <= u -> 0 <= v -> u <= w -> v <= w -> w = 0 -> 0 = sqrt (u * u + v * v + w * w)).
  { intros u v w ? ? ? ? ?. replace (u * u + v * v + w * w) with 0 by nra. rewrite sqrt_0. reflexivity. }
  destruct (Rltb_spec b a); cbn [fst snd].
  - destruct (Rltb_spec c a); cbn [fst snd].
    + destruct (Reqb_spec a 0).
      * replace (a * a + b * b + c * c) with (b * b + c * c + a * a) by ring. apply Z0; lra.
      * rewrite scaled3 by lra. f_equal. ring.
    + destruct (Reqb_spec c 0).
      * replace (a * a + b * b + c * c) with (b * b + a * a + c * c) by ring. apply Z0; lra.
      * rewrite scaled3 by lra. f_equal. ring.
  - destruct (Rltb_spec c b); cbn [fst snd].
    + destruct (Reqb_spec b 0).
      * replace (a * a + b * b + c * c) with (a * a + c * c + b * b) by ring. apply Z0; lra.
      * rewrite scaled3 by lra. f_equal. ring.
    + destruct (Reqb_spec c 0).
      * apply Z0; lra.
      * rewrite scaled3 by lra. reflexivity.
Qed.

(* ------------------------------------------------------------ coordinate conversions (fallback: hypot = norm2) *)
Theorem cart2pol_spec (x y : R) :
  fst (real_cart2pol R_ops x y) = sqrt (x * x + y * y) /\ snd (real_cart2pol R_ops x y) = real_atan2 R_ops y x.
Proof. unfold real_cart2pol. cbn [fst snd]. rewrite norm2_spec. auto. Qed.

(* pol2cart is the inverse of cart2pol when fed the exact polar angle *)
Theorem pol2cart_of_polar (x y theta : R) : polar_angle x y theta ->
  real_pol2cart R_ops (sqrt (x * x + y * y)) theta = (x, y).
Proof. intros [_ [Hx Hy]]. unfold real_pol2cart. uo. rewrite <- Hx, <- Hy. reflexivity. Qed.
(* and pol2cart always lands on the circle of radius |rho| *)
Theorem pol2cart_radius (rho theta : R) :
  let p := real_pol2cart R_ops rho theta in fst p * fst p + snd p * snd p = rho * rho.
Proof.
  unfold real_pol2cart. uo. cbn [fst snd]. pose proof (sin2_cos2 theta) as H. unfold Rsqr in H. nra.
Qed.

Theorem cart2sph_spec (x y z : R) :
  let r := sqrt (x * x + y * y) in
  real_cart2sph R_ops x y z = (sqrt (x * x + y * y + z * z), real_atan2 R_ops y x, real_atan2 R_ops z r).
Proof.
  unfold real_cart2sph. rewrite !norm2_spec. cbv zeta.
  rewrite (sqrt_sqrt (x * x + y * y)) by nra. reflexivity.
Qed.
Theorem sph2cart_radius (rho theta alpha : R) :
  let '(x, y, z) := real_sph2cart R_ops rho theta alpha in x * x + y * y + z * z = rho * rho.
Proof.
  unfold real_sph2cart. uo. pose proof (sin2_cos2 theta) as H. pose proof (sin2_cos2 alpha) as G. unfold Rsqr in *.
  replace (rho * cos alpha * cos theta * (rho * cos alpha * cos theta) + rho * cos alpha * sin theta * (rho * cos alpha * sin theta) +
           rho * sin alpha * (rho * sin alpha))
    with (rho * rho * (cos alpha * cos alpha * (sin theta * sin theta + cos theta * cos theta) + sin alpha * sin alpha)) by ring.
  rewrite H, Rmult_1_r. rewrite (Rplus_comm (cos alpha * cos alpha)), G. ring.
Qed.
(* sph2cart inverts cart2sph when fed the exact angles: azimuth theta of (x,y), elevation alpha of (r,z) *)
Theorem sph2cart_of_angles (x y z theta alpha : R) :
  let r := sqrt (x * x + y * y) in
  polar_angle x y theta -> polar_angle r z alpha ->
  real_sph2cart R_ops (sqrt (x * x + y * y + z * z)) theta alpha = (x, y, z).
Proof.
  intros r [_ [Hx Hy]] [_ [Hr Hz]]. unfold real_sph2cart. uo.
  assert (E : r * r + z * z = x * x + y * y + z * z) by (unfold r; rewrite sqrt_sqrt; nra).
  rewrite E in Hr, Hz. fold r in Hx, Hy. rewrite <- Hr, <- Hz, <- Hx, <- Hy. reflexivity.
Qed.

(* ------------------------------------------------------------ angle units: x * RAD2DEG, x * DEG2RAD with the double constants *)
Lemma c_rad2deg_close : Rabs (c_rad2deg R_ops * (PI / 180) - 1) <= / 9007199254740992.
Proof. unfold c_rad2deg. cbn [ofD R_ops]. interval with (i_prec 80). Qed.
Lemma c_deg2rad_close : Rabs (c_deg2rad R_ops * (180 / PI) - 1) <= / 9007199254740992.
Proof. unfold c_deg2rad. cbn [ofD R_ops]. interval with (i_prec 80). Qed.
Theorem rad2deg_spec (x : R) : Rabs (real_rad2deg R_ops x - x * (180 / PI)) <= / 9007199254740992 * Rabs (x * (180 / PI)).
Proof.
  unfold real_rad2deg. uo. pose proof PI_RGT_0.
  replace (x * c_rad2deg R_ops - x * (180 / PI)) with (x * (180 / PI) * (c_rad2deg R_ops * (PI / 180) - 1)) by (field; lra).
  rewrite Rabs_mult, Rmult_comm. apply Rmult_le_compat_r; [apply Rabs_pos | apply c_rad2deg_close].
Qed.
Theorem deg2rad_spec (x : R) : Rabs (real_deg2rad R_ops x - x * (PI / 180)) <= / 9007199254740992 * Rabs (x * (PI / 180)).
Proof.
  unfold real_deg2rad. uo. pose proof PI_RGT_0.
  replace (x * c_deg2rad R_ops - x * (PI / 180)) with (x * (PI / 180) * (c_deg2rad R_ops * (180 / PI) - 1)) by (field; lra).
  rewrite Rabs_mult, Rmult_comm. apply Rmult_le_compat_r; [apply Rabs_pos | apply c_deg2rad_close].
Qed.
