(* C11 proofs, part 6: (a) the range splits of asinh / acosh / atanh / expm1 put together: ONE relative method-error bound
   (2^-53) for every real argument of the domain, hence also across every split point; (b) the scaled intermediates of
   the norms lie in fixed small ranges (what the scaling by the largest component is for); (c) cart2pol/pol2cart round
   trip; (d) counts beyond the array are errors of the list models. *)
From Coq Require Import Reals Lra Lia List ZArith Bool Arith.
From Coquelicot Require Import Coquelicot.
From Interval Require Import Tactic.
From LibaV Require Import Common.NumOps Common.ROps C11.MathDefs C11.HypProofs C11.GeomProofs C11.Expm1Proofs C11.ListProofs.
Import ListNotations.
Local Open Scope R_scope.
Local Notation sqrt := R_sqrt.sqrt.

(* ------------------------------------------------------------ asinh on the whole line *)
Lemma arcsinh_abs (x : R) : Rabs (arcsinh x) = arcsinh (Rabs x).
Proof.
  destruct (Rle_dec 0 x).
  - rewrite (Rabs_right x) by lra. apply Rabs_right. rewrite <- arcsinh_0. apply Rle_ge, arcsinh_le. lra.
  - rewrite (Rabs_left x) by lra. rewrite arcsinh_opp. apply Rabs_left. rewrite <- arcsinh_0. apply arcsinh_lt. lra.
Qed.
Lemma arcsinh_ge1 (a : R) : 2 <= a -> 1 <= arcsinh a.
Proof.
  intros Ha. destruct (sqrt_sq1 a) as [HS H1]. unfold arcsinh. replace (a ^ 2 + 1) with (a * a + 1) by ring.
  set (S := sqrt (a * a + 1)) in *. apply Rle_trans with (ln 3); [interval with (i_prec 30)|]. apply ln_le; lra.
Qed.

Theorem asinh_all (x : R) : Rabs (real_asinh R_ops x - arcsinh x) <= / 9007199254740992 * Rabs (arcsinh x).
Proof.
  destruct (Rlt_dec 67108864 (Rabs x)) as [HL|HL].
  - eapply Rle_trans; [apply asinh_large; exact HL|]. rewrite arcsinh_abs. pose proof (arcsinh_ge1 (Rabs x)). lra.
  - destruct (Rlt_dec (/ 67108864) (Rabs x)) as [HM|HM].
    + rewrite asinh_mid by lra. replace (arcsinh x - arcsinh x) with 0 by ring. rewrite Rabs_R0.
      pose proof (Rabs_pos (arcsinh x)). lra.
    + destruct (asinh_small x) as [E B]; [lra|]. rewrite E. eapply Rle_trans; [exact B|].
      rewrite arcsinh_abs. pose proof (Rabs_pos x) as Hp. destruct (arcsinh_small_pos (Rabs x)) as [_ U]; [lra|].
      set (a := Rabs x) in *. assert (a * a <= 1 * 1) by (apply Rmult_le_compat; lra).
      assert (a * a * a <= a * 1) by nra. lra.
Qed.

(* ------------------------------------------------------------ acosh on [1, oo) *)
Theorem arccosh_inverse (x : R) : 1 <= x -> cosh (arccosh x) = x /\ 0 <= arccosh x.
Proof. intros H. split; [apply cosh_arccosh | apply arccosh_nonneg]; exact H. Qed.

Theorem acosh_all (x : R) : 1 <= x -> Rabs (real_acosh R_ops x - arccosh x) <= / 9007199254740992 * Rabs (arccosh x).
Proof.
  intros Hx. destruct (Rlt_dec 67108864 x) as [HL|HL].
  - eapply Rle_trans; [apply acosh_large; exact HL|].
    destruct (sqrt_sqm1 x Hx) as [HS [H0 H1]].
    assert (4 <= arccosh x).
    { unfold arccosh. apply Rle_trans with (ln 67108864); [interval with (i_prec 30)|]. apply ln_le; lra. }
    rewrite Rabs_right by lra. lra.
  - rewrite acosh_mid by lra. replace (arccosh x - arccosh x) with 0 by ring. rewrite Rabs_R0.
    pose proof (Rabs_pos (arccosh x)). lra.
Qed.

(* ------------------------------------------------------------ atanh on (-1, 1) *)
Theorem atanh_all (x : R) : Rabs x < 1 -> Rabs (real_atanh R_ops x - arctanh x) <= / 9007199254740992 * Rabs (arctanh x).
Proof.
  intros H1. destruct (Rlt_dec (/ 4503599627370496) (Rabs x)) as [HM|HM].
  - rewrite atanh_mid by lra. replace (arctanh x - arctanh x) with 0 by ring. rewrite Rabs_R0.
    pose proof (Rabs_pos (arctanh x)). lra.
  - destruct (atanh_small x) as [E B]; [lra|]. rewrite E. eapply Rle_trans; [exact B|].
    assert (G : Rabs x <= Rabs (arctanh x)).
    { destruct (Rle_dec 0 x).
      - rewrite (Rabs_right x) in * by lra. destruct (arctanh_small_pos x) as [A _]; [lra|]. rewrite Rabs_right; lra.
      - rewrite (Rabs_left x) in * by lra. destruct (arctanh_small_pos (- x)) as [A _]; [lra|].
        rewrite arctanh_opp in A by lra. rewrite Rabs_left1; lra. }
    pose proof (Rabs_pos x). lra.
Qed.

(* ------------------------------------------------------------ expm1 on the whole line *)
Theorem expm1_all (x : R) : Rabs (real_expm1 R_ops x - (exp x - 1)) <= / 9007199254740992 * Rabs (exp x - 1).
Proof.
  destruct (expm1_spec x) as [Ho Hi].
  destruct (Rlt_dec x (-1/2)); [|destruct (Rlt_dec (1/2) x)].
  - rewrite Ho by lra. replace (exp x - 1 - (exp x - 1)) with 0 by ring. rewrite Rabs_R0. pose proof (Rabs_pos (exp x - 1)). lra.
  - rewrite Ho by lra. replace (exp x - 1 - (exp x - 1)) with 0 by ring. rewrite Rabs_R0. pose proof (Rabs_pos (exp x - 1)). lra.
  - rewrite Hi by lra. apply expm1_rat_relative. lra.
Qed.

(* ------------------------------------------------------------ scaled intermediates of the norms *)
Lemma quot_01 (s b : R) : 0 <= s <= b -> 0 < b -> 0 <= s / b <= 1.
Proof.
  intros Hs Hb. assert (0 < / b) by (apply Rinv_0_lt_compat; lra). unfold Rdiv. split; [apply Rmult_le_pos; lra|].
  apply Rmult_le_reg_r with b; [lra|]. rewrite Rmult_assoc, Rinv_l by lra. lra.
Qed.
Lemma sqrt_between (r hi : R) : 1 <= r <= hi -> 1 <= sqrt r <= sqrt hi.
Proof. intros H. split; [rewrite <- sqrt_1 at 1|]; apply sqrt_le_1; lra. Qed.

Theorem norm2_scaling (x y : R) : let m := Rmax (Rabs x) (Rabs y) in let q := Rmin (Rabs x) (Rabs y) / m in
  0 < m -> 0 <= q <= 1 /\ 1 <= q * q + 1 <= 2 /\ real_norm2 R_ops x y = sqrt (q * q + 1) * m /\
           m <= real_norm2 R_ops x y <= sqrt 2 * m.
Proof.
  intros m q Hm. destruct (norm2_divisor x y) as [_ E]. fold m in E. specialize (E ltac:(lra)). fold q in E.
  assert (Hq : 0 <= q <= 1).
  { apply quot_01; [|exact Hm]. split; [|apply Rminmax]. apply Rmin_glb; apply Rabs_pos. }
  assert (Hr : 1 <= q * q + 1 <= 2) by nra.
  destruct (sqrt_between _ 2 Hr) as [S1 S2]. rewrite E. repeat split; try lra; try nra;
  try (apply Rmult_le_compat_r; lra).
Qed.

Theorem norm3_scaling (x y z : R) : let m := Rmax (Rmax (Rabs x) (Rabs y)) (Rabs z) in
  0 < m -> exists q1 q2, 0 <= q1 <= 1 /\ 0 <= q2 <= 1 /\ 1 <= q1 * q1 + q2 * q2 + 1 <= 3 /\
           real_norm3 R_ops x y z = sqrt (q1 * q1 + q2 * q2 + 1) * m /\ m <= real_norm3 R_ops x y z <= sqrt 3 * m.
Proof.
  cbv zeta. unfold real_norm3. rewrite !isinf_R. uo.
  pose proof (Rabs_pos x) as Ha. pose proof (Rabs_pos y) as Hb. pose proof (Rabs_pos z) as Hc.
  revert Ha Hb Hc. generalize (Rabs x) (Rabs y) (Rabs z). intros a b c Ha Hb Hc Hm.
  assert (K : forall s t w, 0 <= s <= w -> 0 <= t <= w -> 0 < w -> w = Rmax (Rmax a b) c ->
            exists q1 q2, 0 <= q1 <= 1 /\ 0 <= q2 <= 1 /\ 1 <= q1 * q1 + q2 * q2 + 1 <= 3 /\
              sqrt (s / w * (s / w) + t / w * (t / w) + 1) * w = sqrt (q1 * q1 + q2 * q2 + 1) * Rmax (Rmax a b) c /\
              Rmax (Rmax a b) c <= sqrt (s / w * (s / w) + t / w * (t / w) + 1) * w <= sqrt 3 * Rmax (Rmax a b) c).
  { intros s t w Hs Ht Hw <-. exists (s / w), (t / w).
    pose proof (quot_01 s w Hs Hw) as Q1. pose proof (quot_01 t w Ht Hw) as Q2.
    assert (Hr : 1 <= s / w * (s / w) + t / w * (t / w) + 1 <= 3) by nra.
    destruct (sqrt_between _ 3 Hr) as [S1 S2]. repeat split; try lra; try nra; try (apply Rmult_le_compat_r; lra). }
  assert (M : forall u v w, Rmax (Rmax u v) w = Rmax (Rmax u v) w) by reflexivity.
  destruct (Rltb_spec b a); cbn [fst snd].
  - destruct (Rltb_spec c a); cbn [fst snd].
    + assert (Em : a = Rmax (Rmax a b) c) by (rewrite (Rmax_left a b), Rmax_left; lra).
      destruct (Reqb_spec a 0); [lra|]. apply K; lra.
    + assert (Em : c = Rmax (Rmax a b) c) by (rewrite (Rmax_left a b), Rmax_right; lra).
      destruct (Reqb_spec c 0); [lra|]. apply K; lra.
  - destruct (Rltb_spec c b); cbn [fst snd].
    + assert (Em : b = Rmax (Rmax a b) c) by (rewrite (Rmax_right a b), Rmax_left; lra).
      destruct (Reqb_spec b 0); [lra|]. apply K; lra.
    + assert (Em : c = Rmax (Rmax a b) c) by (rewrite (Rmax_right a b), Rmax_right; lra).
      destruct (Reqb_spec c 0); [lra|]. apply K; lra.
Qed.

(* vector norm: w the largest magnitude *)
Lemma maxabs_attained (l : list R) : forall w0, maxabs l w0 = w0 \/ List.Exists (fun p => Rabs p = maxabs l w0) l.
Proof.
  induction l as [|p r IH]; intros w0; [left; reflexivity|].
  unfold maxabs. cbn [fold_left]. fold (maxabs r (Rmax w0 (Rabs p))).
  destruct (IH (Rmax w0 (Rabs p))) as [E|E].
  - rewrite E. unfold Rmax. destruct (Rle_dec w0 (Rabs p)); [right; constructor; reflexivity | left; reflexivity].
  - right. apply Exists_cons_tl. exact E.
Qed.
Lemma rsum_nonneg_ge (f : R -> R) (l : list R) : (forall p, 0 <= f p) ->
  0 <= rsum (map f l) /\ forall p, In p l -> f p <= rsum (map f l).
Proof.
  intros Hf. induction l as [|h t [I0 IH]]; cbn [map rsum fold_right]; [split; [lra|intros p []]|].
  fold (rsum (map f t)). pose proof (Hf h). split; [lra|]. intros p [->|Hp]; [lra|]. specialize (IH p Hp). lra.
Qed.
Lemma rsum_le_len (f : R -> R) (l : list R) : List.Forall (fun p => f p <= 1) l -> rsum (map f l) <= INR (length l).
Proof.
  induction 1 as [|h t Hh _ IH]; [cbn; lra|]. cbn [map rsum fold_right]. fold (rsum (map f t)).
  change (length (h :: t)) with (S (length t)). rewrite S_INR. lra.
Qed.

Theorem norm_cells_scaling (l : list R) : let w := maxabs l 0 in 0 < w ->
  List.Forall (fun p => -1 <= p / w <= 1) l /\
  1 <= fold_left (fun s p => s + p / w * (p / w)) l 0 <= INR (length l) /\
  norm_cells R_ops l = sqrt (fold_left (fun s p => s + p / w * (p / w)) l 0) * w /\
  w <= norm_cells R_ops l <= sqrt (INR (length l)) * w.
Proof.
  intros w Hw. destruct (maxabs_ge l 0) as [_ WA]. fold w in WA.
  assert (F : List.Forall (fun p => -1 <= p / w <= 1) l).
  { eapply Forall_impl; [|exact WA]. cbv beta. intros p Hp.
    assert (0 < / w) by (apply Rinv_0_lt_compat; lra).
    apply Rabs_le_between in Hp. unfold Rdiv. split.
    - apply Rmult_le_reg_r with w; [lra|]. rewrite Rmult_assoc, Rinv_l by lra. lra.
    - apply Rmult_le_reg_r with w; [lra|]. rewrite Rmult_assoc, Rinv_l by lra. lra. }
  set (f := fun p => p / w * (p / w)).
  assert (Ef : fold_left (fun s p => s + p / w * (p / w)) l 0 = rsum (map f l)).
  { rewrite (fold_left_rsum f). ring. }
  assert (Hf : forall p, 0 <= f p) by (intros p; unfold f; apply Rle_0_sqr).
  destruct (rsum_nonneg_ge f l Hf) as [_ G].
  assert (Lo : 1 <= rsum (map f l)).
  { destruct (maxabs_attained l 0) as [E|E]; [fold w in E; lra|]. fold w in E.
    apply Exists_exists in E. destruct E as (p & Hin & Hp). specialize (G p Hin).
    assert (f p = 1); [|lra]. unfold f.
    replace (p / w * (p / w)) with ((p * p) / (w * w)) by (field; lra). rewrite <- (abs_sq p), Hp. field. lra. }
  assert (Hi : rsum (map f l) <= INR (length l)).
  { apply rsum_le_len. eapply Forall_impl; [|exact F]. cbv beta. intros p Hp. unfold f. nra. }
  destruct (norm_cells_spec l) as [_ [E _]]. fold w in E. specialize (E Hw).
  rewrite Ef in *. destruct (sqrt_between _ (INR (length l)) (conj Lo Hi)) as [S1 S2].
  repeat split; auto; rewrite E; try nra; try (apply Rmult_le_compat_r; lra).
Qed.

(* ------------------------------------------------------------ cart2pol then pol2cart *)
Theorem cart2pol_roundtrip (x y : R) : x <> 0 \/ y <> 0 ->
  exists theta, polar_angle x y theta /\ real_pol2cart R_ops (fst (real_cart2pol R_ops x y)) theta = (x, y) /\
                Rabs (snd (real_cart2pol R_ops x y) - theta) <= / 4503599627370496.
Proof.
  intros H. destruct (atan2_angle x y H) as (theta & P & B). exists theta. destruct (cart2pol_spec x y) as [E1 E2].
  rewrite E1, E2. split; [exact P|]. split.
  - apply pol2cart_of_polar. exact P.
  - pose proof c_pi_close. lra.
Qed.

(* ------------------------------------------------------------ counts beyond the array *)
Local Close Scope R_scope.
Lemma fill_from_oob {T : Type} (n : nat) : forall (m : list T) (i : nat) (v : T), length m < i + n -> 0 < n -> fill_from n m i v = None.
Proof.
  induction n as [|n IH]; intros m i v H Hn; [lia|]. cbn [fill_from].
  destruct (Nat.lt_ge_cases i (length m)) as [Hi|Hi].
  - destruct (upd_ok v m i v Hi) as (m1 & E1 & L1 & _). rewrite E1. cbn [bind]. apply IH; lia.
  - rewrite upd_none by lia. reflexivity.
Qed.
Theorem helpers_out_of_bounds {T : Type} (p : list T) (n : nat) (x : T) : length p < n ->
  real_fill n p x = None /\ real_push_fore p n x = None /\ real_push_back p n x = None /\
  real_roll_fore p n = None /\ real_roll_back p n = None.
Proof.
  intros H. destruct n as [|n']; [lia|]. repeat split.
  - apply fill_from_oob; lia.
  - cbn [real_push_fore]. unfold sub_, blit. destruct (Nat.leb_spec (0 + n') (length p)); cbn [bind]; [|reflexivity].
    rewrite firstn_length_le by (cbn [skipn]; lia). destruct (Nat.leb_spec (1 + n') (length p)); [lia|reflexivity].
  - cbn [real_push_back]. unfold sub_. destruct (Nat.leb_spec (1 + n') (length p)); [lia|reflexivity].
  - cbn [real_roll_fore]. unfold sub_. destruct (nth_error p 0); cbn [bind]; [|reflexivity].
    destruct (Nat.leb_spec (1 + n') (length p)); [lia|reflexivity].
  - cbn [real_roll_back]. assert (E : nth_error p n' = None) by (apply nth_error_None; lia). rewrite E. reflexivity.
Qed.
