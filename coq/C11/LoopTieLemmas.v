(* Lemmas about the hand models of C11/MathDefs.v used by the all-lengths translator tie (harness/C11/TieLoop*.v):
   the reductions with an explicit start offset and accumulator (the shape a loop has after some passes), the first
   cell of a strided read, and the vocabulary of the no-wrap hypotheses.  Nothing here mentions generated code. *)
From Coq Require Import ZArith NArith List Bool Arith Lia.
From LibaV Require Import Common.NumOps C11.MathDefs.
Import ListNotations.

(* the value fits an a_size (64 bits) / an unsigned int (32 bits): the hypotheses of the tie theorems are stated with these *)
Definition in64 (x : nat) : Prop := (N.of_nat x < 2 ^ 64)%N.
Definition in32 (x : nat) : Prop := (N.of_nat x < 2 ^ 32)%N.

Lemma in64_le (a b : nat) : a <= b -> in64 b -> in64 a.
Proof. unfold in64. intros H B. apply N.le_lt_trans with (N.of_nat b); [|exact B]. lia. Qed.
Lemma in32_le (a b : nat) : a <= b -> in32 b -> in32 a.
Proof. unfold in32. intros H B. apply N.le_lt_trans with (N.of_nat b); [|exact B]. lia. Qed.
Lemma in32_in64 (a : nat) : in32 a -> in64 a.
Proof. unfold in32, in64. intros H. apply N.lt_trans with (2 ^ 32)%N; [exact H|]. reflexivity. Qed.
Lemma in32_8_in64 (a : nat) : in32 a -> in64 (8 * a).
Proof.
  unfold in32, in64. intros H. rewrite Nat2N.inj_mul. change (N.of_nat 8) with 8%N.
  apply N.lt_le_trans with (8 * 2 ^ 32)%N; [apply N.mul_lt_mono_pos_l; [reflexivity|exact H]|].
  intros E. vm_compute in E. discriminate E.
Qed.

Section Lemmas.
  Context {T : Type} (O : NumOps T).

  (* ---------------------------------------------------------------- strided reads *)
  Lemma strided_S (k : nat) (p : list T) (i c : nat) :
    strided (S k) p i c =
    match nth_error p i with
    | None => None
    | Some v => match strided k p (i + c) c with None => None | Some l => Some (v :: l) end
    end.
  Proof. reflexivity. Qed.

  Lemma strided_S_inv (k : nat) (p : list T) (i c : nat) (cells : list T) :
    strided (S k) p i c = Some cells ->
    exists v rest, nth_error p i = Some v /\ strided k p (i + c) c = Some rest /\ cells = v :: rest.
  Proof.
    rewrite strided_S. destruct (nth_error p i) as [v|]; [|discriminate].
    destruct (strided k p (i + c) c) as [l|]; [|discriminate].
    intros E. injection E as E. exists v, l. repeat split. symmetry. exact E.
  Qed.

  Lemma strided_0_inv (p : list T) (i c : nat) (cells : list T) : strided 0 p i c = Some cells -> cells = [].
  Proof. cbn. intros E. injection E as E. symmetry. exact E. Qed.

  (* unit stride: the n cells from i on exist exactly when i + n <= length p *)
  Lemma strided_unit_some (n : nat) (p : list T) : forall i, i + n <= length p -> exists cells, strided n p i 1 = Some cells.
  Proof.
    induction n as [|n IH]; intros i H.
    - exists []. reflexivity.
    - rewrite strided_S. destruct (nth_error p i) as [v|] eqn:E.
      + assert (Hn : i + 1 + n <= length p) by lia. destruct (IH (i + 1) Hn) as [l El]. rewrite El. exists (v :: l). reflexivity.
      + apply nth_error_None in E. lia.
  Qed.
  Lemma strided_unit_none (n : nat) (p : list T) : forall i, length p < i + S n -> strided (S n) p i 1 = None.
  Proof.
    induction n as [|n IH]; intros i H; rewrite strided_S; destruct (nth_error p i) as [v|] eqn:E; try reflexivity.
    - assert (Hi : i < length p) by (apply nth_error_Some; rewrite E; discriminate). lia.
    - rewrite IH; [reflexivity|lia].
  Qed.

  (* ---------------------------------------------------------------- reductions from a cell on, with an accumulator *)
  Definition red_acc (f : T -> T -> T) (n : nat) (p : list T) (i c : nat) (r : T) : option T :=
    option_map (fun cells => fold_left f cells r) (strided n p i c).

  Lemma red_acc_0 f p i c r : red_acc f 0 p i c r = Some r.
  Proof. reflexivity. Qed.

  Lemma red_acc_S f n p i c r :
    red_acc f (S n) p i c r = match nth_error p i with None => None | Some v => red_acc f n p (i + c) c (f r v) end.
  Proof.
    unfold red_acc. rewrite strided_S. destruct (nth_error p i) as [v|]; [|reflexivity].
    destruct (strided n p (i + c) c); reflexivity.
  Qed.

  Lemma red_is_acc f n p c : red O f n p c = red_acc f n p 0 c (ofZ O 0).
  Proof. reflexivity. Qed.

  (* dot product from a pair of cells on *)
  Definition dot_acc (n : nat) (X : list T) (i xc : nat) (Y : list T) (j yc : nat) (r : T) : option T :=
    match strided n X i xc, strided n Y j yc with
    | Some xs, Some ys => Some (fold_left (fun r xy => add O r (mul O (fst xy) (snd xy))) (combine xs ys) r)
    | _, _ => None
    end.

  Lemma dot_acc_0 X i xc Y j yc r : dot_acc 0 X i xc Y j yc r = Some r.
  Proof. reflexivity. Qed.

  Lemma dot_acc_S n X i xc Y j yc r :
    dot_acc (S n) X i xc Y j yc r =
    match nth_error X i with
    | None => None
    | Some x => match nth_error Y j with
                | None => None
                | Some y => dot_acc n X (i + xc) xc Y (j + yc) yc (add O r (mul O x y))
                end
    end.
  Proof.
    unfold dot_acc. rewrite !strided_S. destruct (nth_error X i) as [x|]; [|reflexivity].
    destruct (nth_error Y j) as [y|].
    - destruct (strided n X (i + xc) xc); [|reflexivity]. destruct (strided n Y (j + yc) yc); reflexivity.
    - destruct (strided n X (i + xc) xc); reflexivity.
  Qed.

  Lemma dot_is_acc n X xc Y yc : real_dot_ O n X xc Y yc = dot_acc n X 0 xc Y 0 yc (ofZ O 0).
  Proof. reflexivity. Qed.

  (* ---------------------------------------------------------------- norm: the value with the constant returned for an infinite cell left open *)
  Definition norm_cells_with (inf : T) (cells : list T) : T :=
    match norm_scan O cells (ofZ O 0) with
    | None => inf
    | Some w =>
        if leb O w (ofZ O 0) then ofZ O 0 else
        mul O (sqrt O (fold_left (fun s p => let x := div O p w in add O s (mul O x x)) cells (ofZ O 0))) w
    end.

  Lemma norm_cells_is_with cells : norm_cells O cells = norm_cells_with (c_inf O) cells.
  Proof. reflexivity. Qed.

  (* in an instance without infinite values (the reals) the scan never stops *)
  Lemma norm_scan_noinf (no_inf : forall x, isinf O x = false) cells : forall w, norm_scan O cells w <> None.
  Proof.
    induction cells as [|a l IH]; intros w; cbn [norm_scan].
    - discriminate.
    - rewrite no_inf. apply IH.
  Qed.

  Lemma norm_cells_with_noinf (no_inf : forall x, isinf O x = false) inf cells : norm_cells_with inf cells = norm_cells O cells.
  Proof.
    unfold norm_cells_with, norm_cells. destruct (norm_scan O cells (ofZ O 0)) eqn:E; [reflexivity|].
    exfalso. exact (norm_scan_noinf no_inf cells _ E).
  Qed.
End Lemmas.
