From Coq Require Extraction.
From Coq Require Import ExtrOcamlBasic.
From LibaV Require Import C19.IntDefs.
Extraction "C19/extracted/intmodel.ml" u32_sqrt u64_sqrt isqrt_old u32_gcd u64_gcd u32_lcm u64_lcm
  u8_rev u16_rev u32_rev u64_rev setl setb getl getb.
