From Coq Require Import NArith Lia ZArith Znumtheory.
From LibaV Require Import C19.IntDefs.
Local Open Scope N_scope.
Ltac Zify.zify_post_hook ::= Z.to_euclidean_division_equations.

(* ---------- Newton step facts (over N, exact) ---------- *)

Lemma sqrt_bounds x : let r := N.sqrt x in r * r <= x < (r + 1) * (r + 1).
Proof.
  cbv zeta. pose proof (N.sqrt_spec x (N.le_0_l x)) as H.
  cbn [N.succ] in H. rewrite <- N.add_1_r in H. exact H.
Qed.

Lemma div_lt_upper (x s q : N) : 0 < s -> x < s * q -> x / s < q.
Proof. intros Hs H. apply N.div_lt_upper_bound; lia. Qed.

(* AM-GM on integers: the Newton step never goes below the root *)
Lemma newton_step_ge x s : 0 < s -> N.sqrt x <= (s + x / s) / 2.
Proof.
  intros Hs. pose proof (sqrt_bounds x) as Hr. cbv zeta in Hr.
  set (r := N.sqrt x) in *. set (q := x / s).
  assert (Hq : x < s * (q + 1)).
  { unfold q. pose proof (N.mul_succ_div_gt x s ltac:(lia)). lia. }
  apply N.div_le_lower_bound; [lia|].
  (* 2 r <= s + q, otherwise (s+q+1)^2 <= 4 r^2 <= 4 x < 4 s (q+1) <= (s+q+1)^2 *)
  destruct (N.le_gt_cases (2 * r) (s + q)) as [H|H]; [exact H|exfalso].
  assert (H1 : s + q + 1 <= 2 * r) by lia.
  assert (H2 : (s + q + 1) * (s + q + 1) <= 2 * r * (2 * r)) by (apply N.mul_le_mono; lia).
  assert (H3 : 4 * (s * (q + 1)) <= (s + q + 1) * (s + q + 1)).
  { assert (E : (s + q + 1) * (s + q + 1) = 4 * (s * (q + 1)) + (s - (q + 1)) * (s - (q + 1)) \/
                (s + q + 1) * (s + q + 1) = 4 * (s * (q + 1)) + ((q + 1) - s) * ((q + 1) - s)).
    { destruct (N.le_gt_cases (q + 1) s); [left|right]; nia. }
    destruct E as [E|E]; rewrite E; lia. }
  nia.
Qed.

Lemma newton_step_le x s : N.sqrt x < s -> (s + x / s) / 2 <= (s + N.sqrt x) / 2.
Proof.
  intros Hs. pose proof (sqrt_bounds x) as Hr. cbv zeta in Hr.
  set (r := N.sqrt x) in *.
  assert (x / s < r + 1).
  { apply div_lt_upper; [lia|]. nia. }
  apply N.div_le_mono; lia.
Qed.

Lemma newton_fix_ge x : let r := N.sqrt x in 0 < r -> r <= (r + x / r) / 2.
Proof. cbv zeta. intros H. apply newton_step_ge. exact H. Qed.

Lemma div_sqrt_le x s : N.sqrt x <= s -> 0 < s -> x / s <= N.sqrt x + 2.
Proof.
  intros H Hs. pose proof (sqrt_bounds x) as Hr. cbv zeta in Hr.
  set (r := N.sqrt x) in *.
  assert (x / s < r + 3); [|lia].
  apply div_lt_upper; [lia|]. nia.
Qed.

(* ---------- the loop ---------- *)

Section Loop.
  Variable w : N.
  Variable x : N.
  Hypothesis Hw : 4 <= w.
  Hypothesis Hx : x < 2 ^ w.
  Hypothesis Hx1 : 1 < x.

  Let r := N.sqrt x.

  Lemma r_pos : 0 < r.
  Proof.
    unfold r. pose proof (sqrt_bounds x) as H. cbv zeta in H.
    destruct (N.eq_0_gt_0_cases (N.sqrt x)) as [E|E]; [rewrite E in H; lia|exact E].
  Qed.

  Lemma r_small : r < 2 ^ (w / 2 + w mod 2) /\ r * r < 2 ^ w.
  Proof.
    pose proof (sqrt_bounds x) as Hr. cbv zeta in Hr. fold r in Hr.
    split; [|lia].
    destruct (N.le_gt_cases (2 ^ (w / 2 + w mod 2)) r) as [H|H]; [exfalso|exact H].
    pose proof (N.mul_le_mono _ _ _ _ H H) as H0.
    rewrite <- N.pow_add_r in H0.
    assert (2 ^ w <= 2 ^ (w / 2 + w mod 2 + (w / 2 + w mod 2))).
    { apply N.pow_le_mono_r; [lia|]. pose proof (N.div_mod w 2 ltac:(lia)). lia. }
    lia.
  Qed.

  Lemma no_wrap s : r <= s -> s < 2 ^ w / 2 -> wrap w (s + x / s) = s + x / s.
  Proof.
    intros H1 H2. unfold wrap. apply N.mod_small.
    pose proof r_pos. pose proof (div_sqrt_le x s H1 ltac:(lia)). fold r in H0.
    pose proof r_small as [_ Hrr].
    assert (H16 : 16 <= 2 ^ w).
    { change 16 with (2 ^ 4). apply N.pow_le_mono_r; lia. }
    set (P := 2 ^ w) in *. set (h := P / 2) in *.
    assert (Hh : 2 * h <= P < 2 * h + 2) by (unfold h; lia).
    assert (r + 2 <= h).
    { destruct (N.le_gt_cases (r + 2) h) as [Hle|Hgt]; [assumption|exfalso].
      set (k := h - 1). assert (Hk : h = k + 1) by lia.
      assert (k <= r) by lia.
      pose proof (N.mul_le_mono _ _ _ _ H3 H3).
      assert (7 <= k) by lia. nia. }
    lia.
  Qed.

  Lemma newton_correct : forall (f : nat) (s : N),
      r <= s -> s < 2 ^ w / 2 -> s - r < 2 ^ N.of_nat f ->
      newton (S f) w x s = Some r.
  Proof.
    induction f as [|f IH]; intros s Hrs Hs Hex.
    - (* excess 0: s = r *)
      assert (s = r) by (cbn in Hex; lia). subst s.
      pose proof r_pos. cbn [newton].
      destruct (N.eqb_spec r 0); [lia|].
      rewrite no_wrap by assumption. rewrite N.shiftr_div_pow2. change (2 ^ 1) with 2.
      pose proof (newton_fix_ge x). cbv zeta in H0. fold r in H0. specialize (H0 H).
      destruct (N.ltb_spec ((r + x / r) / 2) r); [lia|reflexivity].
    - pose proof r_pos. cbn [newton].
      destruct (N.eqb_spec s 0); [lia|].
      rewrite no_wrap by assumption. rewrite N.shiftr_div_pow2. change (2 ^ 1) with 2.
      pose proof (newton_step_ge x s ltac:(lia)) as Hge. fold r in Hge.
      destruct (N.ltb_spec ((s + x / s) / 2) s) as [Hlt|Hnlt].
      + (* descend *)
        destruct (N.eq_dec s r) as [->|Hne].
        * pose proof (newton_fix_ge x). cbv zeta in H0. fold r in H0. specialize (H0 H). lia.
        * assert (Hgt : r < s) by lia.
          pose proof (newton_step_le x s Hgt) as Hle. fold r in Hle.
          apply IH; [exact Hge| lia |].
          assert ((s + r) / 2 - r <= (s - r) / 2).
          { replace (s + r) with ((s - r) + r * 2) by lia.
            rewrite N.div_add by lia. lia. }
          assert ((s - r) / 2 < 2 ^ N.of_nat f).
          { apply N.div_lt_upper_bound; [lia|].
            rewrite Nat2N.inj_succ, N.pow_succ_r' in Hex. lia. }
          lia.
      + (* stop: s <= step(s); then s = r *)
        destruct (N.eq_dec s r) as [->|Hne]; [reflexivity|exfalso].
        assert (Hgt : r < s) by lia.
        pose proof (newton_step_le x s Hgt) as Hle. fold r in Hle.
        assert ((s + r) / 2 < s).
        { apply N.div_lt_upper_bound; lia. }
        lia.
  Qed.
End Loop.

(* ---------- start value ---------- *)

Lemma start_above (w x : N) :
  4 <= w -> N.even w = true -> 1 < x -> x < 2 ^ w ->
  let s := sqrt_start w x in N.sqrt x <= s /\ s < 2 ^ w / 2 /\ s <= 2 ^ (w / 2).
Proof.
  intros Hw Hev Hx1 Hx. cbv zeta. unfold sqrt_start, bsr.
  rewrite N.shiftl_1_l, N.shiftr_div_pow2. change (2 ^ 1) with 2.
  set (b := N.log2 x).
  assert (Hb : 2 ^ b <= x < 2 ^ (b + 1)).
  { pose proof (N.log2_spec x ltac:(lia)). rewrite N.add_1_r. exact H. }
  assert (Hbw : b < w).
  { apply N.log2_lt_pow2; lia. }
  assert (Hk : (b + 2) / 2 <= w / 2).
  { apply N.even_spec in Hev. destruct Hev as [m ->].
    rewrite (N.mul_comm 2 m), N.div_mul by lia.
    lia. }
  assert (Hpk : 2 ^ ((b + 2) / 2) <= 2 ^ (w / 2)) by (apply N.pow_le_mono_r; lia).
  assert (Hhalf : 2 ^ (w / 2) < 2 ^ w / 2).
  { apply N.even_spec in Hev. destruct Hev as [m ->].
    rewrite (N.mul_comm 2 m), N.div_mul by lia.
    assert (2 <= m) by lia.
    replace (m * 2) with (m + m) by lia. rewrite N.pow_add_r.
    assert (4 <= 2 ^ m). { change 4 with (2 ^ 2). apply N.pow_le_mono_r; lia. }
    set (p := 2 ^ m) in *. clearbody p. assert (4 * p <= p * p) by nia. lia. }
  assert (H2w : 2 * (2 ^ w / 2) <= 2 ^ w) by (apply N.mul_div_le; lia).
  unfold wrap. rewrite N.mod_small by lia.
  split; [|split; lia].
  (* x < 2^(b+1) <= (2^((b+2)/2))^2 *)
  pose proof (sqrt_bounds x) as Hr. cbv zeta in Hr.
  set (r := N.sqrt x) in *. set (k := (b + 2) / 2) in *.
  destruct (N.le_gt_cases r (2 ^ k)) as [H|H]; [exact H|exfalso].
  assert (2 ^ k * 2 ^ k < r * r) by (apply N.mul_lt_mono; lia).
  rewrite <- N.pow_add_r in H0.
  assert (2 ^ (b + 1) <= 2 ^ (k + k)).
  { apply N.pow_le_mono_r; [lia|]. unfold k.
    pose proof (N.div_mod (b + 2) 2 ltac:(lia)).
    pose proof (N.mod_upper_bound (b + 2) 2 ltac:(lia)). lia. }
  lia.
Qed.

(* ---------- main theorem ---------- *)

Theorem isqrt_correct (w x : N) :
  4 <= w -> w <= 76 -> N.even w = true -> x < 2 ^ w ->
  isqrt w x = Some (N.sqrt x).
Proof.
  intros Hw Hw2 Hev Hx. unfold isqrt, isqrt_with.
  destruct (N.leb_spec x 1) as [Hle|Hgt].
  - f_equal. unfold wrap. rewrite N.mod_small.
    + assert (x = 0 \/ x = 1) as [-> | ->] by lia; reflexivity.
    + assert (2 <= 2 ^ (w / 2)).
      { change 2 with (2 ^ 1) at 1. apply N.pow_le_mono_r; [lia|].
        apply N.div_le_lower_bound; lia. }
      lia.
  - pose proof (start_above w x Hw Hev Hgt Hx) as (Hs1 & Hs2 & Hs3). cbv zeta in *.
    unfold sqrt_fuel.
    rewrite (newton_correct w x ltac:(lia) Hx Hgt 39 (sqrt_start w x) Hs1 Hs2).
    + f_equal. unfold wrap. apply N.mod_small.
      pose proof (r_small w x) as Hrs.
      repeat (match type of Hrs with ?A -> _ => let h := fresh in assert (h : A) by (assumption || lia); specialize (Hrs h) end).
      destruct Hrs as [Hr _].
      apply N.even_spec in Hev. destruct Hev as [m Hm].
      replace (w mod 2) with 0 in Hr; [rewrite N.add_0_r in Hr; exact Hr|].
      subst w. rewrite N.mul_comm, N.mod_mul; lia.
    + (* excess < 2^39: start <= 2^(w/2) <= 2^38 *)
      assert (2 ^ (w / 2) <= 2 ^ 38).
      { apply N.pow_le_mono_r; [lia|]. apply N.div_le_upper_bound; lia. }
      change (N.of_nat 39) with 39.
      assert (2 ^ 38 < 2 ^ 39) by (apply N.pow_lt_mono_r; lia).
      lia.
Qed.

Corollary u32_sqrt_spec x : x < 2 ^ 32 ->
  exists r, u32_sqrt x = Some r /\ r * r <= x < (r + 1) * (r + 1).
Proof.
  intros H. exists (N.sqrt x). split.
  - apply isqrt_correct; [lia|lia|reflexivity|exact H].
  - apply sqrt_bounds.
Qed.

Corollary u64_sqrt_spec x : x < 2 ^ 64 ->
  exists r, u64_sqrt x = Some r /\ r * r <= x < (r + 1) * (r + 1).
Proof.
  intros H. exists (N.sqrt x). split.
  - apply isqrt_correct; [lia|lia|reflexivity|exact H].
  - apply sqrt_bounds.
Qed.

(* the pinned tree's start value 2^((bsr+1)>>1) refutes the statement *)
Lemma isqrt_old_refuted : exists x, x < 2 ^ 32 /\ isqrt_old 32 x = Some 4 /\ x = 25.
Proof. exists 25. split; [reflexivity|]. split; [vm_compute; reflexivity|reflexivity]. Qed.

(* non-vacuity *)
Example isqrt_ex : u32_sqrt 4294967295 = Some 65535 /\ u64_sqrt 18446744073709551615 = Some 4294967295
                   /\ u32_sqrt 25 = Some 5 /\ u32_sqrt 24 = Some 4.
Proof. vm_compute. auto. Qed.
