From Coq Require Import NArith Lia ZArith.
From LibaV Require Import C19.IntDefs.
Local Open Scope N_scope.
Ltac Zify.zify_post_hook ::= Z.to_euclidean_division_equations.

Lemma gcd_step a b : b <> 0 -> N.gcd b (a mod b) = N.gcd a b.
Proof.
  intros Hb. rewrite (N.gcd_comm a b). rewrite (N.gcd_comm b (a mod b)).
  apply N.gcd_mod. exact Hb.
Qed.

Lemma mod_half a b : 0 < b -> b <= a -> 2 * (a mod b) <= a.
Proof.
  intros Hb Hba.
  pose proof (N.div_mod a b ltac:(lia)) as E. pose proof (N.mod_upper_bound a b ltac:(lia)) as U.
  assert (Q : 1 <= a / b) by (apply N.div_le_lower_bound; lia).
  set (q := a / b) in *. set (r := a mod b) in *. clearbody q r.
  assert (b * 1 <= b * q) by (apply N.mul_le_mono_l; exact Q). lia.
Qed.

(* two Euclid steps at least halve the second argument *)
Lemma gcd_loop_correct : forall (k : nat) (a b : N),
    b < 2 ^ N.of_nat k -> gcd_loop (2 * k + 1) a b = Some (N.gcd a b).
Proof.
  induction k as [|k IH]; intros a b Hb.
  - assert (b = 0) by (cbn in Hb; lia). subst b. cbn. rewrite N.gcd_0_r. reflexivity.
  - replace (2 * S k + 1)%nat with (S (S (2 * k + 1))) by lia.
    cbn [gcd_loop].
    destruct (N.eqb_spec b 0) as [->|Hb0]; [rewrite N.gcd_0_r; reflexivity|].
    set (r1 := a mod b).
    destruct (N.eqb_spec r1 0) as [Hr1|Hr1].
    + rewrite <- (gcd_step a b Hb0). fold r1. rewrite Hr1, N.gcd_0_r. reflexivity.
    + rewrite <- (gcd_step a b Hb0). fold r1. rewrite <- (gcd_step b r1 Hr1).
      apply IH.
      assert (r1 < b) by (apply N.mod_upper_bound; exact Hb0).
      pose proof (mod_half b r1 ltac:(lia) ltac:(lia)) as H2.
      rewrite Nat2N.inj_succ, N.pow_succ_r' in Hb. lia.
Qed.

Lemma gcd_loop_more : forall (f g : nat) a b r, gcd_loop f a b = Some r -> (f <= g)%nat -> gcd_loop g a b = Some r.
Proof.
  induction f as [|f IH]; intros g a b r H Hle; [discriminate|].
  destruct g as [|g]; [lia|]. cbn [gcd_loop] in *.
  destruct (b =? 0); [exact H|]. apply IH; [exact H|lia].
Qed.

Theorem gcd_w_correct (w : nat) a b : b < 2 ^ N.of_nat w -> gcd_w w a b = Some (N.gcd a b).
Proof.
  intros Hb. unfold gcd_w, gcd_fuel.
  apply gcd_loop_more with (f := (2 * w + 1)%nat); [|lia].
  apply gcd_loop_correct. exact Hb.
Qed.

(* the property's wording: divides both, and is the greatest such (0 only for two zeros) *)
Theorem gcd_w_spec (w : nat) a b : b < 2 ^ N.of_nat w ->
  exists g, gcd_w w a b = Some g /\ N.divide g a /\ N.divide g b /\
            (forall d, N.divide d a -> N.divide d b -> N.divide d g /\ (g <> 0 -> d <= g)) /\
            (g = 0 <-> a = 0 /\ b = 0).
Proof.
  intros Hb. exists (N.gcd a b). split; [apply gcd_w_correct; exact Hb|].
  split; [apply N.gcd_divide_l|]. split; [apply N.gcd_divide_r|]. split.
  - intros d Ha Hd. pose proof (N.gcd_greatest a b d Ha Hd) as Hg. split; [exact Hg|].
    intros Hne. apply N.divide_pos_le; [lia|exact Hg].
  - apply N.gcd_eq_0.
Qed.

(* lcm: r = a / gcd * b, wrapping *)
Theorem lcm_w_correct (w : nat) a b : b < 2 ^ N.of_nat w ->
  lcm_w w a b = Some (wrap (N.of_nat w) (N.lcm a b)).
Proof.
  intros Hb. unfold lcm_w. rewrite gcd_w_correct by exact Hb.
  destruct (N.eqb_spec (N.gcd a b) 0) as [H0|H0].
  - apply N.gcd_eq_0 in H0. destruct H0 as [-> ->]. reflexivity.
  - f_equal. f_equal. unfold N.lcm.
    destruct (N.gcd_divide_l a b) as [p Hp]. destruct (N.gcd_divide_r a b) as [q Hq].
    set (g := N.gcd a b) in *.
    rewrite Hp at 1. rewrite N.div_mul by exact H0.
    rewrite Hq at 2. rewrite N.div_mul by exact H0.
    rewrite Hp at 1. rewrite Hq at 1. ring.
Qed.

Theorem lcm_gcd_product (w : nat) a b :
  b < 2 ^ N.of_nat w -> N.lcm a b < 2 ^ N.of_nat w ->
  exists l g, lcm_w w a b = Some l /\ gcd_w w a b = Some g /\ l * g = a * b /\ l = N.lcm a b.
Proof.
  intros Hb Hl. exists (N.lcm a b), (N.gcd a b).
  rewrite lcm_w_correct, gcd_w_correct by exact Hb.
  unfold wrap. rewrite N.mod_small by exact Hl.
  repeat split. unfold N.lcm.
  destruct (N.eq_dec (N.gcd a b) 0) as [H0|H0].
  - apply N.gcd_eq_0 in H0. destruct H0 as [-> ->]. reflexivity.
  - destruct (N.gcd_divide_r a b) as [q Hq]. set (g := N.gcd a b) in *.
    rewrite Hq at 1. rewrite N.div_mul by exact H0.
    transitivity (a * (q * g)); [ring | rewrite <- Hq; reflexivity].
Qed.

Example gcd_ex : u32_gcd 6 9 = Some 3 /\ u32_lcm 6 9 = Some 18 /\ u64_gcd 0 0 = Some 0 /\ u64_lcm 0 7 = Some 0
                 /\ u32_gcd 4294967295 4294967294 = Some 1
                 /\ u64_gcd 12200160415121876738 7540113804746346429 = Some 1.  (* consecutive Fibonacci numbers: the slowest case *)
Proof. vm_compute. repeat split. Qed.
