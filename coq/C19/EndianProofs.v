From Coq Require Import NArith ZArith Arith PeanoNat Lia List Bool.
From LibaV Require Import C19.IntDefs.
Import ListNotations.
Local Open Scope N_scope.
Ltac Zify.zify_post_hook ::= Z.to_euclidean_division_equations.

Lemma small_bits_high b j : b < 2 ^ 8 -> 8 <= j -> N.testbit b j = false.
Proof.
  intros Hb Hj. destruct (N.eq_dec b 0) as [->|Hb0]; [apply N.bits_0|].
  apply N.bits_above_log2. apply N.log2_lt_pow2 in Hb; lia.
Qed.

(* the accumulated OR of bytes placed at positions pos(i) *)
Definition acc_or (pos : nat -> N) (p : list N) (m : nat) : N :=
  fold_left (fun acc i => N.lor acc (N.shiftl (nth i p 0) (pos i))) (seq 0 m) 0.

Lemma acc_or_S pos p m : acc_or pos p (S m) = N.lor (acc_or pos p m) (N.shiftl (nth m p 0) (pos m)).
Proof. unfold acc_or. rewrite seq_S, fold_left_app. reflexivity. Qed.

(* little endian: pos i = 8 i *)
Lemma acc_or_l_bits p : Forall (fun b => b < 2 ^ 8) p -> forall m j, (m <= length p)%nat ->
  N.testbit (acc_or (fun i => 8 * N.of_nat i) p m) j =
  if j <? 8 * N.of_nat m then N.testbit (nth (N.to_nat (j / 8)) p 0) (j mod 8) else false.
Proof.
  intros Hp. induction m as [|m IH]; intros j Hm.
  - unfold acc_or. cbn [seq fold_left]. rewrite N.bits_0. destruct (N.ltb_spec j (8 * N.of_nat 0)); [lia|reflexivity].
  - rewrite acc_or_S, N.lor_spec, IH by lia.
    assert (Hb : nth m p 0 < 2 ^ 8).
    { rewrite Forall_forall in Hp. apply Hp. apply nth_In. lia. }
    destruct (N.ltb_spec j (8 * N.of_nat m)) as [H1|H1].
    + rewrite N.shiftl_spec_low by exact H1. rewrite orb_false_r.
      destruct (N.ltb_spec j (8 * N.of_nat (S m))); [reflexivity|lia].
    + rewrite N.shiftl_spec_high' by exact H1. cbn [orb].
      destruct (N.ltb_spec j (8 * N.of_nat (S m))) as [H2|H2].
      * assert (E : j / 8 = N.of_nat m) by lia. rewrite E, Nat2N.id. f_equal. lia.
      * apply small_bits_high; [exact Hb|lia].
Qed.

Lemma wrap_bits w x j : N.testbit (wrap w x) j = if j <? w then N.testbit x j else false.
Proof.
  unfold wrap. destruct (N.ltb_spec j w).
  - apply N.mod_pow2_bits_low. assumption.
  - apply N.mod_pow2_bits_high. assumption.
Qed.

Lemma setl_length n x : length (setl n x) = n.
Proof. unfold setl. rewrite map_length, seq_length. reflexivity. Qed.

Lemma nth_map_seq {A} (f : nat -> A) n i d : (i < n)%nat -> nth i (map f (seq 0 n)) d = f i.
Proof.
  intros H. rewrite (nth_indep _ d (f 0%nat)) by (rewrite map_length, seq_length; lia).
  rewrite (map_nth f). rewrite seq_nth by lia. reflexivity.
Qed.

Lemma setl_nth n x i : (i < n)%nat -> nth i (setl n x) 0 = byte_of x (8 * N.of_nat i).
Proof.
  intros Hi. unfold setl. rewrite nth_map_seq by exact Hi. reflexivity.
Qed.

Lemma byte_of_lt x sh : byte_of x sh < 2 ^ 8.
Proof. unfold byte_of, wrap. apply N.mod_upper_bound. discriminate. Qed.

Lemma setl_bytes n x : Forall (fun b => b < 2 ^ 8) (setl n x).
Proof. unfold setl. apply Forall_forall. intros b Hb. apply in_map_iff in Hb. destruct Hb as [i [<- _]]. apply byte_of_lt. Qed.

(* byte layout, as the names state, independent of any host order *)
Theorem setl_layout n x i : (i < n)%nat -> nth i (setl n x) 0 = (x / 2 ^ (8 * N.of_nat i)) mod 256.
Proof. intros Hi. rewrite setl_nth by exact Hi. unfold byte_of, wrap. rewrite N.shiftr_div_pow2. reflexivity. Qed.

Theorem setb_is_rev_setl n x : setb n x = rev (setl n x).
Proof.
  unfold setb, setl.
  induction n as [|n IH]; [reflexivity|].
  rewrite seq_S at 2. rewrite map_app, rev_app_distr. cbn [map rev app].
  cbn [seq map]. f_equal.
  - f_equal. f_equal. lia.
  - rewrite <- IH. rewrite <- seq_shift, map_map. apply map_ext_in. intros i Hi. apply in_seq in Hi.
    f_equal. f_equal. lia.
Qed.

Theorem get_set_l n x : x < 2 ^ (8 * N.of_nat n) -> getl n (setl n x) = x.
Proof.
  intros Hx. unfold getl. fold (acc_or (fun i => 8 * N.of_nat i) (setl n x) n).
  apply N.bits_inj. intro j. rewrite wrap_bits.
  rewrite acc_or_l_bits by (try apply setl_bytes; rewrite setl_length; lia).
  destruct (N.ltb_spec j (8 * N.of_nat n)) as [Hj|Hj].
  - rewrite setl_nth by lia. unfold byte_of. rewrite wrap_bits.
    destruct (N.ltb_spec (j mod 8) 8); [|lia].
    rewrite N.shiftr_spec'. f_equal. lia.
  - symmetry. destruct (N.eq_dec x 0) as [->|Hx0]; [apply N.bits_0|].
    apply N.bits_above_log2. apply N.log2_lt_pow2 in Hx; lia.
Qed.

Lemma getl_lt n p : getl n p < 2 ^ (8 * N.of_nat n).
Proof. unfold getl, wrap. apply N.mod_upper_bound. apply N.pow_nonzero. lia. Qed.

Theorem set_get_l n p : length p = n -> Forall (fun b => b < 2 ^ 8) p -> setl n (getl n p) = p.
Proof.
  intros Hlen Hp. apply nth_ext with (d := 0) (d' := 0); [rewrite setl_length; lia|].
  rewrite setl_length. intros i Hi. rewrite setl_nth by exact Hi.
  apply N.bits_inj. intro j. unfold byte_of. rewrite wrap_bits.
  assert (Hb : nth i p 0 < 2 ^ 8).
  { rewrite Forall_forall in Hp. apply Hp. apply nth_In. lia. }
  destruct (N.ltb_spec j 8) as [Hj|Hj].
  - rewrite N.shiftr_spec'. unfold getl. fold (acc_or (fun i => 8 * N.of_nat i) p n).
    rewrite wrap_bits. rewrite acc_or_l_bits by (try assumption; lia).
    destruct (N.ltb_spec (j + 8 * N.of_nat i) (8 * N.of_nat n)); [|lia].
    assert (E : (j + 8 * N.of_nat i) / 8 = N.of_nat i) by lia. rewrite E, Nat2N.id. f_equal. lia.
  - symmetry. apply small_bits_high; assumption.
Qed.

(* big endian accessors are the little endian ones on the reversed byte list *)
Lemma fold_or_ext (f g : nat -> N) l a :
  (forall i, In i l -> f i = g i) ->
  fold_left (fun acc i => N.lor acc (f i)) l a = fold_left (fun acc i => N.lor acc (g i)) l a.
Proof.
  revert a. induction l as [|i l IH]; intros a H; [reflexivity|]. cbn [fold_left].
  rewrite H by (left; reflexivity). apply IH. intros j Hj. apply H. right. exact Hj.
Qed.

Lemma fold_or_bits (f : nat -> N) l a j :
  N.testbit (fold_left (fun acc i => N.lor acc (f i)) l a) j = N.testbit a j || existsb (fun i => N.testbit (f i) j) l.
Proof.
  revert a. induction l as [|i l IH]; intros a; cbn [fold_left existsb]; [rewrite orb_false_r; reflexivity|].
  rewrite IH, N.lor_spec, orb_assoc. reflexivity.
Qed.

Lemma existsb_rev_seq (P : nat -> bool) n :
  existsb (fun i => P (n - 1 - i)%nat) (seq 0 n) = existsb P (seq 0 n).
Proof.
  destruct (existsb P (seq 0 n)) eqn:E.
  - apply existsb_exists in E. destruct E as [i [Hi HP]]. apply in_seq in Hi.
    apply existsb_exists. exists (n - 1 - i)%nat. split; [apply in_seq; lia|].
    replace (n - 1 - (n - 1 - i))%nat with i by lia. exact HP.
  - destruct (existsb (fun i => P (n - 1 - i)%nat) (seq 0 n)) eqn:E2; [|reflexivity].
    apply existsb_exists in E2. destruct E2 as [i [Hi HP]]. apply in_seq in Hi.
    assert (existsb P (seq 0 n) = true); [|congruence].
    apply existsb_exists. exists (n - 1 - i)%nat. split; [apply in_seq; lia|exact HP].
Qed.

Lemma existsb_ext_in' {A} (f g : A -> bool) l : (forall x, In x l -> f x = g x) -> existsb f l = existsb g l.
Proof.
  induction l as [|a l IH]; intros H; [reflexivity|]. cbn [existsb].
  rewrite H by (left; reflexivity). rewrite IH; [reflexivity|]. intros x Hx. apply H. right. exact Hx.
Qed.

Theorem getb_is_getl_rev n p : length p = n -> getb n p = getl n (rev p).
Proof.
  intros Hlen. unfold getb, getl. f_equal. apply N.bits_inj. intro j.
  rewrite (fold_or_bits (fun i => N.shiftl (nth i p 0) (8 * N.of_nat (n - 1 - i)))).
  rewrite (fold_or_bits (fun i => N.shiftl (nth i (rev p) 0) (8 * N.of_nat i))).
  f_equal.
  rewrite <- (existsb_rev_seq (fun i => N.testbit (N.shiftl (nth i p 0) (8 * N.of_nat (n - 1 - i))) j) n).
  apply existsb_ext_in'. intros i Hi. apply in_seq in Hi.
  rewrite rev_nth by lia. rewrite Hlen.
  replace (n - S i)%nat with (n - 1 - i)%nat by lia.
  replace (n - 1 - (n - 1 - i))%nat with i by lia. reflexivity.
Qed.

Theorem get_set_b n x : x < 2 ^ (8 * N.of_nat n) -> getb n (setb n x) = x.
Proof.
  intros Hx. rewrite getb_is_getl_rev by (rewrite setb_is_rev_setl, rev_length, setl_length; reflexivity).
  rewrite setb_is_rev_setl, rev_involutive. apply get_set_l. exact Hx.
Qed.

Theorem set_get_b n p : length p = n -> Forall (fun b => b < 2 ^ 8) p -> setb n (getb n p) = p.
Proof.
  intros Hlen Hp. rewrite setb_is_rev_setl, getb_is_getl_rev by exact Hlen.
  rewrite set_get_l; [apply rev_involutive|rewrite rev_length; exact Hlen|].
  apply Forall_forall. intros b Hb. rewrite Forall_forall in Hp. apply Hp. apply in_rev. exact Hb.
Qed.

Theorem setb_layout n x i : (i < n)%nat -> nth i (setb n x) 0 = (x / 2 ^ (8 * N.of_nat (n - 1 - i))) mod 256.
Proof.
  intros Hi. unfold setb. rewrite nth_map_seq by exact Hi. unfold byte_of, wrap. rewrite N.shiftr_div_pow2. reflexivity.
Qed.

Example endian_ex : setl 4 0x12345678 = [0x78; 0x56; 0x34; 0x12] /\ setb 4 0x12345678 = [0x12; 0x34; 0x56; 0x78]
                    /\ getl 2 [0x34; 0x12] = 0x1234 /\ getb 8 [1;2;3;4;5;6;7;8] = 0x0102030405060708.
Proof. vm_compute. repeat split. Qed.
