(* C19 model: integer square root, gcd/lcm, bit reversal, byte-order accessors.
   Anchors: /repo/src/math.c (a_u32_gcd .. a_u64_sqrt), /repo/include/a/a.h (a_u*_rev,
   a_u*_get[lb], a_u*_set[lb]).  Machine words are N with the wrap written out.
   No proofs in this file. *)
From Coq Require Import NArith List.
Import ListNotations.
Local Open Scope N_scope.

Definition wrap (w x : N) : N := x mod 2 ^ w.

(* ---------------------------------------------------------------- sqrt *)
(* do { x0 = x1; x1 = (x0 + x / x0) >> 1; } while (x0 > x1); return x0;
   A division by zero (undefined in C) is an error of the model, not a value. *)
Fixpoint newton (fuel : nat) (w x x0 : N) : option N :=
  match fuel with
  | O => None
  | S f =>
      if x0 =? 0 then None
      else
        let x1 := N.shiftr (wrap w (x0 + x / x0)) 1 in
        if x1 <? x0 then newton f w x x1 else Some x0
  end.

(* A_U32_BSR(x) = 31 - clz(x) = floor(log2 x) for x > 0 *)
Definition bsr (x : N) : N := N.log2 x.

(* x1 = 1; x1 <<= (BSR(x) + 2) >> 1;   (after the fix; the pinned tree had (BSR(x) + 1) >> 1) *)
Definition sqrt_start (w x : N) : N := wrap w (N.shiftl 1 (N.shiftr (bsr x + 2) 1)).
Definition sqrt_start_old (w x : N) : N := wrap w (N.shiftl 1 (N.shiftr (bsr x + 1) 1)).

Definition sqrt_fuel : nat := 40.

Definition isqrt_with (start : N -> N -> N) (w x : N) : option N :=
  if x <=? 1 then Some (wrap (w / 2) x)
  else match newton sqrt_fuel w x (start w x) with
       | Some r => Some (wrap (w / 2) r)   (* the (a_u16) / (a_u32) cast of the result *)
       | None => None
       end.

Definition isqrt (w x : N) : option N := isqrt_with sqrt_start w x.
Definition isqrt_old (w x : N) : option N := isqrt_with sqrt_start_old w x.

Definition u32_sqrt := isqrt 32.
Definition u64_sqrt := isqrt 64.

(* ------------------------------------------------------------- gcd / lcm *)
(* while (b) { r = a % b; a = b; b = r; } return a; *)
Fixpoint gcd_loop (fuel : nat) (a b : N) : option N :=
  match fuel with
  | O => None
  | S f => if b =? 0 then Some a else gcd_loop f b (a mod b)
  end.

Definition gcd_fuel (w : nat) : nat := 2 * w + 2.

Definition gcd_w (w : nat) (a b : N) : option N := gcd_loop (gcd_fuel w) a b.

(* r = gcd(a, b); if (r) { r = a / r * b; } return r;   (multiplication wraps) *)
Definition lcm_w (w : nat) (a b : N) : option N :=
  match gcd_w w a b with
  | Some r => if r =? 0 then Some r else Some (wrap (N.of_nat w) (a / r * b))
  | None => None
  end.

Definition u32_gcd := gcd_w 32.
Definition u64_gcd := gcd_w 64.
Definition u32_lcm := lcm_w 32.
Definition u64_lcm := lcm_w 64.

(* ------------------------------------------------------------ bit reversal *)
(* x = ((x & m1) >> k) | ((x & m2) << k), truncated to the word *)
Definition stage (w k m1 m2 x : N) : N :=
  wrap w (N.lor (N.shiftr (N.land x m1) k) (N.shiftl (N.land x m2) k)).

Definition u8_rev (x : N) : N :=
  let x := stage 8 4 0xFF 0xFF x in
  let x := stage 8 2 0xCC 0x33 x in
  stage 8 1 0xAA 0x55 x.

Definition u16_rev (x : N) : N :=
  let x := stage 16 8 0xFFFF 0xFFFF x in
  let x := stage 16 4 0xF0F0 0x0F0F x in
  let x := stage 16 2 0xCCCC 0x3333 x in
  stage 16 1 0xAAAA 0x5555 x.

Definition u32_rev (x : N) : N :=
  let x := stage 32 16 0xFFFFFFFF 0xFFFFFFFF x in
  let x := stage 32 8 0xFF00FF00 0x00FF00FF x in
  let x := stage 32 4 0xF0F0F0F0 0x0F0F0F0F x in
  let x := stage 32 2 0xCCCCCCCC 0x33333333 x in
  stage 32 1 0xAAAAAAAA 0x55555555 x.

Definition u64_rev (x : N) : N :=
  let x := stage 64 32 0xFFFFFFFFFFFFFFFF 0xFFFFFFFFFFFFFFFF x in
  let x := stage 64 16 0xFFFF0000FFFF0000 0x0000FFFF0000FFFF x in
  let x := stage 64 8 0xFF00FF00FF00FF00 0x00FF00FF00FF00FF x in
  let x := stage 64 4 0xF0F0F0F0F0F0F0F0 0x0F0F0F0F0F0F0F0F x in
  let x := stage 64 2 0xCCCCCCCCCCCCCCCC 0x3333333333333333 x in
  stage 64 1 0xAAAAAAAAAAAAAAAA 0x5555555555555555 x.

(* the specification: bit i of the result is bit w-1-i of the argument *)
Fixpoint rev_bits (n w : nat) (x : N) : N :=
  match n with
  | O => 0
  | S n' => let r := rev_bits n' w x in
            if N.testbit x (N.of_nat (w - 1 - n')) then N.setbit r (N.of_nat n') else r
  end.
Definition rev_spec (w : nat) (x : N) : N := rev_bits w w x.

(* -------------------------------------------------- byte-order accessors *)
Definition byte_of (x sh : N) : N := wrap 8 (N.shiftr x sh).     (* (a_byte)(x >> sh) *)

(* p[i] = (a_byte)(x >> 8 i)  /  p[i] = (a_byte)(x >> (w - 8 - 8 i)) *)
Definition setl (nbytes : nat) (x : N) : list N :=
  map (fun i => byte_of x (8 * N.of_nat i)) (seq 0 nbytes).
Definition setb (nbytes : nat) (x : N) : list N :=
  map (fun i => byte_of x (8 * N.of_nat (nbytes - 1 - i))) (seq 0 nbytes).

(* (p[0] << 0) | (p[1] << 8) | ... truncated to the word *)
Definition getl (nbytes : nat) (p : list N) : N :=
  wrap (8 * N.of_nat nbytes)
    (fold_left (fun acc i => N.lor acc (N.shiftl (nth i p 0) (8 * N.of_nat i))) (seq 0 nbytes) 0).
Definition getb (nbytes : nat) (p : list N) : N :=
  wrap (8 * N.of_nat nbytes)
    (fold_left (fun acc i => N.lor acc (N.shiftl (nth i p 0) (8 * N.of_nat (nbytes - 1 - i)))) (seq 0 nbytes) 0).
